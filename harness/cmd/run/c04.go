package main

// C04: TL-B encodings are bit-exact with the TON schemas.
//
//	c04.spec   ('Schema go-type descriptor value) -> 'err | (cell t t)
//	           tlb.Marshal of the Go value; the model answers with its own cell,
//	           whether the descriptor refines the block.tlb transcription, and
//	           whether its cell is the schema's serialisation of the value
//	           ('prim: the schema of a primitive descriptor)
//	c04.extmsg (descriptor wc addr fee body (init?)) -> 'err | (cell t)
//	           ton.CreateExternalMessage + tlb.Marshal

import (
	"bytes"
	"encoding/hex"
	"fmt"
	"os"
	"path/filepath"
	"reflect"
	"sort"
	"strings"

	"github.com/tonkeeper/tongo/boc"
	"github.com/tonkeeper/tongo/tlb"
	"github.com/tonkeeper/tongo/ton"

	"verifharness/sx"
	"verifharness/tlbdesc"
)

func init() {
	execs["c04.spec"] = execC04Spec
	execs["c04.extmsg"] = execC04ExtMsg
	execs["c04.cur"] = execC04Cur
	gens["C04"] = genC04
}

// block.tlb name -> Go type
var c04Core = [][2]string{
	{"MsgAddress", "tlb.MsgAddress"}, {"Grams", "tlb.Grams"}, {"Grams", "tlb.VarUInteger16"},
	{"ExtraCurrencyCollection", "tlb.ExtraCurrencyCollection"}, {"CurrencyCollection", "tlb.CurrencyCollection"},
	{"CommonMsgInfo", "tlb.CommonMsgInfo"}, {"TickTock", "tlb.TickTock"}, {"SimpleLib", "tlb.SimpleLib"},
	{"StateInit", "tlb.StateInit"}, {"Message", "tlb.Message"}, {"AccountStatus", "tlb.AccountStatus"},
	{"AccStatusChange", "tlb.AccStatusChange"}, {"ComputeSkipReason", "tlb.ComputeSkipReason"},
	{"HashUpdate", "tlb.HashUpdate"}, {"StorageUsedShort", "tlb.StorageUsed"}, {"TrStoragePhase", "tlb.TrStoragePhase"},
	{"TrCreditPhase", "tlb.TrCreditPhase"}, {"TrComputePhase", "tlb.TrComputePhase"}, {"TrActionPhase", "tlb.TrActionPhase"},
	{"TrBouncePhase", "tlb.TrBouncePhase"}, {"SplitMergeInfo", "tlb.SplitMergeInfo"},
	{"TransactionDescr", "tlb.TransactionDescr"}, {"Transaction", "tlb.Transaction"}, {"SignedMsgBody", "wallet.SignedMsgBody"},
	{"IntermediateAddress", "tlb.IntermediateAddress"},
	{"MsgMetadata", "tlb.MsgMetadata"},
	{"MsgEnvelope", "tlb.MsgEnvelope"},
	{"InMsg", "tlb.InMsg"},
	{"OutMsg", "tlb.OutMsg"},
	{"EnqueuedMsg", "tlb.EnqueuedMsg"},
	{"AccountState", "tlb.AccountState"},
	{"AccountStorage", "tlb.AccountStorage"},
	{"StorageExtraInfo", "tlb.StorageExtraInfo"},
	{"StorageInfo", "tlb.StorageInfo"},
	{"ExistedAccount", "tlb.ExistedAccount"},
	{"Account", "tlb.Account"},
	{"ShardAccount", "tlb.ShardAccount"},
	{"DepthBalanceInfo", "tlb.DepthBalanceInfo"},
	{"ExtBlkRef", "tlb.ExtBlkRef"},
	{"BlkMasterInfo", "tlb.BlkMasterInfo"},
	{"ShardIdent", "tlb.ShardIdent"},
	{"BlockIdExt", "tlb.BlockIdExt"},
	{"GlobalVersion", "tlb.GlobalVersion"},
	{"ImportFees", "tlb.ImportFees"},
	{"ShardFeeCreated", "tlb.ShardFeeCreated"},
	{"KeyExtBlkRef", "tlb.KeyExtBlkRef"},
	{"KeyMaxLt", "tlb.KeyMaxLt"},
	{"ValidatorInfo", "tlb.ValidatorInfo"},
	{"ValidatorBaseInfo", "tlb.ValidatorBaseInfo"},
	{"Counters", "tlb.Counters"},
	{"CreatorStats", "tlb.CreatorStats"},
	{"ProcessedUpto", "tlb.ProcessedUpto"},
	{"IhrPendingSince", "tlb.IhrPendingSince"},
	{"SigPubKey", "tlb.SigPubKey"},
	{"CryptoSignatureSimple", "tlb.CryptoSignatureSimple"},
	{"ValidatorDescr", "tlb.ValidatorDescr"},
	{"ValidatorTempKey", "tlb.ValidatorTempKey"},
	{"Certificate", "tlb.Certificate"},
	{"StoragePrices", "tlb.StoragePrices"},
	{"MsgForwardPrices", "tlb.MsgForwardPrices"},
	{"ParamLimits", "tlb.ParamLimits"},
	{"BlockLimits", "tlb.BlockLimits"},
	{"BlockCreateFees", "tlb.BlockCreateFees"},
	{"ComplaintPricing", "tlb.ComplaintPricing"},
	{"WorkchainFormat1", "tlb.WorkchainFormat1"},
	{"WorkchainFormat0", "tlb.WorkchainFormat0"},
	{"WcSplitMergeTimings", "tlb.WcSplitMergeTimings"},
	{"PrecompiledSmc", "tlb.PrecompiledSmc"},
	{"CatchainConfig", "tlb.CatchainConfig"},
	{"ConfigParam0", "tlb.ConfigParam0"},
	{"ConfigParam1", "tlb.ConfigParam1"},
	{"ConfigParam2", "tlb.ConfigParam2"},
	{"ConfigParam3", "tlb.ConfigParam3"},
	{"ConfigParam4", "tlb.ConfigParam4"},
	{"BurningConfig", "tlb.BurningConfig"},
	{"ConfigParam5", "tlb.ConfigParam5"},
	{"ConfigParam6", "tlb.ConfigParam6"},
	{"ConfigParam7", "tlb.ConfigParam7"},
	{"ConfigParam8", "tlb.ConfigParam8"},
	{"ConfigProposalSetup", "tlb.ConfigProposalSetup"},
	{"ConfigVotingSetup", "tlb.ConfigVotingSetup"},
	{"ConfigParam11", "tlb.ConfigParam11"},
	{"ConfigProposal", "tlb.ConfigProposal"},
	{"ConfigParam13", "tlb.ConfigParam13"},
	{"ConfigParam14", "tlb.ConfigParam14"},
	{"ConfigParam15", "tlb.ConfigParam15"},
	{"ConfigParam16", "tlb.ConfigParam16"},
	{"ConfigParam17", "tlb.ConfigParam17"},
	{"ConfigParam22", "tlb.ConfigParam22"},
	{"ConfigParam23", "tlb.ConfigParam23"},
	{"ConfigParam24", "tlb.ConfigParam24"},
	{"ConfigParam25", "tlb.ConfigParam25"},
	{"ConfigParam28", "tlb.ConfigParam28"},
	{"ConsensusConfig", "tlb.ConsensusConfig"},
	{"ConfigParam29", "tlb.ConfigParam29"},
	{"MisbehaviourPunishmentConfig", "tlb.MisbehaviourPunishmentConfig"},
	{"ConfigParam40", "tlb.ConfigParam40"},
	{"SizeLimitsConfig", "tlb.SizeLimitsConfig"},
	{"ConfigParam43", "tlb.ConfigParam43"},
	{"JettonBridgePrices", "tlb.JettonBridgePrices"},
	{"OracleBridgeParams", "tlb.OracleBridgeParams"},
	{"PrecompiledContractsConfig", "tlb.PrecompiledContractsConfig"},
	{"SuspendedAddressList", "tlb.SuspendedAddressList"},
	{"AccountDispatchQueue", "tlb.AccountDispatchQueue"},
	{"BlockInfoPart", "tlb.BlockInfoPart"},
	{"WalletDataV1V2", "wallet.DataV1V2"},
	{"WalletDataV3", "wallet.DataV3"},
	{"WalletDataV4", "wallet.DataV4"},
	{"WalletDataHighloadV2", "wallet.DataHighloadV2"},
	{"WalletDataV5R1", "wallet.DataV5R1"},
	{"AddressWithWorkchain", "tlb.AddressWithWorkchain"},
}

// the Go type is found from the descriptor: the case carries the schema name,
// the generator keeps the Go type name in a side table keyed by descriptor text
var c04ByDesc map[string]*c03Type

func c04Load() {
	c03Load()
	if c04ByDesc != nil {
		return
	}
	c04ByDesc = map[string]*c03Type{}
	for _, n := range c03Names {
		ct := c03Types[n]
		if _, ok := c04ByDesc[ct.dsx]; !ok {
			c04ByDesc[ct.dsx] = ct
		}
	}
}

func execC04Spec(in sx.V) sx.V {
	c04Load()
	if in.K != sx.KL || len(in.List) != 4 || in.List[1].K != sx.KBytes {
		return sx.L(sx.A("harness-error"), sx.A("shape"))
	}
	ct := c03Types[string(in.List[1].Bytes)]
	if ct == nil || ct.class != tlbdesc.ClassDescribed || ct.dsx != in.List[2].String() {
		return sx.L(sx.A("harness-error"), sx.A("descriptor-changed"))
	}
	pv := reflect.New(ct.t)
	if err := ct.d.Fill(in.List[3], pv.Elem()); err != nil {
		return sx.L(sx.A("harness-error"), sx.A("fill"), sx.Str(err.Error()))
	}
	c := boc.NewCell()
	if err := tlb.Marshal(c, pv.Elem().Interface()); err != nil {
		return sx.A("err")
	}
	return sx.L(tlbdesc.CellSx(c), sx.B(true), sx.B(true), sx.B(c04DecodesBack(ct, c, in.List[3])))
}

// c04.cur ('Schema go-type descriptor value k): c04.spec after the read cursors
// of the bit strings / cells inside the Go value were advanced by k
func execC04Cur(in sx.V) sx.V {
	c04Load()
	if in.K != sx.KL || len(in.List) != 5 || in.List[1].K != sx.KBytes {
		return sx.L(sx.A("harness-error"), sx.A("shape"))
	}
	ct := c03Types[string(in.List[1].Bytes)]
	if ct == nil || ct.class != tlbdesc.ClassDescribed || ct.dsx != in.List[2].String() {
		return sx.L(sx.A("harness-error"), sx.A("descriptor-changed"))
	}
	pv := reflect.New(ct.t)
	if err := ct.d.Fill(in.List[3], pv.Elem()); err != nil {
		return sx.L(sx.A("harness-error"), sx.A("fill"), sx.Str(err.Error()))
	}
	tlbdesc.AdvanceCursors(pv.Elem(), in.List[4].I())
	c := boc.NewCell()
	if err := tlb.Marshal(c, pv.Elem().Interface()); err != nil {
		return sx.A("err")
	}
	return sx.L(tlbdesc.CellSx(c), sx.B(true), sx.B(true), sx.B(c04DecodesBack(ct, c, in.List[3])))
}

// c04DecodesBack: tlb.Unmarshal of the produced cell gives the value back and consumes the cell
func c04DecodesBack(ct *c03Type, c *boc.Cell, want sx.V) (ok bool) {
	defer func() {
		if r := recover(); r != nil {
			ok = false
		}
	}()
	pv := reflect.New(ct.t)
	c.ResetCounters()
	if err := tlb.Unmarshal(c, pv.Interface()); err != nil {
		return false
	}
	if !(cellFullyRead(c) || ct.d.IsTail()) {
		return false
	}
	return ct.d.Render(pv.Elem()).String() == want.String()
}

func execC04ExtMsg(in sx.V) sx.V {
	c04Load()
	mt := c03Types["tlb.Message"]
	st := c03Types["tlb.StateInit"]
	if in.K != sx.KL || len(in.List) != 6 || mt == nil || st == nil || in.List[0].String() != mt.dsx {
		return sx.L(sx.A("harness-error"), sx.A("shape"))
	}
	var id ton.AccountID
	id.Workchain = int32(in.List[1].Int.Int64())
	ab := in.List[2].Bits
	if len(ab) != 256 {
		return sx.L(sx.A("harness-error"), sx.A("addr"))
	}
	for i := 0; i < 32; i++ {
		var x byte
		for j := 0; j < 8; j++ {
			x = x<<1 | (ab[8*i+j] - '0')
		}
		id.Address[i] = x
	}
	fee := tlb.VarUInteger16(*in.List[3].Int)
	body := tlbdesc.CellFromSx(in.List[4])
	var init *tlb.StateInit
	if len(in.List[5].List) == 1 {
		var si tlb.StateInit
		if err := st.d.Fill(in.List[5].List[0], reflect.ValueOf(&si).Elem()); err != nil {
			return sx.L(sx.A("harness-error"), sx.A("fill"), sx.Str(err.Error()))
		}
		init = &si
	}
	msg, err := ton.CreateExternalMessage(id, body, init, fee)
	if err != nil {
		return sx.A("err")
	}
	c := boc.NewCell()
	if err := tlb.Marshal(c, msg); err != nil {
		return sx.A("err")
	}
	return sx.L(tlbdesc.CellSx(c), sx.B(true))
}

func c04Spec(c *Ctx, fam, schema string, ct *c03Type, v sx.V) {
	in := sx.L(sx.A(schema), sx.Str(ct.name), ct.d.Sx(), v)
	sn := schema
	if strings.HasPrefix(sn, "ConfigParam") {
		sn = "ConfigParam"
	}
	cls := fam + "|" + sn + "|" + kindName(ct.d)
	if schema == "prim" {
		cls = c03Class(fam+"|"+schema, ct, v)
	}
	out := c.Emit("c04.spec", in, cls)
	if out.K == sx.KL && len(out.List) == 4 && !out.List[3].Bool {
		c.Fail("c04.spec", in, "decode-back-"+ct.name, "tlb.Unmarshal of the cell tlb.Marshal produced for "+ct.name+" does not give the value back (or leaves bits / references unread)")
	}
}

func genC04(c *Ctx) {
	c04Load()
	// 1. primitives, exhaustively over the shipped widths, at the boundary values and random ones
	for _, name := range c03Names {
		ct := c03Types[name]
		switch ct.d.K {
		case tlbdesc.KUint, tlbdesc.KInt, tlbdesc.KBigUint, tlbdesc.KBigInt, tlbdesc.KBits, tlbdesc.KVarUInt, tlbdesc.KBool, tlbdesc.KUnary:
		default:
			continue
		}
		for _, v := range c03Boundaries(ct.d, c.R) {
			c04Spec(c, "boundary", "prim", ct, v)
		}
		for i := 0; i < c.Scale(2, 30); i++ {
			c04Spec(c, "random", "prim", ct, c03RandValue(ct, c.R))
		}
	}
	// 2. the core block.tlb structures over random values
	for _, p := range c04Core {
		ct := c03Types[p[1]]
		if ct == nil || ct.class != tlbdesc.ClassDescribed {
			c.Fail("c04.spec", sx.A(p[0]), "core-type-"+p[1], "core type "+p[1]+" has no descriptor any more")
			continue
		}
		n := c.Scale(40, 800)
		if ct.d.K == tlbdesc.KEnum {
			n = 4 * len(ct.d.Alts)
		}
		for i := 0; i < n; i++ {
			c04Spec(c, "core", p[0], ct, c03RandValue(ct, c.R))
		}
	}
	// the 288-bit dictionary key workchain:int32 address:bits256 at the workchain boundaries
	// (the Go field is an int8: a negative workchain must be sign-extended to 32 bits)
	if ct := c03Types["tlb.AddressWithWorkchain"]; ct != nil && ct.class == tlbdesc.ClassDescribed {
		for _, wc := range []int64{-1, -128, -2, 127, 0, 1} {
			for k := 0; k < 3; k++ {
				a := c04AddrShape(c, []int{0, 1, 4}[k])
				var ab bytes.Buffer
				for _, b := range a {
					for j := 7; j >= 0; j-- {
						ab.WriteByte('0' + (b>>uint(j))&1)
					}
				}
				v := sx.L(sx.A("struct"), sx.L(sx.A("z"), sx.Z(wc)), sx.L(sx.A("bits"), sx.Bits(ab.String())))
				c04Spec(c, "boundary", "AddressWithWorkchain", ct, v)
				// reference on the implementation: 32-bit two's complement workchain, then the 256 address bits
				kc := boc.NewCell()
				key := tlb.AddressWithWorkchain{Workchain: int8(wc), Address: tlb.Bits256(a)}
				want := fmt.Sprintf("%032b", uint32(int32(wc))) + ab.String()
				if err := tlb.Marshal(kc, key); err != nil || c04BitsOf(kc) != want {
					c.Fail("c04.spec", v, "address-key-bits", fmt.Sprintf("tlb.AddressWithWorkchain with workchain %d is not encoded as workchain:int32 address:bits256", wc))
				}
			}
		}
	}
	// 2b. the same structures after the read cursors of their bit strings / cells were
	//     advanced (decoded, inspected, re-encoded): the cell must still be the schema's
	for _, p := range c04Core {
		ct := c03Types[p[1]]
		if ct == nil || ct.class != tlbdesc.ClassDescribed || !c03HasCursor(ct.d) {
			continue
		}
		n := c.Scale(25, 400)
		if p[0] == "MsgAddress" || p[0] == "CommonMsgInfo" || p[0] == "Message" {
			n = c.Scale(120, 1500)
		}
		for i := 0; i < n; i++ {
			pv := reflect.New(ct.t)
			v := ct.d.Rand(c.R, pv.Elem(), 0)
			adv := []int{1, 3, 8, 9, 64, 511}[c.R.Intn(6)]
			if tlbdesc.AdvanceCursors(pv.Elem(), adv) == 0 {
				continue
			}
			in := sx.L(sx.A(p[0]), sx.Str(ct.name), ct.d.Sx(), v, sx.Nat(adv))
			out := c.Emit("c04.cur", in, c03Class("cursor|"+p[0], ct, v))
			fresh := safeExec("c04.spec", sx.L(sx.A(p[0]), sx.Str(ct.name), ct.d.Sx(), v))
			if out.String() != fresh.String() {
				c.Fail("c04.cur", in, "cursor-"+ct.name, "the cell tlb.Marshal produces for "+ct.name+" depends on a read cursor inside the value")
			}
		}
	}
	// 2d. text: length-prefixed and snake text with multi-byte UTF-8 (2, 3, 4 byte runes): the
	//     length prefix counts bytes, the chain splits on bit boundaries, whatever the characters
	for _, name := range c03Names {
		ct := c03Types[name]
		if !ct.ext {
			continue
		}
		for i := 0; i < c.Scale(20, 250); i++ {
			c03Case(c, "text", ct, c03RandValue(ct, c.R))
		}
	}
	// 2e. dictionaries handed over in another slice order (NewHashmapE accepts any order; keys that
	//     differ only in their last bits): the cell must be the one of the ascending order
	c04DictOrder(c)
	// 2c. exotic cells (library, pruned branch, Merkle proof / update) through every boc.Cell
	//     position: type, level mask and hash are kept; decode -> encode reproduces the hash
	c03ExoticFamily(c, "c04")
	// 2f. wallet bodies and state-init data over option values at the edge of their domain, and
	//     every builder that embeds an account address, for addresses of special shape
	c04WalletOptions(c)
	c04Addresses(c)
	// 3. the external-message envelope of ton.CreateExternalMessage
	mt, st := c03Types["tlb.Message"], c03Types["tlb.StateInit"]
	for i := 0; i < c.Scale(120, 2000); i++ {
		wc := int64(int8(c.R.U64()))
		switch c.R.Intn(4) {
		case 0:
			wc = 0
		case 1:
			wc = -1
		}
		addr := c.R.Bytes(32)
		if i%3 == 0 {
			sh := c04AddrShape(c, i/3)
			addr = sh[:]
		}
		if i%7 == 0 {
			wc = []int64{-128, 127, 1}[(i/7)%3]
		}
		var ab bytes.Buffer
		for _, b := range addr {
			for j := 7; j >= 0; j-- {
				ab.WriteByte('0' + (b>>uint(j))&1)
			}
		}
		feeT := c03Types["tlb.VarUInteger16"]
		fee := c03RandValue(feeT, c.R).List[1]
		body := c03RandValue(c03Types["tlb.Any"], c.R)
		init := sx.L()
		cls := "extmsg|noinit"
		if c.R.Bool() {
			init = sx.L(c03RandValue(st, c.R))
			cls = "extmsg|init"
		}
		in := sx.L(mt.d.Sx(), sx.Z(wc), sx.Bits(ab.String()), fee, sx.L(body.List[1], body.List[2]), init)
		out := c.Emit("c04.extmsg", in, cls)
		// oracle: the envelope decodes to an ext-in message to that account with the body in a reference
		if out.K == sx.KL && len(out.List) == 2 {
			cell := tlbdesc.CellFromSx(out.List[0])
			var m tlb.Message
			if err := tlb.Unmarshal(cell, &m); err != nil || m.Info.SumType != "ExtInMsgInfo" || !m.Body.IsRight ||
				m.Info.ExtInMsgInfo.Src.SumType != "AddrNone" || m.Info.ExtInMsgInfo.Dest.SumType != "AddrStd" ||
				int64(m.Info.ExtInMsgInfo.Dest.AddrStd.WorkchainId) != wc || !bytes.Equal(m.Info.ExtInMsgInfo.Dest.AddrStd.Address[:], addr) {
				c.Fail("c04.extmsg", in, "extmsg-envelope", "the envelope of CreateExternalMessage does not decode to the requested external message")
			}
		}
	}
	// 4. real chain data: messages and transactions of the testdata blocks: the
	//    re-encoded cell has the source hash (oracle), equals the model's cell and
	//    is the schema's serialisation (model)
	c04RealData(c)
}

func c04RealData(c *Ctx) {
	msgT, txT := c03Types["tlb.Message"], c03Types["tlb.Transaction"]
	files, _ := filepath.Glob("/repo/tlb/testdata/block-*/block.bin")
	sort.Strings(files)
	budget := c.Scale(80, 4000)
	for _, f := range files {
		data, err := os.ReadFile(f)
		if err != nil {
			continue
		}
		cells, err := boc.DeserializeBoc(data)
		if err != nil || len(cells) != 1 {
			continue
		}
		var block tlb.Block
		if err := tlb.Unmarshal(cells[0], &block); err != nil {
			continue
		}
		index := map[string]*boc.Cell{}
		c03Index(cells[0], index)
		for _, tx := range block.AllTransactions() {
			if budget <= 0 {
				return
			}
			src := tx.Hash()
			in := sx.L(sx.Str("tlb.Transaction"), sx.Str(filepath.Base(filepath.Dir(f))), sx.Str(hex.EncodeToString(src[:])))
			cell := boc.NewCell()
			if err := tlb.Marshal(cell, *tx); err != nil {
				c.Fail("c04.spec", in, "real-transaction-reencode", "a transaction decoded from a real block does not encode: "+err.Error())
				continue
			}
			h, _ := cell.Hash()
			same := bytes.Equal(h, src[:])
			if !same {
				sc := index[string(src[:])]
				if len(tx.Msgs.OutMsgs.Keys()) == 0 || sc == nil || !c03EqualButOutMsgs(sc, cell) {
					c.Fail("c04.spec", in, "real-transaction-reencode", "re-encoding a real transaction changes its hash outside the out_msgs dictionary (whose label form is not unique)")
					continue
				}
			}
			if c03IsPlain(cell, 0) && c03CellSize(cell) <= 120 {
				budget--
				cls := "real|Transaction|" + string(tx.Description.SumType)
				if !same {
					cls += "|dict-labels-differ"
				}
				c.Emit("c04.spec", sx.L(sx.A("Transaction"), sx.Str("tlb.Transaction"), txT.d.Sx(), txT.d.Render(reflect.ValueOf(*tx))), cls)
			}
			var msgs []tlb.Message
			if tx.Msgs.InMsg.Exists {
				msgs = append(msgs, tx.Msgs.InMsg.Value.Value)
			}
			for _, m := range tx.Msgs.OutMsgs.Values() {
				msgs = append(msgs, m.Value)
			}
			for _, m := range msgs {
				mc := boc.NewCell()
				msrc := m.Hash(false)
				min := sx.L(sx.Str("tlb.Message"), sx.Str(filepath.Base(filepath.Dir(f))), sx.Str(hex.EncodeToString(msrc[:])))
				if err := tlb.Marshal(mc, m); err != nil {
					c.Fail("c04.spec", min, "real-message-reencode", "a message decoded from a real block does not encode: "+err.Error())
					continue
				}
				if mh, _ := mc.Hash(); !bytes.Equal(mh, msrc[:]) {
					c.Fail("c04.spec", min, "real-message-reencode", "re-encoding a message decoded from a real block changes its hash")
					continue
				}
				if budget > 0 && c03IsPlain(mc, 0) && c03CellSize(mc) <= 60 {
					budget--
					c.Emit("c04.spec", sx.L(sx.A("Message"), sx.Str("tlb.Message"), msgT.d.Sx(), msgT.d.Render(reflect.ValueOf(m))), "real|Message|"+string(m.Info.SumType))
				}
			}
		}
	}
}

func c04HasDict(d *tlbdesc.Desc) bool {
	if d.K == tlbdesc.KDictE {
		return true
	}
	for _, s := range d.Sub {
		if c04HasDict(s) {
			return true
		}
	}
	for _, a := range d.Alts {
		if a.D != nil && c04HasDict(a.D) {
			return true
		}
	}
	return false
}

// dictionaries over key widths around the byte boundaries (the key order is a bit order)
var c04DictTypes = []reflect.Type{
	reflect.TypeOf(struct {
		D tlb.HashmapE[tlb.Uint1, tlb.Uint32]
	}{}),
	reflect.TypeOf(struct {
		D tlb.HashmapE[tlb.Uint7, tlb.Uint32]
	}{}),
	reflect.TypeOf(struct {
		D tlb.HashmapE[tlb.Uint8, tlb.Uint32]
	}{}),
	reflect.TypeOf(struct {
		D tlb.HashmapE[tlb.Uint9, tlb.Uint32]
	}{}),
	reflect.TypeOf(struct {
		D tlb.HashmapE[tlb.Uint15, tlb.Uint32]
	}{}),
	reflect.TypeOf(struct {
		D tlb.HashmapE[tlb.Uint16, tlb.Uint32]
	}{}),
	reflect.TypeOf(struct {
		D tlb.HashmapE[tlb.Uint17, tlb.Uint32]
	}{}),
	reflect.TypeOf(struct {
		D tlb.HashmapE[tlb.Uint23, tlb.Uint32]
	}{}),
	reflect.TypeOf(struct {
		D tlb.HashmapE[tlb.Uint31, tlb.Uint32]
	}{}),
	reflect.TypeOf(struct {
		D tlb.HashmapE[tlb.Uint32, tlb.VarUInteger32]
	}{}),
	reflect.TypeOf(struct {
		D tlb.HashmapE[tlb.Uint33, tlb.Uint32]
	}{}),
	reflect.TypeOf(struct {
		D tlb.HashmapE[tlb.Uint63, tlb.Uint32]
	}{}),
	reflect.TypeOf(struct {
		D tlb.HashmapE[tlb.Uint64, tlb.Uint32]
	}{}),
}

func c04DictOrder(c *Ctx) {
	var cts []*c03Type
	for _, t := range c04DictTypes {
		d := tlbdesc.Describe(t, "")
		if d.K == tlbdesc.KOpaque {
			continue
		}
		cts = append(cts, &c03Type{name: "tlb." + t.Field(0).Type.Name(), t: t, d: d, class: tlbdesc.ClassDescribed})
	}
	for _, ct := range cts {
		c04DictOrderType(c, ct, c.Scale(150, 1500))
	}
	for _, n := range c03Names {
		ct := c03Types[n]
		if ct.ext || !c04HasDict(ct.d) {
			continue
		}
		k := c.Scale(8, 100)
		switch n {
		case "tlb.Transaction", "tlb.CurrencyCollection", "tlb.StateInit", "tlb.ExtraCurrencyCollection", "wallet.DataV4", "wallet.DataHighloadV2":
			k = c.Scale(80, 1000)
		}
		c04DictOrderType(c, ct, k)
	}
}

func c04DictOrderType(c *Ctx, ct *c03Type, k int) {
	{
		for i := 0; i < k; i++ {
			pv := reflect.New(ct.t)
			v := ct.d.Rand(c.R, pv.Elem(), 0)
			c1 := boc.NewCell()
			if tlb.Marshal(c1, pv.Elem().Interface()) != nil {
				continue
			}
			moved := 0
			ct.d.WalkLive(pv.Elem(), func(leaf *tlbdesc.Desc, lv reflect.Value) {
				if leaf.K == tlbdesc.KDictE && tlbdesc.PermuteDict(c.R, lv) >= 2 {
					moved++
				}
			})
			if moved == 0 {
				continue
			}
			in := sx.L(sx.Str(ct.name), trimSx(v))
			c2 := boc.NewCell()
			var err error
			func() {
				defer func() {
					if r := recover(); r != nil {
						err = fmt.Errorf("panic: %v", r)
					}
				}()
				err = tlb.Marshal(c2, pv.Elem().Interface())
			}()
			key := "dict-order-" + ct.name
			if err != nil {
				c.Fail("c04.dictorder", in, key, "a value of "+ct.name+" whose dictionaries hold the same pairs in another slice order does not encode: "+err.Error())
				continue
			}
			if !sameHash(c1, c2) {
				c.Fail("c04.dictorder", in, key, "the cell of "+ct.name+" depends on the slice order of a dictionary's keys (same mapping, different cell)")
				continue
			}
			if !c04DecodesBack(ct, c2, v) {
				c.Fail("c04.dictorder", in, key, "a value of "+ct.name+" encoded from permuted dictionary slices does not decode back to the same mapping")
				continue
			}
			c.Note("c04.dictorder", "dictorder|"+ct.name[:strings.IndexByte(ct.name, '.')]+"|ok", in)
		}
	}
}

func trimSx(v sx.V) sx.V {
	s := v.String()
	if len(s) > 600 {
		return sx.Str(s[:600] + "...")
	}
	return v
}
