package main

// Exotic cells travelling through boc.Cell-typed positions (C03 / C04).
// The model's cells carry bits and references only: a cell given as a value is an
// opaque object that the encoder must place in the reference as it is
// (C03_cell_passthrough, C03_any_refs_passthrough).  On the implementation this
// family checks what the model cannot see: the cell type, the level mask and the
// representation hash of every cell handed to tlb.Marshal survive, and
// decode -> encode reproduces the source hash.  Implementation only (c.Note).

import (
	"bytes"
	"encoding/hex"
	"fmt"
	"reflect"

	"github.com/tonkeeper/tongo/boc"
	"github.com/tonkeeper/tongo/tlb"

	"verifharness/prng"
	"verifharness/sx"
	"verifharness/tlbdesc"
)

// every way the library offers to decode a cell: the raw-cell positions (boc.Cell, Any)
// must keep exotic cells as they are under all of them; a library resolver may only
// replace library cells met at TYPED positions
type c03Decoder struct {
	name string
	dec  func(c *boc.Cell, o any) error
}

func c03Decoders(r *prng.R) []c03Decoder {
	resolver := func(hash tlb.Bits256) (*boc.Cell, error) {
		c := boc.NewCell()
		_ = c.WriteUint(0xC0DE, 16)
		_ = c.WriteBytes(hash[:4])
		return c, nil
	}
	return []c03Decoder{
		{"unmarshal", tlb.Unmarshal},
		{"newdecoder", func(c *boc.Cell, o any) error { return tlb.NewDecoder().Unmarshal(c, o) }},
		{"resolver", func(c *boc.Cell, o any) error { return tlb.NewDecoder().WithLibraryResolver(resolver).Unmarshal(c, o) }},
		{"zero-resolver", func(c *boc.Cell, o any) error { return new(tlb.Decoder).WithLibraryResolver(resolver).Unmarshal(c, o) }},
		{"debug", func(c *boc.Cell, o any) error { return tlb.NewDecoder().WithDebug().Unmarshal(c, o) }},
	}
}

type exoticInfo struct {
	hash string
	typ  boc.CellType
	mask uint32
	kind string
}

func c03OrdinaryCell(r *prng.R) *boc.Cell {
	c := boc.NewCell()
	n := r.Intn(64)
	for i := 0; i < n; i++ {
		_ = c.WriteBit(r.Bool())
	}
	if r.Chance(40) {
		k := boc.NewCell()
		_ = k.WriteUint(uint64(r.Intn(256)), 8)
		_ = c.AddRef(k)
	}
	return c
}

// c03ExoticCell builds a well-formed exotic cell of a random kind.
func c03ExoticCell(r *prng.R) (*boc.Cell, string) {
	c := boc.NewCell()
	switch r.Intn(4) {
	case 0: // library cell: type byte 2 + 256-bit hash
		_ = c.WriteUint(2, 8)
		_ = c.WriteBytes(r.Bytes(32))
		boc.VerifSetTypeMask(c, boc.LibraryCell, 0)
		return c, "library"
	case 1: // pruned branch: type 1, mask, a hash per level of the mask, then the depths
		mask := 1 + r.Intn(7)
		n := 0
		for i := 0; i < 3; i++ {
			if mask&(1<<uint(i)) != 0 {
				n++
			}
		}
		_ = c.WriteUint(1, 8)
		_ = c.WriteUint(uint64(mask), 8)
		for i := 0; i < n; i++ {
			_ = c.WriteBytes(r.Bytes(32))
		}
		for i := 0; i < n; i++ {
			_ = c.WriteUint(uint64(r.Intn(5)), 16)
		}
		boc.VerifSetTypeMask(c, boc.PrunedBranchCell, uint32(mask))
		return c, "pruned"
	case 2: // Merkle proof: type 3, hash and depth of the only child
		child := c03OrdinaryCell(r)
		h, d, _ := boc.VerifLevelHash(child, 0)
		_ = c.WriteUint(3, 8)
		_ = c.WriteBytes(h)
		_ = c.WriteUint(uint64(d), 16)
		_ = c.AddRef(child)
		boc.VerifSetTypeMask(c, boc.MerkleProofCell, 0)
		return c, "merkle-proof"
	}
	a, b := c03OrdinaryCell(r), c03OrdinaryCell(r)
	ha, da, _ := boc.VerifLevelHash(a, 0)
	hb, db, _ := boc.VerifLevelHash(b, 0)
	_ = c.WriteUint(4, 8)
	_ = c.WriteBytes(ha)
	_ = c.WriteBytes(hb)
	_ = c.WriteUint(uint64(da), 16)
	_ = c.WriteUint(uint64(db), 16)
	_ = c.AddRef(a)
	_ = c.AddRef(b)
	boc.VerifSetTypeMask(c, boc.MerkleUpdateCell, 0)
	return c, "merkle-update"
}

func c03CellInfo(c *boc.Cell, kind string) (exoticInfo, bool) {
	h, err := c.Hash()
	if err != nil {
		return exoticInfo{}, false
	}
	return exoticInfo{hash: hex.EncodeToString(h), typ: c.CellType(), mask: boc.VerifMask(c), kind: kind}, true
}

var (
	c03BocCellT = reflect.TypeOf(boc.Cell{})
	c03AnyT     = reflect.TypeOf(tlb.Any{})
)

// c03PlantExotic replaces, with probability p, the boc.Cell values at the encoded
// positions of the value (^Cell, Ref[Cell], Maybe[Ref[Cell]] when present, ...) by
// exotic cells and gives tlb.Any values exotic references; it returns what was planted.
func c03PlantExotic(r *prng.R, d *tlbdesc.Desc, v reflect.Value, p int, out *[]exoticInfo) {
	d.WalkLive(v, func(leaf *tlbdesc.Desc, lv reflect.Value) {
		if !lv.CanSet() || !r.Chance(p) {
			return
		}
		switch lv.Type() {
		case c03BocCellT:
			c, kind := c03ExoticCell(r)
			if info, ok := c03CellInfo(c, kind); ok {
				lv.Set(reflect.ValueOf(*c))
				*out = append(*out, info)
			}
		case c03AnyT:
			old := boc.Cell(lv.Interface().(tlb.Any))
			nc := boc.NewCell()
			if nc.WriteBitString(old.RawBitString()) != nil {
				return
			}
			k := 1 + r.Intn(2)
			var infos []exoticInfo
			for i := 0; i < k; i++ {
				c, kind := c03ExoticCell(r)
				if info, ok := c03CellInfo(c, kind); ok && nc.AddRef(c) == nil {
					infos = append(infos, info)
				}
			}
			lv.Set(reflect.ValueOf(tlb.Any(*nc)))
			*out = append(*out, infos...)
		}
	})
}

func c03CollectCells(c *boc.Cell, seen map[string]exoticInfo, depth int) {
	if c == nil || depth > 200 {
		return
	}
	if info, ok := c03CellInfo(c, ""); ok {
		if _, dup := seen[info.hash]; dup {
			return
		}
		seen[info.hash] = info
	}
	for _, r := range c.Refs() {
		c03CollectCells(r, seen, depth+1)
	}
}

// c03ExoticFamily runs the family for the generator of property prop ("c03" / "c04").
func c03ExoticFamily(c *Ctx, prop string) {
	c03Load()
	kind := prop + ".exotic"
	var names []string
	for _, n := range c03Names {
		ct := c03Types[n]
		if !ct.ext && c03HasCell(ct.d) {
			names = append(names, n)
		}
	}
	per := c.Scale(4, 40)
	for _, n := range names {
		ct := c03Types[n]
		k := per
		switch n {
		case "tlb.StateInit", "tlb.Message", "tlb.SimpleLib", "tlb.Account", "tlb.VmStackValue":
			k = c.Scale(60, 800)
		}
		for i := 0; i < k; i++ {
			pv := reflect.New(ct.t)
			ct.d.Rand(c.R, pv.Elem(), 0)
			var planted []exoticInfo
			c03PlantExotic(c.R, ct.d, pv.Elem(), 60, &planted)
			if len(planted) == 0 {
				continue
			}
			c03ExoticCheck(c, kind, ct, pv, planted)
		}
	}
	// a state-init as found on chain: code is a library cell, data an ordinary cell
	for i := 0; i < c.Scale(40, 400); i++ {
		code, _ := c03ExoticCell(c.R)
		for code.CellType() != boc.LibraryCell {
			code, _ = c03ExoticCell(c.R)
		}
		data := c03OrdinaryCell(c.R)
		src := boc.NewCell()
		_ = src.WriteUint(0b00110, 5) // no split_depth, no special, code, data, empty library
		_ = src.AddRef(code)
		_ = src.AddRef(data)
		want, _ := src.Hash()
		in := sx.L(sx.Str("tlb.StateInit"), sx.Str(hex.EncodeToString(want)))
		okAll := true
		for _, dc := range c03Decoders(c.R) {
			var si tlb.StateInit
			src.ResetCounters()
			if err := dc.dec(src, &si); err != nil {
				c.Fail(kind, in, "stateinit-exotic-reencode", "a state-init whose code is a library cell does not decode ("+dc.name+"): "+err.Error())
				okAll = false
				break
			}
			out := boc.NewCell()
			if err := tlb.Marshal(out, si); err != nil {
				c.Fail(kind, in, "stateinit-exotic-reencode", "a state-init whose code is a library cell does not encode ("+dc.name+"): "+err.Error())
				okAll = false
				break
			}
			if got, _ := out.Hash(); !bytes.Equal(got, want) {
				c.Fail(kind, in, "stateinit-exotic-reencode", "decode ("+dc.name+") -> encode of a state-init whose code is a library cell changes its hash: the raw code cell was not kept as it is")
				okAll = false
				break
			}
		}
		if !okAll {
			continue
		}
		c.Note(kind, "exotic|stateinit-library-code|reencode-ok", in)
	}
}

func c03HasCell(d *tlbdesc.Desc) bool {
	switch d.K {
	case tlbdesc.KAny, tlbdesc.KCellRef:
		return true
	}
	for _, s := range d.Sub {
		if c03HasCell(s) {
			return true
		}
	}
	for _, a := range d.Alts {
		if a.D != nil && c03HasCell(a.D) {
			return true
		}
	}
	return false
}

func c03ExoticCheck(c *Ctx, kind string, ct *c03Type, pv reflect.Value, planted []exoticInfo) {
	kinds := map[string]bool{}
	pruned := false
	for _, p := range planted {
		kinds[p.kind] = true
		if p.kind == "pruned" {
			pruned = true
		}
	}
	label := ""
	for _, k := range []string{"library", "pruned", "merkle-proof", "merkle-update"} {
		if kinds[k] {
			label += k[:1]
		}
	}
	in := sx.L(sx.Str(ct.name), sx.Str(fmt.Sprintf("%d exotic cells: %s", len(planted), label)))
	key := "exotic-passthrough-" + ct.name
	cell := boc.NewCell()
	var err error
	func() {
		defer func() {
			if r := recover(); r != nil {
				err = fmt.Errorf("panic: %v", r)
			}
		}()
		err = tlb.Marshal(cell, pv.Elem().Interface())
	}()
	if err != nil {
		c.Note(kind, "exotic|"+label+"|encode-err", in)
		return
	}
	seen := map[string]exoticInfo{}
	c03CollectCells(cell, seen, 0)
	for _, p := range planted {
		got, ok := seen[p.hash]
		if !ok || got.typ != p.typ || got.mask != p.mask {
			c.Fail(kind, in, key, fmt.Sprintf("tlb.Marshal of %s does not keep a %s cell given as a value: no cell with its hash, type and level mask in the produced tree", ct.name, p.kind))
			return
		}
	}
	if pruned {
		// the decoder deliberately leaves a value behind a pruned branch empty
		c.Note(kind, "exotic|"+label+"|encode-kept", in)
		return
	}
	want, _ := cell.Hash()
	for _, dc := range c03Decoders(c.R) {
		pv2 := reflect.New(ct.t)
		cell.ResetCounters()
		func() {
			defer func() {
				if r := recover(); r != nil {
					err = fmt.Errorf("panic: %v", r)
				}
			}()
			err = dc.dec(cell, pv2.Interface())
		}()
		if err != nil {
			c.Note(kind, "exotic|"+label+"|decode-err-"+dc.name, in)
			return
		}
		again := boc.NewCell()
		if err := tlb.Marshal(again, pv2.Elem().Interface()); err != nil {
			c.Fail(kind, in, key, "the value decoded ("+dc.name+") from a cell with exotic references does not encode again ("+ct.name+"): "+err.Error())
			return
		}
		if got, _ := again.Hash(); !bytes.Equal(got, want) {
			c.Fail(kind, in, key, "decode ("+dc.name+") -> encode of "+ct.name+" with exotic cells at raw-cell positions changes the hash")
			return
		}
	}
	c.Note(kind, "exotic|"+label+"|reencode-ok", in)
}
