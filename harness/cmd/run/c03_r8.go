package main

// C03, round 8: the encoder at a full cell.
//
// Every step of the encoder that writes something (presence bit of maybe / maybe^ /
// Maybe[T], side bit of Either / EitherRef, constructor tag of a union, magic, bool,
// unary digits, length field of a VarUInteger, integer, bit string, the reference of
// ^ / Ref[T]) must fail when the cell is full exactly at that step: a lost error gives
// a cell that lacks the piece and does not decode (or shifts the following fields).
//
// (a) full|...   model-compared (c03.rt): struct { P [k/8]byte; Q UintK%8; R1..Rj ^Cell; F <field> }
//     built with reflect.StructOf, <field> = one of the shapes below (every tag kind /
//     wrapper / primitive of the reflection codec) or a shipped described type, k swept
//     over 1023-size(F)-1 .. 1023 so that every piece of F lands on the limit, j so that
//     the reference of F is the 4th / 5th.  The descriptor is made by the same reflect
//     walk and interpreted by the model (whose builder answers Err on overflow).
// (b) prefill|... implementation only: a value of EVERY registered type (described or
//     not) is marshalled into a cell that already holds k bits and j references, k swept
//     over 1023-size-1 .. 1023.  Oracle: tlb.Marshal fails, or the prefix is intact, the
//     cell decodes after skipping the prefix to an equal value and re-encodes to the same
//     cell; for described types without fill-dependent layout: it succeeds exactly when
//     k+size <= 1023 and j+refs <= 4.

import (
	"fmt"
	"reflect"
	"sort"
	"strings"

	"github.com/tonkeeper/tongo/boc"
	"github.com/tonkeeper/tongo/tlb"

	"verifharness/prng"
	"verifharness/sx"
	"verifharness/tlbdesc"
)

type c03Shape struct {
	name string
	t    reflect.Type
	tag  string
}

type c03r8Inner struct {
	A tlb.Uint5
	B *tlb.Uint8 `tlb:"maybe^"`
	C bool
}

type c03r8Sum struct {
	tlb.SumType
	Zero struct{}  `tlbSumType:"zero$0"`
	Two  tlb.Uint3 `tlbSumType:"two$11"`
	Hex  struct {
		V *tlb.Uint8 `tlb:"maybe^"`
	} `tlbSumType:"hex#b7"`
}

var c03r8Shapes []c03Shape

func init() {
	add := func(name string, v any, tag string) {
		c03r8Shapes = append(c03r8Shapes, c03Shape{name, reflect.TypeOf(v), tag})
	}
	var pu8 *tlb.Uint8
	var pin *c03r8Inner
	var pcell *boc.Cell
	add("bool", false, "")
	add("uint1", tlb.Uint1(0), "")
	add("uint7", tlb.Uint7(0), "")
	add("gouint8", uint8(0), "")
	add("goint16", int16(0), "")
	add("gouint64", uint64(0), "")
	add("int33", tlb.Int33(0), "")
	add("uint256", tlb.Uint256{}, "")
	add("int257", tlb.Int257{}, "")
	add("bits96", tlb.Bits96{}, "")
	add("bytes3", [3]byte{}, "")
	add("varuint16", tlb.VarUInteger16{}, "")
	add("varuint32", tlb.VarUInteger32{}, "")
	add("varuint3", tlb.VarUInteger3{}, "")
	add("grams", tlb.Grams(0), "")
	add("unary", tlb.Unary(0), "")
	add("magic8", tlb.Magic(0), "m#b7")
	add("magic3", tlb.Magic(0), "m$101")
	add("magic32", tlb.Magic(0), "m#0f8a7ea5")
	add("tag-maybe", pu8, "maybe")
	add("tag-mayberef", pu8, "maybe^")
	add("tag-mayberef-struct", pin, "maybe^")
	add("tag-maybe-struct", pin, "maybe")
	add("tag-ref", tlb.Uint8(0), "^")
	add("tag-ref-struct", c03r8Inner{}, "^")
	add("tag-ref-cell", boc.Cell{}, "^")
	add("tag-mayberef-cell", pcell, "maybe^")
	add("maybe", tlb.Maybe[tlb.Uint8]{}, "")
	add("maybe-ref", tlb.Maybe[tlb.Ref[tlb.Uint8]]{}, "")
	add("maybe-refcell", tlb.Maybe[tlb.Ref[boc.Cell]]{}, "")
	add("either", tlb.Either[tlb.Uint8, tlb.Uint3]{}, "")
	add("either-refs", tlb.Either[tlb.Ref[tlb.Uint8], tlb.Uint3]{}, "")
	add("eitherref", tlb.EitherRef[tlb.Uint8]{}, "")
	add("eitherref-struct", tlb.EitherRef[c03r8Inner]{}, "")
	add("ref", tlb.Ref[tlb.Uint8]{}, "")
	add("refcell", tlb.Ref[boc.Cell]{}, "")
	add("any", tlb.Any{}, "")
	add("struct", c03r8Inner{}, "")
	add("sum", c03r8Sum{}, "")
	add("hashmape", tlb.HashmapE[tlb.Uint8, tlb.Uint16]{}, "")
}

var c03r8Cache = map[string]*c03Type{}

// c03FullLookup resolves "full:<k>:<j>:<trail>:<shape or type name>".
func c03FullLookup(name string) *c03Type {
	if ct, ok := c03r8Cache[name]; ok {
		return ct
	}
	var k, j, trail int
	var base string
	if n, _ := fmt.Sscanf(name, "full:%d:%d:%d:%s", &k, &j, &trail, &base); n != 4 || k < 0 || k > 1023 || j < 0 || j > 4 || trail < 0 || trail > 1 {
		return nil
	}
	var ft reflect.Type
	var ftag string
	for _, s := range c03r8Shapes {
		if "shape."+s.name == base {
			ft, ftag = s.t, s.tag
		}
	}
	if ft == nil {
		if ct := c03Types[base]; ct != nil && ct.class == tlbdesc.ClassDescribed && !strings.Contains(base, ":") {
			ft = ct.t
		} else {
			return nil
		}
	}
	var fields []reflect.StructField
	if k/8 > 0 {
		fields = append(fields, reflect.StructField{Name: "P", Type: reflect.ArrayOf(k/8, reflect.TypeOf(uint8(0)))})
	}
	if k%8 > 0 {
		pt := c03Types[fmt.Sprintf("tlb.Uint%d", k%8)]
		if pt == nil {
			return nil
		}
		fields = append(fields, reflect.StructField{Name: "Q", Type: pt.t})
	}
	for i := 0; i < j; i++ {
		fields = append(fields, reflect.StructField{Name: fmt.Sprintf("R%d", i), Type: reflect.TypeOf(boc.Cell{}), Tag: `tlb:"^"`})
	}
	f := reflect.StructField{Name: "F", Type: ft}
	if ftag != "" {
		f.Tag = reflect.StructTag(`tlb:"` + ftag + `"`)
	}
	fields = append(fields, f)
	if trail == 1 {
		fields = append(fields, reflect.StructField{Name: "T", Type: reflect.TypeOf(tlb.Uint2(0))})
	}
	st := reflect.StructOf(fields)
	d := tlbdesc.Describe(st, "")
	if d.K == tlbdesc.KOpaque {
		return nil
	}
	ct := &c03Type{name: name, t: st, d: d, class: tlbdesc.ClassDescribed}
	ct.ext = d.HasExt()
	ct.dsx = ct.descSx().String()
	c03r8Cache[name] = ct
	return ct
}

// size of a value of type t in its root cell when encoded alone
func c03RootSize(v any) (bits, refs int, ok bool) {
	defer func() {
		if recover() != nil {
			ok = false
		}
	}()
	c := boc.NewCell()
	if err := tlb.Marshal(c, v); err != nil {
		return 0, 0, false
	}
	return c.BitSize(), c.RefsSize(), true
}

func c03FullCase(c *Ctx, k, j, trail int, base, label string, precheck bool) {
	ct := c03FullLookup(fmt.Sprintf("full:%d:%d:%d:%s", k, j, trail, base))
	if ct == nil {
		c.Note("c03.rt", "full|"+label+"|not-described", sx.Str(base))
		return
	}
	pv := reflect.New(ct.t)
	v := ct.d.Rand(c.R, pv.Elem(), 0)
	// size of the field under test alone: tells on which side of the limit the case lies
	fv := pv.Elem().FieldByName("F")
	fst, _ := ct.t.FieldByName("F")
	one := reflect.New(reflect.StructOf([]reflect.StructField{{Name: "F", Type: fst.Type, Tag: fst.Tag}}))
	one.Elem().Field(0).Set(fv)
	s, r, ok := c03RootSize(one.Elem().Interface())
	if precheck && !c03RootFree(c, base, fv, s, ok) {
		c.Note("c03.rt", "full|"+label+"|root-of-cell-codec", sx.Str(base))
		return
	}
	pos := "nofit"
	if ok {
		over := k + s + 2*trail - 1023
		switch {
		case j+r > 4:
			pos = "refs-over"
		case over > 0 && k == 1023:
			pos = "starts-at-1023"
		case over > 0:
			pos = "bits-over"
		case over == 0:
			pos = "exactly-full"
		default:
			pos = "fits"
		}
		if j+r == 4 && over <= 0 {
			pos += "-4refs"
		}
	}
	in := sx.L(sx.Str(ct.name), ct.descSx(), v)
	out := c.Emit("c03.rt", in, "full|"+label+"|"+pos)
	key := "full-cell-" + label
	what := fmt.Sprintf("field %s written after %d bits and %d references (its own size: %d bits, %d refs)", base, k, j, s, r)
	if out.IsA("err") {
		if ok && k+s+2*trail <= 1023 && j+r <= 4 && !ct.ext {
			c.Fail("c03.rt", in, key, "tlb.Marshal fails although everything fits: "+what)
		}
		return
	}
	if out.K != sx.KL || len(out.List) != 4 || out.List[1].String() != v.String() || !out.List[2].Bool || !out.List[3].Bool {
		c.Fail("c03.rt", in, key, "tlb.Marshal succeeded at the cell limit but the cell does not decode to the value: "+what+": "+trunc(out.String(), 120))
		return
	}
	if ok && !ct.ext && (k+s+2*trail > 1023 || j+r > 4) {
		c.Fail("c03.rt", in, key, "tlb.Marshal succeeded although the field does not fit: "+what)
	}
}

// c03RootFree: the value round-trips behind a 5-bit prefix with plenty of room. It does not for
// types whose hand-written codec is tied to the start of a cell (tlb.Message and tlb.Transaction
// hash the cell and reset its cursor): those are not placed behind a prefix.
func c03RootFree(c *Ctx, base string, fv reflect.Value, s int, sized bool) bool {
	if !sized || s+5 > 1023 {
		return false
	}
	ct0 := c03FullLookup("full:5:0:0:" + base)
	if ct0 == nil {
		return false
	}
	ok := false
	func() {
		defer func() { _ = recover() }()
		pv := reflect.New(ct0.t)
		ct0.d.Rand(c.R.Fork(5), pv.Elem(), 0)
		pv.Elem().FieldByName("F").Set(fv)
		want := ct0.d.Render(pv.Elem()).String()
		cell := boc.NewCell()
		if tlb.Marshal(cell, pv.Elem().Interface()) != nil {
			return
		}
		cell.ResetCounters()
		pv2 := reflect.New(ct0.t)
		if tlb.Unmarshal(cell, pv2.Interface()) != nil {
			return
		}
		ok = ct0.d.Render(pv2.Elem()).String() == want
	}()
	return ok
}

func c03FullFamily(c *Ctx) {
	c03Load()
	// (a1) every shape: k over the whole size of the field (+1 below, up to 1023)
	for _, sh := range c03r8Shapes {
		base := "shape." + sh.name
		// largest size of the field among a few values
		probe := c03FullLookup("full:0:0:0:" + base)
		if probe == nil {
			c.Note("c03.rt", "full|"+sh.name+"|not-described", sx.Str(base))
			continue
		}
		maxS := 0
		for i := 0; i < 12; i++ {
			pv := reflect.New(probe.t)
			probe.d.Rand(c.R, pv.Elem(), 0)
			if s, _, ok := c03RootSize(pv.Elem().Interface()); ok && s > maxS {
				maxS = s
			}
		}
		lo := 1023 - maxS - 1
		if lo < 0 {
			lo = 0
		}
		// wide fields: both ends of the range and a few positions inside in the quick tier
		ks := map[int]bool{}
		for k := lo; k <= 1023; k++ {
			if c.Thorough() || maxS <= 24 || k <= lo+2 || k >= 1023-9 || c.R.Intn(maxS) < 5 {
				ks[k] = true
			}
		}
		var kl []int
		for k := range ks {
			kl = append(kl, k)
		}
		sort.Ints(kl)
		for _, k := range kl {
			reps := 1
			if k >= 1022 {
				reps = c.Scale(2, 8) // present and absent, every side / constructor
			}
			for i := 0; i < reps; i++ {
				c03FullCase(c, k, 0, 0, base, sh.name, false)
			}
		}
		// reference slots: completely full cell with 1..4 references used, and the limit of references
		for j := 1; j <= 4; j++ {
			jk := []int{1023, lo + 1}
			if c.Thorough() || j == 3 {
				jk = []int{1023, 1022, lo + 1, 0}
			}
			for _, k := range jk {
				for i := 0; i < c.Scale(1, 6); i++ {
					c03FullCase(c, k, j, 0, base, sh.name, false)
				}
			}
		}
		// a field behind it: a lost piece shifts it
		for _, k := range []int{1023, 1022, 1021, 1020, lo + 1, lo, lo - 1, lo - 2} {
			if k >= 0 && !probe.d.Sub[len(probe.d.Sub)-1].IsTail() { // rest-of-cell codecs only in tail position
				c03FullCase(c, k, c.R.Intn(2), 1, base, sh.name, false)
			}
		}
	}
	// (a2) shipped described types behind a prefix that leaves exactly / one bit less than / nothing of their size
	names := append([]string{}, c03Names...)
	n := c.Scale(60, len(names))
	for i := 0; i < n && len(names) > 0; i++ {
		x := c.R.Intn(len(names))
		name := names[x]
		names = append(names[:x], names[x+1:]...)
		ct := c03Types[name]
		pv := reflect.New(ct.t)
		ct.d.Rand(c.R, pv.Elem(), 0)
		s, _, ok := c03RootSize(pv.Elem().Interface())
		if !ok {
			continue
		}
		label := "type-" + name[:strings.IndexByte(name, '.')]
		for _, k := range []int{1023 - s, 1023 - s + 1, 1023 - s/2, 1023} {
			if k >= 0 && k <= 1023 {
				c03FullCase(c, k, c.R.Intn(2), 0, name, label, true)
			}
		}
	}
}

// ------------------------------------------------------------ (b) prefilled cells, implementation only

type c03PrefillJob struct {
	ct    *c03Type
	pv    reflect.Value
	canon string
}

type c03PrefillFail struct {
	in        sx.V
	key, what string
}

type c03PrefillResult struct {
	fails []c03PrefillFail
	notes map[string]int
	inOf  map[string]sx.V
}

func c03PrefilledCell(r *prng.R, k, j int) *boc.Cell {
	c := boc.NewCell()
	for i := 0; i < k; i++ {
		_ = c.WriteBit(r.Bool())
	}
	for i := 0; i < j; i++ {
		ch := boc.NewCell()
		_ = ch.WriteUint(uint64(r.Intn(1<<16)), 16)
		_ = c.AddRef(ch)
	}
	return c
}

func c03CopyPrefill(p *boc.Cell, k, j int) *boc.Cell {
	c := boc.NewCell()
	src := *p
	src.ResetCounters()
	bs, _ := src.ReadBits(k)
	_ = c.WriteBitString(bs)
	for i := 0; i < j; i++ {
		_ = c.AddRef(p.Refs()[i])
	}
	return c
}

func c03PrefillOne(res *c03PrefillResult, r *prng.R, job c03PrefillJob, k, j, s, refs int, sized bool) {
	ct := job.ct
	cls := "prefill|" + ct.name[:strings.IndexByte(ct.name, '.')] + "|" + ct.class
	in := sx.L(sx.Str(ct.name), sx.Nat(k), sx.Nat(j), sx.Str(trunc(job.canon, 300)))
	note := func(o string) {
		res.notes[cls+"|"+o]++
		if _, ok := res.inOf[cls+"|"+o]; !ok {
			res.inOf[cls+"|"+o] = in
		}
	}
	fail := func(what string) {
		if why, ok := c03ExploreKnown(ct.name, job.canon, what); ok {
			note("known:" + why)
			return
		}
		res.fails = append(res.fails, c03PrefillFail{in, "prefill-" + ct.name,
			fmt.Sprintf("%s marshalled into a cell already holding %d bits and %d references (own size %d bits, %d refs): %s", ct.name, k, j, s, refs, what)})
	}
	var err error
	step := func(f func() error) (panicked bool) {
		defer func() {
			if x := recover(); x != nil {
				panicked = true
				err = fmt.Errorf("panic: %v", x)
			}
		}()
		err = f()
		return false
	}
	pre := c03PrefilledCell(r, k, j)
	c1 := c03CopyPrefill(pre, k, j)
	if step(func() error { return tlb.Marshal(c1, job.pv.Elem().Interface()) }) {
		fail("tlb.Marshal panicked: " + err.Error())
		return
	}
	plain := ct.class == tlbdesc.ClassDescribed && !ct.ext && sized
	if err != nil {
		if plain && k+s <= 1023 && j+refs <= 4 {
			fail("tlb.Marshal fails although the value fits: " + err.Error())
			return
		}
		note("encode-err")
		return
	}
	if c1.BitSize() > 1023 || c1.RefsSize() > 4 {
		fail("tlb.Marshal produced a cell beyond 1023 bits / 4 references")
		return
	}
	if c1.BitSize() < k || c1.RefsSize() < j {
		fail("tlb.Marshal removed data that was in the cell before")
		return
	}
	{
		a := *c1
		a.ResetCounters()
		b := *pre
		b.ResetCounters()
		x, e1 := a.ReadBits(k)
		y, e2 := b.ReadBits(k)
		if e1 != nil || e2 != nil || x.BinaryString() != y.BinaryString() {
			fail("tlb.Marshal changed the bits that were in the cell before")
			return
		}
		for i := 0; i < j; i++ {
			if !sameHash(c1.Refs()[i], pre.Refs()[i]) {
				fail("tlb.Marshal changed the references that were in the cell before")
				return
			}
		}
	}
	if plain && (k+s > 1023 || j+refs > 4) {
		fail("tlb.Marshal succeeded although the value does not fit")
		return
	}
	if plain && (c1.BitSize() != k+s || c1.RefsSize() != j+refs) {
		fail(fmt.Sprintf("tlb.Marshal wrote %d bits and %d references instead of the value's %d and %d", c1.BitSize()-k, c1.RefsSize()-j, s, refs))
		return
	}
	if ct.class == tlbdesc.ClassDecodeOnly {
		note("encoded-decode-only")
		return
	}
	rd := *c1
	rd.ResetCounters()
	rdp := &rd
	if e := rdp.Skip(k); e != nil {
		fail("cannot skip the prefix: " + e.Error())
		return
	}
	for i := 0; i < j; i++ {
		if _, e := rdp.NextRef(); e != nil {
			fail("cannot skip the prefix references: " + e.Error())
			return
		}
	}
	pv2 := reflect.New(ct.t)
	if step(func() error { return tlb.Unmarshal(rdp, pv2.Interface()) }) || err != nil {
		fail("encoding succeeded but decoding the produced cell (after the prefix) fails: " + err.Error())
		return
	}
	if after := tlbdesc.Canon(pv2.Elem()); after != job.canon {
		i := 0
		for i < len(after) && i < len(job.canon) && after[i] == job.canon[i] {
			i++
		}
		b := i - 40
		if b < 0 {
			b = 0
		}
		fail("decode(encode v) differs from v: got ..." + trunc(after[b:], 120) + " want ..." + trunc(job.canon[b:], 120))
		return
	}
	c2 := c03CopyPrefill(pre, k, j)
	if step(func() error { return tlb.Marshal(c2, pv2.Elem().Interface()) }) || err != nil || !sameHash(c1, c2) {
		fail("encoding the decoded value again into the same prefilled cell gives a different cell")
		return
	}
	if k+s == 1023 || j+refs == 4 {
		note("roundtrip-ok-at-limit")
	} else {
		note("roundtrip-ok")
	}
}

func c03PrefillRun(jobs []c03PrefillJob, r *prng.R, thorough bool) *c03PrefillResult {
	res := &c03PrefillResult{notes: map[string]int{}, inOf: map[string]sx.V{}}
	for _, job := range jobs {
		s, refs, sized := c03RootSize(job.pv.Elem().Interface())
		if !sized {
			s, refs = 64, 0
		}
		lo := 1023 - s - 1
		if lo < 0 {
			lo = 0
		}
		// types whose hand-written codec is tied to the start of a cell (tlb.Message, tlb.Transaction: the decoder
		// hashes the cell and resets its cursor; encoders that replace the cell) are not swept: the value must
		// round-trip behind a 5-bit prefix with plenty of room
		if sized && s+5 <= 1023 {
			probe := &c03PrefillResult{notes: map[string]int{}, inOf: map[string]sx.V{}}
			c03PrefillOne(probe, r, job, 5, 0, s, refs, sized)
			if len(probe.fails) > 0 {
				cls := "prefill|" + job.ct.name[:strings.IndexByte(job.ct.name, '.')] + "|" + job.ct.class + "|root-of-cell-codec"
				res.notes[cls]++
				res.inOf[cls] = sx.Str(job.ct.name)
				continue
			}
		}
		// a decoder that takes the rest of the cell may support a prefix of references only together with a
		// prefix of bits (abi.InMsgBody copies the remaining part only when bits were read before and then
		// resets the reference cursor; a message body always follows the bits of the message info): probe
		refOnly := true
		if sized && refs < 4 {
			probe := &c03PrefillResult{notes: map[string]int{}, inOf: map[string]sx.V{}}
			c03PrefillOne(probe, r, job, 0, 1, s, refs, sized)
			if len(probe.fails) > 0 {
				refOnly = false
				cls := "prefill|" + job.ct.name[:strings.IndexByte(job.ct.name, '.')] + "|" + job.ct.class + "|known:reference-only-prefix-unsupported"
				res.notes[cls]++
				res.inOf[cls] = sx.Str(job.ct.name)
			}
		}
		for k := lo; k <= 1023; k++ {
			c03PrefillOne(res, r, job, k, 0, s, refs, sized)
			if k == 1023 || k == 1023-s || k == 1023-s+1 || (thorough && k%7 == 0) {
				for j := 1; j <= 4 && (k > 0 || refOnly); j++ {
					c03PrefillOne(res, r, job, k, j, s, refs, sized)
				}
			}
		}
		for _, k := range []int{0, 1, 7, 8, 9} {
			if k < lo {
				j := r.Intn(5)
				if k == 0 && !refOnly {
					j = 0
				}
				c03PrefillOne(res, r, job, k, j, s, refs, sized)
			}
		}
	}
	return res
}

// c03R8 emits the model-compared family, starts the implementation-only sweep in the
// background and returns the function that collects its result.
func c03R8(c *Ctx) func() {
	c03Load()
	c03FullFamily(c)
	var names []string
	for n := range c03Types {
		if !strings.Contains(n, ":") && n != "tlb.VmStack" && c03Types[n].class != tlbdesc.ClassNotCell {
			names = append(names, n)
		}
	}
	sort.Strings(names)
	var jobs []c03PrefillJob
	per := c.Scale(1, 6)
	for _, n := range names {
		ct := c03Types[n]
		for i := 0; i < per; i++ {
			pv := reflect.New(ct.t)
			if !tlbdesc.GoRand(c.R, pv.Elem(), "", 0) {
				break
			}
			jobs = append(jobs, c03PrefillJob{ct: ct, pv: pv, canon: tlbdesc.Canon(pv.Elem())})
		}
	}
	r := c.R.Fork(0xc03f)
	done := make(chan *c03PrefillResult, 1)
	thorough := c.Thorough()
	go func() { done <- c03PrefillRun(jobs, r, thorough) }()
	return func() {
		res := <-done
		var ks []string
		for k := range res.notes {
			ks = append(ks, k)
		}
		sort.Strings(ks)
		for _, k := range ks {
			for i := 0; i < res.notes[k]; i++ {
				c.Note("c03.prefill", k, res.inOf[k])
			}
		}
		seen := map[string]int{}
		for _, f := range res.fails {
			seen[f.key]++
			if seen[f.key] <= 3 {
				c.Fail("c03.prefill", f.in, f.key, f.what)
			}
		}
	}
}
