package main

// C20, message body envelopes of abi/messages.go (InMsgBody / ExtOutMsgBody):
// implementation-side oracle only (there is no Coq model of the reflection
// based inner encoders): Marshal succeeds, the text is valid JSON, Unmarshal of
// it succeeds and re-marshals to the same text with the same SumType / OpCode;
// mutated envelopes never panic.

import (
	"bytes"
	"encoding/json"
	"fmt"

	"github.com/tonkeeper/tongo/abi"
	"github.com/tonkeeper/tongo/boc"
	"github.com/tonkeeper/tongo/tlb"

	"verifharness/sx"
)

func init() {
	// replay entry: (n0|n1 doc) -> re-marshalled text | 'err
	execs["c20.envelope"] = func(in sx.V) sx.V {
		doc := in.List[1].Bytes
		var out []byte
		var err error
		if in.List[0].I() == 0 {
			var b abi.InMsgBody
			if err = json.Unmarshal(doc, &b); err == nil {
				out, err = json.Marshal(b)
			}
		} else if in.List[0].I() == 1 {
			var b abi.ExtOutMsgBody
			if err = json.Unmarshal(doc, &b); err == nil {
				out, err = json.Marshal(b)
			}
		} else if in.List[0].I() == 2 {
			var b abi.JettonPayload
			if err = json.Unmarshal(doc, &b); err == nil {
				out, err = json.Marshal(b)
			}
		} else {
			var b abi.NFTPayload
			if err = json.Unmarshal(doc, &b); err == nil {
				out, err = json.Marshal(b)
			}
		}
		if err != nil {
			return sx.A("err")
		}
		return sx.Bytes(out)
	}
}

func c20EnvelopeCheck(c *Ctx, which int, sumType string, opCode *uint32, doc []byte, err error) {
	in := sx.L(sx.Nat(which), sx.Bytes(doc))
	if err != nil {
		c.Fail("c20.envelope", in, "envelope-marshal", "json.Marshal of a message body failed: "+err.Error())
		return
	}
	if !json.Valid(doc) {
		c.Fail("c20.envelope", in, "envelope-invalid-json", "message body JSON is not valid")
		return
	}
	var st string
	var oc *uint32
	var again []byte
	var uerr, merr error
	if which == 0 {
		var b abi.InMsgBody
		uerr = json.Unmarshal(doc, &b)
		st, oc = b.SumType, b.OpCode
		if uerr == nil {
			again, merr = json.Marshal(b)
		}
	} else {
		var b abi.ExtOutMsgBody
		uerr = json.Unmarshal(doc, &b)
		st, oc = b.SumType, b.OpCode
		if uerr == nil {
			again, merr = json.Marshal(b)
		}
	}
	if uerr != nil || merr != nil {
		c.Fail("c20.envelope", in, "envelope-roundtrip", fmt.Sprintf("own output rejected: %v %v", uerr, merr))
		return
	}
	same := st == sumType && (oc == nil) == (opCode == nil) && (oc == nil || *oc == *opCode)
	if !same || !bytes.Equal(again, doc) {
		c.Fail("c20.envelope", in, "envelope-roundtrip", fmt.Sprintf("round trip changed the body: %s", again))
	}
}

func c20EnvelopeMut(c *Ctx, which int, doc []byte, n int) {
	for i := 0; i < n; i++ {
		m := mutate20(c.R, doc)
		func() {
			defer func() {
				if r := recover(); r != nil {
					c.Fail("c20.envelope", sx.L(sx.Nat(which), sx.Bytes(m)), "panic-envelope", fmt.Sprintf("UnmarshalJSON panicked: %v", r))
				}
			}()
			if which == 0 {
				var b abi.InMsgBody
				_ = json.Unmarshal(m, &b)
			} else {
				var b abi.ExtOutMsgBody
				_ = json.Unmarshal(m, &b)
			}
		}()
	}
}

func genC20Envelopes(c *Ctx) {
	r := c.R
	std := func() tlb.MsgAddress {
		a := addrFromSx20(sx.L(sx.A("std"), sx.A("no"), sx.Z(int64(int8(r.U64()))), sx.Bytes(randBytes20(r, 32))))
		return a
	}
	op := func(v uint32) *uint32 { return &v }
	n := c.Scale(20, 300)
	for i := 0; i < n; i++ {
		var bodies []abi.InMsgBody
		bodies = append(bodies, abi.InMsgBody{SumType: abi.EmptyMsgOp})
		// unknown op: the body is a cell
		cell := boc.NewCell()
		_ = cell.WriteUint(uint64(uint32(r.U64())), 32)
		_ = cell.WriteBytes(r.Bytes(r.Intn(40)))
		if r.Bool() {
			ch := boc.NewCell()
			_ = ch.WriteUint(r.U64(), 1+r.Intn(64))
			_ = cell.AddRef(ch)
		}
		bodies = append(bodies, abi.InMsgBody{SumType: abi.UnknownMsgOp, OpCode: op(uint32(r.U64())), Value: cell})
		bodies = append(bodies, abi.InMsgBody{SumType: abi.TextCommentMsgOp, OpCode: op(0), Value: abi.TextCommentMsgBody{Text: tlb.Text(fmt.Sprintf("hello %d \"quoted\" <&> é", r.Intn(1000)))}})
		bodies = append(bodies, abi.InMsgBody{SumType: abi.OfferStorageContractMsgOp, OpCode: op(0x107c49ef), Value: abi.OfferStorageContractMsgBody{QueryId: r.U64()}})
		bodies = append(bodies, abi.InMsgBody{SumType: abi.PtonTonTransferMsgOp, OpCode: op(0x01f3835d), Value: abi.PtonTonTransferMsgBody{
			QueryId: r.U64(), TonAmount: tlb.Grams(r.U64()), RefundAddress: std(),
			ForwardPayload: tlb.EitherRef[tlb.Any]{IsRight: r.Bool(), Value: tlb.Any(*cell)}}})
		for _, b := range bodies {
			doc, err := json.Marshal(b)
			c20EnvelopeCheck(c, 0, b.SumType, b.OpCode, doc, err)
			if err == nil {
				c20EnvelopeMut(c, 0, doc, 4)
			}
		}
		outs := []abi.ExtOutMsgBody{
			{SumType: abi.EmptyMsgOp},
			{SumType: abi.UnknownMsgOp, OpCode: op(uint32(r.U64())), Value: cell},
		}
		for _, b := range outs {
			doc, err := json.Marshal(b)
			c20EnvelopeCheck(c, 1, b.SumType, b.OpCode, doc, err)
			if err == nil {
				c20EnvelopeMut(c, 1, doc, 4)
			}
		}
	}
}
