package main

// C05 round 8: dictionaries that are DAGs.  A dictionary whose sibling (or cousin) subtrees are equal —
// keys mirrored under a fork with equal values — is a valid dictionary; parsed from a BOC (or built by
// hand with one cell referenced twice) the equal subtrees are ONE *boc.Cell object that occurs at several
// positions, in the extreme as both children of one fork.  Cell.NextRef resets the cursors of the cell it
// returns, so a decoder that fetches a child, does something else with the same object and only then walks
// it reads an exhausted / half-read cell.  Every decoder of the anchor files (Hashmap, HashmapE, HashmapAug,
// HashmapAugE, the leaf counters) must give the mapping / the count whatever the object sharing is.
//
// The generated dictionaries have a complete binary top of depth j (empty labels) below a common prefix;
// the 2^j slots hold subtrees taken from a pool of one or two subtrees.  The tree form goes through the
// existing kinds c05.decode / c05.aug / c05.count (compared with the Coq model); the oracle builds the same
// cells as (a) a tree, (b) a DAG with one object per distinct cell, (c) a tree sent through
// ToBoc / DeserializeBoc, decodes each and requires the generator's mapping.

import (
	"fmt"
	"strings"

	"github.com/tonkeeper/tongo/boc"
	"github.com/tonkeeper/tongo/tlb"

	"verifharness/prng"
	"verifharness/sx"
)

type c05DagDec struct {
	augE func(c *boc.Cell) ([]c05KV, error)  // HashmapAugE[K, Uint32, Uint32]: Keys()/Values()
	aug  func(c *boc.Cell) ([]uint32, error) // HashmapAug[K, Uint32, Uint32]: Values() (it has no Keys())
}

var c05DagDecs = map[int]c05DagDec{}

func c05DagReg[K c05Key]() {
	var z K
	c05DagDecs[z.FixedSize()] = c05DagDec{
		augE: func(c *boc.Cell) ([]c05KV, error) {
			var h tlb.HashmapAugE[K, tlb.Uint32, tlb.Uint32]
			if err := tlb.Unmarshal(c, &h); err != nil {
				return nil, err
			}
			ks, vs := h.Keys(), h.Values()
			if len(ks) != len(vs) {
				return nil, fmt.Errorf("keys/values differ in length")
			}
			out := make([]c05KV, 0, len(ks))
			for i := range ks {
				kb, err := c05KeyBits(ks[i])
				if err != nil {
					return nil, err
				}
				out = append(out, c05KV{kb, uint32(vs[i])})
			}
			return out, nil
		},
		aug: func(c *boc.Cell) ([]uint32, error) {
			var h tlb.HashmapAug[K, tlb.Uint32, tlb.Uint32]
			if err := tlb.Unmarshal(c, &h); err != nil {
				return nil, err
			}
			var out []uint32
			for _, v := range h.Values() {
				out = append(out, uint32(v))
			}
			return out, nil
		},
	}
}

func init() {
	c05DagReg[tlb.Uint1]()
	c05DagReg[tlb.Uint2]()
	c05DagReg[tlb.Uint7]()
	c05DagReg[tlb.Uint8]()
	c05DagReg[tlb.Uint9]()
	c05DagReg[tlb.Uint15]()
	c05DagReg[tlb.Uint16]()
	c05DagReg[tlb.Uint32]()
	c05DagReg[tlb.Uint64]()
	c05DagReg[tlb.Bits80]()
	c05DagReg[tlb.Bits96]()
	c05DagReg[tlb.Bits256]()
	c05DagReg[tlb.Bits512]()
}

// the cells as a DAG: one *boc.Cell per distinct (bits, children) — what a BOC parser produces
func c05DagCell(pc *c05Cell, memo map[string]*boc.Cell, ids map[*boc.Cell]int) (*boc.Cell, error) {
	var sb strings.Builder
	fmt.Fprintf(&sb, "%d:%s", pc.exo, pc.bits)
	var kids []*boc.Cell
	for _, r := range pc.refs {
		k, err := c05DagCell(r, memo, ids)
		if err != nil {
			return nil, err
		}
		kids = append(kids, k)
		fmt.Fprintf(&sb, "|%d", ids[k])
	}
	key := sb.String()
	if c, ok := memo[key]; ok {
		return c, nil
	}
	out := boc.NewCell()
	if pc.exo > 0 {
		out = boc.NewCellExotic(boc.CellType(pc.exo))
	}
	for i := 0; i < len(pc.bits); i++ {
		if err := out.WriteBit(pc.bits[i] == '1'); err != nil {
			return nil, err
		}
	}
	for _, k := range kids {
		if err := out.AddRef(k); err != nil {
			return nil, err
		}
	}
	memo[key] = out
	ids[out] = len(ids) + 1
	return out, nil
}

// does some cell of the graph reference one object twice?
func c05DagHasTwin(c *boc.Cell, seen map[*boc.Cell]bool) bool {
	if seen[c] {
		return false
	}
	seen[c] = true
	refs := c.Refs()
	for i := range refs {
		for j := i + 1; j < len(refs); j++ {
			if refs[i] == refs[j] {
				return true
			}
		}
	}
	for _, r := range refs {
		if c05DagHasTwin(r, seen) {
			return true
		}
	}
	return false
}

// extras of forks / (extra value) of leaves, every node once (nodes are shared between positions)
func c05DagDecorate(r *prng.R, t *c05Tree, seen map[*c05Tree]bool) {
	if seen[t] {
		return
	}
	seen[t] = true
	if t.leaf {
		t.raw, t.vbits = true, c05U32Bits(uint32(r.U64()))+c05U32Bits(t.value)
		return
	}
	t.xbits = c05U32Bits(uint32(r.U64()))
	c05DagDecorate(r, t.l, seen)
	c05DagDecorate(r, t.r, seen)
}

func c05ValuesSx(vs []uint32) string {
	var out []sx.V
	for _, v := range vs {
		out = append(out, sx.N(uint64(v)))
	}
	return sx.L(out...).String()
}

func genC05R8(c *Ctx) {
	r := c.R
	widths := []int{1, 2, 7, 8, 9, 15, 16, 32, 64, 80, 96, 256, 512}
	variants := []string{"hm", "hme", "aug", "auge"}
	modes := []string{"go", "short", "long", "same", "random"}
	nIt := c.Scale(4, 30)
	for _, n := range widths {
		for _, variant := range variants {
			for it := 0; it < nIt; it++ {
				// --- shape: prefix q, complete top of depth j, subtrees over m = n - |q| - j bits
				j := 1 + r.Intn(3)
				if j > n {
					j = n
				}
				qlen := 0
				switch r.Intn(4) {
				case 0:
					qlen = n - j // the shared cells are leaves without key bits
				case 1:
					qlen = r.Intn(n - j + 1)
				case 2:
					qlen = minInt(n-j, r.Intn(2))
				}
				m := n - qlen - j
				q := c05RandBits(r, qlen)
				npool := 1 + r.Intn(2)
				var pool []*c05Tree
				var poolKVs [][]c05KV
				for p := 0; p < npool; p++ {
					var kvs []c05KV
					if m == 0 {
						kvs = []c05KV{{"", uint32(r.U64())}}
					} else {
						for _, k := range c05KeySet(r, m, 1+r.Intn(5), c05Shapes[r.Intn(len(c05Shapes))]) {
							kvs = append(kvs, c05KV{k, uint32(r.U64())})
						}
						kvs = c05SortedDistinct(kvs)
					}
					if len(kvs) == 0 {
						kvs = []c05KV{{strings.Repeat("0", m), uint32(r.U64())}}
					}
					pool = append(pool, c05Build(kvs))
					poolKVs = append(poolKVs, kvs)
				}
				slots := 1 << uint(j)
				assign := make([]int, slots)
				share := "all" // every slot holds the same subtree: every fork of the top has twin children
				if npool > 1 {
					share = "some"
					for s := range assign {
						assign[s] = r.Intn(npool)
					}
					if r.Bool() { // at least one pair of siblings is equal
						s := 2 * r.Intn(slots/2)
						assign[s+1] = assign[s]
						share = "sibling"
					}
				}
				var build func(level, idx int) *c05Tree
				build = func(level, idx int) *c05Tree {
					if level == j {
						return pool[assign[idx]]
					}
					return &c05Tree{l: build(level+1, 2*idx), r: build(level+1, 2*idx+1)}
				}
				root := build(0, 0)
				root.label = q
				var kvs []c05KV
				for s := 0; s < slots; s++ {
					for _, kv := range poolKVs[assign[s]] {
						kvs = append(kvs, c05KV{q + c05Bin(s, j) + kv.k, kv.v})
					}
				}
				mode := modes[r.Intn(len(modes))]
				root.chooseForms(r, mode)
				augmented := variant == "aug" || variant == "auge"
				if augmented {
					c05DagDecorate(r, root, map[*c05Tree]bool{})
				}
				pc, fits := root.cells(n)
				if !fits || !c05CellOK(pc) {
					continue
				}
				top := pc
				switch variant {
				case "hme":
					top = &c05Cell{bits: "1", refs: []*c05Cell{pc}}
				case "auge":
					top = &c05Cell{bits: "1" + c05U32Bits(uint32(r.U64())), refs: []*c05Cell{pc}}
				}
				e := variant == "hme" || variant == "auge"
				cls := fmt.Sprintf("dag|%s|%s|%s", c05Family(c05KT{n, false}), variant, share)
				want := c05ItemsSx(kvs).String()
				var wantVals []uint32
				for _, kv := range kvs {
					wantVals = append(wantVals, kv.v)
				}

				// --- the tree form through the kinds the Coq model implements
				inC := sx.L(sx.Nat(n), sx.B(e), top.sx())
				if cnt := c.Emit("c05.count", inC, cls); cnt.String() != sx.Nat(len(kvs)).String() {
					c.Fail("c05.count", inC, "leaf-count", fmt.Sprintf("a valid dictionary with %d entries and equal sibling subtrees is counted as %s", len(kvs), cnt))
				}
				switch {
				case !augmented:
					in := sx.L(sx.Nat(n), sx.B(e), top.sx())
					if out := c.Emit("c05.decode", in, cls); out.String() != want {
						c.Fail("c05.decode", in, "decode-"+mode, fmt.Sprintf("a valid dictionary with equal sibling subtrees (label forms: %s) decodes to %s", mode, trunc(out.String(), 200)))
					}
				case variant == "auge" && c05AugImpls[n] != nil:
					in := sx.L(sx.Nat(n), top.sx())
					if out := c.Emit("c05.aug", in, cls); out.String() != want {
						c.Fail("c05.aug", in, "aug-decode-"+mode, fmt.Sprintf("a valid augmented dictionary with equal sibling subtrees (label forms: %s) decodes to %s", mode, trunc(out.String(), 200)))
					}
				}

				// --- the same cells as objects: tree, DAG built by hand, DAG out of a BOC
				in := sx.L(sx.A(variant), sx.Nat(n), top.sx())
				for _, how := range []string{"tree", "shared", "boc"} {
					var bc *boc.Cell
					var err error
					switch how {
					case "tree":
						bc, err = top.toBoc()
					case "shared":
						bc, err = c05DagCell(top, map[string]*boc.Cell{}, map[*boc.Cell]int{})
					default:
						bc, err = top.toBoc()
						if err == nil {
							var ser []byte
							var cells []*boc.Cell
							if ser, err = bc.ToBoc(); err == nil {
								if cells, err = boc.DeserializeBoc(ser); err == nil && len(cells) != 1 {
									err = fmt.Errorf("%d roots", len(cells))
								}
								if err == nil {
									bc = cells[0]
								}
							}
						}
					}
					if err != nil {
						c.Fail("c05.decode", in, "harness-dag", fmt.Sprintf("cannot build the cells (%s): %v", how, err))
						continue
					}
					twin := "distinct-children"
					if c05DagHasTwin(bc, map[*boc.Cell]bool{}) {
						twin = "twin-children"
					}
					c.Note("c05.dag", fmt.Sprintf("%s|%s|%s|%s", variant, how, share, twin), in)
					what := fmt.Sprintf("%d-bit keys, %d entries, cells as %s (%s, label forms: %s)", n, len(kvs), how, twin, mode)
					func() {
						defer func() {
							if p := recover(); p != nil {
								c.Fail("c05.decode", in, "dag-panic-"+variant, fmt.Sprintf("decoding a valid dictionary panics: %v; %s", p, what))
							}
						}()
						// 1. the decoder of the variant
						got, gerr := "", error(nil)
						exp := want
						switch variant {
						case "hm", "hme":
							var items []c05KV
							items, gerr = c05Impls[c05Name(n, false)].decode(e, bc)
							got = c05ItemsSx(items).String()
						case "auge":
							var items []c05KV
							items, gerr = c05DagDecs[n].augE(bc)
							got = c05ItemsSx(items).String()
						default:
							var vs []uint32
							vs, gerr = c05DagDecs[n].aug(bc)
							got, exp = c05ValuesSx(vs), c05ValuesSx(wantVals)
						}
						if gerr != nil {
							c.Fail("c05.decode", in, "dag-decode-"+variant, fmt.Sprintf("a valid dictionary in which one cell object occurs at several positions does not decode: %v; %s", gerr, what))
						} else if got != exp {
							c.Fail("c05.decode", in, "dag-decode-"+variant, fmt.Sprintf("a valid dictionary in which one cell object occurs at several positions decodes to %s, expected %s; %s", trunc(got, 160), trunc(exp, 160), what))
						}
						// 2. decoding the same object a second time (the caller rewinds the root only)
						bc.ResetCounters()
						if variant == "hm" || variant == "hme" {
							items, err := c05Impls[c05Name(n, false)].decode(e, bc)
							if err != nil || c05ItemsSx(items).String() != want {
								c.Fail("c05.decode", in, "dag-decode-again-"+variant, fmt.Sprintf("second decode of the same cells (root rewound) gives %s (err %v); %s", trunc(c05ItemsSx(items).String(), 160), err, what))
							}
						}
						// 3. the leaf counters on the same objects
						bc.ResetCounters()
						var k int
						var cerr error
						if e {
							k, cerr = c05CountEImpls[n](bc)
						} else {
							k, cerr = tlb.VerifCountLeafs(n, bc)
						}
						if cerr != nil || k != len(kvs) {
							c.Fail("c05.count", in, "dag-leaf-count", fmt.Sprintf("counted as %d (err %v); %s", k, cerr, what))
						}
						if e && n == 256 {
							bc.ResetCounters()
							extra := tlb.BlockExtra{InMsgDescrCell: *bc, OutMsgDescrCell: *bc}
							a, errA := extra.InMsgDescrLength()
							b, errB := extra.OutMsgDescrLength()
							if errA != nil || errB != nil || a != len(kvs) || b != len(kvs) {
								c.Fail("c05.count", in, "dag-leaf-count", fmt.Sprintf("BlockExtra.InMsgDescrLength / OutMsgDescrLength = %d (err %v) / %d (err %v); %s", a, errA, b, errB, what))
							}
						}
					}()
				}
			}
		}
	}
}
