package main

// C05: dictionaries (tlb.Hashmap / tlb.HashmapE) preserve their key->value
// mapping.  Implementation side of the correspondence check plus the property
// oracles.  Everything goes through the public API: Put / Get / Items,
// tlb.Marshal, tlb.Unmarshal.
//
// Case kinds
//   c05.encode (n signed hashmapE ((key value)...))   Put in that order, Marshal -> cell tree | 'err
//   c05.raw    (n signed hashmapE ((key value)...))   NewHashmap(E)(keys, values) with the slices in exactly
//                                                     that order (duplicates allowed), Marshal -> cell | 'err
//   c05.decode (n hashmapE cell)                      Unmarshal, Items()         -> ((key value)...) | 'err
//   c05.cells  (n tree)                               spec serialisation of a Patricia tree with a label
//                                                     form per edge (independent encoder below)      -> cell | 'err
//   c05.ops    (n signed cell (op...))                Unmarshal HashmapE, Get/Put, Items, re-Marshal
//   c05.hist   (n signed hashmapE build ((key value)...) (step...))   a history on dictionary OBJECTS: build = 'put |
//                                                     'new (NewHashmap(E) with the slices in that order) | 'new2 (two
//                                                     objects from the SAME slices); steps ('marshal i) ('items i)
//                                                     ('get i k) ('put i k v) -> (result ...)
//   c05.dec    (n hashmapE cfg vtype cell libs)     decode under a Decoder configuration (plain | new | lib | zlib | debug)
//                                                     a dictionary whose values are Uint32 | Ref[Uint32] | Ref[boc.Cell];
//                                                     references may be library cells ('x n2 bits) resolved through
//                                                     libs = ((libbits target)...) or pruned branches ('x n1 bits)
//   c05.count  (n hashmapE cell)                    countLeafs / hashmapAugExtraCountLeafs (hooks; n = 256 also through
//                                                     BlockExtra.InMsgDescrLength / OutMsgDescrLength) -> n | 'err
//   c05.lsize  (m bits)                             loadLabelSize -> (length unread-bits) | 'err
//   c05.aug    (n cell)                             HashmapAugE[key, Uint32, Uint32] Unmarshal, Keys()/Values()
//   c05.cfg    (build (step...))                    histories on tlb.ConfigParams objects incl. CloneKeepingSubsetOfKeys
//   c05.addr   (((wc addr value)...))                 AddressWithWorkchain keys given as values: Put, Marshal,
//                                                     Unmarshal -> (cell ((wc addr value)...)) | 'err
// A cell tree is (b<bits> (child ...)).  Keys are printed as their bits,
// values are tlb.Uint32.

import (
	"fmt"
	"sort"
	"strings"

	"github.com/tonkeeper/tongo/boc"
	"github.com/tonkeeper/tongo/tlb"

	"verifharness/prng"
	"verifharness/sx"
)

type c05Key interface {
	FixedSize() int
	Equal(other any) bool
	Compare(other any) (int, bool)
}

type c05KV struct {
	k string
	v uint32
}

type c05Impl struct {
	n      int
	signed bool
	encode func(e bool, kvs []c05KV) (*boc.Cell, error)
	raw    func(e bool, kvs []c05KV) (*boc.Cell, error)
	hist   func(e bool, build string, kvs []c05KV, steps []sx.V) sx.V
	decode func(e bool, c *boc.Cell) ([]c05KV, error)
	ops    func(c *boc.Cell, ops []sx.V) sx.V
}

var c05Impls = map[string]c05Impl{}

func c05Name(n int, signed bool) string {
	if signed {
		return fmt.Sprintf("s%d", n)
	}
	return fmt.Sprintf("u%d", n)
}

func c05BitString(s string) boc.BitString {
	b := boc.NewBitString(len(s))
	for i := 0; i < len(s); i++ {
		_ = b.WriteBit(s[i] == '1')
	}
	return b
}

func c05CellBits(c *boc.Cell) string {
	bs := c.RawBitString()
	bs.ResetCounter()
	var sb strings.Builder
	for bs.BitsAvailableForRead() > 0 {
		bit, err := bs.ReadBit()
		if err != nil {
			break
		}
		if bit {
			sb.WriteByte('1')
		} else {
			sb.WriteByte('0')
		}
	}
	return sb.String()
}

func c05KeyFromBits[K c05Key](s string) (K, error) {
	var k K
	cell := boc.NewCellWithBits(c05BitString(s))
	err := tlb.Unmarshal(cell, &k)
	return k, err
}

func c05KeyBits[K c05Key](k K) (string, error) {
	cell := boc.NewCell()
	if err := tlb.Marshal(cell, k); err != nil {
		return "", err
	}
	return c05CellBits(cell), nil
}

func c05Items[K c05Key](items []tlb.HashmapItem[K, tlb.Uint32]) ([]c05KV, error) {
	out := make([]c05KV, 0, len(items))
	for _, it := range items {
		kb, err := c05KeyBits(it.Key)
		if err != nil {
			return nil, err
		}
		out = append(out, c05KV{kb, uint32(it.Value)})
	}
	return out, nil
}

func c05Reg[K c05Key](signed bool) {
	var z K
	n := z.FixedSize()
	im := c05Impl{n: n, signed: signed}
	im.encode = func(e bool, kvs []c05KV) (*boc.Cell, error) {
		c := boc.NewCell()
		if e {
			var h tlb.HashmapE[K, tlb.Uint32]
			for _, kv := range kvs {
				k, err := c05KeyFromBits[K](kv.k)
				if err != nil {
					return nil, err
				}
				h.Put(k, tlb.Uint32(kv.v))
			}
			return c, tlb.Marshal(c, h)
		}
		var h tlb.Hashmap[K, tlb.Uint32]
		for _, kv := range kvs {
			k, err := c05KeyFromBits[K](kv.k)
			if err != nil {
				return nil, err
			}
			h.Put(k, tlb.Uint32(kv.v))
		}
		return c, tlb.Marshal(c, h)
	}
	im.raw = func(e bool, kvs []c05KV) (*boc.Cell, error) {
		keys := make([]K, 0, len(kvs))
		values := make([]tlb.Uint32, 0, len(kvs))
		for _, kv := range kvs {
			k, err := c05KeyFromBits[K](kv.k)
			if err != nil {
				return nil, err
			}
			keys = append(keys, k)
			values = append(values, tlb.Uint32(kv.v))
		}
		c := boc.NewCell()
		if e {
			return c, tlb.Marshal(c, tlb.NewHashmapE(keys, values))
		}
		return c, tlb.Marshal(c, tlb.NewHashmap(keys, values))
	}
	im.hist = func(e bool, build string, kvs []c05KV, steps []sx.V) sx.V {
		// one dictionary object behind closures (Hashmap or HashmapE)
		type obj struct {
			put     func(k K, v tlb.Uint32)
			get     func(k K) (tlb.Uint32, bool)
			items   func() []tlb.HashmapItem[K, tlb.Uint32]
			keys    func() []K
			values  func() []tlb.Uint32
			marshal func() (*boc.Cell, error)
			decode  func(c *boc.Cell) error
		}
		field := build == "fput" || build == "fnew"
		if field {
			build = build[1:]
		}
		mk := func(keys []K, values []tlb.Uint32) obj {
			if field && e {
				// the object is a struct field that is decoded into again and again
				var s struct {
					D tlb.HashmapE[K, tlb.Uint32]
				}
				s.D = tlb.NewHashmapE(keys, values)
				return obj{
					put:    func(k K, v tlb.Uint32) { s.D.Put(k, v) },
					get:    func(k K) (tlb.Uint32, bool) { return s.D.Get(k) },
					items:  func() []tlb.HashmapItem[K, tlb.Uint32] { return s.D.Items() },
					keys:   func() []K { return s.D.Keys() },
					values: func() []tlb.Uint32 { return s.D.Values() },
					marshal: func() (*boc.Cell, error) {
						c := boc.NewCell()
						return c, tlb.Marshal(c, s)
					},
					decode: func(c *boc.Cell) error { return tlb.Unmarshal(c, &s) }}
			}
			if field {
				var s struct {
					D tlb.Hashmap[K, tlb.Uint32]
				}
				s.D = tlb.NewHashmap(keys, values)
				return obj{
					put:    func(k K, v tlb.Uint32) { s.D.Put(k, v) },
					get:    func(k K) (tlb.Uint32, bool) { return s.D.Get(k) },
					items:  func() []tlb.HashmapItem[K, tlb.Uint32] { return s.D.Items() },
					keys:   func() []K { return s.D.Keys() },
					values: func() []tlb.Uint32 { return s.D.Values() },
					marshal: func() (*boc.Cell, error) {
						c := boc.NewCell()
						return c, tlb.Marshal(c, s)
					},
					decode: func(c *boc.Cell) error { return tlb.Unmarshal(c, &s) }}
			}
			if e {
				h := tlb.NewHashmapE(keys, values)
				// closures, not method values: a method value of a value-receiver method
				// would copy h when it is bound
				return obj{
					put:    func(k K, v tlb.Uint32) { h.Put(k, v) },
					get:    func(k K) (tlb.Uint32, bool) { return h.Get(k) },
					items:  func() []tlb.HashmapItem[K, tlb.Uint32] { return h.Items() },
					keys:   func() []K { return h.Keys() },
					values: func() []tlb.Uint32 { return h.Values() },
					marshal: func() (*boc.Cell, error) {
						c := boc.NewCell()
						return c, tlb.Marshal(c, h) // by value, as a field of a struct would be
					},
					decode: func(c *boc.Cell) error { return tlb.NewDecoder().Unmarshal(c, &h) }}
			}
			h := tlb.NewHashmap(keys, values)
			return obj{
				put:    func(k K, v tlb.Uint32) { h.Put(k, v) },
				get:    func(k K) (tlb.Uint32, bool) { return h.Get(k) },
				items:  func() []tlb.HashmapItem[K, tlb.Uint32] { return h.Items() },
				keys:   func() []K { return h.Keys() },
				values: func() []tlb.Uint32 { return h.Values() },
				marshal: func() (*boc.Cell, error) {
					c := boc.NewCell()
					return c, tlb.Marshal(c, h) // by value, as a field of a struct would be
				},
				decode: func(c *boc.Cell) error { return tlb.NewDecoder().Unmarshal(c, &h) }}
		}
		var objs []obj
		switch build {
		case "put":
			o := mk(nil, nil)
			for _, kv := range kvs {
				k, err := c05KeyFromBits[K](kv.k)
				if err != nil {
					return sx.A("err")
				}
				o.put(k, tlb.Uint32(kv.v))
			}
			objs = []obj{o}
		default:
			keys := make([]K, 0, len(kvs))
			values := make([]tlb.Uint32, 0, len(kvs))
			for _, kv := range kvs {
				k, err := c05KeyFromBits[K](kv.k)
				if err != nil {
					return sx.A("err")
				}
				keys = append(keys, k)
				values = append(values, tlb.Uint32(kv.v))
			}
			objs = []obj{mk(keys, values)}
			if build == "new2" {
				objs = append(objs, mk(keys, values))
			}
		}
		var out []sx.V
		for _, st := range steps {
			if len(st.List) < 2 || st.List[1].I() >= len(objs) {
				out = append(out, sx.L(sx.A("harness-error"), sx.A("step")))
				continue
			}
			o := objs[st.List[1].I()]
			switch {
			case st.Head() == "marshal" && len(st.List) == 2:
				c, err := o.marshal()
				if err != nil {
					out = append(out, sx.A("err"))
				} else {
					out = append(out, c05CellSx(c))
				}
			case st.Head() == "items" && len(st.List) == 2:
				its, ks, vs := o.items(), o.keys(), o.values()
				ok := len(ks) == len(its) && len(vs) == len(its)
				for i := 0; ok && i < len(its); i++ {
					ok = its[i].Key.Equal(ks[i]) && its[i].Value == vs[i]
				}
				items, err := c05Items(its)
				if err != nil || !ok {
					out = append(out, sx.A("inconsistent"))
				} else {
					out = append(out, c05ItemsSx(items))
				}
			case st.Head() == "get" && len(st.List) == 3:
				k, err := c05KeyFromBits[K](st.List[2].Bits)
				if err != nil {
					return sx.A("err")
				}
				if v, ok := o.get(k); ok {
					out = append(out, sx.L(sx.N(uint64(v))))
				} else {
					out = append(out, sx.A("none"))
				}
			case st.Head() == "decode" && len(st.List) == 3:
				pc, ok := c05CellOfSx(st.List[2])
				if !ok {
					return sx.L(sx.A("harness-error"), sx.A("cell"))
				}
				bc, err := pc.toBoc()
				if err != nil {
					return sx.L(sx.A("harness-error"), sx.A("cell-build"))
				}
				if err := o.decode(bc); err != nil {
					out = append(out, sx.A("err"))
				} else {
					out = append(out, sx.A("ok"))
				}
			case st.Head() == "put" && len(st.List) == 4:
				k, err := c05KeyFromBits[K](st.List[2].Bits)
				if err != nil {
					return sx.A("err")
				}
				o.put(k, tlb.Uint32(st.List[3].U64()))
				out = append(out, sx.A("ok"))
			default:
				out = append(out, sx.L(sx.A("harness-error"), sx.A("step")))
			}
		}
		return sx.L(out...)
	}
	im.decode = func(e bool, c *boc.Cell) ([]c05KV, error) {
		if e {
			var h tlb.HashmapE[K, tlb.Uint32]
			if err := tlb.Unmarshal(c, &h); err != nil {
				return nil, err
			}
			// Keys()/Values() and Items() must describe the same sequence
			ks, vs, its := h.Keys(), h.Values(), h.Items()
			if len(ks) != len(its) || len(vs) != len(its) {
				return nil, fmt.Errorf("keys/values/items differ in length")
			}
			for i := range its {
				if !its[i].Key.Equal(ks[i]) || its[i].Value != vs[i] {
					return nil, fmt.Errorf("keys/values/items differ")
				}
			}
			return c05Items(its)
		}
		var h tlb.Hashmap[K, tlb.Uint32]
		if err := tlb.Unmarshal(c, &h); err != nil {
			return nil, err
		}
		return c05Items(h.Items())
	}
	im.ops = func(c *boc.Cell, ops []sx.V) sx.V {
		var h tlb.HashmapE[K, tlb.Uint32]
		if err := tlb.Unmarshal(c, &h); err != nil {
			return sx.A("err")
		}
		var out []sx.V
		for _, o := range ops {
			switch {
			case o.Head() == "get" && len(o.List) == 2:
				k, err := c05KeyFromBits[K](o.List[1].Bits)
				if err != nil {
					return sx.A("err")
				}
				if v, ok := h.Get(k); ok {
					out = append(out, sx.L(sx.N(uint64(v))))
				} else {
					out = append(out, sx.A("none"))
				}
			case o.Head() == "put" && len(o.List) == 3:
				k, err := c05KeyFromBits[K](o.List[1].Bits)
				if err != nil {
					return sx.A("err")
				}
				h.Put(k, tlb.Uint32(o.List[2].U64()))
				out = append(out, sx.A("ok"))
			default:
				out = append(out, sx.L(sx.A("harness-error"), sx.A("op")))
			}
		}
		items, err := c05Items(h.Items())
		if err != nil {
			return sx.A("err")
		}
		out = append(out, c05ItemsSx(items))
		nc := boc.NewCell()
		if err := tlb.Marshal(nc, h); err != nil {
			out = append(out, sx.A("err"))
		} else {
			out = append(out, c05CellSx(nc))
		}
		return sx.L(out...)
	}
	c05Impls[c05Name(n, signed)] = im
}

func init() {
	c05Reg[tlb.Uint1](false)
	c05Reg[tlb.Uint2](false)
	c05Reg[tlb.Uint7](false)
	c05Reg[tlb.Uint8](false)
	c05Reg[tlb.Uint9](false)
	c05Reg[tlb.Uint15](false)
	c05Reg[tlb.Uint16](false)
	c05Reg[tlb.Uint32](false)
	c05Reg[tlb.Uint64](false)
	c05Reg[tlb.Int1](true)
	c05Reg[tlb.Int2](true)
	c05Reg[tlb.Int7](true)
	c05Reg[tlb.Int8](true)
	c05Reg[tlb.Int9](true)
	c05Reg[tlb.Int15](true)
	c05Reg[tlb.Int16](true)
	c05Reg[tlb.Int32](true)
	c05Reg[tlb.Int64](true)
	c05Reg[tlb.Bits80](false)
	c05Reg[tlb.Bits96](false)
	c05Reg[tlb.Bits256](false)
	c05Reg[tlb.Bits512](false)
	c05Reg[tlb.AddressWithWorkchain](false) // 288 bits: int32 workchain (sign-extended int8) + 32 bytes
	execs["c05.encode"] = execC05Encode
	execs["c05.raw"] = execC05Raw
	execs["c05.hist"] = execC05Hist
	execs["c05.dec"] = execC05Dec
	execs["c05.count"] = execC05Count
	execs["c05.lsize"] = execC05Lsize
	execs["c05.aug"] = execC05Aug
	execs["c05.cfg"] = execC05Cfg
	execs["c05.decode"] = execC05Decode
	execs["c05.cells"] = execC05Cells
	execs["c05.ops"] = execC05Ops
	execs["c05.addr"] = execC05Addr
	gens["C05"] = genC05
}

// ---- canonical forms -------------------------------------------------------

func c05CellSx(c *boc.Cell) sx.V {
	if c.IsExotic() {
		return sx.L(sx.A("x"), sx.Nat(int(c.CellType())), sx.Bits(c05CellBits(c)))
	}
	var refs []sx.V
	for _, r := range c.Refs() {
		refs = append(refs, c05CellSx(r))
	}
	return sx.L(sx.Bits(c05CellBits(c)), sx.L(refs...))
}

func c05ItemsSx(items []c05KV) sx.V {
	out := make([]sx.V, 0, len(items))
	for _, kv := range items {
		out = append(out, sx.L(sx.Bits(kv.k), sx.N(uint64(kv.v))))
	}
	return sx.L(out...)
}

func c05KVsOf(v sx.V) []c05KV {
	var out []c05KV
	for _, x := range v.List {
		out = append(out, c05KV{x.List[0].Bits, uint32(x.List[1].U64())})
	}
	return out
}

// plain cell tree, independent of package boc
type c05Cell struct {
	bits string
	refs []*c05Cell
	exo  int // 0 ordinary, 1 pruned branch, 2 library cell
}

func (c *c05Cell) sx() sx.V {
	if c.exo > 0 {
		return sx.L(sx.A("x"), sx.Nat(c.exo), sx.Bits(c.bits))
	}
	var refs []sx.V
	for _, r := range c.refs {
		refs = append(refs, r.sx())
	}
	return sx.L(sx.Bits(c.bits), sx.L(refs...))
}

func c05CellOfSx(v sx.V) (*c05Cell, bool) {
	if v.K == sx.KL && len(v.List) == 3 && v.List[0].IsA("x") && v.List[1].K == sx.KN && v.List[2].K == sx.KBits {
		return &c05Cell{bits: v.List[2].Bits, exo: v.List[1].I()}, true
	}
	if v.K != sx.KL || len(v.List) != 2 || v.List[0].K != sx.KBits || v.List[1].K != sx.KL {
		return nil, false
	}
	c := &c05Cell{bits: v.List[0].Bits}
	for _, r := range v.List[1].List {
		rc, ok := c05CellOfSx(r)
		if !ok {
			return nil, false
		}
		c.refs = append(c.refs, rc)
	}
	return c, true
}

func (c *c05Cell) toBoc() (*boc.Cell, error) {
	out := boc.NewCell()
	if c.exo > 0 {
		out = boc.NewCellExotic(boc.CellType(c.exo))
	}
	for i := 0; i < len(c.bits); i++ {
		if err := out.WriteBit(c.bits[i] == '1'); err != nil {
			return nil, err
		}
	}
	for _, r := range c.refs {
		rc, err := r.toBoc()
		if err != nil {
			return nil, err
		}
		if err := out.AddRef(rc); err != nil {
			return nil, err
		}
	}
	return out, nil
}

// ---- execs -----------------------------------------------------------------

func execC05Encode(in sx.V) sx.V {
	im, ok := c05Impls[c05Name(in.List[0].I(), in.List[1].Bool)]
	if !ok {
		return sx.L(sx.A("harness-error"), sx.A("keytype"))
	}
	c, err := im.encode(in.List[2].Bool, c05KVsOf(in.List[3]))
	if err != nil {
		return sx.A("err")
	}
	return c05CellSx(c)
}

func execC05Raw(in sx.V) sx.V {
	im, ok := c05Impls[c05Name(in.List[0].I(), in.List[1].Bool)]
	if !ok {
		return sx.L(sx.A("harness-error"), sx.A("keytype"))
	}
	c, err := im.raw(in.List[2].Bool, c05KVsOf(in.List[3]))
	if err != nil {
		return sx.A("err")
	}
	return c05CellSx(c)
}

func execC05Hist(in sx.V) sx.V {
	im, ok := c05Impls[c05Name(in.List[0].I(), in.List[1].Bool)]
	if !ok {
		return sx.L(sx.A("harness-error"), sx.A("keytype"))
	}
	return im.hist(in.List[2].Bool, in.List[3].Atom, c05KVsOf(in.List[4]), in.List[5].List)
}

// a Decoder of the named configuration; libs maps the representation hash of a
// library cell to the cell it stands for
func c05Decoder(cfg string, libs map[tlb.Bits256]*boc.Cell) func(c *boc.Cell, o any) error {
	resolver := func(hash tlb.Bits256) (*boc.Cell, error) {
		t, ok := libs[hash]
		if !ok {
			return nil, fmt.Errorf("unknown library")
		}
		t.ResetCounters()
		return t, nil
	}
	switch cfg {
	case "plain":
		return tlb.Unmarshal
	case "new":
		return tlb.NewDecoder().Unmarshal
	case "lib":
		return tlb.NewDecoder().WithLibraryResolver(resolver).Unmarshal
	case "zlib": // no hasher
		return (&tlb.Decoder{}).WithLibraryResolver(resolver).Unmarshal
	default: // "debug"
		return tlb.NewDecoder().WithDebug().WithLibraryResolver(resolver).Unmarshal
	}
}

func c05LibsOfSx(v sx.V) (map[tlb.Bits256]*boc.Cell, bool) {
	libs := map[tlb.Bits256]*boc.Cell{}
	for _, x := range v.List {
		if x.K != sx.KL || len(x.List) != 2 || x.List[0].K != sx.KBits {
			return nil, false
		}
		lc, err := (&c05Cell{bits: x.List[0].Bits, exo: 2}).toBoc()
		if err != nil {
			return nil, false
		}
		h, err := lc.Hash256()
		if err != nil {
			return nil, false
		}
		tc, ok := c05CellOfSx(x.List[1])
		if !ok {
			return nil, false
		}
		t, err := tc.toBoc()
		if err != nil {
			return nil, false
		}
		libs[tlb.Bits256(h)] = t
	}
	return libs, true
}

// value of a decoded leaf, printed: Uint32 / Ref[Uint32] as a number, Ref[boc.Cell] as a cell
func c05DecValues[K c05Key, T any](e bool, dec func(c *boc.Cell, o any) error, c *boc.Cell, show func(T) sx.V) sx.V {
	var items []tlb.HashmapItem[K, T]
	if e {
		var h tlb.HashmapE[K, T]
		if err := dec(c, &h); err != nil {
			return sx.A("err")
		}
		items = h.Items()
	} else {
		var h tlb.Hashmap[K, T]
		if err := dec(c, &h); err != nil {
			return sx.A("err")
		}
		items = h.Items()
	}
	var out []sx.V
	for _, it := range items {
		kb, err := c05KeyBits(it.Key)
		if err != nil {
			return sx.A("err")
		}
		out = append(out, sx.L(sx.Bits(kb), show(it.Value)))
	}
	return sx.L(out...)
}

func c05DecRun[K c05Key](e bool, cfg, vt string, c *boc.Cell, libs map[tlb.Bits256]*boc.Cell) sx.V {
	dec := c05Decoder(cfg, libs)
	switch vt {
	case "u32":
		return c05DecValues[K, tlb.Uint32](e, dec, c, func(v tlb.Uint32) sx.V { return sx.N(uint64(v)) })
	case "ref":
		return c05DecValues[K, tlb.Ref[tlb.Uint32]](e, dec, c, func(v tlb.Ref[tlb.Uint32]) sx.V { return sx.N(uint64(v.Value)) })
	default:
		return c05DecValues[K, tlb.Ref[boc.Cell]](e, dec, c, func(v tlb.Ref[boc.Cell]) sx.V { return c05CellSx(&v.Value) })
	}
}

// the same value decoded OUTSIDE a dictionary: holder = the value part of a leaf
func c05DecOutside(cfg, vt string, holder *boc.Cell, libs map[tlb.Bits256]*boc.Cell) sx.V {
	dec := c05Decoder(cfg, libs)
	switch vt {
	case "u32":
		var v tlb.Uint32
		if err := dec(holder, &v); err != nil {
			return sx.A("err")
		}
		return sx.N(uint64(v))
	case "ref":
		var v tlb.Ref[tlb.Uint32]
		if err := dec(holder, &v); err != nil {
			return sx.A("err")
		}
		return sx.N(uint64(v.Value))
	default:
		var v tlb.Ref[boc.Cell]
		if err := dec(holder, &v); err != nil {
			return sx.A("err")
		}
		return c05CellSx(&v.Value)
	}
}

var c05DecImpls = map[int]func(e bool, cfg, vt string, c *boc.Cell, libs map[tlb.Bits256]*boc.Cell) sx.V{
	8:   c05DecRun[tlb.Uint8],
	16:  c05DecRun[tlb.Uint16],
	32:  c05DecRun[tlb.Uint32],
	64:  c05DecRun[tlb.Uint64],
	256: c05DecRun[tlb.Bits256],
}

func execC05Dec(in sx.V) sx.V {
	f, ok := c05DecImpls[in.List[0].I()]
	if !ok {
		return sx.L(sx.A("harness-error"), sx.A("keytype"))
	}
	pc, ok := c05CellOfSx(in.List[4])
	if !ok {
		return sx.L(sx.A("harness-error"), sx.A("cell"))
	}
	bc, err := pc.toBoc()
	if err != nil {
		return sx.L(sx.A("harness-error"), sx.A("cell-build"))
	}
	libs, ok := c05LibsOfSx(in.List[5])
	if !ok {
		return sx.L(sx.A("harness-error"), sx.A("libs"))
	}
	return f(in.List[1].Bool, in.List[2].Atom, in.List[3].Atom, bc, libs)
}

func execC05Decode(in sx.V) sx.V {
	// the signedness of the key type does not influence decoding; use the
	// unsigned / byte type of that width
	im, ok := c05Impls[c05Name(in.List[0].I(), false)]
	if !ok {
		return sx.L(sx.A("harness-error"), sx.A("keytype"))
	}
	pc, ok := c05CellOfSx(in.List[2])
	if !ok {
		return sx.L(sx.A("harness-error"), sx.A("cell"))
	}
	bc, err := pc.toBoc()
	if err != nil {
		return sx.L(sx.A("harness-error"), sx.A("cell-build"))
	}
	items, err := im.decode(in.List[1].Bool, bc)
	if err != nil {
		return sx.A("err")
	}
	return c05ItemsSx(items)
}

func execC05Ops(in sx.V) sx.V {
	im, ok := c05Impls[c05Name(in.List[0].I(), in.List[1].Bool)]
	if !ok {
		return sx.L(sx.A("harness-error"), sx.A("keytype"))
	}
	pc, ok := c05CellOfSx(in.List[2])
	if !ok {
		return sx.L(sx.A("harness-error"), sx.A("cell"))
	}
	bc, err := pc.toBoc()
	if err != nil {
		return sx.L(sx.A("harness-error"), sx.A("cell-build"))
	}
	return im.ops(bc, in.List[3].List)
}

// c05.addr: (((wc addr value)...)) -> (cell decode-result)
func execC05Addr(in sx.V) sx.V {
	var h tlb.HashmapE[tlb.AddressWithWorkchain, tlb.Uint32]
	for _, x := range in.List[0].List {
		var a tlb.AddressWithWorkchain
		a.Workchain = int8(x.List[0].Int.Int64())
		copy(a.Address[:], x.List[1].Bytes)
		h.Put(a, tlb.Uint32(x.List[2].U64()))
	}
	c := boc.NewCell()
	if err := tlb.Marshal(c, h); err != nil {
		return sx.A("err")
	}
	cs := c05CellSx(c)
	c.ResetCounters()
	var h2 tlb.HashmapE[tlb.AddressWithWorkchain, tlb.Uint32]
	if err := tlb.Unmarshal(c, &h2); err != nil {
		return sx.L(cs, sx.A("err"))
	}
	var items []sx.V
	for _, it := range h2.Items() {
		items = append(items, sx.L(sx.Z(int64(it.Key.Workchain)), sx.Bytes(it.Key.Address[:]), sx.N(uint64(it.Value))))
	}
	return sx.L(cs, sx.L(items...))
}

// ---- independent serialiser written from the TL-B schema ------------------------
//
//	hml_short$0 len:(Unary ~n) s:(n * Bit) ; hml_long$10 n:(#<= m) s:(n * Bit) ; hml_same$11 v:Bit n:(#<= m)
//	hm_edge label node ; hmn_leaf value ; hmn_fork left:^ right:^

type c05Tree struct {
	leaf  bool
	form  string // "s" "l" "a0" "a1"
	label string
	value uint32
	l, r  *c05Tree
	// raw leaf: the value part is given as bits and references (c05.dec)
	raw   bool
	vbits string
	vrefs []*c05Cell
	xbits string // augmented dictionaries: the extra of a fork
}

func (t *c05Tree) sx() sx.V {
	if t.leaf {
		return sx.L(sx.A("l"), sx.A(t.form), sx.Bits(t.label), sx.N(uint64(t.value)))
	}
	return sx.L(sx.A("f"), sx.A(t.form), sx.Bits(t.label), t.l.sx(), t.r.sx())
}

func c05TreeOfSx(v sx.V) (*c05Tree, bool) {
	if v.K != sx.KL || len(v.List) < 4 || v.List[1].K != sx.KA || v.List[2].K != sx.KBits {
		return nil, false
	}
	t := &c05Tree{form: v.List[1].Atom, label: v.List[2].Bits}
	switch {
	case v.Head() == "l" && len(v.List) == 4:
		t.leaf = true
		t.value = uint32(v.List[3].U64())
		return t, true
	case v.Head() == "f" && len(v.List) == 5:
		var ok1, ok2 bool
		t.l, ok1 = c05TreeOfSx(v.List[3])
		t.r, ok2 = c05TreeOfSx(v.List[4])
		return t, ok1 && ok2
	}
	return nil, false
}

func c05BitLen(m int) int { // number of bits of #<= m
	n := 0
	for m > 0 {
		n++
		m >>= 1
	}
	return n
}

func c05Bin(v, w int) string {
	var sb strings.Builder
	for i := w - 1; i >= 0; i-- {
		if i < 62 && (v>>uint(i))&1 == 1 {
			sb.WriteByte('1')
		} else {
			sb.WriteByte('0')
		}
	}
	return sb.String()
}

func c05Label(form string, m int, label string) string {
	switch form {
	case "s":
		return "0" + strings.Repeat("1", len(label)) + "0" + label
	case "l":
		return "10" + c05Bin(len(label), c05BitLen(m)) + label
	case "a0":
		return "110" + c05Bin(len(label), c05BitLen(m))
	default:
		return "111" + c05Bin(len(label), c05BitLen(m))
	}
}

func (t *c05Tree) cells(m int) (*c05Cell, bool) {
	if t.leaf && t.raw {
		b := c05Label(t.form, m, t.label) + t.vbits
		return &c05Cell{bits: b, refs: t.vrefs}, len(b) <= 1023
	}
	if t.leaf {
		b := c05Label(t.form, m, t.label) + c05Bin(int(t.value>>16), 16) + c05Bin(int(t.value&0xffff), 16)
		return &c05Cell{bits: b}, len(b) <= 1023
	}
	m2 := m - len(t.label) - 1
	if m2 < 0 {
		m2 = 0
	}
	l, ok1 := t.l.cells(m2)
	r, ok2 := t.r.cells(m2)
	b := c05Label(t.form, m, t.label) + t.xbits
	return &c05Cell{bits: b, refs: []*c05Cell{l, r}}, ok1 && ok2 && len(b) <= 1023
}

func execC05Cells(in sx.V) sx.V {
	t, ok := c05TreeOfSx(in.List[1])
	if !ok {
		return sx.L(sx.A("harness-error"), sx.A("tree"))
	}
	c, fits := t.cells(in.List[0].I())
	if !fits {
		return sx.A("err")
	}
	return c.sx()
}

// Patricia tree of a bit-sorted list of distinct keys
func c05Build(kvs []c05KV) *c05Tree {
	if len(kvs) == 1 {
		return &c05Tree{leaf: true, label: kvs[0].k, value: kvs[0].v}
	}
	a, b := kvs[0].k, kvs[len(kvs)-1].k
	p := 0
	for p < len(a) && a[p] == b[p] {
		p++
	}
	i := sort.Search(len(kvs), func(i int) bool { return kvs[i].k[p] == '1' })
	strip := func(x []c05KV) []c05KV {
		out := make([]c05KV, len(x))
		for j := range x {
			out[j] = c05KV{x[j].k[p+1:], x[j].v}
		}
		return out
	}
	return &c05Tree{label: a[:p], l: c05Build(strip(kvs[:i])), r: c05Build(strip(kvs[i:]))}
}

func c05Constant(s string) (byte, bool) {
	for i := 1; i < len(s); i++ {
		if s[i] != s[0] {
			return 0, false
		}
	}
	if len(s) == 0 {
		return '0', true
	}
	return s[0], true
}

// choose a valid form for every edge; mode: go | short | long | same | random
func (t *c05Tree) chooseForms(r *prng.R, mode string) {
	extra := 0
	if t.leaf {
		extra = 32
	}
	shortFits := 2+2*len(t.label)+extra <= 1023
	bit, constant := c05Constant(t.label)
	same := "a0"
	if bit == '1' {
		same = "a1"
	}
	if len(t.label) == 0 && r.Bool() {
		same = "a1" // the bit of an empty same-label is arbitrary
	}
	pick := mode
	if mode == "random" {
		pick = []string{"go", "short", "long", "same"}[r.Intn(4)]
	}
	switch pick {
	case "short":
		t.form = "s"
	case "long":
		t.form = "l"
	case "same":
		t.form = "l"
		if len(t.label) <= 1 && shortFits && r.Bool() {
			t.form = "s"
		}
		if constant {
			t.form = same
		}
	default:
		t.form = "l"
		if len(t.label) < 8 {
			t.form = "s"
		}
	}
	if t.form == "s" && !shortFits {
		t.form = "l"
	}
	if !t.leaf {
		t.l.chooseForms(r, mode)
		t.r.chooseForms(r, mode)
	}
}

// leaves of a tree in key order
func (t *c05Tree) leaves(out *[]*c05Tree) {
	if t.leaf {
		*out = append(*out, t)
		return
	}
	t.l.leaves(out)
	t.r.leaves(out)
}

// ---- round 4: leaf counting, augmented dictionaries, ConfigParams histories -----

var c05CountEImpls = map[int]func(c *boc.Cell) (int, error){
	1: tlb.VerifCountLeafsE[tlb.Uint1], 2: tlb.VerifCountLeafsE[tlb.Uint2], 7: tlb.VerifCountLeafsE[tlb.Uint7],
	8: tlb.VerifCountLeafsE[tlb.Uint8], 9: tlb.VerifCountLeafsE[tlb.Uint9], 15: tlb.VerifCountLeafsE[tlb.Uint15],
	16: tlb.VerifCountLeafsE[tlb.Uint16], 32: tlb.VerifCountLeafsE[tlb.Uint32], 64: tlb.VerifCountLeafsE[tlb.Uint64],
	80: tlb.VerifCountLeafsE[tlb.Bits80], 96: tlb.VerifCountLeafsE[tlb.Bits96], 256: tlb.VerifCountLeafsE[tlb.Bits256],
	288: tlb.VerifCountLeafsE[tlb.AddressWithWorkchain], 512: tlb.VerifCountLeafsE[tlb.Bits512],
}

func c05BocOfSx(v sx.V) (*boc.Cell, bool) {
	pc, ok := c05CellOfSx(v)
	if !ok {
		return nil, false
	}
	bc, err := pc.toBoc()
	return bc, err == nil
}

// c05.count: (n hashmapE cell) -> n<count> | 'err
func execC05Count(in sx.V) sx.V {
	n, e := in.List[0].I(), in.List[1].Bool
	bc, ok := c05BocOfSx(in.List[2])
	if !ok {
		return sx.L(sx.A("harness-error"), sx.A("cell"))
	}
	if !e {
		k, err := tlb.VerifCountLeafs(n, bc)
		if err != nil {
			return sx.A("err")
		}
		return sx.N(uint64(k))
	}
	f, ok := c05CountEImpls[n]
	if !ok {
		return sx.L(sx.A("harness-error"), sx.A("keytype"))
	}
	k, err := f(bc)
	if n == 256 {
		// the public entry points: both must say what the helper says
		extra := tlb.BlockExtra{InMsgDescrCell: *bc, OutMsgDescrCell: *bc}
		a, errA := extra.InMsgDescrLength()
		b, errB := extra.OutMsgDescrLength()
		a2, errA2 := extra.InMsgDescrLength() // asking twice must not matter
		if (errA != nil) != (err != nil) || (errB != nil) != (err != nil) || (errA2 != nil) != (err != nil) ||
			(err == nil && (a != k || b != k || a2 != k)) {
			return sx.A("inconsistent")
		}
	}
	if err != nil {
		return sx.A("err")
	}
	return sx.N(uint64(k))
}

// c05.lsize: (m bits) -> (length unread) | 'err
func execC05Lsize(in sx.V) sx.V {
	bc, err := (&c05Cell{bits: in.List[1].Bits}).toBoc()
	if err != nil {
		return sx.L(sx.A("harness-error"), sx.A("cell"))
	}
	ln, err := tlb.VerifLoadLabelSize(in.List[0].I(), bc)
	if err != nil {
		return sx.A("err")
	}
	return sx.L(sx.N(uint64(ln)), sx.N(uint64(bc.BitsAvailableForRead())))
}

func c05AugRun[K c05Key](c *boc.Cell) sx.V {
	var h tlb.HashmapAugE[K, tlb.Uint32, tlb.Uint32]
	if err := tlb.Unmarshal(c, &h); err != nil {
		return sx.A("err")
	}
	ks, vs := h.Keys(), h.Values()
	if len(ks) != len(vs) {
		return sx.A("inconsistent")
	}
	var out []sx.V
	for i := range ks {
		kb, err := c05KeyBits(ks[i])
		if err != nil {
			return sx.A("err")
		}
		out = append(out, sx.L(sx.Bits(kb), sx.N(uint64(vs[i]))))
	}
	return sx.L(out...)
}

var c05AugImpls = map[int]func(c *boc.Cell) sx.V{
	8: c05AugRun[tlb.Uint8], 16: c05AugRun[tlb.Uint16], 32: c05AugRun[tlb.Uint32], 64: c05AugRun[tlb.Uint64],
	96: c05AugRun[tlb.Bits96], 256: c05AugRun[tlb.Bits256],
}

// c05.aug: (n cell) -> ((key value)...) | 'err
func execC05Aug(in sx.V) sx.V {
	f, ok := c05AugImpls[in.List[0].I()]
	if !ok {
		return sx.L(sx.A("harness-error"), sx.A("keytype"))
	}
	bc, ok := c05BocOfSx(in.List[1])
	if !ok {
		return sx.L(sx.A("harness-error"), sx.A("cell"))
	}
	return f(bc)
}

func c05U32OfBits(s string) uint32 {
	var v uint32
	for i := 0; i < len(s); i++ {
		v = v<<1 | uint32(s[i]-'0')
	}
	return v
}

func c05ValueCell(v uint32) *boc.Cell {
	c := boc.NewCell()
	_ = c.WriteUint(uint64(v), 32)
	return c
}

// c05.cfg: (build (step...)) histories on tlb.ConfigParams objects, see H05.v
func execC05Cfg(in sx.V) sx.V {
	var objs []*tlb.ConfigParams
	b := in.List[0]
	switch b.Head() {
	case "new":
		var keys []tlb.Uint32
		var values []tlb.Ref[boc.Cell]
		for _, kv := range c05KVsOf(b.List[1]) {
			keys = append(keys, tlb.Uint32(c05U32OfBits(kv.k)))
			values = append(values, tlb.Ref[boc.Cell]{Value: *c05ValueCell(kv.v)})
		}
		objs = append(objs, &tlb.ConfigParams{Config: tlb.NewHashmap(keys, values)})
	default:
		bc, ok := c05BocOfSx(b.List[1])
		if !ok {
			return sx.L(sx.A("harness-error"), sx.A("cell"))
		}
		var p tlb.ConfigParams
		if err := tlb.Unmarshal(bc, &p); err != nil {
			return sx.A("err")
		}
		objs = append(objs, &p)
	}
	items := func(p *tlb.ConfigParams) sx.V {
		its, ks, vs := p.Config.Items(), p.Config.Keys(), p.Config.Values()
		if len(ks) != len(its) || len(vs) != len(its) {
			return sx.A("inconsistent")
		}
		var out []sx.V
		for i, it := range its {
			if ks[i] != it.Key {
				return sx.A("inconsistent")
			}
			vc := it.Value.Value
			vc.ResetCounters()
			v, err := vc.ReadUint(32)
			if err != nil {
				return sx.A("badvalue")
			}
			out = append(out, sx.L(sx.Bits(c05Bin(int(it.Key>>16), 16)+c05Bin(int(it.Key&0xffff), 16)), sx.N(v)))
		}
		return sx.L(out...)
	}
	var out []sx.V
	for _, st := range in.List[1].List {
		if len(st.List) < 2 || st.List[1].I() >= len(objs) {
			out = append(out, sx.L(sx.A("harness-error"), sx.A("object")))
			continue
		}
		p := objs[st.List[1].I()]
		switch {
		case st.Head() == "items" && len(st.List) == 2:
			out = append(out, items(p))
		case st.Head() == "marshal" && len(st.List) == 2:
			c := boc.NewCell()
			if err := tlb.Marshal(c, *p); err != nil {
				out = append(out, sx.A("err"))
			} else {
				out = append(out, c05CellSx(c))
			}
		case st.Head() == "get" && len(st.List) == 3:
			if v, ok := p.Config.Get(tlb.Uint32(c05U32OfBits(st.List[2].Bits))); ok {
				vc := v.Value
				vc.ResetCounters()
				x, err := vc.ReadUint(32)
				if err != nil {
					out = append(out, sx.A("badvalue"))
				} else {
					out = append(out, sx.L(sx.N(x)))
				}
			} else {
				out = append(out, sx.A("none"))
			}
		case st.Head() == "put" && len(st.List) == 4:
			p.Config.Put(tlb.Uint32(c05U32OfBits(st.List[2].Bits)), tlb.Ref[boc.Cell]{Value: *c05ValueCell(uint32(st.List[3].U64()))})
			out = append(out, sx.A("ok"))
		case st.Head() == "clone" && len(st.List) == 3:
			var keys []uint32
			for _, k := range st.List[2].List {
				keys = append(keys, c05U32OfBits(k.Bits))
			}
			before := append([]uint32{}, keys...)
			cl := p.CloneKeepingSubsetOfKeys(keys)
			same := len(before) == len(keys)
			for i := range before {
				same = same && before[i] == keys[i]
			}
			if !same {
				out = append(out, sx.A("keys-argument-changed"))
			} else {
				out = append(out, sx.A("ok"))
			}
			objs = append(objs, &cl)
		case st.Head() == "decode" && len(st.List) == 3:
			bc, ok := c05BocOfSx(st.List[2])
			if !ok {
				return sx.L(sx.A("harness-error"), sx.A("cell"))
			}
			if err := tlb.Unmarshal(bc, p); err != nil {
				out = append(out, sx.A("err"))
			} else {
				out = append(out, sx.A("ok"))
			}
		default:
			out = append(out, sx.L(sx.A("harness-error"), sx.A("step")))
		}
	}
	return sx.L(out...)
}

// ---- round 6: lookups through the other helpers of the anchor files ------------------

// c05.find: (cell key) -> ('found value) | 'err : tlb.ProveKeyInHashmap as a lookup
func execC05Find(in sx.V) sx.V {
	root, ok := c05BocOfSx(in.List[0])
	if !ok {
		return sx.L(sx.A("harness-error"), sx.A("cell"))
	}
	prover, err := boc.NewMerkleProver(root)
	if err != nil {
		return sx.A("err")
	}
	v, proof, err := tlb.ProveKeyInHashmap[tlb.Uint32](prover, root, c05BitString(in.List[1].Bits))
	if err != nil {
		return sx.A("err")
	}
	if len(proof) == 0 {
		return sx.A("no-proof")
	}
	return sx.L(sx.A("found"), sx.N(uint64(v)))
}

// c05.bal: (split left right) -> ((key grams)...) in key order : ShardState.AccountBalances
func execC05Bal(in sx.V) sx.V {
	accounts := func(v sx.V) tlb.HashmapAugE[tlb.Bits256, tlb.ShardAccount, tlb.DepthBalanceInfo] {
		var keys []tlb.Bits256
		var values []tlb.ShardAccount
		for _, x := range v.List {
			k, _ := c05KeyFromBits[tlb.Bits256](x.List[0].Bits)
			var a tlb.ShardAccount
			switch {
			case x.List[1].K == sx.KN:
				a.Account.SumType = "Account"
				a.Account.Account.Storage.Balance.Grams = tlb.Grams(x.List[1].U64())
			case x.List[1].IsA("accnone"):
				a.Account.SumType = "AccountNone"
			}
			keys = append(keys, k)
			values = append(values, a)
		}
		return tlb.VerifNewHashmapAugE[tlb.Bits256, tlb.ShardAccount, tlb.DepthBalanceInfo](keys, values)
	}
	var s tlb.ShardState
	if in.List[0].Bool {
		s.SumType = "SplitState"
		s.SplitState.Left.ShardStateUnsplit.Accounts = accounts(in.List[1])
		s.SplitState.Right.ShardStateUnsplit.Accounts = accounts(in.List[2])
	} else {
		s.SumType = "UnsplitState"
		s.UnsplitState.Value.ShardStateUnsplit.Accounts = accounts(in.List[1])
	}
	got := s.AccountBalances()
	again := s.AccountBalances() // a second call answers the same
	var items []c05KV64
	for k, c := range got {
		kb, _ := c05KeyBits(k)
		if c2, ok := again[k]; !ok || c2.Grams != c.Grams || len(again) != len(got) {
			return sx.A("unstable")
		}
		items = append(items, c05KV64{kb, uint64(c.Grams)})
	}
	sort.Slice(items, func(i, j int) bool { return items[i].k < items[j].k })
	var out []sx.V
	for _, it := range items {
		out = append(out, sx.L(sx.Bits(it.k), sx.N(it.v)))
	}
	return sx.L(out...)
}

type c05KV64 struct {
	k string
	v uint64
}

func init() {
	execs["c05.find"] = execC05Find
	execs["c05.bal"] = execC05Bal
}
