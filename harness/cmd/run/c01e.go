package main

import (
	"bytes"
	"encoding/base64"
	"encoding/hex"
	"encoding/json"
	"fmt"

	"github.com/tonkeeper/tongo/boc"

	"verifharness/prng"
	"verifharness/sx"
)

// C01, round 4.
//
// 1. Dense family: DAGs whose AVERAGE serialised size per cell is as large as
//    the format allows (1016..1023 data bits, up to 4 references, with and
//    without index): "snakes" (full cell + one reference, the usual way to
//    store long byte strings), ladders and fans of full cells, shared full
//    children.  Theorem C01_serialize_succeeds says every such DAG serialises;
//    the output buffer has to be sized for data + descriptors + references +
//    index per cell.  Oracle ser-rejected: a DAG of depth <= 1024 with valid
//    cells is never refused.
//
// 2. Views family: one DAG that holds several differently pruned copies of
//    one tree (Merkle proofs against the same root revealing different
//    branches, a proof next to the original): cells with equal lower-level
//    hashes and different representation hashes.  De-duplication must key on
//    what identifies the cell.
//
// 3. Entry points: every exported serialising / parsing entry point of boc
//    (ToBoc, ToBocCustom, ToBocString(Custom), ToBocBase64(Custom),
//    MarshalJSON, SerializeBoc, ToBocCustomWithHasher; DeserializeBoc,
//    DeserializeBocHex/Base64, DeserializeSingleRootBoc, DeserializeSinglRootHex/
//    Base64, MustDeserializeSinglRootHex/Base64, UnmarshalJSON) agrees with
//    ToBocCustom / DeserializeBoc on the same input.

func c01Full(r *prng.R, n int) string { return randBits(r, n) }

type c01Named struct {
	name string
	dag  []Node
}

func c01DenseCases(c *Ctx, r *prng.R) []c01Named {
	var out []c01Named
	add := func(name string, dag []Node) { out = append(out, c01Named{name, dag}) }
	// snakes: k cells of 127 bytes (or 1023 bits) with one reference each
	for _, k := range []int{1, 2, 4, 7, 8, 9, 10, 12, 16, 24, 40} {
		if !c.Thorough() && k != 1 && k != 8 && k != 9 && k != 10 && k != 24 {
			continue
		}
		for _, bitsN := range []int{1016, 1023} {
			if !c.Thorough() && bitsN == 1023 && k != 9 {
				continue
			}
			dag := make([]Node, k)
			for i := range dag {
				dag[i].Bits = c01Full(r, bitsN)
				if i+1 < k {
					dag[i].Refs = []int{i + 1}
				}
			}
			add(fmt.Sprintf("snake%d", bitsN), dag)
		}
	}
	// ladders of full cells: m references to the next cell / to one shared child
	for _, k := range []int{2, 3, 4, 5, 8, 16, 30} {
		if !c.Thorough() && k != 3 && k != 4 && k != 5 && k != 16 {
			continue
		}
		m := 1 + r.Intn(4)
		if k <= 5 {
			m = 4
		}
		dag := make([]Node, k)
		for i := range dag {
			dag[i].Bits = c01Full(r, 1023-r.Intn(2)*r.Intn(15))
			if i+1 < k {
				for j := 0; j < m; j++ {
					dag[i].Refs = append(dag[i].Refs, i+1)
				}
			}
		}
		add("ladder", dag)
	}
	// 4-ary heaps of full cells (nothing shared): 5, 21, 85 cells
	for _, n := range []int{5, 21, 85} {
		if !c.Thorough() && n == 85 {
			continue
		}
		dag := make([]Node, n)
		for i := range dag {
			dag[i].Bits = c01Full(r, 1023)
			for k := 1; k <= 4; k++ {
				if ch := 4*i + k; ch < n {
					dag[i].Refs = append(dag[i].Refs, ch)
				}
			}
		}
		add("heap", dag)
	}
	// random DAGs whose cells are all nearly full
	for i, n := 0, c.Scale(4, 60); i < n; i++ {
		dag := randDag(r, 2+r.Intn(c.Scale(24, 60)))
		for j := range dag {
			dag[j].Bits = c01Full(r, 1023-r.Intn(16))
		}
		add("random-full", dag)
	}
	return out
}

// c01DenseClosures returns one closure per dense DAG (run between the random
// DAGs: the extracted model needs ~10 ms per full cell).
func c01DenseClosures(c *Ctx, r *prng.R) []func() {
	var fs []func()
	rot := 0
	for _, dc := range c01DenseCases(c, r) {
		dc := dc
		opts := []int{rot % 8, (rot%8+1+2*r.Intn(2))%8 | 1}
		if c.Thorough() {
			opts = []int{0, 1, 2, 3, 4, 5, 6, 7}
		} else if opts[0] == opts[1] {
			opts = opts[:1]
		}
		rot++
		fs = append(fs, func() {
			for n, o := range opts {
				in, out, fast := c01EmitSer(c, dc.dag, o, fmt.Sprintf("dense|%s|n%d|idx%d", dc.name, bucket(len(dc.dag)), o&1))
				c01MustSerialise(c, in, dc.dag, out)
				if fast && n == 0 {
					c01Oracles(c, in, dc.dag, out)
				}
			}
		})
	}
	return fs
}

// maximal number of edges on a path from cell 0
func c01Depth(dag []Node) int {
	d := make([]int, len(dag))
	for i := len(dag) - 1; i >= 0; i-- {
		for _, t := range dag[i].Refs {
			if d[t]+1 > d[i] {
				d[i] = d[t] + 1
			}
		}
	}
	if len(dag) == 0 {
		return 0
	}
	return d[0]
}

// c01MustSerialise: theorem C01_serialize_succeeds on the implementation — a
// DAG of ordinary cells (<= 1023 bits, <= 4 references) of depth <= 1024 is
// serialised, never refused.
func c01MustSerialise(c *Ctx, in sx.V, dag []Node, out sx.V) {
	if !c01IsAtom(out, "err", "panic") {
		return
	}
	for _, n := range dag {
		if n.Special || n.Mask != 0 {
			return // hashing an exotic cell may fail legitimately
		}
	}
	if c01Depth(dag) > 1024 {
		return
	}
	c.Fail("c01.ser", in, "ser-rejected", fmt.Sprintf("a valid DAG of %d ordinary cells (depth %d) is not serialised: %s", len(dag), c01Depth(dag), out.String()))
}

// ---- views ----

// c01View returns the view of tree (a DAG of ordinary cells in BOC order,
// root 0) in which the cells of prune are replaced by pruned-branch cells
// (01 | mask 1 | level-0 hash | depth) and every ancestor of one carries level
// mask 1; cells not reachable any more are dropped.  hs / ds: level-0 hash and
// depth of every cell of tree.
func c01View(tree []Node, hs [][]byte, ds []int, prune map[int]bool) []Node {
	keep := make([]bool, len(tree))
	var walk func(i int)
	walk = func(i int) {
		if keep[i] {
			return
		}
		keep[i] = true
		if prune[i] {
			return
		}
		for _, t := range tree[i].Refs {
			walk(t)
		}
	}
	walk(0)
	idx := make([]int, len(tree))
	var out []Node
	for i := range tree {
		if keep[i] {
			idx[i] = len(out)
			out = append(out, Node{})
		}
	}
	for i := len(tree) - 1; i >= 0; i-- {
		if !keep[i] {
			continue
		}
		if prune[i] {
			data := append([]byte{1, 1}, hs[i]...)
			data = append(data, byte(ds[i]>>8), byte(ds[i]))
			out[idx[i]] = Node{Special: true, Mask: 1, Bits: byteBits(data...)}
			continue
		}
		n := Node{Bits: tree[i].Bits}
		for _, t := range tree[i].Refs {
			n.Refs = append(n.Refs, idx[t])
			n.Mask |= out[idx[t]].Mask
		}
		out[idx[i]] = n
	}
	return out
}

// c01Bundle: a container cell referencing the given parts; a part is either a
// view wrapped in a Merkle-proof cell (03 | root hash | root depth) or a plain
// DAG.
func c01Bundle(r *prng.R, parts [][]Node, proof []bool, rootHash []byte, rootDepth int) []Node {
	dag := []Node{{Bits: randBits(r, r.Intn(33))}}
	for k, p := range parts {
		dag[0].Refs = append(dag[0].Refs, len(dag))
		if proof[k] {
			data := append([]byte{3}, rootHash...)
			data = append(data, byte(rootDepth>>8), byte(rootDepth))
			dag = append(dag, Node{Special: true, Mask: p[0].Mask >> 1, Bits: byteBits(data...), Refs: []int{len(dag) + 1}})
		} else {
			dag[0].Mask |= p[0].Mask
		}
		at := len(dag)
		for _, n := range p {
			m := n
			m.Refs = nil
			for _, t := range n.Refs {
				m.Refs = append(m.Refs, at+t)
			}
			dag = append(dag, m)
		}
	}
	return dag
}

func c01ViewCases(c *Ctx, r *prng.R) []c01Named {
	var out []c01Named
	n := c.Scale(14, 300)
	for i := 0; i < n; i++ {
		// a tree-like DAG of small ordinary cells
		size := 3 + r.Intn(c.Scale(10, 30))
		tree := c01SharedSubDag(r, size)
		cells, err := buildGo(tree)
		if err != nil {
			continue
		}
		hs := make([][]byte, len(tree))
		ds := make([]int, len(tree))
		ok := true
		for j, cl := range cells {
			h, d, err := boc.VerifLevelHash(cl, 0)
			if err != nil {
				ok = false
				break
			}
			hs[j], ds[j] = h, d
		}
		if !ok {
			continue
		}
		pick := func() map[int]bool {
			p := map[int]bool{}
			for k, m := 0, 1+r.Intn(3); k < m; k++ {
				p[1+r.Intn(len(tree)-1)] = true
			}
			return p
		}
		nparts := 2 + r.Intn(3)
		var parts [][]Node
		var proof []bool
		name := "proofs"
		for k := 0; k < nparts; k++ {
			switch {
			case i%3 == 1 && k == r.Intn(nparts):
				// the full structure next to its proofs
				parts = append(parts, tree)
				proof = append(proof, false)
				name = "proof+original"
			case i%3 == 2 && k == 0:
				// a bare view (no Merkle-proof wrapper) next to proofs
				parts = append(parts, c01View(tree, hs, ds, pick()))
				proof = append(proof, false)
				name = "proof+bare-view"
			default:
				parts = append(parts, c01View(tree, hs, ds, pick()))
				proof = append(proof, true)
			}
		}
		out = append(out, c01Named{name, c01Bundle(r, parts, proof, hs[0], ds[0])})
	}
	return out
}

func genC01Views(c *Ctx, r *prng.R, between func(cells int)) {
	for i, vc := range c01ViewCases(c, r) {
		between(len(vc.dag))
		opts := []int{i % 8}
		if c.Thorough() {
			opts = []int{0, 7, i % 8}
		}
		for n, o := range opts {
			in, out, fast := c01EmitSer(c, vc.dag, o, fmt.Sprintf("views|%s|n%d", vc.name, bucket(len(vc.dag))))
			if c01IsAtom(out, "err", "panic") {
				c.Fail("c01.ser", in, "ser-rejected", "a bundle of Merkle proofs of one tree is not serialised: "+out.String())
			}
			if fast && n == 0 {
				c01Oracles(c, in, vc.dag, out)
			}
		}
	}
}

// ---- entry points ----

// c01EntryPoints: every exported serialising entry point gives the bytes of
// ToBocCustom with the same options (ToBoc, ToBocString, ToBocBase64,
// MarshalJSON: no options), every exported parsing entry point gives cells
// with the hash DeserializeBoc gives.
func c01EntryPoints(c *Ctx, in sx.V, root *boc.Cell, own []byte, idx, crc, cache bool) {
	defer func() {
		if r := recover(); r != nil {
			c.Fail("c01.ser", in, "entry-points", fmt.Sprintf("panic in an entry point: %v", r))
		}
	}()
	bad := func(what string) { c.Fail("c01.ser", in, "entry-points", what) }
	plain, err := root.ToBocCustom(false, false, false, 0)
	if err != nil {
		return
	}
	if b, err := root.ToBoc(); err != nil || !bytes.Equal(b, plain) {
		bad("ToBoc differs from ToBocCustom(false, false, false)")
	}
	if s, err := root.ToBocString(); err != nil || s != hex.EncodeToString(plain) {
		bad("ToBocString is not the hex form of ToBoc")
	}
	if s, err := root.ToBocBase64(); err != nil || s != base64.StdEncoding.EncodeToString(plain) {
		bad("ToBocBase64 is not the base64 form of ToBoc")
	}
	if j, err := json.Marshal(root); err != nil || string(j) != `"`+hex.EncodeToString(plain)+`"` {
		bad("MarshalJSON is not the quoted hex form of ToBoc")
	}
	if s, err := root.ToBocStringCustom(idx, crc, cache, 0); err != nil || s != hex.EncodeToString(own) {
		bad("ToBocStringCustom is not the hex form of ToBocCustom with the same options")
	}
	if s, err := root.ToBocBase64Custom(idx, crc, cache, 0); err != nil || s != base64.StdEncoding.EncodeToString(own) {
		bad("ToBocBase64Custom is not the base64 form of ToBocCustom with the same options")
	}
	if b, err := boc.SerializeBoc(root, idx, crc, cache, 0); err != nil || !bytes.Equal(b, own) {
		bad("SerializeBoc differs from ToBocCustom with the same options")
	}
	if b, err := root.ToBocCustomWithHasher(boc.NewHasher(), idx, crc, cache, 0); err != nil || !bytes.Equal(b, own) {
		bad("ToBocCustomWithHasher(NewHasher()) differs from ToBocCustom with the same options")
	}
	// reference for the parsing entry points: what DeserializeBoc gives
	ref, err := boc.DeserializeBoc(own)
	if err != nil || len(ref) != 1 {
		return // reported by the round-trip oracle
	}
	h0, err := ref[0].Hash()
	if err != nil {
		return
	}
	same := func(what string, cl *boc.Cell, err error) {
		if err != nil || cl == nil {
			bad(what + " rejects the library's own output")
			return
		}
		if h, err := cl.Hash(); err != nil || !bytes.Equal(h, h0) {
			bad(what + " gives a root with another hash")
		}
	}
	first := func(cs []*boc.Cell, err error) (*boc.Cell, error) {
		if err != nil || len(cs) != 1 {
			return nil, fmt.Errorf("rejected")
		}
		return cs[0], nil
	}
	// caller-owned buffers: parsing does not modify its input, and the parsed
	// cells do not change when the caller reuses the buffer afterwards; the
	// bytes returned by a serialisation are not changed by a later one
	buf := append([]byte{}, own...)
	if cs, err := boc.DeserializeBoc(buf); err == nil && len(cs) == 1 {
		if !bytes.Equal(buf, own) {
			bad("DeserializeBoc modified the caller's buffer")
		}
		for i := range buf {
			buf[i] = 0xff
		}
		if h, err := cs[0].Hash(); err != nil || !bytes.Equal(h, h0) {
			bad("the parsed cells changed when the caller overwrote the buffer it had passed to DeserializeBoc")
		}
	}
	if b1, err := root.ToBocCustom(idx, crc, cache, 0); err == nil {
		hr, _ := root.Hash()
		keep := append([]byte{}, b1...)
		if b2, err := root.ToBocCustom(!idx, crc, !cache, 0); err == nil {
			for i := range b2 {
				b2[i] = 0
			}
		}
		if !bytes.Equal(b1, keep) {
			bad("bytes returned by ToBocCustom changed after a later serialisation of the same cell")
		}
		if h, err := root.Hash(); err != nil || !bytes.Equal(h, hr) {
			bad("the cell changed when the caller overwrote the bytes ToBocCustom had returned")
		}
	}
	hx, b64 := hex.EncodeToString(own), base64.StdEncoding.EncodeToString(own)
	cl, err := first(boc.DeserializeBocHex(hx))
	same("DeserializeBocHex", cl, err)
	cl, err = first(boc.DeserializeBocBase64(b64))
	same("DeserializeBocBase64", cl, err)
	cl, err = boc.DeserializeSingleRootBoc(own)
	same("DeserializeSingleRootBoc", cl, err)
	cl, err = boc.DeserializeSinglRootHex(hx)
	same("DeserializeSinglRootHex", cl, err)
	cl, err = boc.DeserializeSinglRootBase64(b64)
	same("DeserializeSinglRootBase64", cl, err)
	same("MustDeserializeSinglRootHex", boc.MustDeserializeSinglRootHex(hx), nil)
	same("MustDeserializeSinglRootBase64", boc.MustDeserializeSinglRootBase64(b64), nil)
	var uj boc.Cell
	err = json.Unmarshal([]byte(`"`+hx+`"`), &uj)
	same("UnmarshalJSON", &uj, err)
}
