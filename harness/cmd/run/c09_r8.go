package main

// C09, round 8: schema shapes the corpus did not contain.
//
//  1. TL-B dictionaries.  The body of a dictionary is an opaque cell for the
//     descriptor / model of this property, so whether `(HashmapE n ^X)` keeps its
//     values in references was decided by nobody, and the non-empty `(Hashmap n X)`
//     was outside the corpus.  Now: fixed programs `tlbdicts` (HashmapE, inside the
//     full pipeline) and `tlbhm` (Hashmap) cross both dictionaries with key widths
//     (UintN and BitsN keys) and with every value form (builtin, declared, ^declared,
//     ^builtin, ^Cell, VarUInteger, ^VarUInteger, Either, Either T ^T, ^[ ... ], a
//     dictionary, ^dictionary, random plain types with and without ^), and put
//     dictionaries under Maybe, Maybe ^, ^, Either on both sides, Either X ^X.  For
//     EVERY compiled TL-B program of the subset stream the driver lists the
//     dictionary-typed positions of each generated Go type (tlx.TlbDicts, by
//     reflection) and the harness lists those of the declaration (from the schema):
//     same dictionary kind, same key type, and Coq decides by vm_compute
//     tlb_check (meaning of the value type) (descriptor of the Go value type)
//     in <work>/C09TlbDict.v — by C09_tlb_check_sound every leaf payload is then
//     the declared serialisation of its value.
//  2. TL identifiers.  Programs `tlnames*` are subset schemas whose names are drawn
//     from the whole class the lexer accepts ([a-zA-Z][a-zA-Z0-9_]* joined by dots):
//     trailing underscore, double underscore, digit after underscore, upper case
//     inside, namespaces made of such parts — in constructor, type, field,
//     conditional-field and function position (the flags field itself must be
//     called `mode`: tl/parser knows no other).  They go through the whole pipeline
//     (generator error on them = violation, build, tl_check, values, requests).

import (
	"fmt"
	"os"
	"path/filepath"
	"strings"

	"verifharness/prng"
	"verifharness/sx"
)

// ---------------------------------------------------------------- TL names

var c09R8Words = []string{"a_", "b__d", "s_1_", "type_", "root__hash", "x_9", "qQ_q", "k7_", "m_2_3", "zZ", "w__", "e_x_",
	"blk_", "i_d", "ext__1", "info_A", "st8_", "p_r_f", "shard__", "acc_0_"}
var c09R8FieldWords = []string{"shard_", "shard__id", "s_1_", "type_", "root__hash", "a_", "b__", "x_9", "y_2_", "qW_e", "k_7",
	"lt__", "now_", "c7__x", "e_1_2", "from_", "to__", "ids_", "u_", "v__v", "n0_", "zZ_", "file__hash_", "p_"}
var c09R8Ns = []string{"x1_", "ns__a", "liteServer.dbg_", "a_1.b__2", "tonNode", "qX_9", "db_.s__"}

// r8TlNames: genTlSchema over the exotic name pools (schemas are generated sequentially).
func c09R8TlNames(r *prng.R, size int) *tlSchema {
	w, f, n := c09Words, c09FieldWords, c09Ns
	c09Words, c09FieldWords, c09Ns = c09R8Words, c09R8FieldWords, c09R8Ns
	defer func() { c09Words, c09FieldWords, c09Ns = w, f, n }()
	return genTlSchema(r, size)
}

// ---------------------------------------------------------------- TL-B dictionary shapes

func c09R8TlbProg(pkg string, sc *tlbSchema, explore string) *c09Prog {
	return &c09Prog{kind: "tlb", pkg: pkg, text: sc.text(), tlb: sc, explore: explore,
		descs: map[string][2]string{}, opaque: map[string]string{}, refines: map[string]bool{}, parts: map[string]string{}}
}

const c09R8Hm = "r8-nonempty-hashmap-shapes"

// the value forms a dictionary is crossed with
func c09R8Values(r *prng.R, s *tlbSchema) []*bT {
	u := func(n int) *bT { return &bT{k: "uint", n: n} }
	rf := func(x *bT) *bT { return &bT{k: "ref", a: x} }
	item := &bT{k: "named", name: "Item"}
	pair := &bT{k: "named", name: "Pair"}
	vals := []*bT{
		u(16), item, rf(item), rf(u(32)), {k: "refcell"}, {k: "coins"}, {k: "var", n: 16}, rf(&bT{k: "var", n: 7}),
		{k: "either", a: u(8), b: u(8)}, {k: "either", a: item, b: rf(item)}, rf(&bT{k: "either", a: u(8), b: u(16)}),
		{k: "refanon", fields: []bF{nf("a", u(8)), nf("b", u(16))}},
		{k: "dict", n: 8, a: rf(item)}, rf(&bT{k: "dict", n: 8, a: item}), rf(&bT{k: "dict", n: 16, a: rf(pair)}),
		{k: "bits", n: 256}, rf(&bT{k: "int", n: 257}), {k: "bool"}, rf(&bT{k: "addr"}), pair, rf(pair), rf(&bT{k: "nn", n: 5}),
	}
	g := &tlbGen{r: r, s: s, names: map[string]bool{}}
	for i := 0; i < 6; i++ {
		v := g.plain(1)
		if i%2 == 0 && g.fitsCell(v) {
			v = rf(v)
		}
		vals = append(vals, v)
	}
	return vals
}

func c09R8Base(s *tlbSchema) {
	u := func(n int) *bT { return &bT{k: "uint", n: n} }
	s.decls = append(s.decls,
		&bD{name: "Item", ctors: []bC{{name: "item", prefix: "#_", fields: []bF{nf("a", u(32))}}}},
		&bD{name: "Pair", ctors: []bC{{name: "pair", prefix: "$_", fields: []bF{nf("x", u(8)), nf("y", &bT{k: "int", n: 16})}}}})
}

// c09R8DictSchema: both programs have the same shape; kind = "dict" (HashmapE) or "hm" (Hashmap).
func c09R8DictSchema(r *prng.R, kind string) *tlbSchema {
	s := &tlbSchema{}
	c09R8Base(s)
	keys := []int{8, 32, 64, 256, 1 + r.Intn(64), 264, 16, 1 + r.Intn(64), 96}
	vals := c09R8Values(r, s)
	rot := r.Intn(len(keys))
	var cur []bF
	flush := func() {
		if len(cur) > 0 {
			n := len(s.decls) - 2
			s.decls = append(s.decls, &bD{name: fmt.Sprintf("Box%d", n), ctors: []bC{{name: fmt.Sprintf("box%d", n), prefix: "#_", fields: cur}}})
			cur = nil
		}
	}
	for i, v := range vals {
		cur = append(cur, nf(fmt.Sprintf("d%d", i), &bT{k: kind, n: keys[(i+rot)%len(keys)], a: v}))
		if len(cur) == 4 { // 4 references: a HashmapE box still fits a cell
			flush()
		}
	}
	flush()
	if kind == "dict" {
		// dictionaries under every modifier
		item := &bT{k: "named", name: "Item"}
		rf := func(x *bT) *bT { return &bT{k: "ref", a: x} }
		dct := func(n int, v *bT) *bT { return &bT{k: "dict", n: n, a: v} }
		s.decls = append(s.decls, &bD{name: "Mods1", ctors: []bC{{name: "mods1", prefix: "#_", fields: []bF{
			nf("m1", &bT{k: "mayberef", a: dct(8, rf(item))}),
			nf("m2", &bT{k: "maybe", a: dct(16, rf(&bT{k: "uint", n: 32}))}),
			nf("m3", rf(dct(32, rf(item)))),
			nf("m4", &bT{k: "eitherref", a: dct(8, rf(item))})}}}})
		s.decls = append(s.decls, &bD{name: "Mods2", ctors: []bC{{name: "mods2", prefix: "$_", fields: []bF{
			nf("e", &bT{k: "either", a: dct(8, item), b: dct(8, rf(item))}),
			nf("v", &bT{k: "mayberef", a: &bT{k: "var", n: 16}}),
			nf("w", rf(&bT{k: "var", n: 7})),
			nf("x", &bT{k: "maybe", a: &bT{k: "eitherref", a: dct(64, rf(item))}})}}}})
		a := bC{name: "alt_a", fields: []bF{nf("d", dct(32, rf(item)))}}
		setTag(&a, false, 1, 0)
		b := bC{name: "alt_b", fields: []bF{nf("d", dct(32, item)), nf("e", &bT{k: "refanon", fields: []bF{nf("f", dct(256, &bT{k: "refcell"}))}})}}
		setTag(&b, false, 1, 1)
		s.decls = append(s.decls, &bD{name: "ModsAlt", ctors: []bC{a, b}})
	}
	return s
}

func c09R8Progs(c *Ctx, s *c09Session) {
	r := c.R.Fork(0x0908)
	s.progs = append(s.progs, c09R8TlbProg("tlbdicts", c09R8DictSchema(r.Fork(1), "dict"), ""))
	s.progs = append(s.progs, c09R8TlbProg("tlbhm", c09R8DictSchema(r.Fork(2), "hm"), c09R8Hm))
	for i := 0; i < c.Scale(1, 6); i++ {
		size := []int{12, 3, 20, 6, 30, 9}[i]
		sc := c09R8TlNames(r.Fork(uint64(100+i)), size)
		s.progs = append(s.progs, &c09Prog{kind: "tl", pkg: fmt.Sprintf("tlnames%d", i), text: sc.text(), tl: sc})
	}
}

// ---------------------------------------------------------------- dictionary positions of a declaration

type c09R8Dict struct {
	kind string // dict | hm
	n    int
	val  *bT
}

func (s *tlbSchema) r8DictsT(t *bT, acc *[]c09R8Dict) {
	if t == nil {
		return
	}
	switch t.k {
	case "dict", "hm":
		*acc = append(*acc, c09R8Dict{t.k, t.n, t.a})
		s.r8DictsT(t.a, acc)
	case "maybe", "mayberef", "ref", "eitherref":
		s.r8DictsT(t.a, acc)
	case "either":
		s.r8DictsT(t.a, acc)
		s.r8DictsT(t.b, acc)
	case "anon", "refanon":
		s.r8DictsFields(t.fields, acc)
	case "named":
		if d := s.find(t.name); d != nil {
			s.r8DictsDecl(d, acc)
		}
	}
}

func (s *tlbSchema) r8DictsFields(fs []bF, acc *[]c09R8Dict) {
	for _, f := range fs {
		s.r8DictsT(f.t, acc)
	}
}

func (s *tlbSchema) r8DictsDecl(d *bD, acc *[]c09R8Dict) {
	for i := range d.ctors {
		s.r8DictsFields(d.ctors[i].fields, acc)
	}
}

// c09R8Dicts: see the head of the file.  The driver is asked here; coqc runs in
// the background; the returned function collects the verdicts.
func c09R8Dicts(c *Ctx, s *c09Session, out string) func() {
	type obl struct {
		id, what string
		in       sx.V
		spec     bSpec
		desc     string
	}
	var obls []obl
	for _, p := range s.progs {
		if p.kind != "tlb" || (p.explore != "" && p.explore != c09R8Hm) {
			continue
		}
		strict := p.explore == c09R8Hm || p.pkg == "tlbdicts"
		pin := sx.L(sx.A("tlb"), sx.Str(p.text))
		if p.explore == c09R8Hm { // exploratory for the main loop (tlbdesc has no inline Hashmap), strict here
			if p.genErr != "" {
				c.Fail("c09.generate", pin, "c09-tlb-generate", "the generator fails on a schema of the supported subset: "+p.genErr)
			} else if p.bldErr != "" {
				c.Fail("c09.build", pin, "c09-tlb-compile", "generated code does not compile: "+trunc(p.bldErr, 500))
			}
		}
		if !p.ok() {
			continue
		}
		for _, n := range p.names {
			d := p.tlb.byGo(n)
			if d == nil {
				continue
			}
			var want []c09R8Dict
			p.tlb.r8DictsDecl(d, &want)
			in := sx.L(sx.A("tlb"), sx.A(n), sx.Str(p.text))
			got := s.ask(sx.L(sx.A("tlb.dicts"), sx.A(p.pkg), sx.A(n)))
			if got.K != sx.KL || got.Head() == "harness-error" {
				c.Fail("c09.tlbdict", in, "c09-tlb-dict-driver", "the compiled driver answered "+trunc(got.String(), 200))
				continue
			}
			if len(got.List) != len(want) {
				if strict {
					c.Fail("c09.tlbdict", in, "c09-tlb-dict-positions", fmt.Sprintf("the declaration of %s has %d dictionaries, the generated Go type %d: %s", n, len(want), len(got.List), trunc(got.String(), 300)))
				} else {
					c.Note("c09.tlbdict", "positions-not-aligned", in)
				}
				continue
			}
			if len(want) == 0 {
				continue
			}
			for i, w := range want {
				g := got.List[i]
				if g.K != sx.KL || len(g.List) != 5 {
					c.Fail("c09.tlbdict", in, "c09-tlb-dict-driver", "the compiled driver answered "+trunc(g.String(), 200))
					continue
				}
				path := string(g.List[0].Bytes)
				wb, wk := "HashmapE", "uint"
				if w.kind == "hm" {
					wb = "Hashmap"
				}
				if w.n > 64 {
					wk = "bits"
				}
				text := (&bT{k: w.kind, n: w.n, a: w.val}).text()
				if g.List[1].Atom != wb || g.List[2].Atom != wk || g.List[3].I() != w.n {
					c.Fail("c09.tlbdict", in, "c09-tlb-dict-shape", fmt.Sprintf("%s is generated at %s%s as tlb.%s with a %s%d key", text, n, path, g.List[1].Atom, g.List[2].Atom, g.List[3].I()))
					continue
				}
				if g.List[4].Head() == "opaque" {
					if strict {
						c.Fail("c09.tlbdict", in, "c09-tlb-dict-opaque", fmt.Sprintf("no descriptor for the value type of %s at %s%s: %s", text, n, path, trunc(g.List[4].String(), 200)))
					} else {
						c.Note("c09.tlbdict", "value-type-without-descriptor", in)
					}
					continue
				}
				if g.List[4].K != sx.KL || len(g.List[4].List) != 2 || g.List[4].List[1].K != sx.KBytes {
					c.Fail("c09.tlbdict", in, "c09-tlb-dict-driver", "the compiled driver answered "+trunc(g.String(), 200))
					continue
				}
				obls = append(obls, obl{id: fmt.Sprintf("%s.%s.%d", p.pkg, n, i), what: fmt.Sprintf("%s at %s%s", text, n, path), in: in,
					spec: p.tlb.specOf(w.val), desc: string(g.List[4].List[1].Bytes)})
			}
		}
	}
	if len(obls) == 0 {
		return func() {}
	}
	var b strings.Builder
	b.WriteString(c09TlbCoqHead)
	b.WriteString("(* the value types of the dictionaries of every TL-B program of the run: meaning of the declared value type\n   against the descriptor of the Go value type tlb/parser generated *)\n")
	var rows []string
	for _, o := range obls {
		rows = append(rows, fmt.Sprintf("(* %s *)\n  (%q, tlb_check_list (%s) (%s))", strings.ReplaceAll(o.what, "*)", "* )"), o.id, o.spec.coq, o.desc))
	}
	b.WriteString("Definition all_results : list (string * list bool) := [\n  " + strings.Join(rows, ";\n  ") + "].\n")
	b.WriteString("Eval vm_compute in all_results.\n")
	b.WriteString("Theorem C09_run_every_dictionary_value_type_checks :\n  forallb (fun r : string * list bool => forallb (fun b : bool => b) (snd r)) all_results = true.\nProof. vm_compute. reflexivity. Qed.\n")
	file := "C09TlbDict.v"
	done := make(chan map[string][]bool, 1)
	var coqOut string
	go func() {
		if err := os.WriteFile(filepath.Join(out, file), []byte(b.String()), 0o644); err != nil {
			done <- nil
			return
		}
		o, _ := c09Coqc(out, file)
		coqOut = o
		done <- c09ParseResults(o)
	}()
	return func() {
		res := <-done
		for _, o := range obls {
			r, ok := res[o.id]
			switch {
			case !ok || len(r) != 2:
				c.Fail("c09.tlbdict", o.in, "c09-tlb-dict-coqc", "coqc gave no verdict for the value type of "+o.what+": "+trunc(coqOut, 300))
			case !(r[0] && r[1]):
				c.Fail("c09.tlbdict", o.in, "c09-tlb-dict-value", fmt.Sprintf("the Go value type generated for %s does not pass tlb_check (refines=%v wf_ty=%v): descriptor %s / schema %s", o.what, r[0], r[1], o.desc, o.spec.coq))
			default:
				cls := "inline"
				if strings.Contains(o.what, " ^") {
					cls = "ref"
				}
				kind := "HashmapE"
				if strings.HasPrefix(o.what, "(Hashmap ") {
					kind = "Hashmap"
				}
				c.Note("c09.tlbdict", kind+"|value-"+cls+"|checked", o.in)
			}
		}
	}
}
