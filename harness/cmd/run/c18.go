package main

import (
	"bytes"
	"fmt"
	"sort"
	"strings"

	"github.com/tonkeeper/tongo/boc"
	"github.com/tonkeeper/tongo/tlb"

	"verifharness/prng"
	"verifharness/sx"
)

func init() {
	execs["c18.proof"] = execC18Proof
	execs["c18.key"] = execC18Key
	gens["C18"] = genC18
}

func execC18Proof(in sx.V) sx.V {
	dag := dagFromSx(in.List[0])
	cells, err := buildGo(dag)
	if err != nil {
		return sx.A("err")
	}
	root := cells[in.List[1].I()]
	prover, err := boc.NewMerkleProver(root)
	if err != nil {
		return sx.A("err")
	}
	cursor := prover.Cursor()
	for _, p := range in.List[2].List {
		c := cursor
		for _, i := range p.List {
			c = c.Ref(i.I())
		}
		c.Prune()
	}
	proof, err := prover.CreateProof(cursor)
	if err != nil {
		return sx.A("err")
	}
	return sx.Bytes(proof)
}

func bitStringOf(s string) boc.BitString { return bitStringFromBits(s) }

func execC18Key(in sx.V) sx.V {
	dag := dagFromSx(in.List[0])
	cells, err := buildGo(dag)
	if err != nil {
		return sx.A("err")
	}
	root := cells[in.List[1].I()]
	prover, err := boc.NewMerkleProver(root)
	if err != nil {
		return sx.A("err")
	}
	_, proof, err := tlb.ProveKeyInHashmap[tlb.Uint32](prover, root, bitStringOf(in.List[2].Bits))
	if err != nil {
		return sx.A("err")
	}
	return sx.Bytes(proof)
}

// ---- an independent dictionary encoder (from the TON TL-B scheme of
// Hashmap / HmLabel), with a label form chosen per edge

func limBits(m int) int {
	n := 0
	for ; m > 0; m >>= 1 {
		n++
	}
	return n
}

func encLabel(lab string, m int, form int) string {
	n := len(lab)
	same := n > 0 && (strings.Count(lab, "0") == n || strings.Count(lab, "1") == n)
	if form == 2 && !same {
		form = 1
	}
	switch form {
	case 0: // hml_short$0 unary length bits
		return "0" + strings.Repeat("1", n) + "0" + lab
	case 1: // hml_long$10 n:(#<= m) bits
		return "10" + fmt.Sprintf("%0*b", limBits(m), n)[0:limBits(m)] + lab
	default: // hml_same$11 v:Bit n:(#<= m)
		return "11" + lab[0:1] + fmt.Sprintf("%0*b", limBits(m), n)[0:limBits(m)]
	}
}

func fmtLim(n, m int) string {
	w := limBits(m)
	if w == 0 {
		return ""
	}
	return fmt.Sprintf("%0*b", w, n)
}

// buildDict appends the cells of the dictionary over keys[lo:hi) (sorted, all
// sharing the first `done` bits) to dag and returns the index of its root.
func buildDict(dag *[]Node, keys []string, vals []uint32, done int, r *prng.R, forms int) int {
	n := len(keys[0])
	m := n - done
	// longest common prefix beyond `done`
	first, last := keys[0], keys[len(keys)-1]
	l := 0
	for done+l < n && first[done+l] == last[done+l] {
		l++
	}
	lab := first[done : done+l]
	form := 0
	switch forms {
	case 0: // what a minimal encoder would do
		same := l > 0 && (strings.Count(lab, "0") == l || strings.Count(lab, "1") == l)
		short := 2 + 2*l
		long := 2 + limBits(m) + l
		sm := 1 << 30
		if same {
			sm = 3 + limBits(m)
		}
		if sm <= short && sm <= long {
			form = 2
		} else if long < short {
			form = 1
		}
	default:
		form = r.Intn(3)
	}
	var bits string
	same := l > 0 && (strings.Count(lab, "0") == l || strings.Count(lab, "1") == l)
	if form == 2 && !same {
		form = 1
	}
	if l == 0 && form == 2 {
		form = 0
	}
	switch form {
	case 0:
		bits = "0" + strings.Repeat("1", l) + "0" + lab
	case 1:
		bits = "10" + fmtLim(l, m) + lab
	default:
		bits = "11" + lab[0:1] + fmtLim(l, m)
	}
	idx := len(*dag)
	*dag = append(*dag, Node{})
	if len(keys) == 1 {
		bits += fmt.Sprintf("%032b", vals[0])
		(*dag)[idx] = Node{Bits: bits}
		return idx
	}
	// split on the next bit
	split := sort.Search(len(keys), func(i int) bool { return keys[i][done+l] == '1' })
	li := buildDict(dag, keys[:split], vals[:split], done+l+1, r, forms)
	ri := buildDict(dag, keys[split:], vals[split:], done+l+1, r, forms)
	(*dag)[idx] = Node{Bits: bits, Refs: []int{li, ri}}
	return idx
}

func randKeySet(r *prng.R, width, count int) []string {
	set := map[string]bool{}
	shape := r.Intn(4)
	base := randBits(r, width)
	for len(set) < count {
		var k string
		switch shape {
		case 0:
			k = randBits(r, width)
		case 1: // long common prefix
			p := width - minInt(width, 1+r.Intn(6))
			k = base[:p] + randBits(r, width-p)
		case 2: // runs
			k = strings.Repeat(string("01"[r.Intn(2)]), width/2) + randBits(r, width-width/2)
		default:
			v := r.Intn(1 << uint(minInt(width, 10)))
			k = fmt.Sprintf("%0*b", width, v)
			k = k[len(k)-width:]
		}
		if len(k) == width {
			set[k] = true
		}
		if width < 10 && len(set) >= 1<<uint(width) {
			break
		}
	}
	var keys []string
	for k := range set {
		keys = append(keys, k)
	}
	sort.Strings(keys)
	return keys
}

func genC18(c *Ctx) {
	r := c.R
	// 1. dictionaries x present keys + absent keys
	nd := c.Scale(45, 1500)
	for i := 0; i < nd; i++ {
		width := []int{8, 9, 16, 32, 64, 80, 256}[r.Intn(7)]
		if r.Chance(20) {
			width = 8 + r.Intn(249)
		}
		count := 1 + r.Intn(12)
		if i%10 == 0 {
			count = 20 + r.Intn(40)
		}
		keys := randKeySet(r, width, count)
		vals := make([]uint32, len(keys))
		for j := range vals {
			vals[j] = uint32(r.U64())
		}
		var dag []Node
		forms := 0
		if r.Chance(50) {
			forms = 1
		}
		buildDict(&dag, keys, vals, 0, r, forms)
		dsx := dagSx(dag)
		present := keys
		if len(present) > 4 && !c.Thorough() {
			present = []string{keys[0], keys[len(keys)-1], keys[r.Intn(len(keys))], keys[r.Intn(len(keys))]}
		}
		for _, k := range present {
			in := sx.L(dsx, sx.Nat(0), sx.Bits(k), sx.Nat(32))
			out := c.Emit("c18.key", in, fmt.Sprintf("present|w%d|forms%d|n%d", bucket(width), forms, bucket(len(keys))))
			c18KeyOracle(c, in, dag, k, out, true, vals[sort.SearchStrings(keys, k)])
		}
		for j := 0; j < 2; j++ {
			var k string
			if j == 0 {
				k = randBits(r, width)
			} else { // one bit away from a present key
				b := []byte(keys[r.Intn(len(keys))])
				p := r.Intn(width)
				b[p] ^= 1
				k = string(b)
			}
			if sort.SearchStrings(keys, k) < len(keys) && keys[sort.SearchStrings(keys, k)] == k {
				continue
			}
			in := sx.L(dsx, sx.Nat(0), sx.Bits(k), sx.Nat(32))
			out := c.Emit("c18.key", in, fmt.Sprintf("absent|w%d|forms%d", bucket(width), forms))
			c18KeyOracle(c, in, dag, k, out, false, 0)
		}
	}
	// 2. arbitrary trees x arbitrary prune sets through the cursor API
	nt := c.Scale(120, 4000)
	for i := 0; i < nt; i++ {
		size := 1 + r.Intn(9)
		dag := randDag(r, size)
		// collect some valid paths from the root
		var paths []sx.V
		np := r.Intn(4)
		for j := 0; j < np; j++ {
			cur := 0
			var p []sx.V
			steps := r.Intn(4)
			for s := 0; s < steps && len(dag[cur].Refs) > 0; s++ {
				k := r.Intn(len(dag[cur].Refs))
				p = append(p, sx.Nat(k))
				cur = dag[cur].Refs[k]
			}
			paths = append(paths, sx.L(p...))
		}
		in := sx.L(dagSx(dag), sx.Nat(0), sx.L(paths...))
		out := c.Emit("c18.proof", in, fmt.Sprintf("cursor|n%d|prunes%d", bucket(size), np))
		c18ProofOracle(c, in, dag, out)
	}
}

// oracles on the implementation's proof bytes
func c18ProofOracle(c *Ctx, in sx.V, dag []Node, out sx.V) *boc.Cell {
	defer func() { _ = recover() }()
	if out.K != sx.KBytes {
		return nil
	}
	cells, err := buildGo(dag)
	if err != nil {
		return nil
	}
	root := cells[0]
	h0, d0, err := boc.VerifLevelHash(root, 0)
	if err != nil {
		return nil
	}
	parsed, err := boc.DeserializeBoc(out.Bytes)
	if err != nil || len(parsed) != 1 {
		c.Fail(in.Head(), in, "proof-not-boc", "the proof is not a single-root bag of cells")
		return nil
	}
	p := parsed[0]
	if p.CellType() != boc.MerkleProofCell || p.RefsSize() != 1 || p.BitSize() != 8+256+16 || p.Level() != 0 {
		c.Fail("c18", in, "proof-root-shape", "the proof root is not a level-0 Merkle-proof cell with one reference")
		return nil
	}
	data, _ := p.ReadBytes(35)
	want := append([]byte{3}, h0...)
	want = append(want, byte(d0>>8), byte(d0))
	if !bytes.Equal(data, want) {
		c.Fail("c18", in, "proof-root-data", "the proof root does not carry the hash and depth of the original root")
	}
	body := p.Refs()[0]
	hb, db, err := boc.VerifLevelHash(body, 0)
	if err != nil || !bytes.Equal(hb, h0) || db != d0 {
		c.Fail("c18", in, "proof-level0", "the pruned tree does not have the original root's hash/depth at level zero")
	}
	// every pruned branch stores the hash and depth of the subtree it replaces
	var walk func(o, q *boc.Cell, depth int)
	walk = func(o, q *boc.Cell, depth int) {
		if depth > 64 {
			return
		}
		if q.CellType() == boc.PrunedBranchCell && o.CellType() != boc.PrunedBranchCell {
			ho, do, err := boc.VerifLevelHash(o, 0)
			if err != nil {
				return
			}
			q.ResetCounters()
			d, _ := q.ReadBytes(36)
			w := append([]byte{1, 1}, ho...)
			w = append(w, byte(do>>8), byte(do))
			if !bytes.Equal(d, w) || q.BitSize() != 288 {
				c.Fail("c18", in, "pruned-stores", "a pruned-branch cell does not store the hash and depth of the subtree it replaces")
			}
			return
		}
		or, qr := o.Refs(), q.Refs()
		if len(or) != len(qr) {
			c.Fail("c18", in, "proof-shape", "the pruned tree has a different shape from the original")
			return
		}
		for i := range or {
			walk(or[i], qr[i], depth+1)
		}
	}
	walk(root, body, 0)
	return body
}

func readLabel(bits string, m int) (lab string, rest string, ok bool) {
	if len(bits) < 2 {
		return "", "", false
	}
	w := limBits(m)
	switch {
	case bits[0] == '0':
		i := 1
		for i < len(bits) && bits[i] == '1' {
			i++
		}
		n := i - 1
		if i >= len(bits) || len(bits) < i+1+n {
			return "", "", false
		}
		return bits[i+1 : i+1+n], bits[i+1+n:], true
	case bits[1] == '0':
		if len(bits) < 2+w {
			return "", "", false
		}
		n := 0
		for _, ch := range bits[2 : 2+w] {
			n = n*2 + int(ch-'0')
		}
		if len(bits) < 2+w+n {
			return "", "", false
		}
		return bits[2+w : 2+w+n], bits[2+w+n:], true
	default:
		if len(bits) < 3+w {
			return "", "", false
		}
		n := 0
		for _, ch := range bits[3 : 3+w] {
			n = n*2 + int(ch-'0')
		}
		return strings.Repeat(bits[2:3], n), bits[3+w:], true
	}
}

func c18KeyOracle(c *Ctx, in sx.V, dag []Node, key string, out sx.V, present bool, val uint32) {
	if !present {
		if out.K == sx.KBytes {
			c.Fail("c18.key", in, "absent-key-proof", "a proof was produced for a key that is not in the dictionary")
		}
		return
	}
	if out.K != sx.KBytes {
		c.Fail("c18.key", in, "present-key-error", "no proof for a key that is in the dictionary")
		return
	}
	body := c18ProofOracle(c, in, dag, out)
	if body == nil {
		return
	}
	defer func() { _ = recover() }()
	// the value for the key can be decoded from the proof
	cur := body
	rem := key
	for steps := 0; steps < 1100; steps++ {
		if cur.CellType() == boc.PrunedBranchCell {
			c.Fail("c18.key", in, "value-pruned", "the path to the proven key is pruned in the proof")
			return
		}
		bs := cur.RawBitString()
		lab, rest, ok := readLabel(bitsOf(&bs), len(rem))
		if !ok || !strings.HasPrefix(rem, lab) {
			c.Fail("c18.key", in, "value-path", "the proof's dictionary does not contain the proven key")
			return
		}
		rem = rem[len(lab):]
		if rem == "" {
			if len(rest) < 32 || rest[:32] != fmt.Sprintf("%032b", val) {
				c.Fail("c18.key", in, "value-wrong", "the value decoded from the proof differs from the dictionary's value")
			}
			return
		}
		refs := cur.Refs()
		if len(refs) != 2 {
			c.Fail("c18.key", in, "value-fork", "fork without two references in the proof")
			return
		}
		cur = refs[rem[0]-'0']
		rem = rem[1:]
	}
}
