package main

import (
	"fmt"
	"sort"
	"strings"

	"github.com/tonkeeper/tongo/boc"
	"github.com/tonkeeper/tongo/tlb"

	"verifharness/prng"
	"verifharness/sx"
)

func init() {
	execs["c18.proof"] = execC18Proof
	execs["c18.key"] = execC18Key
	execs["c18.multi"] = execC18Multi
	gens["C18"] = genC18
}

func execC18Proof(in sx.V) sx.V {
	dag := dagFromSx(in.List[0])
	cells, err := buildGo(dag)
	if err != nil {
		return sx.A("err")
	}
	root := cells[in.List[1].I()]
	prover, err := boc.NewMerkleProver(root)
	if err != nil {
		return sx.A("err")
	}
	cursor := prover.Cursor()
	for _, p := range in.List[2].List {
		c := cursor
		for _, i := range p.List {
			c = c.Ref(i.I())
		}
		c.Prune()
	}
	proof, err := prover.CreateProof(cursor)
	if err != nil {
		return sx.A("err")
	}
	return rawBytes(proof)
}

func bitStringOf(s string) boc.BitString { return bitStringFromBits(s) }

func execC18Key(in sx.V) sx.V {
	dag := dagFromSx(in.List[0])
	cells, err := buildGo(dag)
	if err != nil {
		return sx.A("err")
	}
	root := cells[in.List[1].I()]
	prover, err := boc.NewMerkleProver(root)
	if err != nil {
		return sx.A("err")
	}
	_, proof, err := tlb.ProveKeyInHashmap[tlb.Uint32](prover, root, bitStringOf(in.List[2].Bits))
	if err != nil {
		return sx.A("err")
	}
	return rawBytes(proof)
}

// ---- an independent dictionary encoder (from the TON TL-B scheme of
// Hashmap / HmLabel), with a label form chosen per edge

func limBits(m int) int {
	n := 0
	for ; m > 0; m >>= 1 {
		n++
	}
	return n
}

func encLabel(lab string, m int, form int) string {
	n := len(lab)
	same := n > 0 && (strings.Count(lab, "0") == n || strings.Count(lab, "1") == n)
	if form == 2 && !same {
		form = 1
	}
	switch form {
	case 0: // hml_short$0 unary length bits
		return "0" + strings.Repeat("1", n) + "0" + lab
	case 1: // hml_long$10 n:(#<= m) bits
		return "10" + fmt.Sprintf("%0*b", limBits(m), n)[0:limBits(m)] + lab
	default: // hml_same$11 v:Bit n:(#<= m)
		return "11" + lab[0:1] + fmt.Sprintf("%0*b", limBits(m), n)[0:limBits(m)]
	}
}

func fmtLim(n, m int) string {
	w := limBits(m)
	if w == 0 {
		return ""
	}
	return fmt.Sprintf("%0*b", w, n)
}

// buildDict appends the cells of the dictionary over keys[lo:hi) (sorted, all
// sharing the first `done` bits) to dag and returns the index of its root.
func buildDict(dag *[]Node, keys []string, vals []uint32, done int, r *prng.R, forms int) int {
	n := len(keys[0])
	m := n - done
	// longest common prefix beyond `done`
	first, last := keys[0], keys[len(keys)-1]
	l := 0
	for done+l < n && first[done+l] == last[done+l] {
		l++
	}
	lab := first[done : done+l]
	form := 0
	switch forms {
	case 0: // what a minimal encoder would do
		same := l > 0 && (strings.Count(lab, "0") == l || strings.Count(lab, "1") == l)
		short := 2 + 2*l
		long := 2 + limBits(m) + l
		sm := 1 << 30
		if same {
			sm = 3 + limBits(m)
		}
		if sm <= short && sm <= long {
			form = 2
		} else if long < short {
			form = 1
		}
	default:
		form = r.Intn(3)
	}
	var bits string
	same := l > 0 && (strings.Count(lab, "0") == l || strings.Count(lab, "1") == l)
	if form == 2 && !same {
		form = 1
	}
	if l == 0 && form == 2 {
		form = 0
	}
	switch form {
	case 0:
		bits = "0" + strings.Repeat("1", l) + "0" + lab
	case 1:
		bits = "10" + fmtLim(l, m) + lab
	default:
		bits = "11" + lab[0:1] + fmtLim(l, m)
	}
	idx := len(*dag)
	*dag = append(*dag, Node{})
	if len(keys) == 1 {
		bits += fmt.Sprintf("%032b", vals[0])
		(*dag)[idx] = Node{Bits: bits}
		return idx
	}
	// split on the next bit
	split := sort.Search(len(keys), func(i int) bool { return keys[i][done+l] == '1' })
	li := buildDict(dag, keys[:split], vals[:split], done+l+1, r, forms)
	ri := buildDict(dag, keys[split:], vals[split:], done+l+1, r, forms)
	(*dag)[idx] = Node{Bits: bits, Refs: []int{li, ri}}
	return idx
}

func randKeySet(r *prng.R, width, count int) []string {
	set := map[string]bool{}
	shape := r.Intn(4)
	base := randBits(r, width)
	for tries := 0; len(set) < count && tries < 40*count; tries++ {
		var k string
		switch shape {
		case 0:
			k = randBits(r, width)
		case 1: // long common prefix
			p := width - minInt(width, 1+r.Intn(6))
			k = base[:p] + randBits(r, width-p)
		case 2: // runs
			k = strings.Repeat(string("01"[r.Intn(2)]), width/2) + randBits(r, width-width/2)
		default:
			v := r.Intn(1 << uint(minInt(width, 10)))
			k = fmt.Sprintf("%0*b", width, v)
			k = k[len(k)-width:]
		}
		if len(k) == width {
			set[k] = true
		}
		if width < 10 && len(set) >= 1<<uint(width) {
			break
		}
	}
	var keys []string
	for k := range set {
		keys = append(keys, k)
	}
	sort.Strings(keys)
	return keys
}

// ---- histories: ONE MerkleProver used for a sequence of operations.
//   ('key b<key> n<vbits>)  tlb.ProveKeyInHashmap(prover, root, key)
//   ('walk (path ...))      prover.Cursor(), Ref/Prune along the paths, CreateProof
//   ('drop (path ...))      the same cursor work, abandoned without CreateProof
// Result: one entry per operation: x<proof> | 'err | 'none | 'panic.

func c18PathsOf(v sx.V) [][]int {
	var paths [][]int
	for _, p := range v.List {
		var ks []int
		for _, k := range p.List {
			ks = append(ks, k.I())
		}
		paths = append(paths, ks)
	}
	return paths
}

func c18RunOp(prover *boc.MerkleProver, root *boc.Cell, op sx.V) (out sx.V) {
	defer func() {
		if r := recover(); r != nil {
			out = sx.A("panic")
		}
	}()
	switch op.Head() {
	case "key":
		root.ResetCounters()
		_, proof, err := tlb.ProveKeyInHashmap[tlb.Uint32](prover, root, bitStringOf(op.List[1].Bits))
		if err != nil {
			return sx.A("err")
		}
		return rawBytes(proof)
	case "prog":
		return c18RunProg(prover, op.List[1].List)
	case "walk", "drop":
		cursor := prover.Cursor()
		for _, p := range c18PathsOf(op.List[1]) {
			cc := cursor
			for _, k := range p {
				cc = cc.Ref(k)
			}
			cc.Prune()
		}
		if op.Head() == "drop" {
			return sx.A("none")
		}
		proof, err := prover.CreateProof(cursor)
		if err != nil {
			return sx.A("err")
		}
		return rawBytes(proof)
	}
	return sx.A("badop")
}

// rawBytes keeps the slice the library returned (no copy): the results of a
// history are held by the caller until the whole history is done, so a result
// that aliases state reused by a later call would be seen changed.
func rawBytes(b []byte) sx.V { return sx.V{K: sx.KBytes, Bytes: b} }

func execC18Multi(in sx.V) sx.V {
	dag := dagFromSx(in.List[0])
	cells, err := buildGo(dag)
	if err != nil {
		return sx.A("err")
	}
	root := cells[in.List[1].I()]
	prover, err := boc.NewMerkleProver(root)
	if err != nil {
		return sx.A("err")
	}
	var outs []sx.V
	for _, op := range in.List[2].List {
		outs = append(outs, c18RunOp(prover, root, op))
	}
	return sx.L(outs...)
}

func opKey(k string) sx.V       { return sx.L(sx.A("key"), sx.Bits(k), sx.Nat(32)) }
func opWalk(paths [][]int) sx.V { return sx.L(sx.A("walk"), pathsSx(paths)) }
func opDrop(paths [][]int) sx.V { return sx.L(sx.A("drop"), pathsSx(paths)) }

// c18MultiOracle judges every operation of a history by itself: the expected
// outcome of operation i depends on (source, operation i) only.
func c18MultiOracle(c *Ctx, in sx.V, src *c18Src, ops []sx.V, out sx.V) {
	c18MultiOracleKind(c, "c18.multi", in, src, ops, out)
}

func c18MultiOracleKind(c *Ctx, kind string, in sx.V, src *c18Src, ops []sx.V, out sx.V) {
	if out.K != sx.KL || len(out.List) != len(ops) {
		if _, _, ok := src.level0(0); ok {
			c.Fail(kind, in, "history-shape", "the history did not yield one result per operation")
		}
		return
	}
	before := len(c.fails)
	for i, op := range ops {
		if len(c.fails) > before {
			break // report the first offending operation of a history only
		}
		tag := fmt.Sprintf("operation %d of %d on one prover (%s): ", i+1, len(ops), trunc(op.String(), 80))
		switch op.Head() {
		case "key":
			c18KeyOracle(c, kind, in, tag, src, op.List[1].Bits, out.List[i])
		case "walk":
			c18WalkOracle(c, kind, in, tag, src, c18PathsOf(op.List[1]), out.List[i])
		case "prog":
			c18WalkOracle(c, kind, in, tag, src, progPrunes(op.List[1].List), out.List[i])
		}
	}
}

func randDict(r *prng.R, width, count int) (dag []Node, keys []string, forms int) {
	keys = randKeySet(r, width, count)
	vals := make([]uint32, len(keys))
	for j := range vals {
		vals[j] = uint32(r.U64())
	}
	if r.Chance(50) {
		forms = 1
	}
	buildDict(&dag, keys, vals, 0, r, forms)
	return dag, keys, forms
}

// unfoldedSize is the number of positions of the tree a DAG unfolds to (what
// the tree model walks), capped.
func unfoldedSize(dag []Node) int {
	sz := make([]int, len(dag))
	for i := len(dag) - 1; i >= 0; i-- {
		n := 1
		for _, r := range dag[i].Refs {
			n += sz[r]
		}
		if n > 1<<20 {
			n = 1 << 20
		}
		sz[i] = n
	}
	return sz[0]
}

// smallTree draws DAGs until the unfolded tree has at most max positions.
func smallTree(max int, draw func() []Node) []Node {
	for {
		if d := draw(); unfoldedSize(d) <= max {
			return d
		}
	}
}

func hasKey(keys []string, k string) bool {
	i := sort.SearchStrings(keys, k)
	return i < len(keys) && keys[i] == k
}

func absentKey(r *prng.R, keys []string, width int, near bool) (string, bool) {
	for try := 0; try < 8; try++ {
		var k string
		if !near {
			k = randBits(r, width)
		} else { // one bit away from a present key
			b := []byte(keys[r.Intn(len(keys))])
			b[r.Intn(width)] ^= 1
			k = string(b)
		}
		if !hasKey(keys, k) {
			return k, true
		}
	}
	return "", false
}

func genC18(c *Ctx) {
	r := c.R
	// 1. dictionaries x present keys + absent keys, one prover per key
	nd := c.Scale(40, 1500)
	for i := 0; i < nd; i++ {
		width := []int{8, 9, 16, 32, 64, 80, 256}[r.Intn(7)]
		if r.Chance(20) {
			width = 8 + r.Intn(249)
		}
		count := 1 + r.Intn(12)
		if i%10 == 0 {
			count = 20 + r.Intn(40)
		}
		dag, keys, forms := randDict(r, width, count)
		src := newC18Src(dag)
		dsx := dagSx(dag)
		present := keys
		if len(present) > 4 && !c.Thorough() {
			present = []string{keys[0], keys[len(keys)-1], keys[r.Intn(len(keys))], keys[r.Intn(len(keys))]}
		}
		for _, k := range present {
			in := sx.L(dsx, sx.Nat(0), sx.Bits(k), sx.Nat(32))
			out := c.Emit("c18.key", in, fmt.Sprintf("present|w%d|forms%d|n%d", bucket(width), forms, bucket(len(keys))))
			c18KeyOracle(c, "c18.key", in, "", src, k, out)
		}
		for j := 0; j < 2; j++ {
			k, ok := absentKey(r, keys, width, j == 1)
			if !ok {
				continue
			}
			in := sx.L(dsx, sx.Nat(0), sx.Bits(k), sx.Nat(32))
			out := c.Emit("c18.key", in, fmt.Sprintf("absent|w%d|forms%d", bucket(width), forms))
			c18KeyOracle(c, "c18.key", in, "", src, k, out)
		}
	}
	// 2. arbitrary ordinary trees x arbitrary prune sets through the cursor API
	nt := c.Scale(100, 4000)
	for i := 0; i < nt; i++ {
		size := 1 + r.Intn(9)
		dag := randDag(r, size)
		np := r.Intn(4)
		paths := randPaths(r, dag, np, 3)
		in := sx.L(dagSx(dag), sx.Nat(0), pathsSx(paths))
		out := c.Emit("c18.proof", in, fmt.Sprintf("cursor|n%d|prunes%d", bucket(size), np))
		c18WalkOracle(c, "c18.proof", in, "", newC18Src(dag), paths, out)
	}
	// 3. histories over ONE prover of a dictionary: proofs for several present
	// keys, failing attempts for absent keys, cursor walks (kept or abandoned)
	nh := c.Scale(36, 700)
	for i := 0; i < nh; i++ {
		width := []int{8, 9, 16, 32, 64, 256}[r.Intn(6)]
		count := 2 + r.Intn(9)
		dag, keys, _ := randDict(r, width, count)
		order := append([]string{}, keys...)
		for j := len(order) - 1; j > 0; j-- {
			k := r.Intn(j + 1)
			order[j], order[k] = order[k], order[j]
		}
		nops := 2 + r.Intn(6)
		var ops []sx.V
		np, na, nw := 0, 0, 0
		for j := 0; j < nops; j++ {
			switch k := r.Intn(10); {
			case k < 5 && np < len(order):
				ops = append(ops, opKey(order[np]))
				np++
			case k < 7:
				if ak, ok := absentKey(r, keys, width, r.Bool()); ok {
					ops = append(ops, opKey(ak))
					na++
				}
			case k < 9:
				ops = append(ops, opWalk(randPaths(r, dag, r.Intn(3), 4)))
				nw++
			default:
				ops = append(ops, opDrop(randPaths(r, dag, 1+r.Intn(2), 4)))
				nw++
			}
		}
		// a history always ends with a proof for a present key or a walk
		if np < len(order) && r.Chance(70) {
			ops = append(ops, opKey(order[np]))
			np++
		} else {
			ops = append(ops, opWalk(randPaths(r, dag, r.Intn(2), 3)))
			nw++
		}
		in := sx.L(dagSx(dag), sx.Nat(0), sx.L(ops...))
		out := c.Emit("c18.multi", in, fmt.Sprintf("history-dict|w%d|present%d|absent%d|walks%d", bucket(width), minInt(np, 3), minInt(na, 2), minInt(nw, 2)))
		c18MultiOracle(c, in, newC18Src(dag), ops, out)
	}
	// 4. histories over ONE prover of an arbitrary tree: several cursors
	nh = c.Scale(30, 600)
	for i := 0; i < nh; i++ {
		size := 2 + r.Intn(8)
		exotic := i%3 == 2
		dag := smallTree(120, func() []Node {
			if exotic {
				return c18ExoticDag(r, size, false, false)
			}
			return randDag(r, size)
		})
		nops := 2 + r.Intn(4)
		var ops []sx.V
		for j := 0; j < nops; j++ {
			if r.Chance(25) && j < nops-1 {
				ops = append(ops, opDrop(randPaths(r, dag, 1+r.Intn(2), 3)))
			} else {
				ops = append(ops, opWalk(randPaths(r, dag, r.Intn(3), 3)))
			}
		}
		in := sx.L(dagSx(dag), sx.Nat(0), sx.L(ops...))
		out := c.Emit("c18.multi", in, fmt.Sprintf("history-tree|exotic%v|n%d|ops%d", exotic, bucket(len(dag)), nops))
		c18MultiOracle(c, in, newC18Src(dag), ops, out)
	}
	// 5. sources that already contain exotic cells
	genC18Exotic(c)
	// 6. concurrent operations on one prover
	genC18Conc(c)
	// 7. equal content at several positions: distinct cells / one shared cell
	genC18Equal(c)
	// 8. cursor programs: walks in every order an application may write them
	genC18Prog(c)
	// 9. depth: combs and chains with paths of 31..33, 63..65, 255..257, ~1000 references
	genC18Deep(c)
}

// genC18Exotic: the source given to NewMerkleProver is the body of an earlier
// proof (level-1 pruned branches), a partially pruned dictionary, or a tree
// with pruned branches of any level mask, library cells and Merkle cells.
func genC18Exotic(c *Ctx) {
	r := c.R
	// 5a. narrowing the body of an earlier proof: second prune set = nothing /
	// an existing pruned branch / an ancestor of one / a sibling / random
	nn := c.Scale(60, 1500)
	for i := 0; i < nn; i++ {
		size := 3 + r.Intn(8)
		plain := smallTree(400, func() []Node { return randDag(r, size) })
		psrc := newC18Src(plain)
		if psrc == nil {
			continue
		}
		first := prunedIdx(plain, randPaths(r, plain, 1+r.Intn(2), 3))
		delete(first, 0)
		if r.Chance(10) {
			first[0] = true
		}
		dag := c18PruneDag(psrc, first)
		if dag == nil {
			continue
		}
		to := pathsTo(dag)
		var pbs, anc, sib []int // pruned branches; their proper ancestors; cells that are neither
		isAnc := map[int]bool{}
		for j := len(dag) - 1; j >= 0; j-- {
			if nodeType(dag[j]) == 1 {
				pbs = append(pbs, j)
				isAnc[j] = true
				continue
			}
			for _, ch := range dag[j].Refs {
				if isAnc[ch] {
					isAnc[j] = true
				}
			}
			if isAnc[j] {
				anc = append(anc, j)
			} else {
				sib = append(sib, j)
			}
		}
		mode := i % 5
		var paths [][]int
		pick := func(xs []int) {
			if len(xs) > 0 {
				paths = append(paths, to[xs[r.Intn(len(xs))]])
			}
		}
		switch mode {
		case 0: // nothing
		case 1:
			pick(pbs)
		case 2:
			pick(anc)
			if r.Chance(30) {
				pick(anc)
			}
		case 3:
			pick(sib)
		default:
			paths = randPaths(r, dag, 1+r.Intn(3), 4)
		}
		in := sx.L(dagSx(dag), sx.Nat(0), pathsSx(paths))
		name := []string{"none", "pruned-branch", "ancestor", "sibling", "random"}[mode]
		out := c.Emit("c18.proof", in, fmt.Sprintf("narrow|second-%s|n%d|pb%d", name, bucket(len(dag)), minInt(len(pbs), 3)))
		c18WalkOracle(c, "c18.proof", in, "", newC18Src(dag), paths, out)
	}
	// 5b. a partially pruned dictionary (the body of a cursor proof that kept
	// the paths of a few keys): proofs for kept keys, for keys whose path is
	// pruned, and for absent keys; alone and as a history over one prover
	nk := c.Scale(30, 700)
	for i := 0; i < nk; i++ {
		width := []int{8, 9, 16, 32, 64, 256}[r.Intn(6)]
		count := 3 + r.Intn(9)
		full, keys, _ := randDict(r, width, count)
		fsrc := newC18Src(full)
		keep := map[string]bool{}
		for nkeep := 1 + r.Intn(minInt(3, len(keys))); len(keep) < nkeep; {
			keep[keys[r.Intn(len(keys))]] = true
		}
		// prune every sibling that is off the paths of all kept keys
		onPath := map[int]bool{0: true}
		first := map[int]bool{}
		for k := range keep {
			_, pr, _, _ := c18KeyWalk2(full, k)
			for s := range pr {
				first[s] = true
			}
		}
		for k := range keep {
			cur, rem := 0, k
			for {
				onPath[cur] = true
				lab, _, ok := readLabel(full[cur].Bits, len(rem))
				if !ok || len(lab) >= len(rem) {
					break
				}
				rem = rem[len(lab):]
				cur = full[cur].Refs[rem[0]-'0']
				rem = rem[1:]
			}
		}
		for s := range first {
			if onPath[s] {
				delete(first, s)
			}
		}
		dag := c18PruneDag(fsrc, first)
		if dag == nil {
			continue
		}
		src := newC18Src(dag)
		dsx := dagSx(dag)
		var kept, gone []string
		for _, k := range keys {
			if keep[k] {
				kept = append(kept, k)
			} else {
				gone = append(gone, k)
			}
		}
		var ops []sx.V
		for _, k := range kept {
			ops = append(ops, opKey(k))
		}
		if len(gone) > 0 {
			ops = append(ops, opKey(gone[r.Intn(len(gone))]))
		}
		if ak, ok := absentKey(r, keys, width, true); ok {
			ops = append(ops, opKey(ak))
		}
		for j := len(ops) - 1; j > 0; j-- {
			k := r.Intn(j + 1)
			ops[j], ops[k] = ops[k], ops[j]
		}
		class := fmt.Sprintf("w%d|kept%d", bucket(width), len(kept))
		if i%2 == 0 {
			for _, op := range ops {
				k := op.List[1].Bits
				in := sx.L(dsx, sx.Nat(0), sx.Bits(k), sx.Nat(32))
				out := c.Emit("c18.key", in, fmt.Sprintf("narrow-dict|%s|keptkey%v|inkeys%v", class, keep[k], hasKey(keys, k)))
				c18KeyOracle(c, "c18.key", in, "", src, k, out)
			}
		} else {
			in := sx.L(dsx, sx.Nat(0), sx.L(ops...))
			out := c.Emit("c18.multi", in, "history-narrow-dict|"+class)
			c18MultiOracle(c, in, src, ops, out)
		}
	}
	// 5c. pruned branches of any level mask, library cells, Merkle cells;
	// consistent masks or (ill) arbitrary ones
	ne := c.Scale(60, 1500)
	for i := 0; i < ne; i++ {
		merkle := i%3 == 0
		ill := i%5 == 4
		dag := smallTree(400, func() []Node { return c18ExoticDag(r, 2+r.Intn(9), merkle, ill) })
		to := pathsTo(dag)
		var paths [][]int
		switch r.Intn(4) {
		case 0:
		case 1: // onto / above special cells
			for j := range dag {
				if dag[j].Special && r.Chance(50) {
					p := to[j]
					paths = append(paths, p[:len(p)-r.Intn(minInt(len(p), 2)+1)])
				}
			}
		default:
			paths = randPaths(r, dag, 1+r.Intn(3), 4)
		}
		hasM := false
		for _, n := range dag {
			hasM = hasM || isMerkleNode(n)
		}
		in := sx.L(dagSx(dag), sx.Nat(0), pathsSx(paths))
		out := c.Emit("c18.proof", in, fmt.Sprintf("exotic|merkle%v|ill%v|level%d|prunes%d", hasM, ill, limBits(int(dag[0].Mask)), minInt(len(paths), 3)))
		c18WalkOracle(c, "c18.proof", in, "", newC18Src(dag), paths, out)
	}
}
