package main

// C07, third part: hashing / re-serialising a parsed cell stays proportionate
// (oracle c07.hash) and the "sharing" family with exotic cells: the parser does
// not validate exotic cells, so it returns pruned-branch / library / Merkle
// typed cells with any level mask, any payload length and any references; the
// hash cache of newImmutableCell is what keeps hashing such a DAG (2^n .. 4^n
// paths) linear in the number of cells.

import (
	"encoding/hex"
	"fmt"
	"runtime"
	"strings"
	"time"

	"github.com/tonkeeper/tongo/boc"

	"verifharness/prng"
	"verifharness/sx"
)

const (
	// Hash() + ToBoc() + re-parse of one parsed root: runtime TotalAlloc delta
	// at most c07HashAllocPerCell*cells + c07HashAllocSlack, cells = distinct
	// cells under the root (the hash cache makes the work linear in them).
	// Measured on the unchanged tree: see bin/props.d/C07.py.
	c07HashAllocPerCell = 16384
	c07HashAllocSlack   = 131072
	c07HashTimeout      = 10 * time.Second
)

// c07.hash: bytes -> 'err | ((hash micros alloc boclen reparse cells reuse) per root)
//
//	hash    'ok | 'err | 'panic  (Hash of a malformed exotic cell may fail)
//	micros  wall time of Hash + ToBoc + re-parse
//	alloc   heap bytes allocated by them (TotalAlloc delta)
//	cells   number of distinct cells under the root
//	reuse   one boc.Hasher used for Hash, HashString, Hash again,
//	        ToBocCustomWithHasher and Hash of every direct child: 'ok, 'skip
//	        (the fresh Hash itself panics: malformed exotic payload),
//	        'panic-<step> or 'differs-<step> (not what a fresh cache answers)
func execC07Hash(in sx.V) sx.V {
	cells, err := boc.DeserializeBoc(in.Bytes)
	if err != nil {
		return sx.A("err")
	}
	var outs []sx.V
	for _, root := range cells {
		var m0, m1 runtime.MemStats
		runtime.ReadMemStats(&m0)
		t0 := time.Now()
		hash, boclen, reparse := c07HashAndBoc(root)
		us := time.Since(t0).Microseconds()
		runtime.ReadMemStats(&m1)
		outs = append(outs, sx.L(sx.A(hash), sx.N(uint64(us)), sx.N(m1.TotalAlloc-m0.TotalAlloc), sx.Nat(boclen), sx.A(reparse), sx.Nat(c07CountCells(root)), sx.A(c07HasherReuse(root))))
	}
	return sx.L(outs...)
}

// c07HasherReuse: a long-lived boc.Hasher must answer every call exactly as a
// fresh cache does, whatever it was asked before (in particular after a call
// that returned ErrDepthIsTooBig), and never panic.
func c07HasherReuse(root *boc.Cell) (status string) {
	type ans struct {
		val string
		err string
	}
	errStr := func(err error) string {
		if err == nil {
			return ""
		}
		return "error: " + err.Error()
	}
	guard := func(f func() ans) (a ans, panicked bool) {
		defer func() {
			if r := recover(); r != nil {
				panicked = true
			}
		}()
		return f(), false
	}
	freshHash := func(x *boc.Cell) func() ans {
		return func() ans {
			h, err := x.Hash()
			return ans{hex.EncodeToString(h), errStr(err)}
		}
	}
	want, p := guard(freshHash(root))
	if p {
		return "skip"
	}
	wantBoc, p := guard(func() ans {
		b, err := root.ToBoc()
		return ans{hex.EncodeToString(b), errStr(err)}
	})
	if p {
		return "skip"
	}
	hs := boc.NewHasher()
	viaHasher := func(x *boc.Cell) func() ans {
		return func() ans {
			h, err := hs.Hash(x)
			return ans{hex.EncodeToString(h), errStr(err)}
		}
	}
	type step struct {
		name string
		f    func() ans
		want ans
	}
	steps := []step{
		{"hash1", viaHasher(root), want},
		{"hashstring", func() ans {
			s, err := hs.HashString(root)
			return ans{s, errStr(err)}
		}, want},
		{"hash2", viaHasher(root), want},
		{"toboc", func() ans {
			b, err := root.ToBocCustomWithHasher(hs, false, false, false, 0)
			return ans{hex.EncodeToString(b), errStr(err)}
		}, wantBoc},
		{"hash3", viaHasher(root), want},
	}
	for i, ch := range root.Refs() {
		if ch == nil {
			continue
		}
		w, p := guard(freshHash(ch))
		if p {
			continue
		}
		steps = append(steps, step{fmt.Sprintf("child%d", i), viaHasher(ch), w})
	}
	for _, st := range steps {
		got, p := guard(st.f)
		if p {
			return "panic-" + st.name
		}
		if got != st.want {
			return "differs-" + st.name
		}
	}
	return "ok"
}

func c07CountCells(root *boc.Cell) int {
	seen := map[*boc.Cell]bool{}
	var walk func(x *boc.Cell)
	walk = func(x *boc.Cell) {
		if x == nil || seen[x] {
			return
		}
		seen[x] = true
		for _, ch := range x.Refs() {
			walk(ch)
		}
	}
	walk(root)
	return len(seen)
}

type c07HashStats struct {
	hangs         int
	n             int
	maxPerCell    float64 // max (alloc - fixed part) / cells
	maxPerCellIn  string
	maxFew        uint64 // max alloc for roots with <= 8 cells
	maxUs         uint64
	maxUsPerCell  float64 // among roots with >= 10 cells
	maxUsPerCellN int
	statuses      map[string]int
	reuse         map[string]int
	genericHangs  int
	deepHangs     int
}

var c07hs = c07HashStats{statuses: map[string]int{}, reuse: map[string]int{}}

// c07HashOracle: hashing and re-serialising the roots parsed from in terminate
// (c07HashTimeout) and allocate in proportion to the number of distinct cells.
// Returns false when the call hung or crashed: the input must not be executed
// again.
func c07HashOracle(c *Ctx, in sx.V, ncells int) bool {
	return c07HashOracleH(c, in, ncells, &c07hs.hangs)
}

// c07HashOracleH is c07HashOracle with the hang budget of the calling stream.
func c07HashOracleH(c *Ctx, in sx.V, ncells int, hangs *int) bool {
	if *hangs >= c07MaxHangs {
		return false
	}
	n := len(in.Bytes)
	for attempt := 0; attempt < 2; attempt++ {
		res := c07Timed("c07.hash", in, c07HashTimeout)
		switch {
		case isAtom(res, "timeout"):
			*hangs++
			c.Fail("c07.hash", in, "hash-timeout", fmt.Sprintf("Hash/ToBoc of the cells parsed from this %d-byte BOC (%d cells) did not finish within %v", n, ncells, c07HashTimeout))
			return false
		case isAtom(res, "crash"):
			*hangs++
			c.Fail("c07.hash", in, "hash-unbounded", fmt.Sprintf("Hash/ToBoc of the cells parsed from this %d-byte BOC (%d cells) killed the process (out of memory / stack overflow)", n, ncells))
			return false
		case isAtom(res, "panic"):
			c.Fail("c07.hash", in, "hash-panic", "parsing for the hash oracle panicked")
			return false
		case isAtom(res, "err"):
			return true
		}
		if res.K != sx.KL {
			c.Fail("c07.hash", in, "harness-error", "unexpected answer of the c07.hash exec: "+trunc(res.String(), 100))
			return true
		}
		over := ""
		for _, ri := range res.List {
			if ri.K != sx.KL || len(ri.List) != 7 {
				c.Fail("c07.hash", in, "harness-error", "unexpected answer of the c07.hash exec: "+trunc(res.String(), 100))
				return true
			}
			us, alloc, cells := ri.List[1].U64(), ri.List[2].U64(), ri.List[5].U64()
			bound := c07HashAllocPerCell*cells + c07HashAllocSlack
			if alloc > bound {
				over = fmt.Sprintf("Hash/ToBoc of a root (%d distinct cells) parsed from this %d-byte BOC allocated %d heap bytes in %d us (bound %d*cells+%d = %d): the work is not linear in the number of cells", cells, n, alloc, us, c07HashAllocPerCell, c07HashAllocSlack, bound)
				if attempt == 0 {
					break // measure once more before raising an alarm
				}
			}
			if ri.List[4].IsA("fail") {
				c.Fail("c07.parse", in, "reserialize", "re-serialised output of a parsed cell does not parse")
			}
			reuse := ri.List[6].Atom
			if strings.HasPrefix(reuse, "panic-") {
				c.Fail("c07.hash", in, "hasher-reuse-panic", fmt.Sprintf("one boc.Hasher used on a root (%d cells) parsed from this %d-byte BOC for Hash, HashString, Hash, ToBocCustomWithHasher, Hash, Hash of each child: the call '%s' panicked (a fresh cache does not)", cells, n, strings.TrimPrefix(reuse, "panic-")))
			} else if strings.HasPrefix(reuse, "differs-") {
				c.Fail("c07.hash", in, "hasher-reuse-differs", fmt.Sprintf("one boc.Hasher used on a root (%d cells) parsed from this %d-byte BOC for Hash, HashString, Hash, ToBocCustomWithHasher, Hash, Hash of each child: the call '%s' returned another value/error than a fresh cache", cells, n, strings.TrimPrefix(reuse, "differs-")))
			}
			c07hs.reuse[reuse]++
			// statistics
			c07hs.statuses[ri.List[0].Atom]++
			if cells <= 8 {
				if alloc > c07hs.maxFew {
					c07hs.maxFew = alloc
				}
			} else if pc := float64(alloc) / float64(cells); pc > c07hs.maxPerCell {
				c07hs.maxPerCell, c07hs.maxPerCellIn = pc, fmt.Sprintf("%d bytes / %d cells, input %d bytes", alloc, cells, n)
			}
			if us > c07hs.maxUs {
				c07hs.maxUs = us
			}
			if cells >= 10 {
				if pc := float64(us) / float64(cells); pc > c07hs.maxUsPerCell {
					c07hs.maxUsPerCell, c07hs.maxUsPerCellN = pc, int(cells)
				}
			}
		}
		if over != "" && attempt == 0 {
			continue
		}
		c07hs.n++
		if over != "" {
			c.Fail("c07.hash", in, "hash-out-of-proportion", over)
		}
		return true
	}
	return true
}

func c07HashStatsString() string {
	s := c07hs
	return fmt.Sprintf("hash calls %d, max hash alloc per cell (cells>8) %.0f (%s), max hash alloc for <= 8 cells %d, max hash call %d us, max us per cell (cells>=10) %.1f (%d cells), statuses %v, hasher reuse %v, hangs %d\n",
		s.n, s.maxPerCell, s.maxPerCellIn, s.maxFew, s.maxUs, s.maxUsPerCell, s.maxUsPerCellN, s.statuses, s.reuse, s.hangs+s.genericHangs+s.deepHangs)
}

// ---------------------------------------------------------------------------
// exotic variants of the sharing shapes

var c07ExoticTypes = []struct {
	name string
	typ  byte
}{{"pruned", 0x01}, {"library", 0x02}, {"mproof", 0x03}, {"mupdate", 0x04}, {"type0", 0x00}, {"typeff", 0xff}}

// number of data bits a well-formed exotic cell of this type and mask carries
func c07ExoticValidBits(typ byte, mask uint8) int {
	switch typ {
	case 0x01:
		return 8 * (2 + 34*popcount8(mask))
	case 0x02:
		return 8 * 33
	case 0x03:
		return 8 * 35
	case 0x04:
		return 8 * 69
	}
	return 8 * (1 + 32)
}

// c07Exotify returns a copy of dag in which the cells selected by level mixing
// mode mix (0 all cells with references, 1 every second one, 2 a random half,
// 3 all cells including the leaves) are exotic cells of the given type and
// level mask; lenMode picks the payload length (0 the valid one for the type,
// 1 the type byte only, 2 one byte short, 3 one byte long, 4 not byte aligned,
// 5 random).
func c07Exotify(r *prng.R, dag []Node, typ byte, mask uint8, lenMode, mix int) []Node {
	out := make([]Node, len(dag))
	for i, nd := range dag {
		out[i] = nd
		sel := false
		switch mix {
		case 0:
			sel = len(nd.Refs) > 0
		case 1:
			sel = len(nd.Refs) > 0 && i%2 == 0
		case 2:
			sel = len(nd.Refs) > 0 && r.Bool()
		case 3:
			sel = true
		}
		if !sel {
			continue
		}
		valid := c07ExoticValidBits(typ, mask)
		bits := valid
		switch lenMode {
		case 1:
			bits = 8
		case 2:
			bits = valid - 8
		case 3:
			bits = valid + 8
		case 4:
			bits = valid + 3
		case 5:
			bits = 8 + r.Intn(1016)
		}
		if bits > 1023 {
			bits = 1023
		}
		body := randBits(r, bits-8)
		if typ == 0x01 && bits >= 16 && r.Chance(70) {
			body = byteBits(mask) + body[8:] // a real pruned branch repeats its mask
		}
		out[i].Special = true
		out[i].Mask = mask
		out[i].Bits = byteBits(typ) + body
	}
	return out
}

// shapes for the exotic variants: a subset of the sharing shapes, small ones
// first (the first failing member reported is the smallest)
func c07ExoticShapes(c *Ctx, r *prng.R) []c07ShareCase {
	var out []c07ShareCase
	chainK := []int{6, 10, 16, 60}
	latK := []int{12}
	layers := []int{6}
	if c.Thorough() {
		chainK = []int{5, 6, 8, 10, 12, 14, 17, 20, 24, 30, 41, 60}
		latK = []int{8, 12, 16, 24, 32, 48, 60}
		layers = []int{4, 6, 9, 12, 16, 24, 30}
	}
	for _, k := range chainK {
		for m := 1; m <= 4; m++ {
			if !c.Thorough() && ((m == 1 && k != 10) || (k == 60 && m != 2)) {
				continue
			}
			dag := make([]Node, k)
			for i := 0; i+1 < k; i++ {
				for j := 0; j < m; j++ {
					dag[i].Refs = append(dag[i].Refs, i+1)
				}
			}
			out = append(out, c07ShareCase{fmt.Sprintf("chain%d", m), dag})
		}
	}
	for w := 2; w <= 4; w++ {
		for _, k := range latK {
			dag := make([]Node, k)
			for i := range dag {
				for j := 1; j <= w && i+j < k; j++ {
					dag[i].Refs = append(dag[i].Refs, i+j)
				}
			}
			out = append(out, c07ShareCase{fmt.Sprintf("lattice%d", w), dag})
		}
	}
	for _, l := range layers {
		k := 1 + 2*l
		dag := make([]Node, k)
		dag[0].Refs = []int{1, 2, 1, 2}
		for j := 0; j+1 < l; j++ {
			a := 1 + 2*(j+1)
			dag[1+2*j].Refs = []int{a, a + 1, a + 1, a}
			dag[2+2*j].Refs = []int{a, a + 1, a + 1, a}
		}
		out = append(out, c07ShareCase{"diamond", dag})
	}
	nMixed := c.Scale(2, 60)
	for i := 0; i < nMixed; i++ {
		k := 8 + r.Intn(c.Scale(23, 53))
		dag := make([]Node, k)
		for i := 0; i+1 < k; i++ {
			m := 1 + r.Intn(4)
			for j := 0; j < m; j++ {
				t := i + 1
				if r.Chance(15) {
					t = i + 1 + r.Intn(minInt(k-1-i, 3))
				}
				dag[i].Refs = append(dag[i].Refs, t)
			}
		}
		out = append(out, c07ShareCase{"mixed", dag})
	}
	return out
}

func c07ExoticSharing(c *Ctx, r *prng.R) {
	allMasks := []uint8{1, 2, 3, 4, 5, 6, 7}
	variant, rot := 0, 0
	for _, sc := range c07ExoticShapes(c, r) {
		within := treeSize(sc.dag) <= 65536
		small := treeSize(sc.dag) <= 4096 // quick tier: only cheap prints
		for _, et := range c07ExoticTypes {
			// quick tier: two of the seven masks per (shape, type), rotating
			// (the extracted model hashes every cell at every level: ~5 ms per
			// cell and level); the 60-cell shapes only as pruned branches and
			// with one mask for the other types
			masks := allMasks
			if !c.Thorough() {
				rot++
				masks = []uint8{uint8(1 + rot%7), uint8(1 + (rot+3)%7)}
				if len(sc.dag) > 30 && et.typ != 0x01 {
					masks = masks[:1]
				}
			}
			for _, mask := range masks {
				variant++
				lenMode := variant % 6
				mix := (variant / 6) % 4
				if et.typ == 0x01 && variant%3 != 0 {
					// pruned-branch cells read their stored hashes: mostly the
					// shape of a real one (valid length, on every inner cell)
					lenMode, mix = 0, 0
				}
				dag := c07Exotify(r, sc.dag, et.typ, mask, lenMode, mix)
				for i := range dag {
					if !dag[i].Special {
						dag[i].Bits = randBits(r, r.Intn(17))
					}
				}
				hv := HeaderVariant{Idx: r.Bool(), Crc: r.Bool(), Cache: r.Bool()}
				in := sx.Bytes(refSerialize(dag, []int{0}, hv, r))
				class := fmt.Sprintf("sharing-exotic|%s|mask%d", et.name, mask)
				// hashing first, with its own limit: an input that hangs there
				// is reported and not executed again (c07.parse hashes the roots)
				if c07hs.hangs >= c07MaxHangs {
					return
				}
				c.Note("c07.hash", class, in)
				if !c07HashOracle(c, in, len(dag)) {
					continue
				}
				out := c.EmitGuarded("c07.parse", in, class)
				if isAtom(out, "crash", "timeout", "panic") {
					c07Oracle(c, in, out) // reports it
					continue
				}
				if isAtom(out, "err") {
					c.Fail("c07.parse", in, "valid-rejected", "a structurally valid BOC with exotic-typed shared sub-cells ("+sc.name+", "+et.name+") was rejected")
					continue
				}
				c07AllocOracle(c, in)
				// printing does not depend on the cell type: only the shapes the
				// budget does not cut (an over-budget print costs ~0.2 s)
				if within && (c.Thorough() || small) && c07st.shareHangs < c07MaxHangs {
					c07PrintOracle(c, in, &c07st.shareHangs)
				}
			}
		}
	}
}

// ---------------------------------------------------------------------------
// family "deep": trees around and beyond the depth limit of the hasher
// (maxDepth 1024: Hash answers ErrDepthIsTooBig, which must leave nothing
// behind in a long-lived Hasher), as chains and as a deep branch under a
// shallow root.

func c07Deep(c *Ctx, r *prng.R) {
	chain := func(dag []Node, from, n int) {
		for i := 0; i+1 < n; i++ {
			dag[from+i].Refs = append(dag[from+i].Refs, from+i+1)
		}
	}
	var cases []c07ShareCase
	for _, n := range []int{1023, 1027, 1100} {
		if !c.Thorough() {
			continue // chains of 1024, 1025, 1026 cells are in the adversarial list
		}
		dag := make([]Node, n)
		chain(dag, 0, n)
		cases = append(cases, c07ShareCase{"chain", dag})
	}
	// root -> (leaf, chain of n): the deep branch is the second reference
	for _, n := range []int{1023, 1024, 1030} {
		if n != 1030 && !c.Thorough() {
			continue
		}
		dag := make([]Node, n+2)
		dag[0].Refs = []int{1, 2}
		chain(dag, 2, n)
		cases = append(cases, c07ShareCase{"branch", dag})
	}
	// root -> a -> b -> (deep chain, deep chain again, leaf): shared deep branch
	{
		n := 1040
		dag := make([]Node, n+4)
		dag[0].Refs = []int{1}
		dag[1].Refs = []int{2, n + 3}
		dag[2].Refs = []int{3, 3, n + 3}
		chain(dag, 3, n)
		cases = append(cases, c07ShareCase{"shared-branch", dag})
	}
	for _, sc := range cases {
		for i := range sc.dag {
			sc.dag[i].Bits = randBits(r, r.Intn(9))
		}
		in := sx.Bytes(refSerialize(sc.dag, []int{0}, HeaderVariant{}, r))
		class := "deep|" + sc.name
		c.Note("c07.hash", class, in)
		if !c07HashOracleH(c, in, len(sc.dag), &c07hs.deepHangs) {
			continue
		}
		c07Oracle(c, in, c.EmitGuarded("c07.parse", in, class))
	}
}

// time spent per oracle exec kind (calibration output only)
var c07Spent = map[string]time.Duration{}
var c07Calls = map[string]int{}

func c07Timed(kind string, in sx.V, limit time.Duration) sx.V {
	t0 := time.Now()
	res := guardedExec(kind, in, limit)
	c07Spent[kind] += time.Since(t0)
	c07Calls[kind]++
	return res
}

var c07PhaseT = time.Now()
var c07Phases string

// c07Phase closes the generator phase that just ended (calibration output)
func c07Phase(ended string) {
	c07Phases += fmt.Sprintf("%s %.1f s, ", ended, time.Since(c07PhaseT).Seconds())
	c07PhaseT = time.Now()
}

func c07SpentString() string {
	return "wall per generator phase: " + c07Phases + "\n" + fmt.Sprintf("time in oracle execs: alloc %d calls %.1f s, print %d calls %.1f s, hash %d calls %.1f s\n",
		c07Calls["c07.alloc"], c07Spent["c07.alloc"].Seconds(), c07Calls["c07.print"], c07Spent["c07.print"].Seconds(), c07Calls["c07.hash"], c07Spent["c07.hash"].Seconds()) +
		fmt.Sprintf("                      alias %d calls %.1f s, text %d calls %.1f s\n", c07Calls["c07.alias"], c07Spent["c07.alias"].Seconds(), c07Calls["c07.text"], c07Spent["c07.text"].Seconds())
}
