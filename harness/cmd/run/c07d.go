package main

// C07, fourth part: the parser's answer is a function of the byte string and
// owns its result — oracle c07.alias (the caller's buffer is neither written
// nor retained; every exported parsing entry point answers alike) — and the
// families that aim at it and at the width arithmetic of the header:
// "full-cells" (cells whose data fill the 128-byte buffer) and "wide-lean"
// (lean magics, counter width 8..255 bytes, counters at the multiples of
// 2^64/width, 2^63/width, 2^32/width where a product in uint or int wraps).

import (
	"bytes"
	"crypto/sha256"
	"encoding/base64"
	"encoding/hex"
	"fmt"
	"strings"
	"time"

	"github.com/tonkeeper/tongo/boc"

	"verifharness/prng"
	"verifharness/sx"
)

const c07AliasTimeout = 10 * time.Second

// c07Digest: content of everything reachable from the roots, read cell by
// cell (type, bit length, data bits, reference structure), independent of the
// library's own hashing and printing.
func c07Digest(roots []*boc.Cell) string {
	h := sha256.New()
	idx := map[*boc.Cell]int{}
	var walk func(x *boc.Cell) int
	walk = func(x *boc.Cell) int {
		if x == nil {
			return -1
		}
		if i, ok := idx[x]; ok {
			return i
		}
		i := len(idx)
		idx[x] = i
		bs := x.RawBitString()
		n := x.BitSize()
		buf := bs.Buffer()
		nb := (n + 7) / 8
		if nb > len(buf) {
			nb = len(buf)
		}
		data := append([]byte{}, buf[:nb]...)
		if n%8 != 0 && nb > 0 {
			data[nb-1] &= byte(0xff << uint(8-n%8))
		}
		var kids []int
		for _, ch := range x.Refs() {
			kids = append(kids, walk(ch))
		}
		fmt.Fprintf(h, "%d|%d|%d|%x|%v;", i, x.CellType(), n, data, kids)
		return i
	}
	for _, r := range roots {
		fmt.Fprintf(h, "root %d;", walk(r))
	}
	return hex.EncodeToString(h.Sum(nil))
}

// c07.alias: bytes -> (outcome input reparse write retain entry)
//
//	outcome 'ok | 'err            first parse of a private copy of the bytes
//	input   'same | 'modified     that copy compared with the bytes afterwards
//	reparse 'same | 'differs      second parse of the very same slice
//	write   'same | 'input | 'other | 'skip
//	        a bit written into every root of the first parse reaches neither
//	        the caller's slice nor the cells of the second parse
//	retain  'same | 'differs      the caller overwrites its buffer: the cells of
//	        the second parse are unchanged
//	entry   'same | 'differs-<fn> | 'panic-<fn>   DeserializeBocHex / Base64,
//	        DeserializeSingleRootBoc, DeserializeSinglRootHex / Base64,
//	        Cell.UnmarshalJSON answer as DeserializeBoc does (single-root
//	        variants: ok iff exactly one root)
func execC07Alias(in sx.V) sx.V {
	orig := in.Bytes
	buf := append([]byte{}, orig...)
	cells1, err1 := boc.DeserializeBoc(buf)
	outcome, input, reparse, write, retain := "ok", "same", "same", "skip", "same"
	if err1 != nil {
		outcome = "err"
	}
	if !bytes.Equal(buf, orig) {
		input = "modified"
	}
	d1 := ""
	if err1 == nil {
		d1 = c07Digest(cells1)
	}
	cells2, err2 := boc.DeserializeBoc(buf)
	d2 := ""
	if err2 == nil {
		d2 = c07Digest(cells2)
	}
	if (err1 == nil) != (err2 == nil) || d1 != d2 {
		reparse = "differs"
	}
	if err1 == nil && err2 == nil {
		before := append([]byte{}, buf...)
		wrote := false
		seen := map[*boc.Cell]bool{}
		for _, r := range cells1 {
			if !seen[r] && r.BitsAvailableForWrite() > 0 {
				seen[r] = true
				if r.WriteBit(true) == nil {
					wrote = true
				}
			}
		}
		if wrote {
			write = "same"
			if !bytes.Equal(buf, before) {
				write = "input"
			} else if c07Digest(cells2) != d2 {
				write = "other"
			}
		}
		copy(buf, before)
		for i := range buf {
			buf[i] ^= 0xff
		}
		if c07Digest(cells2) != d2 {
			retain = "differs"
		}
	}
	return sx.L(sx.A(outcome), sx.A(input), sx.A(reparse), sx.A(write), sx.A(retain), sx.A(c07EntryPoints(orig, err1 == nil, len(cells1), d1)))
}

// c07EntryPoints: every exported parsing entry point of package boc answers as
// DeserializeBoc does on the same bytes.
func c07EntryPoints(data []byte, ok bool, nroots int, want string) string {
	hx := hex.EncodeToString(data)
	b64 := base64.StdEncoding.EncodeToString(data)
	single := func(c *boc.Cell, err error) ([]*boc.Cell, error) {
		if err != nil {
			return nil, err
		}
		return []*boc.Cell{c}, nil
	}
	type ep struct {
		name   string
		single bool
		f      func() ([]*boc.Cell, error)
	}
	eps := []ep{
		{"DeserializeBocHex", false, func() ([]*boc.Cell, error) { return boc.DeserializeBocHex(hx) }},
		{"DeserializeBocBase64", false, func() ([]*boc.Cell, error) { return boc.DeserializeBocBase64(b64) }},
		{"DeserializeSingleRootBoc", true, func() ([]*boc.Cell, error) { return single(boc.DeserializeSingleRootBoc(append([]byte{}, data...))) }},
		{"DeserializeSinglRootHex", true, func() ([]*boc.Cell, error) { return single(boc.DeserializeSinglRootHex(hx)) }},
		{"DeserializeSinglRootBase64", true, func() ([]*boc.Cell, error) { return single(boc.DeserializeSinglRootBase64(b64)) }},
		{"UnmarshalJSON", true, func() ([]*boc.Cell, error) {
			var c boc.Cell
			if err := c.UnmarshalJSON([]byte("\"" + hx + "\"")); err != nil {
				return nil, err
			}
			return []*boc.Cell{&c}, nil
		}},
	}
	for _, e := range eps {
		status := func() (st string) {
			defer func() {
				if r := recover(); r != nil {
					st = "panic-" + e.name
				}
			}()
			cells, err := e.f()
			wantOk := ok && (!e.single || nroots == 1)
			if (err == nil) != wantOk {
				return "differs-" + e.name
			}
			if err == nil && c07Digest(cells) != want {
				return "differs-" + e.name
			}
			return ""
		}()
		if status != "" {
			return status
		}
	}
	return "same"
}

type c07AliasStats struct {
	hangs, n int
	seen     map[string]int
	errN     int
}

var c07as = c07AliasStats{seen: map[string]int{}}

// c07AliasOracle evaluates c07.alias in the guarded child.
func c07AliasOracle(c *Ctx, in sx.V) {
	if c07as.hangs >= c07MaxHangs {
		return
	}
	res := c07Timed("c07.alias", in, c07AliasTimeout)
	n := len(in.Bytes)
	switch {
	case isAtom(res, "timeout"), isAtom(res, "crash"):
		c07as.hangs++
		c.Fail("c07.alias", in, "alias-"+res.Atom, fmt.Sprintf("parsing this %d-byte input twice / through the other entry points ended with '%s", n, res.Atom))
		return
	case isAtom(res, "panic"):
		c.Fail("c07.alias", in, "alias-panic", fmt.Sprintf("parsing this %d-byte input a second time (same slice) or digesting the parsed cells panicked", n))
		return
	}
	if res.K != sx.KL || len(res.List) != 6 {
		c.Fail("c07.alias", in, "harness-error", "unexpected answer of the c07.alias exec: "+trunc(res.String(), 100))
		return
	}
	c07as.n++
	l := res.List
	c07as.seen[l[0].Atom+"/"+l[3].Atom]++
	if l[1].IsA("modified") {
		c.Fail("c07.alias", in, "input-modified", fmt.Sprintf("boc.DeserializeBoc wrote into the caller's %d-byte slice (outcome '%s)", n, l[0].Atom))
	}
	if l[2].IsA("differs") {
		c.Fail("c07.alias", in, "reparse-differs", fmt.Sprintf("parsing the very same %d-byte slice a second time gave another outcome / other cells than the first time", n))
	}
	if l[3].IsA("input") {
		c.Fail("c07.alias", in, "cell-aliases-input", fmt.Sprintf("writing one bit into a root parsed from this %d-byte slice changed the caller's slice", n))
	} else if l[3].IsA("other") {
		c.Fail("c07.alias", in, "cell-aliases-input", fmt.Sprintf("writing one bit into a root parsed from this %d-byte slice changed the cells of another parse of the same slice", n))
	}
	if l[4].IsA("differs") {
		c.Fail("c07.alias", in, "cell-aliases-input", fmt.Sprintf("the cells parsed from this %d-byte slice changed when the caller overwrote its buffer afterwards: they retain the input", n))
	}
	if e := l[5].Atom; strings.HasPrefix(e, "panic-") {
		c.Fail("c07.alias", in, "entry-point-panic", fmt.Sprintf("boc.%s panicked on this %d-byte input (DeserializeBoc answers '%s)", strings.TrimPrefix(e, "panic-"), n, l[0].Atom))
	} else if strings.HasPrefix(e, "differs-") {
		c.Fail("c07.alias", in, "entry-point-differs", fmt.Sprintf("boc.%s answers differently from boc.DeserializeBoc ('%s) on this %d-byte input", strings.TrimPrefix(e, "differs-"), l[0].Atom, n))
	}
}

func c07AliasStatsString() string {
	return fmt.Sprintf("alias calls %d (outcome/write: %v), hangs %d\n", c07as.n, c07as.seen, c07as.hangs)
}

// ---------------------------------------------------------------------------
// family "full-cells": cells whose data occupy 126..128 bytes, byte aligned or
// not (1008..1023 bits), as root, inner cell and leaf.

func c07FullCells(c *Ctx, r *prng.R) {
	bitLens := []int{1000, 1007, 1008, 1009, 1015, 1016, 1017, 1018, 1019, 1020, 1021, 1022, 1023}
	variant := 0
	for _, bl := range bitLens {
		for shape := 0; shape < 4; shape++ {
			var dag []Node
			switch shape {
			case 0: // single cell
				dag = []Node{{Bits: randBits(r, bl)}}
			case 1: // full root over two small leaves
				dag = []Node{{Bits: randBits(r, bl), Refs: []int{1, 2}}, {Bits: randBits(r, 9)}, {Bits: randBits(r, 0)}}
			case 2: // full leaf shared by a small root and an inner cell
				dag = []Node{{Bits: randBits(r, 12), Refs: []int{1, 2}}, {Bits: randBits(r, 3), Refs: []int{2, 2, 2, 2}}, {Bits: randBits(r, bl)}}
			case 3: // every cell full
				dag = []Node{{Bits: randBits(r, bl), Refs: []int{1, 2, 3}}, {Bits: randBits(r, bl), Refs: []int{3}}, {Bits: randBits(r, bl), Refs: []int{3}}, {Bits: randBits(r, bl)}}
			}
			variant++
			hv := HeaderVariant{Idx: variant&1 != 0, Crc: variant&2 != 0, Cache: variant&4 != 0}
			if variant%5 == 0 {
				hv.Magic = 1 + variant%2
			}
			roots := []int{0}
			if shape == 3 && variant%2 == 0 {
				roots = []int{0, 3}
			}
			in := sx.Bytes(refSerialize(dag, roots, hv, r))
			class := fmt.Sprintf("full-cells|%d", bl)
			if bl < 1016 {
				class = "full-cells|below"
			}
			c.Note("c07.alias", class, in)
			c07Oracle(c, in, c.EmitGuarded("c07.parse", in, class))
		}
	}
}

// ---------------------------------------------------------------------------
// family "wide-lean": the lean magics take the counter width from a full
// byte.  Counters are read modulo 2^64 (only the last 8 bytes of a wider
// field count); every product of a counter and a width in the header
// (roots*size, cells*off_bytes, in uint or int) is probed at the values where
// it wraps to something small.

func c07WideLean(c *Ctx, r *prng.R) {
	sizes := []int{8, 9, 12, 16, 17, 32, 64, 128, 255}
	offs := []int{1, 2, 8}
	if !c.Thorough() {
		sizes = []int{8, 9, 16, 32, 255}
	}
	addU := func(l []uint64, v uint64) []uint64 {
		for _, x := range l {
			if x == v {
				return l
			}
		}
		return append(l, v)
	}
	// the values at which v*w crosses 2^64, 2^63, 2^32, 2^31 (and v itself does)
	critical := func(w int) []uint64 {
		var vs []uint64
		W := uint64(w)
		for _, top := range []uint64{0, 1 << 63, 1 << 32, 1 << 31} { // 0 stands for 2^64
			var q uint64
			if top == 0 {
				q = ^uint64(0)/W + 0 // floor((2^64-1)/w)
				if (^uint64(0))%W == W-1 {
					q++ // w divides 2^64: q = 2^64/w exactly
				}
			} else {
				q = top / W
			}
			for _, d := range []int64{-1, 0, 1, 2} {
				vs = addU(vs, q+uint64(d))
			}
			if top == 0 {
				vs = addU(vs, 2*q)
				vs = addU(vs, 3*q+1)
				vs = addU(vs, 4*q)
			}
		}
		for _, v := range []uint64{1 << 31, 1 << 32, 1<<63 - 1, 1 << 63, ^uint64(0), ^uint64(0) - 7} {
			vs = addU(vs, v)
		}
		return vs
	}
	field := func(v uint64, n int, fill byte) []byte {
		b := make([]byte, n)
		for i := 0; i < n-8; i++ {
			b[i] = fill
		}
		for i := 0; i < 8 && i < n; i++ {
			b[n-1-i] = byte(v >> uint(8*i))
		}
		return b
	}
	variant := 0
	emit := func(size, off int, cells, roots, tot uint64, tail []byte, what string) {
		variant++
		magic := []byte{0x68, 0xff, 0x65, 0xf3}
		if variant%3 == 0 {
			magic = []byte{0xac, 0xc3, 0xa7, 0x28}
		}
		fill := []byte{0x00, 0xff, 0x5a}[variant%3]
		b := append([]byte{}, magic...)
		b = append(b, byte(size), byte(off))
		b = append(b, field(cells, size, fill)...)
		b = append(b, field(roots, size, fill)...)
		b = append(b, field(0, size, 0)...)
		b = append(b, field(tot, off, 0)...)
		b = append(b, tail...)
		in := sx.Bytes(b)
		class := fmt.Sprintf("wide-lean|%s|size%d", what, size)
		out := c.EmitGuarded("c07.parse", in, class)
		c.Note("c07.alloc", class, in)
		c07Oracle(c, in, out)
	}
	for _, size := range sizes {
		for _, off := range offs {
			if !c.Thorough() && off == 2 {
				continue
			}
			tails := [][]byte{nil, r.Bytes(size), r.Bytes(2*size + 3)}
			for _, v := range critical(size) {
				for ti, tail := range tails {
					if !c.Thorough() && ti == 1 && v%3 != 0 {
						continue
					}
					emit(size, off, 1, v, 2, tail, "roots")
					if ti == 0 {
						emit(size, off, v, v, 2, tail, "roots=cells")
					}
				}
			}
			// cells * off_bytes (index of the lean format) and cells alone
			for _, v := range critical(off) {
				emit(size, off, v, 1, 2, r.Bytes(size+2*off), "cells")
			}
		}
	}
}
