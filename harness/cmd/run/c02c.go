package main

// C02, third part ("however the cell was obtained"): cells built from BitStrings
// returned by every BitString-producing API, cells decoded from JSON (fresh and
// reused receivers), every Deserialize* entry point and hash accessor, and cells
// of non-zero level whose stored depths differ per level (depth limit at every
// level).

import (
	"bytes"
	"crypto/ed25519"
	"encoding/base64"
	"encoding/hex"
	"encoding/json"
	"fmt"

	"github.com/tonkeeper/tongo/boc"

	"verifharness/prng"
	"verifharness/sx"
)

func init() {
	execs["c02.frombits"] = execC02FromBits
	execs["c02.json"] = execC02Json
}

func hashRow(q *boc.Cell) sx.V {
	return sx.L(levelInfo(q, 0), levelInfo(q, 1), levelInfo(q, 2), levelInfo(q, 3), sx.Nat(q.Level()))
}

// ---------------------------------------------------- cells from BitStrings

const c02FromBitsAPIs = 11

// c02FromBits obtains a BitString through API number api from a source holding
// the bits src, after skipping skip bits, and wraps it into a cell.
func c02FromBits(src string, skip, n, api int) (*boc.Cell, error) {
	bs := bitStringFromBits(src)
	cell := boc.NewCell()
	if err := cell.WriteBitString(bitStringFromBits(src)); err != nil {
		return nil, err
	}
	if api != 5 {
		if _, err := bs.ReadBits(skip); err != nil {
			return nil, err
		}
		if err := cell.Skip(skip); err != nil {
			return nil, err
		}
	}
	switch api {
	case 0: // BitString.ReadBits
		r, err := bs.ReadBits(n)
		if err != nil {
			return nil, err
		}
		return boc.NewCellWithBits(r), nil
	case 1: // Cell.ReadBits
		r, err := cell.ReadBits(n)
		if err != nil {
			return nil, err
		}
		return boc.NewCellWithBits(r), nil
	case 2: // BitString.ReadRemainingBits
		return boc.NewCellWithBits(bs.ReadRemainingBits()), nil
	case 3: // Cell.ReadRemainingBits
		return boc.NewCellWithBits(cell.ReadRemainingBits()), nil
	case 4: // ReadBits then Copy
		r, err := bs.ReadBits(n)
		if err != nil {
			return nil, err
		}
		return boc.NewCellWithBits(r.Copy()), nil
	case 5: // Cell.RawBitString
		return boc.NewCellWithBits(cell.RawBitString()), nil
	case 6: // ReadBits -> ToFiftHex -> BitStringFromFiftHex
		r, err := bs.ReadBits(n)
		if err != nil {
			return nil, err
		}
		p, err := boc.BitStringFromFiftHex(r.ToFiftHex())
		if err != nil {
			return nil, err
		}
		return boc.NewCellWithBits(*p), nil
	case 7: // ReadBits(n), then Append the rest
		r, err := bs.ReadBits(n)
		if err != nil {
			return nil, err
		}
		r.Append(bs.ReadRemainingBits())
		return boc.NewCellWithBits(r), nil
	case 8: // Cell.CopyRemaining
		return cell.CopyRemaining(), nil
	case 9: // ReadBits written into a new cell
		r, err := cell.ReadBits(n)
		if err != nil {
			return nil, err
		}
		c2 := boc.NewCell()
		if err := c2.WriteBitString(r); err != nil {
			return nil, err
		}
		return c2, nil
	default: // 10: NewCellWithBits(ReadBits) serialised and parsed again
		r, err := cell.ReadBits(n)
		if err != nil {
			return nil, err
		}
		b, err := boc.NewCellWithBits(r).ToBoc()
		if err != nil {
			return nil, err
		}
		return boc.DeserializeSingleRootBoc(b)
	}
}

// c02.frombits: (src skip n api) -> row of the cell | 'err
func execC02FromBits(in sx.V) sx.V {
	q, err := c02FromBits(in.List[0].Bits, in.List[1].I(), in.List[2].I(), int(in.List[3].U64()))
	if err != nil {
		return sx.A("err")
	}
	return hashRow(q)
}

func genC02FromBits(c *Ctx) {
	r := c.R
	n := c.Scale(150, 6000)
	for i := 0; i < n; i++ {
		api := i % c02FromBitsAPIs
		l := 1 + r.Intn(120)
		if r.Chance(10) {
			l = 900 + r.Intn(124)
		}
		src := randBits(r, l)
		if r.Chance(30) { // all ones: every stale bit shows
			src = ""
			for len(src) < l {
				src += "1"
			}
		}
		skip := 8 * r.Intn(l/8+1)
		if r.Chance(25) {
			skip = r.Intn(l + 1)
		}
		if skip > l {
			skip = l
		}
		cnt := r.Intn(l - skip + 1)
		if r.Chance(5) {
			cnt = l - skip + 1 + r.Intn(3) // not enough bits
		}
		in := sx.L(sx.Bits(src), sx.Nat(skip), sx.Nat(cnt), sx.Nat(api))
		align := "aligned"
		if skip%8 != 0 {
			align = "unaligned"
		}
		tail := "whole"
		if cnt%8 != 0 {
			tail = "partial"
		}
		out := c.Emit("c02.frombits", in, fmt.Sprintf("api%d|%s|%s", api, align, tail))
		// oracle: the serialised cell parses to the same hash and the same bits
		func() {
			defer func() {
				if rec := recover(); rec != nil {
					c.Fail("c02.frombits", in, "frombits-panic", fmt.Sprint(rec))
				}
			}()
			q, err := c02FromBits(src, skip, cnt, api)
			if err != nil || out.K != sx.KL {
				return
			}
			b, err := q.ToBoc()
			if err != nil {
				c.Fail("c02.frombits", in, "frombits-boc", "a cell built from a returned BitString does not serialise")
				return
			}
			p, err := boc.DeserializeSingleRootBoc(b)
			if err != nil {
				c.Fail("c02.frombits", in, "frombits-boc", "the serialised cell does not parse")
				return
			}
			qb, pb := q.RawBitString(), p.RawBitString()
			if hashRow(p).String() != out.String() || bitsOf(&qb) != bitsOf(&pb) {
				c.Fail("c02.frombits", in, "frombits-boc", fmt.Sprintf("a cell built from a returned BitString holds %d bits and hashes to one value, its serialised form parses to %d bits / another hash (bits past the length leak into the representation)", len(bitsOf(&qb)), len(bitsOf(&pb))))
			}
		}()
	}
}

// ------------------------------------------------------------------- JSON

// c02.json: (dag root rdag rroot mode) -> row of the cell decoded from the JSON
// form of cell `root`; mode 0: fresh variable; 1: a variable holding a copy of
// cell rroot of rdag (read from and hashed before); 2: the same through
// json.Unmarshal instead of a direct UnmarshalJSON call
func execC02Json(in sx.V) sx.V {
	q, err := c02JsonDecode(dagFromSx(in.List[0]), in.List[1].I(), dagFromSx(in.List[2]), in.List[3].I(), int(in.List[4].U64()))
	if err != nil {
		return sx.A("err")
	}
	return hashRow(q)
}

func c02JsonDecode(dag []Node, root int, rdag []Node, rroot int, mode int) (*boc.Cell, error) {
	cells, err := buildGo(dag)
	if err != nil {
		return nil, err
	}
	doc, err := json.Marshal(cells[root])
	if err != nil {
		return nil, err
	}
	var recv boc.Cell
	if mode != 0 {
		rc, err := buildGo(rdag)
		if err != nil {
			return nil, err
		}
		recv = *rc[rroot]
		_, _ = recv.ReadUint(minInt(recv.BitsAvailableForRead(), 5))
		_, _ = recv.NextRef()
		_, _ = recv.Hash()
	}
	if mode == 2 {
		err = json.Unmarshal(doc, &recv)
	} else {
		err = recv.UnmarshalJSON(doc)
	}
	if err != nil {
		return nil, err
	}
	return &recv, nil
}

// c02JsonOrigin: every DAG case also goes through the JSON form; expected is
// the row of the cell built in memory (the c02.hashes answer)
func c02JsonOrigin(c *Ctx, dag []Node, root int, want sx.V, emit bool) {
	r := c.R
	if want.K != sx.KL || len(want.List) != 5 || want.List[3].List[0].K != sx.KBytes {
		return // the cell has no hash: it has no JSON form either
	}
	mode := r.Intn(3)
	var rdag []Node
	rroot := 0
	if mode != 0 {
		// a receiver of another level than the document's root, mostly
		rdag = exoticDag(r, 1+r.Intn(6))
		for try := 0; try < 6 && (rdag[0].Mask == dag[root].Mask); try++ {
			rdag = exoticDag(r, 1+r.Intn(6))
		}
	}
	in := sx.L(dagSx(dag), sx.Nat(root), dagSx(rdag), sx.Nat(rroot), sx.Nat(mode))
	class := fmt.Sprintf("json|mode%d|root-mask%d", mode, dag[root].Mask)
	var out sx.V
	if emit {
		out = c.Emit("c02.json", in, class)
	} else {
		out = safeExec("c02.json", in)
		c.Note("c02.json", class, in)
	}
	if out.String() != want.String() {
		c.Fail("c02.json", in, "origin-json", fmt.Sprintf("the cell decoded from the JSON form (receiver mode %d) has (hash depth) x levels 0..3, Level() = %s; the cell itself has %s", mode, trunc(out.String(), 160), trunc(want.String(), 160)))
		return
	}
	// type, and the JSON form of the decoded cell is the JSON form of the cell
	func() {
		defer func() { _ = recover() }()
		q, err := c02JsonDecode(dag, root, rdag, rroot, mode)
		if err != nil {
			return
		}
		cells, _ := buildGo(dag)
		if q.CellType() != cells[root].CellType() || q.BitsAvailableForRead() != cells[root].BitSize() || q.RefsAvailableForRead() != cells[root].RefsSize() {
			c.Fail("c02.json", in, "origin-json", "the cell decoded from JSON differs in type or has a read cursor that is not at the start")
			return
		}
		a, err1 := json.Marshal(q)
		b, err2 := json.Marshal(cells[root])
		if err1 != nil || err2 != nil || !bytes.Equal(a, b) {
			c.Fail("c02.json", in, "origin-json", "json.Marshal of the decoded cell differs from json.Marshal of the cell")
		}
	}()
}

// ---------------------------------------------------------- entry points

// c02EntryPoints: the single-root bag of the DAG through every Deserialize*
// entry point, and every hash accessor of the cell
func c02EntryPoints(c *Ctx, in sx.V, dag []Node, root int, want sx.V) {
	defer func() {
		if rec := recover(); rec != nil {
			c.Fail("c02.hashes", in, "entry-panic", fmt.Sprintf("an entry point panicked: %v", rec))
		}
	}()
	if want.K != sx.KL || len(want.List) != 5 || want.List[3].List[0].K != sx.KBytes {
		return
	}
	r := c.R
	sub, idx := reachable(dag, root)
	b := refSerialize(sub, []int{idx}, randVariant(r), r)
	hx, b64 := hex.EncodeToString(b), base64.StdEncoding.EncodeToString(b)
	type ep struct {
		name string
		f    func() (*boc.Cell, error)
	}
	one := func(cs []*boc.Cell, err error) (*boc.Cell, error) {
		if err != nil {
			return nil, err
		}
		if len(cs) != 1 {
			return nil, fmt.Errorf("%d roots", len(cs))
		}
		return cs[0], nil
	}
	eps := []ep{
		{"DeserializeBoc", func() (*boc.Cell, error) { return one(boc.DeserializeBoc(b)) }},
		{"DeserializeBocHex", func() (*boc.Cell, error) { return one(boc.DeserializeBocHex(hx)) }},
		{"DeserializeBocBase64", func() (*boc.Cell, error) { return one(boc.DeserializeBocBase64(b64)) }},
		{"DeserializeSingleRootBoc", func() (*boc.Cell, error) { return boc.DeserializeSingleRootBoc(b) }},
		{"DeserializeSinglRootHex", func() (*boc.Cell, error) { return boc.DeserializeSinglRootHex(hx) }},
		{"DeserializeSinglRootBase64", func() (*boc.Cell, error) { return boc.DeserializeSinglRootBase64(b64) }},
		{"MustDeserializeSinglRootHex", func() (*boc.Cell, error) { return boc.MustDeserializeSinglRootHex(hx), nil }},
		{"MustDeserializeSinglRootBase64", func() (*boc.Cell, error) { return boc.MustDeserializeSinglRootBase64(b64), nil }},
	}
	e := eps[r.Intn(len(eps))]
	q, err := e.f()
	if err != nil {
		c.Fail("c02.hashes", in, "entry-point", e.name+" rejects a valid single-root bag of cells: "+err.Error())
		return
	}
	if hashRow(q).String() != want.String() {
		c.Fail("c02.hashes", in, "entry-point", fmt.Sprintf("the cell returned by %s has %s; the cell built in memory has %s", e.name, trunc(hashRow(q).String(), 160), trunc(want.String(), 160)))
		return
	}
	h3 := want.List[3].List[0].Bytes
	h256, err := q.Hash256()
	hs, err2 := q.HashString()
	if err != nil || err2 != nil || !bytes.Equal(h256[:], h3) || hs != hex.EncodeToString(h3) {
		c.Fail("c02.hashes", in, "entry-point", "Hash256 / HashString differ from Hash")
	}
	pub, priv, _ := ed25519.GenerateKey(bytes.NewReader(r.Bytes(64)))
	sig, err := q.Sign(priv)
	if err != nil || !ed25519.Verify(pub, h3, sig) {
		c.Fail("c02.hashes", in, "entry-point", "Cell.Sign is not a signature of the representation hash")
	}
	rb := q.RawBitString()
	data := bitsOf(&rb)
	switch q.CellType() {
	case boc.MerkleProofCell:
		mr, err := q.GetMerkleRoot()
		if len(data) >= 264 && (err != nil || hexBits(mr[:]) != data[8:264]) {
			c.Fail("c02.hashes", in, "entry-point", "GetMerkleRoot is not the hash stored in the Merkle-proof cell")
		}
	case boc.LibraryCell:
		lh, err := q.GetLibraryHash()
		if len(data) >= 264 && (err != nil || hexBits(lh[:]) != data[8:264]) {
			c.Fail("c02.hashes", in, "entry-point", "GetLibraryHash is not the hash stored in the library cell")
		}
	}
	// built by NewCellExotic + writers (the mask through the hook) = built by buildGo
	if nd := dag[root]; nd.Special && nodeType(nd) != 0 && len(nd.Refs) == 0 {
		x := boc.NewCellExotic(boc.CellType(nodeType(nd)))
		for _, ch := range nd.Bits {
			_ = x.WriteBit(ch == '1')
		}
		boc.VerifSetTypeMask(x, boc.CellType(nodeType(nd)), uint32(nd.Mask))
		if hashRow(x).String() != want.String() {
			c.Fail("c02.hashes", in, "entry-point", "a cell made by NewCellExotic + writers hashes differently")
		}
	}
}

// --------------------------------------- stored depths that differ per level

func prunedDepths(r *prng.R, m uint8, depths []int) Node {
	pc := popcount8(m)
	data := []byte{1, m}
	data = append(data, r.Bytes(32*pc)...)
	for j := 0; j < pc; j++ {
		data = append(data, byte(depths[j]>>8), byte(depths[j]))
	}
	return Node{Special: true, Mask: m, Bits: byteBits(data...)}
}

func nearLimit(r *prng.R) int {
	switch r.Intn(6) {
	case 0:
		return r.Intn(900)
	case 1:
		return 65535 - r.Intn(2)
	default:
		return 1020 + r.Intn(7) // 1020..1026
	}
}

// levelDepthDag: pruned branches of masks with two or three bits whose stored
// depths are drawn independently per level (small at one level, at the limit at
// another), under ordinary / Merkle cells of non-zero level; the cell hashed is
// one of those cells of level > 0 on its own
func levelDepthDag(r *prng.R) ([]Node, int) {
	var dag []Node
	spine := 1 + r.Intn(3)
	for i := 0; i < spine; i++ {
		switch {
		case i > 0 || r.Chance(70):
			dag = append(dag, Node{Bits: randBits(r, r.Intn(24)), Refs: []int{i + 1}})
		case r.Bool():
			d := r.Intn(900)
			data := append([]byte{3}, r.Bytes(32)...)
			data = append(data, byte(d>>8), byte(d))
			dag = append(dag, Node{Special: true, Bits: byteBits(data...), Refs: []int{i + 1}})
		default:
			data := append([]byte{4}, r.Bytes(68)...)
			dag = append(dag, Node{Special: true, Bits: byteBits(data...), Refs: []int{i + 1, i + 1}})
		}
	}
	k := 1 + r.Intn(2)
	bottom := Node{Bits: randBits(r, r.Intn(16))}
	for j := 0; j < k; j++ {
		bottom.Refs = append(bottom.Refs, spine+1+j)
	}
	dag = append(dag, bottom)
	for j := 0; j < k; j++ {
		m := []uint8{3, 5, 6, 7, 2, 4, 1}[r.Intn(7)]
		pc := popcount8(m)
		depths := make([]int, pc)
		for x := range depths {
			depths[x] = r.Intn(800)
		}
		// one slot (any level) at the limit, the others small
		if r.Chance(85) {
			depths[r.Intn(pc)] = nearLimit(r) - (spine - 1)
			if depths[0] < 0 {
				depths[0] = 0
			}
		}
		for x := range depths {
			if depths[x] < 0 {
				depths[x] = 0
			}
		}
		dag = append(dag, prunedDepths(r, m, depths))
	}
	ruleMasks(dag)
	root := r.Intn(spine + 1)
	return dag, root
}

// c02DepthOracle: a non-pruned cell that gets hashes has depth <= 1024 at every level
func c02DepthOracle(c *Ctx, in sx.V, dag []Node, root int, out sx.V) {
	if out.K != sx.KL || len(out.List) != 5 || nodeType(dag[root]) == 1 {
		return
	}
	for l := 0; l <= 3; l++ {
		li := out.List[l]
		if li.K == sx.KL && len(li.List) == 2 && li.List[1].K == sx.KN && li.List[1].Int.Int64() > 1024 {
			c.Fail("c02.hashes", in, "depth-limit", fmt.Sprintf("the cell gets a hash although its depth at level %d is %d > 1024", l, li.List[1].Int.Int64()))
			return
		}
	}
}

func genC02LevelDepths(c *Ctx) {
	r := c.R
	for i := 0; i < c.Scale(90, 3000); i++ {
		dag, root := levelDepthDag(r)
		in := sx.L(dagSx(dag), sx.Nat(root))
		out := c.Emit("c02.hashes", in, fmt.Sprintf("level-depths|root-mask%d", dag[root].Mask))
		c02Oracle(c, in, dag, root, out)
		c02DepthOracle(c, in, dag, root, out)
		c02ParsedOrigin(c, in, dag, root, i%4 == 0)
		if i%3 == 0 { // and as a history on one hasher
			hot := []int{root, root, 0, len(dag) - 1, r.Intn(len(dag))}
			c02RunHistory(c, dag, histOps(r, len(dag), hot, 3+r.Intn(5)), fmt.Sprintf("level-depths|root-mask%d", dag[root].Mask))
		}
	}
}
