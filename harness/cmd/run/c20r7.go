package main

// C20, decoders that accept MORE text forms than the encoder emits: account
// ids (raw; user-friendly in the URL and the standard alphabet, all four flag
// bytes), cells (hex in either case; base64 is NOT a JSON form), bit strings
// and addresses (Fift hex in either case), byte arrays (hex in either case).
// Malformed and alternative documents are derived from genuine texts of EVERY
// accepted form: heads, tails, extra groups, padding, doubled text, case and
// alphabet changes, blanks; the model decides accept / reject.

import (
	"encoding/base64"
	"encoding/hex"
	"encoding/json"
	"fmt"
	"strings"

	"github.com/tonkeeper/tongo/ton"

	"verifharness/prng"
	"verifharness/sx"
)

const b64url20 = "ABCDEFGHIJKLMNOPQRSTUVWXYZabcdefghijklmnopqrstuvwxyz0123456789-_"

func swapCase20(s string, r *prng.R) string {
	b := []byte(s)
	for i := range b {
		if r.Chance(50) {
			switch {
			case b[i] >= 'a' && b[i] <= 'z':
				b[i] -= 32
			case b[i] >= 'A' && b[i] <= 'Z':
				b[i] += 32
			}
		}
	}
	return string(b)
}

// derive20: documents derived from one genuine text (unit = characters per group of the encoding)
func derive20(r *prng.R, text string, unit int, alphabet string) []string {
	grp := func(n int) string {
		var sb strings.Builder
		for i := 0; i < n; i++ {
			sb.WriteByte(alphabet[r.Intn(len(alphabet))])
		}
		return sb.String()
	}
	zero := strings.Repeat(alphabet[:1], unit)
	out := []string{
		text,
		text + zero, text + zero + zero, text + grp(unit), text + grp(2*unit), text + grp(3*unit), text + grp(unit*(4+r.Intn(8))),
		zero + text, grp(unit) + text,
		text + text, text + text[:unit], text + text[len(text)-unit:],
		text + "=", text + "==", text + "====", text + zero[:unit-1] + "=", text + zero[:(unit+unit%2)/2-unit%2] + "==",
		text + " ", " " + text, text + "\\n", text + "\\r\\n" + grp(unit), text[:len(text)/2] + "\\n" + text[len(text)/2:],
		strings.ToUpper(text), strings.ToLower(text), swapCase20(text, r),
	}
	if len(text) > unit {
		out = append(out, text[unit:], text[:len(text)-unit], text[:len(text)-1], text[1:], text[:unit])
		if len(text) > 2*unit {
			mid := unit * (1 + r.Intn(len(text)/unit-1))
			out = append(out, text[:mid]+grp(unit)+text[mid:], text[:mid]+text[mid+unit:])
		}
	}
	return out
}

// acctForms20 adds the implementation-side oracle for account ids: a text without
// a colon is accepted only if it is base64 (either alphabet, line breaks ignored)
// of exactly 36 bytes -- flag, workchain, 32 address bytes, CRC16 -- and then the
// value is the one those bytes spell
type acctForms20 struct{ case20 }

func (k acctForms20) hand(c *Ctx, docs ...string) {
	k.case20.hand(c, docs...)
	for _, d := range docs {
		doc := []byte(d)
		var text string
		if json.Unmarshal(doc, &text) != nil || strings.Contains(text, ":") {
			continue
		}
		in := k.in(sx.Bytes(doc))
		res := watchdog20(func() sx.V {
			var id ton.AccountID
			if err := json.Unmarshal(doc, &id); err != nil {
				return sx.A("err")
			}
			clean := strings.NewReplacer("+", "-", "/", "_", "\r", "", "\n", "").Replace(text)
			b, err := base64.URLEncoding.DecodeString(clean)
			if err != nil || len(b) != 36 {
				return sx.L(sx.A("accepted"), sx.Nat(len(b)))
			}
			if int32(int8(b[1])) != id.Workchain || string(b[2:34]) != string(id.Address[:]) {
				return sx.A("other-value")
			}
			return sx.A("ok")
		})
		if hang20(c, "c20.parse", in, "acct", res) {
			return
		}
		if !res.IsA("ok") && !res.IsA("err") {
			c.Fail("c20.parse", in, "malformed-accepted-acct", fmt.Sprintf("user-friendly account text %q accepted: %s", text, res))
		}
	}
}

func genC20AcceptedForms(c *Ctx) {
	r := c.R
	quote := func(ss []string) []string {
		var out []string
		for _, s := range ss {
			out = append(out, "\""+s+"\"")
		}
		return out
	}
	// ---- account ids: raw, user-friendly (URL / standard alphabet) x bounce x testnet
	ka := acctForms20{case20{fam: "acct", arg: sx.Nat(0), class: "acct|forms"}}
	for i := 0; i < c.Scale(6, 60); i++ {
		id := ton.AccountID{Workchain: int32(int8(r.U64()))}
		if r.Chance(30) {
			id.Workchain = []int32{0, -1, 127, -128}[r.Intn(4)]
		}
		copy(id.Address[:], randBytes20(r, 32))
		for _, bounce := range []bool{false, true} {
			for _, testnet := range []bool{false, true} {
				hum := id.ToHuman(bounce, testnet)
				std := strings.NewReplacer("-", "+", "_", "/").Replace(hum)
				ka.hand(c, quote(derive20(r, hum, 4, b64url20))...)
				ka.hand(c, quote(derive20(r, std, 4, strings.NewReplacer("-", "+", "_", "/").Replace(b64url20)))...)
				// mixed alphabets, and more bytes than an address with the checksum still in place
				raw, _ := base64.URLEncoding.DecodeString(hum)
				for _, extra := range []int{1, 2, 3, 6, 36} {
					long := append(append([]byte{}, raw...), r.Bytes(extra)...)
					ka.hand(c, "\""+base64.URLEncoding.EncodeToString(long)+"\"", "\""+base64.StdEncoding.EncodeToString(long)+"\"", "\""+base64.RawURLEncoding.EncodeToString(long)+"\"")
				}
				ka.hand(c, "\""+base64.URLEncoding.EncodeToString(raw[:35])+"\"", "\""+base64.URLEncoding.EncodeToString(raw[:33])+"\"", "\""+hum[:24]+std[24:]+"\"")
			}
		}
		rawText := id.ToRaw()
		colon := strings.IndexByte(rawText, ':')
		ka.hand(c, quote(derive20(r, rawText[colon+1:], 2, "0123456789abcdef"))...) // no workchain: not a raw form
		for _, d := range derive20(r, rawText[colon+1:], 2, "0123456789abcdef") {
			ka.hand(c, "\""+rawText[:colon+1]+d+"\"")
		}
		ka.hand(c, "\"+"+rawText+"\"", "\"0"+rawText+"\"", "\""+rawText+":"+rawText[colon+1:]+"\"", "\""+rawText[:colon]+"\"", "\""+rawText[:colon]+"::"+rawText[colon+1:]+"\"")
	}
	// ---- cells: hex in either case is a JSON form, base64 is not
	for i := 0; i < c.Scale(4, 40); i++ {
		b := dagBoc20(distinctDag20(r, 1+r.Intn(4)))
		h := hex.EncodeToString(b)
		for arg := 0; arg < 2; arg++ {
			k := case20{fam: "cell", arg: sx.Nat(arg), class: "cell|forms"}
			k.hand(c, quote(derive20(r, h, 2, "0123456789abcdef"))...)
			k.hand(c, "\""+base64.StdEncoding.EncodeToString(b)+"\"", "\""+base64.URLEncoding.EncodeToString(b)+"\"", "\"0x"+h+"\"", "\"x{"+h+"}\"")
		}
	}
	// ---- Fift hex (bit strings, external / variable addresses) and plain hex (byte arrays)
	for i := 0; i < c.Scale(6, 60); i++ {
		bits := randBits(r, 4*(1+r.Intn(40))+r.Intn(4))
		bs := writerBitString20(bits, 0)
		f := bs.ToFiftHex()
		kb := case20{fam: "bitstring", arg: sx.Nat(0), class: "bitstring|forms"}
		kb.hand(c, quote(derive20(r, f, 1, "0123456789ABCDEF"))...)
		kb.hand(c, quote(derive20(r, strings.ToLower(f), 1, "0123456789abcdef_"))...)
		kd := case20{fam: "addr", arg: sx.Nat(0), class: "addr|forms"}
		kd.hand(c, quote(derive20(r, f, 1, "0123456789ABCDEF"))...)
		for _, d := range derive20(r, f, 1, "0123456789abcdef_") {
			kd.hand(c, "\"-1:"+d+"\"", "\"300:"+d+":Anycast(3,5)\"")
		}
		h := hex.EncodeToString(randBytes20(r, 32))
		for _, d := range derive20(r, h, 2, "0123456789abcdefABCDEF") {
			kd.hand(c, "\"0:"+d+"\"", "\"-1:"+d+":Anycast(1,1)\"")
			case20{fam: "tonbits", arg: sx.Nat(0), class: "tonbits|forms"}.hand(c, "\""+d+"\"")
			case20{fam: "tlint", arg: sx.Nat(0), class: "tlint|forms"}.hand(c, "\""+d+"\"")
			case20{fam: "bits", arg: sx.Nat(32), class: "bits|forms"}.hand(c, "\""+d+"\"")
		}
	}
}
