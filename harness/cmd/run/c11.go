package main

// C11: ADNL transport (liteclient/adnl.go, encrypted_conn.go, keys.go).
//
// Case kinds
//   c11.marshal (nonce payload)             NewPacket with crypto/rand.Reader = nonce, Packet.marshal
//   c11.parse   (keystream (seg ...))       liteclient.ParsePacket on a reader that returns the segments
//   c11.recv    (keystream (seg ...))       handleIncomingPackets over a net.Conn that returns the segments
//   c11.session (...)                       newEncryptedConnection against a reference server on loopback TCP
//
// The reference server, framer and splitter below are written from the ADNL
// TCP protocol description with the Go standard library only.

import (
	"bytes"
	"context"
	"crypto/aes"
	"crypto/cipher"
	"crypto/ed25519"
	"crypto/rand"
	"crypto/sha256"
	"encoding/binary"
	"errors"
	"fmt"
	"io"
	"net"
	"sync"
	"time"

	"github.com/oasisprotocol/curve25519-voi/curve"
	ed25519crv "github.com/oasisprotocol/curve25519-voi/primitives/ed25519"
	"github.com/oasisprotocol/curve25519-voi/primitives/x25519"
	"github.com/tonkeeper/tongo/liteclient"

	"verifharness/prng"
	"verifharness/sx"
)

func init() {
	execs["c11.marshal"] = execC11Marshal
	execs["c11.parse"] = execC11Parse
	execs["c11.recv"] = execC11Recv
	execs["c11.session"] = execC11Session
	execs["c11.multi"] = execC11Multi
	execs["c11.csend"] = execC11CSend
	execs["c11.conc"] = execC11Conc
	execs["c11.stress"] = execC11Stress
	gens["C11"] = genC11
}

// ---------- deterministic crypto/rand.Reader ----------

type c11DetRand struct {
	mu  sync.Mutex
	buf []byte
}

func (d *c11DetRand) Read(p []byte) (int, error) {
	d.mu.Lock()
	defer d.mu.Unlock()
	if len(d.buf) < len(p) {
		return 0, errors.New("deterministic randomness exhausted")
	}
	n := copy(p, d.buf)
	d.buf = d.buf[n:]
	return n, nil
}

var c11RandMu sync.Mutex

// c11WithRand runs f with crypto/rand.Reader delivering exactly b.
func c11WithRand(b []byte, f func()) {
	c11RandMu.Lock()
	defer c11RandMu.Unlock()
	old := rand.Reader
	rand.Reader = &c11DetRand{buf: append([]byte{}, b...)}
	defer func() { rand.Reader = old }()
	f()
}

// ---------- keystream cipher.Stream, segment reader, fake net.Conn ----------

type c11KsStream struct{ ks []byte }

func (s *c11KsStream) XORKeyStream(dst, src []byte) {
	for i := range src {
		var k byte
		if len(s.ks) > 0 {
			k = s.ks[0]
			s.ks = s.ks[1:]
		}
		dst[i] = src[i] ^ k
	}
}

type c11SegReader struct {
	segs     [][]byte
	consumed int
}

func (r *c11SegReader) Read(p []byte) (int, error) {
	if len(r.segs) == 0 {
		return 0, io.EOF
	}
	n := copy(p, r.segs[0])
	r.consumed += n
	if n == len(r.segs[0]) {
		r.segs = r.segs[1:]
	} else {
		r.segs[0] = r.segs[0][n:]
	}
	return n, nil
}

type c11FakeAddr struct{}

func (c11FakeAddr) Network() string { return "fake" }
func (c11FakeAddr) String() string  { return "fake" }

type c11FakeConn struct{ r *c11SegReader }

func (c *c11FakeConn) Read(p []byte) (int, error)         { return c.r.Read(p) }
func (c *c11FakeConn) Write(p []byte) (int, error)        { return len(p), nil }
func (c *c11FakeConn) Close() error                       { return nil }
func (c *c11FakeConn) LocalAddr() net.Addr                { return c11FakeAddr{} }
func (c *c11FakeConn) RemoteAddr() net.Addr               { return c11FakeAddr{} }
func (c *c11FakeConn) SetDeadline(t time.Time) error      { return nil }
func (c *c11FakeConn) SetReadDeadline(t time.Time) error  { return nil }
func (c *c11FakeConn) SetWriteDeadline(t time.Time) error { return nil }

func c11SegsOf(v sx.V) [][]byte {
	var segs [][]byte
	for _, s := range v.List {
		segs = append(segs, append([]byte{}, s.Bytes...))
	}
	return segs
}

// ---------- reference implementation of the protocol ----------

func c11RefFrame(nonce, payload []byte) []byte {
	var b bytes.Buffer
	var l [4]byte
	binary.LittleEndian.PutUint32(l[:], uint32(32+len(payload)+32))
	b.Write(l[:])
	b.Write(nonce)
	b.Write(payload)
	h := sha256.New()
	h.Write(nonce)
	h.Write(payload)
	b.Write(h.Sum(nil))
	return b.Bytes()
}

type c11RefPacket struct{ nonce, payload []byte }

// c11RefSplit splits a decrypted stream into packets; complete = the stream ended
// exactly at a packet boundary and every packet was valid.
func c11RefSplit(plain []byte) (ps []c11RefPacket, complete bool) {
	for len(plain) > 0 {
		if len(plain) < 4 {
			return ps, false
		}
		n := int(binary.LittleEndian.Uint32(plain))
		if n < 64 || n > 8<<20 || len(plain)-4 < n {
			return ps, false
		}
		body := plain[4 : 4+n]
		sum := sha256.Sum256(body[:n-32])
		if !bytes.Equal(sum[:], body[n-32:]) {
			return ps, false
		}
		ps = append(ps, c11RefPacket{nonce: body[:32], payload: body[32 : n-32]})
		plain = plain[4+n:]
	}
	return ps, true
}

func c11AesCTR(key, iv []byte) cipher.Stream {
	c, err := aes.NewCipher(key)
	if err != nil {
		panic(err)
	}
	return cipher.NewCTR(c, iv)
}

func c11KeystreamOf(key, iv []byte, n int) []byte {
	b := make([]byte, n)
	c11AesCTR(key, iv).XORKeyStream(b, b)
	return b
}

// X25519 between an Ed25519 private key and an Ed25519 public key.
func c11RefShared(priv ed25519.PrivateKey, pub []byte) ([]byte, error) {
	comp, err := curve.NewCompressedEdwardsYFromBytes(pub)
	if err != nil {
		return nil, err
	}
	ep, err := curve.NewEdwardsPoint().SetCompressedY(comp)
	if err != nil {
		return nil, err
	}
	mp := curve.NewMontgomeryPoint().SetEdwards(ep)
	return x25519.X25519(x25519.EdPrivateKeyToX25519(ed25519crv.PrivateKey(priv)), mp[:])
}

func c11RefKeyID(pub []byte) []byte {
	h := sha256.Sum256(append([]byte{0xc6, 0xb4, 0x13, 0x48}, pub...))
	return h[:]
}

// c11RefAccept is the server's processing of the 256 handshake bytes.
func c11RefAccept(spriv ed25519.PrivateKey, hs []byte) (params []byte, ok bool) {
	if len(hs) != 256 {
		return nil, false
	}
	spub := spriv.Public().(ed25519.PublicKey)
	if !bytes.Equal(hs[0:32], c11RefKeyID(spub)) {
		return nil, false
	}
	secret, err := c11RefShared(spriv, hs[32:64])
	if err != nil {
		return nil, false
	}
	hash := hs[64:96]
	key := append(append([]byte{}, secret[0:16]...), hash[16:32]...)
	iv := append(append([]byte{}, hash[0:4]...), secret[20:32]...)
	params = make([]byte, 160)
	c11AesCTR(key, iv).XORKeyStream(params, hs[96:256])
	sum := sha256.Sum256(params)
	if !bytes.Equal(sum[:], hash) {
		return nil, false
	}
	return params, true
}

// ---------- execs ----------

func execC11Marshal(in sx.V) sx.V {
	nonce, payload := in.List[0].Bytes, in.List[1].Bytes
	var out sx.V
	c11WithRand(nonce, func() {
		p, err := liteclient.NewPacket(append([]byte{}, payload...))
		if err != nil {
			out = sx.A("err")
			return
		}
		out = sx.Bytes(liteclient.VerifMarshalPacket(p))
	})
	return out
}

func c11ErrClass(err error) string {
	switch {
	case errors.Is(err, io.ErrUnexpectedEOF):
		return "ueof"
	case errors.Is(err, io.EOF):
		return "eof"
	}
	return "err"
}

func execC11Parse(in sx.V) sx.V {
	r := &c11SegReader{segs: c11SegsOf(in.List[1])}
	p, err := liteclient.ParsePacket(r, &c11KsStream{ks: append([]byte{}, in.List[0].Bytes...)})
	if err != nil {
		return sx.L(sx.A(c11ErrClass(err)), sx.Nat(r.consumed))
	}
	return sx.L(sx.A("ok"), sx.Bytes(liteclient.VerifPacketNonce(p)), sx.Bytes(p.Payload), sx.Nat(r.consumed))
}

func execC11Recv(in sx.V) sx.V {
	conn := &c11FakeConn{r: &c11SegReader{segs: c11SegsOf(in.List[1])}}
	ch := liteclient.VerifIncoming(conn, &c11KsStream{ks: append([]byte{}, in.List[0].Bytes...)})
	var out []sx.V
	for p := range ch {
		out = append(out, sx.Bytes(p.Payload))
	}
	return sx.L(out...)
}

var c11Listener net.Listener

func c11MsgsOf(v sx.V) []c11RefPacket {
	var ms []c11RefPacket
	for _, m := range v.List {
		ms = append(ms, c11RefPacket{nonce: m.List[0].Bytes, payload: m.List[1].Bytes})
	}
	return ms
}

type c11Server struct {
	handshake []byte
	accepted  bool
	s2c       []byte
	c2s       []byte
	frames    []c11RefPacket
	err       error
}

func execC11Session(in sx.V) sx.V { return execC11SessionKey(in, nil) }

// execC11Multi: several connections made one after the other by one process,
// to the same or to different servers; with reuse the application keeps ONE
// key buffer and overwrites it with the key of the next server.
func execC11Multi(in sx.V) sx.V {
	reuse := in.List[0].Bool
	buf := make([]byte, 32)
	var outs []sx.V
	for _, s := range in.List[1].List {
		if reuse {
			copy(buf, s.List[1].Bytes)
			outs = append(outs, execC11SessionKey(s, buf))
		} else {
			outs = append(outs, execC11SessionKey(s, nil))
		}
	}
	return sx.L(outs...)
}

// keyBuf, when given, is the caller-owned buffer holding the server key.
func execC11SessionKey(in sx.V, keyBuf []byte) sx.V {
	a := in.List
	spriv := ed25519.NewKeyFromSeed(a[0].Bytes)
	spub, params, cseed := a[1].Bytes, a[2].Bytes, a[3].Bytes
	if keyBuf != nil {
		spub = keyBuf
	}
	c2s, s2c := c11MsgsOf(a[8]), c11MsgsOf(a[9])
	lens := a[10].List
	if c11Listener == nil {
		l, err := net.Listen("tcp", "127.0.0.1:0")
		if err != nil {
			return sx.L(sx.A("harness-error"), sx.A("listen"))
		}
		c11Listener = l
	}
	c2sTotal := 0
	for _, m := range c2s {
		c2sTotal += 68 + len(m.payload)
	}
	srv := &c11Server{}
	done := make(chan struct{})
	go func() {
		defer close(done)
		conn, err := c11Listener.Accept()
		if err != nil {
			srv.err = err
			return
		}
		defer conn.Close()
		_ = conn.SetDeadline(time.Now().Add(4 * time.Second))
		hs := make([]byte, 256)
		if _, err := io.ReadFull(conn, hs); err != nil {
			srv.err = err
			return
		}
		srv.handshake = hs
		p, ok := c11RefAccept(spriv, hs)
		if !ok {
			return
		}
		srv.accepted = true
		tx := c11AesCTR(p[0:32], p[64:80])  // cipher A
		rx := c11AesCTR(p[32:64], p[80:96]) // cipher B
		for _, m := range s2c {
			f := c11RefFrame(m.nonce, m.payload)
			tx.XORKeyStream(f, f)
			srv.s2c = append(srv.s2c, f...)
		}
		rest := srv.s2c
		// pieces of the handshake confirmation (the first frame) are sent as
		// separate TCP segments: pause so that the client's read sees the piece alone
		confirmation, pauses := 0, 0
		if len(s2c) > 0 {
			confirmation = 68 + len(s2c[0].payload)
		}
		for _, l := range lens {
			n := l.I()
			if n > len(rest) {
				n = len(rest)
			}
			if n > 0 {
				if _, err := conn.Write(rest[:n]); err != nil {
					srv.err = err
					return
				}
			}
			rest = rest[n:]
			if len(srv.s2c)-len(rest) < confirmation && pauses < 4 && n > 0 {
				pauses++
				time.Sleep(12 * time.Millisecond)
			}
		}
		if len(rest) > 0 {
			if _, err := conn.Write(rest); err != nil {
				srv.err = err
				return
			}
		}
		buf := make([]byte, c2sTotal)
		n, err := io.ReadFull(conn, buf)
		srv.c2s = buf[:n]
		if err != nil {
			srv.err = err
		}
		plain := make([]byte, n)
		rx.XORKeyStream(plain, srv.c2s)
		srv.frames, _ = c11RefSplit(plain)
	}()

	var rnd []byte
	rnd = append(rnd, params...)
	rnd = append(rnd, cseed...)
	for _, m := range c2s {
		rnd = append(rnd, m.nonce...)
	}
	var delivered []sx.V
	var clientErr error
	c11WithRand(rnd, func() {
		ctx, cancel := context.WithTimeout(context.Background(), 6*time.Second)
		defer cancel()
		v, err := liteclient.VerifDial(ctx, spub, c11Listener.Addr().String())
		if err != nil {
			clientErr = err
			return
		}
		defer v.Close()
		ch := v.Incoming()
		got := make(chan []sx.V)
		go func() {
			var d []sx.V
			for p := range ch {
				d = append(d, sx.Bytes(p.Payload))
			}
			got <- d
		}()
		for _, m := range c2s {
			buf := append([]byte{}, m.payload...)
			p, err := liteclient.NewPacket(buf)
			if err == nil {
				err = v.Send(p)
			}
			if err == nil && !bytes.Equal(buf, m.payload) {
				err = errors.New("Send modified the caller's payload buffer")
			}
			if err != nil {
				clientErr = err
				break
			}
		}
		select {
		case delivered = <-got:
		case <-time.After(8 * time.Second):
			clientErr = errors.New("timeout")
		}
	})
	<-done
	if !srv.accepted {
		return sx.L(sx.Bytes(srv.handshake), sx.A("server-rejects"))
	}
	if clientErr != nil {
		return sx.L(sx.A("err"), sx.Str(fmt.Sprintf("%T", clientErr)))
	}
	var frames []sx.V
	for _, f := range srv.frames {
		frames = append(frames, sx.L(sx.Bytes(f.nonce), sx.Bytes(f.payload)))
	}
	p, _ := c11RefAccept(spriv, srv.handshake)
	return sx.L(sx.Bytes(srv.handshake), sx.B(bytes.Equal(p, params)), sx.Bytes(srv.c2s), sx.Bytes(srv.s2c),
		sx.L(delivered...), sx.L(frames...))
}

// ---------- generators ----------

var c11Sizes = []int{0, 0, 1, 3, 4, 8, 12, 19, 20, 31, 32, 33, 51, 52, 55, 56, 63, 64, 65, 119, 120, 127, 128, 200, 255, 256, 257}

func c11Size(r *prng.R, big int) int {
	switch r.Intn(10) {
	case 0:
		return r.Intn(big + 1)
	case 1, 2:
		return r.Intn(300)
	}
	return r.Pick(c11Sizes)
}

func c11SizeBucket(n int) string {
	switch {
	case n == 0:
		return "0"
	case n < 4:
		return "1-3"
	case n < 56:
		return "4-55"
	case n < 120:
		return "56-119"
	case n < 1024:
		return "120-1023"
	case n < 65536:
		return "1k-64k"
	}
	return "64k+"
}

// c11CutSegs cuts b into segments in one of several styles.
func c11CutSegs(r *prng.R, b []byte, style int) (segs [][]byte, name string) {
	switch style {
	case 0:
		if len(b) == 0 {
			return nil, "one"
		}
		return [][]byte{b}, "one"
	case 1:
		for i := range b {
			segs = append(segs, b[i:i+1])
		}
		return segs, "bytewise"
	case 2: // random cuts, occasionally empty segments
		for len(b) > 0 {
			if r.Chance(10) {
				segs = append(segs, []byte{})
				continue
			}
			n := 1 + r.Intn(2*len(b)/3+1)
			if r.Chance(40) {
				n = 1 + r.Intn(70)
			}
			if n > len(b) {
				n = len(b)
			}
			segs = append(segs, b[:n])
			b = b[n:]
		}
		return segs, "random"
	case 3: // cuts around the field boundaries of the first packet
		cuts := []int{r.Pick([]int{1, 3, 4, 5}), r.Pick([]int{31, 32, 33, 35, 36, 37})}
		prev := 0
		for _, c := range cuts {
			if c > prev && c < len(b) {
				segs = append(segs, b[prev:c])
				prev = c
			}
		}
		if len(b)-prev > 33 {
			c := len(b) - r.Pick([]int{1, 31, 32, 33})
			segs = append(segs, b[prev:c])
			prev = c
		}
		segs = append(segs, b[prev:])
		return segs, "fields"
	default: // 4096-byte blocks (bufio's buffer size) +-1
		n := r.Pick([]int{4095, 4096, 4097, 1460})
		for len(b) > n {
			segs = append(segs, b[:n])
			b = b[n:]
		}
		segs = append(segs, b)
		return segs, "blocks"
	}
}

func c11SegsSx(segs [][]byte) sx.V {
	var vs []sx.V
	for _, s := range segs {
		vs = append(vs, sx.Bytes(s))
	}
	return sx.L(vs...)
}

func c11XorBytes(a, b []byte) []byte {
	o := make([]byte, len(a))
	for i := range a {
		o[i] = a[i] ^ b[i]
	}
	return o
}

type c11Stream struct {
	msgs   []c11RefPacket
	ks     []byte
	cipher []byte
	starts []int // offset of every frame in cipher, plus the total length
}

func c11MakeStream(r *prng.R, n int, big int) *c11Stream {
	s := &c11Stream{}
	var plain []byte
	for i := 0; i < n; i++ {
		m := c11RefPacket{nonce: r.Bytes(32), payload: r.Bytes(c11Size(r, big))}
		s.msgs = append(s.msgs, m)
		s.starts = append(s.starts, len(plain))
		plain = append(plain, c11RefFrame(m.nonce, m.payload)...)
	}
	s.starts = append(s.starts, len(plain))
	s.ks = r.Bytes(len(plain) + 8)
	s.cipher = c11XorBytes(plain, s.ks[:len(plain)])
	return s
}

func c11PayloadsEqual(out sx.V, msgs []c11RefPacket) bool {
	if out.K != sx.KL || len(out.List) != len(msgs) {
		return false
	}
	for i, m := range msgs {
		if out.List[i].K != sx.KBytes || !bytes.Equal(out.List[i].Bytes, m.payload) {
			return false
		}
	}
	return true
}

// parse case + oracle: want = "ok" (payload/nonce of msg), "reject" (anything
// but ok), "eof" (eof or ueof).
func c11EmitParse(c *Ctx, ks []byte, segs [][]byte, class string, want string, m *c11RefPacket) {
	in := sx.L(sx.Bytes(ks), c11SegsSx(segs))
	out := c.Emit("c11.parse", in, class)
	head := ""
	if out.K == sx.KL && len(out.List) > 0 && out.List[0].K == sx.KA {
		head = out.List[0].Atom
	}
	switch want {
	case "ok":
		if head != "ok" || !bytes.Equal(out.List[1].Bytes, m.nonce) || !bytes.Equal(out.List[2].Bytes, m.payload) ||
			out.List[3].I() != 68+len(m.payload) {
			c.Fail("c11.parse", in, "c11-valid-frame-not-delivered", "a valid frame was not delivered intact: "+trunc(out.String(), 80))
		}
	case "reject":
		if head == "ok" || head == "" {
			c.Fail("c11.parse", in, "c11-corrupted-frame-delivered", "an altered frame was delivered as a valid packet: "+trunc(out.String(), 80))
		}
	case "eof":
		if head != "eof" && head != "ueof" {
			c.Fail("c11.parse", in, "c11-truncated-frame", "a truncated frame did not end in EOF: "+trunc(out.String(), 80))
		}
	}
}

func c11EmitRecv(c *Ctx, ks []byte, segs [][]byte, class string, want []c11RefPacket) {
	in := sx.L(sx.Bytes(ks), c11SegsSx(segs))
	out := c.Emit("c11.recv", in, class)
	if !c11PayloadsEqual(out, want) {
		c.Fail("c11.recv", in, "c11-recv-loop", fmt.Sprintf("receive loop delivered %d packets, expected the %d intact ones in order", len(out.List), len(want)))
	}
}

func genC11(c *Ctx) {
	r := c.R
	big := c.Scale(1500, 20000)
	// wall-clock scenarios of the Connection layer run in child processes
	// while the other cases are generated; collected at the end
	connCases := c11ConnCases(c)
	defer c11ConnCollect(c, connCases)
	defer c11R8Start(c)() // round 8: slow consumer, pinger vs. senders (c11_r8.go)

	// --- marshal: frame bytes for chosen nonce / payload
	for i := 0; i < c.Scale(40, 400); i++ {
		n := c11Size(r, big)
		nonce, payload := r.Bytes(32), r.Bytes(n)
		in := sx.L(sx.Bytes(nonce), sx.Bytes(payload))
		out := c.Emit("c11.marshal", in, "marshal|"+c11SizeBucket(n))
		if out.K != sx.KBytes || !bytes.Equal(out.Bytes, c11RefFrame(nonce, payload)) {
			c.Fail("c11.marshal", in, "c11-marshal", "Packet.marshal differs from the protocol frame")
		}
	}

	// --- parse: valid frames under segmentations
	for i := 0; i < c.Scale(60, 600); i++ {
		s := c11MakeStream(r, 1+r.Intn(2), big)
		segs, name := c11CutSegs(r, s.cipher, r.Intn(5))
		c11EmitParse(c, s.ks, segs, "valid|"+name+"|"+c11SizeBucket(len(s.msgs[0].payload)), "ok", &s.msgs[0])
	}
	// --- parse: every truncation of small frames, sampled for others
	for i := 0; i < c.Scale(3, 30); i++ {
		s := c11MakeStream(r, 1, 40)
		for k := 0; k < len(s.cipher); k++ {
			if len(s.cipher) > 90 && !c.Thorough() && k > 6 && k < len(s.cipher)-3 && r.Chance(70) {
				continue
			}
			segs, _ := c11CutSegs(r, s.cipher[:k], r.Pick([]int{0, 0, 2}))
			where := "body"
			switch {
			case k == 0:
				where = "empty"
			case k < 4:
				where = "in-length"
			case k == 4:
				where = "after-length"
			case k >= len(s.cipher)-32:
				where = "in-checksum"
			}
			c11EmitParse(c, s.ks, segs, "truncated|"+where, "eof", nil)
		}
	}
	// --- parse: single-byte substitutions and single-bit flips at every position
	for i := 0; i < c.Scale(2, 25); i++ {
		s := c11MakeStream(r, 1+r.Intn(2), 30)
		if i == 0 {
			s = c11MakeStream(r, 1, 6)
		}
		flen := s.starts[1]
		for pos := 0; pos < flen; pos++ {
			var deltas []byte
			if c.Thorough() || i == 0 {
				deltas = []byte{1, 2, 4, 8, 16, 32, 64, 128, 0xff, byte(1 + r.Intn(255))}
			} else {
				deltas = []byte{byte(1 << uint(r.Intn(8))), byte(1 + r.Intn(255))}
			}
			for _, d := range deltas {
				b := append([]byte{}, s.cipher...)
				b[pos] ^= d
				where := "payload"
				switch {
				case pos < 4:
					where = "length"
				case pos < 36:
					where = "nonce"
				case pos >= flen-32:
					where = "checksum"
				}
				kind := "byte"
				if d&(d-1) == 0 {
					kind = "bit"
				}
				segs, _ := c11CutSegs(r, b, r.Pick([]int{0, 0, 0, 2}))
				c11EmitParse(c, s.ks, segs, "corrupt|"+kind+"|"+where, "reject", nil)
			}
		}
	}
	// --- parse: sampled corruptions of larger frames
	for i := 0; i < c.Scale(40, 400); i++ {
		s := c11MakeStream(r, 1, big)
		b := append([]byte{}, s.cipher...)
		pos := r.Intn(len(b))
		if r.Chance(30) {
			pos = len(b) - 1 - r.Intn(33)
		}
		b[pos] ^= byte(1 + r.Intn(255))
		segs, name := c11CutSegs(r, b, r.Intn(5))
		c11EmitParse(c, s.ks, segs, "corrupt-big|"+name+"|"+c11SizeBucket(len(s.msgs[0].payload)), "reject", nil)
	}
	// --- parse: length-field attacks (header decrypts to a chosen value)
	lens := []uint32{0, 1, 63, 64, 65, 67, 68, 100, 8<<20 - 1, 8 << 20, 8<<20 + 1, 16 << 20, 1 << 31, 1<<31 + 64, 1<<32 - 1, 1<<32 - 64}
	for _, l := range lens {
		for _, avail := range []int{0, 1, 63, 64, 65, 200} {
			ks := r.Bytes(4 + avail)
			plain := make([]byte, 4+avail)
			binary.LittleEndian.PutUint32(plain, l)
			body := r.Bytes(avail)
			if avail >= 64 && r.Bool() { // a valid checksum for the first 64.. bytes when the length allows
				n := int(l)
				if n >= 64 && n <= avail {
					sum := sha256.Sum256(body[:n-32])
					copy(body[n-32:], sum[:])
				}
			}
			copy(plain[4:], body)
			segs, _ := c11CutSegs(r, c11XorBytes(plain, ks), r.Pick([]int{0, 2}))
			want := ""
			if l < 64 || l > 8<<20 {
				want = "reject"
			}
			lb := "huge"
			switch {
			case l < 64:
				lb = "lt64"
			case l == 64:
				lb = "64"
			case l <= 200:
				lb = "small"
			case l == 8<<20-1:
				lb = "max-1"
			case l == 8<<20:
				lb = "max"
			case l == 8<<20+1:
				lb = "max+1"
			}
			ab := "short"
			if uint32(avail) >= l {
				ab = "enough"
			}
			c11EmitParse(c, ks, segs, "length|"+lb+"|"+ab, want, nil)
		}
	}
	// --- parse: random bytes
	for i := 0; i < c.Scale(30, 300); i++ {
		n := r.Intn(200)
		ks := r.Bytes(n)
		b := r.Bytes(n)
		if n >= 4 && r.Bool() { // plausible length
			plain := make([]byte, 4)
			binary.LittleEndian.PutUint32(plain, uint32(64+r.Intn(140)))
			copy(b, c11XorBytes(plain, ks[:4]))
		}
		segs, _ := c11CutSegs(r, b, r.Pick([]int{0, 2}))
		c11EmitParse(c, ks, segs, "random", "", nil)
	}

	// --- recv: packet sequences, segmentations, corruption / truncation of one frame
	for i := 0; i < c.Scale(60, 600); i++ {
		n := 1 + r.Intn(5)
		s := c11MakeStream(r, n, big)
		style := r.Intn(5)
		switch r.Intn(4) {
		case 0, 1:
			segs, name := c11CutSegs(r, s.cipher, style)
			c11EmitRecv(c, s.ks, segs, fmt.Sprintf("valid|%s|n%d", name, n), s.msgs)
		case 2: // corrupt frame j (outside its length field)
			j := r.Intn(n)
			b := append([]byte{}, s.cipher...)
			pos := s.starts[j] + 4 + r.Intn(s.starts[j+1]-s.starts[j]-4)
			b[pos] ^= byte(1 << uint(r.Intn(8)))
			segs, name := c11CutSegs(r, b, style)
			c11EmitRecv(c, s.ks, segs, fmt.Sprintf("corrupt|%s|frame%d", name, j), s.msgs[:j])
		case 3: // truncate inside frame j or at its start
			j := r.Intn(n)
			k := s.starts[j] + r.Intn(s.starts[j+1]-s.starts[j])
			segs, name := c11CutSegs(r, s.cipher[:k], style)
			c11EmitRecv(c, s.ks, segs, fmt.Sprintf("truncated|%s|frame%d", name, j), s.msgs[:j])
		}
	}

	// --- sessions against the reference server
	nSess := c.Scale(16, 150)
	for i := 0; i < nSess; i++ {
		// the first session carries a 64 KiB payload (client -> server only in
		// the quick tier: the extracted SHA-256 needs 1.6 s per 64 KiB)
		c11Session(c, r, big, i == 0 || (c.Thorough() && i%50 == 1), 0)
	}
	// the server's handshake confirmation split at every offset (sampled in the quick tier)
	splits := []int{1, 3, 4, 5, 35, 36, 37, 67}
	if c.Thorough() {
		splits = nil
		for k := 1; k <= 67; k++ {
			splits = append(splits, k)
		}
	}
	for _, k := range splits {
		c11Session(c, r, 40, false, k)
	}

	// --- several goroutines sending on one Connection
	genC11Concurrent(c)
	genC11Magic(c)
	genC11Multi(c)

	// --- the 8 MiB limit on the implementation only (the extracted model would need minutes)
	if c.Thorough() {
		c11Limit(c)
	}
}

func c11Session(c *Ctx, r *prng.R, big int, forceBig bool, hsSplit int) {
	b := c11SessionBuild(c, r, big, forceBig, hsSplit, nil)
	if b == nil {
		return
	}
	out := c.Emit("c11.session", b.in, b.class)
	c11SessionCheck(c, "c11.session", b.in, b, out)
}

type c11Built struct {
	in       sx.V
	class    string
	shc, shs []byte
	c2s, s2c []c11RefPacket
}

// c11SessionBuild draws one session (server key from sseed when given).
func c11SessionBuild(c *Ctx, r *prng.R, big int, forceBig bool, hsSplit int, sseed []byte) *c11Built {
	cseed, params := r.Bytes(32), r.Bytes(160)
	if sseed == nil {
		sseed = r.Bytes(32)
	}
	spriv := ed25519.NewKeyFromSeed(sseed)
	spub := []byte(spriv.Public().(ed25519.PublicKey))
	cpriv := ed25519.NewKeyFromSeed(cseed)
	cpub := []byte(cpriv.Public().(ed25519.PublicKey))
	shc, err1 := c11RefShared(cpriv, spub)
	shs, err2 := c11RefShared(spriv, cpub)
	if err1 != nil || err2 != nil {
		return nil
	}
	mk := func(n int, first bool) ([]c11RefPacket, int) {
		var ms []c11RefPacket
		total := 0
		for i := 0; i < n; i++ {
			sz := c11Size(r, big)
			if first && i == 0 {
				sz = 0 // the server's handshake reply is an empty packet
				if r.Chance(10) {
					sz = r.Intn(20)
				}
			}
			if forceBig && i == n-1 {
				sz = r.Pick([]int{65535, 65536})
				if first && !c.Thorough() {
					sz = r.Pick([]int{4095, 4096, 4097, 5000})
				}
			}
			ms = append(ms, c11RefPacket{nonce: r.Bytes(32), payload: r.Bytes(sz)})
			total += 68 + sz
		}
		return ms, total
	}
	nc, ns := r.Intn(5), 1+r.Intn(5)
	if forceBig {
		nc, ns = 2, 2
	}
	c2s, c2sTotal := mk(nc, false)
	s2c, s2cTotal := mk(ns, true)
	hash := sha256.Sum256(params)
	hkey := append(append([]byte{}, shc[0:16]...), hash[16:32]...)
	hiv := append(append([]byte{}, hash[0:4]...), shc[20:32]...)
	tab := sx.L(
		sx.L(sx.Bytes(hkey), sx.Bytes(hiv), sx.Bytes(c11KeystreamOf(hkey, hiv, 160))),
		sx.L(sx.Bytes(params[0:32]), sx.Bytes(params[64:80]), sx.Bytes(c11KeystreamOf(params[0:32], params[64:80], s2cTotal))),
		sx.L(sx.Bytes(params[32:64]), sx.Bytes(params[80:96]), sx.Bytes(c11KeystreamOf(params[32:64], params[80:96], c2sTotal))),
	)
	msx := func(ms []c11RefPacket) sx.V {
		var vs []sx.V
		for _, m := range ms {
			vs = append(vs, sx.L(sx.Bytes(m.nonce), sx.Bytes(m.payload)))
		}
		return sx.L(vs...)
	}
	var lens []sx.V
	style := r.Intn(4)
	rest := s2cTotal
	if hsSplit > 0 { // the confirmation arrives in two segments, cut after hsSplit bytes
		style = 4
		first := 68 + len(s2c[0].payload)
		if hsSplit >= first {
			hsSplit = first - 1
		}
		lens = append(lens, sx.Nat(hsSplit), sx.Nat(first-hsSplit))
		rest -= first
	}
	for rest > 0 && style > 0 && len(lens) < 400 {
		n := 1 + r.Intn(rest)
		if style == 2 {
			n = 1 + r.Intn(40)
		}
		if style == 3 {
			n = r.Pick([]int{4, 32, 36, 68, 1})
		}
		if n > rest {
			n = rest
		}
		lens = append(lens, sx.Nat(n))
		rest -= n
	}
	in := sx.L(sx.Bytes(sseed), sx.Bytes(spub), sx.Bytes(params), sx.Bytes(cseed), sx.Bytes(cpub), sx.Bytes(shc), sx.Bytes(shs),
		tab, msx(c2s), msx(s2c), sx.L(lens...))
	bk := "small"
	if forceBig {
		bk = "64k"
	}
	class := fmt.Sprintf("session|c2s%d|s2c%d|cut%d|%s", nc, ns, style, bk)
	if hsSplit > 0 {
		where := "nonce"
		switch {
		case hsSplit < 4:
			where = "in-length"
		case hsSplit == 4:
			where = "after-length"
		case hsSplit == 36:
			where = "after-nonce"
		case hsSplit > 36:
			where = "checksum"
		}
		class = "session|confirmation-split|" + where
	}
	return &c11Built{in: in, class: class, shc: shc, shs: shs, c2s: c2s, s2c: s2c}
}

// property oracle: the reference server accepts the handshake and recovers
// the parameters; every payload arrives in order and intact in both directions
// (whole = the case the failure is reported for, e.g. the enclosing c11.multi)
func c11SessionCheck(c *Ctx, kind string, whole sx.V, b *c11Built, out sx.V) {
	if !bytes.Equal(b.shc, b.shs) {
		c.Fail(kind, whole, "c11-dh", "X25519 secrets of the two sides differ")
	}
	if out.K != sx.KL || len(out.List) != 6 || !out.List[1].Bool {
		c.Fail(kind, whole, "c11-handshake", "the reference server does not complete the handshake: "+trunc(out.String(), 60))
		return
	}
	if !c11PayloadsEqual(out.List[4], b.s2c[1:]) {
		c.Fail(kind, whole, "c11-server-to-client", "payloads sent by the server were not delivered in order and intact")
	}
	fr := out.List[5]
	ok := len(fr.List) == len(b.c2s)
	for i := 0; ok && i < len(b.c2s); i++ {
		ok = bytes.Equal(fr.List[i].List[0].Bytes, b.c2s[i].nonce) && bytes.Equal(fr.List[i].List[1].Bytes, b.c2s[i].payload)
	}
	if !ok {
		c.Fail(kind, whole, "c11-client-to-server", "payloads sent by the client were not received in order and intact by the reference server")
	}
}

// sequences of connections from one process: servers drawn from a small pool
// (so that A, B, A and A, A occur), one key buffer reused or a fresh slice each
func genC11Multi(c *Ctx) {
	r := c.R
	for i := 0; i < c.Scale(6, 40); i++ {
		pool := [][]byte{r.Bytes(32), r.Bytes(32), r.Bytes(32)}
		n := 2 + r.Intn(4)
		reuse := i%2 == 0
		var bs []*c11Built
		var ins []sx.V
		pattern := ""
		for j := 0; j < n; j++ {
			k := r.Intn(len(pool))
			if j == 1 && i < 2 { // B right after A, and A right after A
				k = (int(pattern[0]-'A') + 1 - i) % len(pool)
			}
			b := c11SessionBuild(c, r, 120, false, 0, pool[k])
			if b == nil {
				continue
			}
			pattern += string(rune('A' + k))
			bs = append(bs, b)
			ins = append(ins, b.in)
		}
		in := sx.L(sx.B(reuse), sx.L(ins...))
		out := c.Emit("c11.multi", in, fmt.Sprintf("multi|reuse=%v|n%d", reuse, len(bs)))
		if out.K != sx.KL || len(out.List) != len(bs) {
			c.Fail("c11.multi", in, "c11-handshake", "sequence of connections "+pattern+": "+trunc(out.String(), 60))
			continue
		}
		eph := map[string]bool{}
		for j, b := range bs {
			c11SessionCheck(c, "c11.multi", in, b, out.List[j])
			if o := out.List[j]; o.K == sx.KL && len(o.List) > 0 && o.List[0].K == sx.KBytes && len(o.List[0].Bytes) == 256 {
				e := string(o.List[0].Bytes[32:64])
				if eph[e] {
					c.Fail("c11.multi", in, "c11-ephemeral-key", "sequence of connections "+pattern+": two handshakes carry the same ephemeral public key")
				}
				eph[e] = true
			}
		}
	}
}

// c11Limit: a payload of 8 MiB - 64 bytes round-trips, one byte more is
// marshalled by the sender and rejected by the receiver (length bound).
func c11Limit(c *Ctx) {
	for _, extra := range []int{0, 1} {
		n := 8<<20 - 64 + extra
		payload := make([]byte, n)
		for i := range payload {
			payload[i] = byte(i * 7)
		}
		nonce := c.R.Bytes(32)
		var frame []byte
		c11WithRand(nonce, func() {
			p, _ := liteclient.NewPacket(payload)
			frame = liteclient.VerifMarshalPacket(p)
		})
		ks := make([]byte, len(frame))
		p, err := liteclient.ParsePacket(bytes.NewReader(frame), &c11KsStream{ks: ks})
		in := sx.L(sx.Nat(n))
		if extra == 0 && (err != nil || !bytes.Equal(p.Payload, payload)) {
			c.Fail("c11.limit", in, "c11-limit", "a payload of 8 MiB - 64 bytes does not round-trip")
		}
		if extra == 1 && err == nil {
			c.Fail("c11.limit", in, "c11-limit", "a frame longer than 8 MiB was accepted")
		}
	}
}
