package main

// C12 (round 8)
//
// (1) c12.greet — the boundary between handshake and session on the wire.  The fake
//     server writes packets directly behind its handshake answer, in the SAME Write
//     (one TCP segment, one read of the client): unsolicited packets of every kind the
//     client must ignore (unknown magic, pong for an unknown id, answer for an unknown
//     id, auth nonce, an empty payload), bursts longer than a bufio buffer, and - on a
//     re-established connection - the ANSWERS of the calls that were in flight when the
//     old connection was dropped.  Every call must still receive its own answer, before
//     and after a reconnect, through the hook constructors and through the unmodified
//     NewConnection / NewClient (pinger running, pongs in the greeting).
//
// (2) c12.locks — re-entrant locking, read off today's source (go/ast over all non-test,
//     non-verif files of package liteclient): no function is called at a point where the
//     receiver's mu is held if that function (or anything it calls synchronously on the
//     same receiver) locks that mu itself; sync.Mutex is not re-entrant.  The same
//     obligation is stated over the translated data in coq/Properties/C12_gen_r8.v.
//
// Not done: a wall-clock scenario with a back-dated ping registry entry (needs an add-only hook).

import (
	"bytes"
	"context"
	"crypto/rand"
	"crypto/sha256"
	"fmt"
	"go/ast"
	"go/parser"
	"go/token"
	"os"
	"path/filepath"
	"reflect"
	"runtime"
	"sort"
	"strings"
	"sync"
	"time"

	"github.com/tonkeeper/tongo/liteclient"

	"verifharness/sx"
)

// ---- server: several packets in one Write ----

func (fc *c12Conn) sendBurst(payloads [][]byte) error {
	fc.wmu.Lock()
	defer fc.wmu.Unlock()
	if fc.mute {
		return nil
	}
	var out []byte
	for _, pl := range payloads {
		p, err := liteclient.NewPacket(pl)
		if err != nil {
			return err
		}
		b := liteclient.VerifMarshalPacket(p)
		fc.tx.XORKeyStream(b, b)
		out = append(out, b...)
	}
	fc.c.SetWriteDeadline(time.Now().Add(5 * time.Second))
	_, err := fc.c.Write(out)
	return err
}

func (s *c12Server) greeting(l *c12Ln) [][]byte {
	s.mu.Lock()
	g := s.greet
	s.mu.Unlock()
	if g == nil {
		return nil
	}
	l.mu.Lock()
	gen := l.gen + 1
	l.mu.Unlock()
	return g(l.k, gen)
}

// ---- (1) c12.greet ----

var c12GreetNames = []string{"unknown-magic", "pong", "unknown-id-answer", "nonce", "empty+short", "burst-5KiB", "pending-answers-only"}

func c12GreetPackets(variant, k, gen int) [][]byte {
	var unk [32]byte
	unk[0], unk[1], unk[31] = byte(variant), byte(k), byte(gen)
	switch variant {
	case 0:
		return [][]byte{c12Junk(6)}
	case 1:
		return [][]byte{c12Pong(1000 + gen)}
	case 2:
		return [][]byte{c12Answer(unk, c12Data(7<<11|40))}
	case 3:
		return [][]byte{c12Nonce()}
	case 4:
		return [][]byte{c12Junk(0), c12Junk(1), c12Junk(5)}
	case 5: // longer than the 4096 bytes of a bufio.Reader
		return [][]byte{c12Answer(unk, c12Data(1<<11|2047)), c12Pong(5), c12Answer(unk, c12Data(2<<11|2047)), c12Junk(6), c12Answer(unk, c12Data(3<<11|1200))}
	}
	return nil
}

// runC12Greet: nconn connections (real: the unmodified NewConnection with its pinger,
// pings answered), every connection of every generation is greeted.
func runC12Greet(variant, nconn int, real bool) (fails []c12Fail, bad string) {
	c12Quiet()
	const D = 4 * time.Second
	fail := func(key, what string) {
		fails = append(fails, c12Fail{key, fmt.Sprintf("greeting %s, %d connection(s), real constructors %v: %s", c12GreetNames[variant], nconn, real, what)})
	}
	srv, err := newC12Server(nconn)
	if err != nil {
		return nil, err.Error()
	}
	defer srv.close()
	srv.autoPong = real
	var pmu sync.Mutex
	pending := map[int][][]byte{} // listener -> answers owed to calls in flight when its connection went away
	srv.mu.Lock()
	srv.greet = func(k, gen int) [][]byte {
		ps := c12GreetPackets(variant, k, gen)
		pmu.Lock()
		ps = append(ps, pending[k]...)
		pending[k] = nil
		pmu.Unlock()
		return ps
	}
	srv.mu.Unlock()
	e := &c12Env{srv: srv, D: D}
	rand.Read(e.tag[:])
	for k := 0; k < nconn; k++ {
		ctx, cancel := context.WithTimeout(context.Background(), 5*time.Second)
		var conn *liteclient.Connection
		if real {
			conn, err = liteclient.NewConnection(ctx, srv.pub, srv.lns[k].ln.Addr().String())
		} else {
			conn, err = liteclient.VerifC12Dial(ctx, srv.pub, srv.lns[k].ln.Addr().String())
		}
		cancel()
		if err != nil {
			fail("handshake-with-greeting-fails", "the connection attempt fails when the server speaks right behind its handshake answer: "+err.Error())
			return fails, ""
		}
		e.conns = append(e.conns, conn)
	}
	if !c12Wait(2*time.Second, func() bool {
		for _, l := range srv.lns {
			if _, g := l.current(); g < 1 {
				return false
			}
		}
		return true
	}) {
		return nil, "handshake not completed"
	}
	if real {
		e.cl = liteclient.NewClient(e.conns[0], liteclient.OptionTimeout(D))
	} else {
		e.cl = liteclient.VerifNewClient(e.conns, D)
	}
	next := 0
	want := func(i int) []byte {
		h := sha256.Sum256(e.callKey(i))
		return append(h[:], byte(i))
	}
	// one call that the server answers as soon as it has seen the query; returns the
	// call and whether the server has seen it
	answered := func(phase string) (ok bool) {
		i := next
		next++
		c := e.startCall(i, 0)
		var q c12Query
		seen := c12Wait(D+c12Hang, func() bool {
			var ok bool
			q, ok = srv.query(c.key)
			return ok || c.returned()
		})
		if q2, ok := srv.query(c.key); ok {
			q, seen = q2, true
			srv.emit(q.k, c12Junk(i))
			srv.emit(q.k, c12Answer(q.id, want(i)))
		} else {
			seen = false
		}
		if !c.wait(D + c12Hang) {
			fail("call-hangs", fmt.Sprintf("%s: call %d has not returned %v after its start (client timeout %v)", phase, i, D+c12Hang, D))
			return false
		}
		switch {
		case c.err == nil && bytes.Equal(c.res, want(i)):
			return true
		case c.err == nil:
			fail("foreign-answer", fmt.Sprintf("%s: call %d returned %x, the server answered its query id with %x", phase, i, trunc(fmt.Sprintf("%x", c.res), 80), want(i)))
		case seen:
			fail("answer-lost-after-greeting", fmt.Sprintf("%s: call %d: %v after %v although the server answered its query id at once on the connection it arrived on (the packets behind the handshake answer desynchronised the session)", phase, i, c.err, c.dur.Round(time.Millisecond)))
		default:
			if c.class() == c12SendErr {
				return false // sent into a dropped connection: the caller decides
			}
			fail("query-never-arrived", fmt.Sprintf("%s: call %d: %v; the server never saw the query", phase, i, c.err))
		}
		return false
	}
	for n := 0; n < 2*nconn+1; n++ {
		if !answered("first session") && len(fails) > 0 {
			return fails, ""
		}
	}
	if len(fails) > 0 {
		return fails, ""
	}
	// calls in flight on every connection, then the server resets them all; the answers
	// are written behind the handshake answer of whichever connection comes back first
	var inflight []*c12Call
	for k := 0; k < nconn; k++ {
		i := next
		next++
		c := e.startCall(i, 0)
		if !c12Wait(2*time.Second, func() bool { _, ok := srv.query(c.key); return ok }) {
			fail("query-never-arrived", fmt.Sprintf("call %d: the server never saw the query", i))
			return fails, ""
		}
		inflight = append(inflight, c)
	}
	pmu.Lock()
	for _, c := range inflight {
		q, _ := srv.query(c.key)
		pending[0] = append(pending[0], c12Answer(q.id, want(c.i)))
	}
	pmu.Unlock()
	for k := nconn - 1; k >= 0; k-- {
		srv.drop(k, true)
	}
	// failed sends start reconnect(); a call that happens to go through is answered
	t0 := time.Now()
	for n := 0; ; n++ {
		i := next
		next++
		c := e.startCall(i, 0)
		c12Wait(300*time.Millisecond, func() bool { _, ok := srv.query(c.key); return ok || c.returned() })
		if q, ok := srv.query(c.key); ok {
			srv.emit(q.k, c12Answer(q.id, want(i)))
		}
		if !c.wait(D + c12Hang) {
			fail("call-hangs", fmt.Sprintf("after the reset: call %d has not returned %v after its start", i, D+c12Hang))
			return fails, ""
		}
		up := true
		for _, l := range srv.lns {
			if _, g := l.current(); g < 2 {
				up = false
			}
		}
		if up {
			break
		}
		if time.Since(t0) > 6*time.Second {
			fail("no-reconnect", "6 s after the server reset the connections and calls failed in send, not every connection has been re-established")
			return fails, ""
		}
		time.Sleep(20 * time.Millisecond)
	}
	for _, c := range inflight {
		if !c.wait(D + c12Hang) {
			fail("call-hangs", fmt.Sprintf("in-flight call %d has not returned %v after its start", c.i, D+c12Hang))
			continue
		}
		if c.err != nil || !bytes.Equal(c.res, want(c.i)) {
			fail("answer-behind-handshake-lost", fmt.Sprintf("call %d was in flight when the server reset the connection; the server wrote its answer directly behind the handshake answer of the re-established connection 0 (%v after the call started, client timeout %v): the call returned %v / %d bytes", c.i, time.Since(c.start).Round(time.Millisecond), D, c.err, len(c.res)))
		}
	}
	for n := 0; n < 2*nconn+1; n++ {
		answered("second session")
	}
	for _, conn := range e.conns {
		if _, ok := c12Status(conn); !ok {
			fail("connection-mutex-stuck", "Connection.mu is held for ever (Status() did not return)")
		}
	}
	if n := c12RegSize(e.cl); n != 0 {
		fail("registry-not-empty", fmt.Sprintf("%d entries in the registry after all calls returned", n))
	}
	return fails, ""
}

// ---- (2) c12.locks ----

type c12LockFn struct {
	recvType, recvName, name string
	locks                    bool // contains <recv>.mu.Lock() outside function literals
	// synchronous calls of methods on the same receiver / of package functions, with the lock state at the site
	calls []c12LockCall
}

type c12LockCall struct {
	target string
	method bool // <recv>.target(..): the callee runs on the same object
	held   bool
	line   int
}

func c12LiteclientDir() string {
	pc := reflect.ValueOf(liteclient.NewClient).Pointer()
	file, _ := runtime.FuncForPC(pc).FileLine(pc)
	return filepath.Dir(file)
}

// c12LockChecks: the mutex field is any field named mu / *Mutex of the receiver; the
// lock state is followed through the statements of a body in order (Lock / Unlock as
// statements, `defer x.Unlock()` keeps it held to the end; branches are walked with the
// state at their entry, and the state after an if/for/switch is the state before it unless
// every path ... kept simple: the state after a compound statement is the state before
// it, which is exact for the lock discipline of this package: Unlock-and-return branches).
func c12LockChecks() (fails []c12Fail, nfuncs, nheld int) {
	dir := c12LiteclientDir()
	ents, err := os.ReadDir(dir)
	if err != nil {
		return []c12Fail{{"harness-error", "read " + dir + ": " + err.Error()}}, 0, 0
	}
	fset := token.NewFileSet()
	var fns []*c12LockFn
	for _, e := range ents {
		n := e.Name()
		if !strings.HasSuffix(n, ".go") || strings.HasSuffix(n, "_test.go") || strings.HasPrefix(n, "verif_hooks") {
			continue
		}
		f, err := parser.ParseFile(fset, filepath.Join(dir, n), nil, 0)
		if err != nil {
			return []c12Fail{{"harness-error", "parse " + n + ": " + err.Error()}}, 0, 0
		}
		for _, d := range f.Decls {
			fd, ok := d.(*ast.FuncDecl)
			if !ok || fd.Body == nil {
				continue
			}
			fn := &c12LockFn{name: fd.Name.Name}
			if fd.Recv != nil && len(fd.Recv.List) == 1 {
				t := fd.Recv.List[0].Type
				if st, ok := t.(*ast.StarExpr); ok {
					t = st.X
				}
				if id, ok := t.(*ast.Ident); ok {
					fn.recvType = id.Name
				}
				if len(fd.Recv.List[0].Names) == 1 {
					fn.recvName = fd.Recv.List[0].Names[0].Name
				}
			}
			c12LockWalk(fset, fn, fd.Body)
			fns = append(fns, fn)
		}
	}
	// per mutex name: the state is tracked per (receiver, field); callee "locks field F" if it
	// has a Lock of F on its receiver, or calls synchronously a method of its receiver that does
	type key struct{ typ, name string }
	byKey := map[key]*c12LockFn{}
	for _, fn := range fns {
		byKey[key{fn.recvType, fn.name}] = fn
	}
	var locksT func(fn *c12LockFn, seen map[*c12LockFn]bool) []string
	locksT = func(fn *c12LockFn, seen map[*c12LockFn]bool) []string {
		if seen[fn] {
			return nil
		}
		seen[fn] = true
		if fn.locks {
			return []string{fn.name}
		}
		for _, c := range fn.calls {
			if !c.method {
				continue
			}
			if g := byKey[key{fn.recvType, c.target}]; g != nil {
				if p := locksT(g, seen); p != nil {
					return append([]string{fn.name}, p...)
				}
			}
		}
		return nil
	}
	for _, fn := range fns {
		nfuncs++
		for _, c := range fn.calls {
			if !c.held || !c.method {
				continue
			}
			nheld++
			g := byKey[key{fn.recvType, c.target}]
			if g == nil {
				continue
			}
			if p := locksT(g, map[*c12LockFn]bool{}); p != nil {
				fails = append(fails, c12Fail{"reentrant-lock", fmt.Sprintf("(*%s).%s calls %s.%s() at line %d while it holds %s.mu, and %s locks the same mutex (sync.Mutex is not re-entrant): the goroutine blocks for ever holding the lock, every Send / Status / reconnect of the connection blocks behind it",
					fn.recvType, fn.name, fn.recvName, c.target, c.line, fn.recvName, strings.Join(p, " -> "))})
			}
		}
	}
	// not vacuous
	found := map[string]bool{}
	for _, fn := range fns {
		if fn.recvType == "Connection" && fn.locks {
			found[fn.name] = true
		}
		if fn.recvType == "Connection" && fn.name == "handleAuthResponse" {
			for _, c := range fn.calls {
				if c.target == "sendAuthComplete" && c.held {
					found["held-call"] = true
				}
			}
		}
	}
	var missing []string
	for _, n := range []string{"Send", "registerPing", "processPong", "setAverageRoundTrip", "Status", "reconnect", "handleAuthResponse", "held-call"} {
		if !found[n] {
			missing = append(missing, n)
		}
	}
	if len(missing) > 0 {
		sort.Strings(missing)
		fails = append(fails, c12Fail{"source-structure", "the lock analysis does not find the mutex sections it expects in connection.go (the source changed; review harness c12_r8.go): " + strings.Join(missing, ", ")})
	}
	return fails, nfuncs, nheld
}

// r.<field>.Lock / Unlock / RLock / RUnlock on the receiver's mutex field "mu"
func c12MuOp(e ast.Expr, recv string) string {
	call, ok := e.(*ast.CallExpr)
	if !ok || recv == "" {
		return ""
	}
	sel, ok := call.Fun.(*ast.SelectorExpr)
	if !ok {
		return ""
	}
	inner, ok := sel.X.(*ast.SelectorExpr)
	if !ok || inner.Sel.Name != "mu" {
		return ""
	}
	if id, ok := inner.X.(*ast.Ident); !ok || id.Name != recv {
		return ""
	}
	return sel.Sel.Name
}

func c12LockWalk(fset *token.FileSet, fn *c12LockFn, body *ast.BlockStmt) {
	// calls inside an expression / simple statement, skipping function literals
	collect := func(n ast.Node, held bool) {
		if n == nil {
			return
		}
		ast.Inspect(n, func(m ast.Node) bool {
			switch x := m.(type) {
			case *ast.FuncLit:
				return false
			case *ast.CallExpr:
				switch f := x.Fun.(type) {
				case *ast.Ident:
					fn.calls = append(fn.calls, c12LockCall{target: f.Name, held: held, line: fset.Position(x.Pos()).Line})
				case *ast.SelectorExpr:
					if id, ok := f.X.(*ast.Ident); ok && id.Name == fn.recvName && fn.recvName != "" {
						fn.calls = append(fn.calls, c12LockCall{target: f.Sel.Name, method: true, held: held, line: fset.Position(x.Pos()).Line})
					}
				}
			}
			return true
		})
	}
	var block func(list []ast.Stmt, held bool) bool
	var stmt func(s ast.Stmt, held bool) bool
	block = func(list []ast.Stmt, held bool) bool {
		for _, s := range list {
			held = stmt(s, held)
		}
		return held
	}
	stmt = func(s ast.Stmt, held bool) bool {
		switch x := s.(type) {
		case *ast.ExprStmt:
			switch c12MuOp(x.X, fn.recvName) {
			case "Lock", "RLock":
				fn.locks = true
				return true
			case "Unlock", "RUnlock":
				return false
			}
			collect(x, held)
		case *ast.DeferStmt, *ast.GoStmt:
			// runs later / elsewhere: the arguments are evaluated here
			var call *ast.CallExpr
			if d, ok := x.(*ast.DeferStmt); ok {
				call = d.Call
			} else {
				call = x.(*ast.GoStmt).Call
			}
			for _, a := range call.Args {
				collect(a, held)
			}
		case *ast.BlockStmt:
			return block(x.List, held)
		case *ast.IfStmt:
			if x.Init != nil {
				held = stmt(x.Init, held)
			}
			collect(x.Cond, held)
			block(x.Body.List, held)
			if x.Else != nil {
				stmt(x.Else, held)
			}
		case *ast.ForStmt:
			if x.Init != nil {
				held = stmt(x.Init, held)
			}
			collect(x.Cond, held)
			if x.Post != nil {
				stmt(x.Post, held)
			}
			block(x.Body.List, held)
		case *ast.RangeStmt:
			collect(x.X, held)
			block(x.Body.List, held)
		case *ast.SwitchStmt:
			if x.Init != nil {
				held = stmt(x.Init, held)
			}
			collect(x.Tag, held)
			for _, cc := range x.Body.List {
				c := cc.(*ast.CaseClause)
				for _, e := range c.List {
					collect(e, held)
				}
				block(c.Body, held)
			}
		case *ast.TypeSwitchStmt:
			for _, cc := range x.Body.List {
				block(cc.(*ast.CaseClause).Body, held)
			}
		case *ast.SelectStmt:
			for _, cc := range x.Body.List {
				c := cc.(*ast.CommClause)
				if c.Comm != nil {
					stmt(c.Comm, held)
				}
				block(c.Body, held)
			}
		case *ast.LabeledStmt:
			return stmt(x.Stmt, held)
		default:
			collect(s, held)
		}
		return held
	}
	block(body.List, false)
}

// ---- hook into genC12 ----

type c12R8 struct {
	greet chan []c12GreetRes
}

type c12GreetRes struct {
	variant, nconn int
	real           bool
	fails          []c12Fail
	bad            string
}

func c12R8Start(c *Ctx) *c12R8 {
	r := &c12R8{greet: make(chan []c12GreetRes, 1)}
	type cfg struct {
		variant, nconn int
		real           bool
	}
	var cfgs []cfg
	for v := 0; v <= 6; v++ {
		cfgs = append(cfgs, cfg{v, 1 + v%2, false})
		if true { // the unmodified constructors too (25 ms each)
			cfgs = append(cfgs, cfg{v, 1, true})
		}
		if c.Thorough() {
			cfgs = append(cfgs, cfg{v, 2 - v%2, false}, cfg{v, 3, false})
		}
	}
	go func() {
		res := make([]c12GreetRes, len(cfgs))
		var wg sync.WaitGroup
		for i, g := range cfgs {
			wg.Add(1)
			go func(i int, g cfg) {
				defer wg.Done()
				res[i] = c12GreetRes{variant: g.variant, nconn: g.nconn, real: g.real}
				defer func() {
					if p := recover(); p != nil {
						res[i].bad = fmt.Sprintf("panic: %v", p)
					}
				}()
				res[i].fails, res[i].bad = runC12Greet(g.variant, g.nconn, g.real)
			}(i, g)
		}
		wg.Wait()
		r.greet <- res
	}()
	none := sx.L()
	lf, nf, nh := c12LockChecks()
	c.Note("c12.locks", fmt.Sprintf("locks|functions-%s|held-calls-%s", c12Bucket(nf), c12Bucket(nh)), none)
	for _, f := range lf {
		c.Fail("c12.locks", none, f.key, f.what)
	}
	return r
}

func c12R8Finish(c *Ctx, r *c12R8) {
	for _, g := range <-r.greet {
		in := sx.L(sx.Nat(g.variant), sx.Nat(g.nconn), sx.B(g.real))
		c.Note("c12.greet", fmt.Sprintf("greet|%s|c%d|real-%v", c12GreetNames[g.variant], g.nconn, g.real), in)
		if g.bad != "" && len(g.fails) == 0 {
			fmt.Fprintf(os.Stderr, "c12: greet: harness error: %s\n", g.bad)
			c.Fail("c12.greet", in, "harness-error", g.bad)
		}
		for _, f := range g.fails {
			c.Fail("c12.greet", in, f.key, f.what)
		}
	}
}
