// run is the implementation side of the correspondence check: it generates
// cases from one PRNG, executes them on tonkeeper/tongo (current working tree
// of /repo, hooks enabled) and writes the inputs and canonical results, so that
// the extracted Coq model can be run on exactly the same inputs.
package main

import (
	"bufio"
	"encoding/json"
	"flag"
	"fmt"
	"os"
	"path/filepath"
	"sort"
	"strings"
	"time"

	"verifharness/prng"
	"verifharness/sx"
)

// Exec runs one case kind on the implementation.
type Exec func(in sx.V) sx.V

var execs = map[string]Exec{}

// Gen generates the cases of one property.
type Gen func(c *Ctx)

var gens = map[string]Gen{}

type OracleFail struct {
	Kind  string `json:"kind"`
	Input string `json:"input"`
	What  string `json:"what"`
	Key   string `json:"key"` // stable key used by known_findings.txt
}

type Ctx struct {
	R       *prng.R
	Tier    string
	Seed    uint64
	cases   *bufio.Writer
	impl    *bufio.Writer
	classes map[string]int
	samples map[string]string
	fails   []OracleFail
	n       int
}

func (c *Ctx) Thorough() bool { return c.Tier == "thorough" }

// Scale picks a case count by tier.
func (c *Ctx) Scale(quick, thorough int) int {
	if c.Thorough() {
		return thorough
	}
	return quick
}

func safeExec(kind string, in sx.V) (out sx.V) {
	defer func() {
		if r := recover(); r != nil {
			out = sx.A("panic")
		}
	}()
	f, ok := execs[kind]
	if !ok {
		return sx.L(sx.A("harness-error"), sx.A("no-exec"))
	}
	return f(in)
}

// Emit runs the case on the implementation and records it; class is the
// coverage class of the case (input class; the outcome class is appended).
func (c *Ctx) Emit(kind string, in sx.V, class string) sx.V {
	return c.emit(kind, in, class, false)
}

// EmitGuarded is Emit in a child process with a memory limit and a timeout.
func (c *Ctx) EmitGuarded(kind string, in sx.V, class string) sx.V {
	return c.emit(kind, in, class, true)
}

func (c *Ctx) emit(kind string, in sx.V, class string, guarded bool) sx.V {
	var out sx.V
	if guarded {
		out = guardedExec(kind, in, 20*time.Second)
	} else {
		out = safeExec(kind, in)
	}
	ins := in.String()
	outs := out.String()
	fmt.Fprintf(c.cases, "%s %s\n", kind, ins)
	fmt.Fprintf(c.impl, "%s\n", outs)
	oc := "ok"
	if strings.Contains(outs, "'crash") || strings.Contains(outs, "'timeout") {
		oc = "crash"
	} else if strings.Contains(outs, "'panic") {
		oc = "panic"
	} else if strings.Contains(outs, "'err") {
		oc = "err"
	}
	k := kind + "|" + class + "|" + oc
	c.classes[k]++
	if _, ok := c.samples[k]; !ok && len(ins) < 400 {
		c.samples[k] = kind + " " + ins + " => " + trunc(outs, 200)
	}
	c.n++
	return out
}

func trunc(s string, n int) string {
	if len(s) > n {
		return s[:n] + "..."
	}
	return s
}

// Fail records a property-oracle failure on the implementation.
func (c *Ctx) Fail(kind string, in sx.V, key, what string) {
	c.fails = append(c.fails, OracleFail{Kind: kind, Input: in.String(), What: what, Key: key})
}

// Note counts a case that only the property oracle on the implementation
// decides (too large or not meaningful for the extracted model): it enters the
// coverage classes and the evaluation count but is not sent to the model.
func (c *Ctx) Note(kind, class string, in sx.V) {
	k := kind + "|" + class + "|oracle-only"
	c.classes[k]++
	if _, ok := c.samples[k]; !ok {
		c.samples[k] = kind + " " + trunc(in.String(), 300) + " (oracle on the implementation only)"
	}
	c.n++
}

func main() {
	if len(os.Args) < 2 {
		fmt.Fprintln(os.Stderr, "usage: run gen|exec ...")
		os.Exit(2)
	}
	switch os.Args[1] {
	case "gen":
		fs := flag.NewFlagSet("gen", flag.ExitOnError)
		prop := fs.String("prop", "", "property id")
		seed := fs.Uint64("seed", 1, "seed")
		tier := fs.String("tier", "quick", "quick|thorough")
		out := fs.String("out", "", "output directory")
		fs.Parse(os.Args[2:])
		g, ok := gens[*prop]
		if !ok {
			fmt.Fprintf(os.Stderr, "no generator for %s\n", *prop)
			os.Exit(2)
		}
		os.MkdirAll(*out, 0o755)
		cf, _ := os.Create(filepath.Join(*out, "cases.txt"))
		inf, _ := os.Create(filepath.Join(*out, "impl.txt"))
		c := &Ctx{R: prng.New(*seed), Tier: *tier, Seed: *seed,
			cases: bufio.NewWriterSize(cf, 1<<20), impl: bufio.NewWriterSize(inf, 1<<20),
			classes: map[string]int{}, samples: map[string]string{}}
		g(c)
		stopGuard()
		c.cases.Flush()
		c.impl.Flush()
		cf.Close()
		inf.Close()
		var keys []string
		for k := range c.classes {
			keys = append(keys, k)
		}
		sort.Strings(keys)
		var samples []string
		for i, k := range keys {
			if s, ok := c.samples[k]; ok && (i%(len(keys)/12+1) == 0) {
				samples = append(samples, s)
			}
		}
		meta := map[string]any{"evaluations": c.n, "classes": c.classes, "distinct_classes": len(c.classes),
			"samples": samples, "oracle_failures": append([]OracleFail{}, c.fails...)}
		b, _ := json.MarshalIndent(meta, "", " ")
		os.WriteFile(filepath.Join(*out, "meta.json"), b, 0o644)
	case "exec":
		applyRlimitFromEnv()
		// stdin: lines "<kind> <sexpr>"; stdout: one result per line
		rd := bufio.NewReaderSize(os.Stdin, 1<<20)
		w := bufio.NewWriter(os.Stdout)
		defer w.Flush()
		for {
			line, err := rd.ReadString('\n')
			line = strings.TrimRight(line, "\n")
			if line != "" {
				i := strings.IndexByte(line, ' ')
				if i < 0 {
					fmt.Fprintln(w, "('harness-error 'noarg)")
				} else {
					v, perr := sx.Parse(line[i+1:])
					if perr != nil {
						fmt.Fprintln(w, "('harness-error 'parse)")
					} else {
						fmt.Fprintln(w, safeExec(line[:i], v).String())
					}
				}
				w.Flush()
			}
			if err != nil {
				break
			}
		}
	default:
		fmt.Fprintln(os.Stderr, "unknown mode")
		os.Exit(2)
	}
}
