package main

// C11, concurrent senders: Connection.Send is called by any number of
// goroutines on one connection (Client requests, the ping loop); c.mu around
// encrypt + write is what keeps the tx AES-CTR stream one continuous stream.
//
//   c11.csend  (keystream (queueA queueB) schedule)   deterministic: a transport that holds the
//              first Write until a second Write has gone through (or 100 ms); with the mutex the
//              second sender cannot get there.  Observed: wire bytes, order of XORKeyStream / Write calls.
//   c11.conc   (session material, reply, sender queues, schedule)   N goroutines x K packets through the
//              real handshake to the reference server on loopback; observed: what the server decodes, per sender.
//   c11.stress (seed senders per_sender size)   the same, larger, implementation only.

import (
	"bytes"
	"context"
	"crypto/ed25519"
	"crypto/sha256"
	"fmt"
	"io"
	"net"
	"os"
	"sync"
	"time"

	"github.com/tonkeeper/tongo/liteclient"

	"verifharness/prng"
	"verifharness/sx"
)

// ---------- deterministic variant: recording transport and cipher ----------

type c11Trace struct {
	mu       sync.Mutex
	ev       []sx.V
	wire     []byte
	writes   int
	inFirst  chan struct{}
	overtook chan struct{}
}

type c11RecStream struct {
	t  *c11Trace
	ks []byte
}

func (s *c11RecStream) XORKeyStream(dst, src []byte) {
	s.t.mu.Lock()
	s.t.ev = append(s.t.ev, sx.L(sx.B(true), sx.Nat(len(src))))
	n := len(src)
	if n > len(s.ks) {
		n = len(s.ks)
	}
	ks := s.ks[:n]
	s.ks = s.ks[n:]
	s.t.mu.Unlock()
	for i := range src {
		var k byte
		if i < len(ks) {
			k = ks[i]
		}
		dst[i] = src[i] ^ k
	}
}

type c11RecConn struct {
	c11FakeConn
	t *c11Trace
}

func (c *c11RecConn) Write(b []byte) (int, error) {
	c.t.mu.Lock()
	c.t.writes++
	n := c.t.writes
	c.t.mu.Unlock()
	if n == 1 {
		close(c.t.inFirst)
		select {
		case <-c.t.overtook:
		case <-time.After(100 * time.Millisecond):
		}
	}
	c.t.mu.Lock()
	c.t.wire = append(c.t.wire, b...)
	c.t.ev = append(c.t.ev, sx.L(sx.B(false), sx.Nat(len(b))))
	c.t.mu.Unlock()
	if n == 2 {
		close(c.t.overtook)
	}
	return len(b), nil
}

func c11Queues(v sx.V) [][]c11RefPacket {
	var qs [][]c11RefPacket
	for _, q := range v.List {
		qs = append(qs, c11MsgsOf(q))
	}
	return qs
}

// packets of all queues, created in queue-major order with the given nonces
func c11Packets(qs [][]c11RefPacket) [][]liteclient.Packet {
	ps := make([][]liteclient.Packet, len(qs))
	for i, q := range qs {
		for _, m := range q {
			p, err := liteclient.NewPacket(append([]byte{}, m.payload...))
			if err != nil {
				panic(err)
			}
			ps[i] = append(ps[i], p)
		}
	}
	return ps
}

func c11AllNonces(qs [][]c11RefPacket) []byte {
	var rnd []byte
	for _, q := range qs {
		for _, m := range q {
			rnd = append(rnd, m.nonce...)
		}
	}
	return rnd
}

func execC11CSend(in sx.V) sx.V {
	qs := c11Queues(in.List[1])
	if len(qs) != 2 || len(qs[0]) != 1 {
		return sx.L(sx.A("harness-error"), sx.A("csend-shape"))
	}
	t := &c11Trace{inFirst: make(chan struct{}), overtook: make(chan struct{})}
	conn := liteclient.VerifConnectionOver(&c11RecConn{t: t}, &c11RecStream{t: t, ks: append([]byte{}, in.List[0].Bytes...)})
	var ps [][]liteclient.Packet
	c11WithRand(c11AllNonces(qs), func() { ps = c11Packets(qs) })
	var wg sync.WaitGroup
	failed := make([]bool, 2)
	send := func(i int) {
		defer wg.Done()
		defer func() {
			if r := recover(); r != nil {
				failed[i] = true
			}
		}()
		for _, p := range ps[i] {
			if err := conn.Send(p); err != nil {
				failed[i] = true
			}
		}
	}
	wg.Add(2)
	go send(0)
	select {
	case <-t.inFirst: // the first sender has encrypted its frame and is inside Write
	case <-time.After(10 * time.Second):
		return sx.L(sx.A("err"))
	}
	go send(1)
	wg.Wait()
	if failed[0] || failed[1] {
		return sx.L(sx.A("err"))
	}
	t.mu.Lock()
	defer t.mu.Unlock()
	return sx.L(sx.Bytes(t.wire), sx.L(t.ev...))
}

// ---------- concurrent senders through the real handshake ----------

type c11ConcResult struct {
	connected bool
	accepted  bool
	complete  bool
	frames    []c11RefPacket
	sendErr   bool
}

func c11RunConc(sseed, spub, rnd []byte, reply c11RefPacket, qs [][]c11RefPacket, limit time.Duration) (res c11ConcResult) {
	spriv := ed25519.NewKeyFromSeed(sseed)
	if c11Listener == nil {
		l, err := net.Listen("tcp", "127.0.0.1:0")
		if err != nil {
			return
		}
		c11Listener = l
	}
	total := 0
	for _, q := range qs {
		for _, m := range q {
			total += 68 + len(m.payload)
		}
	}
	done := make(chan struct{})
	go func() {
		defer close(done)
		conn, err := c11Listener.Accept()
		if err != nil {
			return
		}
		defer conn.Close()
		_ = conn.SetDeadline(time.Now().Add(limit))
		hs := make([]byte, 256)
		if _, err := io.ReadFull(conn, hs); err != nil {
			return
		}
		p, ok := c11RefAccept(spriv, hs)
		if !ok {
			return
		}
		res.accepted = true
		tx := c11AesCTR(p[0:32], p[64:80])
		rx := c11AesCTR(p[32:64], p[80:96])
		f := c11RefFrame(reply.nonce, reply.payload)
		tx.XORKeyStream(f, f)
		if _, err := conn.Write(f); err != nil {
			return
		}
		// read everything the senders write, whether or not it decodes, so
		// that no Send fails on a closed socket
		buf := make([]byte, total)
		n, _ := io.ReadFull(conn, buf)
		plain := make([]byte, n)
		rx.XORKeyStream(plain, buf[:n])
		res.frames, res.complete = c11RefSplit(plain)
		res.complete = res.complete && n == total
	}()
	c11WithRand(rnd, func() {
		ctx, cancel := context.WithTimeout(context.Background(), limit)
		defer cancel()
		v, err := liteclient.VerifDial(ctx, spub, c11Listener.Addr().String())
		if err != nil {
			return
		}
		defer v.Close()
		res.connected = true
		ps := c11Packets(qs)
		conn := v.Connection()
		start := make(chan struct{})
		var wg sync.WaitGroup
		var mu sync.Mutex
		for i := range ps {
			wg.Add(1)
			go func(i int) {
				defer wg.Done()
				defer func() {
					if r := recover(); r != nil {
						mu.Lock()
						res.sendErr = true
						mu.Unlock()
					}
				}()
				<-start
				for _, p := range ps[i] {
					if err := conn.Send(p); err != nil {
						mu.Lock()
						res.sendErr = true
						mu.Unlock()
					}
				}
			}(i)
		}
		close(start)
		wg.Wait()
		<-done // the server has read everything (or ran into its deadline)
	})
	<-done
	return
}

// per-sender payload lists as decoded by the server (payload[0] = sender id)
func c11Group(frames []c11RefPacket, n int) [][][]byte {
	g := make([][][]byte, n)
	for _, f := range frames {
		if len(f.payload) > 0 && int(f.payload[0]) < n {
			g[f.payload[0]] = append(g[f.payload[0]], f.payload)
		}
	}
	return g
}

func c11GroupOK(g [][][]byte, qs [][]c11RefPacket) bool {
	for i, q := range qs {
		if len(g[i]) != len(q) {
			return false
		}
		for j, m := range q {
			if !bytes.Equal(g[i][j], m.payload) {
				return false
			}
		}
	}
	return true
}

// the concurrent runs execute in a child process: a fatal error in a goroutine
// of the library (it cannot be recovered here) becomes the outcome 'crash
func execC11Conc(in sx.V) sx.V {
	if os.Getenv("VERIF_C11_CHILD") != "1" {
		return c11RunChild("c11.conc "+in.String(), 60*time.Second)
	}
	a := in.List
	qs := c11Queues(a[9])
	reply := c11RefPacket{nonce: a[8].List[0].Bytes, payload: a[8].List[1].Bytes}
	var rnd []byte
	rnd = append(rnd, a[2].Bytes...)
	rnd = append(rnd, a[3].Bytes...)
	rnd = append(rnd, c11AllNonces(qs)...)
	res := c11RunConc(a[0].Bytes, a[1].Bytes, rnd, reply, qs, 6*time.Second)
	if !res.accepted {
		return sx.L(sx.A("server-rejects"))
	}
	if res.sendErr {
		return sx.L(sx.A("err"))
	}
	var groups []sx.V
	for _, g := range c11Group(res.frames, len(qs)) {
		var ps []sx.V
		for _, p := range g {
			ps = append(ps, sx.Bytes(p))
		}
		groups = append(groups, sx.L(ps...))
	}
	return sx.L(sx.B(res.connected), sx.B(res.complete), sx.Nat(len(res.frames)), sx.L(groups...))
}

func c11StressQueues(r *prng.R, n, k, size int) [][]c11RefPacket {
	qs := make([][]c11RefPacket, n)
	for i := range qs {
		for j := 0; j < k; j++ {
			sz := size
			if r.Chance(30) {
				sz = 2 + r.Intn(size)
			}
			p := r.Bytes(sz)
			p[0], p[1] = byte(i), byte(j)
			qs[i] = append(qs[i], c11RefPacket{nonce: r.Bytes(32), payload: p})
		}
	}
	return qs
}

func execC11Stress(in sx.V) sx.V {
	if os.Getenv("VERIF_C11_CHILD") != "1" {
		return c11RunChild("c11.stress "+in.String(), 90*time.Second)
	}
	r := prng.New(in.List[0].U64())
	n, k, size := in.List[1].I(), in.List[2].I(), in.List[3].I()
	sseed, cseed, params := r.Bytes(32), r.Bytes(32), r.Bytes(160)
	spub := []byte(ed25519.NewKeyFromSeed(sseed).Public().(ed25519.PublicKey))
	qs := c11StressQueues(r, n, k, size)
	var rnd []byte
	rnd = append(rnd, params...)
	rnd = append(rnd, cseed...)
	rnd = append(rnd, c11AllNonces(qs)...)
	res := c11RunConc(sseed, spub, rnd, c11RefPacket{nonce: r.Bytes(32)}, qs, 30*time.Second)
	ok := res.accepted && !res.sendErr && c11GroupOK(c11Group(res.frames, n), qs)
	return sx.L(sx.B(res.connected), sx.B(res.complete), sx.Nat(len(res.frames)), sx.B(ok))
}

// ---------- generators ----------

func c11SchedSx(sched [][2]int) sx.V {
	names := []string{"L", "E", "W", "U"}
	var vs []sx.V
	for _, s := range sched {
		vs = append(vs, sx.L(sx.Nat(s[0]), sx.A(names[s[1]])))
	}
	return sx.L(vs...)
}

func c11QueuesSx(qs [][]c11RefPacket) sx.V {
	var vs []sx.V
	for _, q := range qs {
		var ms []sx.V
		for _, m := range q {
			ms = append(ms, sx.L(sx.Bytes(m.nonce), sx.Bytes(m.payload)))
		}
		vs = append(vs, sx.L(ms...))
	}
	return sx.L(vs...)
}

func genC11Concurrent(c *Ctx) {
	r := c.R
	// (b) deterministic: sender 0 is held inside its Write, sender 1 tries to overtake
	for i := 0; i < c.Scale(4, 20); i++ {
		nb := 1 + r.Intn(3)
		qs := [][]c11RefPacket{{{nonce: r.Bytes(32), payload: r.Bytes(c11Size(r, 300))}}, nil}
		total := 68 + len(qs[0][0].payload)
		for j := 0; j < nb; j++ {
			m := c11RefPacket{nonce: r.Bytes(32), payload: r.Bytes(c11Size(r, 300))}
			qs[1] = append(qs[1], m)
			total += 68 + len(m.payload)
		}
		// what the mutex admits: sender 1's attempts are blocked until sender 0 unlocks
		sched := [][2]int{{0, 0}, {0, 1}, {1, 0}, {1, 1}, {0, 2}, {1, 0}, {1, 2}, {0, 3}}
		for j := 0; j < nb; j++ {
			sched = append(sched, [2]int{1, 0}, [2]int{0, 0}, [2]int{1, 1}, [2]int{1, 2}, [2]int{1, 3})
		}
		ks := r.Bytes(total)
		in := sx.L(sx.Bytes(ks), c11QueuesSx(qs), c11SchedSx(sched))
		out := c.Emit("c11.csend", in, fmt.Sprintf("csend|second%d", nb))
		// oracle: the peer decodes the wire into the packets in lock order,
		// and encrypt / write calls alternate strictly
		ok := out.K == sx.KL && len(out.List) == 2 && out.List[0].K == sx.KBytes && len(out.List[0].Bytes) == total
		if ok {
			frames, complete := c11RefSplit(c11XorBytes(out.List[0].Bytes, ks))
			want := append(append([]c11RefPacket{}, qs[0]...), qs[1]...)
			ok = complete && len(frames) == len(want)
			for j := 0; ok && j < len(want); j++ {
				ok = bytes.Equal(frames[j].payload, want[j].payload) && bytes.Equal(frames[j].nonce, want[j].nonce)
			}
			ev := out.List[1].List
			ok = ok && len(ev) == 2*len(want)
			for j := 0; ok && j < len(ev); j++ {
				ok = ev[j].List[0].Bool == (j%2 == 0)
			}
		}
		if !ok {
			c.Fail("c11.csend", in, "c11-concurrent-send", "two goroutines sending on one Connection: the second entered encrypt/write before the first Write returned; the peer cannot decode the stream in lock order")
		}
	}
	// (a) N goroutines x K packets through the real handshake, compared with the model
	for i := 0; i < c.Scale(6, 40); i++ {
		n, k := 2+r.Intn(7), 1+r.Intn(4)
		qs := c11StressQueues(r, n, k, 2+c11Size(r, c.Scale(400, 3000)))
		var sched [][2]int
		for t := 0; t < 6*n*k; t++ {
			sched = append(sched, [2]int{r.Intn(n), r.Intn(4)})
		}
		for j := 0; j < n; j++ { // whoever holds the mutex finishes
			sched = append(sched, [2]int{j, 1}, [2]int{j, 2}, [2]int{j, 3})
		}
		for j := 0; j < n; j++ {
			for t := 0; t < k; t++ {
				sched = append(sched, [2]int{j, 0}, [2]int{j, 1}, [2]int{j, 2}, [2]int{j, 3})
			}
		}
		sseed, cseed, params := r.Bytes(32), r.Bytes(32), r.Bytes(160)
		spriv := ed25519.NewKeyFromSeed(sseed)
		spub := []byte(spriv.Public().(ed25519.PublicKey))
		cpriv := ed25519.NewKeyFromSeed(cseed)
		cpub := []byte(cpriv.Public().(ed25519.PublicKey))
		shc, err1 := c11RefShared(cpriv, spub)
		shs, err2 := c11RefShared(spriv, cpub)
		if err1 != nil || err2 != nil {
			continue
		}
		total := 0
		for _, q := range qs {
			for _, m := range q {
				total += 68 + len(m.payload)
			}
		}
		reply := c11RefPacket{nonce: r.Bytes(32)}
		hash := sha256.Sum256(params)
		hkey := append(append([]byte{}, shc[0:16]...), hash[16:32]...)
		hiv := append(append([]byte{}, hash[0:4]...), shc[20:32]...)
		tab := sx.L(
			sx.L(sx.Bytes(hkey), sx.Bytes(hiv), sx.Bytes(c11KeystreamOf(hkey, hiv, 160))),
			sx.L(sx.Bytes(params[0:32]), sx.Bytes(params[64:80]), sx.Bytes(c11KeystreamOf(params[0:32], params[64:80], 68))),
			sx.L(sx.Bytes(params[32:64]), sx.Bytes(params[80:96]), sx.Bytes(c11KeystreamOf(params[32:64], params[80:96], total))),
		)
		in := sx.L(sx.Bytes(sseed), sx.Bytes(spub), sx.Bytes(params), sx.Bytes(cseed), sx.Bytes(cpub), sx.Bytes(shc), sx.Bytes(shs),
			tab, sx.L(sx.Bytes(reply.nonce), sx.Bytes(reply.payload)), c11QueuesSx(qs), c11SchedSx(sched))
		out := c.Emit("c11.conc", in, fmt.Sprintf("conc|senders%d|each%d", n, k))
		ok := out.K == sx.KL && len(out.List) == 4 && out.List[0].Bool && out.List[1].Bool && out.List[2].I() == n*k
		if ok {
			for j, q := range qs {
				ok = ok && c11PayloadsEqual(out.List[3].List[j], q)
			}
		}
		if !ok {
			c.Fail("c11.conc", in, "c11-concurrent-send", fmt.Sprintf("%d goroutines x %d packets on one Connection: the server did not decode exactly the packets sent, per sender in order", n, k))
		}
	}
	// (a') load, implementation only
	type st struct{ n, k, size int }
	runs := []st{{8, 40, 2048}, {4, 60, 512}, {6, 8, 200000}} // the last: long marshal / checksum windows overlap
	if c.Thorough() {
		runs = append(runs, st{8, 150, 16384}, st{8, 100, 8192}, st{3, 300, 64}, st{8, 150, 16384})
	}
	for _, s := range runs {
		in := sx.L(sx.N(r.U64()), sx.Nat(s.n), sx.Nat(s.k), sx.Nat(s.size))
		out := c.Emit("c11.stress", in, fmt.Sprintf("stress|%dx%dx%d", s.n, s.k, s.size))
		if out.String() != sx.L(sx.B(true), sx.B(true), sx.Nat(s.n*s.k), sx.B(true)).String() {
			c.Fail("c11.stress", in, "c11-concurrent-send", fmt.Sprintf("%d goroutines x %d packets of %d bytes on one Connection: stream desynchronised or packets lost: %s", s.n, s.k, s.size, out.String()))
		}
	}
}
