package main

// C16 - message and transaction identity hashes.
//
// Kinds:
//   c16.msg (dag root) -> 'err | (kind hash normhash init bodyref bodybits nbodyrefs src dest)
//   c16.htx / c16.hmsg ((source...) (op...)) -> (result per op): a HISTORY on one tlb.Transaction /
//            tlb.Message variable: (0 i hasher) decode source i into it, (1) Hash(), (2 mutate) SourceBoc() /
//            Hash(true) (mutate: the caller then overwrites the returned slice), (3) go on with a copy
//   c16.tx  (dag root) -> 'err | (hash (inmsg-hash inmsg-normhash)? (sourceboc parses-back))
// Every case is decoded twice by the real tlb package: tlb.Unmarshal (no hasher)
// and tlb.NewDecoder() (caching hasher, cache warmed with other cells of the
// same DAG); the two results must be equal.  Property oracles evaluated inside
// the exec function make it return ('oracle-fail what), which the generator
// turns into c.Fail and which also never equals the model's output.

import (
	"bytes"
	"fmt"
	"os"
	"path/filepath"
	"math/big"
	"math/bits"
	"reflect"
	"runtime"
	"sync"
	"time"
	"sort"
	"strings"

	"github.com/tonkeeper/tongo/boc"
	"github.com/tonkeeper/tongo/tlb"

	"verifharness/prng"
	"verifharness/sx"
)

func init() {
	execs["c16.msg"] = execC16Msg
	execs["c16.tx"] = execC16Tx
	execs["c16.blk"] = execC16Blk
	execs["c16.lvl"] = execC16Lvl
	execs["c16.lib"] = execC16Lib
	execs["c16.conc"] = execC16Conc
	execs["c16.htx"] = execC16HistTx
	execs["c16.hmsg"] = execC16HistMsg
	gens["C16"] = genC16
}

// ---------------------------------------------------------------- exec side

func c16CellBits(c *boc.Cell) string {
	bs := c.RawBitString()
	bs.ResetCounter()
	var sb strings.Builder
	for bs.BitsAvailableForRead() > 0 {
		b, _ := bs.ReadBit()
		if b {
			sb.WriteByte('1')
		} else {
			sb.WriteByte('0')
		}
	}
	return sb.String()
}

func c16AddrBits(a tlb.MsgAddress) sx.V {
	c := boc.NewCell()
	if err := a.MarshalTLB(c, nil); err != nil {
		return sx.A("addr-err")
	}
	return sx.Bits(c16CellBits(c))
}

func c16Fail(what string) sx.V { return sx.L(sx.A("oracle-fail"), sx.A(what)) }

// c16Decoder returns nil (plain tlb.Unmarshal) or a decoder whose hasher cache
// already holds other cells of the DAG, as it does in the middle of a block.
func c16Decoder(withHasher bool, cells []*boc.Cell, root int) *tlb.Decoder {
	if !withHasher {
		return nil
	}
	dec := tlb.NewDecoder()
	n := len(cells)
	for _, i := range []int{n - 1, (root + n) / 2, root + 1} {
		if i > root && i < n {
			_, _ = dec.Hasher().Hash(cells[i])
		}
	}
	return dec
}

func c16MsgView(m *tlb.Message, srcHash []byte) sx.V {
	h0 := m.Hash(false)
	if !bytes.Equal(h0[:], srcHash) {
		return c16Fail("hash-not-source-cell")
	}
	kind := 0
	var src, dest tlb.MsgAddress
	switch m.Info.SumType {
	case "IntMsgInfo":
		kind, src, dest = 0, m.Info.IntMsgInfo.Src, m.Info.IntMsgInfo.Dest
	case "ExtInMsgInfo":
		kind, src, dest = 1, m.Info.ExtInMsgInfo.Src, m.Info.ExtInMsgInfo.Dest
	case "ExtOutMsgInfo":
		kind, src, dest = 2, m.Info.ExtOutMsgInfo.Src, m.Info.ExtOutMsgInfo.Dest
	default:
		return c16Fail("sumtype")
	}
	srcV, destV := c16AddrBits(src), c16AddrBits(dest)
	hn := m.Hash(true)
	hn2 := m.Hash(true)
	h1 := m.Hash(false)
	if hn != hn2 {
		return c16Fail("normalized-not-idempotent")
	}
	if h1 != h0 {
		return c16Fail("hash-changed-by-normalizing")
	}
	if kind != 1 && hn != h0 {
		return c16Fail("non-ext-in-normalized-differs")
	}
	init := 0
	if m.Init.Exists {
		init = 1
		if m.Init.Value.IsRight {
			init = 2
		}
	}
	body := boc.Cell(m.Body.Value)
	return sx.L(sx.Nat(kind), sx.Bytes(h0[:]), sx.Bytes(hn[:]), sx.Nat(init), sx.B(m.Body.IsRight),
		sx.Bits(c16CellBits(&body)), sx.Nat(body.RefsSize()), srcV, destV, c16DestNow(m))
}

// c16DestNow: the destination as the Message value holds it at this moment
// (Hash(true) clears the anycast of an addr_std destination in the receiver).
func c16DestNow(m *tlb.Message) sx.V {
	switch m.Info.SumType {
	case "IntMsgInfo":
		return c16AddrBits(m.Info.IntMsgInfo.Dest)
	case "ExtInMsgInfo":
		return c16AddrBits(m.Info.ExtInMsgInfo.Dest)
	case "ExtOutMsgInfo":
		return c16AddrBits(m.Info.ExtOutMsgInfo.Dest)
	}
	return sx.A("none")
}

func c16DecodeMsg(dag []Node, root int, withHasher bool) sx.V {
	ref, err := buildGo(dag)
	if err != nil {
		return sx.A("build-err")
	}
	srcHash, herr := ref[root].Hash()
	cells, _ := buildGo(dag)
	var m tlb.Message
	if dec := c16Decoder(withHasher, cells, root); dec != nil {
		err = dec.Unmarshal(cells[root], &m)
	} else {
		err = tlb.Unmarshal(cells[root], &m)
	}
	if err != nil {
		return sx.A("err")
	}
	if herr != nil {
		return c16Fail("decoded-unhashable-cell")
	}
	return c16MsgView(&m, srcHash)
}

// ------------------------------------------------- block accessors (c16.blk)

// c16LabelAt parses a hashmap label (hml_short / hml_long / hml_same) of a key
// of at most m bits at bit position p; returns its length and the position
// after it.  Written from the TL-B scheme, independent of tongo.
func c16LabelAt(bitsS string, p, m int) (ln, np int, ok bool) {
	if p >= len(bitsS) {
		return 0, 0, false
	}
	if bitsS[p] == '0' { // hml_short: unary length
		p++
		for p < len(bitsS) && bitsS[p] == '1' {
			ln++
			p++
		}
		return ln, p + 1 + ln, p < len(bitsS)
	}
	w := bits.Len(uint(m))
	num := func(at int) int {
		v := 0
		for i := 0; i < w && at+i < len(bitsS); i++ {
			v = v*2 + int(bitsS[at+i]-'0')
		}
		return v
	}
	if p+1 < len(bitsS) && bitsS[p+1] == '0' { // hml_long
		ln = num(p + 2)
		return ln, p + 2 + w + ln, true
	}
	ln = num(p + 3) // hml_same
	return ln, p + 3 + w, true
}

// c16SkipCC skips a CurrencyCollection (Grams, then the extra-currency HashmapE)
func c16SkipCC(bitsS string, p, rp int) (int, int) {
	l := 0
	for i := 0; i < 4 && p+i < len(bitsS); i++ {
		l = l*2 + int(bitsS[p+i]-'0')
	}
	p += 4 + 8*l
	if p < len(bitsS) && bitsS[p] == '1' {
		rp++
	}
	return p + 1, rp
}

// c16AugLeaves walks a HashmapAug with m remaining key bits whose root edge
// starts at (node, bit p, ref rp) and calls leaf(node, p, rp) positioned at the
// leaf's extra.
func c16AugLeaves(dag []Node, node, p, rp, m int, leaf func(node, p, rp int)) {
	if dag[node].Special {
		return
	}
	ln, np, ok := c16LabelAt(dag[node].Bits, p, m)
	if !ok {
		return
	}
	if m-ln == 0 {
		leaf(node, np, rp)
		return
	}
	if rp+1 < len(dag[node].Refs) {
		c16AugLeaves(dag, dag[node].Refs[rp], 0, 0, m-ln-1, leaf)
		c16AugLeaves(dag, dag[node].Refs[rp+1], 0, 0, m-ln-1, leaf)
	}
}

// c16BlockTxCells: the transaction cells of a block, found by walking
// block -> extra (4th ref) -> account_blocks (3rd ref) -> HashmapAugE 256 ->
// acc_trans#5 -> HashmapAug 64 ^Transaction, in dictionary order.
func c16BlockTxCells(dag []Node, root int) []int {
	var out []int
	if len(dag[root].Refs) < 4 {
		return nil
	}
	extra := dag[root].Refs[3]
	if len(dag[extra].Refs) < 3 {
		return nil
	}
	ab := dag[extra].Refs[2]
	if len(dag[ab].Bits) == 0 || dag[ab].Bits[0] != '1' || len(dag[ab].Refs) == 0 {
		return nil
	}
	c16AugLeaves(dag, dag[ab].Refs[0], 0, 0, 256, func(node, p, rp int) {
		p, rp = c16SkipCC(dag[node].Bits, p, rp) // extra: CurrencyCollection
		p += 4 + 256                                // acc_trans#5 account_addr
		c16AugLeaves(dag, node, p, rp, 64, func(n2, p2, rp2 int) {
			_, rp2 = c16SkipCC(dag[n2].Bits, p2, rp2)
			if rp2 < len(dag[n2].Refs) {
				out = append(out, dag[n2].Refs[rp2])
			}
		})
	})
	return out
}

type c16LtHash struct {
	lt uint64
	h  tlb.Bits256
}

func c16SortLH(l []c16LtHash) []c16LtHash {
	o := append([]c16LtHash{}, l...)
	sort.Slice(o, func(i, j int) bool {
		if o[i].lt != o[j].lt {
			return o[i].lt < o[j].lt
		}
		return bytes.Compare(o[i].h[:], o[j].h[:]) < 0
	})
	return o
}

func c16SameLH(a, b []c16LtHash) bool {
	a, b = c16SortLH(a), c16SortLH(b)
	if len(a) != len(b) {
		return false
	}
	for i := range a {
		if a[i] != b[i] {
			return false
		}
	}
	return true
}

// c16BlockAccessors decodes the block and collects what every exported way of
// reaching its transactions and their messages hands out.  "" = all agree with
// [want] (the (lt, hash) of the transaction cells) and among themselves.
func c16BlockAccessors(root *boc.Cell, want []c16LtHash, wantMsgs map[tlb.Bits256]int, withHasher bool) string {
	var block tlb.Block
	dec := new(tlb.Decoder)
	if withHasher {
		dec = tlb.NewDecoder()
	}
	if err := dec.Unmarshal(root, &block); err != nil {
		return "block-does-not-decode"
	}
	msgsOf := func(tx *tlb.Transaction, into map[tlb.Bits256]int) {
		if tx.Msgs.InMsg.Exists {
			m := tx.Msgs.InMsg.Value.Value
			into[m.Hash(false)]++
		}
		for _, om := range tx.Msgs.OutMsgs.Values() {
			m := om.Value
			into[m.Hash(false)]++
		}
	}
	sameMsgs := func(a map[tlb.Bits256]int) bool {
		if len(a) != len(wantMsgs) {
			return false
		}
		for k, v := range a {
			if wantMsgs[k] != v {
				return false
			}
		}
		return true
	}
	// 1. Block.AllTransactions
	var all []c16LtHash
	allMsgs := map[tlb.Bits256]int{}
	for n, tx := range block.AllTransactions() {
		all = append(all, c16LtHash{tx.Lt, tx.Hash()})
		msgsOf(tx, allMsgs)
		if n >= 40 {
			continue // SourceBoc of the first 40 only (cost)
		}
		b, err := tx.SourceBoc()
		if err != nil {
			return "AllTransactions-source-boc"
		}
		if roots, e := boc.DeserializeBoc(b); e != nil || len(roots) != 1 {
			return "AllTransactions-source-boc"
		} else if h, _ := roots[0].Hash256(); tlb.Bits256(h) != tx.Hash() {
			return "AllTransactions-source-boc"
		}
	}
	if !c16SameLH(all, want) {
		return "AllTransactions-multiset"
	}
	if !sameMsgs(allMsgs) {
		return "AllTransactions-messages-multiset"
	}
	if block.TransactionsQuantity() != len(want) {
		return "TransactionsQuantity"
	}
	// 2. the walk over AccountBlocks
	var walk []c16LtHash
	walkMsgs := map[tlb.Bits256]int{}
	for _, acc := range block.Extra.AccountBlocks.Values() {
		vals := acc.Transactions.Values()
		for i := range vals {
			tx := &vals[i].Value
			walk = append(walk, c16LtHash{tx.Lt, tx.Hash()})
			msgsOf(tx, walkMsgs)
			if tx.AccountAddr != acc.AccountAddr {
				return "AccountBlocks-transaction-of-another-account"
			}
		}
	}
	if !c16SameLH(walk, want) {
		return "AccountBlocks-multiset"
	}
	if !sameMsgs(walkMsgs) {
		return "AccountBlocks-messages-multiset"
	}
	// 3. InMsgDescr / OutMsgDescr: every transaction / message they carry is one of the block
	inSet := map[c16LtHash]bool{}
	for _, w := range want {
		inSet[w] = true
	}
	var found []c16Real
	missing := 0
	byHash := map[string]*boc.Cell{}
	if in, err := block.Extra.InMsgDescr(); err == nil {
		for _, v := range in.Values() {
			c16Collect(reflect.ValueOf(v), "in", &found, byHash, &missing)
		}
	} else {
		return "InMsgDescr-does-not-decode"
	}
	if out, err := block.Extra.OutMsgDescr(); err == nil {
		for _, v := range out.Values() {
			c16Collect(reflect.ValueOf(v), "out", &found, byHash, &missing)
		}
	} else {
		return "OutMsgDescr-does-not-decode"
	}
	for _, rec := range found {
		if rec.kind == "tx" && !inSet[c16LtHash{rec.lt, rec.hash}] {
			return "MsgDescr-transaction-not-in-block"
		}
	}
	return ""
}

// c16.blk (dag root (tx-index...)): per transaction cell (lt hash (in_msg-hash)?)
// from a standalone decode of that cell; oracle: all accessors of the decoded
// block (with and without the hasher) hand out exactly that multiset.
func execC16Blk(in sx.V) sx.V {
	dag := dagFromSx(in.List[0])
	root := in.List[1].I()
	ref, err := buildGo(dag)
	if err != nil {
		return sx.A("build-err")
	}
	var out []sx.V
	var want []c16LtHash
	wantMsgs := map[tlb.Bits256]int{}
	for _, iv := range in.List[2].List {
		i := iv.I()
		var tx tlb.Transaction
		ref[i].ResetCounters()
		if err := tlb.Unmarshal(ref[i], &tx); err != nil {
			out = append(out, sx.A("err"))
			continue
		}
		h := tx.Hash()
		// lt straight from the bits: transaction$0111 account_addr:bits256 lt:uint64
		var lt uint64
		for _, ch := range dag[i].Bits[260:324] {
			lt = lt*2 + uint64(ch-'0')
		}
		if ch, _ := ref[i].Hash256(); tlb.Bits256(ch) != h || lt != tx.Lt {
			return c16Fail("transaction-cell-reports-other-lt-or-hash")
		}
		want = append(want, c16LtHash{lt, h})
		inmsg := sx.L()
		if tx.Msgs.InMsg.Exists {
			m := tx.Msgs.InMsg.Value.Value
			mh := m.Hash(false)
			wantMsgs[mh]++
			inmsg = sx.L(sx.Bytes(mh[:]))
		}
		for _, om := range tx.Msgs.OutMsgs.Values() {
			m := om.Value
			wantMsgs[m.Hash(false)]++
		}
		out = append(out, sx.L(sx.BigN(new(big.Int).SetUint64(lt)), sx.Bytes(h[:]), inmsg))
	}
	for _, hasher := range []bool{true, false} {
		cells, _ := buildGo(dag)
		if bad := c16BlockAccessors(cells[root], want, wantMsgs, hasher); bad != "" {
			return c16Fail("block-accessor:" + bad)
		}
	}
	return sx.L(out...)
}

// c16.lvl (dag root kind warm): cells of non-zero level (pruned branches / Merkle
// cells below) with the caching hasher warmed beforehand in the way [warm] says.
// Every identity-hash entry point must give one and the same value: Cell.Hash,
// Hash256, HashString, Hasher.Hash (twice), Hasher.HashString, and the hash the
// decoded Message / Transaction (and its in_msg) reports with that decoder.
//   warm 0 nothing; 1 the enclosing tree (cell 0) first; 2 the other children of
//   the enclosing cell first; 3 the record itself (Hash, HashString); 4 every
//   cell, last to first; 5 every cell, first to last; 6 the record hashed, its
//   read cursors moved and reset, hashed again; 7 an enclosing transaction /
//   the record itself decoded first with the same decoder.
func execC16Lvl(in sx.V) sx.V {
	dag := dagFromSx(in.List[0])
	root, kind, warm := in.List[1].I(), in.List[2].I(), in.List[3].I()
	ref, err := buildGo(dag)
	if err != nil {
		return sx.A("build-err")
	}
	want, werr := ref[root].Hash() // a tree nobody else touches, no cache
	cells, _ := buildGo(dag)
	c := cells[root]
	dec := tlb.NewDecoder()
	hs := dec.Hasher()
	switch warm {
	case 1:
		_, _ = hs.Hash(cells[0])
	case 2:
		for _, sib := range cells[0].Refs() {
			if sib != c {
				_, _ = hs.Hash(sib)
			}
		}
	case 3:
		_, _ = hs.Hash(c)
		_, _ = hs.HashString(c)
	case 4:
		for i := len(cells) - 1; i >= 0; i-- {
			_, _ = hs.Hash(cells[i])
		}
	case 5:
		for i := 0; i < len(cells); i++ {
			_, _ = hs.HashString(cells[i])
		}
	case 6:
		_, _ = hs.Hash(c)
		_, _ = c.ReadBit()
		_, _ = c.NextRef()
		c.ResetCounters()
		_, _ = hs.Hash(c)
	case 7:
		var tx tlb.Transaction
		var m tlb.Message
		_ = dec.Unmarshal(cells[0], &tx)
		cells[0].ResetCounters()
		if kind == 0 {
			_ = dec.Unmarshal(c, &m)
		} else {
			_ = dec.Unmarshal(c, &tx)
		}
		c.ResetCounters()
	}
	if werr != nil {
		if _, e := hs.Hash(c); e == nil {
			return c16Fail("hasher-hashes-what-cell-hash-refuses")
		}
		return sx.L(sx.A("err"), sx.A("err"))
	}
	hex := fmt.Sprintf("%x", want)
	check := func(name string, got []byte, e error) string {
		if e != nil || !bytes.Equal(got, want) {
			return name
		}
		return ""
	}
	var bad string
	note := func(s string) {
		if bad == "" {
			bad = s
		}
	}
	h1, e1 := hs.Hash(c)
	note(check("Hasher.Hash", h1, e1))
	h2, e2 := hs.Hash(c)
	note(check("Hasher.Hash-again", h2, e2))
	if s, e := hs.HashString(c); e != nil || s != hex {
		note("Hasher.HashString")
	}
	h3, e3 := c.Hash()
	note(check("Cell.Hash", h3, e3))
	h4, e4 := c.Hash256()
	note(check("Cell.Hash256", h4[:], e4))
	if s, e := c.HashString(); e != nil || s != hex {
		note("Cell.HashString")
	}
	var decoded sx.V
	if kind == 0 {
		var m tlb.Message
		if err := dec.Unmarshal(c, &m); err != nil {
			decoded = sx.A("err")
		} else {
			h := m.Hash(false)
			note(check("Message.Hash(false)", h[:], nil))
			hn := m.Hash(true)
			if m.Info.SumType != "ExtInMsgInfo" {
				note(check("Message.Hash(true)", hn[:], nil))
			}
			h = m.Hash(false)
			note(check("Message.Hash(false)-after-Hash(true)", h[:], nil))
			var m2 tlb.Message // and without the hasher
			c.ResetCounters()
			if err := tlb.Unmarshal(c, &m2); err != nil || m2.Hash(false) != m.Hash(false) || m2.Hash(true) != hn {
				note("Message-without-hasher")
			}
			decoded = sx.L(sx.Bytes(h[:]), sx.Bytes(hn[:]))
		}
	} else {
		var tx tlb.Transaction
		if err := dec.Unmarshal(c, &tx); err != nil {
			decoded = sx.A("err")
		} else {
			h := tx.Hash()
			note(check("Transaction.Hash", h[:], nil))
			inmsg := sx.L()
			if tx.Msgs.InMsg.Exists {
				mc := ref[root].Refs()[0].Refs()[0]
				if mc.CellType() != boc.PrunedBranchCell {
					mh, _ := mc.Hash()
					ih := tx.Msgs.InMsg.Value.Value.Hash(false)
					if !bytes.Equal(ih[:], mh) {
						note("Transaction.in_msg.Hash(false)")
					}
					// the in_msg cell on its own, cache hit of the same decoder
					var m tlb.Message
					live := c.Refs()[0].Refs()[0]
					if err := dec.Unmarshal(live, &m); err != nil || m.Hash(false) != ih {
						note("in_msg-decoded-again")
					}
					if hh, e := hs.Hash(live); e != nil || !bytes.Equal(hh, mh) {
						note("Hasher.Hash(in_msg)")
					}
					inmsg = sx.L(sx.Bytes(ih[:]))
				}
			}
			var tx2 tlb.Transaction
			c.ResetCounters()
			if err := tlb.Unmarshal(c, &tx2); err != nil || tx2.Hash() != h {
				note("Transaction-without-hasher")
			}
			decoded = sx.L(sx.Bytes(h[:]), inmsg)
		}
	}
	if bad != "" {
		return c16Fail("identity-hash-entry-point-differs:" + strings.ReplaceAll(bad, " ", ""))
	}
	return sx.L(sx.Bytes(want), decoded)
}

// c16.conc (dag root kind): K goroutines call Hash(false) / Hash(true) on ONE
// decoded message (kind 0), or Hash() / SourceBoc() on ONE decoded transaction
// (kind 1; decoded without the Decoder hasher, whose cache is a plain map and
// documented as single-threaded), started together, for a few rounds.  Every
// answer must be the sequential answer and the sequential answers afterwards
// must be unchanged.  Run in the guarded child: a fatal runtime error or a hang
// is an outcome.  Result: the sequential answers (compared with the model).
func execC16Conc(in sx.V) sx.V {
	dag := dagFromSx(in.List[0])
	root, kind := in.List[1].I(), in.List[2].I()
	cells, err := buildGo(dag)
	if err != nil {
		return sx.A("build-err")
	}
	if runtime.GOMAXPROCS(0) < 4 {
		defer runtime.GOMAXPROCS(runtime.GOMAXPROCS(4))
	}
	const K = 8
	var seq func() (string, bool) // one round of observations by one caller
	var result func() sx.V
	if kind == 0 {
		m := new(tlb.Message)
		if in.List[1].I()%2 == 0 && len(dag)%2 == 0 {
			err = tlb.NewDecoder().Unmarshal(cells[root], m)
		} else {
			err = tlb.Unmarshal(cells[root], m)
		}
		if err != nil {
			return sx.A("err")
		}
		seq = func() (string, bool) {
			a, b := m.Hash(false), m.Hash(true)
			return string(a[:]) + string(b[:]), true
		}
		result = func() sx.V {
			a, b := m.Hash(false), m.Hash(true)
			return sx.L(sx.Bytes(a[:]), sx.Bytes(b[:]))
		}
	} else {
		tx := new(tlb.Transaction)
		if err = tlb.Unmarshal(cells[root], tx); err != nil {
			return sx.A("err")
		}
		seq = func() (string, bool) {
			h := tx.Hash()
			b, e := tx.SourceBoc()
			return string(h[:]) + string(b), e == nil
		}
		result = func() sx.V {
			h := tx.Hash()
			b, e := tx.SourceBoc()
			if e != nil {
				return sx.L(sx.Bytes(h[:]), sx.A("err"))
			}
			return sx.L(sx.Bytes(h[:]), sx.Bytes(b))
		}
	}
	want, wantOK := seq()
	bad := make([]int, K)
	rounds := 6
	perRound := 400
	if kind == 1 {
		perRound = 12
	}
	deadline := time.Now().Add(1500 * time.Millisecond)
	for r := 0; r < rounds && time.Now().Before(deadline); r++ {
		var wg sync.WaitGroup
		start := make(chan struct{})
		for g := 0; g < K; g++ {
			wg.Add(1)
			go func(g int) {
				defer wg.Done()
				defer func() {
					if recover() != nil {
						bad[g]++
					}
				}()
				<-start
				for i := 0; i < perRound; i++ {
					if got, ok := seq(); got != want || ok != wantOK {
						bad[g]++
					}
				}
			}(g)
		}
		close(start)
		wg.Wait()
	}
	for _, b := range bad {
		if b > 0 {
			return c16Fail("concurrent-call-answers-differently")
		}
	}
	if got, ok := seq(); got != want || ok != wantOK {
		return c16Fail("answer-changed-after-concurrent-calls")
	}
	return result()
}

// c16.lib (dag root target): the root is decoded by a Decoder with a library
// resolver that answers every request with cell [target]; with and without the
// hasher.  Oracle: the resolver is asked for the hash of the library root, and
// the reported hash is the hash of the cell it returned.
func c16DecodeLib(dag []Node, root, target int, withHasher bool) sx.V {
	ref, err := buildGo(dag)
	if err != nil {
		return sx.A("build-err")
	}
	rootHash, _ := ref[root].Hash()
	srcHash, _ := ref[target].Hash()
	if !ref[root].IsLibrary() {
		srcHash = rootHash
	}
	cells, _ := buildGo(dag)
	dec := new(tlb.Decoder)
	if withHasher {
		dec = tlb.NewDecoder()
	}
	asked := 0
	wrong := false
	dec = dec.WithLibraryResolver(func(h tlb.Bits256) (*boc.Cell, error) {
		asked++
		if !bytes.Equal(h[:], rootHash) {
			wrong = true
		}
		return cells[target], nil
	})
	var m tlb.Message
	if err := dec.Unmarshal(cells[root], &m); err != nil {
		return sx.A("err")
	}
	if wrong || (ref[root].IsLibrary() && asked != 1) || (!ref[root].IsLibrary() && asked != 0) {
		return c16Fail("resolver-not-asked-for-the-root-hash")
	}
	return c16MsgView(&m, srcHash)
}

func execC16Lib(in sx.V) sx.V {
	dag := dagFromSx(in.List[0])
	root, target := in.List[1].I(), in.List[2].I()
	a := c16DecodeLib(dag, root, target, false)
	b := c16DecodeLib(dag, root, target, true)
	if a.String() != b.String() {
		return c16Fail("hasher-changes-result")
	}
	return a
}

func execC16Msg(in sx.V) sx.V {
	dag := dagFromSx(in.List[0])
	root := in.List[1].I()
	a := c16DecodeMsg(dag, root, false)
	b := c16DecodeMsg(dag, root, true)
	if a.String() != b.String() {
		return c16Fail("hasher-changes-result")
	}
	return a
}

func c16DecodeTx(dag []Node, root int, withHasher bool) sx.V {
	ref, err := buildGo(dag)
	if err != nil {
		return sx.A("build-err")
	}
	srcHash, herr := ref[root].Hash()
	cells, _ := buildGo(dag)
	var tx tlb.Transaction
	if dec := c16Decoder(withHasher, cells, root); dec != nil {
		err = dec.Unmarshal(cells[root], &tx)
	} else {
		err = tlb.Unmarshal(cells[root], &tx)
	}
	if err != nil {
		return sx.A("err")
	}
	if herr != nil {
		return c16Fail("decoded-unhashable-cell")
	}
	h := tx.Hash()
	if !bytes.Equal(h[:], srcHash) {
		return c16Fail("tx-hash-not-source-cell")
	}
	inmsg := sx.L()
	if tx.Msgs.InMsg.Exists {
		// a pruned reference leaves the zero Message: not reported
		c1 := ref[root].Refs()[0]
		if c1.Refs()[0].CellType() != boc.PrunedBranchCell {
			mh, _ := c1.Refs()[0].Hash()
			m := tx.Msgs.InMsg.Value.Value
			v := c16MsgView(&m, mh)
			if v.Head() == "oracle-fail" {
				return v
			}
			inmsg = sx.L(v.List[1], v.List[2])
		}
	}
	var src sx.V
	b, err := tx.SourceBoc()
	if err != nil {
		src = sx.A("err")
	} else {
		ok := false
		roots, perr := boc.DeserializeBoc(b)
		if perr == nil && len(roots) == 1 {
			ph, e := roots[0].Hash()
			ok = e == nil && bytes.Equal(ph, h[:])
		}
		if !ok {
			return c16Fail("source-boc-does-not-parse-back")
		}
		b2, _ := tx.SourceBoc()
		if !bytes.Equal(b, b2) {
			return c16Fail("source-boc-not-stable")
		}
		src = sx.L(sx.Bytes(b), sx.B(ok))
	}
	return sx.L(sx.Bytes(h[:]), inmsg, src)
}

func execC16Tx(in sx.V) sx.V {
	dag := dagFromSx(in.List[0])
	root := in.List[1].I()
	a := c16DecodeTx(dag, root, false)
	b := c16DecodeTx(dag, root, true)
	if a.String() != b.String() {
		return c16Fail("hasher-changes-result")
	}
	return a
}

// ---------------------------------------------------------------- histories

type c16Src struct {
	dag   []Node
	root  int
	cells []*boc.Cell // decoded from repeatedly, as a long-lived cell tree is
}

func c16Sources(v sx.V) ([]c16Src, bool) {
	var out []c16Src
	for _, sv := range v.List {
		s := c16Src{dag: dagFromSx(sv.List[0]), root: sv.List[1].I()}
		cells, err := buildGo(s.dag)
		if err != nil {
			return nil, false
		}
		s.cells = cells
		out = append(out, s)
	}
	return out, true
}

// what a fresh variable reports after decoding the source (nil: decode fails)
type c16Fresh struct {
	hash, norm tlb.Bits256
	boc        []byte
}

func c16FreshTx(s c16Src) *c16Fresh {
	cells, _ := buildGo(s.dag)
	var tx tlb.Transaction
	if tlb.Unmarshal(cells[s.root], &tx) != nil {
		return nil
	}
	b, err := tx.SourceBoc()
	if err != nil {
		return nil
	}
	return &c16Fresh{hash: tx.Hash(), boc: append([]byte{}, b...)}
}

func c16FreshMsg(s c16Src) *c16Fresh {
	cells, _ := buildGo(s.dag)
	var m tlb.Message
	if tlb.Unmarshal(cells[s.root], &m) != nil {
		return nil
	}
	return &c16Fresh{hash: m.Hash(false), norm: m.Hash(true)}
}

type c16Handed struct {
	slice []byte // what the library returned
	keep  []byte // its content at that time; nil once the caller overwrote it
}

func execC16HistTx(in sx.V) sx.V {
	srcs, ok := c16Sources(in.List[0])
	if !ok {
		return sx.A("build-err")
	}
	dec := tlb.NewDecoder()
	cur := new(tlb.Transaction)
	var exp *c16Fresh
	var handed []c16Handed
	var out []sx.V
	for _, op := range in.List[1].List {
		switch op.List[0].I() {
		case 0:
			s := srcs[op.List[1].I()]
			var err error
			if op.List[2].Bool {
				err = dec.Unmarshal(s.cells[s.root], cur)
			} else {
				err = tlb.Unmarshal(s.cells[s.root], cur)
			}
			exp = nil
			if err == nil {
				if exp = c16FreshTx(s); exp == nil {
					return c16Fail("history-decode-succeeds-only-on-used-variable")
				}
			}
			out = append(out, sx.A(map[bool]string{true: "ok", false: "err"}[err == nil]))
		case 1:
			h := cur.Hash()
			if exp != nil && h != exp.hash {
				return c16Fail("history-dependent-tx-hash")
			}
			out = append(out, sx.Bytes(h[:]))
		case 2:
			b, err := cur.SourceBoc()
			if err != nil {
				if exp != nil {
					return c16Fail("history-source-boc-fails-after-decode")
				}
				out = append(out, sx.A("err"))
				break
			}
			if exp != nil {
				if !bytes.Equal(b, exp.boc) {
					return c16Fail("source-boc-not-of-last-decoded-cell")
				}
				roots, perr := boc.DeserializeBoc(b)
				h := cur.Hash()
				if perr != nil || len(roots) != 1 {
					return c16Fail("source-boc-does-not-parse-back")
				}
				if ph, e := roots[0].Hash(); e != nil || !bytes.Equal(ph, h[:]) {
					return c16Fail("source-boc-hash-differs-from-hash")
				}
			}
			out = append(out, sx.Bytes(b))
			hd := c16Handed{slice: b, keep: append([]byte{}, b...)}
			if op.List[1].Bool { // the caller recycles the buffer it was given
				for i := range b {
					b[i] = 0xa5
				}
				hd.keep = nil
			}
			handed = append(handed, hd)
		case 3:
			cp := new(tlb.Transaction)
			*cp = *cur
			if cp.Hash() != cur.Hash() {
				return c16Fail("copy-reports-other-hash")
			}
			b1, e1 := cur.SourceBoc()
			b2, e2 := cp.SourceBoc()
			if (e1 == nil) != (e2 == nil) || !bytes.Equal(b1, b2) {
				return c16Fail("copy-reports-other-source-boc")
			}
			if exp != nil && !bytes.Equal(b2, exp.boc) {
				return c16Fail("source-boc-not-of-last-decoded-cell")
			}
			cur = cp
			out = append(out, sx.A("copy"))
		}
		// slices handed out earlier belong to the caller: the library must not touch them
		for _, hd := range handed {
			if hd.keep != nil && !bytes.Equal(hd.slice, hd.keep) {
				return c16Fail("returned-slice-changed-later")
			}
		}
	}
	return sx.L(out...)
}

func execC16HistMsg(in sx.V) sx.V {
	srcs, ok := c16Sources(in.List[0])
	if !ok {
		return sx.A("build-err")
	}
	dec := tlb.NewDecoder()
	cur := new(tlb.Message)
	var exp *c16Fresh
	var out []sx.V
	for _, op := range in.List[1].List {
		switch op.List[0].I() {
		case 0:
			s := srcs[op.List[1].I()]
			var err error
			if op.List[2].Bool {
				err = dec.Unmarshal(s.cells[s.root], cur)
			} else {
				err = tlb.Unmarshal(s.cells[s.root], cur)
			}
			exp = nil
			if err == nil {
				if exp = c16FreshMsg(s); exp == nil {
					return c16Fail("history-decode-succeeds-only-on-used-variable")
				}
			}
			out = append(out, sx.A(map[bool]string{true: "ok", false: "err"}[err == nil]))
		case 1:
			h := cur.Hash(false)
			if exp != nil && h != exp.hash {
				return c16Fail("history-dependent-msg-hash")
			}
			out = append(out, sx.Bytes(h[:]))
		case 2:
			h := cur.Hash(true)
			if exp != nil && h != exp.norm {
				return c16Fail("history-dependent-normalized-hash")
			}
			out = append(out, sx.Bytes(h[:]))
		case 3:
			cp := new(tlb.Message)
			*cp = *cur
			if cp.Hash(false) != cur.Hash(false) {
				return c16Fail("copy-reports-other-hash")
			}
			cur = cp
			out = append(out, sx.A("copy"))
		case 4:
			out = append(out, c16DestNow(cur))
		}
	}
	return sx.L(out...)
}

// ------------------------------------------- independent TL-B message encoder

func c16U(v uint64, w int) string {
	var sb strings.Builder
	for i := w - 1; i >= 0; i-- {
		if i < 64 && (v>>uint(i))&1 == 1 {
			sb.WriteByte('1')
		} else {
			sb.WriteByte('0')
		}
	}
	return sb.String()
}

type c16Addr struct {
	Kind  int // 0 none, 1 extern, 2 std, 3 var
	Any   bool
	Depth int
	Pfx   uint32
	Wc    int32
	Bits  string
}

func (a c16Addr) any() string {
	if !a.Any {
		return "0"
	}
	return "1" + c16U(uint64(a.Depth), 5) + c16U(uint64(a.Pfx), a.Depth)
}

func (a c16Addr) enc() string {
	switch a.Kind {
	case 0:
		return "00"
	case 1:
		return "01" + c16U(uint64(len(a.Bits)), 9) + a.Bits
	case 2:
		return "10" + a.any() + c16U(uint64(uint8(int8(a.Wc))), 8) + a.Bits
	default:
		return "11" + a.any() + c16U(uint64(len(a.Bits)), 9) + c16U(uint64(uint32(a.Wc)), 32) + a.Bits
	}
}

type c16Init struct {
	Split   int // -1 absent
	Special int // -1 absent, else tick*2+tock
	Code    int // -1 absent, else pool index
	Data    int
	Lib     int // 0 empty, 1 one-leaf dictionary, 2 pruned root, 3 library root
	LibKey  string
}

type c16Spec struct {
	Kind       int // 0 int, 1 ext-in, 2 ext-out
	Flags      int
	Src, Dest  c16Addr
	Grams      string // encoded Grams / VarUInteger fields
	Extra      int    // 0 empty, 1 one-leaf dict, 2 pruned root, 3 library root
	IhrFee     string
	FwdFee     string
	Lt         uint64
	At         uint32
	ImportFee  string
	InitMode   int // 0 none, 1 inline, 2 ref, 3 ref to a library cell, 4 ref to a pruned cell
	Init       c16Init
	BodyRef    bool
	BodyExotic int // 0 ordinary, 1 library cell, 2 pruned cell (only with BodyRef)
	BodyBits   string
	BodyRefs   []int // pool indices
}

func c16Grams(r *prng.R, maxLen int) string {
	l := 0
	switch r.Intn(6) {
	case 0:
		l = 0
	case 1:
		l = maxLen
	default:
		l = r.Intn(maxLen + 1)
	}
	return c16U(uint64(l), 4) + hexBits(r.Bytes(l))
}

// front nodes are numbered from 0 (the root); a reference r >= 0 is a front
// index, r < 0 is pool index -(r+1).
type c16Builder struct {
	front []Node
}

func (b *c16Builder) add(n Node) int {
	b.front = append(b.front, n)
	return len(b.front) - 1
}

func c16PoolRef(p int) int { return -(p + 1) }

func c16PrunedNode(r *prng.R) Node {
	data := append([]byte{1, 1}, r.Bytes(32)...)
	d := r.Intn(100)
	data = append(data, byte(d>>8), byte(d))
	return Node{Special: true, Mask: 1, Bits: hexBits(data)}
}

func c16LibraryNode(r *prng.R) Node {
	return Node{Special: true, Bits: hexBits(append([]byte{2}, r.Bytes(32)...))}
}

// dictionary root: kind 0 = HashmapE 32 (VarUInteger 32), 1 = HashmapE 256 SimpleLib
func (b *c16Builder) dictRef(r *prng.R, mode, kind int, pool int) int {
	switch mode {
	case 2:
		return b.add(c16PrunedNode(r))
	case 3:
		return b.add(c16LibraryNode(r))
	case 5: // two leaves under a fork: root label = common prefix of k bits, children carry the rest
		n := 32
		if kind == 1 {
			n = 256
		}
		k := r.Pick([]int{0, 0, 1, 2, 7, r.Intn(n - 1)})
		prefix := randBits(r, k)
		var root string
		switch r.Intn(3) {
		case 0:
			root = "0" + strings.Repeat("1", k) + "0" + prefix // hml_short
		case 1:
			root = "10" + c16U(uint64(k), bits.Len(uint(n))) + prefix // hml_long
		default:
			if k > 0 && strings.Count(prefix, prefix[:1]) == k {
				root = "11" + prefix[:1] + c16U(uint64(k), bits.Len(uint(n))) // hml_same
			} else {
				root = "10" + c16U(uint64(k), bits.Len(uint(n))) + prefix
			}
		}
		rem := n - k - 1
		leaf := func() int {
			lbl := "10" + c16U(uint64(rem), bits.Len(uint(rem))) + randBits(r, rem)
			if rem == 0 {
				lbl = "00"
			}
			if kind == 0 {
				l := r.Intn(4)
				return b.add(Node{Bits: lbl + c16U(uint64(l), 5) + hexBits(r.Bytes(l))})
			}
			idx := b.add(Node{Bits: lbl + c16U(uint64(r.Intn(2)), 1)})
			if pool > 0 {
				b.front[idx].Refs = []int{c16PoolRef(r.Intn(pool))}
			} else {
				b.front[idx].Refs = []int{b.add(Node{})}
			}
			return idx
		}
		idx := b.add(Node{Bits: root})
		l0, l1 := leaf(), leaf()
		if r.Chance(10) { // a fork with one branch only: not enough refs
			b.front[idx].Refs = []int{l0}
		} else {
			b.front[idx].Refs = []int{l0, l1}
		}
		return idx
	case 4: // junk: random bits, or a well-formed label followed by a truncated value
		if r.Bool() {
			if kind == 0 {
				return b.add(Node{Bits: "10" + c16U(32, 6) + hexBits(r.Bytes(4)) + randBits(r, r.Intn(5))})
			}
			return b.add(Node{Bits: "10" + c16U(256, 9) + hexBits(r.Bytes(32)) + randBits(r, r.Intn(2))})
		}
		return b.add(Node{Bits: randBits(r, r.Intn(60))})
	}
	if kind == 0 {
		l := r.Intn(4)
		key := hexBits(r.Bytes(4))
		var label string
		if r.Bool() {
			label = "10" + c16U(32, 6) + key
		} else {
			bit := "0"
			if key[0] == '1' {
				bit = "1"
			}
			label = "11" + bit + c16U(32, 6)
		}
		return b.add(Node{Bits: label + c16U(uint64(l), 5) + hexBits(r.Bytes(l))})
	}
	key := hexBits(r.Bytes(32))
	pub := "0"
	if r.Bool() {
		pub = "1"
	}
	idx := b.add(Node{Bits: "10" + c16U(256, 9) + key + pub})
	if pool > 0 {
		b.front[idx].Refs = []int{c16PoolRef(r.Intn(pool))}
	} else {
		b.front[idx].Refs = []int{b.add(Node{})}
	}
	return idx
}

func (b *c16Builder) initEnc(r *prng.R, in c16Init, pool int) (string, []int) {
	var s strings.Builder
	var refs []int
	if in.Split < 0 {
		s.WriteString("0")
	} else {
		s.WriteString("1" + c16U(uint64(in.Split), 5))
	}
	if in.Special < 0 {
		s.WriteString("0")
	} else {
		s.WriteString("1" + c16U(uint64(in.Special), 2))
	}
	for _, p := range []int{in.Code, in.Data} {
		if p < 0 {
			s.WriteString("0")
		} else {
			s.WriteString("1")
			refs = append(refs, c16PoolRef(p))
		}
	}
	if in.Lib == 0 {
		s.WriteString("0")
	} else {
		s.WriteString("1")
		refs = append(refs, b.dictRef(r, in.Lib, 1, pool))
	}
	return s.String(), refs
}

// c16Build lays the message out; it falls back to the reference form when the
// inline form of init / body does not fit, and reports what it used.
func c16Build(r *prng.R, sp c16Spec, pool []Node) (dag []Node, used string, ok bool) {
	b := &c16Builder{}
	b.add(Node{})
	var bits strings.Builder
	var refs []int
	switch sp.Kind {
	case 0:
		bits.WriteString("0" + c16U(uint64(sp.Flags), 3) + sp.Src.enc() + sp.Dest.enc() + sp.Grams)
		if sp.Extra == 0 {
			bits.WriteString("0")
		} else {
			bits.WriteString("1")
			refs = append(refs, b.dictRef(r, sp.Extra, 0, len(pool)))
		}
		bits.WriteString(sp.IhrFee + sp.FwdFee + c16U(sp.Lt, 64) + c16U(uint64(sp.At), 32))
	case 1:
		bits.WriteString("10" + sp.Src.enc() + sp.Dest.enc() + sp.ImportFee)
	default:
		bits.WriteString("11" + sp.Src.enc() + sp.Dest.enc() + c16U(sp.Lt, 64) + c16U(uint64(sp.At), 32))
	}
	used = "init0"
	switch sp.InitMode {
	case 0:
		bits.WriteString("0")
	case 3:
		bits.WriteString("11")
		refs = append(refs, b.add(c16LibraryNode(r)))
		used = "initLib"
	case 4:
		bits.WriteString("11")
		refs = append(refs, b.add(c16PrunedNode(r)))
		used = "initPruned"
	default:
		ib, irefs := b.initEnc(r, sp.Init, len(pool))
		bodyNeed := 1
		if !sp.BodyRef {
			bodyNeed = len(sp.BodyRefs)
		}
		inline := sp.InitMode == 1
		if inline && (bits.Len()+2+len(ib)+1 > 1023 || len(refs)+len(irefs)+bodyNeed > 4) {
			inline = false
		}
		if inline {
			bits.WriteString("10" + ib)
			refs = append(refs, irefs...)
			used = "initInline"
		} else {
			bits.WriteString("11")
			refs = append(refs, b.add(Node{Bits: ib, Refs: irefs}))
			used = "initRef"
		}
	}
	bodyRef := sp.BodyRef
	if !bodyRef && (bits.Len()+1+len(sp.BodyBits) > 1023 || len(refs)+len(sp.BodyRefs) > 4) {
		bodyRef = true
		used += "/forcedRef"
	}
	var brefs []int
	for _, p := range sp.BodyRefs {
		brefs = append(brefs, c16PoolRef(p))
	}
	if bodyRef {
		bits.WriteString("1")
		switch sp.BodyExotic {
		case 1:
			refs = append(refs, b.add(c16LibraryNode(r)))
			used += "/bodyLib"
		case 2:
			refs = append(refs, b.add(c16PrunedNode(r)))
			used += "/bodyPruned"
		default:
			refs = append(refs, b.add(Node{Bits: sp.BodyBits, Refs: brefs}))
			used += "/bodyRef"
		}
	} else {
		bits.WriteString("0" + sp.BodyBits)
		refs = append(refs, brefs...)
		used += "/bodyInline"
	}
	if bits.Len() > 1023 || len(refs) > 4 {
		return nil, used, false
	}
	b.front[0] = Node{Bits: bits.String(), Refs: refs}
	return c16Assemble(b.front, pool), used, true
}

// c16Assemble resolves the references and puts front nodes in an order in
// which references point forward (front nodes only refer to later front nodes
// or to the pool by construction, except that the root is node 0).
func c16Assemble(front []Node, pool []Node) []Node {
	nf := len(front)
	out := make([]Node, 0, nf+len(pool))
	for _, n := range front {
		m := Node{Special: n.Special, Mask: n.Mask, Bits: n.Bits}
		for _, r := range n.Refs {
			if r < 0 {
				m.Refs = append(m.Refs, nf+(-r-1))
			} else {
				m.Refs = append(m.Refs, r)
			}
		}
		out = append(out, m)
	}
	for _, n := range pool {
		m := Node{Special: n.Special, Mask: n.Mask, Bits: n.Bits}
		for _, r := range n.Refs {
			m.Refs = append(m.Refs, nf+r)
		}
		out = append(out, m)
	}
	out = c16Topo(out, 0)
	// level masks of the ordinary front nodes: OR of the children's
	for i := len(out) - 1; i >= 0; i-- {
		if !out[i].Special {
			var m uint8
			for _, r := range out[i].Refs {
				m |= out[r].Mask
			}
			out[i].Mask = m
		}
	}
	return out
}

// c16Topo keeps what is reachable from root and orders it so that the root is
// node 0 and every reference points to a later node (reverse DFS postorder).
func c16Topo(dag []Node, root int) []Node {
	state := make([]int, len(dag))
	var post []int
	var walk func(i int)
	walk = func(i int) {
		if state[i] != 0 {
			return
		}
		state[i] = 1
		for _, r := range dag[i].Refs {
			walk(r)
		}
		post = append(post, i)
	}
	walk(root)
	n := len(post)
	newIdx := make([]int, len(dag))
	for p, i := range post {
		newIdx[i] = n - 1 - p
	}
	out := make([]Node, n)
	for _, i := range post {
		nd := dag[i]
		m := Node{Special: nd.Special, Mask: nd.Mask, Bits: nd.Bits}
		for _, r := range nd.Refs {
			m.Refs = append(m.Refs, newIdx[r])
		}
		out[newIdx[i]] = m
	}
	return out
}

func c16RandAddr(r *prng.R, internal bool, big bool) c16Addr {
	var a c16Addr
	if internal {
		a.Kind = 2
		if r.Chance(35) {
			a.Kind = 3
		}
		if r.Chance(4) {
			a.Kind = r.Intn(2) // schema violation the decoder accepts
		}
	} else {
		a.Kind = r.Intn(2)
		if r.Chance(4) {
			a.Kind = 2 + r.Intn(2)
		}
	}
	if a.Kind >= 2 && r.Chance(40) {
		a.Any = true
		a.Depth = r.Pick([]int{1, 2, 5, 8, 29, 30, 31, 1 + r.Intn(31)})
		a.Pfx = uint32(r.U64())
		if a.Depth < 32 {
			a.Pfx &= (1 << uint(a.Depth)) - 1
		}
	}
	a.Wc = int32(r.Pick([]int{0, -1, 1, 127, -128, int(int32(r.U64()))}))
	n := 0
	switch a.Kind {
	case 1, 3:
		n = r.Pick([]int{0, 1, 7, 8, 9, 64, 255, 256, 257, r.Intn(80)})
		if big && r.Chance(30) {
			n = r.Pick([]int{511, 510, 400 + r.Intn(112)})
		}
	case 2:
		n = 256
		a.Wc = int32(int8(a.Wc))
	}
	a.Bits = randBits(r, n)
	return a
}

func c16RandSpec(r *prng.R, pool int) c16Spec {
	var sp c16Spec
	sp.Kind = r.Pick([]int{0, 1, 1, 1, 2})
	sp.Flags = r.Intn(8)
	bigSrc := r.Chance(20)
	switch sp.Kind {
	case 0:
		sp.Src, sp.Dest = c16RandAddr(r, true, bigSrc), c16RandAddr(r, true, !bigSrc)
	case 1:
		sp.Src, sp.Dest = c16RandAddr(r, false, bigSrc), c16RandAddr(r, true, !bigSrc)
	default:
		sp.Src, sp.Dest = c16RandAddr(r, true, bigSrc), c16RandAddr(r, false, !bigSrc)
	}
	sp.Grams, sp.IhrFee, sp.FwdFee = c16Grams(r, 8), c16Grams(r, 8), c16Grams(r, 8)
	sp.ImportFee = c16Grams(r, 15)
	if r.Chance(25) {
		sp.Extra = r.Pick([]int{1, 1, 5})
	}
	sp.Lt, sp.At = r.U64(), uint32(r.U64())
	sp.InitMode = r.Pick([]int{0, 0, 1, 2})
	sp.Init = c16RandInit(r, pool)
	sp.BodyRef = r.Bool()
	sp.BodyBits = randBits(r, r.Pick([]int{0, 1, 7, 8, 9, 32, 100, 255, 256, 600, 1023, 1022, r.Intn(1024)}))
	if pool > 0 {
		k := r.Pick([]int{0, 0, 1, 2, 3, 4})
		for i := 0; i < k; i++ {
			sp.BodyRefs = append(sp.BodyRefs, r.Intn(pool))
		}
	}
	return sp
}

func c16RandInit(r *prng.R, pool int) c16Init {
	in := c16Init{Split: -1, Special: -1, Code: -1, Data: -1}
	if r.Chance(30) {
		in.Split = r.Intn(32)
	}
	if r.Chance(30) {
		in.Special = r.Intn(4)
	}
	if pool > 0 && r.Chance(60) {
		in.Code = r.Intn(pool)
	}
	if pool > 0 && r.Chance(60) {
		in.Data = r.Intn(pool)
	}
	if r.Chance(20) {
		in.Lib = r.Pick([]int{1, 1, 5})
	}
	return in
}

func c16FlipBit(s string, i int) string {
	b := []byte(s)
	if b[i] == '0' {
		b[i] = '1'
	} else {
		b[i] = '0'
	}
	return string(b)
}

// ------------------------------------------------------------- real blocks

func c16RepoDir() string {
	if d := os.Getenv("TONGO_REPO"); d != "" {
		return d
	}
	return "/repo"
}

// c16SubDag converts the subtree of c into nodes in an order with forward
// references, keeping pointer sharing.
func c16SubDag(c *boc.Cell) []Node {
	idx := map[*boc.Cell]int{}
	var post []*boc.Cell
	var walk func(x *boc.Cell)
	walk = func(x *boc.Cell) {
		if _, ok := idx[x]; ok {
			return
		}
		idx[x] = -1
		for _, r := range x.Refs() {
			walk(r)
		}
		idx[x] = len(post)
		post = append(post, x)
	}
	walk(c)
	n := len(post)
	dag := make([]Node, n)
	for p, x := range post {
		nd := Node{Special: x.IsExotic(), Mask: uint8(boc.VerifMask(x)), Bits: c16CellBits(x)}
		for _, r := range x.Refs() {
			nd.Refs = append(nd.Refs, n-1-idx[r])
		}
		dag[n-1-p] = nd
	}
	return dag
}

func c16DagBlocks(dag []Node) int {
	t := 0
	for _, n := range dag {
		t += 1 + (2+len(n.Bits)/8+34*len(n.Refs))/64
	}
	return t
}

type c16Real struct {
	lt    uint64
	kind  string // "msg" or "tx"
	where string
	hash  tlb.Bits256
	norm  tlb.Bits256
	cell  *boc.Cell
}

// c16Collect finds every tlb.Message and tlb.Transaction in exported fields.
func c16Collect(v reflect.Value, where string, out *[]c16Real, byHash map[string]*boc.Cell, missing *int) {
	switch v.Kind() {
	case reflect.Pointer:
		if !v.IsNil() {
			c16Collect(v.Elem(), where, out, byHash, missing)
		}
	case reflect.Struct:
		switch x := v.Interface().(type) {
		case tlb.Message:
			if x.Info.SumType == "" {
				return // zero value behind a pruned reference
			}
			m := x
			h := m.Hash(false)
			r := c16Real{kind: "msg", where: where, hash: h, norm: m.Hash(true), cell: byHash[string(h[:])]}
			if r.cell == nil {
				*missing++
			}
			*out = append(*out, r)
			return
		case tlb.Transaction:
			h := x.Hash()
			if h == (tlb.Bits256{}) && x.Lt == 0 && x.AccountAddr == (tlb.Bits256{}) {
				return // zero value of an unused sum-type alternative / pruned reference
			}
			r := c16Real{kind: "tx", lt: x.Lt, where: where, hash: h, cell: byHash[string(h[:])]}
			if r.cell == nil {
				*missing++
			}
			*out = append(*out, r)
			if x.Msgs.InMsg.Exists {
				c16Collect(reflect.ValueOf(x.Msgs.InMsg.Value.Value), where+"/in", out, byHash, missing)
			}
			for _, m := range x.Msgs.OutMsgs.Values() {
				c16Collect(reflect.ValueOf(m.Value), where+"/out", out, byHash, missing)
			}
			return
		}
		t := v.Type()
		for i := 0; i < v.NumField(); i++ {
			if t.Field(i).IsExported() {
				c16Collect(v.Field(i), where, out, byHash, missing)
			}
		}
	}
}

func c16LoadBlock(path string) (found []c16Real, missing int, err error) {
	data, err := os.ReadFile(path)
	if err != nil {
		return nil, 0, err
	}
	roots, err := boc.DeserializeBoc(data)
	if err != nil || len(roots) == 0 {
		return nil, 0, fmt.Errorf("not a boc")
	}
	dec := tlb.NewDecoder()
	var block tlb.Block
	if err = dec.Unmarshal(roots[0], &block); err != nil {
		return nil, 0, err
	}
	// every cell of the block by hash (independent hasher)
	byHash := map[string]*boc.Cell{}
	seen := map[*boc.Cell]bool{}
	hs := boc.NewHasher()
	var walk func(c *boc.Cell)
	walk = func(c *boc.Cell) {
		if seen[c] {
			return
		}
		seen[c] = true
		if h, e := hs.Hash(c); e == nil {
			byHash[string(h)] = c
		}
		for _, r := range c.Refs() {
			walk(r)
		}
	}
	walk(roots[0])
	for _, acc := range block.Extra.AccountBlocks.Values() {
		for _, txRef := range acc.Transactions.Values() {
			c16Collect(reflect.ValueOf(txRef.Value), "acc", &found, byHash, &missing)
		}
	}
	// the message descriptors are kept as raw cells: decode them with the same
	// decoder (same hasher cache) to reach messages inside envelopes
	in := boc.Cell(block.Extra.InMsgDescrCell)
	in.ResetCounters()
	var inDescr tlb.HashmapAugE[tlb.Bits256, tlb.InMsg, tlb.ImportFees]
	if e := dec.Unmarshal(&in, &inDescr); e == nil {
		for _, v := range inDescr.Values() {
			c16Collect(reflect.ValueOf(v), "inDescr", &found, byHash, &missing)
		}
	}
	outc := boc.Cell(block.Extra.OutMsgDescrCell)
	outc.ResetCounters()
	var outDescr tlb.HashmapAugE[tlb.Bits256, tlb.OutMsg, tlb.CurrencyCollection]
	if e := dec.Unmarshal(&outc, &outDescr); e == nil {
		for _, v := range outDescr.Values() {
			c16Collect(reflect.ValueOf(v), "outDescr", &found, byHash, &missing)
		}
	}
	return found, missing, nil
}

func c16BlockFiles() []string {
	var out []string
	for _, pat := range []string{"tlb/testdata/block-*/block.bin", "ton/testdata/raw-*.bin"} {
		m, _ := filepath.Glob(filepath.Join(c16RepoDir(), pat))
		sort.Strings(m)
		out = append(out, m...)
	}
	return out
}

// ---------------------------------------------------------------- generator

func c16Class(out sx.V) string {
	if out.K == sx.KL && len(out.List) == 10 {
		return fmt.Sprintf("k%d/i%d", out.List[0].I(), out.List[3].I())
	}
	return "-"
}

func c16Input(dag []Node, root int) sx.V { return sx.L(dagSx(dag), sx.Nat(root)) }

func (g *c16Gen) emit(kind string, dag []Node, root int, class string) sx.V {
	in := c16Input(dag, root)
	out := g.c.Emit(kind, in, class)
	if out.Head() == "oracle-fail" {
		g.c.Fail(kind, in, "C16/"+out.List[1].Atom, out.List[1].Atom)
	}
	return out
}

type c16Gen struct {
	c *Ctx
}

// c16Pool is a small DAG (references forward, at most two per cell, so that
// its unfolding stays small) of ordinary or valid exotic cells.
func c16Pool(r *prng.R) []Node {
	n := r.Pick([]int{0, 1, 2, 3, 4, 6})
	if n == 0 {
		return nil
	}
	if r.Chance(25) {
		return exoticDag(r, minInt(n, 4))
	}
	dag := make([]Node, n)
	for i := n - 1; i >= 0; i-- {
		bl := r.Pick([]int{0, 1, 8, 31, 64, 200, r.Intn(300)})
		if r.Chance(6) {
			bl = 1023 - r.Intn(3)
		}
		nd := Node{Bits: randBits(r, bl)}
		if avail := n - 1 - i; avail > 0 {
			for k := r.Intn(3); k > 0; k-- {
				nd.Refs = append(nd.Refs, i+1+r.Intn(avail))
			}
		}
		dag[i] = nd
	}
	return dag
}

func c16NormOf(out sx.V) (string, bool) {
	if out.K == sx.KL && len(out.List) == 10 {
		return out.List[2].String(), true
	}
	return "", false
}

// c16DifferentPool reports whether pool cells i and j certainly have different
// hashes (different data or reference count of the cell itself).
func c16DifferentPool(pool []Node, i, j int) bool {
	return pool[i].Bits != pool[j].Bits || len(pool[i].Refs) != len(pool[j].Refs) || pool[i].Special != pool[j].Special
}

func (g *c16Gen) synthetic(n int) {
	r := g.c.R
	for i := 0; i < n; i++ {
		pool := c16Pool(r)
		base := c16RandSpec(r, len(pool))
		if i%3 == 0 {
			base.Kind = 1
			base.Src = c16RandAddr(r, false, false)
			base.Dest = c16RandAddr(r, true, r.Chance(30))
		}
		dag, used, ok := c16Build(r, base, pool)
		if !ok {
			continue
		}
		fam := fmt.Sprintf("syn/k%d/s%d/d%d/%s", base.Kind, base.Src.Kind, base.Dest.Kind, used)
		if base.Dest.Any {
			fam += "/any"
		}
		out0 := g.emit("c16.msg", dag, 0, fam)
		n0, ok0 := c16NormOf(out0)
		if !ok0 {
			continue
		}
		// equivalence class: same destination (anycast of addr_std ignored) and
		// same body content
		same := []func(sp *c16Spec){
			func(sp *c16Spec) { sp.Src = c16RandAddr(r, false, false) },
			func(sp *c16Spec) { sp.ImportFee = c16Grams(r, 15) },
			func(sp *c16Spec) { sp.InitMode = (sp.InitMode + 1 + r.Intn(2)) % 3; sp.Init = c16RandInit(r, len(pool)) },
			func(sp *c16Spec) { sp.BodyRef = !sp.BodyRef },
			func(sp *c16Spec) {
				if sp.Dest.Kind == 2 {
					sp.Dest.Any = !sp.Dest.Any
					sp.Dest.Depth = 1 + r.Intn(31)
					sp.Dest.Pfx = uint32(r.U64()) & ((1 << uint(sp.Dest.Depth)) - 1)
				}
			},
		}
		differ := []func(sp *c16Spec) bool{
			func(sp *c16Spec) bool {
				if len(sp.BodyBits) == 0 {
					sp.BodyBits = "0"
				} else {
					sp.BodyBits = c16FlipBit(sp.BodyBits, r.Intn(len(sp.BodyBits)))
				}
				return true
			},
			func(sp *c16Spec) bool {
				if len(sp.BodyBits) >= 1023 {
					sp.BodyBits = sp.BodyBits[:1022]
				} else {
					sp.BodyBits += c16U(uint64(r.Intn(2)), 1)
				}
				return true
			},
			func(sp *c16Spec) bool {
				if len(sp.BodyRefs) > 0 {
					sp.BodyRefs = sp.BodyRefs[:len(sp.BodyRefs)-1]
					return true
				}
				return false
			},
			func(sp *c16Spec) bool {
				if len(sp.BodyRefs) > 0 && len(pool) > 1 {
					k := r.Intn(len(sp.BodyRefs))
					j := r.Intn(len(pool))
					if c16DifferentPool(pool, sp.BodyRefs[k], j) {
						refs := append([]int{}, sp.BodyRefs...)
						refs[k] = j
						sp.BodyRefs = refs
						return true
					}
				}
				return false
			},
			func(sp *c16Spec) bool {
				if len(sp.Dest.Bits) > 0 {
					sp.Dest.Bits = c16FlipBit(sp.Dest.Bits, r.Intn(len(sp.Dest.Bits)))
					return true
				}
				return false
			},
			func(sp *c16Spec) bool {
				if sp.Dest.Kind >= 2 {
					sp.Dest.Wc ^= 1
					return true
				}
				return false
			},
			func(sp *c16Spec) bool {
				if sp.Dest.Kind == 3 {
					// anycast of addr_var is NOT dropped by Hash(true)
					sp.Dest.Any = !sp.Dest.Any
					sp.Dest.Depth = 1 + r.Intn(31)
					sp.Dest.Pfx = uint32(r.U64()) & ((1 << uint(sp.Dest.Depth)) - 1)
					return true
				}
				return false
			},
		}
		if base.Kind == 1 && base.BodyExotic == 0 {
			cur := base
			for k := 0; k < 3; k++ {
				j := r.Intn(len(same))
				v := cur
				same[j](&v)
				d, u, ok := c16Build(r, v, pool)
				if !ok {
					continue
				}
				in := c16Input(d, 0)
				out := g.emit("c16.msg", d, 0, fmt.Sprintf("same%d/%s", j, u))
				if nv, okv := c16NormOf(out); okv && nv != n0 { // (a variant may draw an invalid dictionary and not decode)
					g.c.Fail("c16.msg", in, "C16/normalized-class", fmt.Sprintf("variant same%d changed the normalized hash", j))
				}
				cur = v
			}
			for k := 0; k < 2; k++ {
				j := r.Intn(len(differ))
				v := base
				if !differ[j](&v) {
					continue
				}
				d, u, ok := c16Build(r, v, pool)
				if !ok {
					continue
				}
				in := c16Input(d, 0)
				out := g.emit("c16.msg", d, 0, fmt.Sprintf("diff%d/%s", j, u))
				if nv, okv := c16NormOf(out); okv && nv == n0 {
					g.c.Fail("c16.msg", in, "C16/normalized-collision", fmt.Sprintf("variant diff%d kept the normalized hash", j))
				}
			}
		}
		// malformed neighbours of the same message
		if i%2 == 0 {
			g.malformed(dag, r)
		}
	}
}

func c16CloneDag(d []Node) []Node {
	out := make([]Node, len(d))
	for i, n := range d {
		out[i] = Node{Special: n.Special, Mask: n.Mask, Bits: n.Bits, Refs: append([]int{}, n.Refs...)}
	}
	return out
}

func (g *c16Gen) malformed(dag []Node, r *prng.R) {
	switch r.Intn(6) {
	case 0: // truncate the root bits
		d := c16CloneDag(dag)
		if len(d[0].Bits) > 0 {
			d[0].Bits = d[0].Bits[:r.Intn(len(d[0].Bits))]
		}
		g.emit("c16.msg", d, 0, "mal/trunc")
	case 1: // drop the last reference of the root
		d := c16CloneDag(dag)
		if k := len(d[0].Refs); k > 0 {
			d[0].Refs = d[0].Refs[:k-1]
		}
		g.emit("c16.msg", d, 0, "mal/dropref")
	case 2: // flip one of the first bits (tags, flags, address tags)
		d := c16CloneDag(dag)
		if len(d[0].Bits) > 0 {
			d[0].Bits = c16FlipBit(d[0].Bits, r.Intn(minInt(len(d[0].Bits), 24)))
		}
		g.emit("c16.msg", d, 0, "mal/flip")
	case 3: // the message cell itself is exotic
		d := c16CloneDag(dag)
		if r.Bool() {
			d[0] = c16LibraryNode(r)
		} else {
			d[0] = c16PrunedNode(r)
		}
		g.emit("c16.msg", d, 0, "mal/exoticroot")
	case 4: // decode a non-root cell as a message
		if len(dag) > 1 {
			g.emit("c16.msg", dag, 1+r.Intn(len(dag)-1), "mal/inner")
		}
	case 5: // random bits
		d := []Node{{Bits: randBits(r, r.Intn(200))}}
		g.emit("c16.msg", d, 0, "mal/random")
	}
}

// exotic init / body references, dictionary roots, anycast depth 0
func (g *c16Gen) special(n int) {
	r := g.c.R
	for i := 0; i < n; i++ {
		pool := c16Pool(r)
		sp := c16RandSpec(r, len(pool))
		label := ""
		switch i % 8 {
		case 6:
			sp.Kind, sp.Extra, label = 0, 4, "extraJunk"
			sp.Src, sp.Dest = c16RandAddr(r, true, false), c16RandAddr(r, true, false)
		case 7:
			sp.InitMode, label = 1+r.Intn(2), "libJunk"
			sp.Init.Lib = 4
		case 0:
			sp.InitMode, label = 3, "initLib"
		case 1:
			sp.InitMode, label = 4, "initPruned"
		case 2:
			sp.BodyRef, sp.BodyExotic, label = true, 1+r.Intn(2), "bodyExotic"
			sp.Kind = 1
			sp.Src = c16RandAddr(r, false, false)
			sp.Dest = c16RandAddr(r, true, false)
		case 3:
			sp.Kind, sp.Extra, label = 0, 2+r.Intn(2), "extraExoticRoot"
			sp.Src, sp.Dest = c16RandAddr(r, true, false), c16RandAddr(r, true, false)
		case 4:
			sp.InitMode, label = 1+r.Intn(2), "libExoticRoot"
			sp.Init.Lib = 2 + r.Intn(2)
		case 5:
			sp.Dest.Kind, sp.Dest.Any, sp.Dest.Depth, label = 2, true, 0, "anycast0"
			sp.Dest.Bits = randBits(r, 256)
		}
		dag, used, ok := c16Build(r, sp, pool)
		if !ok {
			continue
		}
		g.emit("c16.msg", dag, 0, "spec/"+label+"/"+used)
	}
}

func c16Compact(dag []Node, root int) []Node { return c16Topo(dag, root) }

// c16GraftInMsg replaces the in_msg of a transaction DAG (root 0) by msg.
func c16GraftInMsg(tx []Node, msg []Node) ([]Node, bool) {
	if len(tx[0].Refs) == 0 {
		return nil, false
	}
	c1 := tx[0].Refs[0]
	if len(tx[c1].Bits) == 0 || tx[c1].Bits[0] != '1' || len(tx[c1].Refs) == 0 {
		return nil, false
	}
	d := c16CloneDag(tx)
	off := len(d)
	for _, n := range msg {
		m := Node{Special: n.Special, Mask: n.Mask, Bits: n.Bits}
		for _, r := range n.Refs {
			m.Refs = append(m.Refs, off+r)
		}
		d = append(d, m)
	}
	d[c1].Refs[0] = off
	return c16Compact(d, 0), true
}

// every block of the testdata: the accessors against the transaction cells found
// by the independent dictionary walk; small blocks also go through the model
func (g *c16Gen) blockAccessors(f string) {
	data, err := os.ReadFile(f)
	if err != nil {
		return
	}
	roots, err := boc.DeserializeBoc(data)
	if err != nil || len(roots) == 0 {
		return
	}
	dag := c16SubDag(roots[0])
	idxs := c16BlockTxCells(dag, 0)
	name := filepath.Base(filepath.Dir(f))
	var iv []sx.V
	for _, i := range idxs {
		iv = append(iv, sx.Nat(i))
	}
	in := sx.L(dagSx(dag), sx.Nat(0), sx.L(iv...))
	if len(dag) <= g.c.Scale(700, 2500) {
		out := g.c.Emit("c16.blk", in, fmt.Sprintf("blk/%s/tx%d", name, minInt(len(idxs), 9)))
		if out.Head() == "oracle-fail" {
			g.c.Fail("c16.blk", in, "C16/"+strings.SplitN(out.List[1].Atom, ":", 2)[0], out.List[1].Atom)
		}
		return
	}
	// too big for the Gallina SHA-256: the implementation oracles only
	if out := safeExec("c16.blk", in); out.Head() == "oracle-fail" {
		g.c.Fail("c16.blk", sx.Str(f), "C16/"+strings.SplitN(out.List[1].Atom, ":", 2)[0], out.List[1].Atom)
	} else if out.K != sx.KL || len(out.List) != len(idxs) {
		g.c.Fail("c16.blk", sx.Str(f), "C16/block-accessor", "block does not decode: "+trunc(out.String(), 60))
	}
}

func (g *c16Gen) real(budgetMsg, budgetTx, maxMsgBlocks, maxTxBlocks, nHist int) {
	r := g.c.R
	for _, f := range c16BlockFiles() {
		g.blockAccessors(f)
	}
	var txDags [][]Node
	for _, f := range c16BlockFiles() {
		found, missing, err := c16LoadBlock(f)
		name := filepath.Base(filepath.Dir(f))
		if err != nil {
			continue
		}
		if missing > 0 {
			g.c.Fail("c16.msg", sx.Str(f), "C16/hash-not-in-block",
				fmt.Sprintf("%d decoded records report a hash that no cell of the block has", missing))
		}
		// the same record is reached along several paths (account block, message
		// descriptors, envelopes): every occurrence must report the same hashes
		first := map[string]int{}
		var uniq []c16Real
		for _, rec := range found {
			k := rec.kind + string(rec.hash[:])
			if j, ok := first[k]; ok {
				if uniq[j].norm != rec.norm {
					g.c.Fail("c16.msg", sx.Bytes(rec.hash[:]), "C16/real-positions",
						"normalized hash depends on where the message sits ("+uniq[j].where+" vs "+rec.where+")")
				}
				if !strings.Contains(uniq[j].where, rec.where) && len(uniq[j].where) < 40 {
					uniq[j].where += "+" + rec.where
				}
				continue
			}
			first[k] = len(uniq)
			uniq = append(uniq, rec)
		}
		found = uniq
		// sample without replacement in PRNG order
		perm := make([]int, len(found))
		for i := range perm {
			perm[i] = i
		}
		for i := len(perm) - 1; i > 0; i-- {
			j := r.Intn(i + 1)
			perm[i], perm[j] = perm[j], perm[i]
		}
		bm, bt := budgetMsg, budgetTx
		for _, i := range perm {
			rec := found[i]
			if rec.cell == nil {
				continue
			}
			if rec.kind == "msg" && bm <= 0 || rec.kind == "tx" && bt <= 0 {
				continue
			}
			dag := c16SubDag(rec.cell)
			cost := c16DagBlocks(dag)
			if rec.kind == "msg" {
				if cost > maxMsgBlocks {
					continue
				}
				bm -= cost
				out := g.emit("c16.msg", dag, 0, "real/"+name+"/"+rec.where)
				in := c16Input(dag, 0)
				if out.K != sx.KL || len(out.List) != 10 {
					g.c.Fail("c16.msg", in, "C16/real-standalone", "message of a block does not decode standalone")
				} else if !bytes.Equal(out.List[1].Bytes, rec.hash[:]) || !bytes.Equal(out.List[2].Bytes, rec.norm[:]) {
					g.c.Fail("c16.msg", in, "C16/real-in-block", "hash inside the block differs from the standalone decode")
				}
			} else {
				if cost > maxTxBlocks {
					continue
				}
				bt -= 3 * cost
				out := g.emit("c16.tx", dag, 0, "real/"+name+"/"+rec.where)
				in := c16Input(dag, 0)
				if out.K != sx.KL || len(out.List) != 3 || out.List[0].K != sx.KBytes {
					g.c.Fail("c16.tx", in, "C16/real-standalone", "transaction of a block does not decode standalone")
				} else if !bytes.Equal(out.List[0].Bytes, rec.hash[:]) {
					g.c.Fail("c16.tx", in, "C16/real-in-block", "tx hash inside the block differs from the standalone decode")
				}
				if len(txDags) < 12 && cost < maxTxBlocks/2 {
					txDags = append(txDags, dag)
				}
			}
		}
	}
	// transactions with mutated headers and grafted synthetic in_msg
	for _, tx := range txDags {
		for k := 0; k < 5; k++ {
			d := c16CloneDag(tx)
			label := ""
			switch r.Intn(8) {
			case 5: // TransactionDescr cell: flip a bit / truncate
				if len(d[0].Refs) >= 3 {
					c3 := d[0].Refs[2]
					if n := len(d[c3].Bits); n > 0 {
						if r.Bool() {
							d[c3].Bits = c16FlipBit(d[c3].Bits, r.Intn(minInt(n, 12)))
						} else if r.Bool() {
							d[c3].Bits = c16FlipBit(d[c3].Bits, r.Intn(n))
						} else {
							d[c3].Bits = d[c3].Bits[:r.Intn(n)]
						}
					}
				}
				label = "descr"
			case 6: // a cell below the description (compute phase details, action phase)
				if len(d[0].Refs) >= 3 {
					c3 := d[0].Refs[2]
					if len(d[c3].Refs) > 0 {
						x := d[c3].Refs[r.Intn(len(d[c3].Refs))]
						if n := len(d[x].Bits); n > 0 {
							if r.Bool() {
								d[x].Bits = c16FlipBit(d[x].Bits, r.Intn(n))
							} else {
								d[x].Bits = d[x].Bits[:r.Intn(n)]
							}
						}
					}
				}
				label = "descr-sub"
			case 7: // the in_msg / out_msgs cell and the out_msgs dictionary
				c1 := d[0].Refs[0]
				if r.Bool() || len(d[c1].Refs) == 0 {
					if n := len(d[c1].Bits); n > 0 {
						d[c1].Bits = c16FlipBit(d[c1].Bits, r.Intn(n))
					}
				} else {
					x := d[c1].Refs[len(d[c1].Refs)-1]
					if n := len(d[x].Bits); n > 0 {
						d[x].Bits = c16FlipBit(d[x].Bits, r.Intn(minInt(n, 20)))
					}
				}
				label = "msgs"
			case 0:
				d[0].Bits = c16FlipBit(d[0].Bits, r.Intn(4))
				label = "tag"
			case 1:
				d[0].Bits = d[0].Bits[:r.Intn(len(d[0].Bits))]
				label = "trunc"
			case 2:
				d[0].Refs = d[0].Refs[:len(d[0].Refs)-1]
				label = "dropref"
			case 3:
				if len(d[0].Refs) >= 2 {
					c2 := d[0].Refs[1]
					if len(d[c2].Bits) >= 8 {
						d[c2].Bits = c16FlipBit(d[c2].Bits, r.Intn(8))
					}
				}
				label = "hashupdate-tag"
			case 4:
				d[0].Bits = c16FlipBit(d[0].Bits, 4+r.Intn(len(d[0].Bits)-4))
				label = "field"
			}
			g.emit("c16.tx", c16Compact(d, 0), 0, "mut/"+label)
		}
		for k := 0; k < 2; k++ {
			pool := c16Pool(r)
			sp := c16RandSpec(r, len(pool))
			label := "graft"
			var msg []Node
			switch r.Intn(6) {
			case 0:
				msg, label = []Node{c16PrunedNode(r)}, "graft/pruned"
			case 1:
				msg, label = []Node{c16LibraryNode(r)}, "graft/library"
			case 2:
				msg, label = []Node{{Bits: randBits(r, r.Intn(40))}}, "graft/junk"
			default:
				m, used, ok := c16Build(r, sp, pool)
				if !ok {
					continue
				}
				msg, label = m, fmt.Sprintf("graft/k%d/%s", sp.Kind, used)
			}
			if d, ok := c16GraftInMsg(tx, msg); ok {
				g.emit("c16.tx", d, 0, label)
			}
		}
	}
	if len(txDags) == 0 {
		g.c.Fail("c16.tx", sx.A("none"), "C16/no-testdata", "no transaction found in the testdata blocks")
		return
	}
	g.txHistories(txDags, nHist)
	g.cellCountBoundaries(txDags)
	g.levels(g.c.Scale(56, 1400), g.c.Scale(10, 150), txDags)
	// concurrent Hash / SourceBoc on one decoded transaction
	for i := 0; i < minInt(len(txDags), g.c.Scale(3, 12)); i++ {
		g.emitConc(txDags[i], 1, "conc/tx")
	}
}

func c16Op(code int, args ...sx.V) sx.V { return sx.L(append([]sx.V{sx.Nat(code)}, args...)...) }

// c16Ops: decodes of the given sources interleaved with 0..2 observations each
// (either order), copies, and caller-side overwriting of returned slices.
func c16Ops(r *prng.R, nsrc int, n int, withDest bool) ([]sx.V, string) {
	var ops []sx.V
	decodes, muts, copies := 0, 0, 0
	observe := func() {
		for k := r.Intn(3); k > 0; k-- {
			if withDest && r.Chance(25) {
				ops = append(ops, c16Op(4))
				continue
			}
			switch r.Intn(5) {
			case 0, 1:
				ops = append(ops, c16Op(1))
			case 2, 3:
				m := r.Chance(40)
				if m {
					muts++
				}
				ops = append(ops, c16Op(2, sx.B(m)))
			default:
				copies++
				ops = append(ops, c16Op(3))
			}
		}
	}
	if r.Chance(25) {
		observe() // on the zero value
	}
	for decodes < n {
		ops = append(ops, c16Op(0, sx.Nat(r.Intn(nsrc)), sx.B(r.Bool())))
		decodes++
		observe()
	}
	ops = append(ops, c16Op(2, sx.B(false)), c16Op(1))
	return ops, fmt.Sprintf("d%d/m%d/c%d", decodes, minInt(muts, 2), minInt(copies, 2))
}

func (g *c16Gen) emitHist(kind string, srcs [][]Node, ops []sx.V, class string) {
	var sv []sx.V
	for _, d := range srcs {
		sv = append(sv, c16Input(d, 0))
	}
	in := sx.L(sx.L(sv...), sx.L(ops...))
	out := g.c.Emit(kind, in, class)
	if out.Head() == "oracle-fail" {
		g.c.Fail(kind, in, "C16/"+out.List[1].Atom, out.List[1].Atom)
	}
}

func (g *c16Gen) txHistories(txDags [][]Node, n int) {
	r := g.c.R
	// the fixed schedules first: decode A, SourceBoc, decode B, SourceBoc; overwrite the returned slice
	fixed := [][]sx.V{
		{c16Op(0, sx.Nat(0), sx.B(false)), c16Op(2, sx.B(false)), c16Op(0, sx.Nat(1), sx.B(false)), c16Op(2, sx.B(false)), c16Op(1)},
		{c16Op(0, sx.Nat(0), sx.B(true)), c16Op(2, sx.B(false)), c16Op(0, sx.Nat(1), sx.B(true)), c16Op(2, sx.B(false)), c16Op(1)},
		{c16Op(0, sx.Nat(0), sx.B(false)), c16Op(2, sx.B(true)), c16Op(2, sx.B(false)), c16Op(1)},
		{c16Op(0, sx.Nat(0), sx.B(true)), c16Op(2, sx.B(false)), c16Op(3), c16Op(0, sx.Nat(1), sx.B(false)), c16Op(2, sx.B(true)), c16Op(2, sx.B(false)), c16Op(1)},
	}
	for i := 0; i < n; i++ {
		k := 2 + r.Intn(2)
		var srcs [][]Node
		fam := "real"
		for j := 0; j < k; j++ {
			d := c16CloneDag(txDags[r.Intn(len(txDags))])
			if j > 0 && r.Chance(20) { // a source that does not decode: tag, or truncated after the hash was taken
				if r.Bool() {
					d[0].Bits = c16FlipBit(d[0].Bits, r.Intn(4))
				} else {
					d[0].Bits = d[0].Bits[:4+r.Intn(len(d[0].Bits)-4)]
				}
				fam = "real+bad"
			}
			srcs = append(srcs, d)
		}
		var ops []sx.V
		class := ""
		if i < len(fixed) {
			ops, class = fixed[i], fmt.Sprintf("fixed%d", i)
		} else {
			ops, class = c16Ops(r, k, 2+r.Intn(3), false)
		}
		g.emitHist("c16.htx", srcs, ops, "hist/"+fam+"/"+class)
	}
}

func (g *c16Gen) msgHistories(n int) {
	r := g.c.R
	for i := 0; i < n; i++ {
		k := 2 + r.Intn(2)
		var srcs [][]Node
		fam := "syn"
		for len(srcs) < k {
			pool := c16Pool(r)
			sp := c16RandSpec(r, len(pool))
			if r.Chance(60) {
				sp.Kind = 1
				sp.Src, sp.Dest = c16RandAddr(r, false, false), c16RandAddr(r, true, false)
			}
			d, _, ok := c16Build(r, sp, pool)
			if !ok {
				continue
			}
			if len(srcs) > 0 && (r.Chance(35) || i < 6) { // fails after the hash was taken: hash replaced, ALL fields kept
				d = c16CloneDag(d)
				switch r.Intn(3) {
				case 0: // early: inside CommonMsgInfo
					d[0].Bits = d[0].Bits[:r.Intn(minInt(len(d[0].Bits), 40))]
				case 1: // anywhere
					d[0].Bits = d[0].Bits[:r.Intn(len(d[0].Bits))]
				default: // late: info and init decode, the body does not (its reference / flag is missing)
					if k := len(d[0].Refs); k > 0 && d[0].Bits[len(d[0].Bits)-1] == '1' {
						d[0].Refs = d[0].Refs[:k-1]
					} else {
						d[0].Bits = d[0].Bits[:len(d[0].Bits)-1-r.Intn(minInt(len(d[0].Bits)-1, 3))]
					}
				}
				d = c16Topo(d, 0)
				fam = "syn+bad"
			}
			srcs = append(srcs, d)
		}
		ops, class := c16Ops(r, k, 2+r.Intn(3), true)
		if i < 6 { // good, bad, observe everything
			ops, class = []sx.V{c16Op(0, sx.Nat(0), sx.B(i%2 == 0)), c16Op(2, sx.B(false)), c16Op(0, sx.Nat(1), sx.B(i%3 == 0)),
				c16Op(1), c16Op(2, sx.B(false)), c16Op(4)}, "fixed-good-bad"
		}
		ops = append(ops, c16Op(4))
		g.emitHist("c16.hmsg", srcs, ops, "hist/"+fam+"/"+class)
	}
}

// a library cell as the root, resolved to a synthetic message (or to junk, or
// to another library cell, whose bits are then read as a message)
func (g *c16Gen) libraryRoots(n int) {
	r := g.c.R
	for i := 0; i < n; i++ {
		pool := c16Pool(r)
		if len(pool) > 0 && pool[0].Special { // keep exotic cells out of decoder positions other than the root
			pool = nil
		}
		sp := c16RandSpec(r, len(pool))
		sp.Extra, sp.Init.Lib = 0, 0
		msg, used, ok := c16Build(r, sp, pool)
		if !ok {
			continue
		}
		label := fmt.Sprintf("lib/k%d/%s", sp.Kind, used)
		switch r.Intn(8) {
		case 0:
			msg, label = []Node{{Bits: randBits(r, r.Intn(60))}}, "lib/junk"
		case 1:
			msg, label = []Node{c16LibraryNode(r)}, "lib/library"
		}
		// node 0: the library root; the message follows (not referenced by it)
		dag := []Node{c16LibraryNode(r)}
		for _, nd := range msg {
			m := Node{Special: nd.Special, Mask: nd.Mask, Bits: nd.Bits}
			for _, x := range nd.Refs {
				m.Refs = append(m.Refs, x+1)
			}
			dag = append(dag, m)
		}
		root := 0
		if r.Chance(15) {
			root, label = 1, label+"/plainroot" // not a library cell: the resolver must not be asked
		}
		in := sx.L(dagSx(dag), sx.Nat(root), sx.Nat(1))
		out := g.c.Emit("c16.lib", in, label)
		if out.Head() == "oracle-fail" {
			g.c.Fail("c16.lib", in, "C16/"+out.List[1].Atom, out.List[1].Atom)
		}
	}
}

// c16FixMasks recomputes the level masks of the ordinary cells from their
// children (exotic cells keep theirs).
func c16FixMasks(dag []Node) {
	for i := len(dag) - 1; i >= 0; i-- {
		if !dag[i].Special {
			var m uint8
			for _, r := range dag[i].Refs {
				m |= dag[r].Mask
			}
			dag[i].Mask = m
		}
	}
}

// c16LevelPool: a pool whose cell 0 has level mask [mask]: [depth] ordinary
// cells on top of a pruned branch with that mask; optionally a Merkle proof /
// update cell in between (mask shifted), and ordinary side leaves.
func c16LevelPool(r *prng.R, mask uint8, depth int, merkle int) []Node {
	k := popcount8(mask)
	data := []byte{1, mask}
	data = append(data, r.Bytes(32*k)...)
	for j := 0; j < k; j++ {
		d := r.Intn(900)
		data = append(data, byte(d>>8), byte(d))
	}
	// built bottom-up, reversed at the end
	rev := []Node{{Special: true, Mask: mask, Bits: hexBits(data)}}
	top := func() int { return len(rev) - 1 }
	switch merkle {
	case 1: // Merkle proof over the pruned branch: mask >> 1
		d := r.Intn(900)
		b := append([]byte{3}, r.Bytes(32)...)
		b = append(b, byte(d>>8), byte(d))
		rev = append(rev, Node{Special: true, Mask: mask >> 1, Bits: hexBits(b), Refs: []int{top()}})
	case 2: // Merkle update over the pruned branch and an ordinary leaf
		rev = append(rev, Node{Bits: randBits(r, 9)})
		b := append([]byte{4}, r.Bytes(68)...)
		rev = append(rev, Node{Special: true, Mask: mask >> 1, Bits: hexBits(b), Refs: []int{top() - 1, top()}})
	}
	for d := 0; d < depth; d++ {
		nd := Node{Bits: randBits(r, r.Pick([]int{0, 1, 8, 40, 255})), Refs: []int{top()}}
		if r.Chance(40) {
			rev = append(rev, Node{Bits: randBits(r, 5+r.Intn(30))})
			nd.Refs = append(nd.Refs, top())
			if r.Bool() {
				nd.Refs[0], nd.Refs[1] = nd.Refs[1], nd.Refs[0]
			}
		}
		rev = append(rev, nd)
	}
	n := len(rev)
	out := make([]Node, n)
	for i, nd := range rev {
		m := Node{Special: nd.Special, Mask: nd.Mask, Bits: nd.Bits}
		for _, x := range nd.Refs {
			m.Refs = append(m.Refs, n-1-x)
		}
		out[n-1-i] = m
	}
	c16FixMasks(out)
	return out
}

// records of non-zero level below an enclosing cell, hasher warmed in all ways
func (g *c16Gen) levels(nMsg, nTx int, txDags [][]Node) {
	r := g.c.R
	emit := func(dag []Node, root, kind, warm int, class string) {
		in := sx.L(dagSx(dag), sx.Nat(root), sx.Nat(kind), sx.Nat(warm))
		out := g.c.Emit("c16.lvl", in, class)
		if out.Head() == "oracle-fail" {
			g.c.Fail("c16.lvl", in, "C16/"+strings.SplitN(out.List[1].Atom, ":", 2)[0], out.List[1].Atom)
		}
	}
	for i := 0; i < nMsg; i++ {
		mask := uint8(1 + i%7)
		depth := r.Pick([]int{0, 0, 1, 2, 3, 6})
		merkle := 0
		if mask > 1 && r.Chance(30) {
			merkle = 1 + r.Intn(2)
		}
		pool := c16LevelPool(r, mask, depth, merkle)
		sp := c16RandSpec(r, len(pool))
		sp.Extra, sp.Init.Lib = 0, 0
		if i%4 != 3 {
			sp.Kind = 1
			sp.Src, sp.Dest = c16RandAddr(r, false, false), c16RandAddr(r, true, false)
		}
		// where the levelled cell hangs: body reference(s), code / data of the init
		place := "body"
		switch i % 3 {
		case 0:
			sp.BodyRefs = []int{0}
		case 1:
			sp.BodyRefs = []int{0}
			if len(pool) > 1 {
				sp.BodyRefs = append(sp.BodyRefs, len(pool)-1)
			}
			sp.BodyRef = true
		default:
			sp.InitMode, sp.Init.Code, sp.BodyRefs, place = 1+r.Intn(2), 0, nil, "code"
		}
		msg, _, ok := c16Build(r, sp, pool)
		if !ok {
			continue
		}
		c16FixMasks(msg)
		// an enclosing cell with two siblings around the record
		dag := []Node{{Bits: randBits(r, 12)}}
		for _, nd := range msg {
			m := Node{Special: nd.Special, Mask: nd.Mask, Bits: nd.Bits}
			for _, x := range nd.Refs {
				m.Refs = append(m.Refs, x+1)
			}
			dag = append(dag, m)
		}
		sibB, sibA := len(dag), len(dag)+1 // sibB refers to sibA: references point forward
		dag = append(dag, Node{Bits: randBits(r, 33), Refs: []int{sibA}}, Node{Bits: randBits(r, 20)})
		dag[0].Refs = []int{sibA, 1, sibB}
		c16FixMasks(dag)
		warm := i % 8
		root := 1
		if i%11 == 10 {
			root = 0 // the enclosing cell itself (not a message: only the cell hashes)
		}
		emit(dag, root, 0, warm, fmt.Sprintf("lvl/msg/m%d/%s/w%d", mask, place, warm))
	}
	for i := 0; i < nTx && len(txDags) > 0; i++ {
		mask := uint8(1 + i%7)
		pool := c16LevelPool(r, mask, r.Intn(3), 0)
		sp := c16RandSpec(r, len(pool))
		sp.Extra, sp.Init.Lib, sp.InitMode = 0, 0, 0
		sp.Kind = r.Pick([]int{0, 1, 1})
		sp.Src, sp.Dest = c16RandAddr(r, sp.Kind == 0, false), c16RandAddr(r, true, false)
		sp.BodyRefs, sp.BodyRef = []int{0}, r.Bool()
		msg, _, ok := c16Build(r, sp, pool)
		if !ok {
			continue
		}
		c16FixMasks(msg)
		tx := txDags[r.Intn(minInt(len(txDags), 4))]
		d, ok := c16GraftInMsg(tx, msg)
		if !ok {
			continue
		}
		c16FixMasks(d)
		warm := r.Pick([]int{0, 3, 4, 5, 6, 7})
		emit(d, 0, 1, warm, fmt.Sprintf("lvl/tx/m%d/w%d", mask, warm))
		// and the in_msg cell of that transaction as the record, the transaction enclosing it
		if c1 := d[0].Refs[0]; len(d[c1].Refs) > 0 {
			emit(d, d[c1].Refs[0], 0, r.Pick([]int{1, 4, 7}), fmt.Sprintf("lvl/tx-inmsg/m%d", mask))
		}
	}
}

func (g *c16Gen) emitConc(dag []Node, kind int, class string) {
	in := sx.L(dagSx(dag), sx.Nat(0), sx.Nat(kind))
	out := g.c.EmitGuarded("c16.conc", in, class)
	if out.Head() == "oracle-fail" {
		g.c.Fail("c16.conc", in, "C16/"+out.List[1].Atom, out.List[1].Atom)
	} else if out.IsA("crash") || out.IsA("timeout") || out.IsA("panic") {
		g.c.Fail("c16.conc", in, "C16/concurrent-calls-"+out.Atom, "concurrent Hash/SourceBoc calls: "+out.Atom)
	}
}

// concurrent callers on one decoded external-in message: inline bodies and
// bodies in a reference, with and without references, with and without anycast
func (g *c16Gen) concurrentMessages(n int) {
	r := g.c.R
	for i := 0; i < n; i++ {
		pool := c16Pool(r)
		sp := c16RandSpec(r, len(pool))
		if i%5 != 4 {
			sp.Kind = 1
			sp.Src, sp.Dest = c16RandAddr(r, false, false), c16RandAddr(r, true, false)
		}
		sp.BodyRef = i%2 == 0
		if len(sp.BodyBits) < 8 {
			sp.BodyBits = randBits(r, 8+r.Intn(300))
		}
		dag, used, ok := c16Build(r, sp, pool)
		if !ok {
			continue
		}
		g.emitConc(dag, 0, fmt.Sprintf("conc/msg/k%d/%s/refs%d", sp.Kind, used, minInt(len(sp.BodyRefs), 2)))
	}
}

// c16ChainMsg: a message (external-in, body in a reference) whose body cell is
// the root of a tree of k more distinct cells
func c16ChainMsg(r *prng.R, k int, salt int) []Node {
	sp := c16RandSpec(r, 0)
	sp.Kind, sp.InitMode, sp.BodyRef, sp.BodyExotic, sp.Extra = 1, 0, true, 0, 0
	sp.Src, sp.Dest = c16RandAddr(r, false, false), c16RandAddr(r, true, false)
	sp.BodyBits, sp.BodyRefs = c16U(uint64(salt), 24), nil
	msg, _, ok := c16Build(r, sp, nil)
	if !ok {
		return nil
	}
	// msg = [root, body]; below the body cell hang k more cells as a 4-ary tree
	// (cell j refers to cells 4j+1 .. 4j+4), all different, depth about log4 k
	base := len(msg) - 1 // tree node 0 is the body cell
	for j := 1; j <= k; j++ {
		msg = append(msg, Node{Bits: c16U(uint64(salt), 24) + c16U(uint64(j), 24)})
	}
	for j := 0; j <= k; j++ {
		for c := 4*j + 1; c <= 4*j+4 && c <= k; c++ {
			msg[base+j].Refs = append(msg[base+j].Refs, base+c)
		}
	}
	return msg
}

func c16DistinctCells(dag []Node) int {
	cells, err := buildGo(dag)
	if err != nil {
		return -1
	}
	hs := boc.NewHasher()
	seen := map[string]bool{}
	for _, c := range cells {
		if h, e := hs.Hash(c); e == nil {
			seen[string(h)] = true
		}
	}
	return len(seen)
}

// c16TxWithCells grafts a chain message into a real transaction so that the
// transaction has exactly [target] distinct cells (what the serialiser counts).
func c16TxWithCells(r *prng.R, tx []Node, target int) []Node {
	k := target - len(tx)
	for try := 0; try < 6 && k >= 0; try++ {
		msg := c16ChainMsg(r, k, target*7+try)
		if msg == nil {
			return nil
		}
		d, ok := c16GraftInMsg(tx, msg)
		if !ok {
			return nil
		}
		n := c16DistinctCells(d)
		if n == target {
			return d
		}
		k += target - n
	}
	return nil
}

// transactions at the boundaries of the serialiser's size fields: 255 / 256 /
// 257 distinct cells through the model; 65535 / 65536 / 65537 cells (thorough
// tier) with the implementation oracles only
func (g *c16Gen) cellCountBoundaries(txDags [][]Node) {
	r := g.c.R
	base := txDags[0]
	for _, d := range txDags {
		if len(d) < len(base) {
			base = d
		}
	}
	for _, target := range []int{255, 256, 257} {
		if d := c16TxWithCells(r, base, target); d != nil {
			out := g.emit("c16.tx", d, 0, fmt.Sprintf("cells/%d", target))
			if out.K != sx.KL || len(out.List) != 3 || out.List[2].K != sx.KL {
				g.c.Fail("c16.tx", c16Input(d, 0), "C16/cells-boundary", fmt.Sprintf("transaction with %d cells: no source BOC that parses back", target))
			}
		} else {
			g.c.Fail("c16.tx", sx.Nat(target), "C16/generator", "could not build a transaction with that many cells")
		}
	}
	if g.c.Thorough() {
		for _, target := range []int{65535, 65536, 65537} {
			d := c16TxWithCells(r, base, target)
			if d == nil {
				g.c.Fail("c16.tx", sx.Nat(target), "C16/generator", "could not build a transaction with that many cells")
				continue
			}
			for _, hasher := range []bool{false, true} {
				if v := c16DecodeTx(d, 0, hasher); v.K != sx.KL || len(v.List) != 3 || v.List[2].K != sx.KL {
					g.c.Fail("c16.tx", sx.L(sx.Nat(target), sx.B(hasher)), "C16/cells-boundary",
						fmt.Sprintf("transaction with %d cells (hasher=%v): %s", target, hasher, trunc(v.String(), 80)))
				}
			}
		}
	}
}

func genC16(c *Ctx) {
	g := &c16Gen{c: c}
	g.concurrentMessages(c.Scale(14, 150))
	g.libraryRoots(c.Scale(16, 400))
	g.synthetic(c.Scale(45, 2500))
	g.special(c.Scale(40, 800))
	g.real(c.Scale(110, 6000), c.Scale(160, 12000), c.Scale(60, 1500), c.Scale(120, 3000), c.Scale(10, 300))
	g.msgHistories(c.Scale(25, 1200))
}
