package main

// C12, histories that the scheduler decides: unsynchronised emission on several
// connections (c12.race) and drop / reconnect sequences (c12.seq).  The observed
// history is part of the case; the extracted model must accept it.

import (
	"context"
	"crypto/sha256"
	"fmt"
	"runtime"
	"sync"
	"time"

	"github.com/tonkeeper/tongo/liteclient"

	"verifharness/sx"
)

// ---- c12.race ----

type c12RaceRes struct {
	hang  bool // a call never returned: no point in repeating with a longer deadline
	outs  []sx.V
	slow  bool
	bad   string
	fails []c12Fail
}

// runC12Race: all calls are in their select, then every connection's packet
// list is written at once, without waiting for the client.
func runC12Race(nconn, ncalls int, ems []sx.V, D time.Duration) (r c12RaceRes) {
	e, err := newC12Env(nconn, D)
	if err != nil {
		r.bad = "env: " + err.Error()
		return r
	}
	defer e.close()
	fail := func(key, what string) { r.fails = append(r.fails, c12Fail{key, what}) }
	calls := make([]*c12Call, ncalls)
	ids := make([][32]byte, ncalls)
	for i := range calls {
		calls[i] = e.startCall(i, 0)
	}
	for i, c := range calls {
		if !c12Wait(5*time.Second, func() bool {
			q, ok := e.srv.query(c.key)
			if ok {
				ids[i] = q.id
			}
			return ok
		}) {
			r.bad = fmt.Sprintf("query of call %d not received", i)
			return r
		}
	}
	datum := map[string]uint64{}
	// allowed[i]: outcomes of the first packet concerning call i on each connection
	type head struct {
		ok bool
		d  uint64
	}
	allowed := make([][]head, ncalls)
	seen := make([]map[int]bool, ncalls)
	for i := range seen {
		seen[i] = map[int]bool{}
	}
	per := make([][][]byte, nconn)
	for _, o := range ems {
		a := o.List[1:]
		k := a[0].I()
		var pl []byte
		switch o.Head() {
		case "ans":
			i, d := a[1].I(), a[2].U64()
			data := c12Data(d)
			datum[string(data)] = d
			pl = c12Answer(ids[i], data)
			if !seen[i][k] {
				seen[i][k] = true
				allowed[i] = append(allowed[i], head{true, d})
			}
		case "mal":
			i := a[1].I()
			pl = c12Malformed(ids[i], a[2].I())
			if !seen[i][k] {
				seen[i][k] = true
				allowed[i] = append(allowed[i], head{false, 0})
			}
		case "short":
			pl = c12AnswerHead(ids[a[1].I()])
		case "wrong":
			pl = c12WrongMagic(ids[a[1].I()], c12Data(a[2].U64()))
		case "unk":
			var id [32]byte
			h := sha256.Sum256(append(e.tag[:], byte(a[1].I()), byte(a[1].I()>>8)))
			copy(id[:], h[:])
			pl = c12Answer(id, c12Data(a[1].U64()))
		case "pong":
			pl = c12Pong(a[1].I())
		case "junk":
			pl = c12Junk(a[1].I())
		case "nonce":
			pl = c12Nonce()
		default:
			r.bad = "op " + o.Head()
			return r
		}
		per[k] = append(per[k], pl)
	}
	var wg sync.WaitGroup
	gate := make(chan struct{})
	var werr error
	var wmu sync.Mutex
	for k := range per {
		wg.Add(1)
		go func(k int) {
			defer wg.Done()
			<-gate
			for j, pl := range per[k] {
				if err := e.srv.emit(k, pl); err != nil {
					wmu.Lock()
					werr = err
					wmu.Unlock()
					return
				}
				if (j+k)%3 == 0 {
					runtime.Gosched()
				}
			}
		}(k)
	}
	close(gate)
	wg.Wait()
	if werr != nil {
		r.bad = "emit: " + werr.Error()
		return r
	}
	// every call with a packet of its own is resolved once the registry has shrunk
	want := 0
	for i := range calls {
		if len(allowed[i]) == 0 {
			want++
		}
	}
	if !c12Wait(5*time.Second, func() bool { return c12RegSize(e.cl) <= want }) {
		fail("reader-stalled", fmt.Sprintf("packets not processed within 5 s: registry size %d, expected %d", c12RegSize(e.cl), want))
	}
	if time.Since(calls[0].start) > D/2 {
		r.slow = true
	}
	r.outs = make([]sx.V, ncalls)
	var stuckUntil time.Time
	for i, c := range calls {
		left := time.Until(c.start.Add(D + c12Hang))
		if c12Stuck(e.cl) { // the client is wedged: nothing will return any more; 300 ms for all of them
			if stuckUntil.IsZero() {
				stuckUntil = time.Now().Add(300 * time.Millisecond)
			}
			if l := time.Until(stuckUntil); l < left {
				left = l
			}
		}
		if !c.wait(left) {
			r.hang = true
			fail("call-hangs", fmt.Sprintf("call %d has not returned %v after its deadline of %v", i, c12Hang, D))
		}
		r.outs[i] = c12Outcome(c, datum)
		if !c.returned() {
			continue
		}
		in := false
		switch c.class() {
		case c12Ok:
			d, known := datum[string(c.res)]
			for _, h := range allowed[i] {
				if known && h.ok && h.d == d {
					in = true
				}
			}
			if !in {
				fail("foreign-answer", fmt.Sprintf("call %d returned data that is not the first answer for its id on any connection", i))
			}
		case c12Timeout:
			if len(allowed[i]) == 0 {
				in = true
			}
			for _, h := range allowed[i] {
				if !h.ok {
					in = true
				}
			}
			if !in && !r.slow {
				fail("lost-answer", fmt.Sprintf("call %d timed out although an answer for its id was sent well before its deadline", i))
			}
			if c.dur < D-5*time.Millisecond {
				fail("early-timeout", fmt.Sprintf("call %d returned a timeout after %v, deadline %v", i, c.dur, D))
			}
		default:
			fail("unexpected-error", fmt.Sprintf("call %d: %v", i, c.err))
		}
	}
	if c12Stuck(e.cl) {
		fail("registry-lock-stuck", c12StuckWhat)
	}
	if n := c12RegSize(e.cl); n > 0 {
		fail("registry-leak", fmt.Sprintf("%d entries left in the registry after all calls returned", n))
	}
	return r
}

func c12RaceRobust(nconn, ncalls int, ems []sx.V, D time.Duration) c12RaceRes {
	var r c12RaceRes
	for try := 0; try < 6; try++ {
		r = runC12Race(nconn, ncalls, ems, D)
		lost := false // an answer that missed the deadline: decide with a longer deadline
		for _, f := range r.fails {
			if f.key == "lost-answer" {
				lost = true
			}
		}
		if (!r.slow && !lost) || r.bad != "" || r.hang {
			return r
		}
		D *= 2
	}
	return r
}

// c12.race input: (nconn ncalls (emission ...) (observed outcome ...)).  On a
// replay the script is run again and judged by the oracle of runC12Race.
func execC12Race(in sx.V) sx.V {
	if v, ok := c12Cache.Load("c12.race " + in.String()); ok {
		return v.(sx.V)
	}
	r := c12RaceRobust(in.List[0].I(), in.List[1].I(), in.List[2].List, c12ScriptD)
	if r.bad != "" {
		return sx.L(sx.A("harness-error"), sx.Str(r.bad))
	}
	if len(r.fails) > 0 {
		return sx.L(sx.A("violation"), sx.Str(r.fails[0].key))
	}
	return sx.L(sx.A("accept"), sx.Nat(0))
}

// ---- c12.seq ----

type c12SeqRes struct {
	events []sx.V
	slow   bool
	bad    string
	fails  []c12Fail
}

const c12ReconnectBound = 5 * time.Second

// runC12Seq: (nconn (action ...)) with one call at a time.
//
//	('call m)      m=0: answered on the connection it arrived on, m=1: on the next
//	               healthy connection, m=2: not answered
//	('calldrop r)  the connection is closed while the call waits (r=1: RST)
//	('drop k r)    an idle connection is closed
//	('flood k n)   n tcp.authentificationNonce packets, then an abortive close
//	('recover)     calls until every connection is established again, then one
//	               more round over all connections, which must succeed
func runC12Seq(nconn int, acts []sx.V, D time.Duration) (r c12SeqRes) {
	e, err := newC12Env(nconn, D)
	if err != nil {
		r.bad = "env: " + err.Error()
		return r
	}
	defer e.close()
	fail := func(key, what string) { r.fails = append(r.fails, c12Fail{key, what}) }
	log := func(v sx.V) { r.events = append(r.events, v) }
	healthy := make([]bool, nconn)
	for k := range healthy {
		healthy[k] = true
	}
	gens := make([]int, nconn)
	for k := range gens {
		_, gens[k] = e.srv.lns[k].current()
	}
	next := 0
	seq := uint64(1)
	// after a failed send the client must re-establish the connection by itself
	waitUp := func() {
		for k := range healthy {
			if healthy[k] {
				continue
			}
			t0 := time.Now()
			stuck := false
			ok := c12Wait(c12ReconnectBound, func() bool {
				_, g := e.srv.lns[k].current()
				if g <= gens[k] || stuck {
					return false
				}
				st, answered := c12Status(e.conns[k])
				stuck = !answered
				return answered && st == liteclient.Connected
			})
			if stuck {
				fail("connection-lock-stuck", fmt.Sprintf("Connection.Status() of connection %d did not return within 1 s: Connection.mu is never released", k))
				r.bad = "stuck"
				return
			}
			if !ok {
				fail("no-reconnect", fmt.Sprintf("connection %d not re-established %v after a failed send", k, time.Since(t0)))
				r.bad = "no reconnect"
				return
			}
			_, gens[k] = e.srv.lns[k].current()
			healthy[k] = true
			log(sx.L(sx.A("up"), sx.Nat(k)))
		}
	}
	// one call; mode 0/1/2 as above, 3: drop its connection while it waits
	doCall := func(mode, rst int) int {
		i := next
		next++
		c := e.startCall(i, 0)
		var q c12Query
		got := false
		c12Wait(5*time.Second, func() bool {
			q, got = e.srv.query(c.key)
			return got || c.returned()
		})
		if !got {
			q, got = e.srv.query(c.key)
		}
		answered := false
		if got {
			log(sx.L(sx.A("recv"), sx.Nat(i), sx.Nat(q.k)))
			switch mode {
			case 0, 1:
				k := q.k
				if mode == 1 {
					for j := 1; j <= nconn; j++ {
						if healthy[(q.k+j)%nconn] {
							k = (q.k + j) % nconn
							break
						}
					}
				}
				d := seq<<11 | uint64(4+i%9)
				seq++
				log(sx.L(sx.A("ans"), sx.Nat(k), sx.Nat(i), sx.N(d)))
				if err := e.srv.emit(k, c12Answer(q.id, c12Data(d))); err != nil {
					r.bad = "emit: " + err.Error()
					return c12Other
				}
				answered = true
				if !c.wait(D + c12Hang) {
					fail("call-hangs", fmt.Sprintf("call %d has not returned", i))
				}
				if c.returned() && c.class() == c12Ok && string(c.res) == string(c12Data(d)) {
					log(sx.L(sx.A("ret"), sx.Nat(i), sx.L(sx.A("ok"), sx.N(d))))
					return c12Ok
				}
			case 3:
				log(sx.L(sx.A("drop"), sx.Nat(q.k), sx.Nat(rst)))
				e.srv.drop(q.k, rst == 1)
				healthy[q.k] = false
			}
		}
		if !c.wait(time.Until(c.start.Add(D + c12Hang))) {
			fail("call-hangs", fmt.Sprintf("call %d has not returned %v after its deadline of %v", i, c12Hang, D))
			r.bad = "hang"
			return c12Other
		}
		if !got && c.class() == c12Timeout {
			// sent into the void, or a server goroutine that was not scheduled in time?
			if c12Wait(300*time.Millisecond, func() bool { _, ok := e.srv.query(c.key); return ok }) {
				r.slow = true
			}
		}
		switch c.class() {
		case c12Timeout:
			if answered {
				r.slow = true // answered calls time out only when the machine stalls
			}
			if c.dur < D-5*time.Millisecond {
				fail("early-timeout", fmt.Sprintf("call %d returned a timeout after %v, deadline %v", i, c.dur, D))
			}
			log(sx.L(sx.A("ret"), sx.Nat(i), sx.A("expired")))
		case c12SendErr:
			log(sx.L(sx.A("ret"), sx.Nat(i), sx.A("err")))
			waitUp()
		case c12Ok:
			fail("foreign-answer", fmt.Sprintf("call %d returned %d bytes although it was not answered", i, len(c.res)))
			log(sx.L(sx.A("ret"), sx.Nat(i), sx.L(sx.A("ok"), sx.N(0))))
		default:
			fail("unexpected-error", fmt.Sprintf("call %d: %v", i, c.err))
			r.bad = "unexpected error"
		}
		return c.class()
	}
	allHealthy := func() bool {
		for _, h := range healthy {
			if !h {
				return false
			}
		}
		return true
	}
	for _, a := range acts {
		if r.bad != "" {
			return r
		}
		switch a.Head() {
		case "call":
			doCall(a.List[1].I(), 0)
		case "calldrop":
			if allHealthy() {
				doCall(3, a.List[1].I())
			}
		case "drop":
			k := a.List[1].I()
			if allHealthy() {
				log(sx.L(sx.A("drop"), sx.Nat(k), a.List[2]))
				e.srv.drop(k, a.List[2].I() == 1)
				healthy[k] = false
				// let the FIN / RST reach the client's socket
				time.Sleep(2 * time.Millisecond)
			}
		case "flood":
			// auth nonce packets (the client has no auth key), then an abortive close:
			// the client's old reader is still working through them while it reconnects
			k := a.List[1].I()
			if allHealthy() {
				fc, _ := e.srv.lns[k].current()
				for n := a.List[2].I(); n > 0; n-- {
					if fc.send(c12Nonce()) != nil {
						break
					}
				}
				log(sx.L(sx.A("nonce"), sx.Nat(k)))
				log(sx.L(sx.A("drop"), sx.Nat(k), sx.Nat(1)))
				e.srv.drop(k, true)
				healthy[k] = false
			}
		case "recover":
			t0 := time.Now()
			for n := 0; !allHealthy() && r.bad == ""; n++ {
				if n >= 6*nconn+6 {
					fail("no-reconnect", fmt.Sprintf("connection still down after %d calls and %v", n, time.Since(t0)))
					r.bad = "no reconnect"
					return r
				}
				doCall(0, 0)
			}
			for n := 0; n < nconn+1 && r.bad == ""; n++ {
				if cl := doCall(n%2, 0); cl != c12Ok && !r.slow && r.bad == "" {
					fail("later-call-fails", fmt.Sprintf("call after the reconnect returned class %d", cl))
				}
			}
			log(sx.L(sx.A("reg"), sx.Nat(c12RegSize(e.cl))))
		}
	}
	if c12Stuck(e.cl) {
		fail("registry-lock-stuck", c12StuckWhat)
	}
	if n := c12RegSize(e.cl); n > 0 {
		fail("registry-leak", fmt.Sprintf("%d entries left in the registry after all calls returned", n))
	}
	return r
}

// Status() takes Connection.mu: do not let a stuck lock freeze the harness
func c12Status(c *liteclient.Connection) (liteclient.ConnectionStatus, bool) {
	ch := make(chan liteclient.ConnectionStatus, 1)
	go func() { ch <- c.Status() }()
	select {
	case st := <-ch:
		return st, true
	case <-time.After(time.Second):
		return 0, false
	}
}

func c12SeqRobust(nconn int, acts []sx.V, D time.Duration) c12SeqRes {
	var r c12SeqRes
	for try := 0; try < 6; try++ {
		r = runC12Seq(nconn, acts, D)
		if !r.slow || r.bad != "" {
			return r
		}
		D *= 2
	}
	return r
}

const c12SeqD = 60 * time.Millisecond

// c12.seq input: (nconn (action ...) (observed event ...))
func execC12Seq(in sx.V) sx.V {
	if v, ok := c12Cache.Load("c12.seq " + in.String()); ok {
		return v.(sx.V)
	}
	if acts := in.List[1].List; len(acts) == 1 && (acts[0].Head() == "alive" || acts[0].Head() == "outage" || acts[0].Head() == "pinger" || acts[0].Head() == "blackhole") {
		var fails []c12Fail
		var bad string
		if acts[0].Head() == "alive" {
			_, fails, bad = runC12Alive(acts[0].List[1].I())
		} else if acts[0].Head() == "blackhole" {
			_, fails, bad = runC12BlackHoleAuth(acts[0].List[1].I(), acts[0].List[2].I(), len(acts[0].List) > 3 && acts[0].List[3].I() == 1)
		} else if acts[0].Head() == "pinger" {
			_, fails, bad = runC12Pinger(acts[0].List[1].I() == 1)
		} else {
			_, fails, bad = runC12Outage(acts[0].List[1].I() == 1)
		}
		if bad != "" {
			return sx.L(sx.A("harness-error"), sx.Str(bad))
		}
		if len(fails) > 0 {
			return sx.L(sx.A("violation"), sx.Str(fails[0].key))
		}
		return sx.A("accept")
	}
	r := c12SeqRobust(in.List[0].I(), in.List[1].List, c12SeqD)
	if r.bad != "" {
		return sx.L(sx.A("harness-error"), sx.Str(r.bad))
	}
	if len(r.fails) > 0 {
		return sx.L(sx.A("violation"), sx.Str(r.fails[0].key))
	}
	return sx.A("accept")
}

// ---- soak: the unmodified constructors, ping traffic, goroutine count ----

// c12Soak runs NewConnection / NewClient / OptionWorkersPerConnection against
// an echoing server: many concurrent calls, goroutine count before and after.
func c12SoakCalls(ncalls, par int) (fails []c12Fail) {
	c12Quiet()
	srv, err := newC12Server(1)
	if err != nil {
		return []c12Fail{{"harness", err.Error()}}
	}
	srv.autoPong = true
	fail := func(key, what string) { fails = append(fails, c12Fail{key, what}) }
	ctx, cancel := context.WithTimeout(context.Background(), 5*time.Second)
	conn, err := liteclient.NewConnection(ctx, srv.pub, srv.lns[0].ln.Addr().String())
	cancel()
	if err != nil {
		return []c12Fail{{"harness", err.Error()}}
	}
	cl := liteclient.NewClient(conn, liteclient.OptionTimeout(2*time.Second), liteclient.OptionWorkersPerConnection(3))
	// echo server: poll the query table and answer on the connection after the
	// one the query arrived on, twice, with junk in between
	stop := make(chan struct{})
	var answered sync.Map
	go func() {
		for {
			select {
			case <-stop:
				return
			default:
			}
			srv.mu.Lock()
			var todo []string
			for key := range srv.q {
				if _, ok := answered.Load(key); !ok {
					todo = append(todo, key)
				}
			}
			qs := make([]c12Query, len(todo))
			for j, key := range todo {
				qs[j] = srv.q[key]
			}
			srv.mu.Unlock()
			l := srv.lns[0]
			l.mu.Lock()
			all := append([]*c12Conn{}, l.all...)
			l.mu.Unlock()
			for j, key := range todo {
				answered.Store(key, true)
				sum := sha256.Sum256([]byte(key))
				fc := all[(j+1)%len(all)]
				fc.send(c12Answer(qs[j].id, sum[:]))
				if j%5 == 0 {
					fc.send(c12Junk(j))
					fc.send(c12Answer(qs[j].id, []byte("duplicate")))
				}
			}
			time.Sleep(50 * time.Microsecond)
		}
	}()
	batch := func(n int, base int) {
		var wg sync.WaitGroup
		var mu sync.Mutex
		for g := 0; g < par; g++ {
			wg.Add(1)
			go func(g int) {
				defer wg.Done()
				for j := g; j < n; j += par {
					key := make([]byte, 16)
					copy(key, fmt.Sprintf("soak%012d", base+j))
					res, err := cl.Request(context.Background(), key)
					want := sha256.Sum256(key)
					mu.Lock()
					if err != nil {
						fail("soak-call-fails", fmt.Sprintf("call %d: %v", base+j, err))
					} else if string(res) != string(want[:]) {
						fail("foreign-answer", fmt.Sprintf("soak call %d returned another answer", base+j))
					}
					mu.Unlock()
				}
			}(g)
		}
		done := make(chan struct{})
		go func() { wg.Wait(); close(done) }()
		select {
		case <-done:
		case <-time.After(60 * time.Second):
			mu.Lock()
			fail("call-hangs", fmt.Sprintf("soak: calls of batch %d have not all returned after 60 s (client timeout 2 s)", base))
			mu.Unlock()
		}
	}
	batch(200, 0)
	time.Sleep(20 * time.Millisecond)
	g0 := runtime.NumGoroutine()
	batch(ncalls, 1000)
	time.Sleep(20 * time.Millisecond)
	g1 := runtime.NumGoroutine()
	if g1 > g0+2 {
		fail("goroutine-growth", fmt.Sprintf("%d goroutines before and %d after %d completed calls", g0, g1, ncalls))
	}
	if n := c12RegSize(cl); n > 0 {
		fail("registry-leak", fmt.Sprintf("%d entries left after the soak", n))
	}
	if okv, answered := c12Watch(func() bool { return cl.IsOK() }); !answered || !okv {
		fail("soak-not-ok", "IsOK() is false on a healthy client")
	}
	close(stop)
	// the ping goroutines of these connections live as long as the process; keep
	// the server up so that they stay quiet
	return fails
}
