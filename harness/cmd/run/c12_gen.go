package main

import (
	"context"
	"crypto/sha256"
	"fmt"
	"os"
	"strings"
	"sync"
	"time"

	"github.com/tonkeeper/tongo/liteclient"

	"verifharness/prng"
	"verifharness/sx"
)

func init() {
	execs["c12.script"] = execC12Script
	execs["c12.race"] = execC12Race
	execs["c12.seq"] = execC12Seq
	execs["c12.auth"] = execC12Auth
	gens["C12"] = genC12
}

// ---- script builders ----

type c12Datum struct {
	seq     uint64
	hadZero bool
}

var c12Lens = []int{1, 3, 4, 5, 8, 32, 100, 252, 253, 254, 255, 256, 257, 1000, 2047}

// a fresh abstract datum: unique sequence number in the high bits, byte length in the low 11
func (g *c12Datum) next(r *prng.R) uint64 {
	g.seq++
	n := 4 + r.Intn(28)
	if r.Chance(30) {
		n = r.Pick(c12Lens)
	}
	if !g.hadZero && r.Chance(3) {
		g.hadZero = true
		n = 0
	}
	if n < 4 && g.seq > 250 {
		n = 4
	}
	return g.seq<<11 | uint64(n)
}

func c12Op(name string, args ...uint64) sx.V {
	vs := []sx.V{sx.A(name)}
	for _, a := range args {
		vs = append(vs, sx.N(a))
	}
	return sx.L(vs...)
}

func c12Noise(r *prng.R, k int, i int) sx.V {
	switch r.Intn(6) {
	case 5:
		return c12Op("wrong", uint64(k), uint64(i), uint64(4000)<<11|uint64(4+r.Intn(20)))
	case 0:
		return c12Op("unk", uint64(k), uint64(r.Intn(60000)))
	case 1:
		return c12Op("pong", uint64(k), uint64(r.Intn(1000)))
	case 2:
		return c12Op("nonce", uint64(k))
	case 3:
		return c12Op("short", uint64(k), uint64(i))
	default:
		return c12Op("junk", uint64(k), uint64(r.Intn(8)))
	}
}

func c12Bucket(n int) string {
	switch {
	case n <= 1:
		return "1"
	case n <= 4:
		return "2-4"
	case n <= 16:
		return "5-16"
	}
	return "17-64"
}

var c12Sizes = []int{1, 1, 2, 2, 3, 3, 4, 5, 6, 8, 8, 12, 16, 24, 33, 64}

// one wave of calls [from,to): concurrent starts, some late starters, a
// shuffled emission list; returns the ops and whether a connection is dropped
func c12Wave(r *prng.R, g *c12Datum, nconn, from, to int, mayDrop bool) (ops []sx.V, drop bool) {
	conn := func() uint64 { return uint64(r.Intn(nconn)) }
	var early, late []int
	for i := from; i < to; i++ {
		if i > from && r.Chance(20) {
			late = append(late, i)
		} else {
			early = append(early, i)
		}
	}
	// the caller's context of each call; short deadlines and cancellation only for
	// calls that are never answered (which select branch wins is then not a race)
	unanswered := map[int]bool{}
	startOp := func(i int) sx.V {
		switch k := r.Intn(100); {
		case unanswered[i] && k < 25:
			return c12Op("startctx", uint64(i), 2)
		case unanswered[i] && k < 50:
			return c12Op("startctx", uint64(i), 3)
		case k < 70:
			return c12Op("start", uint64(i))
		}
		return c12Op("startctx", uint64(i), 1)
	}
	fate := func(i int) []sx.V {
		ui := uint64(i)
		ans := func() sx.V { return c12Op("ans", conn(), ui, g.next(r)) }
		mal := func() sx.V { return c12Op("mal", conn(), ui, uint64(r.Intn(4))) }
		switch k := r.Intn(100); {
		case k < 50:
			return []sx.V{ans()}
		case k < 65:
			return []sx.V{ans(), ans()}
		case k < 75:
			unanswered[i] = true
			return nil
		case k < 82:
			return []sx.V{mal(), ans()}
		case k < 89:
			return []sx.V{c12Op("short", conn(), ui), ans()}
		case k < 94:
			return []sx.V{ans(), mal()}
		default:
			a := ans()
			b := sx.L(a.List[0], sx.N(conn()), a.List[2], a.List[3]) // the same datum again
			return []sx.V{c12Noise(r, int(conn()), i), a, b}
		}
	}
	var ems []sx.V
	for _, i := range early {
		ems = append(ems, fate(i)...)
	}
	for n := r.Intn(6); n > 0; n-- {
		ems = append(ems, c12Noise(r, int(conn()), early[r.Intn(len(early))]))
	}
	for j := len(ems) - 1; j > 0; j-- {
		k := r.Intn(j + 1)
		ems[j], ems[k] = ems[k], ems[j]
	}
	// late starters: the start op at a random place, their packets after it
	for _, i := range late {
		p := r.Intn(len(ems) + 1)
		fi := fate(i)
		rest := append([]sx.V{startOp(i)}, ems[p:]...)
		ems = append(append([]sx.V{}, ems[:p]...), rest...)
		for _, e := range fi {
			q := p + 1 + r.Intn(len(ems)-p)
			tail := append([]sx.V{e}, ems[q:]...)
			ems = append(append([]sx.V{}, ems[:q]...), tail...)
		}
	}
	for _, i := range early {
		ops = append(ops, startOp(i))
	}
	// a connection dies after the last start; later packets go elsewhere
	if mayDrop && nconn >= 2 && r.Chance(30) {
		drop = true
		last := 0
		for j, e := range ems {
			if e.Head() == "start" || e.Head() == "startctx" {
				last = j + 1
			}
		}
		p := last + r.Intn(len(ems)-last+1)
		kd := conn()
		var out []sx.V
		for j, e := range ems {
			if j == p {
				out = append(out, c12Op("drop", kd, uint64(r.Intn(2))))
			}
			if j >= p && e.List[1].U64() == kd {
				l := append([]sx.V{}, e.List...)
				l[1] = sx.N((kd + 1) % uint64(nconn))
				e = sx.L(l...)
			}
			out = append(out, e)
		}
		if p == len(ems) {
			out = append(out, c12Op("drop", kd, uint64(r.Intn(2))))
		}
		ems = out
	}
	ops = append(ops, ems...)
	// most cancel-only contexts are cancelled by the caller, somewhere after the start
	for j := 0; j < len(ops); j++ {
		if ops[j].Head() == "startctx" && ops[j].List[2].U64() == 3 && r.Chance(70) {
			q := j + 1
			for q < len(ops) && (ops[q].Head() == "start" || ops[q].Head() == "startctx") {
				q++ // not inside a concurrent batch
			}
			q += r.Intn(len(ops) - q + 1)
			for q < len(ops) && (ops[q].Head() == "start" || ops[q].Head() == "startctx") {
				q++
			}
			tail := append([]sx.V{c12Op("cancel", ops[j].List[1].U64())}, ops[q:]...)
			ops = append(append([]sx.V{}, ops[:q]...), tail...)
		}
	}
	ops = append(ops, c12Op("finish"), c12Op("reg"))
	return ops, drop
}

func c12GenScript(r *prng.R) (sx.V, string) {
	nconn := 1 + r.Intn(4)
	ncalls := c12Sizes[r.Intn(len(c12Sizes))]
	g := &c12Datum{}
	waves := 1
	n1 := ncalls
	if ncalls >= 2 && r.Chance(30) {
		waves = 2
		n1 = 1 + r.Intn(ncalls-1)
	}
	ops, drop := c12Wave(r, g, nconn, 0, n1, waves == 1)
	if waves == 2 {
		// answers that arrive after their calls have returned
		for n := r.Intn(4); n > 0; n-- {
			i := uint64(r.Intn(n1))
			if r.Chance(70) {
				ops = append(ops, c12Op("ans", uint64(r.Intn(nconn)), i, g.next(r)))
			} else {
				ops = append(ops, c12Op("mal", uint64(r.Intn(nconn)), i, uint64(r.Intn(4))))
			}
		}
		ops = append(ops, c12Op("reg"))
		var w []sx.V
		w, drop = c12Wave(r, g, nconn, n1, ncalls, true)
		ops = append(ops, w...)
	}
	class := fmt.Sprintf("script|c%d|n%s|w%d", nconn, c12Bucket(ncalls), waves)
	if drop {
		class += "|drop"
	}
	return sx.L(sx.Nat(nconn), sx.Nat(ncalls), sx.L(ops...)), class
}

func c12GenRace(r *prng.R) (nconn, ncalls int, ems []sx.V) {
	nconn = 1 + r.Intn(4)
	if r.Chance(70) && nconn == 1 {
		nconn = 2
	}
	ncalls = 1 + r.Intn(10)
	g := &c12Datum{hadZero: true}
	for i := 0; i < ncalls; i++ {
		for n := r.Intn(4); n > 0; n-- {
			if r.Chance(85) {
				ems = append(ems, c12Op("ans", uint64(r.Intn(nconn)), uint64(i), g.next(r)))
			} else {
				ems = append(ems, c12Op("mal", uint64(r.Intn(nconn)), uint64(i), uint64(r.Intn(4))))
			}
		}
	}
	for n := r.Intn(8); n > 0; n-- {
		ems = append(ems, c12Noise(r, r.Intn(nconn), r.Intn(ncalls)))
	}
	for j := len(ems) - 1; j > 0; j-- {
		k := r.Intn(j + 1)
		ems[j], ems[k] = ems[k], ems[j]
	}
	return
}

func c12GenSeq(r *prng.R) (nconn int, acts []sx.V) {
	nconn = 1 + r.Intn(3)
	calls := func(n int) {
		for ; n > 0; n-- {
			m := uint64(r.Intn(2))
			if r.Chance(10) {
				m = 2
			}
			acts = append(acts, c12Op("call", m))
		}
	}
	calls(r.Intn(2*nconn + 1))
	rounds := 1 + r.Intn(2)
	for ; rounds > 0; rounds-- {
		if r.Chance(20) {
			acts = append(acts, c12Op("flood", uint64(r.Intn(nconn)), uint64(2000+r.Intn(20000))))
		} else if r.Chance(40) {
			acts = append(acts, c12Op("calldrop", uint64(r.Intn(2))))
		} else {
			acts = append(acts, c12Op("drop", uint64(r.Intn(nconn)), uint64(r.Intn(2))))
		}
		acts = append(acts, c12Op("recover"))
		calls(r.Intn(nconn + 1))
	}
	return
}

// ---- generator ----

type c12Job struct {
	kind  string
	class string
	in    sx.V
	out   sx.V
	fails []c12Fail
	bad   string
	run   func(j *c12Job)
}

func genC12(c *Ctx) {
	c12Quiet()
	none := sx.L()
	// unmodified constructors, concurrent calls, goroutine count (nothing else runs yet)
	for _, f := range c12SoakCalls(c.Scale(3000, 30000), 32) {
		c.Fail("c12.soak", none, f.key, f.what)
	}
	for _, f := range c12SourceChecks() {
		c.Fail("c12.source", none, f.key, f.what)
	}
	r8 := c12R8Start(c) // round 8: greeted connections, lock analysis (c12_r8.go)
	defer c12R8Finish(c, r8)
	// the wall-clock scenarios of the silence rule (12 s each) overlap everything else
	// thorough: + the pinger scenario with a FIN (the pinger needs two periods to
	// notice), all black holes on both client sizes, more authenticated black holes
	sel := []int{0, 1, 2, 3, 4, 5, 6, 7, 8, 9, 14, 15, 18}
	if c.Thorough() {
		sel = []int{0, 1, 2, 3, 4, 5, 6, 7, 8, 9, 10, 11, 12, 13, 14, 15, 16, 17, 18}
	}
	alive := make([]*c12Job, 19)
	aliveDone := make(chan int, 19)
	storm := make(chan []c12Fail, 1)
	go func() {
		f, bad := runC12Storm(48, 512<<10)
		if bad != "" && len(f) == 0 {
			f = append(f, c12Fail{"harness-error", bad})
		}
		storm <- f
	}()
	overlap := make(chan []c12Fail, 1)
	go func() {
		f, bad := runC12Overlap(c.Scale(12, 25), 8)
		if bad != "" && len(f) == 0 {
			f = append(f, c12Fail{"harness-error", bad})
		}
		overlap <- f
	}()
	for _, mode := range sel {
		mode := mode
		alive[mode] = &c12Job{kind: "c12.seq", class: []string{"seq|alive|pong-keeps-alive", "seq|alive|nonce-keeps-alive", "seq|alive|silent-reconnects",
			"seq|outage|short", "seq|outage|long", "seq|pinger|survives-reconnect|rst",
			"seq|blackhole|accept-only|c1", "seq|blackhole|partial-handshake|c2", "seq|blackhole|handshake-then-silence|c1", "seq|blackhole|accept-only|c2",
			"seq|pinger|survives-reconnect|fin",
			"seq|blackhole|partial-handshake|c1", "seq|blackhole|handshake-then-silence|c2", "seq|blackhole|accept-only|c1|b",
			"seq|blackhole-auth|no-nonce-silent|c1", "seq|blackhole-auth|auth-ignored|c1", "seq|blackhole-auth|accept-only|c2", "seq|blackhole-auth|auth-ignored|c2", "seq|blackhole-auth|double-nonce|c1"}[mode]}
		go func() {
			j := alive[mode]
			acts := sx.L(sx.L(sx.A("alive"), sx.Nat(mode)))
			var events []sx.V
			var fails []c12Fail
			var bad string
			if mode < 3 {
				events, fails, bad = runC12Alive(mode)
			} else if mode == 5 || mode == 10 {
				acts = sx.L(sx.L(sx.A("pinger"), sx.Nat(map[int]int{5: 1, 10: 0}[mode])))
				events, fails, bad = runC12Pinger(mode == 5)
			} else if mode >= 6 {
				ph := map[int][2]int{6: {1, 1}, 7: {2, 2}, 8: {3, 1}, 9: {1, 2}, 11: {2, 1}, 12: {3, 2}, 13: {1, 1},
					14: {3, 1}, 15: {4, 1}, 16: {1, 2}, 17: {4, 2}, 18: {5, 1}}[mode]
				au := 0
				if mode >= 14 {
					au = 1
				}
				acts = sx.L(sx.L(sx.A("blackhole"), sx.Nat(ph[0]), sx.Nat(ph[1]), sx.Nat(au)))
				events, fails, bad = runC12BlackHoleAuth(ph[0], ph[1], au == 1)
				j.in = sx.L(sx.Nat(ph[1]), acts, sx.L(events...))
				j.out, j.fails = sx.A("accept"), fails
				if bad != "" && len(fails) == 0 {
					j.bad = bad
				}
				aliveDone <- mode
				return
			} else {
				acts = sx.L(sx.L(sx.A("outage"), sx.Nat(mode-3)))
				events, fails, bad = runC12Outage(mode == 4)
			}
			j.in = sx.L(sx.Nat(1), acts, sx.L(events...))
			j.out, j.fails = sx.A("accept"), fails
			if bad != "" && len(fails) == 0 {
				j.bad = bad
			}
			aliveDone <- mode
		}()
	}
	idle := make(chan []c12Fail, 1)
	go func() { idle <- c12SoakIdleDrop() }()

	var jobs []*c12Job
	add := func(j *c12Job) { jobs = append(jobs, j) }
	fixed := []struct {
		class string
		in    string
	}{
		{"script|fixed|example", "(n2 n3 (('start n0) ('start n1) ('start n2) ('ans n0 n2 n1004) ('unk n1 n7) ('pong n0 n1) ('ans n0 n0 n2008) ('ans n1 n0 n3008) ('junk n1 n6) ('finish) ('reg)))"},
		{"script|fixed|short-then-answer", "(n1 n1 (('start n0) ('short n0 n0) ('ans n0 n0 n800) ('finish) ('reg)))"},
		{"script|fixed|malformed-then-answer", "(n1 n2 (('start n0) ('start n1) ('mal n0 n0 n3) ('ans n0 n0 n800) ('mal n0 n1 n1) ('finish) ('reg)))"},
		{"script|fixed|empty-answer", "(n1 n1 (('start n0) ('ans n0 n0 n800) ('finish) ('reg)))"},
		{"script|fixed|len-253-254", "(n2 n2 (('start n0) ('start n1) ('ans n1 n0 n8fd) ('ans n0 n1 n10fe) ('finish) ('reg)))"},
		{"script|fixed|caller-contexts", "(n1 n4 (('startctx n0 n1) ('startctx n1 n2) ('startctx n2 n3) ('startctx n3 n3) ('ans n0 n0 n808) ('cancel n2) ('finish) ('reg)))"},
		{"script|fixed|late-answer-next-wave", "(n1 n2 (('start n0) ('finish) ('reg) ('ans n0 n0 n808) ('reg) ('start n1) ('ans n0 n0 n1008) ('ans n0 n1 n1808) ('finish) ('reg)))"},
	}
	for _, f := range fixed {
		v, err := sx.Parse(f.in)
		if err != nil {
			panic(err)
		}
		add(&c12Job{kind: "c12.script", class: f.class, in: v, run: func(j *c12Job) {
			r := c12ScriptRobust(j.in, c12ScriptD)
			j.out, j.fails = r.out, r.fails
		}})
	}
	nScript, nRace, nSeq := c.Scale(150, 1500), c.Scale(90, 900), c.Scale(50, 500)
	for n := 0; n < nScript; n++ {
		in, class := c12GenScript(c.R.Fork(uint64(n)))
		add(&c12Job{kind: "c12.script", class: class, in: in, run: func(j *c12Job) {
			r := c12ScriptRobust(j.in, c12ScriptD)
			j.out, j.fails = r.out, r.fails
		}})
	}
	for n := 0; n < nRace; n++ {
		nconn, ncalls, ems := c12GenRace(c.R.Fork(uint64(100000 + n)))
		add(&c12Job{kind: "c12.race", run: func(j *c12Job) {
			r := c12RaceRobust(nconn, ncalls, ems, c12ScriptD)
			if r.bad != "" {
				j.bad = r.bad
				return
			}
			j.in = sx.L(sx.Nat(nconn), sx.Nat(ncalls), sx.L(ems...), sx.L(r.outs...))
			j.out, j.fails = sx.L(sx.A("accept"), sx.Nat(0)), r.fails
			j.class = fmt.Sprintf("race|c%d|n%s|%s", nconn, c12Bucket(ncalls), c12RaceShape(nconn, ncalls, ems, r.outs))
		}})
	}
	for n := 0; n < nSeq; n++ {
		nconn, acts := c12GenSeq(c.R.Fork(uint64(200000 + n)))
		add(&c12Job{kind: "c12.seq", run: func(j *c12Job) {
			r := c12SeqRobust(nconn, acts, c12SeqD)
			j.in = sx.L(sx.Nat(nconn), sx.L(acts...), sx.L(r.events...))
			j.fails = r.fails
			if r.bad != "" && len(r.fails) == 0 {
				j.bad = r.bad
				return
			}
			j.out = sx.A("accept")
			j.class = fmt.Sprintf("seq|c%d|%s", nconn, c12SeqShape(r.events))
		}})
	}
	// run in parallel, record in order
	var wg sync.WaitGroup
	ch := make(chan *c12Job)
	for w := 0; w < 12; w++ {
		wg.Add(1)
		go func() {
			defer wg.Done()
			for j := range ch {
				func() {
					defer func() {
						if r := recover(); r != nil {
							j.bad = fmt.Sprintf("panic: %v", r)
						}
					}()
					t0 := time.Now()
					j.run(j)
					if d := time.Since(t0); d > 3*time.Second && os.Getenv("C12_DEBUG") != "" {
						fmt.Fprintf(os.Stderr, "slow job %s %v %s\n", j.kind, d, trunc(j.in.String(), 150))
					}
				}()
			}
		}()
	}
	for _, j := range jobs {
		ch <- j
	}
	close(ch)
	wg.Wait()
	for _, j := range jobs {
		if j.bad != "" {
			fmt.Fprintf(os.Stderr, "c12: %s: harness error: %s\n", j.kind, j.bad)
			c.Fail(j.kind, none, "harness-error", j.bad)
			continue
		}
		c12Cache.Store(j.kind+" "+j.in.String(), j.out)
		c.Emit(j.kind, j.in, j.class)
		for _, f := range j.fails {
			c.Fail(j.kind, j.in, f.key, f.what)
		}
	}
	// real constructors with and without an auth key, in the guarded child (while
	// the wall-clock scenarios are still running)
	nAuth, nSized := c.Scale(8, 24), c.Scale(3, 10)
	for n := 0; n < nAuth+nSized; n++ {
		in := c12GenAuth(c.R.Fork(uint64(300000+n)), n)
		class := fmt.Sprintf("auth|c%d|key%d", in.List[0].I(), in.List[1].I())
		if n >= nAuth {
			in = c12GenSizes(c.R.Fork(uint64(400000+n)), n-nAuth, c.Thorough())
			class = fmt.Sprintf("sizes|c%d|key%d", in.List[0].I(), in.List[1].I())
		}
		out := c.EmitGuarded("c12.auth", in, class).String()
		switch {
		case strings.Contains(out, "'crash") || strings.Contains(out, "'timeout"):
			c.Fail("c12.auth", in, "process-crash", "the process died (or froze) during the scenario: "+out)
		case strings.Contains(out, "'hang"):
			c.Fail("c12.auth", in, "call-hangs", "a call under a caller deadline of 1 h did not return by the client timeout, or NewConnection did not return by its context deadline: "+trunc(out, 200))
		case strings.Contains(out, "'query-undecodable"):
			c.Fail("c12.auth", in, "query-undecodable", "the server could not read the adnl.message.query of a raw Request (sizes in the input): the call cannot get the answer for its own query: "+trunc(out, 200))
		case strings.Contains(out, "'deaf"):
			c.Fail("c12.auth", in, "deaf-connection", "after a frame it cannot parse the client keeps the connection open but reads nothing more: "+trunc(out, 200))
		case strings.Contains(out, "'goroutine-growth"):
			c.Fail("c12.auth", in, "goroutine-growth", "calls issued while a connection is in a black hole leave goroutines behind: "+trunc(out, 200))
		case strings.Contains(out, "'noreconnect"):
			c.Fail("c12.auth", in, "no-reconnect", "the connection was not re-established after a failed send: "+trunc(out, 200))
		}
	}
	for range sel {
		<-aliveDone
	}
	c.Note("c12.storm", "overlap|8-reconnects", none)
	for _, f := range <-overlap {
		c.Fail("c12.storm", none, f.key, f.what)
	}
	c.Note("c12.storm", "storm|48x512KiB", none)
	for _, f := range <-storm {
		c.Fail("c12.storm", none, f.key, f.what)
	}
	for _, j := range alive {
		if j == nil {
			continue
		}
		if strings.Contains(j.class, "double-nonce") && j.bad == "" {
			// what "up" means is blurred when the server accepts an authentication whose
			// first answer the client has already rejected: judged by the oracle only
			// (no call hangs, Connection.mu is never stuck, re-established in time)
			c.Note("c12.seq", j.class, j.in)
			for _, f := range j.fails {
				c.Fail(j.kind, j.in, f.key, f.what)
			}
			continue
		}
		if j.bad != "" {
			fmt.Fprintf(os.Stderr, "c12: alive: harness error: %s\n", j.bad)
			c.Fail(j.kind, none, "harness-error", j.bad)
			continue
		}
		c12Cache.Store(j.kind+" "+j.in.String(), j.out)
		c.Emit(j.kind, j.in, j.class)
		for _, f := range j.fails {
			c.Fail(j.kind, j.in, f.key, f.what)
		}
	}
	for _, f := range <-idle {
		c.Fail("c12.soak", none, f.key, f.what)
	}
}

// coverage class of a race: was any call contested (answers on several
// connections), and did a packet that is later in the script win
func c12RaceShape(nconn, ncalls int, ems, outs []sx.V) string {
	first := map[uint64]string{}
	conns := map[uint64]map[uint64]bool{}
	for _, e := range ems {
		if h := e.Head(); h == "ans" || h == "mal" {
			i := e.List[2].U64()
			if conns[i] == nil {
				conns[i] = map[uint64]bool{}
			}
			conns[i][e.List[1].U64()] = true
			if _, ok := first[i]; !ok {
				if h == "ans" {
					first[i] = sx.L(sx.A("ok"), e.List[3]).String()
				} else {
					first[i] = sx.A("expired").String()
				}
			}
		}
	}
	contested, reordered, timeouts := false, false, false
	for i, o := range outs {
		if len(conns[uint64(i)]) >= 2 {
			contested = true
		}
		if f, ok := first[uint64(i)]; ok && f != o.String() {
			reordered = true
		}
		if o.IsA("expired") {
			timeouts = true
		}
	}
	s := "plain"
	if contested {
		s = "contested"
	}
	if reordered {
		s += "|reordered"
	}
	if timeouts {
		s += "|timeout"
	}
	return s
}

func c12SeqShape(events []sx.V) string {
	void, errs, ups, mid, flood := 0, 0, 0, false, false
	sent := map[uint64]bool{}
	open := false
	for _, e := range events {
		switch e.Head() {
		case "recv":
			sent[e.List[1].U64()] = true
			open = true
		case "drop":
			if open {
				mid = true
			}
		case "nonce":
			flood = true
		case "up":
			ups++
		case "ret":
			open = false
			if e.List[2].IsA("err") {
				errs++
			}
			if e.List[2].IsA("expired") && !sent[e.List[1].U64()] {
				void++
			}
		}
	}
	s := fmt.Sprintf("up%d", ups)
	if flood {
		s += "|nonce-flood"
	}
	if mid {
		s += "|mid-request"
	}
	if void > 0 {
		s += "|sent-into-void"
	}
	if errs > 1 {
		s += "|errs2+"
	}
	return s
}

// the server closes idle connections of an unmodified client (ping goroutine
// running): the client has to notice and reconnect by itself; later calls succeed
func c12SoakIdleDrop() (fails []c12Fail) {
	fail := func(key, what string) { fails = append(fails, c12Fail{key, what}) }
	srv, err := newC12Server(1)
	if err != nil {
		return []c12Fail{{"harness-error", err.Error()}}
	}
	srv.autoPong = true
	ctx, cancel := context.WithTimeout(context.Background(), 5*time.Second)
	conn, err := liteclient.NewConnection(ctx, srv.pub, srv.lns[0].ln.Addr().String())
	cancel()
	if err != nil {
		return []c12Fail{{"harness-error", err.Error()}}
	}
	cl := liteclient.NewClient(conn, liteclient.OptionTimeout(500*time.Millisecond), liteclient.OptionWorkersPerConnection(2))
	l := srv.lns[0]
	if !c12Wait(2*time.Second, func() bool { _, g := l.current(); return g >= 2 }) {
		return []c12Fail{{"harness-error", "second connection not established"}}
	}
	call := func(n int) bool {
		key := make([]byte, 16)
		copy(key, fmt.Sprintf("idle%012d", n))
		done := make(chan struct{})
		var res []byte
		var rerr error
		go func() { res, rerr = cl.Request(context.Background(), key); close(done) }()
		var q c12Query
		if c12Wait(time.Second, func() bool { var ok bool; q, ok = srv.query(key); return ok }) {
			sum := sha256.Sum256(key)
			l.mu.Lock()
			all := append([]*c12Conn{}, l.all...)
			l.mu.Unlock()
			for _, fc := range all[len(all)-2:] {
				fc.send(c12Answer(q.id, sum[:]))
			}
		}
		select {
		case <-done:
		case <-time.After(5 * time.Second):
			return false // hangs past its 500 ms deadline
		}
		sum := sha256.Sum256(key)
		return rerr == nil && string(res) == string(sum[:])
	}
	for n := 0; n < 4; n++ {
		if !call(n) {
			fail("soak-call-fails", "call on a fresh two-connection client failed")
		}
	}
	_, g0 := l.current()
	l.mu.Lock()
	for j, fc := range l.all {
		if tc, ok := fc.c.(interface{ SetLinger(int) error }); ok && j%2 == 1 {
			tc.SetLinger(0)
		}
		fc.c.Close()
	}
	l.mu.Unlock()
	t0 := time.Now()
	const bound = 15 * time.Second // two ping periods of 3 s + margin
	if !c12Wait(bound, func() bool { _, g := l.current(); return g >= g0+2 && c12IsOK(cl) }) {
		_, g := l.current()
		fail("no-reconnect-idle", fmt.Sprintf("%d of 2 idle connections re-established %v after the server closed them", g-g0, bound))
		return fails
	}
	took := time.Since(t0)
	time.Sleep(5 * time.Millisecond)
	okc := 0
	for n := 10; n < 14; n++ {
		if call(n) {
			okc++
		}
	}
	if okc != 4 {
		fail("later-call-fails", fmt.Sprintf("%d of 4 calls succeeded after the client reconnected by itself (%v)", okc, took))
	}
	return fails
}
