package main

// C03: TL-B values survive encode/decode for every type the library ships.
//
//	c03.rt  (name descriptor value) -> 'err | (cell value' consumed-all reencoded-same)
//	        tlb.Marshal of the Go value built from `value`; tlb.Unmarshal of that
//	        cell; tlb.Marshal of the decoded value again (hash compared)
//	c03.dec (name descriptor cell)  -> 'err | (value consumed-all reencoded-same)
//	        tlb.Unmarshal of a given cell (real chain data), tlb.Marshal again
//
// The descriptor travels with the case: it is what the reflect walk of
// harness/tlbdesc makes of today's Go type, and the model interprets exactly
// that term.  Types without a descriptor are listed by the translator
// (Generated/TlbTypes.v: tlb_opaque, tlb_decode_only), not exercised here.

import (
	"bytes"
	"encoding/hex"
	"fmt"
	"math/big"
	"os"
	"path/filepath"
	"reflect"
	"sort"
	"strings"
	"sync"

	"github.com/tonkeeper/tongo/boc"
	"github.com/tonkeeper/tongo/tlb"

	"verifharness/prng"
	"verifharness/sx"
	"verifharness/tlbdesc"
	"verifharness/tlbreg"
)

func init() {
	execs["c03.rt"] = execC03Rt
	execs["c03.dec"] = execC03Dec
	execs["c03.stack"] = execC03Stack
	execs["c03.cur"] = execC03Cur
	gens["C03"] = genC03
}

type c03Type struct {
	name  string
	t     reflect.Type
	d     *tlbdesc.Desc
	dsx   string
	class string
	ext   bool // the descriptor uses the extension layer (snake data, length-prefixed bytes): served by c03.rt through the xty syntax
}

func (ct *c03Type) descSx() sx.V {
	if ct.ext {
		return ct.d.SxX()
	}
	return ct.d.Sx()
}

var (
	c03Once  sync.Once
	c03Types map[string]*c03Type
	c03Names []string
)

func c03Load() {
	c03Once.Do(func() {
		c03Types = map[string]*c03Type{}
		for _, e := range tlbreg.Types {
			class, _, d := tlbdesc.Classify(e.Name, e.T)
			ct := &c03Type{name: e.Name, t: e.T, d: d, class: class}
			if class == tlbdesc.ClassDescribed {
				ct.ext = d.HasExt()
				ct.dsx = ct.descSx().String()
				c03Names = append(c03Names, e.Name)
			}
			c03Types[e.Name] = ct
		}
		sort.Strings(c03Names)
	})
}

func c03Lookup(in sx.V, n int) (*c03Type, sx.V) {
	c03Load()
	if in.K != sx.KL || len(in.List) != n || in.List[0].K != sx.KBytes {
		return nil, sx.L(sx.A("harness-error"), sx.A("shape"))
	}
	ct := c03Types[string(in.List[0].Bytes)]
	if ct == nil {
		ct = c03AtLookup(string(in.List[0].Bytes))
	}
	if ct == nil {
		ct = c03FullLookup(string(in.List[0].Bytes)) // c03_r8.go
	}
	if ct == nil || ct.class != tlbdesc.ClassDescribed {
		return nil, sx.L(sx.A("harness-error"), sx.A("unknown-type"))
	}
	// the descriptor in the case must be the one of today's Go type
	if in.List[1].String() != ct.dsx {
		return nil, sx.L(sx.A("harness-error"), sx.A("descriptor-changed"))
	}
	return ct, sx.V{}
}

func cellFullyRead(c *boc.Cell) bool {
	return c.BitsAvailableForRead() == 0 && c.RefsAvailableForRead() == 0
}

func sameHash(a, b *boc.Cell) bool {
	ha, err1 := a.Hash()
	hb, err2 := b.Hash()
	return err1 == nil && err2 == nil && bytes.Equal(ha, hb)
}

func execC03Rt(in sx.V) sx.V {
	ct, e := c03Lookup(in, 3)
	if ct == nil {
		return e
	}
	pv := reflect.New(ct.t)
	if err := ct.d.Fill(in.List[2], pv.Elem()); err != nil {
		return sx.L(sx.A("harness-error"), sx.A("fill"), sx.Str(err.Error()))
	}
	c := boc.NewCell()
	if err := tlb.Marshal(c, pv.Elem().Interface()); err != nil {
		return sx.A("err")
	}
	cs := tlbdesc.CellSx(c)
	pv2 := reflect.New(ct.t)
	c.ResetCounters()
	if err := tlb.Unmarshal(c, pv2.Interface()); err != nil {
		return sx.L(cs, sx.A("decode-err"))
	}
	all := cellFullyRead(c) || ct.d.IsTail()
	v2 := ct.d.Render(pv2.Elem())
	c3 := boc.NewCell()
	again := tlb.Marshal(c3, pv2.Elem().Interface()) == nil && sameHash(c3, c)
	return sx.L(cs, v2, sx.B(all), sx.B(again))
}

func execC03Dec(in sx.V) sx.V {
	if in.K == sx.KL && len(in.List) == 2 && in.List[0].IsA("tag") && in.List[1].K == sx.KBytes {
		return execC03Tag(string(in.List[1].Bytes))
	}
	ct, e := c03Lookup(in, 3)
	if ct == nil {
		return e
	}
	c := tlbdesc.CellFromSx(in.List[2])
	pv := reflect.New(ct.t)
	if err := tlb.Unmarshal(c, pv.Interface()); err != nil {
		return sx.A("err")
	}
	all := cellFullyRead(c) || ct.d.IsTail()
	v := ct.d.Render(pv.Elem())
	c2 := boc.NewCell()
	c.ResetCounters()
	again := tlb.Marshal(c2, pv.Elem().Interface()) == nil && sameHash(c2, c)
	return sx.L(v, sx.B(all), sx.B(again))
}

// c03.cur (name descriptor value k) -> 'err | (cell): tlb.Marshal after the read
// cursors of the bit strings and cells inside the Go value were advanced by k
func execC03Cur(in sx.V) sx.V {
	if in.K != sx.KL || len(in.List) != 4 {
		return sx.L(sx.A("harness-error"), sx.A("shape"))
	}
	ct, e := c03Lookup(sx.L(in.List[0], in.List[1], in.List[2]), 3)
	if ct == nil {
		return e
	}
	pv := reflect.New(ct.t)
	if err := ct.d.Fill(in.List[2], pv.Elem()); err != nil {
		return sx.L(sx.A("harness-error"), sx.A("fill"), sx.Str(err.Error()))
	}
	tlbdesc.AdvanceCursors(pv.Elem(), in.List[3].I())
	c := boc.NewCell()
	if err := tlb.Marshal(c, pv.Elem().Interface()); err != nil {
		return sx.A("err")
	}
	return sx.L(tlbdesc.CellSx(c))
}

// c03.stack (descriptor-of-VmStackValue (value...)) -> 'err | (cell (value'...))
func execC03Stack(in sx.V) sx.V {
	c03Load()
	ct := c03Types["tlb.VmStackValue"]
	if ct == nil || ct.class != tlbdesc.ClassDescribed || in.K != sx.KL || len(in.List) != 2 || in.List[0].String() != ct.dsx {
		return sx.L(sx.A("harness-error"), sx.A("stack"))
	}
	var st tlb.VmStack
	for _, v := range in.List[1].List {
		var x tlb.VmStackValue
		if err := ct.d.Fill(v, reflect.ValueOf(&x).Elem()); err != nil {
			return sx.L(sx.A("harness-error"), sx.A("fill"), sx.Str(err.Error()))
		}
		st = append(st, x)
	}
	c := boc.NewCell()
	if err := tlb.Marshal(c, st); err != nil {
		return sx.A("err")
	}
	cs := tlbdesc.CellSx(c)
	var back tlb.VmStack
	c.ResetCounters()
	if err := tlb.Unmarshal(c, &back); err != nil {
		return sx.L(cs, sx.A("decode-err"))
	}
	var out []sx.V
	for i := range back {
		out = append(out, ct.d.Render(reflect.ValueOf(back[i])))
	}
	return sx.L(cs, sx.L(out...))
}

// ('tag x<string>): tlb.ParseTag and parseTag (through the hook) on an arbitrary string
func execC03Tag(s string) sx.V {
	var a, b sx.V
	if t, err := tlb.ParseTag(s); err != nil {
		a = sx.A("err")
	} else {
		a = sx.L(sx.Nat(t.Len), sx.N(t.Val))
	}
	if r, m, mr, err := tlb.VerifParseFieldTag(s); err != nil {
		b = sx.A("err")
	} else {
		b = sx.L(sx.B(r), sx.B(m), sx.B(mr))
	}
	return sx.L(a, b)
}

func c03Tags(c *Ctx) {
	var ts []reflect.Type
	for _, e := range tlbreg.Types {
		ts = append(ts, e.T)
	}
	sum, field := tlbdesc.CollectTags(ts)
	emit := func(fam, s string) {
		for _, ch := range []byte(s) {
			if ch >= 128 {
				return
			}
		}
		c.Emit("c03.dec", sx.L(sx.A("tag"), sx.Str(s)), "tag|"+fam)
	}
	all := append(append([]string{}, sum...), field...)
	for _, s := range all {
		emit("shipped", s)
	}
	alphabet := "#$_^ 0123456789abcdefABCDEFgxmaybeitsr"
	for i := 0; i < c.Scale(400, 6000); i++ {
		s := all[c.R.Intn(len(all))]
		switch c.R.Intn(9) {
		case 0: // drop a character
			if len(s) > 0 {
				k := c.R.Intn(len(s))
				s = s[:k] + s[k+1:]
			}
			emit("mutated", s)
		case 1: // swap the separator
			s = strings.Map(func(r rune) rune {
				if r == '#' {
					return '$'
				}
				if r == '$' {
					return '#'
				}
				return r
			}, s)
			emit("mutated", s)
		case 2:
			emit("mutated", s+string(alphabet[c.R.Intn(len(alphabet))]))
		case 3: // many digits: beyond 32 bits
			emit("mutated", s+strings.Repeat("f", 1+c.R.Intn(9)))
		case 4:
			emit("mutated", strings.ToUpper(s))
		case 5:
			emit("mutated", []string{"maybe", "maybe^", "^", "^ ", "maybe^ "}[c.R.Intn(5)]+s)
		case 6:
			emit("mutated", s+[]string{" bits", "bytes", " # bits", "$"}[c.R.Intn(4)])
		default:
			n := c.R.Intn(12)
			var sb strings.Builder
			for j := 0; j < n; j++ {
				sb.WriteByte(alphabet[c.R.Intn(len(alphabet))])
			}
			emit("random", sb.String())
		}
	}
}

// ------------------------------------------------------------ generators

func c03Pow2(n int) *big.Int { return new(big.Int).Lsh(big.NewInt(1), uint(n)) }

// boundary values of a primitive root descriptor (nil for the other kinds)
func c03Boundaries(d *tlbdesc.Desc, r *prng.R) []sx.V {
	n := func(x *big.Int) sx.V { return sx.L(sx.A("n"), sx.BigN(x)) }
	z := func(x *big.Int) sx.V { return sx.L(sx.A("z"), sx.BigZ(x)) }
	one := big.NewInt(1)
	sub := func(a, b *big.Int) *big.Int { return new(big.Int).Sub(a, b) }
	switch d.K {
	case tlbdesc.KUint, tlbdesc.KBigUint:
		w := d.W
		vs := []sx.V{n(big.NewInt(0)), n(sub(c03Pow2(w), one)), n(c03Pow2(w - 1))}
		if w > 1 {
			vs = append(vs, n(one), n(sub(c03Pow2(w), big.NewInt(2))), n(sub(c03Pow2(w-1), one)))
		}
		if w > 8 {
			vs = append(vs, n(big.NewInt(255)), n(big.NewInt(256)))
		}
		return vs
	case tlbdesc.KInt, tlbdesc.KBigInt:
		w := d.W
		min := new(big.Int).Neg(c03Pow2(w - 1))
		max := sub(c03Pow2(w-1), one)
		vs := []sx.V{z(big.NewInt(0)), z(big.NewInt(-1)), z(min), z(max)}
		if w > 1 {
			vs = append(vs, z(one), z(new(big.Int).Add(min, one)), z(sub(max, one)))
		}
		if w > 9 {
			vs = append(vs, z(big.NewInt(-128)), z(big.NewInt(-129)), z(big.NewInt(-256)), z(big.NewInt(255)))
		}
		return vs
	case tlbdesc.KVarUInt:
		maxBytes := d.W - 1
		if d.Grams && maxBytes > 8 {
			maxBytes = 8
		}
		vs := []sx.V{n(big.NewInt(0))}
		for l := 1; l <= maxBytes; l++ {
			vs = append(vs, n(c03Pow2(8*(l-1))), n(sub(c03Pow2(8*l), one)))
		}
		return vs
	case tlbdesc.KUnary:
		var vs []sx.V
		for _, k := range []int{0, 1, 2, 7, 8, 63, 64, 65, 1021, 1022} {
			vs = append(vs, n(big.NewInt(int64(k))))
		}
		return vs
	case tlbdesc.KBits:
		return []sx.V{sx.L(sx.A("bits"), sx.Bits(strings.Repeat("0", d.W))), sx.L(sx.A("bits"), sx.Bits(strings.Repeat("1", d.W)))}
	}
	return nil
}

func kindName(d *tlbdesc.Desc) string {
	names := map[tlbdesc.Kind]string{tlbdesc.KUint: "uint", tlbdesc.KInt: "int", tlbdesc.KBigUint: "biguint", tlbdesc.KBigInt: "bigint",
		tlbdesc.KBool: "bool", tlbdesc.KBits: "bits", tlbdesc.KVarUInt: "varuint", tlbdesc.KUnary: "unary", tlbdesc.KMagic: "magic",
		tlbdesc.KMaybe: "maybe", tlbdesc.KEither: "either", tlbdesc.KEitherRef: "eitherref", tlbdesc.KRef: "ref", tlbdesc.KMaybeRef: "mayberef",
		tlbdesc.KStruct: "struct", tlbdesc.KSum: "sum", tlbdesc.KAny: "any", tlbdesc.KCellRef: "cellref", tlbdesc.KAddr: "addr",
		tlbdesc.KEnum: "enum", tlbdesc.KDictE: "dict", tlbdesc.KSnake: "snake", tlbdesc.KLenBytes: "lenbytes", tlbdesc.KCellSlice: "cellslice"}
	return names[d.K]
}

func widthBucket(w int) string {
	switch {
	case w <= 1:
		return "w1"
	case w <= 8:
		return "w2-8"
	case w <= 32:
		return "w9-32"
	case w <= 64:
		return "w33-64"
	case w <= 256:
		return "w65-256"
	}
	return "w257+"
}

// class of a case: package, root kind, width bucket / constructor, size bucket of the value
func c03Class(fam string, ct *c03Type, v sx.V) string {
	pkg := ct.name[:strings.IndexByte(ct.name, '.')]
	k := kindName(ct.d)
	extra := ""
	switch ct.d.K {
	case tlbdesc.KUint, tlbdesc.KInt, tlbdesc.KBigUint, tlbdesc.KBigInt, tlbdesc.KBits, tlbdesc.KVarUInt:
		extra = widthBucket(ct.d.W)
	case tlbdesc.KSum, tlbdesc.KEnum:
		if v.K == sx.KL && len(v.List) == 3 {
			c := v.List[1].I()
			if c > 5 {
				extra = "c6+"
			} else {
				extra = fmt.Sprintf("c%d", c)
			}
		}
	case tlbdesc.KAddr:
		if v.K == sx.KL && len(v.List) > 1 {
			extra = v.List[1].Atom
		}
	default:
		l := len(v.String())
		switch {
		case l < 200:
			extra = "small"
		case l < 2000:
			extra = "medium"
		default:
			extra = "large"
		}
	}
	if ct.ext {
		k = "x-" + k
		// where the snake data ends relative to the cell boundary is what matters
		l := len(v.String())
		switch {
		case l < 200:
			extra = "small"
		case l < 1100:
			extra = "one-cell"
		case l < 2200:
			extra = "two-cells"
		default:
			extra = "chain"
		}
	}
	return fam + "|" + pkg + "|" + k + "|" + extra
}

// c03Case emits one round-trip case and evaluates the property oracle on the
// implementation's answer.
func c03Case(c *Ctx, fam string, ct *c03Type, v sx.V) {
	in := sx.L(sx.Str(ct.name), ct.descSx(), v)
	out := c.Emit("c03.rt", in, c03Class(fam, ct, v))
	if out.IsA("err") {
		return // the encoder refuses the value: allowed
	}
	key := "roundtrip-" + ct.name
	if out.IsA("panic") {
		c.Fail("c03.rt", in, key, "tlb.Marshal/Unmarshal panicked on an in-domain value of "+ct.name)
		return
	}
	if out.K != sx.KL || len(out.List) != 4 {
		c.Fail("c03.rt", in, key, "encode succeeded but the produced cell does not decode as "+ct.name+": "+trunc(out.String(), 160))
		return
	}
	if out.List[1].String() != v.String() {
		c.Fail("c03.rt", in, key, "decode(encode v) differs from v for "+ct.name+": got "+trunc(out.List[1].String(), 200))
	}
	if !out.List[2].Bool {
		c.Fail("c03.rt", in, key, "decoding the encoder's own cell leaves unread bits or references ("+ct.name+")")
	}
	if !out.List[3].Bool {
		c.Fail("c03.rt", in, key, "encoding the decoded value again gives a different hash ("+ct.name+")")
	}
}

func c03RandValue(ct *c03Type, r *prng.R) sx.V {
	pv := reflect.New(ct.t)
	v := ct.d.Rand(r, pv.Elem(), 0)
	return v
}

func genC03(c *Ctx) {
	c03Load()
	defer c03R8(c)() // c03_r8.go: the encoder at a full cell (model-compared family now, implementation-only sweep in the background)
	// 1. primitives: every generated integer / bits / VarUInteger type at its boundaries
	for _, name := range c03Names {
		ct := c03Types[name]
		for _, v := range c03Boundaries(ct.d, c.R) {
			c03Case(c, "boundary", ct, v)
		}
	}
	// 2. every described type with random in-domain values (constructors of the
	//    root union are cycled so that each one is hit)
	per := c.Scale(6, 40)
	for _, name := range c03Names {
		ct := c03Types[name]
		n := per
		if ct.d.K == tlbdesc.KSum && n < len(ct.d.Alts) {
			n = len(ct.d.Alts)
		}
		if ct.d.K == tlbdesc.KAddr {
			n = c.Scale(40, 400)
		}
		seen := map[int]bool{}
		for i := 0; i < n || (ct.d.K == tlbdesc.KSum && len(seen) < len(ct.d.Alts) && i < 40*len(ct.d.Alts)); i++ {
			v := c03RandValue(ct, c.R)
			if ct.d.K == tlbdesc.KSum && v.K == sx.KL && len(v.List) == 3 {
				k := v.List[1].I()
				if i >= n && seen[k] {
					continue
				}
				seen[k] = true
			}
			c03Case(c, "random", ct, v)
		}
	}
	// 3. the message / account / transaction layer, more values
	for _, name := range []string{"tlb.Message", "tlb.CommonMsgInfo", "tlb.StateInit", "tlb.CurrencyCollection", "tlb.Account",
		"tlb.AccountStorage", "tlb.TransactionDescr", "tlb.Transaction", "tlb.MsgEnvelope", "tlb.InMsg", "tlb.OutMsg", "tlb.VmStackValue",
		"wallet.MessageV3", "wallet.MessageV4", "wallet.MessageV5", "abi.JettonTransferMsgBody", "abi.NftTransferMsgBody"} {
		ct := c03Types[name]
		if ct == nil || ct.class != tlbdesc.ClassDescribed {
			continue
		}
		for i := 0; i < c.Scale(30, 600); i++ {
			c03Case(c, "core", ct, c03RandValue(ct, c.R))
		}
	}
	// 2b. every fixed-width integer type at every bit offset mod 8 (and beyond: 0..15 bits
	//     written before it in the same cell), values with both the top and the lowest bit
	//     set, boundaries and random ones: the readers' fast paths depend on the offset
	c03Offsets(c)
	// 2c. the tag grammars: tlb.ParseTag and parseTag on every shipped struct tag, on
	//     mutations of them and on random strings
	c03Tags(c)
	// 3a. extension layer: snake data and length-prefixed bytes, lengths around the cell
	//     boundaries (what fits depends on the fields written before)
	for _, name := range c03Names {
		ct := c03Types[name]
		if !ct.ext {
			continue
		}
		for i := 0; i < c.Scale(25, 300); i++ {
			c03Case(c, "snake", ct, c03RandValue(ct, c.R))
		}
	}
	// 3b. VM stacks: list convention (decode returns the reversed list)
	if ct := c03Types["tlb.VmStackValue"]; ct != nil && ct.class == tlbdesc.ClassDescribed {
		for i := 0; i < c.Scale(150, 3000); i++ {
			n := c.R.Intn(6)
			switch c.R.Intn(10) {
			case 0:
				n = 0
			case 1:
				n = 1
			case 2:
				n = 12 + c.R.Intn(30)
			}
			var vs []sx.V
			for j := 0; j < n; j++ {
				vs = append(vs, c03RandValue(ct, c.R))
			}
			in := sx.L(ct.d.Sx(), sx.L(vs...))
			bucket := "n2-5"
			switch {
			case n == 0:
				bucket = "n0"
			case n == 1:
				bucket = "n1"
			case n > 5:
				bucket = "n6+"
			}
			out := c.Emit("c03.stack", in, "stack|"+bucket)
			if out.IsA("err") {
				continue
			}
			if out.K != sx.KL || len(out.List) != 2 || out.List[1].K != sx.KL || len(out.List[1].List) != n {
				c.Fail("c03.stack", in, "vmstack-convention", "tlb.VmStack: the encoder's own cell does not decode to a stack of the same depth: "+trunc(out.String(), 160))
				continue
			}
			for j := 0; j < n; j++ {
				if out.List[1].List[j].String() != vs[n-1-j].String() {
					c.Fail("c03.stack", in, "vmstack-convention", fmt.Sprintf("tlb.VmStack: decoded element %d is not encoded element %d (the list must come back reversed)", j, n-1-j))
					break
				}
			}
		}
	}
	// 3c. read cursors advanced before marshalling (a value that was decoded and inspected):
	//     the encoding must be the one of the fresh value
	c03Cursors(c)
	// 3e. exotic cells through boc.Cell positions (oracle on the implementation only)
	c03ExoticFamily(c, "c03")
	// 3d. exploration of the types outside the model (oracle on the implementation only)
	c03Explore(c)
	// 4. real chain data: every message of the transactions in the testdata
	//    blocks, decoded, re-encoded (hash against the source cell) and run
	//    through the model
	c03RealData(c)
}

func c03IsPlain(c *boc.Cell, depth int) bool {
	if c == nil || depth > 600 || c.IsExotic() {
		return false
	}
	for _, r := range c.Refs() {
		if !c03IsPlain(r, depth+1) {
			return false
		}
	}
	return true
}

func c03CellSize(c *boc.Cell) int {
	n := 1
	for _, r := range c.Refs() {
		n += c03CellSize(r)
	}
	return n
}

func c03RealData(c *Ctx) {
	msgT := c03Types["tlb.Message"]
	if msgT == nil || msgT.class != tlbdesc.ClassDescribed {
		return
	}
	files, _ := filepath.Glob("/repo/tlb/testdata/block-*/block.bin")
	sort.Strings(files)
	budget := c.Scale(60, 3000)
	txBudget := c.Scale(25, 1500)
	for _, f := range files {
		data, err := os.ReadFile(f)
		if err != nil {
			continue
		}
		cells, err := boc.DeserializeBoc(data)
		if err != nil || len(cells) != 1 {
			continue
		}
		var block tlb.Block
		if err := tlb.Unmarshal(cells[0], &block); err != nil {
			continue
		}
		// the same block through a Decoder with its hasher (NewDecoder): identical transaction and
		// message identity hashes, and Decoder.Hasher() agrees with Cell.Hash on re-encoded cells
		{
			cells[0].ResetCounters()
			dec := tlb.NewDecoder()
			var block2 tlb.Block
			in := sx.L(sx.Str("tlb.Block"), sx.Str(filepath.Base(filepath.Dir(f))))
			if err := dec.Unmarshal(cells[0], &block2); err != nil {
				c.Fail("c03.rt", in, "decoder-hasher", "a block that tlb.Unmarshal decodes does not decode with NewDecoder(): "+err.Error())
			} else if dec.Hasher() == nil {
				c.Fail("c03.rt", in, "decoder-hasher", "NewDecoder().Hasher() is nil")
			} else {
				t1, t2 := block.AllTransactions(), block2.AllTransactions()
				ok := len(t1) == len(t2)
				for i := 0; ok && i < len(t1); i++ {
					ok = t1[i].Hash() == t2[i].Hash()
					if ok && t1[i].Msgs.InMsg.Exists && t2[i].Msgs.InMsg.Exists {
						m1, m2 := t1[i].Msgs.InMsg.Value.Value, t2[i].Msgs.InMsg.Value.Value
						ok = m1.Hash(false) == m2.Hash(false)
						if ok && i < 50 {
							mc := boc.NewCell()
							if tlb.Marshal(mc, m2) == nil {
								h1, e1 := dec.Hasher().Hash(mc)
								h2, e2 := mc.Hash()
								ok = e1 == nil && e2 == nil && bytes.Equal(h1, h2)
							}
						}
					}
				}
				if !ok {
					c.Fail("c03.rt", in, "decoder-hasher", "decoding with NewDecoder() (caching hasher) gives other transaction / message hashes than tlb.Unmarshal, or Decoder.Hasher() disagrees with Cell.Hash")
				} else {
					c.Note("c03.rt", "real|tlb|block|newdecoder-hasher", in)
				}
			}
			cells[0].ResetCounters()
		}
		txT := c03Types["tlb.Transaction"]
		index := map[string]*boc.Cell{}
		c03Index(cells[0], index)
		for _, tx := range block.AllTransactions() {
			if txT != nil && txT.class == tlbdesc.ClassDescribed {
				src := tx.Hash()
				in := sx.L(sx.Str("tlb.Transaction"), sx.Str(filepath.Base(filepath.Dir(f))), sx.Str(hex.EncodeToString(src[:])))
				cell := boc.NewCell()
				var merr error
				func() {
					defer func() {
						if r := recover(); r != nil {
							merr = fmt.Errorf("panic: %v", r)
						}
					}()
					merr = tlb.Marshal(cell, *tx)
				}()
				if merr != nil {
					c.Fail("c03.rt", in, "real-transaction-reencode", "a transaction decoded from a real block does not encode: "+merr.Error())
					continue
				}
				h, _ := cell.Hash()
				same := bytes.Equal(h, src[:])
				if !same {
					// the only part of a transaction whose TL-B encoding is not unique is the
					// out_msgs dictionary (three label forms; the library never writes hml_same,
					// chain data uses the shortest form): compare everything but that cell
					sc := index[string(src[:])]
					if len(tx.Msgs.OutMsgs.Keys()) == 0 || sc == nil || !c03EqualButOutMsgs(sc, cell) {
						c.Fail("c03.rt", in, "real-transaction-reencode", "re-encoding a transaction decoded from a real block changes its hash outside the out_msgs dictionary")
						continue
					}
				}
				if txBudget > 0 && c03IsPlain(cell, 0) && c03CellSize(cell) <= 80 {
					txBudget--
					cls := "real|tlb|transaction|" + string(tx.Description.SumType)
					if !same {
						cls += "|dict-labels-differ"
					}
					c.Emit("c03.dec", sx.L(sx.Str("tlb.Transaction"), txT.d.Sx(), tlbdesc.CellSx(cell)), cls)
					c03Case(c, "real", txT, txT.d.Render(reflect.ValueOf(*tx)))
				}
			}
			var msgs []tlb.Message
			if tx.Msgs.InMsg.Exists {
				msgs = append(msgs, tx.Msgs.InMsg.Value.Value)
			}
			for _, m := range tx.Msgs.OutMsgs.Values() {
				msgs = append(msgs, m.Value)
			}
			for _, m := range msgs {
				if budget <= 0 {
					return
				}
				// Go-side oracle: re-encoding reproduces the source cell hash
				cell := boc.NewCell()
				src := m.Hash(false)
				in := sx.L(sx.Str("tlb.Message"), sx.Str(filepath.Base(filepath.Dir(f))), sx.Str(hex.EncodeToString(src[:])))
				if err := tlb.Marshal(cell, m); err != nil {
					c.Fail("c03.rt", in, "real-message-reencode", "a message decoded from a real block does not encode: "+err.Error())
					continue
				}
				h, _ := cell.Hash()
				if !bytes.Equal(h, src[:]) {
					c.Fail("c03.rt", in, "real-message-reencode", "re-encoding a message decoded from a real block changes its hash")
					continue
				}
				if !c03IsPlain(cell, 0) || c03CellSize(cell) > 60 {
					continue
				}
				budget--
				// through the model: the decoder on the source cell, then the encoder
				c.Emit("c03.dec", sx.L(sx.Str("tlb.Message"), msgT.d.Sx(), tlbdesc.CellSx(cell)), "real|tlb|message|"+string(m.Info.SumType))
				v := msgT.d.Render(reflect.ValueOf(m))
				c03Case(c, "real", msgT, v)
			}
		}
	}
}

func c03Index(c *boc.Cell, idx map[string]*boc.Cell) {
	h, err := c.Hash()
	if err != nil {
		return
	}
	if _, ok := idx[string(h)]; ok {
		return
	}
	idx[string(h)] = c
	for _, r := range c.Refs() {
		c03Index(r, idx)
	}
}

func c03SameBits(a, b *boc.Cell) bool {
	x, y := a.RawBitString(), b.RawBitString()
	return x.BinaryString() == y.BinaryString()
}

// c03EqualButOutMsgs: two transaction cells agree everywhere except in the
// cell of the out_msgs dictionary (second reference of the first reference).
func c03EqualButOutMsgs(a, b *boc.Cell) bool {
	if !c03SameBits(a, b) || len(a.Refs()) != 3 || len(b.Refs()) != 3 {
		return false
	}
	for i := 1; i < 3; i++ {
		if !sameHash(a.Refs()[i], b.Refs()[i]) {
			return false
		}
	}
	ma, mb := a.Refs()[0], b.Refs()[0]
	if !c03SameBits(ma, mb) || len(ma.Refs()) != len(mb.Refs()) {
		return false
	}
	for i := 0; i+1 < len(ma.Refs()); i++ {
		if !sameHash(ma.Refs()[i], mb.Refs()[i]) {
			return false
		}
	}
	return true
}

// c03HasCursor: the descriptor holds a bit string or a cell (something with a read cursor).
func c03HasCursor(d *tlbdesc.Desc) bool {
	switch d.K {
	case tlbdesc.KAddr, tlbdesc.KAny, tlbdesc.KCellRef, tlbdesc.KCellSlice:
		return true
	}
	for _, s := range d.Sub {
		if c03HasCursor(s) {
			return true
		}
	}
	for _, a := range d.Alts {
		if a.D != nil && c03HasCursor(a.D) {
			return true
		}
	}
	return false
}

func c03Cursors(c *Ctx) {
	var names []string
	for _, n := range c03Names {
		if c03HasCursor(c03Types[n].d) && !c03Types[n].ext {
			names = append(names, n)
		}
	}
	per := c.Scale(2, 25)
	for _, n := range names {
		ct := c03Types[n]
		k := per
		if n == "tlb.MsgAddress" {
			k = c.Scale(120, 1500)
		}
		if n == "tlb.Message" || n == "tlb.CommonMsgInfo" {
			k = c.Scale(60, 600)
		}
		for i := 0; i < k; i++ {
			pv := reflect.New(ct.t)
			v := ct.d.Rand(c.R, pv.Elem(), 0)
			adv := []int{1, 3, 8, 9, 64, 511}[c.R.Intn(6)]
			fresh := safeExec("c03.cur", sx.L(sx.Str(ct.name), ct.d.Sx(), v, sx.Nat(0)))
			in := sx.L(sx.Str(ct.name), ct.d.Sx(), v, sx.Nat(adv))
			moved := tlbdesc.AdvanceCursors(pv.Elem(), adv)
			if moved == 0 {
				continue
			}
			out := c.Emit("c03.cur", in, c03Class("cursor", ct, v))
			if out.String() != fresh.String() {
				c.Fail("c03.cur", in, "cursor-"+ct.name, "tlb.Marshal of "+ct.name+" depends on the read cursor of a bit string / cell inside the value: got "+trunc(out.String(), 120)+" want "+trunc(fresh.String(), 120))
			}
		}
	}
}

// clean-tree behaviour of types outside the model that is not a round trip
// (reported to the integrator; counted under a "known:" class, not alarmed).
//   - a non-nil but empty wallet.W5ExtendedActions list writes nothing, while the decoder
//     needs at least one action ("can not decode sumtype W5ExtendedAction" / "not enough bits"); the same through
//     wallet.MessageV5 / MessageV5Beta holding a pointer to an empty list
func c03ExploreKnown(n, canon, what string) (string, bool) {
	if (n == "wallet.W5ExtendedActions" && canon == "[]") ||
		(strings.HasPrefix(n, "wallet.MessageV5") && strings.Contains(canon, "ExtendedActions=[]")) {
		return "empty-extended-action-list-does-not-decode", true
	}
	return "", false
}

func c03Explore(c *Ctx) {
	var names []string
	for n, ct := range c03Types {
		if n == "tlb.VmStack" {
			continue // modelled separately (c03.stack): its decoder returns the reversed list by convention
		}
		if ct.class == tlbdesc.ClassOpaque || ct.class == tlbdesc.ClassDecodeOnly {
			names = append(names, n)
		} else if ct.class == tlbdesc.ClassDescribed {
			var vs []string
			ct.d.Voids(&vs)
			if len(vs) > 0 {
				names = append(names, n)
			}
		}
	}
	sort.Strings(names)
	per := c.Scale(12, 150)
	for _, n := range names {
		ct := c03Types[n]
		for i := 0; i < per; i++ {
			pv := reflect.New(ct.t)
			if !tlbdesc.GoRand(c.R, pv.Elem(), "", 0) {
				c.Note("c03.explore", c03ExploreClass(ct)+"|cannot-generate", sx.Str(n))
				break
			}
			c03ExploreOne(c, ct, pv)
		}
	}
}

func c03ExploreClass(ct *c03Type) string {
	cl := ct.class
	if cl == tlbdesc.ClassDescribed {
		cl = "partial"
	}
	return "explore|" + ct.name[:strings.IndexByte(ct.name, '.')] + "|" + cl
}

func c03ExploreOne(c *Ctx, ct *c03Type, pv reflect.Value) {
	n := ct.name
	in := sx.L(sx.Str(n), sx.Str(trunc(tlbdesc.Canon(pv.Elem()), 600)))
	fail := func(what string) {
		if why, ok := c03ExploreKnown(n, tlbdesc.Canon(pv.Elem()), what); ok {
			c.Note("c03.explore", c03ExploreClass(ct)+"|known:"+why, in)
			return
		}
		c.Fail("c03.explore", in, "opaque-roundtrip-"+n, what)
	}
	var c1 *boc.Cell
	var err error
	step := func(f func() error) (panicked bool) {
		defer func() {
			if r := recover(); r != nil {
				panicked = true
				err = fmt.Errorf("panic: %v", r)
			}
		}()
		err = f()
		return false
	}
	c1 = boc.NewCell()
	if step(func() error { return tlb.Marshal(c1, pv.Elem().Interface()) }) {
		fail("tlb.Marshal panicked on a value of " + n + ": " + err.Error())
		return
	}
	if err != nil {
		c.Note("c03.explore", c03ExploreClass(ct)+"|encode-err", in)
		return
	}
	if ct.class == tlbdesc.ClassDecodeOnly {
		if dv := tlbdesc.DescribeEnc(ct.t, ""); dv.K != tlbdesc.KOpaque && dv.NeverEncodes() {
			c.Fail("c03.explore", in, "never-encodes-"+n, "tlb.Marshal succeeded on a value of "+n+", which is decode-side only by theorem (C03_gen_never_encode_set)")
			return
		}
	}
	before := tlbdesc.Canon(pv.Elem())
	pv2 := reflect.New(ct.t)
	c1.ResetCounters()
	if step(func() error { return tlb.Unmarshal(c1, pv2.Interface()) }) || err != nil {
		fail("encoding a value of " + n + " succeeded but decoding the produced cell failed: " + err.Error())
		return
	}
	if after := tlbdesc.Canon(pv2.Elem()); after != before {
		i := 0
		for i < len(after) && i < len(before) && after[i] == before[i] {
			i++
		}
		j := i - 60
		if j < 0 {
			j = 0
		}
		fail("decode(encode v) differs from v for " + n + " at: got ..." + trunc(after[j:], 160) + " want ..." + trunc(before[j:], 160))
		return
	}
	c2 := boc.NewCell()
	if step(func() error { return tlb.Marshal(c2, pv2.Elem().Interface()) }) || err != nil || !sameHash(c1, c2) {
		fail("encoding the decoded value of " + n + " again gives a different cell")
		return
	}
	c.Note("c03.explore", c03ExploreClass(ct)+"|roundtrip-ok", in)
}

// ------------------------------------------------------------ integers at every bit offset

var c03GoKinds = map[string]reflect.Type{
	"go.uint8": reflect.TypeOf(uint8(0)), "go.uint16": reflect.TypeOf(uint16(0)), "go.uint32": reflect.TypeOf(uint32(0)),
	"go.uint64": reflect.TypeOf(uint64(0)), "go.int8": reflect.TypeOf(int8(0)), "go.int16": reflect.TypeOf(int16(0)),
	"go.int32": reflect.TypeOf(int32(0)), "go.int64": reflect.TypeOf(int64(0)),
}

// c03AtLookup resolves "at:<k>:<type>": the struct { P tlb.Uint<k>; V <type> } (k = 0: no P),
// i.e. <type> encoded after k bits in the same cell.
func c03AtLookup(name string) *c03Type {
	var k int
	var base string
	if n, _ := fmt.Sscanf(name, "at:%d:%s", &k, &base); n != 2 || k < 0 || k > 15 {
		return nil
	}
	var bt reflect.Type
	if t, ok := c03GoKinds[base]; ok {
		bt = t
	} else if ct := c03Types[base]; ct != nil && ct.class == tlbdesc.ClassDescribed {
		bt = ct.t
	} else {
		return nil
	}
	fields := []reflect.StructField{{Name: "V", Type: bt}}
	if k > 0 {
		pt := c03Types[fmt.Sprintf("tlb.Uint%d", k)]
		if pt == nil {
			return nil
		}
		fields = append([]reflect.StructField{{Name: "P", Type: pt.t}}, fields...)
	}
	st := reflect.StructOf(fields)
	d := tlbdesc.Describe(st, "")
	if d.K == tlbdesc.KOpaque {
		return nil
	}
	ct := &c03Type{name: name, t: st, d: d, class: tlbdesc.ClassDescribed}
	ct.dsx = ct.descSx().String()
	c03Types[name] = ct
	return ct
}

func c03Offsets(c *Ctx) {
	var bases []string
	for _, n := range c03Names {
		switch c03Types[n].d.K {
		case tlbdesc.KUint, tlbdesc.KInt, tlbdesc.KBigUint, tlbdesc.KBigInt:
			if strings.HasPrefix(n, "tlb.") {
				bases = append(bases, n)
			}
		}
	}
	for n := range c03GoKinds {
		bases = append(bases, n)
	}
	sort.Strings(bases)
	one := big.NewInt(1)
	for _, base := range bases {
		for k := 0; k < 16; k++ {
			ct := c03AtLookup(fmt.Sprintf("at:%d:%s", k, base))
			if ct == nil {
				continue
			}
			vd := ct.d.Sub[len(ct.d.Sub)-1]
			w := vd.W
			signed := vd.K == tlbdesc.KInt || vd.K == tlbdesc.KBigInt
			var vals []*big.Int
			// all ones (unsigned max / -1), top and lowest bit set, a random odd and a random value
			if signed {
				vals = append(vals, big.NewInt(-1), new(big.Int).Add(new(big.Int).Neg(c03Pow2(w-1)), one))
			} else {
				vals = append(vals, new(big.Int).Sub(c03Pow2(w), one), new(big.Int).Or(c03Pow2(w-1), one))
			}
			if c.Thorough() {
				for _, b := range c03Boundaries(vd, c.R) {
					vals = append(vals, b.List[1].Int)
				}
			}
			for i := 0; i < c.Scale(1, 6); i++ {
				pv := reflect.New(vd.T)
				v := vd.Rand(c.R, pv.Elem(), 0).List[1].Int
				if i%2 == 0 && !signed {
					v = new(big.Int).Or(v, one)
				}
				vals = append(vals, v)
			}
			for _, v := range vals {
				var fs []sx.V
				if k > 0 {
					pd := ct.d.Sub[0]
					pp := reflect.New(pd.T)
					fs = append(fs, pd.Rand(c.R, pp.Elem(), 0))
				}
				if signed {
					fs = append(fs, sx.L(sx.A("z"), sx.BigZ(v)))
				} else {
					fs = append(fs, sx.L(sx.A("n"), sx.BigN(v)))
				}
				val := sx.L(append([]sx.V{sx.A("struct")}, fs...)...)
				in := sx.L(sx.Str(ct.name), ct.descSx(), val)
				kn := "uint"
				if signed {
					kn = "int"
				}
				wb := "w1-56"
				switch {
				case w > 64:
					wb = "w65+"
				case w > 58:
					wb = "w59-64"
				case w > 56:
					wb = "w57-58"
				}
				out := c.Emit("c03.rt", in, fmt.Sprintf("offset|%s|%s|bit%d", kn, wb, k%8))
				if out.IsA("err") {
					continue
				}
				if out.K != sx.KL || len(out.List) != 4 || out.List[1].String() != val.String() || !out.List[2].Bool || !out.List[3].Bool {
					c.Fail("c03.rt", in, "offset-roundtrip", fmt.Sprintf("a %d-bit %s written after %d bits in the same cell does not read back: %s", w, kn, k, trunc(out.String(), 160)))
				}
			}
		}
	}
}
