package main

// C10, round 8: the reflection codec of package tl on targets the generated
// bindings do not exercise today but the codec supports.
//
//   c10.array   fixed-size byte arrays ([N]byte of many N, named and unnamed, bare,
//               as a struct field followed by another field, as a vector item, as
//               the payload of a sum-type variant) fed with the TL byte string of
//               EVERY length 0..N+1 (short and 0xfe long form): a [N]byte is the
//               bytes value of exactly N bytes, any other length is the layout of
//               a sibling value and must be refused.
//   c10.sumpos  reflectively encoded sum types with the SumType discriminator at
//               every position of the struct, every variant selected, alone, by
//               pointer, inside a struct between two words and inside vectors:
//               constructor id + payload on the wire, decode back to the same value.
//
// Both are oracles on the implementation (the Coq model speaks about the
// generated bindings, which contain neither fixed arrays nor reflective sums
// other than the request wrappers).

import (
	"bytes"
	"encoding/binary"
	"fmt"
	"reflect"

	"github.com/tonkeeper/tongo/tl"

	"verifharness/sx"
)

type c10Key20 [20]byte
type c10Key32 [32]byte
type c10Key33 [33]byte

// the value a decoded TL object stands for: of a sum only the discriminator and the
// selected variant (the other variant fields are not part of the value)
func c10Proj(v reflect.Value) string {
	switch v.Kind() {
	case reflect.Slice:
		if v.Type().Elem().Kind() == reflect.Uint8 {
			return fmt.Sprintf("x%x", v.Bytes())
		}
		s := "["
		for i := 0; i < v.Len(); i++ {
			s += c10Proj(v.Index(i)) + " "
		}
		return s + "]"
	case reflect.Array:
		return fmt.Sprintf("a%x", c10ArrBytes(v))
	case reflect.Struct:
		if _, ok := v.Type().FieldByName("SumType"); ok {
			name := v.FieldByName("SumType").String()
			f := v.FieldByName(name)
			if !f.IsValid() || name == "SumType" {
				return "<" + name + "?>"
			}
			return "<" + name + ":" + c10Proj(f) + ">"
		}
		s := "{"
		for i := 0; i < v.NumField(); i++ {
			s += v.Type().Field(i).Name + ":" + c10Proj(v.Field(i)) + " "
		}
		return s + "}"
	}
	return fmt.Sprintf("%v", v.Interface())
}

// a TL byte string in the short form, or in the long (0xfe) form the decoder also accepts
func c10BytesForm(b []byte, long bool) []byte {
	if !long {
		return c10RefBytes(b)
	}
	out := []byte{254, byte(len(b)), byte(len(b) >> 8), byte(len(b) >> 16)}
	out = append(out, b...)
	for len(out)%4 != 0 {
		out = append(out, 0)
	}
	return out
}

func c10ArrayOf(n int) reflect.Type { return reflect.ArrayOf(n, reflect.TypeOf(byte(0))) }

func (c *Ctx) c10R8() {
	c.c10FixedArrays()
	c.c10SumPositions()
}

func (c *Ctx) c10FixedArrays() {
	type target struct {
		name string
		arr  reflect.Type
	}
	var targets []target
	for _, n := range []int{0, 1, 2, 3, 4, 5, 7, 8, 12, 16, 20, 28, 31, 32, 33, 36, 64, 253, 254, 255, 256, 300} {
		targets = append(targets, target{fmt.Sprintf("[%d]byte", n), c10ArrayOf(n)})
	}
	targets = append(targets,
		target{"Key20", reflect.TypeOf(c10Key20{})},
		target{"Key32", reflect.TypeOf(c10Key32{})},
		target{"Key33", reflect.TypeOf(c10Key33{})})
	u32 := reflect.TypeOf(uint32(0))
	junk := []byte{0xaa, 0xbb, 0xcc}
	for _, tg := range targets {
		at := tg.arr
		n := at.Len()
		// the contexts a fixed array can stand in
		field := reflect.StructOf([]reflect.StructField{{Name: "ID", Type: at}, {Name: "Seq", Type: u32}})
		vec := reflect.SliceOf(at)
		sum := reflect.StructOf([]reflect.StructField{
			{Name: "SumType", Type: reflect.TypeOf(tl.SumType(""))},
			{Name: "Key", Type: at, Tag: `tlSumType:"0a0b0c0d"`},
		})
		// lengths offered: every one of 0..n+1 for the small arrays, the boundaries for the large
		var lens []int
		if n <= 64 || c.Thorough() {
			for l := 0; l <= n+5; l++ {
				lens = append(lens, l)
			}
		} else {
			for _, l := range []int{0, 1, 3, 4, 127, 252, 253, 254, 255, n - 5, n - 4, n - 3, n - 2, n - 1, n, n + 1, n + 2, n + 3, n + 4, 2 * n} {
				if l >= 0 {
					lens = append(lens, l)
				}
			}
		}
		lens = append(lens, n+256, 1024)
		for _, l := range lens {
			for _, long := range []bool{false, true} {
				data := c.R.Bytes(l)
				for i := range data { // no zero bytes: a zero-extended prefix is visibly different
					if data[i] == 0 {
						data[i] = byte(1 + i%255)
					}
				}
				s := c10BytesForm(data, long)
				form := "short-form"
				if long {
					form = "long-form"
				}
				rel := "shorter"
				switch {
				case l == n:
					rel = "exact"
				case l > n:
					rel = "longer"
				}
				for _, ctx := range []string{"bare", "field", "vector", "variant"} {
					var wire []byte
					var p reflect.Value
					var got func() []byte
					switch ctx {
					case "bare":
						wire = append(append([]byte{}, s...), junk...)
						p = reflect.New(at)
						got = func() []byte { return c10ArrBytes(p.Elem()) }
					case "field":
						wire = append(append(append([]byte{}, s...), 7, 0, 0, 0), junk...)
						p = reflect.New(field)
						got = func() []byte {
							if p.Elem().Field(1).Uint() != 7 {
								return nil
							}
							return c10ArrBytes(p.Elem().Field(0))
						}
					case "vector":
						ok := c10BytesForm(bytes.Repeat([]byte{0x5a}, n), false)
						wire = append([]byte{3, 0, 0, 0}, ok...)
						wire = append(wire, s...)
						wire = append(wire, ok...)
						wire = append(wire, junk...)
						p = reflect.New(vec)
						got = func() []byte {
							if p.Elem().Len() != 3 {
								return nil
							}
							return c10ArrBytes(p.Elem().Index(1))
						}
					case "variant":
						wire = append([]byte{0x0d, 0x0c, 0x0b, 0x0a}, s...)
						wire = append(wire, junk...)
						p = reflect.New(sum)
						got = func() []byte {
							if p.Elem().Field(0).String() != "Key" {
								return nil
							}
							return c10ArrBytes(p.Elem().Field(1))
						}
					}
					in := sx.L(sx.A(ctx), sx.Str(tg.name), sx.Nat(l), sx.A(form), sx.Bytes(wire))
					if len(wire) > 200 {
						in = sx.L(sx.A(ctx), sx.Str(tg.name), sx.Nat(l), sx.A(form))
					}
					c.Note("c10.array", "array|"+ctx+"|"+rel+"|"+c10Size(n), in)
					rd := bytes.NewReader(wire)
					err := c10SafeUnmarshal(rd, p.Interface())
					if err != nil && len(err.Error()) > 6 && err.Error()[:6] == "panic:" {
						c.Fail("c10.array", in, "c10-array-panic", fmt.Sprintf("%s (%s), a TL byte string of %d bytes: %v", tg.name, ctx, l, err))
						continue
					}
					if l != n {
						if err == nil {
							c.Fail("c10.array", in, "c10-array-length", fmt.Sprintf("a TL byte string of %d bytes (%s) is accepted as %s (%s), decoded to %x", l, form, tg.name, ctx, got()))
						}
						continue
					}
					if err != nil {
						c.Fail("c10.array", in, "c10-array-length", fmt.Sprintf("a TL byte string of exactly %d bytes (%s) is refused as %s (%s): %v", l, form, tg.name, ctx, err))
						continue
					}
					if g := got(); !bytes.Equal(g, data) || rd.Len() != len(junk) {
						c.Fail("c10.array", in, "c10-array-length", fmt.Sprintf("%s (%s): decoded %x leaving %d bytes, want %x leaving %d", tg.name, ctx, g, rd.Len(), data, len(junk)))
						continue
					}
					// the encoder writes the sibling []byte layout of exactly n bytes back
					if !long {
						b, err := tl.Marshal(p.Elem().Interface())
						if err != nil || !bytes.Equal(b, wire[:len(wire)-len(junk)]) {
							c.Fail("c10.array", in, "c10-array-layout", fmt.Sprintf("%s (%s): tl.Marshal of the decoded value gives %x (err %v), not the input", tg.name, ctx, b, err))
						}
					}
				}
			}
		}
	}
}

func c10ArrBytes(v reflect.Value) []byte {
	out := make([]byte, v.Len())
	for i := range out {
		out[i] = byte(v.Index(i).Uint())
	}
	return out
}

func c10SafeUnmarshal(r *bytes.Reader, p any) (err error) {
	defer func() {
		if x := recover(); x != nil {
			err = fmt.Errorf("panic: %v", x)
		}
	}()
	return tl.Unmarshal(r, p)
}

func c10SafeMarshal(v any) (b []byte, err error) {
	defer func() {
		if x := recover(); x != nil {
			err = fmt.Errorf("panic: %v", x)
		}
	}()
	return tl.Marshal(v)
}


// ---------------------------------------------------------------- sum types, SumType at every position

type c10Ping struct{ ID int64 }
type c10Blob struct {
	A uint32
	B []byte
}
type c10None struct{}

// declared (source-level embedded tl.SumType) at the head, in the middle, at the tail
type c10SumHead struct {
	tl.SumType
	Ping c10Ping `tlSumType:"4d082b9a"`
	Blob c10Blob `tlSumType:"dc69fb03"`
	None c10None `tlSumType:"00000001"`
}
type c10SumMid struct {
	Ping c10Ping `tlSumType:"4d082b9a"`
	tl.SumType
	Blob c10Blob `tlSumType:"dc69fb03"`
	None c10None `tlSumType:"00000001"`
}
type c10SumTail struct {
	Ping c10Ping `tlSumType:"4d082b9a"`
	Blob c10Blob `tlSumType:"dc69fb03"`
	None c10None `tlSumType:"00000001"`
	tl.SumType
}
type c10SumTailOne struct {
	Only c10None `tlSumType:"a1b2c3d4"`
	tl.SumType
}

// reference encoder for the payload kinds used here, written from the TL rules
func (c *Ctx) c10RefFill(v reflect.Value) []byte {
	switch v.Kind() {
	case reflect.Uint32:
		x := uint32(c.R.U64())
		v.SetUint(uint64(x))
		return binary.LittleEndian.AppendUint32(nil, x)
	case reflect.Int32:
		x := uint32(c.R.U64())
		v.SetInt(int64(int32(x)))
		return binary.LittleEndian.AppendUint32(nil, x)
	case reflect.Uint64:
		x := c.R.U64()
		v.SetUint(x)
		return binary.LittleEndian.AppendUint64(nil, x)
	case reflect.Int64:
		x := c.R.U64()
		v.SetInt(int64(x))
		return binary.LittleEndian.AppendUint64(nil, x)
	case reflect.Bool:
		if c.R.Bool() {
			v.SetBool(true)
			return []byte{0xb5, 0x75, 0x72, 0x99}
		}
		return []byte{0x37, 0x97, 0x79, 0xbc}
	case reflect.String:
		b := bytes.Repeat([]byte{'s'}, c.R.Pick([]int{0, 1, 3, 4, 5, 253, 254}))
		v.SetString(string(b))
		return c10RefBytes(b)
	case reflect.Slice: // []byte only
		b := c.R.Bytes(c.R.Pick([]int{0, 1, 2, 3, 4, 7, 8, 253, 254, 255}))
		v.SetBytes(b)
		return c10RefBytes(b)
	case reflect.Array:
		b := c.R.Bytes(v.Len())
		reflect.Copy(v, reflect.ValueOf(b))
		return c10RefBytes(b)
	case reflect.Struct:
		var out []byte
		for i := 0; i < v.NumField(); i++ {
			out = append(out, c.c10RefFill(v.Field(i))...)
		}
		return out
	}
	panic("c10RefFill: kind " + v.Kind().String())
}

type c10Variant struct {
	field int
	name  string
	id    [4]byte // as on the wire
}

func c10VariantsOf(t reflect.Type) (vs []c10Variant, sumPos int) {
	for i := 0; i < t.NumField(); i++ {
		f := t.Field(i)
		if f.Name == "SumType" {
			sumPos = i
			continue
		}
		var x uint32
		fmt.Sscanf(f.Tag.Get("tlSumType"), "%08x", &x)
		var id [4]byte
		binary.LittleEndian.PutUint32(id[:], x)
		vs = append(vs, c10Variant{i, f.Name, id})
	}
	return
}

// one sum type: every variant selected; alone, by pointer, between two words, in a vector
func (c *Ctx) c10SumType(t reflect.Type, label, how string) {
	vs, pos := c10VariantsOf(t)
	where := "middle"
	switch {
	case pos == 0:
		where = "first"
	case pos == t.NumField()-1:
		where = "last"
	}
	junk := []byte{0xaa, 0xbb, 0xcc}
	mk := func(sel int) (reflect.Value, []byte) {
		v := reflect.New(t).Elem()
		v.Field(pos).SetString(vs[sel].name)
		body := c.c10RefFill(v.Field(vs[sel].field))
		return v, append(append([]byte{}, vs[sel].id[:]...), body...)
	}
	wrap := reflect.StructOf([]reflect.StructField{
		{Name: "A", Type: reflect.TypeOf(uint32(0))}, {Name: "S", Type: t}, {Name: "B", Type: reflect.TypeOf(uint32(0))}})
	for sel := range vs {
		v, want := mk(sel)
		decl := "later"
		if vs[sel].field == 0 || (vs[sel].field == 1 && pos == 0) {
			decl = "first-declared"
		}
		class := "sumpos|SumType-" + where + "|variant-" + decl
		in := sx.L(sx.Str(label), sx.Nat(pos), sx.Str(vs[sel].name), sx.Bytes(want))
		fail := func(ctx, what string) {
			c.Fail("c10.sumpos", sx.L(sx.A(ctx), in), "c10-sum-position", fmt.Sprintf("%s, SumType at field %d of %d, variant %s (field %d), %s: %s", label, pos, t.NumField(), vs[sel].name, vs[sel].field, ctx, what))
		}
		check := func(ctx string, val reflect.Value, byPtr bool, want []byte) {
			c.Note("c10.sumpos", class+"|"+ctx, in)
			x := val.Interface()
			if byPtr {
				p := reflect.New(val.Type())
				p.Elem().Set(val)
				x = p.Interface()
			}
			b, err := c10SafeMarshal(x)
			if err != nil {
				fail(ctx, fmt.Sprintf("tl.Marshal fails: %v", err))
			} else if !bytes.Equal(b, want) {
				fail(ctx, fmt.Sprintf("tl.Marshal writes %x, want constructor id and fields %x", b, want))
			}
			p := reflect.New(val.Type())
			rd := bytes.NewReader(append(append([]byte{}, want...), junk...))
			if err := c10SafeUnmarshal(rd, p.Interface()); err != nil {
				fail(ctx, fmt.Sprintf("tl.Unmarshal refuses %x: %v", want, err))
			} else if rd.Len() != len(junk) || c10Proj(p.Elem()) != c10Proj(val) {
				fail(ctx, fmt.Sprintf("tl.Unmarshal of %x gives %s leaving %d bytes, want %s leaving %d", want, c10Proj(p.Elem()), rd.Len(), c10Proj(val), len(junk)))
			}
		}
		check("alone", v, false, want)
		check("pointer", v, true, want)
		// between two words of a plain struct: the words that follow must not shift
		w := reflect.New(wrap).Elem()
		w.Field(0).SetUint(0x11111111)
		w.Field(1).Set(v)
		w.Field(2).SetUint(0x22222222)
		ww := append([]byte{0x11, 0x11, 0x11, 0x11}, want...)
		ww = append(ww, 0x22, 0x22, 0x22, 0x22)
		check("field", w, false, ww)
		// a vector holding every variant, starting with this one: count and items agree
		for _, n := range []int{1, len(vs), len(vs) + 2} {
			vec := reflect.MakeSlice(reflect.SliceOf(t), 0, n)
			vw := binary.LittleEndian.AppendUint32(nil, uint32(n))
			for k := 0; k < n; k++ {
				iv, iw := v, want
				if k > 0 {
					iv, iw = mk((sel + k) % len(vs))
				}
				vec = reflect.Append(vec, iv)
				vw = append(vw, iw...)
			}
			check(fmt.Sprintf("vector-%s", c10LenBucket(n)), vec, false, vw)
		}
	}
}

func (c *Ctx) c10SumPositions() {
	for _, x := range []any{c10SumHead{}, c10SumMid{}, c10SumTail{}, c10SumTailOne{}} {
		t := reflect.TypeOf(x)
		c.c10SumType(t, t.Name(), "declared")
	}
	payloads := []reflect.Type{
		reflect.TypeOf(c10Ping{}), reflect.TypeOf(c10None{}), reflect.TypeOf(c10Blob{}),
		reflect.TypeOf(uint32(0)), reflect.TypeOf(int64(0)), reflect.TypeOf([]byte(nil)), reflect.TypeOf(""),
		reflect.TypeOf(true), c10ArrayOf(32), reflect.TypeOf(c10Key20{}),
	}
	names := []string{"Alpha", "Beta", "Gamma", "Delta", "Eps"}
	sumT := reflect.TypeOf(tl.SumType(""))
	for k := 1; k <= 5; k++ {
		for pos := 0; pos <= k; pos++ {
			for _, anon := range []bool{true, false} {
				for rep := 0; rep < c.Scale(1, 4); rep++ {
					var fs []reflect.StructField
					ids := map[uint32]bool{}
					for i := 0; i < k; i++ {
						id := uint32(c.R.U64())
						for ids[id] {
							id++
						}
						ids[id] = true
						fs = append(fs, reflect.StructField{Name: names[i], Type: payloads[c.R.Intn(len(payloads))],
							Tag: reflect.StructTag(fmt.Sprintf(`tlSumType:"%08x"`, id))})
					}
					sf := reflect.StructField{Name: "SumType", Type: sumT, Anonymous: anon}
					fs = append(fs[:pos], append([]reflect.StructField{sf}, fs[pos:]...)...)
					how := "built-named"
					if anon {
						how = "built-embedded"
					}
					t, ok := c10StructOf(fs)
					if !ok {
						continue
					}
					c.c10SumType(t, fmt.Sprintf("sum%d", k), how)
				}
			}
		}
	}
}

func c10StructOf(fs []reflect.StructField) (t reflect.Type, ok bool) {
	defer func() {
		if recover() != nil {
			ok = false
		}
	}()
	return reflect.StructOf(fs), true
}
