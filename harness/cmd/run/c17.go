package main

// C17 — account addresses and shard ids keep their meaning across all forms.
// Implementation side: ton.AccountID text/TL/TL-B/JSON forms, tongo.ParseAddress,
// ton.ShardID, shardChild/shardParent/convertShardIdent/GetParents (hooks),
// liteclient ADNL base32, utils.Crc16.

import (
	"bytes"
	"context"
	"encoding/base32"
	"encoding/binary"
	"encoding/hex"
	"encoding/json"
	"errors"
	"fmt"
	"math/bits"
	"runtime"
	"strings"
	"sync"
	"sync/atomic"
	"time"

	"github.com/tonkeeper/tongo"
	"github.com/tonkeeper/tongo/boc"
	"github.com/tonkeeper/tongo/liteclient"
	"github.com/tonkeeper/tongo/tlb"
	"github.com/tonkeeper/tongo/ton"
	"github.com/tonkeeper/tongo/utils"

	"verifharness/prng"
	"verifharness/sx"
)

func init() {
	execs["c17.crc16"] = func(in sx.V) sx.V {
		return sx.L(sx.N(uint64(utils.Crc16(in.Bytes))), sx.N(uint64(utils.Crc16String(string(in.Bytes)))))
	}
	execs["c17.human"] = func(in sx.V) sx.V {
		a := c17Acc(in.List[0], in.List[1])
		s := a.ToHuman(in.List[2].Bool, in.List[3].Bool)
		if !in.List[4].Bool {
			s = c17StdAlphabet(s)
		}
		return sx.Str(s)
	}
	execs["c17.parsehuman"] = func(in sx.V) sx.V {
		a, err := ton.AccountIDFromBase64Url(string(in.Bytes))
		return c17AccOut(a, err)
	}
	execs["c17.parseaddr"] = func(in sx.V) sx.V {
		a, err := c17AddrParser.ParseAddress(context.Background(), string(in.Bytes))
		return c17AccOut(a.ID, err)
	}
	execs["c17.raw"] = func(in sx.V) sx.V { return sx.Str(c17Acc(in.List[0], in.List[1]).ToRaw()) }
	execs["c17.parseraw"] = func(in sx.V) sx.V {
		a, err := ton.AccountIDFromRaw(string(in.Bytes))
		return c17AccOut(a, err)
	}
	execs["c17.parseacc"] = func(in sx.V) sx.V {
		a, err := ton.ParseAccountID(string(in.Bytes))
		return c17AccOut(a, err)
	}
	// the other entry points that must agree with ParseAccountID (MustParse: panic = error)
	must := func(f func(string) ton.AccountID) Exec {
		return func(in sx.V) (out sx.V) {
			defer func() {
				if r := recover(); r != nil {
					out = sx.A("err")
				}
			}()
			return c17AccSx(f(string(in.Bytes)))
		}
	}
	execs["c17.mustparse"] = must(ton.MustParseAccountID)
	execs["c17.rootmust"] = must(tongo.MustParseAccountID)
	execs["c17.rootparse"] = func(in sx.V) sx.V {
		a, err := tongo.ParseAccountID(string(in.Bytes))
		return c17AccOut(a, err)
	}
	execs["c17.tl"] = func(in sx.V) sx.V {
		b, err := c17Acc(in.List[0], in.List[1]).MarshalTL()
		return errOr(err, sx.Bytes(b))
	}
	execs["c17.untl"] = func(in sx.V) sx.V {
		var a ton.AccountID
		err := a.UnmarshalTL(bytes.NewReader(in.Bytes))
		return c17AccOut(a, err)
	}
	execs["c17.shard.parse"] = func(in sx.V) sx.V {
		s, err := ton.ParseShardID(in.Int.Int64())
		if err != nil {
			return sx.A("err")
		}
		p, m := ton.VerifShardFields(s)
		return sx.L(sx.Z(p), sx.Z(m), sx.Z(s.Encode()))
	}
	execs["c17.shard.match"] = func(in sx.V) sx.V {
		s, err := ton.ParseShardID(in.List[0].Int.Int64())
		if err != nil {
			return sx.A("err")
		}
		var a ton.AccountID
		copy(a.Address[:], in.List[1].Bytes)
		return sx.B(s.MatchAccountID(a))
	}
	execs["c17.shard.matchblock"] = func(in sx.V) sx.V {
		s, err := ton.ParseShardID(in.List[0].Int.Int64())
		if err != nil {
			return sx.A("err")
		}
		return sx.B(s.MatchBlockID(ton.BlockID{Shard: in.List[1].U64()}))
	}
	execs["c17.shard.child"] = func(in sx.V) sx.V {
		return sx.N(ton.VerifShardChild(in.List[0].U64(), in.List[1].Bool))
	}
	execs["c17.shard.parent"] = func(in sx.V) sx.V { return sx.N(ton.VerifShardParent(in.U64())) }
	execs["c17.shard.ident"] = func(in sx.V) sx.V {
		_, u := ton.VerifConvertShardIdent(tlb.ShardIdent{ShardPfxBits: tlb.Uint6(in.List[1].U64()), ShardPrefix: in.List[0].U64()})
		return sx.N(u)
	}
	execs["c17.parents"] = func(in sx.V) sx.V {
		ps, err := ton.GetParents(c17BlockInfo(in.List[0].U64(), in.List[1].U64(), in.List[2].Bool, in.List[3].Bool, in.List[3].Bool))
		if err != nil {
			return sx.A("err")
		}
		var out []sx.V
		for _, p := range ps {
			out = append(out, sx.N(p.Shard))
		}
		return sx.L(out...)
	}
	execs["c17.adnl"] = func(in sx.V) sx.V {
		var a ton.Bits256
		copy(a[:], in.Bytes)
		return sx.Str(liteclient.ADNLAddressToBase32(a))
	}
	execs["c17.parseadnl"] = func(in sx.V) sx.V {
		a, err := liteclient.ParseADNLAddress(string(in.Bytes))
		return errOr(err, sx.Bytes(a[:]))
	}
	execs["c17.tlb"] = func(in sx.V) sx.V {
		a := c17Acc(in.List[0], in.List[1])
		return c17MarshalBits(a.ToMsgAddress())
	}
	execs["c17.tlbany"] = func(in sx.V) sx.V { return c17MarshalBits(c17StdAddr(in)) }
	execs["c17.untlb"] = func(in sx.V) sx.V {
		c := boc.NewCell()
		for _, ch := range in.Bits {
			if err := c.WriteBit(ch == '1'); err != nil {
				return sx.L(sx.A("harness-error"), sx.A("cell-full"))
			}
		}
		var m tlb.MsgAddress
		if err := tlb.Unmarshal(c, &m); err != nil {
			return sx.A("err")
		}
		return c17AccOptOut(ton.AccountIDFromTlb(m))
	}
	execs["c17.fromtlb"] = func(in sx.V) sx.V { return c17AccOptOut(ton.AccountIDFromTlb(c17StdAddr(in))) }
	execs["c17.json"] = func(in sx.V) sx.V {
		b, err := c17Acc(in.List[0], in.List[1]).MarshalJSON()
		return errOr(err, sx.Bytes(b))
	}
	execs["c17.unjson"] = func(in sx.V) sx.V {
		var a ton.AccountID
		err := a.UnmarshalJSON(in.Bytes)
		return c17AccOut(a, err)
	}
	execs["c17.majson"] = func(in sx.V) sx.V {
		a := c17Acc(in.List[0], in.List[1])
		b, err := json.Marshal(a.ToMsgAddress())
		return errOr(err, sx.Bytes(b))
	}
	execs["c17.majsonany"] = func(in sx.V) sx.V {
		b, err := json.Marshal(c17StdAddr(in))
		return errOr(err, sx.Bytes(b))
	}
	execs["c17.maunjson"] = func(in sx.V) sx.V {
		var m tlb.MsgAddress
		if err := m.UnmarshalJSON(in.Bytes); err != nil {
			return sx.A("err")
		}
		return sx.L(c17MaSx(m), c17AccOptOut(ton.AccountIDFromTlb(m)))
	}
	execs["c17.conc"] = execC17Conc
	gens["C17"] = genC17
}

func c17AnySx(ex bool, d, p uint32) []sx.V {
	if !ex {
		return []sx.V{sx.B(false), sx.N(0), sx.N(0)}
	}
	return []sx.V{sx.B(true), sx.N(uint64(d)), sx.N(uint64(p))}
}

// canonical form of a decoded tlb.MsgAddress
func c17MaSx(m tlb.MsgAddress) sx.V {
	switch m.SumType {
	case "AddrNone":
		return sx.A("none")
	case "AddrExtern":
		if m.AddrExtern == nil {
			return sx.L(sx.A("harness-error"), sx.A("nil-extern"))
		}
		return sx.L(sx.A("ext"), sx.Bits(bitsOf(m.AddrExtern)))
	case "AddrStd":
		an := m.AddrStd.Anycast
		vs := append([]sx.V{sx.A("std")}, c17AnySx(an.Exists, an.Value.Depth, an.Value.RewritePfx)...)
		return sx.L(append(vs, sx.Z(int64(m.AddrStd.WorkchainId)), sx.Bytes(m.AddrStd.Address[:]))...)
	case "AddrVar":
		if m.AddrVar == nil {
			return sx.L(sx.A("harness-error"), sx.A("nil-var"))
		}
		an := m.AddrVar.Anycast
		vs := append([]sx.V{sx.A("var")}, c17AnySx(an.Exists, an.Value.Depth, an.Value.RewritePfx)...)
		return sx.L(append(vs, sx.N(uint64(m.AddrVar.AddrLen)), sx.Z(int64(m.AddrVar.WorkchainId)), sx.Bits(bitsOf(&m.AddrVar.Address)))...)
	}
	return sx.L(sx.A("harness-error"), sx.A("sumtype"))
}

// every parser of the property on one string, as the sequential kinds print it
func c17ParseAll(h sx.V) sx.V {
	q := sx.Bytes(append(append([]byte{'"'}, h.Bytes...), '"'))
	return sx.L(safeExec("c17.parsehuman", h), safeExec("c17.parseacc", h), safeExec("c17.parseraw", h),
		safeExec("c17.parseaddr", h), safeExec("c17.unjson", q))
}

// c17.conc: (strings, adnl strings, workers, passes).  The strings are parsed once
// sequentially, then by `workers` goroutines at the same time (each goroutine walks
// the list `passes` times from its own offset, so valid strings and their
// single-character substitutions are inside the parsers simultaneously).  Result:
// the sequential results and the number of concurrent results that differ from
// them (plus the first such case).  The parsers are pure: the number must be 0.
func execC17Conc(in sx.V) sx.V {
	hs, ads := in.List[0].List, in.List[1].List
	workers, passes := in.List[2].I(), in.List[3].I()
	if runtime.GOMAXPROCS(0) < 8 {
		defer runtime.GOMAXPROCS(runtime.GOMAXPROCS(8))
	}
	seqH := make([]sx.V, len(hs))
	seqS := make([]string, len(hs))
	for i, h := range hs {
		seqH[i] = c17ParseAll(h)
		seqS[i] = seqH[i].String()
	}
	seqA := make([]sx.V, len(ads))
	seqAS := make([]string, len(ads))
	for i, a := range ads {
		seqA[i] = safeExec("c17.parseadnl", a)
		seqAS[i] = seqA[i].String()
	}
	var dev atomic.Int64
	var mu sync.Mutex
	var first []sx.V
	note := func(in sx.V, got string) {
		if dev.Add(1) == 1 {
			mu.Lock()
			first = []sx.V{sx.A("first"), in, sx.Str(got)}
			mu.Unlock()
		}
	}
	// direct calls in a tight loop (most of the time is spent inside the parsers)
	type direct struct {
		s            string
		hum, acc, js ton.AccountID
		eh, ea, ej   bool
	}
	ds := make([]direct, len(hs))
	for i, h := range hs {
		d := direct{s: string(h.Bytes)}
		var err error
		d.hum, err = ton.AccountIDFromBase64Url(d.s)
		d.eh = err != nil
		d.acc, err = ton.ParseAccountID(d.s)
		d.ea = err != nil
		d.ej = d.js.UnmarshalJSON([]byte(`"`+d.s+`"`)) != nil
		ds[i] = d
	}
	var wg sync.WaitGroup
	var t0 time.Time
	start := make(chan struct{})
	for w := 0; w < workers; w++ {
		wg.Add(1)
		go func(w int) {
			defer wg.Done()
			defer func() {
				if r := recover(); r != nil {
					note(sx.A("panic"), fmt.Sprint(r))
				}
			}()
			<-start
			for p := 0; p < passes && time.Since(t0) < 5*time.Second; p++ { // bounded also on a loaded machine
				for k := range ds {
					d := &ds[(k+w)%len(ds)]
					if a, err := ton.AccountIDFromBase64Url(d.s); (err != nil) != d.eh || a != d.hum {
						note(sx.Str(d.s), "AccountIDFromBase64Url: "+c17AccOut(a, err).String())
					}
					if a, err := ton.ParseAccountID(d.s); (err != nil) != d.ea || a != d.acc {
						note(sx.Str(d.s), "ParseAccountID: "+c17AccOut(a, err).String())
					}
					if p%8 == 0 {
						var a ton.AccountID
						if err := a.UnmarshalJSON([]byte(`"` + d.s + `"`)); (err != nil) != d.ej || a != d.js {
							note(sx.Str(d.s), "UnmarshalJSON: "+c17AccOut(a, err).String())
						}
					}
				}
				if p%16 != 0 {
					continue
				}
				// every parser, through the same code as the sequential kinds
				for k := range hs {
					i := (k + w) % len(hs)
					if got := c17ParseAll(hs[i]).String(); got != seqS[i] {
						note(hs[i], got)
					}
				}
				for k := range ads {
					i := (k + w) % len(ads)
					if got := safeExec("c17.parseadnl", ads[i]).String(); got != seqAS[i] {
						note(ads[i], got)
					}
				}
			}
		}(w)
	}
	t0 = time.Now()
	close(start)
	wg.Wait()
	out := []sx.V{sx.L(seqH...), sx.L(seqA...), sx.N(uint64(dev.Load()))}
	if first != nil {
		out = append(out, sx.L(first...))
	}
	return sx.L(out...)
}

type c17NoDNS struct{}

func (c17NoDNS) Resolve(context.Context, string) ([]tlb.DNSRecord, error) {
	return nil, errors.New("no dns in the harness")
}

var c17AddrParser = tongo.NewAccountAddressParser(c17NoDNS{})

func c17Acc(wc, addr sx.V) ton.AccountID {
	var a ton.AccountID
	a.Workchain = int32(wc.Int.Int64())
	copy(a.Address[:], addr.Bytes)
	return a
}

func c17AccSx(a ton.AccountID) sx.V { return sx.L(sx.Z(int64(a.Workchain)), sx.Bytes(a.Address[:])) }

func c17AccOut(a ton.AccountID, err error) sx.V {
	if err != nil {
		return sx.A("err")
	}
	return c17AccSx(a)
}

func c17AccOptOut(a *ton.AccountID, err error) sx.V {
	if err != nil {
		return sx.A("err")
	}
	if a == nil {
		return sx.A("none")
	}
	return c17AccSx(*a)
}

func c17StdAlphabet(s string) string {
	return strings.NewReplacer("-", "+", "_", "/").Replace(s)
}

// (exists depth pfx wc8 addr) -> MsgAddress{AddrStd}
func c17StdAddr(in sx.V) tlb.MsgAddress {
	var m tlb.MsgAddress
	m.SumType = "AddrStd"
	if in.List[0].Bool {
		m.AddrStd.Anycast.Exists = true
		m.AddrStd.Anycast.Value.Depth = uint32(in.List[1].U64())
		m.AddrStd.Anycast.Value.RewritePfx = uint32(in.List[2].U64())
	}
	m.AddrStd.WorkchainId = int8(in.List[3].Int.Int64())
	copy(m.AddrStd.Address[:], in.List[4].Bytes)
	return m
}

func c17MarshalBits(m tlb.MsgAddress) sx.V {
	c := boc.NewCell()
	if err := tlb.Marshal(c, m); err != nil {
		return sx.A("err")
	}
	n := c.BitsAvailableForRead()
	var sb strings.Builder
	for i := 0; i < n; i++ {
		b, err := c.ReadBit()
		if err != nil {
			return sx.L(sx.A("harness-error"), sx.A("readbit"))
		}
		if b {
			sb.WriteByte('1')
		} else {
			sb.WriteByte('0')
		}
	}
	return sx.Bits(sb.String())
}

func c17BlockInfo(prefix, pfxBits uint64, split, merge, two bool) tlb.BlockInfo {
	var bi tlb.BlockInfo
	bi.Shard = tlb.ShardIdent{ShardPfxBits: tlb.Uint6(pfxBits), ShardPrefix: prefix}
	bi.AfterSplit = split
	bi.AfterMerge = merge
	if two {
		bi.PrevRef.SumType = "PrevBlksInfo"
		bi.PrevRef.PrevBlksInfo = &struct {
			Prev1 tlb.ExtBlkRef
			Prev2 tlb.ExtBlkRef
		}{}
	} else {
		bi.PrevRef.SumType = "PrevBlkInfo"
		bi.PrevRef.PrevBlkInfo = &struct{ Prev tlb.ExtBlkRef }{}
	}
	return bi
}

// ---------------------------------------------------------------- reference side of the oracles
// (written from the TON address / shard definitions, not from the code under test)

func c17RefCrc16(b []byte) uint16 {
	var c uint16
	for _, x := range b {
		c ^= uint16(x) << 8
		for i := 0; i < 8; i++ {
			if c&0x8000 != 0 {
				c = c<<1 ^ 0x1021
			} else {
				c <<= 1
			}
		}
	}
	return c
}

const c17UrlAlphabet = "ABCDEFGHIJKLMNOPQRSTUVWXYZabcdefghijklmnopqrstuvwxyz0123456789-_"
const c17StdAlphabetChars = "ABCDEFGHIJKLMNOPQRSTUVWXYZabcdefghijklmnopqrstuvwxyz0123456789+/"
const c17B32 = "abcdefghijklmnopqrstuvwxyz234567"

// digit value of a character in either base64 alphabet, -1 if none
func c17Digit(ch byte) int {
	if i := strings.IndexByte(c17UrlAlphabet, ch); i >= 0 {
		return i
	}
	if i := strings.IndexByte(c17StdAlphabetChars, ch); i >= 0 {
		return i
	}
	return -1
}

// reference user-friendly form built bit by bit
func c17RefHuman(a ton.AccountID, bounce, testnet bool) string {
	buf := []byte{0x11, byte(int8(a.Workchain))}
	if !bounce {
		buf[0] = 0x51
	}
	if testnet {
		buf[0] |= 0x80
	}
	buf = append(buf, a.Address[:]...)
	crc := c17RefCrc16(buf)
	buf = append(buf, byte(crc>>8), byte(crc))
	var sb strings.Builder
	for i := 0; i < 288; i += 6 {
		v := 0
		for j := 0; j < 6; j++ {
			v = v<<1 | int(buf[(i+j)/8]>>(7-uint(i+j)%8)&1)
		}
		sb.WriteByte(c17UrlAlphabet[v])
	}
	return sb.String()
}

func c17AddrBit(addr []byte, i int) bool { return addr[i/8]>>(7-uint(i)%8)&1 == 1 }

// shard id with prefix length l (0..63) and prefix value q (< 2^l)
func c17ShardID(l int, q uint64) uint64 {
	if l == 0 {
		return 1 << 63
	}
	return q<<(64-uint(l)) | 1<<(63-uint(l))
}

func c17ShardLen(u uint64) int { return 63 - bits.TrailingZeros64(u) }

// the first l bits of addr are the l prefix bits of shard u
func c17RefMatch(u uint64, addr []byte) bool {
	l := c17ShardLen(u)
	for i := 0; i < l; i++ {
		if c17AddrBit(addr, i) != (u>>(63-uint(i))&1 == 1) {
			return false
		}
	}
	return true
}

// one of the two shards is an ancestor of (or equal to) the other
func c17RefRelated(u, v uint64) bool {
	lu, lv := c17ShardLen(u), c17ShardLen(v)
	l := lu
	if lv < l {
		l = lv
	}
	if l == 0 {
		return true
	}
	return u>>(64-uint(l)) == v>>(64-uint(l))
}

// ---------------------------------------------------------------- generators

func c17PickWc(r *prng.R, int8Only bool) int32 {
	small := []int32{0, -1, 0, -1, 1, 127, -128, 5, -7}
	big := []int32{128, -129, 255, 256, -256, 65535, 1<<31 - 1, -1 << 31, 1000000000, -999999999}
	switch {
	case r.Chance(60):
		return small[r.Intn(len(small))]
	case int8Only:
		return int32(int8(r.U64()))
	case r.Chance(60):
		return big[r.Intn(len(big))]
	}
	return int32(r.U64())
}

func c17PickAddr(r *prng.R) (addr [32]byte, class string) {
	switch r.Intn(9) {
	case 0:
		return addr, "zero"
	case 1:
		for i := range addr {
			addr[i] = 0xff
		}
		return addr, "ones"
	case 2: // leading zero bytes / nibbles: the short raw form zero-fills
		copy(addr[:], r.Bytes(32))
		k := 1 + r.Intn(31)
		for i := 0; i < k; i++ {
			addr[i] = 0
		}
		if r.Bool() {
			addr[k] &= 0x0f
		}
		return addr, "lead0"
	case 3:
		addr[r.Intn(32)] = 1 << uint(r.Intn(8))
		return addr, "onebit"
	case 4: // bytes whose base64 digits are 62 / 63 ('-' '_' '+' '/')
		for i := range addr {
			addr[i] = []byte{0xfb, 0xff, 0xef, 0xbe, 0xfe}[r.Intn(5)]
		}
		return addr, "d6263"
	}
	copy(addr[:], r.Bytes(32))
	return addr, "rand"
}

func c17WcClass(wc int32) string {
	switch {
	case wc == 0 || wc == -1:
		return "wc0/-1"
	case wc >= -128 && wc < 128:
		return "int8"
	}
	return "int32"
}

func c17Min(a, b int) int {
	if a < b {
		return a
	}
	return b
}

func b2i(b bool) int {
	if b {
		return 1
	}
	return 0
}

// every form of one account: correspondence cases + round-trip oracles
func c17Account(c *Ctx, a ton.AccountID, cls string) {
	wcv, adv := sx.Z(int64(a.Workchain)), sx.Bytes(a.Address[:])
	acc := sx.L(wcv, adv)
	want := c17AccSx(a).String()
	wcls := c17WcClass(a.Workchain)
	if cls != "lead0" {
		cls = "any"
	}
	rawCls := wcls + "," + cls // the raw form zero-fills short hex: leading zeros are a class
	cls = wcls
	back := func(kind string, in sx.V, key string) {
		if got := c.Emit(kind, in, cls).String(); got != want {
			c.Fail(kind, in, key, "round trip: want "+want+" got "+got)
		}
	}
	// raw
	raw := c.Emit("c17.raw", acc, rawCls)
	if string(raw.Bytes) != fmt.Sprintf("%d:%s", a.Workchain, hex.EncodeToString(a.Address[:])) {
		c.Fail("c17.raw", acc, "raw-format", "ToRaw is not <decimal workchain>:<64 lower-case hex>")
	}
	if got := c.Emit("c17.parseraw", raw, rawCls).String(); got != want {
		c.Fail("c17.parseraw", raw, "raw-roundtrip", "round trip: want "+want+" got "+got)
	}
	back("c17.parseacc", raw, "raw-roundtrip")
	back("c17.parseaddr", raw, "raw-roundtrip")
	// JSON
	js := c.Emit("c17.json", acc, cls)
	if string(js.Bytes) != `"`+string(raw.Bytes)+`"` {
		c.Fail("c17.json", acc, "json-format", "MarshalJSON is not the quoted raw form")
	}
	back("c17.unjson", js, "json-roundtrip")
	// TL
	tl := c.Emit("c17.tl", acc, cls)
	if len(tl.Bytes) != 36 || int32(binary.LittleEndian.Uint32(tl.Bytes)) != a.Workchain || !bytes.Equal(tl.Bytes[4:], a.Address[:]) {
		c.Fail("c17.tl", acc, "tl-format", "MarshalTL is not int32 LE workchain | address")
	}
	back("c17.untl", tl, "tl-roundtrip")
	c17LiteServerForms(c, c.R, a, acc)
	if a.Workchain < -128 || a.Workchain > 127 {
		// user-friendly and addr_std forms hold an int8 workchain: outside the quantifier;
		// the model must still agree on what the code prints
		c.Emit("c17.human", sx.L(wcv, adv, sx.B(true), sx.B(false), sx.B(true)), cls+",trunc")
		c.Emit("c17.tlb", acc, cls+",trunc")
		return
	}
	// user-friendly: 4 flag combinations x 2 alphabets
	for f := 0; f < 4; f++ {
		bounce, testnet := f&1 == 0, f&2 != 0
		ref := c17RefHuman(a, bounce, testnet)
		for _, url := range []bool{true, false} {
			fc := fmt.Sprintf("b%dt%du%d", b2i(bounce), b2i(testnet), b2i(url))
			in := sx.L(wcv, adv, sx.B(bounce), sx.B(testnet), sx.B(url))
			h := c.Emit("c17.human", in, fc)
			wantS := ref
			if !url {
				wantS = c17StdAlphabet(ref)
			}
			if string(h.Bytes) != wantS {
				c.Fail("c17.human", in, "human-format", "ToHuman differs from flag|workchain|address|crc16 in base64url: "+wantS)
			}
			for _, k := range []string{"c17.parsehuman", "c17.parseacc", "c17.parseaddr"} {
				if got := c.Emit(k, h, fc).String(); got != want {
					c.Fail(k, h, "human-roundtrip", "round trip: want "+want+" got "+got)
				}
			}
			if f == 0 && url {
				back("c17.unjson", sx.Str(`"`+string(h.Bytes)+`"`), "json-roundtrip")
			}
		}
	}
	// TL-B
	tb := c.Emit("c17.tlb", acc, cls)
	if tb.K != sx.KBits || len(tb.Bits) != 267 {
		c.Fail("c17.tlb", acc, "tlb-format", "addr_std without anycast must take 267 bits")
	} else {
		back("c17.untlb", tb, "tlb-roundtrip")
		// the address may be followed by other fields of the cell
		back("c17.untlb", sx.Bits(tb.Bits+randBits(c.R, c.R.Intn(40))), "tlb-roundtrip")
	}
	back("c17.fromtlb", sx.L(sx.B(false), sx.N(0), sx.N(0), wcv, adv), "tlb-roundtrip")
	// JSON form of the TL-B address (what a message / transaction shows when served as JSON)
	mj := c.Emit("c17.majson", acc, cls)
	if string(mj.Bytes) != `"`+string(raw.Bytes)+`"` {
		c.Fail("c17.majson", acc, "tlb-json-format", "MarshalJSON of addr_std is not the quoted <workchain>:<64 hex>")
	}
	wantMa := sx.L(sx.L(sx.A("std"), sx.B(false), sx.N(0), sx.N(0), wcv, adv), c17AccSx(a)).String()
	if got := c.Emit("c17.maunjson", mj, cls).String(); got != wantMa {
		c.Fail("c17.maunjson", mj, "tlb-json-roundtrip", "AccountID -> ToMsgAddress -> JSON -> MsgAddress -> AccountIDFromTlb: want "+wantMa+" got "+got)
	}
	// the same through encoding/json, and the TL-B bits / the JSON text must be stable
	m0 := a.ToMsgAddress()
	var m1 tlb.MsgAddress
	if js, err := json.Marshal(m0); err != nil {
		c.Fail("c17.majson", acc, "tlb-json-roundtrip", "json.Marshal failed")
	} else if err := json.Unmarshal(js, &m1); err != nil {
		c.Fail("c17.maunjson", sx.Bytes(js), "tlb-json-roundtrip", "json.Unmarshal failed")
	} else {
		js2, _ := json.Marshal(m1)
		b0, b1 := c17MarshalBits(m0), c17MarshalBits(m1)
		if !bytes.Equal(js, js2) || b0.String() != b1.String() || b0.K != sx.KBits {
			c.Fail("c17.maunjson", sx.Bytes(js), "tlb-json-roundtrip", "TL-B bits or JSON text changed across the JSON form: "+b0.String()+" -> "+b1.String()+", "+string(js2))
		}
	}
}

// MsgAddress.UnmarshalJSON on hand-made strings: the std / var / extern / none boundaries
func c17MaJsonVariants(c *Ctx, a ton.AccountID) {
	r := c.R
	hx := hex.EncodeToString(a.Address[:])
	emit := func(t, cls string) sx.V { return c.Emit("c17.maunjson", sx.Str(t), "majv,"+cls) }
	q := func(t string) string { return `"` + t + `"` }
	for _, w := range []string{"-128", "-129", "127", "128", "-1", "0", "+5", "-0", "007", "-0128", "2147483647", "2147483648", "-2147483648", "-2147483649", "", "-", "x", "1e2", " 1"} {
		emit(q(w+":"+hx), "wc"+w)
	}
	wc := fmt.Sprint(int8(a.Workchain))
	emit(wc+":"+hx, "noquotes")
	emit(`""`+wc+":"+hx+`"`, "quotes")
	emit(`"`+wc+":"+hx, "quotes")
	emit(``, "empty")
	emit(`"`, "empty")
	emit(`""`, "empty")
	emit(`""""`, "empty")
	emit(q(wc+":"+strings.ToUpper(hx)), "upper")
	emit(q(wc+":"+hx[:63]), "hex63")
	emit(q(wc+":"+hx+"0"), "hex65")
	emit(q(wc+":"+hx[:62]), "hex62")
	emit(q(wc+":"+hx[:63]+"_"), "hex63_")
	emit(q(wc+":"+hx[:62]+[]string{"4_", "C_", "c_", "2_", "6_", "a_", "E_", "1_", "f_", "8_", "0_", "g_"}[r.Intn(12)]), "tag")
	emit(q(wc+":"+hx+"_"), "hex64_")
	emit(q(wc+":"+hx[:63]+"g"), "nonhex")
	emit(q(wc+":"), "emptyaddr")
	emit(q(wc+":_"), "emptyaddr")
	emit(q("1000:"+hx[:r.Intn(64)]), "var")
	emit(q("-1000:"+hx[:2*r.Intn(32)]+"8_"), "var")
	emit(q(":"+hx), "emptywc")
	emit(q(wc+":"+hx+":"), "colons")
	emit(q(wc+":"+hx+":Anycast(1,1):"), "colons")
	emit(q(wc+"::"+hx), "colons")
	// extern
	for _, e := range []string{hx, hx[:r.Intn(64)], "ABC", "abc_", "8_", "0_", "_", "4_", "C_", "xyz", " ", "A B"} {
		emit(q(e), "extern")
	}
	// anycast
	d, p := 1+r.Intn(30), r.Intn(1<<16)
	for _, an := range []string{fmt.Sprintf("Anycast(%d,%d)", d, p), "Anycast(30,1073741823)", "Anycast(4294967295,4294967295)",
		"Anycast(4294967296,1)", "Anycast(1,4294967296)", "Anycast(0,0)", "Anycast(03,005)", "Anycast(3,5", "Anycast3,5)", "Anycast()",
		"Anycast(3)", "Anycast(3,)", "Anycast(,5)", "Anycast(3,5,7)", "Anycast(3,5x)", "Anycast(3;5)", "Anycast(1_0,1)", "Anycast(1,1_0)",
		"anycast(3,5)", "Anycast(-1,5)", "Anycast(+1,5)", "Anycast(3,5))", "Anycast((3,5)", "Anycast(99999999999999999999,1)", "Anycast(", ")", ""} {
		emit(q(wc+":"+hx+":"+an), "anycast")
		if r.Chance(30) {
			emit(q("300:"+hx[:10]+":"+an), "anycast-var")
		}
	}
}

// every entry point that parses an account id from text
var c17TextParsers = []string{"c17.parseraw", "c17.parseacc", "c17.mustparse", "c17.rootparse", "c17.rootmust", "c17.parseaddr"}

// The raw form admits every hex length 0..64 (short hex is zero filled) after every workchain
// spelling, so its total length takes every value from 2 up to 76 and collides with the fixed
// lengths of the other forms (48 user-friendly, 55 ADNL, 64 bare hex, 66 ...).  All lengths x
// all spellings go through all entry points (+ the two JSON forms); the answer never depends on
// the total length: the account is the zero-filled one, and the entry points agree.
func c17RawLengths(c *Ctx, addr [32]byte) {
	hx := hex.EncodeToString(addr[:])
	for _, w := range []string{"0", "-1", "12", "-128", "127", "100000", "-2147483648", "2147483647", "+1", "007", "-0", "2147483648", "x"} {
		for k := 0; k <= 66; k++ {
			h := hx
			if k <= 64 {
				h = hx[64-k:]
			} else {
				h = strings.Repeat("0", k-64) + hx
			}
			t := w + ":" + h
			in := sx.Str(t)
			cls := "rawlen,other"
			switch {
			case len(t) == 48 || len(t) == 55 || len(t) == 64 || len(t) == 66:
				cls = fmt.Sprintf("rawlen,total%d", len(t)) // lengths of the other textual forms
			case k == 0 || k == 64 || k > 64:
				cls = fmt.Sprintf("rawlen,hex%d", k)
			}
			// reference: decimal int32 workchain, hex digits right-aligned in the 64-digit address
			want := "'err"
			var wcv int64
			if _, err := fmt.Sscanf(w+"\n", "%d\n", &wcv); err == nil && wcv >= -1<<31 && wcv < 1<<31 && k <= 64 {
				var a ton.AccountID
				a.Workchain = int32(wcv)
				b, _ := hex.DecodeString(strings.Repeat("0", 64-k) + h) // right-aligned nibbles
				copy(a.Address[:], b)
				want = c17AccSx(a).String()
			}
			for _, kind := range c17TextParsers {
				if got := c.Emit(kind, in, cls).String(); got != want {
					c.Fail(kind, in, "raw-zero-fill", fmt.Sprintf("raw text of total length %d: want %s got %s", len(t), want, got))
				}
			}
			q := sx.Str(`"` + t + `"`)
			if got := c.Emit("c17.unjson", q, cls).String(); got != want {
				c.Fail("c17.unjson", q, "raw-zero-fill", fmt.Sprintf("JSON string with raw text of total length %d: want %s got %s", len(t), want, got))
			}
			c.Emit("c17.maunjson", q, cls)
		}
	}
}

// raw-form parser on hand-made strings: zero filling, signs, ranges, malformed
func c17RawVariants(c *Ctx, a ton.AccountID) {
	r := c.R
	hx := hex.EncodeToString(a.Address[:])
	wc := fmt.Sprint(a.Workchain)
	emit := func(s, cls string) sx.V {
		c.Emit("c17.parseacc", sx.Str(s), "rawv")
		c.Emit("c17.parseaddr", sx.Str(s), "rawv")
		return c.Emit("c17.parseraw", sx.Str(s), "rawv,"+cls)
	}
	// short hex is filled with zeros on the left
	short := strings.TrimLeft(hx, "0")
	for _, s := range []string{short, "0" + short} {
		if len(s)%2 == 0 && len(s) <= 64 {
			if got := emit(wc+":"+s, "short-even").String(); got != c17AccSx(a).String() {
				c.Fail("c17.parseraw", sx.Str(wc+":"+s), "raw-zero-fill", "short hex must be zero-filled on the left; got "+got)
			}
		} else if len(s) <= 64 {
			if got := emit(wc+":"+s, "short-odd").String(); got != c17AccSx(a).String() {
				c.Fail("c17.parseraw", sx.Str(wc+":"+s), "raw-zero-fill", "short hex must be zero-filled on the left; got "+got)
			}
		}
	}
	k := r.Intn(65)
	emit(wc+":"+hx[64-k:], fmt.Sprintf("suffix%d", k/16))
	emit(wc+":", "emptyhex")
	emit(wc+":"+strings.ToUpper(hx), "upper")
	emit("+"+strings.TrimPrefix(wc, "-")+":"+hx, "plus")
	emit("00"+wc+":"+hx, "lead0wc")
	emit("-0:"+hx, "minus0")
	emit(" "+wc+":"+hx, "space")
	emit(wc+" :"+hx, "space")
	emit(wc+": "+hx[1:], "space")
	emit(":"+hx, "emptywc")
	emit("-:"+hx, "emptywc")
	emit(wc+hx, "nocolon")
	emit(wc+"::"+hx[1:], "twocolon")
	emit(wc+":"+hx+"0", "long65")
	emit(wc+":"+hx+"00", "long66")
	emit(wc+":0"+hx, "long65")
	emit(wc+":"+hx[:63]+"g", "nonhex")
	emit(wc+":"+hx[:r.Intn(64)]+string(rune("xG:-+ \n"[r.Intn(7)]))+hx[:1], "nonhex")
	emit("0x0:"+hx, "hexwc")
	emit("1_0:"+hx, "hexwc")
	for _, w := range []string{"2147483647", "2147483648", "-2147483648", "-2147483649", "4294967295", "4294967296",
		"99999999999999999999", "-99999999999999999999", "000000000000000000000000000001", "18446744073709551616"} {
		emit(w+":"+hx, "range")
	}
}

// all single-character substitutions of a user-friendly string
func c17Substitutions(c *Ctx, a ton.AccountID, url bool, emitEvery int) {
	r := c.R
	s := a.ToHuman(r.Bool(), r.Bool())
	if !url {
		s = c17StdAlphabet(s)
	}
	n := 0
	for i := 0; i < len(s); i++ {
		orig := c17Digit(s[i])
		for _, alpha := range []string{c17UrlAlphabet, c17StdAlphabetChars} {
			for d := 0; d < 64; d++ {
				if d == orig || (alpha == c17StdAlphabetChars && d < 62) {
					continue
				}
				t := s[:i] + string(alpha[d]) + s[i+1:]
				in := sx.Str(t)
				n++
				if n%emitEvery == 0 {
					cls := fmt.Sprintf("subst,pos%d", i/12)
					c.Emit("c17.parsehuman", in, cls)
					if n%(emitEvery*4) == 0 {
						c.Emit("c17.parseacc", in, cls)
						c.Emit("c17.parseaddr", in, cls)
					}
				}
				if _, err := ton.AccountIDFromBase64Url(t); err == nil {
					c.Fail("c17.parsehuman", in, "single-char-accepted", fmt.Sprintf("position %d: %q replaced by %q is accepted", i, s[i], alpha[d]))
				}
				if _, err := ton.ParseAccountID(t); err == nil {
					c.Fail("c17.parseacc", in, "single-char-accepted", fmt.Sprintf("position %d: %q replaced by %q is accepted", i, s[i], alpha[d]))
				}
				if _, err := c17AddrParser.ParseAddress(context.Background(), t); err == nil {
					c.Fail("c17.parseaddr", in, "single-char-accepted", fmt.Sprintf("position %d: %q replaced by %q is accepted", i, s[i], alpha[d]))
				}
			}
		}
		// a character outside both alphabets
		for _, ch := range []byte{'=', '.', ' ', '*', ':', 0x80, 0, '\n'} {
			t := s[:i] + string([]byte{ch}) + s[i+1:]
			if r.Intn(24) == 0 {
				c.Emit("c17.parsehuman", sx.Str(t), "subst,nonalpha")
			}
			if _, err := ton.AccountIDFromBase64Url(t); err == nil {
				c.Fail("c17.parsehuman", sx.Str(t), "single-char-accepted", fmt.Sprintf("position %d: non-alphabet byte %#x accepted", i, ch))
			}
		}
	}
}

func c17HumanMalformed(c *Ctx, a ton.AccountID) {
	r := c.R
	s := a.ToHuman(r.Bool(), r.Bool())
	emit := func(t, cls string, lax bool) {
		c.Emit("c17.parsehuman", sx.Str(t), "humanv,"+cls)
		c.Emit("c17.parseacc", sx.Str(t), "humanv")
		if lax {
			c.Emit("c17.parseaddr", sx.Str(t), "humanv")
		}
	}
	for _, k := range []int{0, 1, 4, 44, 46, 47} {
		emit(s[:k], "trunc", true)
	}
	emit(s+"A", "long", true)
	emit(s+"AAAA", "long", true)
	emit(s+s, "long", true)
	emit(s+"!", "garbage", true)
	emit(s+" ", "garbage", true)
	emit(" "+s, "garbage", true)
	emit(s+"=", "pad", false)
	emit(s+"====", "pad", false)
	emit(s+"AA==", "pad", false)
	emit(s[:46]+"==", "pad", false)
	emit(s[:47]+"=", "pad", false)
	k := r.Intn(49)
	emit(s[:k]+"\n"+s[k:], "crlf", true)
	emit(s[:k]+"\r\n"+s[k:]+"\n", "crlf", true)
	emit(s[:k]+"\t"+s[k:], "garbage", true)
	mixed := c17StdAlphabet(s[:24]) + s[24:]
	emit(mixed, "mixed", true)
	emit(strings.ToUpper(s), "case", true)
	// flag byte: any value is accepted by the parsers (the CRC is recomputed by the harness)
	b := make([]byte, 36)
	b[0] = byte(r.U64())
	b[1] = byte(a.Workchain)
	copy(b[2:], a.Address[:])
	crc := c17RefCrc16(b[:34])
	b[34], b[35] = byte(crc>>8), byte(crc)
	emit(encodeB64Url(b), "anyflag", true)
	// wrong checksum
	b[34+r.Intn(2)] ^= 1 << uint(r.Intn(8))
	emit(encodeB64Url(b), "badcrc", true)
	b[r.Intn(34)] ^= 1 << uint(r.Intn(8))
	emit(encodeB64Url(b), "badcrc", true)
	// random
	emit(encodeB64Url(r.Bytes(36)), "random", true)
	emit(encodeB64Url(r.Bytes(33)), "random", true)
	emit(encodeB64Url(r.Bytes(39)), "random", true)
}

func encodeB64Url(b []byte) string {
	var sb strings.Builder
	for i := 0; i+2 < len(b); i += 3 {
		v := uint(b[i])<<16 | uint(b[i+1])<<8 | uint(b[i+2])
		for j := 3; j >= 0; j-- {
			sb.WriteByte(c17UrlAlphabet[v>>(6*uint(j))&63])
		}
	}
	return sb.String()
}

// prefix-length buckets: root, shallow, byte boundaries of the 8-byte account prefix, the
// deepest shards the TL-B schema allows (60) and the deepest representable ones
func c17LenClass(l int) string {
	switch {
	case l == 0 || l == 1 || l == 60 || l == 62 || l == 63:
		return fmt.Sprintf("len%d", l)
	case l < 8:
		return "len2-7"
	case l <= 56:
		if l%8 == 0 {
			return "len8k"
		}
		return "len9-55"
	case l < 60:
		return "len57-59"
	}
	return "len61"
}

func c17Shards(c *Ctx) {
	r := c.R
	reps := c.Scale(4, 24)
	for l := 0; l <= 63; l++ {
		for rep := 0; rep < reps; rep++ {
			var q uint64
			if l > 0 {
				switch rep % 4 {
				case 0:
					q = r.U64() >> (64 - uint(l))
				case 1:
					q = 0
				case 2:
					q = 1<<uint(l) - 1
				default:
					q = r.U64() >> (64 - uint(l))
				}
			}
			u := c17ShardID(l, q)
			cls := c17LenClass(l)
			m := sx.Z(int64(u))
			// parse / encode
			out := c.Emit("c17.shard.parse", m, cls)
			if out.K != sx.KL || out.List[2].Int.Int64() != int64(u) {
				c.Fail("c17.shard.parse", m, "shard-parse-encode", "Encode(ParseShardID(m)) != m")
			}
			// convertShardIdent
			var pfx uint64
			if l > 0 {
				pfx = q << (64 - uint(l))
			}
			idIn := sx.L(sx.N(pfx), sx.Nat(l))
			if got := c.Emit("c17.shard.ident", idIn, cls); got.U64() != u {
				c.Fail("c17.shard.ident", idIn, "shard-ident", "convertShardIdent is not prefix | 1<<(63-len)")
			}
			// children / parent
			if l <= 62 {
				for _, left := range []bool{true, false} {
					in := sx.L(sx.N(u), sx.B(left))
					ch := c.Emit("c17.shard.child", in, cls).U64()
					wantCh := c17ShardID(l+1, q*2+uint64(1-b2i(left)))
					if ch != wantCh {
						c.Fail("c17.shard.child", in, "shard-child", fmt.Sprintf("child %x want %x", ch, wantCh))
					}
					if p := c.Emit("c17.shard.parent", sx.N(ch), cls).U64(); p != u {
						c.Fail("c17.shard.parent", sx.N(ch), "shard-child-parent", fmt.Sprintf("parent(child(%x)) = %x", u, p))
					}
				}
			} else {
				c.Emit("c17.shard.child", sx.L(sx.N(u), sx.B(r.Bool())), cls+",deepest")
			}
			if l >= 1 {
				p := c.Emit("c17.shard.parent", sx.N(u), cls).U64()
				if p != c17ShardID(l-1, q/2) {
					c.Fail("c17.shard.parent", sx.N(u), "shard-parent", fmt.Sprintf("parent %x want %x", p, c17ShardID(l-1, q/2)))
				}
				in := sx.L(sx.N(p), sx.B(q%2 == 0))
				if ch := c.Emit("c17.shard.child", in, cls).U64(); ch != u {
					c.Fail("c17.shard.child", in, "shard-parent-child", fmt.Sprintf("child(parent(%x)) = %x", u, ch))
				}
			} else {
				c.Emit("c17.shard.parent", sx.N(u), cls+",root")
			}
			// GetParents
			for _, f := range [][2]bool{{false, false}, {true, false}, {false, true}} {
				if (f[0] && l == 0) || (f[1] && l > 62) {
					continue
				}
				in := sx.L(sx.N(pfx), sx.Nat(l), sx.B(f[0]), sx.B(f[1]))
				ps := c.Emit("c17.parents", in, fmt.Sprintf("%s,s%dm%d", cls, b2i(f[0]), b2i(f[1])))
				var want []uint64
				switch {
				case f[1]:
					want = []uint64{c17ShardID(l+1, q*2), c17ShardID(l+1, q*2+1)}
				case f[0]:
					want = []uint64{c17ShardID(l-1, q/2)}
				default:
					want = []uint64{u}
				}
				ok := ps.K == sx.KL && len(ps.List) == len(want)
				for i := 0; ok && i < len(want); i++ {
					ok = ps.List[i].U64() == want[i]
				}
				if !ok {
					c.Fail("c17.parents", in, "shard-getparents", fmt.Sprintf("GetParents shards %s want %x", ps.String(), want))
				}
			}
			// MatchAccountID: addresses around the prefix boundary
			for k := 0; k < 5; k++ {
				addr := r.Bytes(32)
				mc := "rand"
				if k >= 1 { // copy the prefix bits
					for i := 0; i < l; i++ {
						if u>>(63-uint(i))&1 == 1 {
							addr[i/8] |= 1 << (7 - uint(i)%8)
						} else {
							addr[i/8] &^= 1 << (7 - uint(i)%8)
						}
					}
					mc = "inside"
				}
				if k == 2 && l > 0 { // flip the last prefix bit
					addr[(l-1)/8] ^= 1 << (7 - uint(l-1)%8)
					mc = "flip-last"
				}
				if k == 3 { // flip the first bit after the prefix
					addr[l/8] ^= 1 << (7 - uint(l)%8)
					mc = "flip-after"
				}
				if k == 4 && l > 0 { // flip some prefix bit
					i := r.Intn(l)
					addr[i/8] ^= 1 << (7 - uint(i)%8)
					mc = "flip-any"
				}
				in := sx.L(m, sx.Bytes(addr))
				got := c.Emit("c17.shard.match", in, cls+","+mc)
				if got.K != sx.KB || got.Bool != c17RefMatch(u, addr) {
					c.Fail("c17.shard.match", in, "shard-match-prefix", "MatchAccountID differs from 'shard prefix is a prefix of the address'")
				}
			}
			// MatchBlockID: related and unrelated shards
			for k := 0; k < 4; k++ {
				var v uint64
				bc := "rand"
				switch k {
				case 0:
					v = r.U64()
					if r.Chance(10) {
						v = 0
					}
				case 1: // ancestor
					la := r.Intn(l + 1)
					v = c17ShardID(la, func() uint64 {
						if la == 0 {
							return 0
						}
						return u >> (64 - uint(la))
					}())
					bc = "ancestor"
				case 2: // descendant
					ld := l + r.Intn(64-l)
					ext := uint64(0)
					if ld > l {
						ext = r.U64() >> (64 - uint(ld-l))
					}
					v = c17ShardID(ld, q<<uint(ld-l)|ext)
					bc = "descendant"
				case 3: // sibling subtree
					if l == 0 {
						continue
					}
					v = c17ShardID(l, q^1)
					if r.Bool() && l < 63 {
						v = c17ShardID(l+1, (q^1)<<1|r.U64()&1)
					}
					bc = "sibling"
				}
				in := sx.L(m, sx.N(v))
				got := c.Emit("c17.shard.matchblock", in, cls+","+bc)
				if v != 0 && (got.K != sx.KB || got.Bool != c17RefRelated(u, v)) {
					c.Fail("c17.shard.matchblock", in, "shard-match-block", "MatchBlockID differs from 'one shard is an ancestor of the other'")
				}
				if v == 0 && (got.K != sx.KB || got.Bool) {
					c.Fail("c17.shard.matchblock", in, "shard-match-block", "block shard 0 must not match")
				}
			}
		}
	}
	c.Emit("c17.shard.parse", sx.Z(0), "zero")
	c.Emit("c17.shard.match", sx.L(sx.Z(0), sx.Bytes(make([]byte, 32))), "zero")
	c.Emit("c17.shard.matchblock", sx.L(sx.Z(0), sx.N(1<<63)), "zero")
	for i := 0; i < c.Scale(200, 2000); i++ {
		u := r.U64()
		c.Emit("c17.shard.parse", sx.Z(int64(u)), "rand")
		c.Emit("c17.shard.child", sx.L(sx.N(u), sx.B(r.Bool())), "rand")
		c.Emit("c17.shard.parent", sx.N(u), "rand")
	}
}

func c17Anycast(c *Ctx) {
	r := c.R
	depths := []uint32{0, 1, 2, 7, 8, 9, 15, 16, 17, 24, 29, 30, 31, 32, 33, 40, 64, 1 << 31, 1<<32 - 1}
	for rep := 0; rep < c.Scale(5, 40); rep++ {
		for _, d := range depths {
			addr, ac := c17PickAddr(r)
			var p uint32
			pc := "fit"
			switch r.Intn(5) {
			case 0:
				p = 0
			case 1:
				if d >= 32 {
					p = 1<<32 - 1
				} else {
					p = 1<<d - 1
				}
			case 2:
				p = uint32(r.U64())
				pc = "wide"
			default:
				p = uint32(r.U64())
				if d < 32 {
					p &= 1<<d - 1
				}
			}
			if d < 32 && p >= 1<<d {
				pc = "wide"
			}
			wc := int64(int8(c17PickWc(r, true)))
			in := sx.L(sx.B(true), sx.N(uint64(d)), sx.N(uint64(p)), sx.Z(wc), sx.Bytes(addr[:]))
			_ = ac
			cls := fmt.Sprintf("anycast,d%d,%s", d, pc)
			switch {
			case d > 33:
				cls = fmt.Sprintf("anycast,dbig,%s", pc)
			case d >= 2 && d <= 29:
				cls = fmt.Sprintf("anycast,d2-29,%s", pc)
			}
			got := c.Emit("c17.fromtlb", in, cls)
			if d >= 1 && d <= 30 && p < 1<<d {
				// first d bits are rewrite_pfx, the rest of the address is unchanged
				ok := got.K == sx.KL && len(got.List) == 2 && got.List[0].Int.Int64() == wc && len(got.List[1].Bytes) == 32
				if ok {
					na := got.List[1].Bytes
					for i := 0; i < 256 && ok; i++ {
						if i < int(d) {
							ok = c17AddrBit(na, i) == (p>>(d-1-uint32(i))&1 == 1)
						} else {
							ok = c17AddrBit(na, i) == c17AddrBit(addr[:], i)
						}
					}
				}
				if !ok {
					c.Fail("c17.fromtlb", in, "anycast-rewrite", "the first depth bits must become rewrite_pfx and the rest stay: got "+got.String())
				}
			}
			// through the JSON form of the TL-B address
			aj := c.Emit("c17.majsonany", in, cls)
			wantAj := sx.L(sx.L(sx.A("std"), sx.B(true), sx.N(uint64(d)), sx.N(uint64(p)), sx.Z(wc), sx.Bytes(addr[:])), got).String()
			if back := c.Emit("c17.maunjson", aj, cls).String(); back != wantAj {
				c.Fail("c17.maunjson", aj, "tlb-json-roundtrip", "addr_std with anycast through JSON: want "+wantAj+" got "+back)
			}
			// through the cell encoding
			enc := c.Emit("c17.tlbany", in, cls)
			if enc.K == sx.KBits && d >= 1 && d <= 30 && p < 1<<d {
				if len(enc.Bits) != 2+1+5+int(d)+8+256 {
					c.Fail("c17.tlbany", in, "tlb-format", "addr_std with anycast: wrong length")
				}
				dec := c.Emit("c17.untlb", enc, cls)
				if dec.String() != got.String() {
					c.Fail("c17.untlb", enc, "tlb-roundtrip", "decode(encode(addr_std with anycast)) differs: "+dec.String()+" vs "+got.String())
				}
				k := r.Intn(len(enc.Bits))
				c.Emit("c17.untlb", sx.Bits(enc.Bits[:k]), "untlb,trunc")
			} else if enc.K == sx.KBits && len(enc.Bits) <= 1023 {
				c.Emit("c17.untlb", enc, cls)
			}
		}
	}
	// other constructors and malformed cells
	for i := 0; i < c.Scale(300, 3000); i++ {
		n := r.Intn(400)
		if r.Chance(30) {
			n = r.Intn(12)
		}
		b := randBits(r, n)
		tag := []string{"00", "01", "10", "11", "100", "101", "1100", "1101", "10100000", "10100001", "10111111", "10111110"}[r.Intn(12)]
		if r.Chance(80) {
			b = tag + b
		}
		cls := "untlb,short"
		if len(b) >= 2 {
			cls = "untlb,tag" + b[:2]
		}
		c.Emit("c17.untlb", sx.Bits(b), cls)
	}
}

func c17Adnl(c *Ctx) {
	r := c.R
	for i := 0; i < c.Scale(30, 300); i++ {
		addr, ac := c17PickAddr(r)
		in := sx.Bytes(addr[:])
		s := c.Emit("c17.adnl", in, ac)
		txt := string(s.Bytes)
		// reference: base32 of 0x2d | addr | crc16 without the first character
		raw := append([]byte{0x2d}, addr[:]...)
		crc := c17RefCrc16(raw)
		raw = append(raw, byte(crc>>8), byte(crc))
		if want := strings.ToLower(base32.StdEncoding.EncodeToString(raw))[1:]; txt != want || len(txt) != 55 {
			c.Fail("c17.adnl", in, "adnl-format", "ADNLAddressToBase32 differs from base32(0x2d|addr|crc16)[1:]")
		}
		back := func(t, cls string) {
			if got := c.Emit("c17.parseadnl", sx.Str(t), cls); got.K != sx.KBytes || !bytes.Equal(got.Bytes, addr[:]) {
				c.Fail("c17.parseadnl", sx.Str(t), "adnl-roundtrip", "round trip: got "+got.String())
			}
		}
		back(txt, ac)
		back(txt+".adnl", ac+",suffix")
		back(strings.ToUpper(txt), ac+",upper")
		// malformed
		emit := func(t, cls string) { c17AdnlCase(c, t, "adnlv,"+cls) }
		emit(txt[:54], "len")
		emit(txt+"a", "len")
		emit("", "len")
		emit(txt+".adnl.adnl", "suffix2")
		emit(txt+".ADNL", "suffix2")
		emit(".adnl"+txt, "suffix2")
		k := r.Intn(55)
		for _, ch := range []string{"0", "1", "8", "9", "=", "-", " ", "\n", "\x80", "."} {
			emit(txt[:k]+ch+txt[k+1:], "nonalpha")
		}
		// padded tails: base32 accepts them and yields fewer than 35 bytes
		for _, p := range []int{1, 3, 4, 6, 2, 5, 7} {
			emit(txt[:55-p]+strings.Repeat("=", p), fmt.Sprintf("pad%d", p))
			emit("b"+txt[1:55-p]+strings.Repeat("=", p), fmt.Sprintf("pad%d,first", p))
		}
		emit(txt[:40]+"="+txt[41:], "padmid")
		emit(txt[:47]+"========", "padq")
		// single-character substitutions: rejected by the checksum (or the first-byte check)
		every := c.Scale(31, 5)
		n := 0
		for pos := 0; pos < 55; pos++ {
			for d := 0; d < 32; d++ {
				if c17B32[d] == txt[pos] {
					continue
				}
				t := txt[:pos] + string(c17B32[d]) + txt[pos+1:]
				n++
				if (n+i)%every == 0 {
					c.Emit("c17.parseadnl", sx.Str(t), fmt.Sprintf("adnl-subst,pos%d", pos/16))
				}
				if _, err := liteclient.ParseADNLAddress(t); err == nil {
					c.Fail("c17.parseadnl", sx.Str(t), "adnl-single-char-accepted", fmt.Sprintf("position %d replaced by %q accepted", pos, c17B32[d]))
				}
			}
		}
	}
	for i := 0; i < c.Scale(100, 1000); i++ {
		b := make([]byte, 55)
		for j := range b {
			b[j] = c17B32[r.Intn(32)]
		}
		c17AdnlCase(c, string(b), "adnlv,random")
	}
}

// ParseADNLAddress on a malformed string.  Observation outside the property (C17 speaks about
// the round trip of well-formed ADNL text only): a string whose base32 decoding succeeds with
// fewer than 35 bytes starting with 0x2d makes the code slice buf[33:] out of range.  That
// input class is run on the implementation only and merely counted (no oracle failure, not
// compared with the model), so neither the panic nor a later repair is an alarm.
func c17AdnlCase(c *Ctx, t, cls string) {
	s := strings.TrimSuffix(t, ".adnl")
	if len(s) == 55 {
		if buf, err := base32.StdEncoding.DecodeString("F" + strings.ToUpper(s)); err == nil && len(buf) < 35 && buf[0] == 0x2d {
			safeExec("c17.parseadnl", sx.Str(t))
			c.Note("c17.parseadnl", "adnlv,short-decode", sx.Str(t))
			return
		}
	}
	c.Emit("c17.parseadnl", sx.Str(t), cls)
}

// the parsers called from several goroutines at once (guarded child: a hang or crash is a
// reported outcome): valid strings next to their single-character substitutions, raw forms,
// ADNL strings.  The results must be the sequential ones.
func c17Concurrent(c *Ctx, sample []ton.AccountID) {
	r := c.R
	for round := 0; round < c.Scale(3, 6); round++ {
		var hs, ads []sx.V
		for i := 0; i < 12; i++ {
			a := sample[r.Intn(len(sample))]
			h := a.ToHuman(r.Bool(), r.Bool())
			if r.Bool() {
				h = c17StdAlphabet(h)
			}
			hs = append(hs, sx.Str(h))
			// one substituted character: in the address part (the checksum characters of the
			// valid string stay) or anywhere
			pos := r.Intn(48)
			if i%2 == 0 {
				pos = 3 + r.Intn(40)
			}
			ch := c17UrlAlphabet[r.Intn(64)]
			for c17Digit(ch) == c17Digit(h[pos]) {
				ch = c17UrlAlphabet[r.Intn(64)]
			}
			hs = append(hs, sx.Str(h[:pos]+string(ch)+h[pos+1:]))
			if i%4 == 0 {
				hs = append(hs, sx.Str(a.ToRaw()))
			}
		}
		for i := 0; i < 6; i++ {
			var a ton.Bits256
			copy(a[:], r.Bytes(32))
			t := liteclient.ADNLAddressToBase32(a)
			ads = append(ads, sx.Str(t))
			pos := r.Intn(55)
			ch := c17B32[r.Intn(32)]
			for ch == t[pos] {
				ch = c17B32[r.Intn(32)]
			}
			ads = append(ads, sx.Str(t[:pos]+string(ch)+t[pos+1:]))
		}
		in := sx.L(sx.L(hs...), sx.L(ads...), sx.Nat(16), sx.Nat(c.Scale(4000, 12000)))
		out := c.EmitGuarded("c17.conc", in, "conc")
		if out.K != sx.KL || len(out.List) != 3 || out.List[2].U64() != 0 {
			what := "outcome " + trunc(out.String(), 80)
			if out.K == sx.KL && len(out.List) == 4 {
				what = out.List[2].Int.String() + " deviating results; first: " + trunc(out.List[3].String(), 400)
			}
			c.Fail("c17.conc", in, "concurrent-parse", "parsers called from 16 goroutines at once must return the sequential results: "+what)
		}
	}
}

func c17Json(c *Ctx) {
	r := c.R
	for i := 0; i < c.Scale(20, 200); i++ {
		addr, _ := c17PickAddr(r)
		a := ton.AccountID{Workchain: c17PickWc(r, false), Address: addr}
		raw := a.ToRaw()
		want := c17AccSx(a).String()
		emit := func(t, cls string) sx.V { return c.Emit("c17.unjson", sx.Str(t), "jsonv,"+cls) }
		for _, t := range []string{" \"" + raw + "\"", "\"" + raw + "\" \n", "\t\r\n \"" + raw + "\"\t"} {
			if got := emit(t, "ws").String(); got != want {
				c.Fail("c17.unjson", sx.Str(t), "json-roundtrip", "white space around the string: got "+got)
			}
		}
		emit("\""+raw, "unterminated")
		emit(raw+"\"", "unquoted")
		emit(raw, "unquoted")
		emit("\""+raw+"\"x", "trailing")
		emit("\""+raw+"\"\"\"", "trailing")
		emit("\""+raw+"\" \""+raw+"\"", "trailing")
		emit("null", "null")
		emit("", "empty")
		emit(" ", "empty")
		emit("\"\"", "emptystr")
		emit("0", "number")
		emit("true", "number")
		emit("[\""+raw+"\"]", "array")
		emit("{\"a\":\""+raw+"\"}", "object")
		emit("\" "+raw+"\"", "inner-space")
		emit("\""+raw[:3]+"\n"+raw[3:]+"\"", "control")
		emit("\""+raw[:3]+"\x7f"+raw[3:]+"\"", "del")
		emit("\""+raw[:3]+"\xc3\xa9"+raw[3:]+"\"", "utf8")
		emit("\""+raw[:3]+"\xff"+raw[3:]+"\"", "badutf8")
		// escapes are decoded by encoding/json (not modelled): implementation-only oracle
		k := r.Intn(len(raw))
		esc := fmt.Sprintf("\"%s\\u%04x%s\"", raw[:k], raw[k], raw[k+1:])
		var b ton.AccountID
		if err := b.UnmarshalJSON([]byte(esc)); err != nil || b != a {
			c.Fail("c17.unjson", sx.Str(esc), "json-roundtrip", "escaped form of the raw address is not parsed back")
		}
	}
}

func genC17(c *Ctx) {
	r := c.R
	// CRC-16 against the bitwise definition
	for i := 0; i < c.Scale(300, 3000); i++ {
		n := []int{0, 1, 2, 3, 33, 34, 35, 36, 40}[r.Intn(9)]
		if r.Chance(40) {
			n = r.Intn(80)
		}
		b := r.Bytes(n)
		switch r.Intn(6) {
		case 0:
			for j := range b {
				b[j] = 0
			}
		case 1:
			for j := range b {
				b[j] = 0xff
			}
		case 2:
			if n > 0 {
				for j := range b {
					b[j] = 0
				}
				b[r.Intn(n)] = 1 << uint(r.Intn(8))
			}
		}
		out := c.Emit("c17.crc16", sx.Bytes(b), fmt.Sprintf("crc,len%d", c17Min(n, 40)/8*8))
		if out.List[0].U64() != uint64(c17RefCrc16(b)) || out.List[1].U64() != uint64(c17RefCrc16(b)) {
			c.Fail("c17.crc16", sx.Bytes(b), "crc16-xmodem", "utils.Crc16 differs from CRC-16/XMODEM")
		}
	}
	// every table entry is used: one byte after a zero register
	for b := 0; b < 256; b++ {
		c.Emit("c17.crc16", sx.Bytes([]byte{byte(b)}), "crc,table")
	}
	// accounts in every form
	var sample []ton.AccountID
	for i := 0; i < c.Scale(160, 1600); i++ {
		addr, ac := c17PickAddr(r)
		a := ton.AccountID{Workchain: c17PickWc(r, i%3 != 0), Address: addr}
		c17Account(c, a, ac)
		if a.Workchain >= -128 && a.Workchain <= 127 {
			sample = append(sample, a)
		}
		if i%4 == 0 {
			c17RawVariants(c, a)
		}
		if i < c.Scale(2, 12) {
			c17RawLengths(c, addr)
		}
		if i%4 == 1 && a.Workchain >= -128 && a.Workchain <= 127 {
			c17HumanMalformed(c, a)
		}
	}
	// ALL int8 workchains through every form (the boundary values are members, not samples)
	for wc := -128; wc <= 127; wc++ {
		addr, ac := c17PickAddr(r)
		c17Account(c, ton.AccountID{Workchain: int32(wc), Address: addr}, ac)
	}
	for i := 0; i < c.Scale(12, 120); i++ {
		addr, _ := c17PickAddr(r)
		c17MaJsonVariants(c, ton.AccountID{Workchain: c17PickWc(r, true), Address: addr})
	}
	c17Concurrent(c, sample)
	// single-character substitutions: all 48 x (63 + 2) on the implementation, a sample through the model
	nsub := c.Scale(4, 16)
	for i := 0; i < nsub && i < len(sample); i++ {
		c17Substitutions(c, sample[r.Intn(len(sample))], i%2 == 0, c.Scale(7, 2))
	}
	for i := 0; i < c.Scale(100, 1000); i++ {
		n := []int{0, 1, 3, 4, 35, 36, 37, 40, 72}[r.Intn(9)]
		c.Emit("c17.untl", sx.Bytes(r.Bytes(n)), fmt.Sprintf("untl,len%d", n))
	}
	// no account <-> addr_none
	{
		var none *ton.AccountID
		m := none.ToMsgAddress()
		enc := c17MarshalBits(m)
		back, err := ton.AccountIDFromTlb(m)
		if m.SumType != "AddrNone" || enc.K != sx.KBits || enc.Bits != "00" || err != nil || back != nil {
			c.Fail("c17.tlb", sx.A("nil"), "tlb-roundtrip", "nil account must become addr_none$00 and convert back to nil")
		}
		c.Emit("c17.untlb", sx.Bits("00"), "untlb,none")
	}
	c17Shards(c)
	c17Anycast(c)
	c17Adnl(c)
	c17Json(c)
}
