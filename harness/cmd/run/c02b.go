package main

// C02, second part: (1) histories of requests on ONE caching boc.Hasher (the
// answer of every request must be the answer of a fresh computation, never a
// panic — also after requests that failed with the depth limit); (2) cells
// produced by the library's proof builder (MerkleProver / Cursor / CreateProof,
// tlb.ProveKeyInHashmap): level mask per the TON rule, Level(), hash and depth
// at levels 0..3, for the in-memory result and for the parsed proof.

import (
	"bytes"
	"encoding/hex"
	"fmt"
	"time"

	"github.com/tonkeeper/tongo/boc"
	"github.com/tonkeeper/tongo/tlb"

	"verifharness/prng"
	"verifharness/sx"
)

func init() {
	execs["c02.history"] = execC02History
	execs["c02.gohistory"] = execC02GoHistory
	execs["c02.built"] = execC02Built
	execs["c02.builtkey"] = execC02BuiltKey
}

// ---------------------------------------------------------------- histories

// a result as the caller holds it: the very slice / string that was returned
type c02Kept struct {
	raw       []byte // k = 0, 2, 4: the returned slice itself, NOT a copy
	str       string // k = 1, 5
	isStr     bool
	atom      string // "err" / "panic" / "badhex" when there is no value
	scribbled bool
}

func (k *c02Kept) view() sx.V {
	switch {
	case k.atom != "":
		return sx.A(k.atom)
	case k.scribbled:
		return sx.A("scribbled")
	case k.isStr:
		b, err := hex.DecodeString(k.str)
		if err != nil {
			return sx.A("badhex")
		}
		return sx.Bytes(b)
	}
	return sx.Bytes(k.raw)
}

// one request: 0 Hasher.Hash, 1 Hasher.HashString, 2 ToBocCustomWithHasher,
// 4 Cell.Hash, 5 Cell.HashString (no hasher)
func c02HistOp(h *boc.Hasher, cell *boc.Cell, k int) (out *c02Kept) {
	defer func() {
		if r := recover(); r != nil {
			out = &c02Kept{atom: "panic"}
		}
	}()
	var b []byte
	var s string
	var err error
	switch k {
	case 0:
		b, err = h.Hash(cell)
	case 1:
		s, err = h.HashString(cell)
	case 2:
		b, err = cell.ToBocCustomWithHasher(h, false, false, false, 0)
	case 4:
		b, err = cell.Hash()
	default:
		s, err = cell.HashString()
	}
	if err != nil {
		return &c02Kept{atom: "err"}
	}
	if k == 1 || k == 5 {
		return &c02Kept{str: s, isStr: true}
	}
	return &c02Kept{raw: b}
}

// runs a history and returns ((answers at the moment of each call) (the same
// results as the caller still holds them after the whole history)).  Op 3 =
// the caller writes into the result it holds from request i mod #requests.
func c02RunOps(h *boc.Hasher, cells []*boc.Cell, ops []sx.V) sx.V {
	var kept []*c02Kept
	var now []sx.V
	for _, op := range ops {
		k, i := int(op.List[0].U64()), op.List[1].I()
		if k == 3 {
			r := &c02Kept{atom: "none"}
			if len(kept) > 0 {
				t := kept[i%len(kept)]
				if t.atom == "" && !t.isStr {
					for x := range t.raw {
						t.raw[x] ^= 0xA5
					}
					t.scribbled = true
				}
			}
			kept = append(kept, r)
			now = append(now, sx.A("none"))
			continue
		}
		r := c02HistOp(h, cells[i], k)
		kept = append(kept, r)
		now = append(now, r.view()) // sx.Bytes copies
	}
	var end []sx.V
	for _, r := range kept {
		end = append(end, r.view())
	}
	return sx.L(sx.L(now...), sx.L(end...))
}

// c02.history: (dag ((k i) ...)) -> ((answer per request) (kept answers at the end)) on ONE boc.NewHasher()
func execC02History(in sx.V) sx.V {
	dag := dagFromSx(in.List[0])
	cells, err := buildGo(dag)
	if err != nil {
		return sx.A("err")
	}
	return c02RunOps(boc.NewHasher(), cells, in.List[1].List)
}

// c02.gohistory: (dag src ((k i) ...)); src 1 = the hasher of a reused
// tlb.Decoder; also serialisation through the hasher (k = 2), the caller
// writing into a result it holds (k = 3), Cell.Hash / Cell.HashString (4, 5).
// Implementation only (the oracle compares with fresh computations).
func execC02GoHistory(in sx.V) sx.V {
	dag := dagFromSx(in.List[0])
	cells, err := buildGo(dag)
	if err != nil {
		return sx.A("err")
	}
	h := boc.NewHasher()
	if in.List[1].U64() == 1 {
		h = tlb.NewDecoder().Hasher()
	}
	return c02RunOps(h, cells, in.List[2].List)
}

// what a request answers on cells nobody has hashed yet, with a fresh map
func c02Fresh(cell *boc.Cell, k int) (out sx.V) {
	defer func() {
		if r := recover(); r != nil {
			out = sx.A("fresh-panic")
		}
	}()
	if k == 2 {
		b, err := cell.ToBocCustom(false, false, false, 0)
		if err != nil {
			return sx.A("err")
		}
		return sx.Bytes(b)
	}
	b, err := cell.Hash()
	if err != nil {
		return sx.A("err")
	}
	return sx.Bytes(b)
}

func opsSx(ops [][2]int) sx.V {
	var vs []sx.V
	for _, o := range ops {
		vs = append(vs, sx.L(sx.Nat(o[0]), sx.Nat(o[1])))
	}
	return sx.L(vs...)
}

func c02HistoryCompare(c *Ctx, kind string, in sx.V, dag []Node, ops [][2]int, out sx.V, what string) {
	fc, err := buildGo(dag)
	if err != nil || out.K != sx.KL || len(out.List) != 2 || len(out.List[0].List) != len(ops) || len(out.List[1].List) != len(ops) {
		c.Fail(kind, in, "hasher-history", what+": the history did not run")
		return
	}
	memo := map[[2]int]string{}
	fresh := func(o [2]int) string {
		key := o
		switch key[0] {
		case 1, 4, 5:
			key[0] = 0
		}
		want, ok := memo[key]
		if !ok {
			want = c02Fresh(fc[o[1]], key[0]).String()
			memo[key] = want
		}
		return want
	}
	for j, o := range ops {
		if o[0] == 3 {
			continue
		}
		want := fresh(o)
		got := out.List[0].List[j].String()
		if got == want {
			continue
		}
		if got == "'panic" {
			c.Fail(kind, in, "hasher-panic", fmt.Sprintf("%s: request %d (op %d on cell %d) panics; a fresh computation answers %s", what, j, o[0], o[1], trunc(want, 80)))
		} else {
			c.Fail(kind, in, "hasher-history", fmt.Sprintf("%s: request %d (op %d on cell %d) answers %s; a fresh computation answers %s", what, j, o[0], o[1], trunc(got, 80), trunc(want, 80)))
		}
		return
	}
	// results are values: what the caller still holds after the whole history
	for j, o := range ops {
		if o[0] == 3 {
			continue
		}
		got := out.List[1].List[j].String()
		if got == "'scribbled" { // the caller itself wrote into this one
			continue
		}
		if want := fresh(o); got != want {
			c.Fail(kind, in, "hasher-alias", fmt.Sprintf("%s: the result of request %d (op %d on cell %d) was right when returned; after the later requests the caller holds %s instead of %s (results alias each other or the hasher's state)", what, j, o[0], o[1], trunc(got, 80), trunc(want, 80)))
			return
		}
	}
}

// recomputes the masks of a DAG by the TON rule (pruned: stored; Merkle: OR of
// the children >> 1; others: OR of the children)
func ruleMasks(dag []Node) {
	for i := len(dag) - 1; i >= 0; i-- {
		if nodeType(dag[i]) == 1 {
			continue
		}
		var m uint8
		for _, ch := range dag[i].Refs {
			m |= dag[ch].Mask
		}
		if isMerkleNode(dag[i]) {
			m >>= 1
		}
		dag[i].Mask = m
	}
}

func prunedNode(r *prng.R, depth int) Node {
	b := append([]byte{1, 1}, r.Bytes(32)...)
	b = append(b, byte(depth>>8), byte(depth))
	return Node{Special: true, Mask: 1, Bits: hexBits(b)}
}

// chain of n ordinary cells (depth n-1); a few cells get a second reference
func chainDag(r *prng.R, n int, side bool) []Node {
	dag := make([]Node, n)
	for i := 0; i < n; i++ {
		dag[i].Bits = randBits(r, r.Intn(9))
		if i+1 < n {
			dag[i].Refs = []int{i + 1}
			if side && i+2 < n && r.Chance(1) {
				dag[i].Refs = append(dag[i].Refs, i+2+r.Intn(minInt(n-i-2, 5)))
			}
		}
	}
	return dag
}

// a short chain of k ordinary cells over a pruned branch that stores depth d:
// the cell j steps above the leaf has depth d+j (limit: child depth >= 1024 fails)
func deepTail(r *prng.R, k, d int) []Node {
	dag := make([]Node, k+1)
	for i := 0; i < k; i++ {
		dag[i] = Node{Bits: randBits(r, r.Intn(20)), Refs: []int{i + 1}}
	}
	dag[k] = prunedNode(r, d)
	return dag
}

// appends `tail` to `dag` and hangs its top under cell `at`
func attach(dag []Node, at int, tail []Node) []Node {
	base := len(dag)
	for _, nd := range tail {
		cp := Node{Special: nd.Special, Mask: nd.Mask, Bits: nd.Bits}
		for _, r := range nd.Refs {
			cp.Refs = append(cp.Refs, r+base)
		}
		dag = append(dag, cp)
	}
	dag[at].Refs = append(dag[at].Refs, base)
	return dag
}

func histOps(r *prng.R, n int, hot []int, count int) [][2]int {
	var ops [][2]int
	for j := 0; j < count; j++ {
		i := hot[r.Intn(len(hot))]
		if r.Chance(20) {
			i = r.Intn(n)
		}
		if j > 0 && r.Chance(25) {
			i = ops[r.Intn(len(ops))][1] // ask again
		}
		ops = append(ops, [2]int{r.Intn(2), i})
	}
	return ops
}

func c02RunHistory(c *Ctx, dag []Node, ops [][2]int, class string) {
	in := sx.L(dagSx(dag), opsSx(ops))
	out := c.Emit("c02.history", in, class)
	c02HistoryCompare(c, "c02.history", in, dag, ops, out, "one boc.Hasher")
	// the same requests mixed with serialisation through the hasher, on the
	// hasher of a reused tlb.Decoder / a new one: implementation only
	r := c.R
	var gops [][2]int
	for _, o := range ops {
		if r.Chance(25) && len(dag) < 1200 {
			gops = append(gops, [2]int{2, o[1]})
		}
		if r.Chance(15) {
			gops = append(gops, [2]int{4 + r.Intn(2), o[1]}) // Cell.Hash / Cell.HashString in between
		}
		gops = append(gops, o)
		if r.Chance(25) { // the caller writes into a result it holds
			gops = append(gops, [2]int{3, r.Intn(len(gops))})
		}
	}
	src := r.Intn(2)
	gin := sx.L(dagSx(dag), sx.Nat(src), opsSx(gops))
	gout := safeExec("c02.gohistory", gin)
	c.Note("c02.gohistory", class, gin)
	c02HistoryCompare(c, "c02.gohistory", gin, dag, gops, gout, []string{"one boc.Hasher", "the hasher of one tlb.Decoder"}[src])
}

// chains around the depth limit (1022..1026): the root fails from 1025 on.
// Emitted first: these are the most expensive cases for the extracted model.
func genC02Chains(c *Ctx) {
	r := c.R
	depths := []int{1022, 1023, 1024, 1025, 1026}
	rounds := c.Scale(1, 4)
	for round := 0; round < rounds; round++ {
		for _, d := range depths {
			n := d + 1
			dag := chainDag(r, n, round > 0)
			hot := []int{0, 0, 1, 2, 3, n - 1, n / 2, n - 1025, n - 1026}
			for j := range hot {
				if hot[j] < 0 {
					hot[j] = 0
				}
			}
			c02RunHistory(c, dag, histOps(r, n, hot, 5+r.Intn(6)), fmt.Sprintf("chain|depth%d", d))
		}
	}
}

func genC02Histories(c *Ctx) {
	r := c.R
	// 2. the same boundary reached cheaply: a pruned branch that stores a depth
	// near the limit under a short chain
	for i := 0; i < c.Scale(70, 1500); i++ {
		k := 1 + r.Intn(5)
		d := 1024 - k + r.Intn(5) - 2 // top depth = d + k in 1022..1026
		if r.Chance(10) {
			d = 65535 - r.Intn(3)
		}
		if d < 0 {
			d = 0
		}
		dag := deepTail(r, k, d)
		ruleMasks(dag)
		hot := []int{0, 0, 1, k, k - 1}
		c02RunHistory(c, dag, histOps(r, len(dag), hot, 3+r.Intn(8)), fmt.Sprintf("deep-pruned|top%s", depthBucket(d+k)))
	}
	// 3. DAGs whose too deep part is a sub-branch: requests for the root and the
	// ancestors fail, requests for the other branches must keep succeeding
	for i := 0; i < c.Scale(70, 1500); i++ {
		dag := exoticDag(r, 2+r.Intn(10))
		var cand []int
		for j, nd := range dag {
			if !nd.Special && len(nd.Refs) < 4 {
				cand = append(cand, j)
			}
		}
		if len(cand) == 0 {
			continue
		}
		at := cand[r.Intn(len(cand))]
		base := len(dag)
		k := r.Intn(4)
		d := 1024 - k + r.Intn(4) - 2
		dag = attach(dag, at, deepTail(r, k, d))
		if r.Chance(30) { // a second deep branch elsewhere
			at2 := cand[r.Intn(len(cand))]
			if len(dag[at2].Refs) < 4 {
				dag = attach(dag, at2, deepTail(r, r.Intn(3), 1022+r.Intn(4)))
			}
		}
		ruleMasks(dag)
		hot := []int{0, at, at, base, len(dag) - 1, r.Intn(base), r.Intn(base)}
		c02RunHistory(c, dag, histOps(r, len(dag), hot, 4+r.Intn(9)), fmt.Sprintf("sub-branch|top%s", depthBucket(d+k+1)))
	}
	// 4. ordinary histories: no request fails, every order and repetition
	for i := 0; i < c.Scale(50, 1500); i++ {
		size := 1 + r.Intn(12)
		var dag []Node
		fam := "exotic"
		if i%3 == 0 {
			dag = randDag(r, size)
			fam = "ordinary"
		} else {
			dag = exoticDag(r, size)
		}
		hot := []int{0, size - 1, r.Intn(size)}
		c02RunHistory(c, dag, histOps(r, size, hot, 3+r.Intn(10)), "plain|"+fam)
	}
}

func depthBucket(d int) string {
	switch {
	case d < 1024:
		return "<1024"
	case d <= 1026:
		return fmt.Sprint(d)
	case d < 65000:
		return ">1026"
	}
	return "max"
}

// ------------------------------------------------ cells made by the builders

// cellsToDag lays the cells reachable from root out in BOC order (references
// forward: reverse post-order); the node masks are those of the TON rule, NOT
// the masks the cells carry.
func cellsToDag(root *boc.Cell) ([]*boc.Cell, []Node) {
	seen := map[*boc.Cell]bool{}
	var post []*boc.Cell
	var visit func(c *boc.Cell)
	visit = func(c *boc.Cell) {
		if seen[c] {
			return
		}
		seen[c] = true
		for _, ch := range c.Refs() {
			visit(ch)
		}
		post = append(post, c)
	}
	visit(root)
	n := len(post)
	order := make([]*boc.Cell, n)
	idx := map[*boc.Cell]int{}
	for i, c := range post {
		order[n-1-i] = c
		idx[c] = n - 1 - i
	}
	dag := make([]Node, n)
	for i, c := range order {
		rb := c.RawBitString()
		nd := Node{Special: c.IsExotic(), Bits: bitsOf(&rb)}
		for _, ch := range c.Refs() {
			nd.Refs = append(nd.Refs, idx[ch])
		}
		dag[i] = nd
	}
	for i := n - 1; i >= 0; i-- {
		if nodeType(dag[i]) == 1 && len(dag[i].Bits) >= 16 {
			m := 0
			for j := 8; j < 16; j++ {
				m = m*2 + int(dag[i].Bits[j]-'0')
			}
			dag[i].Mask = uint8(m)
		}
	}
	ruleMasks(dag)
	return order, dag
}

func bitLen(m uint32) int {
	n := 0
	for ; m > 0; m >>= 1 {
		n++
	}
	return n
}

// c02CheckProduced: every cell of a tree the library produced has the mask of
// the TON rule, Level() = bit length of the mask, and at levels 0..3 the hash
// and depth of the same content built by writers with the rule's masks (which
// the c02.hashes cases compare with the extracted model).
func c02CheckProduced(c *Ctx, kind string, in sx.V, tag string, root *boc.Cell, emit bool) {
	defer func() {
		if r := recover(); r != nil {
			c.Fail(kind, in, "builder-panic", fmt.Sprintf("%s: examining the produced cells panicked: %v", tag, r))
		}
	}()
	order, dag := cellsToDag(root)
	rebuilt, err := buildGo(dag)
	if err != nil {
		c.Fail(kind, in, "builder-shape", tag+": the produced cells cannot be rebuilt by writers")
		return
	}
	fails := 0
	fail := func(key, what string) {
		if fails < 2 {
			c.Fail(kind, in, key, tag+": "+what)
		}
		fails++
	}
	for i, q := range order {
		if q.IsExotic() && int(q.CellType()) != nodeType(dag[i]) {
			fail("builder-type", fmt.Sprintf("cell %d: the cell type %d is not the first data byte", i, q.CellType()))
		}
		want := uint32(dag[i].Mask)
		if got := boc.VerifMask(q); got != want {
			fail("builder-mask", fmt.Sprintf("cell %d (type %d, %d refs): level mask %d, the TON rule (own contribution OR children's masks, shifted below a Merkle cell) gives %d", i, q.CellType(), len(dag[i].Refs), got, want))
		}
		if q.Level() != bitLen(want) {
			fail("builder-level", fmt.Sprintf("cell %d: Level() = %d, the level of the TON rule's mask %d is %d", i, q.Level(), want, bitLen(want)))
		}
		for l := 0; l <= 3; l++ {
			a, b := levelInfo(q, l).String(), levelInfo(rebuilt[i], l).String()
			if a != b {
				fail("builder-hash", fmt.Sprintf("cell %d: hash/depth at level %d is %s; the same content with the TON rule's masks has %s", i, l, trunc(a, 90), trunc(b, 90)))
				break
			}
		}
	}
	if emit {
		roots := []int{0}
		if len(dag) > 2 {
			roots = append(roots, 1+c.R.Intn(len(dag)-1))
		}
		for _, rt := range roots {
			hin := sx.L(dagSx(dag), sx.Nat(rt))
			ty := "ord"
			if dag[rt].Special {
				ty = "t" + dag[rt].Bits[6:8]
			}
			out := c.Emit("c02.hashes", hin, fmt.Sprintf("built-%s|root-%s|mask%d", kind[4:], ty, dag[rt].Mask))
			q := order[rt]
			got := sx.L(levelInfo(q, 0), levelInfo(q, 1), levelInfo(q, 2), levelInfo(q, 3), sx.Nat(q.Level()))
			if got.String() != out.String() {
				fail("builder-hash", fmt.Sprintf("cell %d: (hash depth) at levels 0..3 and Level() of the produced cell differ from the c02.hashes case of its content", rt))
			}
		}
	}
}

func c02Rows(root *boc.Cell) sx.V {
	var rows []sx.V
	var walk func(q *boc.Cell)
	walk = func(q *boc.Cell) {
		rows = append(rows, sx.L(sx.N(uint64(boc.VerifMask(q))), sx.Nat(q.Level()),
			levelInfo(q, 0), levelInfo(q, 1), levelInfo(q, 2), levelInfo(q, 3)))
		for _, ch := range q.Refs() {
			walk(ch)
		}
	}
	walk(root)
	for _, row := range rows {
		for _, li := range row.List[2:] {
			if li.List[0].IsA("err") {
				return sx.A("err")
			}
		}
	}
	return sx.L(rows...)
}

func c02Cursor(prover *boc.MerkleProver, paths sx.V) *boc.Cursor {
	cursor := prover.Cursor()
	for _, p := range paths.List {
		cc := cursor
		for _, i := range p.List {
			cc = cc.Ref(i.I())
		}
		cc.Prune()
	}
	return cursor
}

// c02.built: (dag root (path ...)) -> rows (mask level (hash depth)x4) of every
// position (pre-order) of the parsed proof CreateProof returns
func execC02Built(in sx.V) sx.V {
	dag := dagFromSx(in.List[0])
	cells, err := buildGo(dag)
	if err != nil {
		return sx.A("err")
	}
	prover, err := boc.NewMerkleProver(cells[in.List[1].I()])
	if err != nil {
		return sx.A("err")
	}
	proof, err := prover.CreateProof(c02Cursor(prover, in.List[2]))
	if err != nil {
		return sx.A("err")
	}
	parsed, err := boc.DeserializeBoc(proof)
	if err != nil || len(parsed) != 1 {
		return sx.A("notboc")
	}
	return c02Rows(parsed[0])
}

// c02.builtkey: (dag root key vbits) -> rows of the proof of tlb.ProveKeyInHashmap
func execC02BuiltKey(in sx.V) sx.V {
	dag := dagFromSx(in.List[0])
	cells, err := buildGo(dag)
	if err != nil {
		return sx.A("err")
	}
	root := cells[in.List[1].I()]
	prover, err := boc.NewMerkleProver(root)
	if err != nil {
		return sx.A("err")
	}
	_, proof, err := tlb.ProveKeyInHashmap[tlb.Uint32](prover, root, bitStringOf(in.List[2].Bits))
	if err != nil {
		return sx.A("err")
	}
	parsed, err := boc.DeserializeBoc(proof)
	if err != nil || len(parsed) != 1 {
		return sx.A("notboc")
	}
	return c02Rows(parsed[0])
}

// source trees of the proof builder: ordinary cells, library cells and (the
// body of an earlier proof being narrowed) pruned branches of mask 1; masks by
// the rule, so all are 0 or 1
func c02SrcDag(r *prng.R, size int) []Node {
	dag := randDag(r, size)
	for i := len(dag) - 1; i >= 1; i-- {
		if len(dag[i].Bits) > 160 {
			dag[i].Bits = dag[i].Bits[:r.Intn(160)]
		}
		switch k := r.Intn(20); {
		case k == 0:
			dag[i] = Node{Special: true, Bits: hexBits(append([]byte{2}, r.Bytes(32)...))}
		case k == 1:
			dag[i] = prunedNode(r, r.Intn(900))
		}
	}
	dag = compactDag(dag)
	ruleMasks(dag)
	return dag
}

func maxPathLen(paths [][]int) int {
	m := 0
	for _, p := range paths {
		if len(p) > m {
			m = len(p)
		}
	}
	return m
}

func genC02Builders(c *Ctx) {
	r := c.R
	// 1. Cursor / Prune / CreateProof: prune sets mostly two or more steps below
	// cells that have no pruned direct child
	n := c.Scale(70, 2500)
	for i := 0; i < n; i++ {
		dag := smallTree(60, func() []Node { return c02SrcDag(r, 3+r.Intn(12)) })
		to := pathsTo(dag)
		var deep, any [][]int
		for j := 0; j < len(dag); j++ {
			if p, ok := to[j]; ok {
				any = append(any, p)
				if len(p) >= 2 {
					deep = append(deep, p)
				}
			}
		}
		var paths [][]int
		for k := 1 + r.Intn(3); k > 0; k-- {
			if len(deep) > 0 && r.Chance(75) {
				paths = append(paths, deep[r.Intn(len(deep))])
			} else {
				paths = append(paths, any[r.Intn(len(any))])
			}
		}
		in := sx.L(dagSx(dag), sx.Nat(0), pathsSx(paths))
		class := fmt.Sprintf("cursor|deepest%d|prunes%d", minInt(maxPathLen(paths), 4), len(paths))
		c.Emit("c02.built", in, class)
		c02BuiltOracle(c, in, dag, paths, i%2 == 0)
	}
	// 2. tlb.ProveKeyInHashmap
	n = c.Scale(25, 800)
	for i := 0; i < n; i++ {
		width := 2 + r.Intn(12)
		dag, keys, _ := randDict(r, width, 1+r.Intn(10))
		if unfoldedSize(dag) > 60 {
			continue
		}
		key := keys[r.Intn(len(keys))]
		in := sx.L(dagSx(dag), sx.Nat(0), sx.Bits(key), sx.Nat(32))
		c.Emit("c02.builtkey", in, fmt.Sprintf("key|width%d|keys%d", minInt(width, 8), minInt(len(keys), 6)))
		func() {
			defer func() {
				if rec := recover(); rec != nil {
					c.Fail("c02.builtkey", in, "builder-panic", fmt.Sprintf("ProveKeyInHashmap panicked: %v", rec))
				}
			}()
			cells, err := buildGo(dag)
			if err != nil {
				return
			}
			prover, err := boc.NewMerkleProver(cells[0])
			if err != nil {
				return
			}
			_, proof, err := tlb.ProveKeyInHashmap[tlb.Uint32](prover, cells[0], bitStringOf(key))
			if err != nil {
				c.Fail("c02.builtkey", in, "builder-error", "no proof for a key of the dictionary")
				return
			}
			parsed, err := boc.DeserializeBoc(proof)
			if err != nil || len(parsed) != 1 {
				c.Fail("c02.builtkey", in, "builder-shape", "the proof is not a single-root bag of cells")
				return
			}
			c02CheckProduced(c, "c02.builtkey", in, "parsed proof of ProveKeyInHashmap", parsed[0], i%3 == 0)
		}()
	}
}

func c02BuiltOracle(c *Ctx, in sx.V, dag []Node, paths [][]int, emit bool) {
	defer func() {
		if rec := recover(); rec != nil {
			c.Fail("c02.built", in, "builder-panic", fmt.Sprintf("the proof builder panicked: %v", rec))
		}
	}()
	cells, err := buildGo(dag)
	if err != nil {
		return
	}
	prover, err := boc.NewMerkleProver(cells[0])
	if err != nil {
		return
	}
	body, err := boc.VerifPruneCells(prover, c02Cursor(prover, pathsSx(paths)))
	if err != nil {
		c.Fail("c02.built", in, "builder-error", "pruneCells fails on a tree without Merkle cells")
		return
	}
	c02CheckProduced(c, "c02.built", in, "in-memory result of pruneCells", body, false)
	proof, err := prover.CreateProof(c02Cursor(prover, pathsSx(paths)))
	if err != nil {
		c.Fail("c02.built", in, "builder-error", "CreateProof fails on a tree without Merkle cells")
		return
	}
	parsed, err := boc.DeserializeBoc(proof)
	if err != nil || len(parsed) != 1 || parsed[0].RefsSize() != 1 {
		c.Fail("c02.built", in, "builder-shape", "the proof is not a single-root bag of cells with one reference")
		return
	}
	c02CheckProduced(c, "c02.built", in, "parsed proof of CreateProof", parsed[0], emit)
	// the serialised body is the in-memory body
	pb := parsed[0].Refs()[0]
	for l := 0; l <= 3; l++ {
		if levelInfo(pb, l).String() != levelInfo(body, l).String() {
			c.Fail("c02.built", in, "builder-hash", fmt.Sprintf("the body parsed from the proof and the in-memory body differ at level %d", l))
			break
		}
	}
	if boc.VerifMask(pb) != boc.VerifMask(body) || pb.Level() != body.Level() {
		c.Fail("c02.built", in, "builder-mask", "the body parsed from the proof and the in-memory body have different masks")
	}
	_ = bytes.Equal
}

// ------------------------------------------ parsed from any bag-of-cells variant

func init() {
	execs["c02.parsed"] = execC02Parsed
	execs["c02.conc"] = execC02Conc
}

func parsedRow(q *boc.Cell) sx.V {
	return sx.L(levelInfo(q, 0), levelInfo(q, 1), levelInfo(q, 2), levelInfo(q, 3),
		sx.Nat(q.Level()), sx.B(q.IsExotic()), sx.N(uint64(q.CellType())))
}

// c02.parsed: bytes -> 'err | one row per root of the bag
func execC02Parsed(in sx.V) sx.V {
	roots, err := boc.DeserializeBoc(in.Bytes)
	if err != nil {
		return sx.A("err")
	}
	var rows []sx.V
	for _, q := range roots {
		rows = append(rows, parsedRow(q))
	}
	return sx.L(rows...)
}

func nonContiguous(m uint8) bool { return m == 2 || m == 4 || m == 5 || m == 6 }

// c02ParsedOrigin: the reachable part of the DAG is written by the reference
// serialiser in a random header variant (three magics, index, CRC, cache bits,
// over-wide fields, stored hashes for every cell) with EVERY cell as a root;
// each parsed cell must have the type, Level() and (hash, depth) at levels
// 0..3 of the cell built in memory (independent expectation), and — when
// emit — of the extracted model of the parser + hashing.
func c02ParsedOrigin(c *Ctx, in sx.V, dag []Node, root int, emit bool) {
	defer func() {
		if r := recover(); r != nil {
			c.Fail("c02.hashes", in, "origin-parsed-panic", fmt.Sprintf("parsing / hashing the reference-serialised bag panicked: %v", r))
		}
	}()
	r := c.R
	sub, _ := reachable(dag, root)
	built, err := buildGo(sub)
	if err != nil {
		return
	}
	hv := randVariant(r)
	if r.Chance(60) {
		hv.WithHashes = true
	}
	roots := make([]int, len(sub))
	for i := range roots {
		roots[i] = i
	}
	if r.Chance(30) { // roots in another order
		for i := len(roots) - 1; i > 0; i-- {
			j := r.Intn(i + 1)
			roots[i], roots[j] = roots[j], roots[i]
		}
	}
	b := refSerialize(sub, roots, hv, r)
	nc := false
	for _, nd := range sub {
		nc = nc || nonContiguous(nd.Mask)
	}
	bin := sx.Bytes(b)
	class := fmt.Sprintf("parsed|hashes-%v|magic%d|noncontig-%v", hv.WithHashes, hv.Magic, nc)
	if emit {
		c.Emit("c02.parsed", bin, class)
	} else {
		c.Note("c02.parsed", class, bin)
	}
	parsed, err := boc.DeserializeBoc(b)
	if err != nil || len(parsed) != len(roots) {
		c.Fail("c02.parsed", bin, "origin-parse", fmt.Sprintf("a valid bag of cells (variant %+v, every cell a root) is rejected: %v", hv, err))
		return
	}
	for k, q := range parsed {
		i := roots[k]
		wantTy := 0
		if sub[i].Special {
			wantTy = nodeType(sub[i])
		}
		if int(q.CellType()) != wantTy || q.IsExotic() != (wantTy != 0) {
			c.Fail("c02.parsed", bin, "origin-parsed", fmt.Sprintf("cell %d parsed from the bag (variant %+v) has type %d exotic=%v, written as type %d special=%v", i, hv, q.CellType(), q.IsExotic(), nodeType(sub[i]), sub[i].Special))
			return
		}
		if q.Level() != bitLen(uint32(sub[i].Mask)) {
			c.Fail("c02.parsed", bin, "origin-parsed", fmt.Sprintf("cell %d parsed from the bag (variant %+v) has Level() %d, mask written %d", i, hv, q.Level(), sub[i].Mask))
			return
		}
		for l := 0; l <= 3; l++ {
			a, w := levelInfo(q, l).String(), levelInfo(built[i], l).String()
			if a != w {
				c.Fail("c02.parsed", bin, "origin-parsed", fmt.Sprintf("cell %d (mask %d) parsed from the bag (variant %+v): (hash depth) at level %d is %s, the cell built in memory has %s", i, sub[i].Mask, hv, l, trunc(a, 90), trunc(w, 90)))
				return
			}
		}
	}
}

// exotic DAGs in which nested Merkle cells put the non-contiguous masks 2, 4,
// 5, 6 on Merkle, ordinary and pruned cells alike: a spine of Merkle
// proofs/updates and ordinary cells over pruned branches of high masks
func nestedMerkleDag(r *prng.R) []Node {
	depth := 2 + r.Intn(5)
	var dag []Node
	for i := 0; i < depth; i++ {
		switch r.Intn(3) {
		case 0:
			d := r.Intn(900)
			data := append([]byte{3}, r.Bytes(32)...)
			data = append(data, byte(d>>8), byte(d))
			dag = append(dag, Node{Special: true, Bits: byteBits(data...), Refs: []int{i + 1}})
		case 1:
			data := append([]byte{4}, r.Bytes(68)...)
			dag = append(dag, Node{Special: true, Bits: byteBits(data...), Refs: []int{i + 1, i + 1}})
		default:
			dag = append(dag, Node{Bits: randBits(r, r.Intn(40)), Refs: []int{i + 1}})
		}
	}
	// bottom: an ordinary cell over 1..3 pruned branches of masks 1..7
	bottom := Node{Bits: randBits(r, r.Intn(30))}
	k := 1 + r.Intn(3)
	for j := 0; j < k; j++ {
		bottom.Refs = append(bottom.Refs, depth+1+j)
	}
	dag = append(dag, bottom)
	for j := 0; j < k; j++ {
		m := uint8(1 + r.Intn(7))
		if r.Chance(50) {
			m = []uint8{2, 4, 5, 6}[r.Intn(4)]
		}
		pc := popcount8(m)
		data := []byte{1, m}
		data = append(data, r.Bytes(32*pc)...)
		for x := 0; x < pc; x++ {
			d := r.Intn(900)
			data = append(data, byte(d>>8), byte(d))
		}
		dag = append(dag, Node{Special: true, Mask: m, Bits: byteBits(data...)})
	}
	// a second branch somewhere on the spine
	if r.Chance(50) {
		at := r.Intn(depth)
		if !dag[at].Special && len(dag[at].Refs) < 4 {
			dag[at].Refs = append(dag[at].Refs, depth+1+r.Intn(k))
		}
	}
	ruleMasks(dag)
	return dag
}

// --------------------------------------------------------------- concurrency

// c02.conc: (k rounds dag ...) -> 'ok | ('differs goroutine round cell):
// k goroutines, each with its OWN cells (built from dag g mod #dags) and its
// own boc.Hasher, hash all their cells `rounds` times through Cell.Hash and
// Hasher.Hash while the others do the same; every hash must be the one computed
// sequentially before.  Nothing is shared between the goroutines.
func execC02Conc(in sx.V) sx.V {
	k := in.List[0].I()
	rounds := in.List[1].I()
	var dags [][]Node
	for _, d := range in.List[2:] {
		dags = append(dags, dagFromSx(d))
	}
	type job struct {
		cells []*boc.Cell
		want  []string
	}
	jobs := make([]job, k)
	for g := 0; g < k; g++ {
		cells, err := buildGo(dags[g%len(dags)])
		if err != nil {
			return sx.A("err")
		}
		jobs[g].cells = cells
		for _, q := range cells {
			h, err := q.Hash()
			if err != nil {
				h = []byte("err")
			}
			jobs[g].want = append(jobs[g].want, string(h))
		}
	}
	res := make(chan sx.V, k)
	start := make(chan struct{})
	for g := 0; g < k; g++ {
		go func(g int) {
			out := sx.A("ok")
			defer func() {
				if r := recover(); r != nil {
					out = sx.L(sx.A("panics"), sx.Nat(g))
				}
				res <- out
			}()
			<-start
			for rd := 0; rd < rounds; rd++ {
				hs := boc.NewHasher()
				for i, q := range jobs[g].cells {
					var h []byte
					var err error
					if (rd+i)%2 == 0 {
						h, err = q.Hash()
					} else {
						h, err = hs.Hash(q)
					}
					if err != nil {
						h = []byte("err")
					}
					if string(h) != jobs[g].want[i] {
						out = sx.L(sx.A("differs"), sx.Nat(g), sx.Nat(rd), sx.Nat(i))
						return
					}
				}
			}
		}(g)
	}
	close(start)
	out := sx.A("ok")
	for g := 0; g < k; g++ {
		if v := <-res; !v.IsA("ok") && out.IsA("ok") {
			out = v
		}
	}
	return out
}

func genC02Conc(c *Ctx) {
	r := c.R
	for i := 0; i < c.Scale(6, 40); i++ {
		k := []int{2, 4, 8, 16}[r.Intn(4)]
		args := []sx.V{sx.Nat(k), sx.Nat(c.Scale(150, 400))}
		for j := 0; j < 1+r.Intn(3); j++ {
			if r.Bool() {
				args = append(args, dagSx(exoticDag(r, 8+r.Intn(20))))
			} else {
				args = append(args, dagSx(randDag(r, 8+r.Intn(20))))
			}
		}
		in := sx.L(args...)
		out := guardedExec("c02.conc", in, 20*time.Second)
		c.Note("c02.conc", fmt.Sprintf("goroutines%d", k), in)
		if !out.IsA("ok") {
			c.Fail("c02.conc", in, "conc-hash", fmt.Sprintf("%d goroutines hashing unrelated cells (Cell.Hash, one Hasher each): %s; sequentially every hash is right", k, out.String()))
		}
	}
}
