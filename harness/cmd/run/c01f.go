package main

import (
	"bytes"
	"fmt"

	"github.com/tonkeeper/tongo/boc"

	"verifharness/prng"
	"verifharness/sx"
)

// C01, header widths of foreign bags of cells.  The format leaves the width of
// the reference fields (size, 1..4 bytes) and of the offset fields (off_bytes,
// 1..8 bytes) to the producer; the library's own serialiser always emits the
// minimal ones.  Theorem C01_parse_layout covers every fitting width, so the
// reference serialiser has to emit every legal one, non-minimal on purpose:
// size (minimal..4) x off_bytes (minimal..8) x the three magics x all
// index / CRC / cache-bit combinations of the generic magic, with and without
// stored hashes, one or two roots.  Every such bag must parse to the intended
// hash and structure (oracle-only: the parser is microseconds per case); the
// extreme widths also go through the extracted parser model (kind c07.parse).

func genC01Widths(c *Ctx, r *prng.R) {
	nd := c.Scale(6, 80)
	for i := 0; i < nd; i++ {
		size := 1 + r.Intn(24)
		if c.Thorough() && i%20 == 19 {
			size = 256 + r.Intn(8) // minimal reference width 2
		}
		var dag []Node
		if i%3 == 2 {
			dag = exoticDag(r, size)
		} else {
			dag = randDag(r, size)
		}
		sub, root := reachable(dag, 0)
		cells, err := buildGo(sub)
		if err != nil {
			continue
		}
		h0, err := cells[root].Hash()
		if err != nil {
			continue
		}
		minSize := minBytes(uint64(len(sub)))
		rot := 0
		for _, withHashes := range []bool{false, true} {
			for sz := minSize; sz <= 4; sz++ {
				// minimal offset width of this layout (it depends on the reference
				// width): what the reference serialiser picks
				base := refSerialize(sub, []int{root}, HeaderVariant{WithHashes: withHashes, SizeExtra: sz - minSize}, r)
				minOff := int(base[5])
				for off := minOff; off <= 8; off++ {
					for magic := 0; magic < 3; magic++ {
						combos := []int{0}
						if magic == 0 {
							combos = []int{0, 1, 2, 3, 4, 5, 6, 7}
						}
						for _, o := range combos {
							hv := HeaderVariant{Magic: magic, Idx: o&1 != 0, Crc: o&2 != 0, Cache: o&4 != 0,
								SizeExtra: sz - minSize, OffExtra: off - minOff, WithHashes: withHashes}
							roots := []int{root}
							if rot%5 == 4 && len(sub) > 1 {
								roots = append(roots, r.Intn(len(sub)))
							}
							rot++
							b := refSerialize(sub, roots, hv, r)
							in := sx.Bytes(b)
							what := fmt.Sprintf("size %d, off_bytes %d, magic %d, idx %v, crc %v, cache bits %v, stored hashes %v, %d root(s)",
								sz, off, magic, hv.Idx, hv.Crc, hv.Cache, withHashes, len(roots))
							if int(b[4]&7) != sz && magic == 0 || int(b[5]) != off {
								c.Fail("c01.widths", in, "harness", "the reference serialiser did not emit the requested widths: "+what)
								continue
							}
							c01CheckForeign(c, in, b, len(roots), cells[root], h0, what)
							if !withHashes && magic == 0 && o == 0 {
								c.Note("c01.widths", fmt.Sprintf("widths|size%d|off%d", sz, off), in)
							}
							// the extreme widths through the parser model as well
							extreme := (sz == 4 || sz == minSize) && (off == 8 || off == minOff) && (sz == 4 || off == 8)
							if extreme && (o == rot%8 || magic != 0) && (c.Thorough() || !withHashes) {
								c.Emit("c07.parse", in, fmt.Sprintf("widths|size%d|off%d|magic%d", sz, off, magic))
							}
						}
					}
				}
			}
		}
	}
}

func c01CheckForeign(c *Ctx, in sx.V, b []byte, nroots int, root *boc.Cell, h0 []byte, what string) {
	defer func() {
		if r := recover(); r != nil {
			c.Fail("c01.widths", in, "foreign-parse", fmt.Sprintf("panic while parsing a well-formed BOC (%s): %v", what, r))
		}
	}()
	parsed, err := boc.DeserializeBoc(b)
	if err != nil || len(parsed) != nroots {
		c.Fail("c01.widths", in, "foreign-parse", fmt.Sprintf("a well-formed BOC written by the reference serialiser (%s) is rejected: %v", what, err))
		return
	}
	h, err := parsed[0].Hash()
	if err != nil || !bytes.Equal(h, h0) {
		c.Fail("c01.widths", in, "foreign-hash", "a BOC written by the reference serialiser ("+what+") parses to a different hash")
		return
	}
	if !sameStructure(root, parsed[0], map[[2]*boc.Cell]bool{}) {
		c.Fail("c01.widths", in, "foreign-structure", "a BOC written by the reference serialiser ("+what+") parses to a different structure")
	}
}
