package main

// C12, the silence rule of Connection.reader on the wall clock: a connection on
// which any packet arrives at least once per reconnectTimeout (10 s) must not be
// torn down, a connection that is silent for the whole period must be.

import (
	"context"
	"crypto/ed25519"
	"crypto/sha256"
	"fmt"
	"runtime"
	"sort"
	"sync"
	"sync/atomic"
	"time"

	"github.com/tonkeeper/tongo/liteclient"

	"verifharness/sx"
)

type c12Timed struct {
	t time.Duration
	v sx.V
}

const (
	c12AliveIdle    = 9200 * time.Millisecond  // the second call is issued here
	c12AliveAnswer  = 11700 * time.Millisecond // ... and answered here, past the 10 s mark
	c12AliveTimeout = 6 * time.Second          // client timeout
)

// runC12Alive, one connection:
//
//	mode 0  unmodified NewConnection / NewClient: the real ping goroutine, the
//	        server answers every ping; pongs are the only traffic while idle
//	mode 1  no pings; the server sends a tcp.authentificationNonce every 2.5 s
//	mode 2  no pings, silent server: the silence rule has to fire
//
// modes 0, 1: a warm-up call at t=0, idle, a call at 9.2 s answered at 11.7 s.
// The history (with one 'tick per second of wall clock) must be a trace of the model.
func runC12Alive(mode int) (events []sx.V, fails []c12Fail, bad string) {
	c12Quiet()
	fail := func(key, what string) { fails = append(fails, c12Fail{key, what}) }
	srv, err := newC12Server(1)
	if err != nil {
		return nil, nil, "env: " + err.Error()
	}
	srv.autoPong = true
	l := srv.lns[0]
	e := &c12Env{srv: srv, D: c12AliveTimeout}
	copy(e.tag[:], fmt.Sprintf("alive%03d", mode))
	ctx, cancel := context.WithTimeout(context.Background(), 5*time.Second)
	var conn *liteclient.Connection
	if mode == 0 {
		conn, err = liteclient.NewConnection(ctx, srv.pub, l.ln.Addr().String())
	} else {
		conn, err = liteclient.VerifC12Dial(ctx, srv.pub, l.ln.Addr().String())
	}
	cancel()
	if err != nil {
		srv.close()
		return nil, nil, "dial: " + err.Error()
	}
	if mode != 0 {
		// the ping goroutine of mode 0 lives as long as the process: keep that server
		defer srv.close()
	}
	e.conns = []*liteclient.Connection{conn}
	if mode == 0 {
		e.cl = liteclient.NewClient(conn, liteclient.OptionTimeout(c12AliveTimeout))
	} else {
		e.cl = liteclient.VerifNewClient(e.conns, c12AliveTimeout)
	}
	if !c12Wait(2*time.Second, func() bool { _, g := l.current(); return g >= 1 }) {
		return nil, nil, "handshake not completed"
	}
	t0 := time.Now()
	var log []c12Timed
	at := func(v sx.V) { log = append(log, c12Timed{time.Since(t0), v}) }
	sleepUntil := func(d time.Duration) { time.Sleep(time.Until(t0.Add(d))) }

	if mode == 2 {
		// nothing is sent: a second transport connection between ~10 s and 16 s
		ok := c12Wait(16*time.Second, func() bool { _, g := l.current(); return g >= 2 })
		if !ok {
			fail("silence-reconnect-missing", "a connection without any traffic was not re-established within 16 s (reconnectTimeout is 10 s)")
		}
	} else {
		// one call: issue, wait until the server has it, answer after delay on the
		// transport connection it arrived on
		call := func(i int, answerAt time.Duration, d uint64) {
			c := e.startCall(i, 0)
			var q c12Query
			got := c12Wait(5*time.Second, func() bool {
				var ok bool
				q, ok = srv.query(c.key)
				return ok || c.returned()
			})
			if got {
				q, got = srv.query(c.key)
			}
			if got {
				at(sx.L(sx.A("recv"), sx.Nat(i), sx.Nat(0)))
				fc, _ := l.current()
				if answerAt > 0 {
					sleepUntil(answerAt)
				}
				if fc.send(c12Answer(q.id, c12Data(d))) == nil {
					at(sx.L(sx.A("ans"), sx.Nat(0), sx.Nat(i), sx.N(d)))
				}
			}
			if !c.wait(time.Until(c.start.Add(c12AliveTimeout + c12Hang))) {
				fail("call-hangs", fmt.Sprintf("call %d has not returned", i))
				bad = "hang"
				return
			}
			switch {
			case c.class() == c12Ok && string(c.res) == string(c12Data(d)):
				at(sx.L(sx.A("ret"), sx.Nat(i), sx.L(sx.A("ok"), sx.N(d))))
			case c.class() == c12Ok:
				fail("foreign-answer", fmt.Sprintf("call %d returned bytes other than its answer", i))
				at(sx.L(sx.A("ret"), sx.Nat(i), sx.L(sx.A("ok"), sx.N(0))))
			case c.class() == c12Timeout:
				at(sx.L(sx.A("ret"), sx.Nat(i), sx.A("expired")))
				if answerAt > 0 {
					fail("alive-connection-dropped", fmt.Sprintf("the call issued at %v and answered by the server at %v (client timeout %v) returned %q although a packet reached the connection at least every 3 s",
						c12AliveIdle, c12AliveAnswer, c12AliveTimeout, c.err))
				} else {
					fail("soak-call-fails", fmt.Sprintf("warm-up call: %v", c.err))
				}
			default:
				at(sx.L(sx.A("ret"), sx.Nat(i), sx.A("err")))
				fail("alive-connection-dropped", fmt.Sprintf("call %d: %v", i, c.err))
			}
		}
		stop := make(chan struct{})
		nonceAt := make(chan []time.Time, 1)
		if mode == 1 {
			go func() {
				var ts []time.Time
				tk := time.NewTicker(2500 * time.Millisecond)
				defer tk.Stop()
				for {
					select {
					case <-stop:
						nonceAt <- ts
						return
					case <-tk.C:
						if fc, _ := l.current(); fc != nil && fc.send(c12Nonce()) == nil {
							ts = append(ts, time.Now())
						}
					}
				}
			}()
		}
		call(0, 0, 1<<11|8)
		if bad == "" {
			sleepUntil(c12AliveIdle)
			call(1, c12AliveAnswer, 2<<11|9)
		}
		close(stop)
		if mode == 1 {
			for _, t := range <-nonceAt {
				log = append(log, c12Timed{t.Sub(t0), sx.L(sx.A("nonce"), sx.Nat(0))})
			}
		}
		if mode == 0 {
			if n := srv.pings.Load(); n < 2 {
				fail("ping-missing", fmt.Sprintf("the server received %d pings in %v (one every 3 s expected)", n, time.Since(t0).Round(time.Second)))
			}
			if rt, answered := c12Watch(func() time.Duration { return conn.AverageRoundTrip() }); answered && rt <= 0 {
				fail("pong-unmatched", "AverageRoundTrip() is 0 although every ping was answered: pongs are not matched with their pings")
			}
		}
		if _, g := l.current(); g != 1 {
			fail("alive-connection-dropped", fmt.Sprintf("the server saw %d transport connections although a packet reached the client at least every 3 s (the silence rule must not fire)", g))
		}
	}
	events = c12TimedHistory(srv, t0, log, mode == 0)
	if mode == 2 {
		l.mu.Lock()
		for _, t := range l.upAt[1:] {
			if d := t.Sub(t0); d < 9500*time.Millisecond {
				fail("silence-reconnect-early", fmt.Sprintf("the silent connection was re-established after %v, before reconnectTimeout", d))
			}
		}
		l.mu.Unlock()
	}
	return events, fails, bad
}

// c12TimedHistory merges what the harness logged with what the server recorded
// (pings received, pongs written, completed handshakes) and inserts one 'tick
// per second of wall clock (rounded: the client's timers started a moment before t0).
func c12TimedHistory(srv *c12Server, t0 time.Time, log []c12Timed, pinger bool) (events []sx.V) {
	return c12TimedHistoryUp(srv, t0, log, pinger, false)
}

// authUp: the connection is up when the server has verified the authentication
func c12TimedHistoryUp(srv *c12Server, t0 time.Time, log []c12Timed, pinger, authUp bool) (events []sx.V) {
	l := srv.lns[0]
	srv.mu.Lock()
	for _, t := range srv.pongAt {
		log = append(log, c12Timed{t.Sub(t0), sx.L(sx.A("pong"), sx.Nat(0), sx.Nat(0))})
	}
	for _, t := range srv.pingAt {
		log = append(log, c12Timed{t.Sub(t0), sx.L(sx.A("ping"), sx.Nat(0))})
	}
	srv.mu.Unlock()
	l.mu.Lock()
	ups := l.upAt
	if authUp {
		ups = l.authAt
	}
	for _, t := range ups[1:] {
		log = append(log, c12Timed{t.Sub(t0), sx.L(sx.A("up"), sx.Nat(0))})
	}
	l.mu.Unlock()
	sort.SliceStable(log, func(a, b int) bool { return log[a].t < log[b].t })
	ticks := func(d time.Duration) int {
		if d < 0 {
			return 0
		}
		return int((d + 500*time.Millisecond) / time.Second)
	}
	if pinger {
		events = append(events, sx.L(sx.A("pinger"), sx.Nat(0)))
	}
	prev := 0
	for _, ev := range log {
		if n := ticks(ev.t) - prev; n > 0 {
			events = append(events, sx.L(sx.A("tick"), sx.Nat(0), sx.Nat(n)))
			prev += n
		}
		events = append(events, ev.v)
	}
	return events
}

const (
	c12PingerCallAt   = 8500 * time.Millisecond  // after the reconnect: the call is issued
	c12PingerAnswerAt = 11500 * time.Millisecond // ... and answered, past the 10 s silence mark of the new reader
)

// runC12Pinger: an unmodified connection (real pinger), idle, is reset by the
// server.  Only the pinger can notice.  After the client has re-established the
// connection the pings have to go on at the usual rate (the server answers each),
// so the new connection is never silent: a call issued 8.5 s after the reconnect
// and answered 11.5 s after it gets its answer, and there is exactly one further
// transport connection.
func runC12Pinger(rst bool) (events []sx.V, fails []c12Fail, bad string) {
	c12Quiet()
	fail := func(key, what string) { fails = append(fails, c12Fail{key, what}) }
	srv, err := newC12Server(1)
	if err != nil {
		return nil, nil, "env: " + err.Error()
	}
	srv.autoPong = true
	l := srv.lns[0]
	e := &c12Env{srv: srv, D: c12AliveTimeout}
	copy(e.tag[:], "pingers ")
	ctx, cancel := context.WithTimeout(context.Background(), 5*time.Second)
	conn, err := liteclient.NewConnection(ctx, srv.pub, l.ln.Addr().String())
	cancel()
	if err != nil {
		srv.close()
		return nil, nil, "dial: " + err.Error()
	}
	e.conns = []*liteclient.Connection{conn}
	e.cl = liteclient.NewClient(conn, liteclient.OptionTimeout(c12AliveTimeout))
	if !c12Wait(2*time.Second, func() bool { _, g := l.current(); return g >= 1 }) {
		return nil, nil, "handshake not completed"
	}
	t0 := time.Now()
	var log []c12Timed
	at := func(v sx.V) { log = append(log, c12Timed{time.Since(t0), v}) }
	time.Sleep(200 * time.Millisecond)
	r := 0
	if rst {
		r = 1
	}
	at(sx.L(sx.A("drop"), sx.Nat(0), sx.Nat(r)))
	srv.drop(0, rst)
	// the pinger (every 3 s) is the only one who can notice
	if !c12Wait(12*time.Second, func() bool {
		_, g := l.current()
		if g < 2 {
			return false
		}
		st, answered := c12Status(conn)
		return answered && st == liteclient.Connected
	}) {
		fail("no-reconnect-idle", "an idle connection reset by the server was not re-established within 12 s (the pinger has to notice)")
		return c12TimedHistory(srv, t0, log, true), fails, ""
	}
	l.mu.Lock()
	tU := l.upAt[1]
	l.mu.Unlock()
	time.Sleep(time.Until(tU.Add(c12PingerCallAt)))
	c := e.startCall(0, 0)
	var q c12Query
	got := c12Wait(5*time.Second, func() bool {
		var ok bool
		q, ok = srv.query(c.key)
		return ok || c.returned()
	})
	if got {
		q, got = srv.query(c.key)
	}
	d := uint64(1<<11 | 12)
	if got {
		at(sx.L(sx.A("recv"), sx.Nat(0), sx.Nat(0)))
		fc, _ := l.current()
		time.Sleep(time.Until(tU.Add(c12PingerAnswerAt)))
		if fc.send(c12Answer(q.id, c12Data(d))) == nil {
			at(sx.L(sx.A("ans"), sx.Nat(0), sx.Nat(0), sx.N(d)))
		}
	}
	if !c.wait(time.Until(c.start.Add(c12AliveTimeout + c12Hang))) {
		fail("call-hangs", "the call has not returned")
		return c12TimedHistory(srv, t0, log, true), fails, "hang"
	}
	switch {
	case c.class() == c12Ok && string(c.res) == string(c12Data(d)):
		at(sx.L(sx.A("ret"), sx.Nat(0), sx.L(sx.A("ok"), sx.N(d))))
	case c.class() == c12Ok:
		fail("foreign-answer", "the call returned bytes other than its answer")
		at(sx.L(sx.A("ret"), sx.Nat(0), sx.L(sx.A("ok"), sx.N(0))))
	case c.class() == c12Timeout:
		at(sx.L(sx.A("ret"), sx.Nat(0), sx.A("expired")))
		fail("alive-connection-dropped", fmt.Sprintf("the call issued %v after the reconnect and answered by the server %v after it (client timeout %v) returned %q: the re-established connection did not stay up",
			c12PingerCallAt, c12PingerAnswerAt, c12AliveTimeout, c.err))
	default:
		at(sx.L(sx.A("ret"), sx.Nat(0), sx.A("err")))
		fail("alive-connection-dropped", fmt.Sprintf("the call after the reconnect: %v", c.err))
	}
	// pings after the reconnect: one every 3 s
	srv.mu.Lock()
	n := 0
	for _, t := range srv.pingAt {
		if t.After(tU) && t.Before(tU.Add(c12PingerAnswerAt)) {
			n++
		}
	}
	srv.mu.Unlock()
	if n < 2 {
		fail("ping-missing-after-reconnect", fmt.Sprintf("the server received %d pings in the %v after the client re-established the connection (one every 3 s expected): the connection has lost its pinger", n, c12PingerAnswerAt))
	}
	if _, g := l.current(); g != 2 {
		fail("alive-connection-dropped", fmt.Sprintf("the server saw %d transport connections, 2 expected (the original one and the reconnect): a connection that is pinged and ponged must not be dropped", g))
	}
	return c12TimedHistory(srv, t0, log, true), fails, ""
}

const (
	c12OutageLong  = 11500 * time.Millisecond // longer than reconnectTimeout
	c12OutageShort = 2 * time.Second
	c12OutageBound = 8 * time.Second // the loop retries every second
)

// runC12Outage: the server resets the connection and turns every new one away
// for the given time, counted from the failed send that starts reconnect();
// then it is back.  The client has to re-establish the connection by itself and
// later calls have to succeed, however long the outage was.
func runC12Outage(long bool) (events []sx.V, fails []c12Fail, bad string) {
	var slow bool
	D := 300 * time.Millisecond
	for try := 0; try < 2; try++ {
		events, fails, bad, slow = runC12OutageD(long, D)
		if !slow {
			break
		}
		D *= 4
	}
	return events, fails, bad
}

func runC12OutageD(long bool, D time.Duration) (events []sx.V, fails []c12Fail, bad string, slow bool) {
	outage := c12OutageShort
	key := "no-reconnect-after-short-outage"
	if long {
		outage, key = c12OutageLong, "no-reconnect-after-long-outage"
	}
	fail := func(key, what string) { fails = append(fails, c12Fail{key, what}) }
	e, err := newC12Env(1, D)
	if err != nil {
		return nil, nil, "env: " + err.Error(), slow
	}
	defer e.close()
	l := e.srv.lns[0]
	t0 := time.Now()
	var log []c12Timed
	at := func(v sx.V) { log = append(log, c12Timed{time.Since(t0), v}) }
	next := 0
	// one call, answered at once if the server receives it
	call := func() int {
		i := next
		next++
		c := e.startCall(i, 0)
		var q c12Query
		got := false
		c12Wait(5*time.Second, func() bool {
			q, got = e.srv.query(c.key)
			return got || c.returned()
		})
		if !got {
			q, got = e.srv.query(c.key)
		}
		d := uint64(i+1)<<11 | 8
		answered := false
		if got {
			at(sx.L(sx.A("recv"), sx.Nat(i), sx.Nat(0)))
			if e.srv.emit(0, c12Answer(q.id, c12Data(d))) == nil {
				at(sx.L(sx.A("ans"), sx.Nat(0), sx.Nat(i), sx.N(d)))
				answered = true
			}
		}
		if !c.wait(D + c12Hang) {
			fail("call-hangs", fmt.Sprintf("call %d has not returned", i))
			bad = "hang"
			return c12Other
		}
		switch c.class() {
		case c12Ok:
			if string(c.res) != string(c12Data(d)) {
				fail("foreign-answer", fmt.Sprintf("call %d returned bytes other than its answer", i))
				d = 0
			}
			at(sx.L(sx.A("ret"), sx.Nat(i), sx.L(sx.A("ok"), sx.N(d))))
		case c12Timeout:
			if answered {
				slow = true
			}
			at(sx.L(sx.A("ret"), sx.Nat(i), sx.A("expired")))
		case c12SendErr:
			// a failed send takes no time and starts the reconnect: in the merged history it
			// stands at the call's start, before anything the server saw of that reconnect
			log = append(log, c12Timed{c.start.Sub(t0), sx.L(sx.A("ret"), sx.Nat(i), sx.A("err"))})
		default:
			fail("unexpected-error", fmt.Sprintf("call %d: %v", i, c.err))
			bad = "unexpected error"
		}
		return c.class()
	}
	if call() != c12Ok && bad == "" {
		return nil, nil, "warm-up call failed", true
	}
	l.down.Store(true)
	at(sx.L(sx.A("drop"), sx.Nat(0), sx.Nat(1)))
	e.srv.drop(0, true)
	time.Sleep(2 * time.Millisecond)
	// the failed send that starts reconnect()
	started := false
	for n := 0; n < 8 && bad == ""; n++ {
		if call() == c12SendErr {
			started = true
			break
		}
	}
	if bad != "" {
		return nil, fails, bad, slow
	}
	if !started {
		return nil, nil, "no send failed on the reset connection", slow
	}
	tRec := time.Now()
	// while the server is away the calls fail fast
	time.Sleep(outage / 2)
	if cl := call(); cl != c12SendErr && bad == "" {
		fail("unexpected-error", fmt.Sprintf("a call during the outage returned class %d instead of a send error", cl))
	}
	time.Sleep(time.Until(tRec.Add(outage)))
	_, g0 := l.current()
	l.down.Store(false)
	tBack := time.Now()
	ok := c12Wait(c12OutageBound, func() bool {
		_, g := l.current()
		if g <= g0 {
			return false
		}
		st, answered := c12Status(e.conns[0])
		return answered && st == liteclient.Connected
	})
	if !ok {
		l.mu.Lock()
		n := len(l.refusedAt)
		var last time.Duration
		if n > 0 {
			last = l.refusedAt[n-1].Sub(tRec)
		}
		l.mu.Unlock()
		fail(key, fmt.Sprintf("the server was away for %v after the failed send and has been back for %v: the connection is not re-established, IsOK()=%v "+
			"(the server turned %d attempts away, the last one %v after the failed send)", outage, time.Since(tBack).Round(time.Millisecond), c12IsOK(e.cl), n, last.Round(time.Millisecond)))
	}
	if !c12IsOK(e.cl) && ok {
		fail(key, "IsOK() is false after the connection was re-established")
	}
	okc := 0
	for n := 0; n < 2 && bad == ""; n++ {
		if call() == c12Ok {
			okc++
		}
	}
	if ok && okc != 2 {
		fail("later-call-fails", fmt.Sprintf("%d of 2 calls succeeded after the outage of %v", okc, outage))
	}
	l.mu.Lock()
	for _, t := range l.refusedAt {
		log = append(log, c12Timed{t.Sub(t0), sx.L(sx.A("dialfail"), sx.Nat(0))})
	}
	for _, t := range l.upAt[1:] {
		log = append(log, c12Timed{t.Sub(t0), sx.L(sx.A("up"), sx.Nat(0))})
	}
	l.mu.Unlock()
	sort.SliceStable(log, func(a, b int) bool { return log[a].t < log[b].t })
	for _, ev := range log {
		events = append(events, ev.v)
	}
	events = append(events, sx.L(sx.A("reg"), sx.Nat(c12RegSize(e.cl))))
	return events, fails, bad, slow
}

const (
	c12HoleHeal  = 2 * time.Second  // the server behaves again this long after the failed send
	c12HoleBound = 14 * time.Second // 10 s for the attempt that fell into the hole, 1 s of sleep, slack
)

// runC12BlackHole: the server resets connection 0; when the client reconnects, the
// server accepts TCP but (1) never answers the handshake, (2) sends ten bytes of
// the answer and stops, (3) answers the handshake and is silent from then on.  The
// swallowed connection stays open for ever.  Meanwhile every call has to return by
// its deadline (send error, timeout, or an answer over a healthy connection); 2 s
// later the server behaves again for new connections, and the client has to get
// out of the hole by itself within a bounded time; later calls succeed.
func runC12BlackHole(phase, nconn int) (events []sx.V, fails []c12Fail, bad string) {
	return runC12BlackHoleAuth(phase, nconn, false)
}

// with an auth key: every phase of the RE-connect's authentication can be swallowed
// too: phase 3 = handshake answered, the auth request never is (silent server),
// phase 4 = the server is alive but ignores tcp.authentificate, phase 5 = it answers
// it with two nonce packets back to back, the first malformed
func runC12BlackHoleAuth(phase, nconn int, auth bool) (events []sx.V, fails []c12Fail, bad string) {
	var slow bool
	D := 300 * time.Millisecond
	for try := 0; try < 2; try++ {
		events, fails, bad, slow = runC12BlackHoleAuthD(phase, nconn, auth, D)
		if !slow {
			break
		}
		D *= 4 // a stalled machine: once more with a longer client timeout
	}
	return events, fails, bad
}

func runC12BlackHoleAuthD(phase, nconn int, auth bool, D time.Duration) (events []sx.V, fails []c12Fail, bad string, slow bool) {
	fail := func(key, what string) { fails = append(fails, c12Fail{key, what}) }
	var authKey ed25519.PrivateKey
	if auth {
		seed := sha256.Sum256([]byte("c12 auth key"))
		authKey = ed25519.NewKeyFromSeed(seed[:])
	}
	e, err := newC12EnvAuth(nconn, D, authKey)
	if err != nil {
		return nil, nil, "env: " + err.Error(), slow
	}
	defer e.close()
	l := e.srv.lns[0]
	t0 := time.Now()
	var log []c12Timed
	at := func(v sx.V) { log = append(log, c12Timed{time.Since(t0), v}) }
	next := 0
	call := func() (cls, conn int) {
		i := next
		next++
		c := e.startCallCtx(i, 0, i%2) // every other call under a caller deadline of an hour
		var q c12Query
		got := false
		c12Wait(5*time.Second, func() bool {
			q, got = e.srv.query(c.key)
			return got || c.returned()
		})
		if !got {
			c12Wait(50*time.Millisecond, func() bool { q, got = e.srv.query(c.key); return got })
		}
		d := uint64(i+1)<<11 | 8
		conn = -1
		answered := false
		if got {
			conn = q.k
			at(sx.L(sx.A("recv"), sx.Nat(i), sx.Nat(q.k)))
			if fc, _ := e.srv.lns[q.k].current(); fc != nil && !fc.mute && e.srv.emit(q.k, c12Answer(q.id, c12Data(d))) == nil {
				at(sx.L(sx.A("ans"), sx.Nat(q.k), sx.Nat(i), sx.N(d)))
				answered = true
			}
		}
		if !c.wait(D + c12Hang) {
			fail("call-hangs", fmt.Sprintf("call %d has not returned %v after its deadline of %v while connection 0 was in the black hole (phase %d)", i, c12Hang, D, phase))
			bad = "hang"
			return c12Other, conn
		}
		switch c.class() {
		case c12Ok:
			if string(c.res) != string(c12Data(d)) {
				fail("foreign-answer", fmt.Sprintf("call %d returned bytes other than its answer", i))
				d = 0
			}
			at(sx.L(sx.A("ret"), sx.Nat(i), sx.L(sx.A("ok"), sx.N(d))))
		case c12Timeout:
			if answered {
				slow = true // an answered call misses its deadline only on a stalled machine
			}
			at(sx.L(sx.A("ret"), sx.Nat(i), sx.A("expired")))
		case c12SendErr:
			// a failed send takes no time and starts the reconnect: in the merged history it
			// stands at the call's start, before anything the server saw of that reconnect
			log = append(log, c12Timed{c.start.Sub(t0), sx.L(sx.A("ret"), sx.Nat(i), sx.A("err"))})
		default:
			fail("unexpected-error", fmt.Sprintf("call %d: %v", i, c.err))
			bad = "unexpected error"
		}
		return c.class(), conn
	}
	for n := 0; n < nconn; n++ {
		if cls, _ := call(); cls != c12Ok {
			return nil, fails, "warm-up call failed", true
		}
	}
	if phase == 4 {
		l.authHole.Store(1)
	} else if phase == 5 { // two nonce packets back to back, the first malformed
		l.authHole.Store(3)
	} else {
		l.hs.Store(int32(phase))
	}
	at(sx.L(sx.A("drop"), sx.Nat(0), sx.Nat(1)))
	e.srv.drop(0, true)
	time.Sleep(2 * time.Millisecond)
	started := false
	for n := 0; n < 2*nconn+4 && bad == ""; n++ {
		if cls, _ := call(); cls == c12SendErr {
			started = true
			break
		}
	}
	if bad != "" {
		return nil, fails, bad, slow
	}
	if !started {
		return nil, nil, "no send failed on the reset connection", slow
	}
	tRec := time.Now()
	// meanwhile: calls return at once or by their deadline, and the healthy
	// connections keep serving
	okOther := 0
	probe := func(n int) {
		for ; n > 0 && bad == ""; n-- {
			if cls, conn := call(); cls == c12Ok && conn > 0 {
				okOther++
			}
		}
	}
	probe(3 * nconn)
	time.Sleep(time.Until(tRec.Add(1500 * time.Millisecond)))
	probe(2 * nconn)
	if bad != "" {
		return nil, fails, bad, slow
	}
	if nconn > 1 && okOther == 0 {
		fail("healthy-connection-unused", "no call was answered over the healthy connection while connection 0 was in the black hole")
	}
	time.Sleep(time.Until(tRec.Add(c12HoleHeal)))
	_, g0 := l.current()
	l.hs.Store(0)
	l.authHole.Store(0)
	ok := c12Wait(time.Until(tRec.Add(c12HoleBound)), func() bool {
		_, g := l.current()
		if g <= g0 {
			return false
		}
		st, answered := c12Status(e.conns[0])
		return answered && st == liteclient.Connected
	})
	if !ok {
		st, _ := c12Status(e.conns[0])
		fail("no-reconnect-after-black-hole", fmt.Sprintf("phase %d: the server has behaved for new connections since %v after the failed send, but %v after it connection 0 is not re-established (status %d, IsOK %v): "+
			"the attempt that fell into the hole never ends", phase, c12HoleHeal, time.Since(tRec).Round(time.Millisecond), st, c12IsOK(e.cl)))
	} else {
		okc := 0
		for n := 0; n < 2*nconn && bad == ""; n++ {
			if cls, _ := call(); cls == c12Ok {
				okc++
			}
		}
		if phase == 5 && okc != 2*nconn {
			// the server accepted an authentication whose first answer the client had
			// rejected: one more reconnect may follow; the calls have to succeed in the end
			okc = 0
			for n := 0; n < 20 && okc < 2*nconn && bad == ""; n++ {
				if cls, _ := call(); cls == c12Ok {
					okc++
				} else {
					okc = 0
					time.Sleep(300 * time.Millisecond)
				}
			}
		}
		if okc != 2*nconn {
			fail("later-call-fails", fmt.Sprintf("%d of %d calls succeeded after the client got out of the black hole", okc, 2*nconn))
		}
	}
	l.mu.Lock()
	for _, t := range l.refusedAt {
		log = append(log, c12Timed{t.Sub(t0), sx.L(sx.A("dialfail"), sx.Nat(0))})
	}
	l.mu.Unlock()
	events = c12TimedHistoryUp(e.srv, t0, log, false, auth)
	events = append(events, sx.L(sx.A("reg"), sx.Nat(c12RegSize(e.cl))))
	return events, fails, bad, slow
}

// runC12Storm: many callers with large queries hit a connection that the server
// has just reset: every failed send starts `go c.reconnect()`, all contending for
// Connection.mu with the senders.  Exactly one of them may re-establish the
// connection: the server must never hold more than one live connection of this
// client, and - the connection being fed by a call every 2.5 s - it must not see a
// further connection during the 12 s after (an orphan's silence timer would tear
// the healthy connection down).
func runC12Storm(callers, size int) (fails []c12Fail, bad string) {
	return runC12StormObs(callers, size, 12500*time.Millisecond)
}

func runC12StormShort(callers, size int) (fails []c12Fail, bad string) {
	return runC12StormObs(callers, size, 0)
}

func runC12StormObs(callers, size int, observe time.Duration) (fails []c12Fail, bad string) {
	const D = time.Second
	fail := func(key, what string) { fails = append(fails, c12Fail{key, what}) }
	e, err := newC12Env(1, D)
	if err != nil {
		return nil, "env: " + err.Error()
	}
	defer e.close()
	l := e.srv.lns[0]
	answered := func(i int) bool {
		c := e.startCall(i, 0)
		var q c12Query
		if c12Wait(3*time.Second, func() bool { var ok bool; q, ok = e.srv.query(c.key); return ok || c.returned() }) {
			if q2, ok := e.srv.query(c.key); ok {
				q = q2
				e.srv.emit(0, c12Answer(q.id, c12Data(uint64(i+1)<<11|8)))
			}
		}
		return c.wait(D+c12Hang) && c.class() == c12Ok
	}
	answeredOnce := answered
	answered = func(i int) bool { // a stalled machine may cost one deadline: a real loss persists
		for try := 0; try < 3; try++ {
			if answeredOnce(i*10 + try) {
				return true
			}
		}
		return false
	}
	if !answered(0) {
		return nil, "warm-up call failed"
	}
	// the server stops reading: the first senders block in their write holding
	// Connection.mu, the others queue on it; then the connection is reset
	l.stall.Store(true)
	calls := make([]*c12Call, callers)
	for i := range calls {
		calls[i] = e.startCall(1000+i, size)
	}
	time.Sleep(50 * time.Millisecond)
	e.srv.drop(0, true)
	l.stall.Store(false)
	tDrop := time.Now()
	for i, c := range calls {
		if !c.wait(time.Until(c.start.Add(D + c12Hang))) {
			fail("call-hangs", fmt.Sprintf("storm call %d has not returned %v after its deadline of %v", i, c12Hang, D))
			return fails, "hang"
		}
	}
	if !c12Wait(5*time.Second, func() bool {
		st, answered := c12Status(e.conns[0])
		return answered && st == liteclient.Connected
	}) {
		fail("no-reconnect", "the connection was not re-established within 5 s of the storm")
		return fails, ""
	}
	time.Sleep(500 * time.Millisecond)
	_, g1 := l.current()
	if g1 < 2 {
		return nil, "no send failed in the storm"
	}
	if n := l.open(); n != 1 {
		fail("orphan-connection", fmt.Sprintf("%d callers x %d KiB on a reset connection: the server holds %d live connections of this client (%d handshakes since the reset); overlapping reconnect() calls all dialled", callers, size>>10, n, g1-1))
	}
	if g1-1 > 3 {
		fail("reconnect-storm", fmt.Sprintf("%d handshakes for one reset connection", g1-1))
	}
	// observe for 12 s, feeding the connection
	n := 1
	for time.Since(tDrop) < observe {
		time.Sleep(2500 * time.Millisecond)
		if !answered(n) {
			fail("later-call-fails", fmt.Sprintf("a call %v after the storm failed", time.Since(tDrop).Round(time.Second)))
		}
		n++
	}
	_, g2 := l.current()
	if g2 != g1 {
		fail("healthy-connection-dropped", fmt.Sprintf("%d further handshakes within %v of the reset without any new drop, on a connection that received an answer every 2.5 s", g2-g1, time.Since(tDrop).Round(time.Second)))
	}
	if n := l.open(); n != 1 {
		fail("orphan-connection", fmt.Sprintf("%d live connections at the end of the observation", n))
	}
	return fails, ""
}

// runC12Overlap: k goroutines enter Connection.reconnect() together, as the
// `go c.reconnect()` of k failed Sends, the pinger and the silence rule may do.
// The handshake takes 150 ms, so all of them run while the first is at work.
// Exactly one may dial: one new connection per round, one live connection.
func runC12Overlap(rounds, k int) (fails []c12Fail, bad string) {
	const D = time.Second
	fail := func(key, what string) { fails = append(fails, c12Fail{key, what}) }
	e, err := newC12Env(1, D)
	if err != nil {
		return nil, "env: " + err.Error()
	}
	defer e.close()
	l := e.srv.lns[0]
	answered := func(i int) bool {
		c := e.startCall(i, 0)
		var q c12Query
		if c12Wait(3*time.Second, func() bool { var ok bool; q, ok = e.srv.query(c.key); return ok || c.returned() }) {
			if q2, ok := e.srv.query(c.key); ok {
				q = q2
				e.srv.emit(0, c12Answer(q.id, c12Data(uint64(i+1)<<11|8)))
			}
		}
		return c.wait(D+c12Hang) && c.class() == c12Ok
	}
	answeredOnce := answered
	answered = func(i int) bool { // a stalled machine may cost one deadline: a real loss persists
		for try := 0; try < 3; try++ {
			if answeredOnce(i*10 + try) {
				return true
			}
		}
		return false
	}
	if !answered(0) {
		return nil, "warm-up call failed"
	}
	l.hsDelay.Store(150)
	for round := 0; round < rounds; round++ {
		_, g0 := l.current()
		var ready, start atomic.Int32
		var wg sync.WaitGroup
		for i := 0; i < k; i++ {
			wg.Add(1)
			go func() {
				defer wg.Done()
				ready.Add(1)
				for start.Load() == 0 { // all k are running when released
				}
				e.conns[0].VerifC12Reconnect()
			}()
		}
		for int(ready.Load()) < k {
			runtime.Gosched()
		}
		start.Store(1)
		done := make(chan struct{})
		go func() { wg.Wait(); close(done) }()
		select {
		case <-done:
		case <-time.After(10 * time.Second):
			fail("reconnect-hangs", fmt.Sprintf("round %d: %d overlapping reconnect() calls have not all returned after 10 s", round, k))
			return fails, ""
		}
		if !c12Wait(5*time.Second, func() bool {
			st, answered := c12Status(e.conns[0])
			return answered && st == liteclient.Connected
		}) {
			fail("no-reconnect", fmt.Sprintf("round %d: not connected again", round))
			return fails, ""
		}
		time.Sleep(300 * time.Millisecond)
		_, g1 := l.current()
		if n := l.open(); g1-g0 != 1 || n != 1 {
			fail("orphan-connection", fmt.Sprintf("round %d: %d overlapping reconnect() calls opened %d connections, %d stay open (1 and 1 expected): the check of the status and its update are not one critical section", round, k, g1-g0, n))
			return fails, ""
		}
		if !answered(round + 1) {
			fail("later-call-fails", fmt.Sprintf("round %d: the call after the reconnect failed", round))
		}
	}
	return fails, ""
}

// IsOK takes every connection's mutex: under a watchdog (false when it does not return)
func c12IsOK(cl *liteclient.Client) bool {
	v, answered := c12Watch(func() bool { return cl.IsOK() })
	return answered && v
}
