package main

import (
	"bytes"
	"fmt"
	"strings"

	"github.com/tonkeeper/tongo/boc"

	"verifharness/prng"
	"verifharness/sx"
)

// ---- the source tree of a prover, with level-0 hashes/depths of its cells
// computed by boc.VerifLevelHash (hashing of the library, not its pruning code)

type c18Src struct {
	dag   []Node
	cells []*boc.Cell
	h0    map[int][]byte
	d0    map[int]int
	bad   map[int]bool
}

func newC18Src(dag []Node) *c18Src {
	cells, err := buildGo(dag)
	if err != nil {
		return nil
	}
	return &c18Src{dag: dag, cells: cells, h0: map[int][]byte{}, d0: map[int]int{}, bad: map[int]bool{}}
}

func (s *c18Src) level0(i int) (h []byte, d int, ok bool) {
	if s.bad[i] {
		return nil, 0, false
	}
	if h, ok := s.h0[i]; ok {
		return h, s.d0[i], true
	}
	defer func() {
		if recover() != nil {
			s.bad[i] = true
			h, d, ok = nil, 0, false
		}
	}()
	hh, dd, err := boc.VerifLevelHash(s.cells[i], 0)
	if err != nil {
		s.bad[i] = true
		return nil, 0, false
	}
	s.h0[i] = append([]byte{}, hh...)
	s.d0[i] = dd
	return s.h0[i], dd, true
}

func nodeType(n Node) int {
	if !n.Special {
		return 0
	}
	ty := 0
	for j := 0; j < 8 && j < len(n.Bits); j++ {
		ty = ty*2 + int(n.Bits[j]-'0')
	}
	return ty
}

func isMerkleNode(n Node) bool { t := nodeType(n); return n.Special && (t == 3 || t == 4) }

// prunedIdx resolves cursor paths from the root (index 0) to cell identities.
func prunedIdx(dag []Node, paths [][]int) map[int]bool {
	set := map[int]bool{}
	for _, p := range paths {
		cur := 0
		for _, k := range p {
			cur = dag[cur].Refs[k]
		}
		set[cur] = true
	}
	return set
}

// posOf names a position of the tree: the reference indices from the root.
func posOf(path []int) string {
	pos := "root"
	for _, k := range path {
		pos += fmt.Sprintf("/%d", k)
	}
	return pos
}

// prunedPos: the pruned set of a cursor is a set of POSITIONS (a cell that
// occurs at several positions is pruned only where Prune was called).
func prunedPos(paths [][]int) map[string]bool {
	set := map[string]bool{}
	for _, p := range paths {
		set[posOf(p)] = true
	}
	return set
}

// c18ExpectErr: pruneCells refuses Merkle cells it reaches (documented
// limitation: an error, never a wrong proof).
func c18ExpectErr(dag []Node, pruned map[string]bool) bool {
	budget := 400000
	var walk func(i int, pos string) bool
	walk = func(i int, pos string) bool {
		budget--
		if budget < 0 {
			return false
		}
		if isMerkleNode(dag[i]) {
			return true
		}
		if pruned[pos] {
			return false
		}
		for k, r := range dag[i].Refs {
			if walk(r, pos+fmt.Sprintf("/%d", k)) {
				return true
			}
		}
		return false
	}
	return walk(0, "root")
}

func prunedBits(h []byte, d int) string {
	w := append([]byte{1, 1}, h...)
	w = append(w, byte(d>>8), byte(d))
	return hexBits(w)
}

// c18CheckProof states the property on one proof of the implementation:
// source (dag, root 0), the set of cells this operation pruned, proof bytes.
// It returns the body of the proof (nil when it cannot be examined).
func c18CheckProof(c *Ctx, kind string, in sx.V, tag string, src *c18Src, pruned map[string]bool, proof []byte) (body *boc.Cell) {
	defer func() {
		if r := recover(); r != nil {
			c.Fail(kind, in, "oracle-panic", tag+fmt.Sprintf("examining the proof panicked: %v", r))
			body = nil
		}
	}()
	h0, d0, ok := src.level0(0)
	if !ok {
		return nil
	}
	parsed, err := boc.DeserializeBoc(proof)
	if err != nil || len(parsed) != 1 {
		c.Fail(kind, in, "proof-not-boc", tag+"the proof is not a single-root bag of cells")
		return nil
	}
	p := parsed[0]
	if p.CellType() != boc.MerkleProofCell || p.RefsSize() != 1 || p.BitSize() != 8+256+16 {
		c.Fail(kind, in, "proof-root-shape", tag+"the proof root is not a Merkle-proof cell of 280 bits with one reference")
		return nil
	}
	body = p.Refs()[0]
	if boc.VerifMask(body) <= 1 && p.Level() != 0 {
		c.Fail(kind, in, "proof-root-shape", tag+"the Merkle-proof cell over a body of level <= 1 is not of level 0")
	}
	data, _ := p.ReadBytes(35)
	want := append([]byte{3}, h0...)
	want = append(want, byte(d0>>8), byte(d0))
	if !bytes.Equal(data, want) {
		c.Fail(kind, in, "proof-root-data", tag+"the proof root does not carry the level-0 hash and depth of the original root")
	}
	hb, db, err := boc.VerifLevelHash(body, 0)
	if err != nil || !bytes.Equal(hb, h0) || db != d0 {
		c.Fail(kind, in, "proof-level0", tag+"the pruned tree does not have the original root's hash/depth at level zero")
	}
	// position by position: a pruned cell of this operation is 01 01 | hash_0 |
	// depth_0 of the subtree it replaces (mask 1, no references); every other
	// cell keeps type, data and reference count, its mask is its own OR-ed
	// with its children's.
	budget := 400000
	fails := 0
	fail := func(key, what string) {
		if fails < 3 {
			c.Fail(kind, in, key, tag+what)
		}
		fails++
	}
	var walk func(i int, q *boc.Cell, pos string)
	walk = func(i int, q *boc.Cell, pos string) {
		budget--
		if budget < 0 || fails > 0 {
			return
		}
		n := src.dag[i]
		if isMerkleNode(n) {
			fail("merkle-in-proof", "a proof was produced although a Merkle cell of the source is reached at "+pos)
			return
		}
		rb := q.RawBitString()
		qbits := bitsOf(&rb)
		if pruned[pos] {
			h, d, ok := src.level0(i)
			if !ok {
				return
			}
			if q.CellType() != boc.PrunedBranchCell && nodeType(n) != 1 {
				fail("not-pruned", "the position "+pos+" that this operation pruned is not replaced by a pruned branch: the subtree is disclosed")
				return
			}
			if q.CellType() != boc.PrunedBranchCell || q.RefsSize() != 0 || boc.VerifMask(q) != 1 {
				fail("pruned-shape", "the cell pruned at "+pos+" is not a pruned-branch cell of mask 1 without references")
				return
			}
			if qbits != prunedBits(h, d) {
				fail("pruned-stores", "the pruned-branch cell at "+pos+" does not store 01 01 | level-0 hash | level-0 depth of the subtree it replaces")
			}
			return
		}
		if int(q.CellType()) != nodeType(n) || (q.CellType() != boc.OrdinaryCell) != n.Special {
			if q.CellType() == boc.PrunedBranchCell {
				fail("over-pruned", "the cell at "+pos+" is replaced by a pruned branch although this operation did not prune it")
			} else {
				fail("proof-shape", "the cell at "+pos+" changed its type")
			}
			return
		}
		if qbits != n.Bits {
			fail("proof-data", "the unpruned cell at "+pos+" does not keep its data")
			return
		}
		qr := q.Refs()
		if len(qr) != len(n.Refs) {
			fail("proof-shape", "the unpruned cell at "+pos+" does not keep its reference count")
			return
		}
		m := uint32(n.Mask)
		for _, ch := range qr {
			m |= boc.VerifMask(ch)
		}
		if boc.VerifMask(q) != m {
			fail("mask-or", "the level mask of the cell at "+pos+" is not its own mask OR-ed with its children's")
		}
		for k := range qr {
			walk(n.Refs[k], qr[k], pos+fmt.Sprintf("/%d", k))
		}
	}
	walk(0, body, "root")
	return body
}

// ---- independent reading of a dictionary (HmLabel of the TL-B scheme)

func readLabel(bits string, m int) (lab string, rest string, ok bool) {
	if len(bits) < 2 {
		return "", "", false
	}
	w := limBits(m)
	switch {
	case bits[0] == '0':
		i := 1
		for i < len(bits) && bits[i] == '1' {
			i++
		}
		n := i - 1
		if i >= len(bits) || len(bits) < i+1+n {
			return "", "", false
		}
		return bits[i+1 : i+1+n], bits[i+1+n:], true
	case bits[1] == '0':
		if len(bits) < 2+w {
			return "", "", false
		}
		n := 0
		for _, ch := range bits[2 : 2+w] {
			n = n*2 + int(ch-'0')
		}
		if len(bits) < 2+w+n {
			return "", "", false
		}
		return bits[2+w : 2+w+n], bits[2+w+n:], true
	default:
		if len(bits) < 3+w {
			return "", "", false
		}
		n := 0
		for _, ch := range bits[3 : 3+w] {
			n = n*2 + int(ch-'0')
		}
		return strings.Repeat(bits[2:3], n), bits[3+w:], true
	}
}

// c18KeyWalk walks the SOURCE dictionary along the key: the siblings of the
// forks on the path (what a proof for this key prunes), whether the key is
// spelled by ordinary cells only, and its 32-bit value.
func c18KeyWalk(dag []Node, key string) (pruned map[string]bool, found bool, val string) {
	pruned, _, found, val = c18KeyWalk2(dag, key)
	return
}

// c18KeyWalk2 also returns the siblings as cells (indices of the DAG).
func c18KeyWalk2(dag []Node, key string) (pruned map[string]bool, sibs map[int]bool, found bool, val string) {
	pruned = map[string]bool{}
	sibs = map[int]bool{}
	cur := 0
	pos := "root"
	rem := key
	for steps := 0; steps < 1100; steps++ {
		n := dag[cur]
		if n.Special {
			return pruned, sibs, false, ""
		}
		lab, rest, ok := readLabel(n.Bits, len(rem))
		if !ok || len(lab) > len(rem) || !strings.HasPrefix(rem, lab) {
			return pruned, sibs, false, ""
		}
		rem = rem[len(lab):]
		if rem == "" {
			if len(rest) < 32 {
				return pruned, sibs, false, ""
			}
			return pruned, sibs, true, rest[:32]
		}
		if len(n.Refs) != 2 {
			return pruned, sibs, false, ""
		}
		b := int(rem[0] - '0')
		pruned[pos+fmt.Sprintf("/%d", 1-b)] = true
		sibs[n.Refs[1-b]] = true
		pos += fmt.Sprintf("/%d", b)
		cur = n.Refs[b]
		rem = rem[1:]
	}
	return pruned, sibs, false, ""
}

// the value for the key can be decoded from the proof body
func c18ValueOracle(c *Ctx, kind string, in sx.V, tag string, body *boc.Cell, key string, val string) {
	defer func() { _ = recover() }()
	cur := body
	rem := key
	for steps := 0; steps < 1100; steps++ {
		if cur.CellType() == boc.PrunedBranchCell {
			c.Fail(kind, in, "value-pruned", tag+"the path to the proven key is pruned in the proof: the value is not revealed")
			return
		}
		bs := cur.RawBitString()
		lab, rest, ok := readLabel(bitsOf(&bs), len(rem))
		if !ok || !strings.HasPrefix(rem, lab) {
			c.Fail(kind, in, "value-path", tag+"the proof's dictionary does not contain the proven key")
			return
		}
		rem = rem[len(lab):]
		if rem == "" {
			if len(rest) < 32 || rest[:32] != val {
				c.Fail(kind, in, "value-wrong", tag+"the value decoded from the proof differs from the dictionary's value")
			}
			return
		}
		refs := cur.Refs()
		if len(refs) != 2 {
			c.Fail(kind, in, "value-fork", tag+"fork without two references in the proof")
			return
		}
		cur = refs[rem[0]-'0']
		rem = rem[1:]
	}
}

// c18KeyOracle: outcome of ProveKeyInHashmap for `key` on the source.
func c18KeyOracle(c *Ctx, kind string, in sx.V, tag string, src *c18Src, key string, out sx.V) {
	pruned, found, val := c18KeyWalk(src.dag, key)
	if !found {
		if out.K == sx.KBytes {
			c.Fail(kind, in, "absent-key-proof", tag+"a proof was produced for a key that the source dictionary does not contain")
		}
		return
	}
	if out.K != sx.KBytes {
		c.Fail(kind, in, "present-key-error", tag+"no proof for a key that is in the dictionary")
		return
	}
	body := c18CheckProof(c, kind, in, tag, src, pruned, out.Bytes)
	if body != nil {
		c18ValueOracle(c, kind, in, tag, body, key, val)
	}
}

// c18WalkOracle: outcome of cursor prunes + CreateProof on the source.
func c18WalkOracle(c *Ctx, kind string, in sx.V, tag string, src *c18Src, paths [][]int, out sx.V) {
	if _, _, ok := src.level0(0); !ok {
		return // the source itself is refused by NewMerkleProver (depth)
	}
	pruned := prunedPos(paths)
	if c18ExpectErr(src.dag, pruned) {
		if out.K == sx.KBytes {
			c.Fail(kind, in, "merkle-in-proof", tag+"a proof was produced although pruning reaches a Merkle cell of the source")
		}
		return
	}
	if out.K != sx.KBytes {
		c.Fail(kind, in, "proof-error", tag+"no proof for a source without reachable Merkle cells")
		return
	}
	c18CheckProof(c, kind, in, tag, src, pruned, out.Bytes)
}

// ---- sources that already contain exotic cells

// c18PruneDag builds, independently of pruneCells, the body of the proof of
// (dag, root 0) for the pruned identities: the source of a second prover.
func c18PruneDag(src *c18Src, pruned map[int]bool) []Node {
	n := len(src.dag)
	out := make([]Node, n)
	for i := n - 1; i >= 0; i-- {
		nd := src.dag[i]
		if pruned[i] {
			h, d, ok := src.level0(i)
			if !ok {
				return nil
			}
			out[i] = Node{Special: true, Mask: 1, Bits: prunedBits(h, d)}
			continue
		}
		cp := Node{Special: nd.Special, Mask: nd.Mask, Bits: nd.Bits, Refs: append([]int{}, nd.Refs...)}
		for _, r := range nd.Refs {
			cp.Mask |= out[r].Mask
		}
		out[i] = cp
	}
	return compactDag(out)
}

// compactDag keeps the cells reachable from index 0, in the same (BOC) order.
func compactDag(dag []Node) []Node {
	reach := make([]bool, len(dag))
	var mark func(i int)
	mark = func(i int) {
		if reach[i] {
			return
		}
		reach[i] = true
		for _, r := range dag[i].Refs {
			mark(r)
		}
	}
	mark(0)
	idx := make([]int, len(dag))
	k := 0
	for i := range dag {
		if reach[i] {
			idx[i] = k
			k++
		}
	}
	var out []Node
	for i, nd := range dag {
		if !reach[i] {
			continue
		}
		cp := Node{Special: nd.Special, Mask: nd.Mask, Bits: nd.Bits}
		for _, r := range nd.Refs {
			cp.Refs = append(cp.Refs, idx[r])
		}
		out = append(out, cp)
	}
	return out
}

// c18ExoticDag: a random tree in which some cells are pruned branches of any
// level mask 1..7 (random stored hashes/depths), library cells, and (when
// merkle) Merkle proof/update cells; masks of ordinary cells OR-ed from the
// children (shifted below a Merkle cell) unless ill, then left as generated.
func c18ExoticDag(r *prng.R, size int, merkle bool, ill bool) []Node {
	dag := randDag(r, size)
	hasMerkle := false
	mkMerkle := func(i int) bool {
		if len(dag[i].Refs) == 0 {
			return false
		}
		if r.Bool() || len(dag[i].Refs) < 2 {
			b := append([]byte{3}, r.Bytes(32)...)
			b = append(b, 0, byte(r.Intn(200)))
			dag[i] = Node{Special: true, Bits: hexBits(b), Refs: dag[i].Refs[:1]}
		} else {
			b := append([]byte{4}, r.Bytes(64)...)
			b = append(b, 0, byte(r.Intn(200)), 0, byte(r.Intn(200)))
			dag[i] = Node{Special: true, Bits: hexBits(b), Refs: dag[i].Refs[:2]}
		}
		return true
	}
	for i := len(dag) - 1; i >= 1; i-- {
		if len(dag[i].Bits) > 200 {
			dag[i].Bits = dag[i].Bits[:r.Intn(200)]
		}
		if !r.Chance(35) {
			continue
		}
		switch k := r.Intn(10); {
		case k < 6: // pruned branch
			m := 1
			if r.Chance(50) {
				m = 1 + r.Intn(7)
			}
			pc := 0
			for x := m; x > 0; x >>= 1 {
				pc += x & 1
			}
			b := []byte{1, byte(m)}
			b = append(b, r.Bytes(32*pc)...)
			for j := 0; j < pc; j++ {
				d := r.Intn(1000)
				b = append(b, byte(d>>8), byte(d))
			}
			dag[i] = Node{Special: true, Mask: uint8(m), Bits: hexBits(b)}
		case k < 8: // library cell
			dag[i] = Node{Special: true, Bits: hexBits(append([]byte{2}, r.Bytes(32)...))}
		default:
			if merkle {
				hasMerkle = mkMerkle(i) || hasMerkle
			}
		}
	}
	if merkle && !hasMerkle {
		var cand []int
		for i := range dag {
			if len(dag[i].Refs) > 0 && (i > 0 || r.Chance(15)) {
				cand = append(cand, i)
			}
		}
		if len(cand) > 0 {
			mkMerkle(cand[r.Intn(len(cand))])
		}
	}
	dag = compactDag(dag)
	if !ill {
		for i := len(dag) - 1; i >= 0; i-- {
			if nodeType(dag[i]) == 1 {
				continue
			}
			var m uint8
			for _, ch := range dag[i].Refs {
				m |= dag[ch].Mask
			}
			if isMerkleNode(dag[i]) {
				m >>= 1
			}
			dag[i].Mask = m
		}
	} else {
		for i := range dag {
			if r.Chance(30) {
				dag[i].Mask = uint8(r.Intn(8))
			}
		}
	}
	return dag
}

// randPaths: cursor paths from the root; steer some of them towards / onto /
// above special cells of the source.
func randPaths(r *prng.R, dag []Node, np int, maxSteps int) [][]int {
	var paths [][]int
	for j := 0; j < np; j++ {
		cur := 0
		var p []int
		steps := r.Intn(maxSteps + 1)
		for s := 0; s < steps && len(dag[cur].Refs) > 0; s++ {
			k := r.Intn(len(dag[cur].Refs))
			p = append(p, k)
			cur = dag[cur].Refs[k]
		}
		paths = append(paths, p)
	}
	return paths
}

// pathsTo returns one path from the root to every cell (first found).
func pathsTo(dag []Node) map[int][]int {
	res := map[int][]int{0: {}}
	var walk func(i int, p []int)
	walk = func(i int, p []int) {
		for k, ch := range dag[i].Refs {
			if _, ok := res[ch]; ok {
				continue
			}
			q := append(append([]int{}, p...), k)
			res[ch] = q
			walk(ch, q)
		}
	}
	walk(0, nil)
	return res
}

func pathsSx(paths [][]int) sx.V {
	var vs []sx.V
	for _, p := range paths {
		var ks []sx.V
		for _, k := range p {
			ks = append(ks, sx.Nat(k))
		}
		vs = append(vs, sx.L(ks...))
	}
	return sx.L(vs...)
}
