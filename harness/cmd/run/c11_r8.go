package main

// C11, round 8: delivery must not depend on WHEN the consumer takes a packet.
//
//   c11.slow (server_seed mode idle_ms (payload ...) marked final one_write)
//
// mode 'conn0 / 'conn1: the unmodified NewConnection (ping goroutine, reader,
// reconnect) against the reference server.  The server sends all numbered
// packets at once (one Write, or one Write per frame back to back); the
// application takes Responses() once, reads nothing ('conn0) or exactly the
// first packet ('conn1), stays away for idle_ms (longer than reconnectTimeout;
// the server keeps answering pings meanwhile), and then must receive every
// remaining packet, in order, with the payload that was sent.  Afterwards the
// session must still be usable in both directions: the application sends the
// marked packet, the server decodes it and answers with the final packet.
// Observed: number of handshakes, payloads received, marked decoded, final
// received, Status().
//
// mode 'econn: the same one layer below - handleIncomingPackets over an
// in-memory transport, the peer writes all frames, the consumer of the channel
// stays away for idle_ms, then reads; then one more frame is sent and read.
//
// Oracle on the implementation only (wall-clock; the model of Connection.reader
// has no consumer timing: its theorem C11_reader_* says a packet that arrived
// intact is delivered).  The scenarios run in child processes started when the
// generator begins and are collected at its end.

import (
	"bytes"
	"context"
	"crypto/ed25519"
	"fmt"
	"io"
	"net"
	"os"
	"sync"
	"time"

	"github.com/tonkeeper/tongo/liteclient"

	"verifharness/prng"
	"verifharness/sx"
)

func init() {
	execs["c11.slow"] = execC11Slow
}

var c11SlowMu sync.Mutex
var c11SlowFutures = map[string]*c11Future{}

func c11SlowStart(in sx.V) *c11Future {
	key := in.String()
	c11SlowMu.Lock()
	defer c11SlowMu.Unlock()
	if f, ok := c11SlowFutures[key]; ok {
		return f
	}
	f := &c11Future{done: make(chan struct{})}
	c11SlowFutures[key] = f
	go func() {
		limit := 45*time.Second + 2*time.Duration(in.List[2].I())*time.Millisecond
		f.out = c11RunChild("c11.slow "+key, limit)
		close(f.done)
	}()
	return f
}

func execC11Slow(in sx.V) sx.V {
	if os.Getenv("VERIF_C11_CHILD") == "1" {
		if in.List[1].IsA("econn") {
			return c11SlowEconn(in)
		}
		return c11SlowConn(in)
	}
	f := c11SlowStart(in)
	<-f.done
	return f.out
}

func c11SlowArgs(in sx.V) (seed []byte, mode string, idle time.Duration, pays [][]byte, marked, final []byte, oneWrite bool) {
	seed, mode = in.List[0].Bytes, in.List[1].Atom
	idle = time.Duration(in.List[2].I()) * time.Millisecond
	for _, p := range in.List[3].List {
		pays = append(pays, p.Bytes)
	}
	return seed, mode, idle, pays, in.List[4].Bytes, in.List[5].Bytes, in.List[6].Bool
}

func c11SlowConn(in sx.V) sx.V {
	sseed, mode, idle, pays, marked, final, oneWrite := c11SlowArgs(in)
	spriv := ed25519.NewKeyFromSeed(sseed)
	spub := []byte(spriv.Public().(ed25519.PublicKey))
	l, err := net.Listen("tcp", "127.0.0.1:0")
	if err != nil {
		return sx.L(sx.A("harness-error"), sx.A("listen"))
	}
	defer l.Close()
	nonces := prng.New(11)
	var mu sync.Mutex
	handshakes := 0
	markedOK := false
	handle := func(s *c11LiveSession, first bool) {
		if first {
			var all []byte
			s.mu.Lock()
			for _, p := range pays {
				f := c11RefFrame(nonces.Bytes(32), p)
				s.tx.XORKeyStream(f, f)
				if oneWrite {
					all = append(all, f...)
				} else if _, err := s.conn.Write(f); err != nil {
					break
				}
			}
			if oneWrite {
				_, _ = s.conn.Write(all)
			}
			s.mu.Unlock()
		}
		deadline := time.Now().Add(idle + 30*time.Second)
		for time.Now().Before(deadline) {
			s.mu.Lock()
			got := len(s.marked) > 0 && bytes.Equal(s.marked[0], marked)
			s.mu.Unlock()
			if got {
				mu.Lock()
				markedOK = true
				mu.Unlock()
				_ = s.send(final)
				return
			}
			time.Sleep(20 * time.Millisecond)
		}
	}
	go func() {
		for {
			conn, err := l.Accept()
			if err != nil {
				return
			}
			hs := make([]byte, 256)
			_ = conn.SetReadDeadline(time.Now().Add(5 * time.Second))
			if _, err := io.ReadFull(conn, hs); err != nil {
				conn.Close()
				continue
			}
			_ = conn.SetReadDeadline(time.Time{})
			p, ok := c11RefAccept(spriv, hs)
			if !ok {
				conn.Close()
				continue
			}
			mu.Lock()
			handshakes++
			first := handshakes == 1
			mu.Unlock()
			s := &c11LiveSession{conn: conn, tx: c11AesCTR(p[0:32], p[64:80]), nonces: nonces}
			go s.serve(c11AesCTR(p[32:64], p[80:96]))
			if err := s.send(nil); err != nil { // the handshake confirmation
				continue
			}
			go handle(s, first)
		}
	}()

	ctx, cancel := context.WithTimeout(context.Background(), 10*time.Second)
	defer cancel()
	c, err := liteclient.NewConnection(ctx, spub, l.Addr().String())
	if err != nil {
		return sx.L(sx.A("err"))
	}
	incoming := c.Responses() // taken once, as liteclient.Client.reader does
	var received []sx.V
	take := func(limit time.Duration) bool {
		select {
		case p := <-incoming:
			received = append(received, sx.Bytes(p.Payload))
			return true
		case <-time.After(limit):
			return false
		}
	}
	n := len(pays)
	if mode == "conn1" && take(5*time.Second) {
		n--
	}
	time.Sleep(idle) // the application is busy with something else
	for i := 0; i < n; i++ {
		if !take(3 * time.Second) {
			break
		}
	}
	sent := false
	for try := 0; try < 200 && !sent; try++ {
		pk, err := liteclient.NewPacket(append([]byte{}, marked...))
		if err == nil && c.Send(pk) == nil {
			sent = true
			break
		}
		time.Sleep(25 * time.Millisecond)
	}
	nBefore := len(received)
	finalOK := false
	if sent && take(5*time.Second) {
		finalOK = bytes.Equal(received[nBefore].Bytes, final)
		received = received[:nBefore]
	}
	status := c.Status()
	mu.Lock()
	defer mu.Unlock()
	return sx.L(sx.Nat(handshakes), sx.L(received...), sx.B(markedOK), sx.B(finalOK), sx.Nat(int(status)))
}

func c11SlowEconn(in sx.V) sx.V {
	seed, _, idle, pays, _, final, oneWrite := c11SlowArgs(in)
	r := prng.New(uint64(seed[0]) | uint64(seed[1])<<8 | uint64(seed[2])<<16)
	key, iv := r.Bytes(32), r.Bytes(16)
	a, b := net.Pipe()
	defer a.Close()
	defer b.Close()
	ch := liteclient.VerifIncoming(a, c11AesCTR(key, iv))
	tx := c11AesCTR(key, iv)
	frame := func(p []byte) []byte {
		f := c11RefFrame(r.Bytes(32), p)
		tx.XORKeyStream(f, f)
		return f
	}
	go func() {
		var all []byte
		for _, p := range pays {
			f := frame(p)
			if oneWrite {
				all = append(all, f...)
			} else if _, err := b.Write(f); err != nil {
				return
			}
		}
		if oneWrite {
			_, _ = b.Write(all)
		}
	}()
	var received []sx.V
	closed := false
	take := func(limit time.Duration) bool {
		select {
		case p, ok := <-ch:
			if !ok {
				closed = true
				return false
			}
			received = append(received, sx.Bytes(p.Payload))
			return true
		case <-time.After(limit):
			return false
		}
	}
	time.Sleep(idle)
	for range pays {
		if !take(3 * time.Second) {
			break
		}
	}
	finalOK := false
	if !closed {
		go func() { _, _ = b.Write(frame(final)) }()
		n := len(received)
		if take(3 * time.Second) {
			finalOK = bytes.Equal(received[n].Bytes, final)
			received = received[:n]
		}
	}
	return sx.L(sx.L(received...), sx.B(closed), sx.B(finalOK))
}

// ---------- generator ----------

type c11SlowCase struct {
	in    sx.V
	class string
	pays  [][]byte
}

func c11SlowMake(r *prng.R, mode string, idleMs, n int) c11SlowCase {
	var ps []sx.V
	var pays [][]byte
	bigAt := r.Intn(n)
	for i := 0; i < n; i++ {
		sz := c11Size(r, 300)
		if i == bigAt { // longer than the receive buffer of handleIncomingPackets
			sz = 4000 + r.Intn(30000)
		}
		p := append([]byte{0x53, byte(i)}, r.Bytes(sz)...)
		pays = append(pays, p)
		ps = append(ps, sx.Bytes(p))
	}
	marked := append([]byte{0xA5, 0x77}, r.Bytes(c11Size(r, 300))...)
	final := append([]byte{0x54, 0x77}, r.Bytes(c11Size(r, 300))...)
	one := r.Chance(50)
	in := sx.L(sx.Bytes(r.Bytes(32)), sx.A(mode), sx.Nat(idleMs), sx.L(ps...), sx.Bytes(marked), sx.Bytes(final), sx.B(one))
	return c11SlowCase{in: in, class: fmt.Sprintf("slow|%s|idle%ds|n%d|onewrite=%v", mode, idleMs/1000, n, one), pays: pays}
}

// c11R8Start starts the wall-clock scenarios of round 8 (they overlap the other
// cases) and returns the function that collects them.
func c11R8Start(c *Ctx) func() {
	r := c.R
	cs := []c11SlowCase{
		c11SlowMake(r, "conn0", 11000+r.Intn(1000), 2+r.Intn(4)),
		c11SlowMake(r, "conn1", 11000+r.Intn(1000), 3+r.Intn(3)),
		c11SlowMake(r, "econn", 10300+r.Intn(900), 1+r.Intn(4)),
	}
	if c.Thorough() {
		cs = append(cs,
			c11SlowMake(r, "conn0", 21000+r.Intn(2000), 2+r.Intn(6)), // two timeouts
			c11SlowMake(r, "conn1", 10200+r.Intn(500), 2),            // just past reconnectTimeout, the minimum that can be pending
			c11SlowMake(r, "conn0", 4000+r.Intn(5000), 3+r.Intn(6)),  // shorter than the timeout
			c11SlowMake(r, "econn", 20500+r.Intn(2000), 1),
			c11SlowMake(r, "econn", 31000, 2+r.Intn(6)))
	}
	for _, k := range cs {
		c11SlowStart(k.in)
	}
	return func() {
		for _, k := range cs {
			c11SlowCollect(c, k)
		}
	}
}

func c11SlowCollect(c *Ctx, k c11SlowCase) {
	out := safeExec("c11.slow", k.in)
	c.Note("c11.slow", k.class, k.in)
	var recv []sx.V
	ok := false
	got := trunc(out.String(), 60)
	if k.in.List[1].IsA("econn") {
		if out.K == sx.KL && len(out.List) == 3 {
			recv = out.List[0].List
			ok = !out.List[1].Bool && out.List[2].Bool
			got = fmt.Sprintf("%d of %d packets received, channel closed by the receive loop: %s, a further packet received afterwards: %s",
				len(recv), len(k.pays), out.List[1].String(), out.List[2].String())
		}
	} else if out.K == sx.KL && len(out.List) == 5 && out.List[0].K == sx.KN {
		recv = out.List[1].List
		ok = out.List[0].I() == 1 && out.List[2].Bool && out.List[3].Bool && out.List[4].String() == "n1"
		got = fmt.Sprintf("%d handshakes (expected 1), %d of %d packets received, packet sent afterwards decoded by the server: %s, its answer received: %s, status %s",
			out.List[0].I(), len(recv), len(k.pays), out.List[2].String(), out.List[3].String(), out.List[4].String())
	}
	ok = ok && len(recv) == len(k.pays)
	for i := 0; i < len(recv) && i < len(k.pays); i++ {
		if !bytes.Equal(recv[i].Bytes, k.pays[i]) {
			ok = false
			got += fmt.Sprintf("; first difference at packet %d: sent %d bytes %x.., received %d bytes", i, len(k.pays[i]), k.pays[i][:2], len(recv[i].Bytes))
			break
		}
	}
	if !ok {
		c.Fail("c11.slow", k.in, "c11-slow-consumer",
			"the peer sends numbered packets at once, the consumer of the channel takes nothing for the given time and then reads ("+k.class+
				"): expected every packet in order with the payload sent, no new handshake, and the session usable in both directions afterwards; got "+got)
	}
}
