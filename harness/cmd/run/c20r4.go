package main

// C20, further construction routes and limits:
//   * bit strings (and the addresses holding them) as ReadBits returns them
//     (aligned and unaligned read positions; since the repair of ReadBits the
//     result's buffer is clean), the same through tlb.Unmarshal of a message
//     header, and bit strings with junk behind their length through On(n)
//   * Unmarshal into a receiver that already holds another value
//   * cell trees at the depth limit (1023..1026 cells on a path), trees built in
//     memory from distinct but equal cells
//   * encoder-only JSON forms (syntactic validity), payload envelopes with
//     foreign bodies and multi-byte text

import (
	"bytes"
	"encoding/json"
	"fmt"
	"strings"
	"time"

	"github.com/tonkeeper/tongo/abi"
	"github.com/tonkeeper/tongo/boc"
	"github.com/tonkeeper/tongo/tlb"

	"verifharness/sx"
)

// derivedBitString20: the value ReadBits(len(bits)) returns after
// ReadBits(len(pre)) on a string holding pre ++ bits ++ tail
func derivedBitString20(pre, bits, tail string) boc.BitString {
	all := pre + bits + tail
	src := boc.NewBitString(len(all))
	for i := 0; i < len(all); i++ {
		if err := src.WriteBit(all[i] == '1'); err != nil {
			panic("c20: WriteBit failed while building a source")
		}
	}
	if _, err := src.ReadBits(len(pre)); err != nil {
		panic("c20: ReadBits(pre) failed")
	}
	v, err := src.ReadBits(len(bits))
	if err != nil {
		panic("c20: ReadBits(value) failed")
	}
	return v
}

// onBitString20: bits written into NewBitString(len+len(tail)), then the exported
// On(n) switches on the positions behind the length where tail has a 1
func onBitString20(bits, tail string) boc.BitString {
	b := boc.NewBitString(len(bits) + len(tail))
	for i := 0; i < len(bits); i++ {
		if err := b.WriteBit(bits[i] == '1'); err != nil {
			panic("c20: WriteBit failed while building a value")
		}
	}
	for i := 0; i < len(tail); i++ {
		if tail[i] == '1' {
			if err := b.On(len(bits) + i); err != nil {
				panic("c20: On failed while building a value")
			}
		}
	}
	return b
}

// bitStringMaker20 interprets the family argument of 'bitstring / 'addr
func bitStringMaker20(arg sx.V) func(bits string) boc.BitString {
	if arg.K == sx.KL && len(arg.List) == 1 {
		tail := arg.List[0].Bits
		return func(bits string) boc.BitString { return onBitString20(bits, tail) }
	}
	if arg.K == sx.KL && len(arg.List) == 2 {
		pre, tail := arg.List[0].Bits, arg.List[1].Bits
		return func(bits string) boc.BitString { return derivedBitString20(pre, bits, tail) }
	}
	slack := arg.I()
	return func(bits string) boc.BitString { return writerBitString20(bits, slack) }
}

// ---- receiver reuse

var c20Prev = map[string]sx.V{}
var c20PrevDoc = map[string][]byte{}

func reuseOutcome20(fam string, arg, prev sx.V, doc []byte, direct bool) sx.V {
	return watchdog20(func() sx.V {
		o, ok := lookup20(fam, arg)
		if !ok {
			return sx.L(sx.A("harness-error"), sx.A("family"))
		}
		v, err := o.reuse(prev, doc, direct)
		if err != nil {
			return sx.A("err")
		}
		return v
	})
}

func init() {
	// replay entry (oracle only): (fam arg prev doc) -> value | 'err
	execs["c20.reuse"] = func(in sx.V) sx.V {
		return reuseOutcome20(in.List[0].Atom, in.List[1], in.List[2], in.List[3].Bytes, false)
	}
}

// reuse: the document of k.val decoded into a receiver that holds the previous
// value of the same type must give k.val, exactly as into a fresh receiver
func (k case20) reuse(c *Ctx, doc []byte) {
	if k.fam == "maybe" || k.excluded || k.finding != "" {
		return
	}
	key := k.fam + " " + k.arg.String()
	if k.fam == "bitstring" || k.fam == "addr" || k.fam == "cell" {
		key = k.fam // one Go type whatever the construction route
	}
	prev, ok := c20Prev[key]
	prevDoc := c20PrevDoc[key]
	c20Prev[key] = k.val
	c20PrevDoc[key] = append([]byte{}, doc...)
	if !ok || k.fam == "cell" {
		return // cells are compared by projection: see runCell
	}
	{
		in := sx.L(sx.A(k.fam), k.arg, sx.Bytes(prevDoc), sx.Bytes(doc))
		got := watchdog20(func() sx.V {
			o, ok := lookup20(k.fam, k.arg)
			if !ok {
				return sx.L(sx.A("harness-error"), sx.A("family"))
			}
			v, err := o.after(prevDoc, doc)
			if err != nil {
				return sx.A("err")
			}
			return v
		})
		if !hang20(c, "c20.reuse", in, k.fam, got) && got.String() != prev.String() {
			c.Fail("c20.reuse", in, "result-aliased-"+k.fam, fmt.Sprintf("the value decoded from %s reads %s after a later decode of %s, want %s", prevDoc, got, doc, prev))
		}
	}
	for _, direct := range []bool{false, true} {
		got := reuseOutcome20(k.fam, k.arg, prev, doc, direct)
		in := sx.L(sx.A(k.fam), k.arg, prev, sx.Bytes(doc))
		if hang20(c, "c20.reuse", in, k.fam, got) {
			return
		}
		if got.String() != k.val.String() {
			c.Fail("c20.reuse", in, "receiver-reuse-"+k.fam, fmt.Sprintf("decoding %s into a receiver holding %s gives %s, want %s", doc, prev, got, k.val))
		}
	}
}

// ---- generators

func genC20R4(c *Ctx) {
	genC20Derived(c)
	genC20MsgHeader(c)
	genC20Depth(c)
	genC20Twins(c)
	genC20EncoderOnly(c)
	genC20Payloads(c)
	genC20EnvelopeValues(c)
	genC20AcceptedForms(c)
}

// bit strings as ReadBits returns them: every (position mod 8, length mod 4)
// and tails that are zero, all ones or random; the same inside addresses
func genC20Derived(c *Ctx) {
	r := c.R
	reps := c.Scale(1, 6)
	tails := func() string {
		switch r.Intn(4) {
		case 0:
			return strings.Repeat("0", 8+r.Intn(9))
		case 1:
			return strings.Repeat("1", 8+r.Intn(9))
		}
		return randBits(r, 1+r.Intn(70))
	}
	for rep := 0; rep < reps; rep++ {
		for _, pl := range []int{0, 8, 16, 280, 1, 3, 4, 7, 9, 12} {
			for _, n := range []int{1, 2, 3, 5, 6, 7, 9, 10, 11, 13, 14, 15, 30, 61, 254, 255, 257, 510, 511} {
				if pl+n > 1023 {
					continue
				}
				tail := tails()
				if pl+n+len(tail) > 1023 {
					tail = tail[:1023-pl-n]
				}
				pre := randBits(r, pl)
				arg := sx.L(sx.Bits(pre), sx.Bits(tail))
				al := "aligned"
				if pl%8 != 0 {
					al = "unaligned"
				}
				bits := randBits(r, n)
				case20{fam: "bitstring", arg: arg, val: sx.Bits(bits), class: "bitstring|read|" + al}.run(c, 0)
				if n <= 511 && (rep > 0 || n < 16 || pl == 280) {
					case20{fam: "addr", arg: arg, val: sx.L(sx.A("ext"), sx.Bits(bits)), class: "addr|ext|read|" + al}.run(c, 0)
					wc := int64(int32(r.U64()))
					case20{fam: "addr", arg: arg, val: sx.L(sx.A("var"), sx.A("no"), sx.Nat(n), sx.Z(wc), sx.Bits(bits)), class: "addr|var|read|" + al}.run(c, 0)
				}
			}
		}
		// junk behind the length through the exported On(n)
		for _, n := range []int{1, 2, 3, 5, 6, 7, 9, 10, 11, 13, 14, 15, 61, 254, 255, 257, 510, 511} {
			for _, tail := range []string{"1", "11", "111", "0111", "1111111", strings.Repeat("1", 9), randBits(r, 1+r.Intn(12))} {
				arg := sx.L(sx.Bits(tail))
				bits := randBits(r, n)
				case20{fam: "bitstring", arg: arg, val: sx.Bits(bits), class: "bitstring|on"}.run(c, 0)
				if rep > 0 || n < 16 {
					case20{fam: "addr", arg: arg, val: sx.L(sx.A("ext"), sx.Bits(bits)), class: "addr|ext|on"}.run(c, 0)
					case20{fam: "addr", arg: arg, val: sx.L(sx.A("var"), sx.A("no"), sx.Nat(n), sx.Z(int64(int32(r.U64()))), sx.Bits(bits)), class: "addr|var|on"}.run(c, 0)
				}
			}
		}
		// ReadRemainingBits / a value that is the whole rest of the source
		for _, pl := range []int{0, 8, 5} {
			bits := randBits(r, 1+r.Intn(40))
			case20{fam: "bitstring", arg: sx.L(sx.Bits(randBits(r, pl)), sx.Bits("")), val: sx.Bits(bits), class: "bitstring|read|rest"}.run(c, 0)
		}
		marg := sx.L(sx.A("bitstring"), sx.L(sx.Bits(randBits(r, 8)), sx.Bits("1111111111")))
		case20{fam: "maybe", arg: marg, val: sx.L(sx.A("some"), sx.Bits(randBits(r, 1+4*r.Intn(20)))), class: "maybe|bitstring"}.run(c, 0)
	}
}

func bitsOfUint20(v uint64, w int) string {
	var sb strings.Builder
	for i := w - 1; i >= 0; i-- {
		sb.WriteByte('0' + byte((v>>uint(i))&1))
	}
	return sb.String()
}

// the application route: an ext_out_msg_info header decoded by tlb.Unmarshal;
// with a standard source the external destination starts at bit 280.  Oracle
// (implementation only): the JSON of the decoded Dest / Src equals the JSON of
// the same address built by writing, and parses back to the same bits.
func genC20MsgHeader(c *Ctx) {
	r := c.R
	for i := 0; i < c.Scale(60, 1500); i++ {
		n := []int{1, 2, 3, 5, 6, 7, 9, 10, 11, 13, 31, 255, 257, 510, 511}[r.Intn(15)]
		if r.Chance(30) {
			n = r.Intn(300)
		}
		ext := randBits(r, n)
		lt := r.U64()
		switch r.Intn(4) {
		case 0:
			lt = ^uint64(0)
		case 1:
			lt = 0xE000000000000123
		case 2:
			lt >>= uint(r.Intn(40))
		}
		wc := int8(r.U64())
		addr := randBytes20(r, 32)
		var hdr strings.Builder
		hdr.WriteString("11")                                  // ext_out_msg_info$11
		hdr.WriteString("10" + "0" + bitsOfUint20(uint64(uint8(wc)), 8)) // addr_std, no anycast
		for _, b := range addr {
			hdr.WriteString(bitsOfUint20(uint64(b), 8))
		}
		hdr.WriteString("01" + bitsOfUint20(uint64(n), 9) + ext) // addr_extern at bit 280
		hdr.WriteString(bitsOfUint20(lt, 64) + bitsOfUint20(uint64(uint32(r.U64())), 32))
		cell := boc.NewCell()
		for _, ch := range hdr.String() {
			_ = cell.WriteBit(ch == '1')
		}
		in := sx.L(sx.A("ext-out-header"), sx.Bits(hdr.String()))
		res := watchdog20(func() sx.V {
			var info tlb.CommonMsgInfo
			if err := tlb.Unmarshal(cell, &info); err != nil || info.ExtOutMsgInfo == nil {
				return sx.L(sx.A("decode"), sx.Str(fmt.Sprint(err)))
			}
			got, err := json.Marshal(info.ExtOutMsgInfo.Dest)
			if err != nil {
				return sx.A("err")
			}
			want, _ := json.Marshal(addrFromSx20(sx.L(sx.A("ext"), sx.Bits(ext))))
			if n == 0 {
				want = []byte("\"\"")
			}
			if !bytes.Equal(got, want) {
				return sx.L(sx.A("text"), sx.Str(string(got)), sx.Str(string(want)))
			}
			var back tlb.MsgAddress
			if err := json.Unmarshal(got, &back); err != nil {
				return sx.L(sx.A("rejected"), sx.Str(err.Error()))
			}
			if n > 0 && (back.SumType != "AddrExtern" || bitsOf(back.AddrExtern) != ext) {
				return sx.L(sx.A("back"), addrToSx20(&back))
			}
			src, err := json.Marshal(info.ExtOutMsgInfo.Src)
			wantSrc, _ := json.Marshal(addrFromSx20(sx.L(sx.A("std"), sx.A("no"), sx.Z(int64(wc)), sx.Bytes(addr))))
			if err != nil || !bytes.Equal(src, wantSrc) {
				return sx.L(sx.A("src"), sx.Str(string(src)))
			}
			return sx.A("ok")
		})
		if hang20(c, "c20.header", in, "addr", res) {
			return
		}
		if !res.IsA("ok") {
			c.Fail("c20.header", in, "roundtrip-addr", fmt.Sprintf("address decoded from a message header (extern %s, created_lt %x): %s", ext, lt, res))
		}
	}
}

func init() {
	// replay entry (oracle only): header bits -> JSON of Dest
	execs["c20.header"] = func(in sx.V) sx.V {
		cell := boc.NewCell()
		for _, ch := range in.List[1].Bits {
			_ = cell.WriteBit(ch == '1')
		}
		var info tlb.CommonMsgInfo
		if err := tlb.Unmarshal(cell, &info); err != nil || info.ExtOutMsgInfo == nil {
			return sx.A("err")
		}
		b, err := json.Marshal(info.ExtOutMsgInfo.Dest)
		if err != nil {
			return sx.A("err")
		}
		return sx.Bytes(b)
	}
}

// chain (one reference per cell) or comb (a leaf beside every link)
func deepTree20(n int, comb bool) *boc.Cell {
	var cur *boc.Cell
	for i := n - 1; i >= 0; i-- {
		cell := boc.NewCell()
		_ = cell.WriteUint(uint64(i), 16)
		if cur != nil {
			_ = cell.AddRef(cur)
			if comb && i%7 == 0 {
				leaf := boc.NewCell()
				_ = leaf.WriteUint(uint64(i)+0x10000, 24)
				_ = cell.AddRef(leaf)
			}
		}
		cur = cell
	}
	return cur
}

// the depth limit: a tree that the library hashes (root depth <= 1024) has a
// JSON form that parses back to the same hash; one it refuses to hash is
// refused by the encoder as well, without a panic or a hang
func genC20Depth(c *Ctx) {
	for _, comb := range []bool{false, true} {
		for _, n := range []int{1000, 1022, 1023, 1024, 1025, 1026, 1027} {
			root := deepTree20(n, comb)
			in := sx.L(sx.A("deep-tree"), sx.Nat(n), sx.B(comb))
			type outcome struct {
				hashErr, marshalErr error
				doc                  []byte
			}
			var o outcome
			res := watchdogFor20(30*time.Second, func() sx.V {
				_, o.hashErr = root.Hash()
				o.doc, o.marshalErr = json.Marshal(*root)
				return sx.A("ok")
			})
			if hang20(c, "c20.print", in, "cell", res) {
				return
			}
			if res.IsA("panic") {
				c.Fail("c20.print", in, "panic-cell", "hashing or marshalling a deep tree panicked")
				continue
			}
			if (o.hashErr == nil) != (o.marshalErr == nil) {
				c.Fail("c20.print", in, "marshal-error-cell", fmt.Sprintf("a path of %d cells: Hash error %v, json.Marshal error %v", n, o.hashErr, o.marshalErr))
				continue
			}
			if o.marshalErr != nil {
				continue
			}
			// through the model as well: the document is the hex of the serialiser's bytes
			b, err := root.ToBoc()
			if err != nil {
				c.Fail("c20.print", in, "marshal-error-cell", "ToBoc failed after json.Marshal succeeded")
				continue
			}
			case20{fam: "cell", arg: sx.Nat(n % 2), val: sx.Bytes(b), class: "cell|deep"}.runCell(c, 0, root)
		}
	}
}

// trees built in memory from distinct but equal cells (merged by hash in the
// bag of cells) next to the same tree with shared pointers
func genC20Twins(c *Ctx) {
	r := c.R
	for i := 0; i < c.Scale(6, 80); i++ {
		mk := func() *boc.Cell {
			leaf := boc.NewCell()
			_ = leaf.WriteUint(0xABCD, 16)
			mid := boc.NewCell()
			_ = mid.WriteUint(7, 3)
			_ = mid.AddRef(leaf)
			return mid
		}
		k := 2 + r.Intn(3)
		twins, shared := boc.NewCell(), boc.NewCell()
		v := r.U64()
		_ = twins.WriteUint(v, 64)
		_ = shared.WriteUint(v, 64)
		one := mk()
		for j := 0; j < k; j++ {
			_ = twins.AddRef(mk())
			_ = shared.AddRef(one)
		}
		in := sx.L(sx.A("twins"), sx.Nat(k), sx.N(v))
		var d1, d2 []byte
		var e1, e2 error
		res := watchdog20(func() sx.V {
			d1, e1 = json.Marshal(*twins)
			d2, e2 = json.Marshal(*shared)
			return sx.A("ok")
		})
		if hang20(c, "c20.print", in, "cell", res) {
			return
		}
		if e1 != nil || e2 != nil || !bytes.Equal(d1, d2) {
			c.Fail("c20.print", in, "roundtrip-cell", fmt.Sprintf("equal trees marshal differently: %s / %s (%v %v)", d1, d2, e1, e2))
			continue
		}
		if b, err := twins.ToBoc(); err == nil {
			case20{fam: "cell", arg: sx.Nat(i % 2), val: sx.Bytes(b), class: "cell|twins"}.runCell(c, 0, twins)
		}
	}
}

// JSON encoders without a decoder: the output must be valid JSON
func genC20EncoderOnly(c *Ctx) {
	r := c.R
	check := func(name string, v any) {
		in := sx.L(sx.A("encoder-only"), sx.Str(name))
		var doc []byte
		var err error
		res := watchdog20(func() sx.V { doc, err = json.Marshal(v); return sx.A("ok") })
		if hang20(c, "c20.print", in, "encoder", res) {
			return
		}
		if res.IsA("panic") || err != nil || !json.Valid(doc) {
			c.Fail("c20.print", in, "invalid-json-encoder", fmt.Sprintf("%s: %v %v %s", name, res, err, doc))
		}
	}
	for i := 0; i < c.Scale(10, 100); i++ {
		var a tlb.AddressWithWorkchain
		a.Workchain = int8(r.U64())
		copy(a.Address[:], randBytes20(r, 32))
		check("AddressWithWorkchain", a)
		var cc tlb.CurrencyCollection
		cc.Grams = tlb.Grams(r.U64())
		check("CurrencyCollection", cc)
		check("Either", tlb.Either[tlb.Uint8, tlb.Int57]{IsRight: r.Bool(), Left: tlb.Uint8(r.U64()), Right: tlb.Int57(int64(r.U64()) >> 8)})
		check("EitherRef", tlb.EitherRef[tlb.Grams]{IsRight: r.Bool(), Value: tlb.Grams(r.U64())})
	}
}

// payload envelopes: known operation names with bodies of another shape,
// missing / null values, multi-byte text -- an error or a value, never a panic;
// valid envelopes re-marshal to the same text
func genC20Payloads(c *Ctx) {
	r := c.R
	texts := []string{"plain", "é", "日本語のテキスト", "😀 emoji   sep", "quote \" backslash \\ <tag>&", "\x00\x01 control", strings.Repeat("長", 60)}
	op := func(v uint32) *uint32 { return &v }
	for _, t := range texts {
		b := abi.InMsgBody{SumType: abi.TextCommentMsgOp, OpCode: op(0), Value: abi.TextCommentMsgBody{Text: tlb.Text(t)}}
		doc, err := json.Marshal(b)
		c20EnvelopeCheck(c, 0, b.SumType, b.OpCode, doc, err)
		jp := abi.JettonPayload{SumType: abi.TextCommentJettonOp, OpCode: op(0), Value: abi.TextCommentJettonPayload{Text: tlb.Text(t)}}
		jd, jerr := json.Marshal(jp)
		in := sx.L(sx.Nat(2), sx.Bytes(jd))
		if jerr != nil || !json.Valid(jd) {
			c.Fail("c20.envelope", in, "envelope-marshal", fmt.Sprintf("JettonPayload: %v", jerr))
			continue
		}
		var back abi.JettonPayload
		if err := json.Unmarshal(jd, &back); err != nil {
			c.Fail("c20.envelope", in, "envelope-roundtrip", "JettonPayload own output rejected: "+err.Error())
		} else if again, _ := json.Marshal(back); !bytes.Equal(again, jd) {
			c.Fail("c20.envelope", in, "envelope-roundtrip", fmt.Sprintf("JettonPayload round trip changed the text: %s", again))
		}
	}
	foreign := []string{
		`{"SumType":"TextComment","OpCode":0,"Value":{"QueryId":1}}`,
		`{"SumType":"TextComment","OpCode":0,"Value":{"Text":5}}`,
		`{"SumType":"TextComment","OpCode":0,"Value":"b5ee9c72010101010002000000"}`,
		`{"SumType":"TextComment","OpCode":0,"Value":null}`,
		`{"SumType":"TextComment","OpCode":0}`,
		`{"SumType":"TextComment","OpCode":-1,"Value":{"Text":"x"}}`,
		`{"SumType":"TextComment","OpCode":4294967296,"Value":{"Text":"x"}}`,
		`{"SumType":"JettonTransfer","OpCode":260734629,"Value":{"Text":"x"}}`,
		`{"SumType":"JettonTransfer","OpCode":260734629,"Value":{"QueryId":1,"Amount":"-1","Destination":"","ResponseDestination":"0:zz","CustomPayload":null,"ForwardTonAmount":"1","ForwardPayload":{"IsRight":false,"Value":{}}}}`,
		`{"SumType":"JettonTransfer","OpCode":260734629,"Value":{"ForwardPayload":{"IsRight":true,"Value":{"SumType":"Cell","Value":"b5ee9c72010100000000"}}}}`,
		`{"SumType":"Unknown","OpCode":1,"Value":{"Text":"x"}}`,
		`{"SumType":"Unknown","OpCode":1,"Value":"b5ee9c72010100000000"}`,
		`{"SumType":"Unknown","OpCode":1,"Value":null}`,
		`{"SumType":"Unknown"}`,
		`{"SumType":"NoSuchOperation","Value":{}}`,
		`{"SumType":"","Value":{"Text":"x"}}`,
		`{"SumType":5}`, `{"OpCode":"x"}`, `[]`, `null`, `"TextComment"`, `{"SumType":"Cell","Value":"b5ee9c72010100000000"}`,
		`{"SumType":"TextComment","Value":{"Text":"\ud800"}}`, "{\"SumType\":\"TextComment\",\"Value\":{\"Text\":\"\xff\xfe\"}}",
	}
	for _, d := range foreign {
		for which := 0; which < 4; which++ {
			doc := []byte(d)
			in := sx.L(sx.Nat(which), sx.Bytes(doc))
			res := watchdog20(func() sx.V {
				var err error
				switch which {
				case 0:
					var b abi.InMsgBody
					err = json.Unmarshal(doc, &b)
				case 1:
					var b abi.ExtOutMsgBody
					err = json.Unmarshal(doc, &b)
				case 2:
					var b abi.JettonPayload
					err = json.Unmarshal(doc, &b)
				default:
					var b abi.NFTPayload
					err = json.Unmarshal(doc, &b)
				}
				if err != nil {
					return sx.A("err")
				}
				return sx.A("ok")
			})
			if hang20(c, "c20.envelope", in, "envelope", res) {
				return
			}
			if res.IsA("panic") {
				c.Fail("c20.envelope", in, "panic-envelope", "UnmarshalJSON panicked on an envelope with a foreign body")
			}
		}
		c20EnvelopeMut(c, r.Intn(2), []byte(d), 2)
	}
}
