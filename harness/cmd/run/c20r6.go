package main

// C20, malformed cell documents from the BOC header grammar: bags in every
// header variant (index, CRC, cache bits, lean magics, non-minimal widths,
// stored hashes, several roots) produced by the reference serialiser of dag.go
// -- including bags whose offset width exceeds the reference width (few cells,
// more than 255 bytes of data) -- cut at every byte of the header and of the
// index and at sampled positions of the data, quoted as hex into the JSON forms
// of boc.Cell, tlb.Any, Maybe[Any], struct fields and the abi envelopes.

import (
	"encoding/base64"
	"encoding/hex"
	"encoding/json"
	"fmt"

	"github.com/tonkeeper/tongo/abi"
	"github.com/tonkeeper/tongo/boc"

	"verifharness/prng"
	"verifharness/sx"
)

// fatDag20: a chain of n cells with 900..1023 data bits each (plus sharing):
// with n < 256 the reference width is 1 byte and the offsets need 2
func fatDag20(r *prng.R, n int) []Node {
	dag := make([]Node, n)
	for i := 0; i < n; i++ {
		nd := Node{Bits: randBits(r, 900+r.Intn(124))}
		if i < n-1 {
			nd.Refs = append(nd.Refs, i+1)
			if i < n-2 && r.Bool() {
				nd.Refs = append(nd.Refs, i+2+r.Intn(n-2-i))
			}
		}
		dag[i] = nd
	}
	return dag
}

// headerLen20: bytes up to the end of the index (or of the root list without index)
func headerLen20(n, roots int, total int, hv HeaderVariant) int {
	size := minBytes(uint64(n)) + hv.SizeExtra
	off := minBytes(uint64(total)) + hv.OffExtra
	l := 4 + 1 + 1 + 3*size + off + roots*size
	if hv.Magic != 0 {
		l = 4 + 1 + 1 + 3*size + off // lean: no root list
	}
	if hv.Idx || hv.Magic != 0 {
		l += n * off
	}
	return l
}

var envelopeDocs20 = []string{
	`{"SumType":"Unknown","OpCode":1,"Value":"%s"}`,
	`{"SumType":"Cell","OpCode":1,"Value":"%s"}`,
}

// cutDoc20: one (possibly truncated) bag through every JSON form that holds a cell
func cutDoc20(c *Ctx, b []byte, class string, full bool) {
	h := hex.EncodeToString(b)
	doc := []byte("\"" + h + "\"")
	for arg := 0; arg < 2; arg++ { // boc.Cell through json.Unmarshal, tlb.Any through the method
		kind := "c20.parse"
		if arg == 1 {
			kind = "c20.method"
		}
		k := case20{fam: "cell", arg: sx.Nat(arg), class: class}
		pin := k.in(sx.Bytes(doc))
		res := c.Emit(kind, pin, class)
		hang20(c, kind, pin, "cell", res)
		if res.IsA("panic") {
			c.Fail(kind, pin, "panic-cell", "UnmarshalJSON panicked on a hex BOC document")
		}
	}
	if full {
		km := case20{fam: "maybe", arg: sx.L(sx.A("cell"), sx.Nat(1)), class: class}
		pin := km.in(sx.Bytes(doc))
		if res := c.Emit("c20.parse", pin, class); res.IsA("panic") {
			c.Fail("c20.parse", pin, "panic-maybe", "Maybe[Any].UnmarshalJSON panicked on a hex BOC document")
		}
	}
	// implementation-side only: struct fields, the abi envelopes, the other text entry points
	for _, field := range []string{"C", "A", "M", "P"} {
		res := fieldOutcome20(field, doc)
		in := sx.L(sx.Str(field), sx.Bytes(doc))
		if !hang20(c, "c20.field", in, "cell", res) && res.IsA("panic") {
			c.Fail("c20.field", in, "panic-cell", "json.Unmarshal into a struct with a cell field panicked")
		}
	}
	for which := 0; which < 4; which++ {
		tpl := envelopeDocs20[0]
		if which >= 2 {
			tpl = envelopeDocs20[1]
		}
		ed := []byte(fmt.Sprintf(tpl, h))
		in := sx.L(sx.Nat(which), sx.Bytes(ed))
		res := watchdog20(func() sx.V {
			var err error
			switch which {
			case 0:
				var x abi.InMsgBody
				err = json.Unmarshal(ed, &x)
			case 1:
				var x abi.ExtOutMsgBody
				err = json.Unmarshal(ed, &x)
			case 2:
				var x abi.JettonPayload
				err = json.Unmarshal(ed, &x)
			default:
				var x abi.NFTPayload
				err = json.Unmarshal(ed, &x)
			}
			if err != nil {
				return sx.A("err")
			}
			return sx.A("ok")
		})
		if !hang20(c, "c20.envelope", in, "envelope", res) && res.IsA("panic") {
			c.Fail("c20.envelope", in, "panic-envelope", "UnmarshalJSON panicked on an envelope holding a hex BOC document")
		}
	}
	in := sx.L(sx.A("boc-text"), sx.Bytes(b))
	res := watchdog20(func() sx.V {
		_, e1 := boc.DeserializeBocHex(h)
		_, e2 := boc.DeserializeBocBase64(base64.StdEncoding.EncodeToString(b))
		_, e3 := boc.DeserializeSinglRootHex(h)
		if (e1 == nil) != (e2 == nil) || (e1 != nil && e3 == nil) {
			return sx.A("differ")
		}
		return sx.A("ok")
	})
	if !hang20(c, "c20.parse", in, "cell", res) && !res.IsA("ok") {
		c.Fail("c20.parse", in, "panic-cell", "DeserializeBocHex / Base64 / SinglRootHex: "+res.String())
	}
}

func genC20BocCuts(c *Ctx) {
	r := c.R
	variants := []HeaderVariant{{}, {Idx: true}, {Crc: true}, {Idx: true, Crc: true}, {Idx: true, Cache: true}, {Magic: 1}, {Magic: 2}, {SizeExtra: 1}, {OffExtra: 1}, {Idx: true, SizeExtra: 1}, {Idx: true, OffExtra: 1}, {SizeExtra: 1, OffExtra: 2, Crc: true}, {WithHashes: true}, {Idx: true, WithHashes: true}}
	type shape struct {
		dag   []Node
		roots []int
		name  string
	}
	var shapes []shape
	for _, n := range []int{2, 5, 12} {
		shapes = append(shapes, shape{fatDag20(r, n), []int{0}, "fat"})
	}
	shapes = append(shapes, shape{fatDag20(r, 7), []int{0, 3}, "fat-2roots"})
	shapes = append(shapes, shape{distinctDag20(r, 9), []int{0}, "thin"})
	if c.Thorough() {
		shapes = append(shapes, shape{fatDag20(r, 40), []int{0}, "fat"}, shape{fatDag20(r, 70), []int{0, 1, 2}, "fat-3roots"}, shape{distinctDag20(r, 300), []int{0}, "thin"})
	}
	for _, sh := range shapes {
		for vi, hv := range variants {
			full := refSerialize(sh.dag, sh.roots, hv, r)
			// the complete bag first, then every cut of header + index, then sampled cuts of the data
			cls := "cell|boccut|" + sh.name
			cutDoc20(c, full, cls+"|whole", true)
			total := 0
			for _, nd := range sh.dag {
				data, _ := bitsToBytesTagged(nd.Bits)
				total += 2 + len(data) + len(nd.Refs)*(minBytes(uint64(len(sh.dag)))+hv.SizeExtra)
				if hv.WithHashes {
					total += 34
				}
			}
			hl := headerLen20(len(sh.dag), len(sh.roots), total, hv)
			if hl > len(full) {
				hl = len(full)
			}
			step := 1
			if len(sh.dag) > 12 {
				// large bags: the widths are the same as for the small ones, sample the cuts
				if vi%3 != len(sh.dag)%3 {
					continue
				}
				step = 1 + hl/60
			}
			for cut := 0; cut < hl; cut += step {
				cutDoc20(c, full[:cut], cls+"|header-index", cut%4 == vi%4)
			}
			for i := 0; i < c.Scale(4, 16); i++ {
				cut := hl + r.Intn(len(full)-hl+1)
				if cut < len(full) {
					cutDoc20(c, full[:cut], cls+"|data", false)
				}
			}
			// one byte of the header changed (flags, widths, counters) on the complete bag
			for i := 0; i < c.Scale(3, 12); i++ {
				m := append([]byte{}, full...)
				p := 4 + r.Intn(minInt(hl, len(m))-4)
				m[p] = []byte{0, 1, 2, 0xff, 0x80, m[p] + 1, m[p] - 1, m[p] ^ 0x40}[r.Intn(8)]
				cutDoc20(c, m, cls+"|header-byte", false)
			}
		}
	}
}
