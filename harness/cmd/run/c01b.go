package main

import (
	"fmt"
	"sort"

	"github.com/tonkeeper/tongo/boc"

	"verifharness/prng"
)

// C01, sharing family: DAGs whose number of root-to-leaf paths is exponential
// in the number of cells (the serialiser has to stop at a cell it has already
// imported, otherwise its work follows the paths), and DAGs in which a shared
// cell has children of its own that are not shared (the cache bit of an index
// entry says "referenced more than once" for exactly the shared cell).  Every
// case runs in the guarded child; bytes are compared with the extracted model.

type c01Share struct {
	name string
	dag  []Node
}

func c01Payload(r *prng.R) string { return randBits(r, r.Intn(17)) }

func c01ChainDag(r *prng.R, k, m int) []Node {
	dag := make([]Node, k)
	for i := range dag {
		dag[i].Bits = c01Payload(r)
		if i+1 < k {
			for j := 0; j < m; j++ {
				dag[i].Refs = append(dag[i].Refs, i+1)
			}
		}
	}
	return dag
}

func c01LatticeDag(r *prng.R, k, w int) []Node {
	dag := make([]Node, k)
	for i := range dag {
		dag[i].Bits = c01Payload(r)
		for j := 1; j <= w && i+j < k; j++ {
			dag[i].Refs = append(dag[i].Refs, i+j)
		}
	}
	return dag
}

func c01DiamondDag(r *prng.R, layers int) []Node {
	k := 1 + 2*layers
	dag := make([]Node, k)
	dag[0].Bits = c01Payload(r)
	dag[0].Refs = []int{1, 2, 1, 2}
	for l := 0; l < layers; l++ {
		for s := 0; s < 2; s++ {
			i := 1 + 2*l + s
			dag[i].Bits = c01Payload(r)
			if l+1 < layers {
				a := 1 + 2*(l+1)
				dag[i].Refs = []int{a, a + 1, a + 1, a}
			}
		}
	}
	return dag
}

func c01MixedDag(r *prng.R, k int) []Node {
	dag := make([]Node, k)
	for i := range dag {
		dag[i].Bits = c01Payload(r)
		if i+1 < k {
			m := 1 + r.Intn(4)
			for j := 0; j < m; j++ {
				t := i + 1
				if r.Chance(15) {
					t = i + 1 + r.Intn(minInt(k-1-i, 3))
				}
				dag[i].Refs = append(dag[i].Refs, t)
			}
		}
	}
	return dag
}

// a tree (no sharing) of k cells in which afterwards a few cells with children
// get additional parents: the shared cells have private sub-trees
func c01SharedSubDag(r *prng.R, k int) []Node {
	dag := make([]Node, k)
	for i := range dag {
		dag[i].Bits = c01Payload(r)
	}
	// cell i > 0 gets one parent among the earlier cells that still has room
	for i := 1; i < k; i++ {
		for try := 0; try < 20; try++ {
			p := i - 1 - r.Intn(minInt(i, 4))
			if len(dag[p].Refs) < 3 {
				dag[p].Refs = append(dag[p].Refs, i)
				break
			}
			if try == 19 {
				for q := i - 1; q >= 0; q-- {
					if len(dag[q].Refs) < 4 {
						dag[q].Refs = append(dag[q].Refs, i)
						break
					}
				}
			}
		}
	}
	// extra references to 1..3 inner cells (from an earlier cell, or the same
	// parent once more)
	extra := 1 + r.Intn(3)
	for e := 0; e < extra; e++ {
		for try := 0; try < 30; try++ {
			t := 1 + r.Intn(k-1)
			if len(dag[t].Refs) == 0 && try < 25 {
				continue
			}
			p := r.Intn(t)
			if len(dag[p].Refs) < 4 {
				dag[p].Refs = append(dag[p].Refs, t)
				break
			}
		}
	}
	return dag
}

// valid payload length of an exotic cell of the given type and mask
func c01ExoticBits(typ byte, mask uint8) int {
	switch typ {
	case 0x01:
		return 8 * (2 + 34*popcount8(mask))
	case 0x02:
		return 8 * 33
	case 0x03:
		return 8 * 35
	}
	return 8 * 69
}

// c01Exotify turns the cells with references (all of them, or every second
// one) into exotic cells of the given type and level mask with a payload of
// the length that type has.
func c01Exotify(r *prng.R, dag []Node, typ byte, mask uint8, everySecond bool) []Node {
	out := make([]Node, len(dag))
	for i, nd := range dag {
		out[i] = nd
		if len(nd.Refs) == 0 || (everySecond && i%2 == 1) {
			continue
		}
		body := randBits(r, c01ExoticBits(typ, mask)-8)
		if typ == 0x01 {
			// a pruned branch repeats its mask and stores, per level, a hash and
			// a depth; small depths keep the parents under the depth limit
			k := popcount8(mask)
			body = byteBits(mask) + randBits(r, 8*32*k)
			for j := 0; j < k; j++ {
				d := r.Intn(900)
				body += byteBits(byte(d>>8), byte(d))
			}
		}
		out[i].Special = true
		out[i].Mask = mask
		out[i].Bits = byteBits(typ) + body
	}
	return out
}

func c01SharingCases(c *Ctx, r *prng.R) []c01Share {
	var out []c01Share
	add := func(name string, dag []Node) { out = append(out, c01Share{name, dag}) }
	// chains: every cell references the next one m times
	quickK := []int{5, 8, 12, 16, 24, 32, 48, 60}
	for k := 5; k <= 60; k++ {
		for m := 2; m <= 4; m++ {
			if !c.Thorough() {
				ok := false
				for _, q := range quickK {
					ok = ok || q == k
				}
				// quick tier: every listed k with one multiplicity, k = 60 with all
				if !ok || (k != 60 && (k+m)%3 != 0) {
					continue
				}
			}
			add(fmt.Sprintf("chain%d", m), c01ChainDag(r, k, m))
		}
	}
	// lattices: cell i references i+1 .. i+w
	for w := 2; w <= 4; w++ {
		for _, k := range []int{8, 12, 16, 20, 26, 32, 40, 48, 60} {
			if !c.Thorough() && k != 8 && k != 26 && k != 60 {
				continue
			}
			add(fmt.Sprintf("lattice%d", w), c01LatticeDag(r, k, w))
		}
	}
	// layered diamonds
	for _, layers := range []int{4, 9, 10, 16, 24, 30} {
		if !c.Thorough() && (layers == 10 || layers == 24) {
			continue
		}
		add("diamond", c01DiamondDag(r, layers))
	}
	// random multiplicities along a chain
	for i, n := 0, c.Scale(8, 150); i < n; i++ {
		add("mixed", c01MixedDag(r, 5+r.Intn(56)))
	}
	// shared cells with private sub-trees
	for i, n := 0, c.Scale(14, 200); i < n; i++ {
		add("sharedsub", c01SharedSubDag(r, 4+r.Intn(c.Scale(20, 56))))
	}
	// the same shapes with exotic cells on the paths (the extracted model
	// hashes every level: smaller sizes)
	types := []struct {
		name string
		typ  byte
	}{{"pruned", 1}, {"library", 2}, {"mproof", 3}, {"mupdate", 4}}
	nEx := c.Scale(8, 160)
	for i := 0; i < nEx; i++ {
		et := types[i%4]
		mask := uint8(0)
		if et.typ == 1 {
			mask = uint8(1 + r.Intn(7))
		} else if r.Chance(40) {
			mask = uint8(r.Intn(8))
		}
		k := 5 + r.Intn(c.Scale(16, 40))
		if i == nEx-1 {
			k = c.Scale(40, 60)
		}
		var base []Node
		var shape string
		switch r.Intn(4) {
		case 0:
			m := 2 + r.Intn(3)
			base, shape = c01ChainDag(r, k, m), fmt.Sprintf("chain%d", m)
		case 1:
			w := 2 + r.Intn(3)
			base, shape = c01LatticeDag(r, k, w), fmt.Sprintf("lattice%d", w)
		case 2:
			base, shape = c01DiamondDag(r, k/2), "diamond"
		default:
			base, shape = c01SharedSubDag(r, k), "sharedsub"
		}
		_ = shape
		add("exotic-"+et.name, c01Exotify(r, base, et.typ, mask, r.Bool()))
	}
	// smallest unfolded tree first: the first input reported as hanging is the
	// smallest one of the family
	sort.SliceStable(out, func(i, j int) bool { return c01TreeSize(out[i].dag) < c01TreeSize(out[j].dag) })
	return out
}

func genC01Sharing(c *Ctx, r *prng.R, between func(cells int)) {
	rot := 0
	for _, sc := range c01SharingCases(c, r) {
		between(len(sc.dag))
		// every case: index + cache bits (with or without CRC), and one more
		// combination, rotating through all eight
		opts := []int{5 + 2*(rot&1), rot % 8}
		if opts[1] == opts[0] || (rot%2 == 1 && len(sc.dag) > 16) {
			// quick tier: the second combination for every other larger case
			opts = opts[:1]
		}
		if c.Thorough() {
			opts = []int{0, 1, 2, 3, 4, 5, 6, 7}
		}
		rot++
		budget := "small"
		if c01TreeSize(sc.dag) > 1<<20 {
			budget = "exponential"
		}
		for n, o := range opts {
			oc := "other"
			if o&5 == 5 {
				oc = "idx+cache"
			}
			in, out, fast := c01EmitSer(c, sc.dag, o, fmt.Sprintf("sharing|%s|%s|%s", sc.name, budget, oc))
			if fast && n == 0 {
				c01Oracles(c, in, sc.dag, out)
			}
		}
	}
}

// c01IndexOracle reads an own output that carries an index and re-derives
// every index entry from the cell data that follows it: entry i is the end
// offset of cell i (doubled, plus the cache flag, with cache bits), truncated
// to off_bytes bytes as the serialiser writes it; the cache flag of a cell is
// set exactly when the cell is referenced more than once (references of the
// stored cells, with multiplicity, and the root list).
func c01IndexOracle(b []byte, cache bool) string {
	if len(b) < 6 {
		return "own output shorter than a header"
	}
	size := int(b[4] & 7)
	off := int(b[5])
	if size < 1 || size > 4 || off < 1 || off > 8 {
		return "" // outside what the serialiser emits below 2^24 cells; the model comparison decides
	}
	rd := func(p, n int) (uint64, bool) {
		if p+n > len(b) {
			return 0, false
		}
		v := uint64(0)
		for _, x := range b[p : p+n] {
			v = v<<8 | uint64(x)
		}
		return v, true
	}
	p := 6
	cells, ok1 := rd(p, size)
	roots, ok2 := rd(p+size, size)
	tot, ok3 := rd(p+3*size, off)
	if !ok1 || !ok2 || !ok3 {
		return "own output: truncated header"
	}
	p += 3*size + off
	indeg := make([]int, cells)
	for i := uint64(0); i < roots; i++ {
		v, ok := rd(p, size)
		if !ok || v >= cells {
			return "own output: bad root list"
		}
		indeg[v]++
		p += size
	}
	idxAt := p
	p += int(cells) * off
	dataAt := p
	ends := make([]uint64, cells)
	for i := uint64(0); i < cells; i++ {
		if p+2 > len(b) {
			return "own output: truncated cell data"
		}
		d1, d2 := b[p], b[p+1]
		p += 2 + (int(d2)+1)/2
		for j := 0; j < int(d1&7); j++ {
			v, ok := rd(p, size)
			if !ok || v >= cells {
				return "own output: bad reference"
			}
			indeg[v]++
			p += size
		}
		ends[i] = uint64(p - dataAt)
	}
	if uint64(p-dataAt) != tot {
		return "own output: tot_cells_size differs from the cell data length"
	}
	for i := uint64(0); i < cells; i++ {
		got, _ := rd(idxAt+int(i)*off, off)
		want := ends[i]
		if cache {
			want *= 2
			if indeg[i] >= 2 {
				want++
			}
		}
		if off < 8 {
			want &= (uint64(1) << uint(8*off)) - 1
		}
		if got != want {
			return fmt.Sprintf("index entry %d of %d is %#x, the cell data says %#x (end offset %d, referenced %d times, cache bits %v)",
				i, cells, got, want, ends[i], indeg[i], cache)
		}
	}
	return ""
}

// c01Reshare builds the DAG with a different pointer sharing of the same
// structure: every cell exists twice and every reference picks one of the two
// copies (linear in the number of cells whatever the number of paths).
func c01Reshare(dag []Node, r *prng.R) []*boc.Cell {
	n := len(dag)
	cp := make([][2]*boc.Cell, n)
	first := make([]*boc.Cell, n)
	for i := n - 1; i >= 0; i-- {
		nd := dag[i]
		for k := 0; k < 2; k++ {
			c := boc.NewCell()
			for _, ch := range nd.Bits {
				if c.WriteBit(ch == '1') != nil {
					return nil
				}
			}
			ty := 0
			if nd.Special {
				for j := 0; j < 8 && j < len(nd.Bits); j++ {
					ty = ty*2 + int(nd.Bits[j]-'0')
				}
			}
			boc.VerifSetTypeMask(c, boc.CellType(ty), uint32(nd.Mask))
			for _, t := range nd.Refs {
				if c.AddRef(cp[t][r.Intn(2)]) != nil {
					return nil
				}
			}
			cp[i][k] = c
		}
		first[i] = cp[i][0]
	}
	return first
}
