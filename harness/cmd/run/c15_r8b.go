package main

// C15, round 8 (b): the decision "attach the initial state / which seqno" is keyed on the ACCOUNT STATUS, never on a
// value of the data that happens to coincide with it on common states (stored seqno 0 <=> not deployed, ...).
//
// Family "grid": for EVERY version that can send x account status (nonexist / uninit / frozen / active) x stored seqno
// (0, 1, 2, 2^32-1, random; v5 beta also 2^32 and 2^33-1, whose low 32 bits are 0 / 2^32-1) x 0..1 dictionary entries,
// deterministically (no cell of the grid is left to chance):
//   - c15.next and c15.send (wait 0) cases compared with the extracted model (next_params / api_send_v2; the model's
//     C15_next_params_spec: active => seqno from the data and no init, otherwise seqno 0 and the own init; highload:
//     init iff nonexist / uninit);
//   - oracles on the implementation through every API that yields send parameters: NextMessageParams on a fresh
//     literal and on a record polled into a reused variable, Send, SendV2, and the application flow
//     NextMessageParams -> RawSend / RawSendV2 (seqno and Init handed over as returned): seqno in the signed body,
//     init flag of the external message, hash of the attached init = the wallet's address = destination;
//   - ONE wallet object and ONE scripted chain walked through the whole grid in a random order (object reuse): every
//     message must be the one the status of THAT poll requires.

import (
	"bytes"
	"context"
	"crypto/ed25519"
	"fmt"
	"time"

	"github.com/tonkeeper/tongo/boc"
	"github.com/tonkeeper/tongo/wallet"

	"verifharness/prng"
	"verifharness/sx"
)

type c15GridCell struct {
	status string // none uninit frozen active
	seqno  uint64 // stored (active only)
	name   string
}

// coverage bucket: the status, active split by "sent seqno is 0" (the value that coincides with "not deployed")
func (g c15GridCell) bucket() string {
	if g.status != "active" {
		return g.status
	}
	if g.seqno&0xffffffff == 0 {
		return "active-seqno0"
	}
	return "active-seqnoN"
}

func c15Grid(r *prng.R, ver wallet.Version) []c15GridCell {
	g := []c15GridCell{{"none", 0, "none"}, {"uninit", 0, "uninit"}, {"frozen", 0, "frozen"},
		{"active", 0, "active-seqno0"}, {"active", 1, "active-seqno1"}, {"active", 2, "active-seqno2"},
		{"active", 1<<32 - 1, "active-seqnoMax"}, {"active", 2 + uint64(uint32(r.U64()))%(1<<32-4), "active-seqnoRnd"}}
	if ver == wallet.V5Beta { // 33-bit field: the low 32 bits are what is sent
		g = append(g, c15GridCell{"active", 1 << 32, "active-seqno2p32"}, c15GridCell{"active", 1<<33 - 1, "active-seqno2p33m1"})
	}
	return g
}

// what the status (alone) requires: (seqno, init attached)
func c15GridWant(ver wallet.Version, cell c15GridCell) (uint64, bool) {
	switch {
	case ver == wallet.HighLoadV2R2:
		return 0, cell.status == "none" || cell.status == "uninit"
	case cell.status == "active":
		return cell.seqno & 0xffffffff, false
	}
	return 0, true
}

// the single message a scripted chain received: (seqno in the body, attached init hash or nil, destination hash part)
func c15GridSent(ver wallet.Version, chain *fakeChain) (seqno uint64, init []byte, dest string, why string) {
	if len(chain.payloads) != 1 {
		return 0, nil, "", fmt.Sprintf("%d messages sent", len(chain.payloads))
	}
	cells, err := boc.DeserializeBoc(chain.payloads[0])
	if err != nil || len(cells) != 1 {
		return 0, nil, "", "payload is not a one-root BOC"
	}
	root := cells[0]
	eb := cellBits(root)
	if len(eb) < 277 {
		return 0, nil, "", "external message too short"
	}
	if eb[275] == '1' {
		if eb[276] != '1' || len(root.Refs()) < 2 {
			return 0, nil, "", "init not in a reference"
		}
		init = mustHash(root.Refs()[0])
	}
	return bodySeqno(ver, lastRef(root)), init, eb[15:271], ""
}

func genC15R8b(c *Ctx) {
	r := c.R
	ctx := context.Background()
	dst := sendable{kind: 1, amount: 1, addr: bytes.Repeat([]byte{0x5a}, 32)}
	for _, ver := range c14SendVersions {
		grid := c15Grid(r, ver)
		// one wallet object / one chain reused over the whole grid (walked in a random order below)
		rseed := c14Seed(r)
		ro := randOpts(r)
		rchain := &fakeChain{}
		rw, rerr := wallet.New(ed25519.NewKeyFromSeed(rseed), ver, rchain, ro.options()...)
		rpk := ed25519.NewKeyFromSeed(rseed).Public().(ed25519.PublicKey)
		var rprior []sx.V
		for gi, cell := range grid {
			seed := c14Seed(r)
			key := ed25519.NewKeyFromSeed(seed)
			pk := key.Public().(ed25519.PublicKey)
			o := randOpts(r)
			if (gi+int(c.Seed))%2 == 0 {
				o = wopts{}
			}
			st := sx.A(cell.status)
			if cell.status == "active" {
				var dc *boc.Cell
				if (gi+int(ver))%3 == 0 {
					dc = c15DataCell(r, ver, cell.seqno, 0)
				} else {
					dc = c15WellFormed(r, ver, cell.seqno, (gi+int(c.Seed))%2).cell
				}
				st = sx.L(sx.A("active"), cellToSx(dc))
			}
			wantSeq, wantInit := c15GridWant(ver, cell)
			si, sierr := wallet.GenerateStateInit(pk, ver, o.net, derefInt(o.wc), o.sub)
			if sierr != nil {
				continue
			}
			ownInit := mustHash(stateInitCell(&si))
			verdict := func(api string, seqno uint64, init []byte, hasInit bool) string {
				if ver != wallet.HighLoadV2R2 && seqno != wantSeq {
					return fmt.Sprintf("%s: seqno %d, the account (%s) requires %d", api, seqno, cell.name, wantSeq)
				}
				if hasInit != wantInit {
					return fmt.Sprintf("%s: initial state attached = %v, the account status (%s) requires %v", api, hasInit, cell.name, wantInit)
				}
				if hasInit && !bytes.Equal(init, ownInit) {
					return api + ": the attached initial state is not the wallet's own"
				}
				return ""
			}
			// (a) NextMessageParams vs the model, and the status-only oracle
			inNext := sx.L(sx.Nat(int(ver)), sx.Bytes(pk), o.sx(), st, sx.Bytes(seed))
			out := c.Emit("c15.next", inNext, fmt.Sprintf("next|grid|v%d|%s", int(ver), cell.bucket()))
			if out.K != sx.KL || len(out.List) != 3 {
				c.Fail("c15.next", inNext, "c15-grid-next", fmt.Sprintf("NextMessageParams fails on account %s", cell.name))
			} else {
				var ih []byte
				if len(out.List[1].List) == 1 {
					ih = out.List[1].List[0].Bytes
				}
				if why := verdict("NextMessageParams (polled record)", out.List[0].U64(), ih, ih != nil); why != "" {
					c.Fail("c15.next", inNext, "c15-grid-next", why)
				}
			}
			// (b) SendV2 (wait 0) vs the model, and the oracle on the captured message
			ms := rawMsgs{}
			ssx := []sx.V{}
			if gi%2 == 1 {
				m, _ := dst.raw()
				ms = append(ms, m)
				ssx = append(ssx, dst.sx())
			}
			inSend := sx.L(sx.Nat(int(ver)), sx.Bytes(pk), o.sx(), st, ms.sx(), sx.Z(0), sx.B(false), sx.L(), sx.L(sx.N(0)), sx.L(ssx...), optZsx(nil), sx.Bytes(seed))
			outS := c.Emit("c15.send", inSend, fmt.Sprintf("send|grid|%s", cell.bucket()))
			if outS.K == sx.KL && len(outS.List) == 2 && outS.List[0].IsA("ok") && outS.List[1].K == sx.KL && len(outS.List[1].List) == 6 {
				p := outS.List[1].List
				var ih []byte
				if len(p[2].List) == 1 {
					ih = p[2].List[0].Bytes
				}
				if why := verdict("SendV2 (polled record)", p[3].U64(), ih, ih != nil); why != "" {
					c.Fail("c15.send", inSend, "c15-grid-send", why)
				}
			} else {
				c.Fail("c15.send", inSend, "c15-grid-send", "SendV2 with no waiting does not send to account "+cell.name+": "+trunc(outS.String(), 120))
			}
			// (c) the other entry points on a fresh literal of the state (oracle only)
			lit := shardAccount(st)
			apis := []string{"NextMessageParams", "Send", "SendV2", "NextMessageParams->RawSend", "NextMessageParams->RawSendV2"}
			for ai, api := range apis {
				chain := &fakeChain{state: lit}
				w, err := wallet.New(key, ver, chain, o.options()...)
				if err != nil {
					break
				}
				why := func() (why string) {
					defer func() {
						if rec := recover(); rec != nil {
							why = fmt.Sprint(api, ": panic: ", rec)
						}
					}()
					var msgs []wallet.RawMessage
					var sends []wallet.Sendable
					if (gi+ai)%2 == 0 {
						m, _ := dst.raw()
						msgs = append(msgs, m)
						sends = append(sends, dst.toSendable())
					}
					var err error
					switch ai {
					case 0:
						p, e := wallet.VerifNextMessageParams(&w, lit)
						if e != nil {
							return api + " fails"
						}
						var ih []byte
						if p.Init != nil {
							ih = mustHash(stateInitCell(p.Init))
						}
						return verdict(api+" (literal record)", uint64(p.Seqno), ih, p.Init != nil)
					case 1:
						err = w.Send(ctx, sends...)
					case 2:
						_, err = w.SendV2(ctx, 0, sends...)
					default:
						p, e := wallet.VerifNextMessageParams(&w, lit)
						if e != nil {
							return api + " fails"
						}
						if ai == 3 {
							err = w.RawSend(ctx, p.Seqno, time.Now().Add(time.Minute), msgs, p.Init)
						} else {
							_, err = w.RawSendV2(ctx, p.Seqno, time.Now().Add(time.Minute), msgs, p.Init, 0)
						}
					}
					if err != nil {
						return api + " fails: " + err.Error()
					}
					seqno, ih, dest, bad := c15GridSent(ver, chain)
					if bad != "" {
						return api + ": " + bad
					}
					if a := w.GetAddress(); dest != hexBits(a.Address[:]) {
						return api + ": the message is not addressed to the wallet"
					}
					return verdict(api+" (literal record)", seqno, ih, ih != nil)
				}()
				if why != "" {
					c.Fail("c15.send", inSend, "c15-grid-entry", fmt.Sprintf("v%d %s", int(ver), why))
				}
			}
			c.Note("c15.send", "grid-entry|"+cell.bucket(), inSend)
		}
		// (d) object reuse: one wallet, one chain, one polled record variable through the grid in a random order, twice
		if rerr != nil {
			continue
		}
		rsi, e := wallet.GenerateStateInit(rpk, ver, ro.net, derefInt(ro.wc), ro.sub)
		if e != nil {
			continue
		}
		rown := mustHash(stateInitCell(&rsi))
		steps := 2 * len(grid)
		var trail []string
		for k := 0; k < steps; k++ {
			cell := grid[r.Intn(len(grid))]
			if k < len(grid) {
				cell = grid[(k*5+int(c.Seed))%len(grid)]
			}
			st := sx.A(cell.status)
			if cell.status == "active" {
				st = sx.L(sx.A("active"), cellToSx(c15WellFormed(r, ver, cell.seqno, r.Intn(2)).cell))
			}
			trail = append(trail, cell.name)
			rchain.state = polledAccount(rprior, st)
			rprior = []sx.V{st} // the next poll decodes into a variable holding this one (polledAccount re-decodes it first)
			rchain.payloads = nil
			wantSeq, wantInit := c15GridWant(ver, cell)
			inH := sx.L(sx.Nat(int(ver)), sx.Bytes(rpk), ro.sx(), st, sx.Bytes(rseed), sx.L(sx.A("grid-reuse"), sx.Nat(k)))
			var err error
			if k%2 == 0 {
				err = rw.Send(ctx, dst.toSendable())
			} else {
				_, err = rw.SendV2(ctx, 0)
			}
			if err != nil {
				c.Fail("c15.send", inH, "c15-grid-reuse", fmt.Sprintf("v%d: send %d on a reused wallet fails (%v): %v", int(ver), k, trail, err))
				break
			}
			seqno, ih, _, bad := c15GridSent(ver, rchain)
			switch {
			case bad != "":
			case ver != wallet.HighLoadV2R2 && seqno != wantSeq:
				bad = fmt.Sprintf("seqno %d, want %d", seqno, wantSeq)
			case (ih != nil) != wantInit:
				bad = fmt.Sprintf("initial state attached = %v, the status requires %v", ih != nil, wantInit)
			case ih != nil && !bytes.Equal(ih, rown):
				bad = "the attached initial state is not the wallet's own"
			}
			if bad != "" {
				c.Fail("c15.send", inH, "c15-grid-reuse", fmt.Sprintf("v%d: one wallet object over the accounts %v: %s", int(ver), trail, bad))
				break
			}
		}
		c.Note("c15.send", "grid-reuse", sx.L(sx.Nat(int(ver)), sx.Nat(steps)))
	}
}
