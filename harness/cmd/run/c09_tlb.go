package main

// C09, TL-B half: random TL-B schemas inside the subset tlb/parser supports (and
// an exploratory stream outside it), together with the *meaning* of each
// declared type as a term of coq/Spec/TlbSchema.v (written here from the TL-B
// documentation: it never looks at what tlb/parser does with the text).
//
// The subset, as read from tlb/parser/generator.go and tlb/integers.go:
//   - type names are Go identifiers fixed by utils.ToCamelCase (a reference is
//     camel-cased, the definition is not), declared before use, no parameters;
//   - uintN / intN / (## n) for 1 <= n <= 64 and uint128 uint256 uint257 int128 int256 int257,
//     bitsN for N in {80,96,128,256,264,320,352,512}, Bool, (VarUInteger n) 1 <= n <= 32,
//     Coins / Grams, MsgAddress, Cell in tail position, ^Cell;
//   - (Maybe T), (Maybe ^T), (Either T ^T), (Either T U), ^T, ^[ fields ], (HashmapE n T), (HashmapE n ^T)
//     where T, U carry no tag of their own (the generator keeps one tag per field);
//   - one constructor: optional #hex / $bin prefix (becomes a Magic field) or the explicit empty
//     prefix #_ / $_; several constructors: prefix-free #/$ prefixes;
//   - every form of field definition of the grammar (lexer.go): name:T and _:T; unnamed ^T and
//     ^[ ... ] (Go field Field<i>; the only place the ^ tag of such a field is written is the
//     fallback in fieldDefinitionsToStruct), nested; one unnamed paren expression without a tag
//     of its own (Go field Value); one unnamed declared type per type (Go field named like the
//     type); inline name:[ ... ]; implicit {n:#} {X:Type} and constraints { f <= c } (not
//     serialised); the builtin # (uint32), True, MsgAddressInt, CurrencyCollection;
//   - every value fits a cell (1023 bits, 4 references): the schema semantics
//     has no capacity, the codec has.

import (
	"fmt"
	"strings"

	"github.com/tonkeeper/tongo/utils"

	"verifharness/prng"
	"verifharness/sx"
)

type bT struct {
	k      string // uint int nn bits bool var coins addr cell refcell maybe mayberef either eitherref ref refanon dict named
	n      int
	a, b   *bT
	fields []bF
	name   string
}

// one entry of a field list, in one of the forms of tlb/parser's FieldDefinition:
//
//	name:T  (NamedField; name may be "_")        unnamed ^T / ^[ ... ] (CellRef)
//	unnamed ( ... )  (the paren form: Go field Value)   unnamed declared type name (TypeRef)
//	{ ... }  (Implicit: not serialised, t == nil)
type bF struct {
	name     string
	t        *bT
	unnamed  bool
	implicit string
}

func nf(name string, t *bT) bF { return bF{name: name, t: t} }

type bC struct {
	name   string
	prefix string // "" or #hex or $bin
	tagLen int
	tagVal uint64
	fields []bF
}

type bD struct {
	name  string
	tail  bool // some constructor ends with an inline Cell: only referenced behind ^
	ctors []bC
	// mode 2 (abi message bodies): generated alone with typePrefix=goName and skipMagic
	msg    bool
	goName string
	// text of the result type when it differs from the Go name (`= Foo 5` is generated as Foo5)
	resText string
}

type tlbSchema struct {
	decls   []*bD
	explore string
	// exploratory programs carry raw text after the declarations; exp is what the
	// harness reads ExpType as (nil: no reading is offered)
	raw string
	exp *bD
	// order of the constructor lines of the non-message declarations: (declaration, constructor); nil = as declared
	order [][2]int
}

func (t *bT) text() string {
	switch t.k {
	case "uint":
		return fmt.Sprintf("uint%d", t.n)
	case "int":
		return fmt.Sprintf("int%d", t.n)
	case "nn":
		return fmt.Sprintf("(## %d)", t.n)
	case "bits":
		return fmt.Sprintf("bits%d", t.n)
	case "bool":
		return "Bool"
	case "var":
		return fmt.Sprintf("(VarUInteger %d)", t.n)
	case "coins":
		if t.n == 1 {
			return "Grams"
		}
		return "Coins"
	case "addr":
		return "MsgAddress"
	case "addrint":
		return "MsgAddressInt"
	case "nat32":
		return "#"
	case "true":
		return "True"
	case "cc":
		return "CurrencyCollection"
	case "anon":
		return "[ " + fieldsText(t.fields) + " ]"
	case "cell":
		return "Cell"
	case "refcell":
		return "^Cell"
	case "maybe":
		return "(Maybe " + t.a.text() + ")"
	case "mayberef":
		return "(Maybe ^" + t.a.text() + ")"
	case "either":
		return "(Either " + t.a.text() + " " + t.b.text() + ")"
	case "eitherref":
		return "(Either " + t.a.text() + " ^" + t.a.text() + ")"
	case "ref":
		return "^" + t.a.text()
	case "refanon":
		return "^[ " + fieldsText(t.fields) + " ]"
	case "dict":
		return fmt.Sprintf("(HashmapE %d %s)", t.n, t.a.text())
	case "hm": // the non-empty dictionary (c09_r8.go: only its Go shape is checked, it has no inline model)
		return fmt.Sprintf("(Hashmap %d %s)", t.n, t.a.text())
	case "named":
		return t.name
	}
	return "?"
}

func fieldsText(fs []bF) string {
	var parts []string
	for _, f := range fs {
		switch {
		case f.implicit != "":
			parts = append(parts, f.implicit)
		case f.unnamed:
			parts = append(parts, f.t.text())
		default:
			parts = append(parts, f.name+":"+f.t.text())
		}
	}
	return strings.Join(parts, " ")
}

func (c *bC) text(res string) string {
	s := c.name + c.prefix
	if len(c.fields) > 0 {
		s += " " + fieldsText(c.fields)
	}
	return s + " = " + res + ";"
}

func (d *bD) res() string {
	if d.resText != "" {
		return d.resText
	}
	return d.name
}

func (d *bD) text() string {
	var lines []string
	for i := range d.ctors {
		lines = append(lines, d.ctors[i].text(d.res()))
	}
	return strings.Join(lines, "\n")
}

func (s *tlbSchema) text() string {
	var parts []string
	if s.order != nil {
		// constructors of different types interleaved (tlb/parser collects a type's constructors
		// from the whole file; Go resolves the type names whatever the order)
		for _, o := range s.order {
			d := s.decls[o[0]]
			parts = append(parts, d.ctors[o[1]].text(d.res()))
		}
	}
	for _, d := range s.decls {
		if s.order != nil && !d.msg {
			continue
		}
		p := d.text()
		if d.msg {
			p = "// message body, generated alone as " + d.goName + " with skipMagic\n" + p
		}
		parts = append(parts, p)
	}
	if s.raw != "" {
		parts = append(parts, s.raw)
	}
	return strings.Join(parts, "\n") + "\n"
}

func (s *tlbSchema) find(name string) *bD {
	for _, d := range s.decls {
		if d.name == name {
			return d
		}
	}
	return nil
}

// ---------------------------------------------------------------- meaning (Spec/TlbSchema.v)

type bSpec struct {
	coq string
	sx  sx.V
}

func spec1(name string, args ...any) bSpec {
	var cs []string
	vs := []sx.V{sx.A(strings.ToLower(name[1:]))}
	for _, a := range args {
		switch x := a.(type) {
		case int:
			cs = append(cs, fmt.Sprint(x))
			vs = append(vs, sx.Nat(x))
		case uint64:
			cs = append(cs, fmt.Sprintf("%d%%N", x))
			vs = append(vs, sx.N(x))
		case bSpec:
			cs = append(cs, "("+x.coq+")")
			vs = append(vs, x.sx)
		}
	}
	if len(cs) == 0 {
		return bSpec{name, sx.L(vs...)}
	}
	return bSpec{name + " " + strings.Join(cs, " "), sx.L(vs...)}
}

func specSeq(items []bSpec) bSpec {
	var cs []string
	vs := []sx.V{sx.A("seq")}
	for _, i := range items {
		cs = append(cs, i.coq)
		vs = append(vs, i.sx)
	}
	return bSpec{"SSeq [" + strings.Join(cs, "; ") + "]", sx.L(vs...)}
}

func (s *tlbSchema) specOf(t *bT) bSpec {
	switch t.k {
	case "uint", "nn":
		return spec1("SUint", t.n)
	case "int":
		return spec1("SInt", t.n)
	case "bits":
		return spec1("SBits", t.n)
	case "bool":
		return spec1("SBool")
	case "var":
		return spec1("SVar", t.n)
	case "coins":
		return spec1("SVar", 16)
	case "addr", "addrint":
		return spec1("SAddr")
	case "nat32":
		return spec1("SUint", 32)
	case "true":
		return specSeq(nil)
	case "cc": // currencies$_ grams:Grams other:ExtraCurrencyCollection; extra_currencies$_ dict:(HashmapE 32 (VarUInteger 32))
		return specSeq([]bSpec{spec1("SVar", 16), specSeq([]bSpec{{"SDictE 32", sx.L(sx.A("dicte"), sx.Nat(32))}})})
	case "anon":
		return s.specFields(t.fields)
	case "cell":
		return spec1("SAny")
	case "refcell":
		return spec1("SRef", spec1("SAny"))
	case "maybe":
		return spec1("SMaybe", s.specOf(t.a))
	case "mayberef":
		return spec1("SMaybe", spec1("SRef", s.specOf(t.a)))
	case "either":
		return spec1("SEither", s.specOf(t.a), s.specOf(t.b))
	case "eitherref":
		return spec1("SEither", s.specOf(t.a), spec1("SRef", s.specOf(t.a)))
	case "ref":
		return spec1("SRef", s.specOf(t.a))
	case "refanon":
		return spec1("SRef", s.specFields(t.fields))
	case "dict":
		return bSpec{fmt.Sprintf("SDictE %d", t.n), sx.L(sx.A("dicte"), sx.Nat(t.n))}
	case "named":
		return s.specDecl(s.find(t.name))
	}
	return bSpec{"SBAD", sx.A("bad")}
}

func (s *tlbSchema) specFields(fs []bF) bSpec {
	var items []bSpec
	for _, f := range fs {
		if f.t != nil {
			items = append(items, s.specOf(f.t))
		}
	}
	return specSeq(items)
}

func (s *tlbSchema) specDecl(d *bD) bSpec {
	if len(d.ctors) == 1 {
		c := &d.ctors[0]
		var items []bSpec
		if c.prefix != "" && c.prefix != "#_" && c.prefix != "$_" && !d.msg {
			items = append(items, bSpec{fmt.Sprintf("STag %d %d%%N", c.tagLen, c.tagVal), sx.L(sx.A("tag"), sx.Nat(c.tagLen), sx.N(c.tagVal))})
		}
		for _, f := range c.fields {
			if f.t != nil {
				items = append(items, s.specOf(f.t))
			}
		}
		return specSeq(items)
	}
	var cs []string
	vs := []sx.V{sx.A("alt")}
	for i := range d.ctors {
		c := &d.ctors[i]
		body := s.specFields(c.fields)
		cs = append(cs, fmt.Sprintf("(%d%%nat, %d%%N, %s)", c.tagLen, c.tagVal, body.coq))
		vs = append(vs, sx.L(sx.Nat(c.tagLen), sx.N(c.tagVal), body.sx))
	}
	return bSpec{"SAlt [" + strings.Join(cs, "; ") + "]", sx.L(vs...)}
}

// ---------------------------------------------------------------- sizes

type bSize struct{ bits, refs int }

func (s *tlbSchema) sizeOf(t *bT) bSize {
	switch t.k {
	case "uint", "int", "nn", "bits":
		return bSize{t.n, 0}
	case "bool":
		return bSize{1, 0}
	case "var":
		w := 0
		for x := t.n - 1; x > 0; x >>= 1 {
			w++
		}
		return bSize{w + 8*(t.n-1), 0}
	case "coins":
		return bSize{124, 0}
	case "addr", "addrint":
		return bSize{600, 0}
	case "nat32":
		return bSize{32, 0}
	case "true":
		return bSize{0, 0}
	case "cc":
		return bSize{125, 1}
	case "anon":
		return s.sizeFields(t.fields)
	case "cell":
		return bSize{40, 2}
	case "refcell", "ref", "refanon":
		return bSize{0, 1}
	case "maybe":
		x := s.sizeOf(t.a)
		return bSize{1 + x.bits, x.refs}
	case "mayberef", "dict":
		return bSize{1, 1}
	case "either":
		x, y := s.sizeOf(t.a), s.sizeOf(t.b)
		return bSize{1 + maxInt(x.bits, y.bits), maxInt(x.refs, y.refs)}
	case "eitherref":
		x := s.sizeOf(t.a)
		return bSize{1 + x.bits, maxInt(x.refs, 1)}
	case "named":
		return s.sizeDecl(s.find(t.name))
	}
	return bSize{2000, 9}
}

func maxInt(a, b int) int {
	if a > b {
		return a
	}
	return b
}

func (s *tlbSchema) sizeFields(fs []bF) bSize {
	var z bSize
	for _, f := range fs {
		if f.t == nil {
			continue
		}
		x := s.sizeOf(f.t)
		z.bits += x.bits
		z.refs += x.refs
	}
	return z
}

func (s *tlbSchema) sizeDecl(d *bD) bSize {
	var z bSize
	for i := range d.ctors {
		x := s.sizeFields(d.ctors[i].fields)
		x.bits += d.ctors[i].tagLen
		z.bits, z.refs = maxInt(z.bits, x.bits), maxInt(z.refs, x.refs)
	}
	return z
}

// ---------------------------------------------------------------- generator

var c09TypeWords = []string{"Transfer", "Notify", "Order", "Wallet", "Item", "Config", "Payload", "Auction", "Stake", "Vote",
	"Proof", "Entry", "Royalty", "Content", "Params", "Pool", "Swap", "Route", "Step", "Asset"}
var c09TlbFields = []string{"query_id", "amount", "destination", "response_destination", "custom_payload", "forward_ton_amount",
	"forward_payload", "owner", "index", "content", "royalty", "x", "y1", "a_b", "seqno", "valid_until", "flags", "value",
	"key", "next", "items", "op", "mode", "body", "extra", "limit", "price", "deadline", "k2v"}
var c09CtorWords = []string{"transfer", "internal_transfer", "burn", "excesses", "none", "some", "left_case", "v1", "v2",
	"simple", "full", "cancel", "accept", "reject", "init", "top_up", "a", "b2", "deploy", "change_owner"}
var c09BitsSizes = []int{80, 96, 128, 256, 264, 320, 352, 512}
var c09BigInts = []int{128, 256, 257}

type tlbGen struct {
	r     *prng.R
	s     *tlbSchema
	seq   int
	names map[string]bool
}

func (g *tlbGen) width() int {
	switch g.r.Intn(6) {
	case 0:
		return []int{1, 7, 8, 9, 15, 16, 17, 31, 32, 33, 56, 57, 63, 64}[g.r.Intn(14)]
	case 1:
		return []int{8, 16, 32, 64}[g.r.Intn(4)]
	}
	return 1 + g.r.Intn(64)
}

// plain: a type expression that carries no tag of its own (may sit under Maybe / Either / ^ / HashmapE)
func (g *tlbGen) plain(depth int) *bT {
	for {
		switch k := g.r.Intn(16); {
		case k == 0:
			return &bT{k: "uint", n: g.width()}
		case k == 1:
			return &bT{k: "int", n: g.width()}
		case k == 2:
			return &bT{k: "nn", n: g.width()}
		case k == 3:
			return &bT{k: "bits", n: c09BitsSizes[g.r.Intn(len(c09BitsSizes))]}
		case k == 4:
			return &bT{k: "bool"}
		case k == 5:
			n := 1 + g.r.Intn(32)
			if g.r.Chance(40) {
				n = []int{3, 7, 16, 32}[g.r.Intn(4)]
			}
			return &bT{k: "var", n: n}
		case k == 6:
			return &bT{k: "coins", n: g.r.Intn(2)}
		case k == 7:
			switch g.r.Intn(8) {
			case 0:
				return &bT{k: "addrint"}
			case 1:
				return &bT{k: "nat32"}
			case 2:
				return &bT{k: "cc"}
			case 3:
				return &bT{k: "true"}
			}
			return &bT{k: "addr"}
		case k == 8:
			if g.r.Bool() {
				return &bT{k: "uint", n: c09BigInts[g.r.Intn(3)]}
			}
			return &bT{k: "int", n: c09BigInts[g.r.Intn(3)]}
		case k == 9 && depth < 2:
			return g.either(depth)
		case k == 10 && depth < 2:
			v := g.plain(depth + 1)
			if g.r.Chance(30) && g.fitsCell(v) {
				v = &bT{k: "ref", a: v}
			}
			n := g.width()
			if g.r.Chance(20) {
				n = c09BitsSizes[g.r.Intn(len(c09BitsSizes))]
			}
			return &bT{k: "dict", n: n, a: v}
		case k >= 11:
			if len(g.s.decls) > 0 {
				d := g.s.decls[g.r.Intn(len(g.s.decls))]
				if !d.msg && !d.tail {
					return &bT{k: "named", name: d.name}
				}
			}
		}
	}
}

func (g *tlbGen) fitsCell(t *bT) bool {
	z := g.s.sizeOf(t)
	return z.bits <= 1023 && z.refs <= 4
}

// field type: a plain type or one tagged form
func (g *tlbGen) fieldTy(last bool) *bT {
	for {
		switch k := g.r.Intn(12); {
		case k == 0:
			return &bT{k: "maybe", a: g.plain(0)}
		case k == 1:
			if a := g.plain(0); g.fitsCell(a) {
				return &bT{k: "mayberef", a: a}
			}
		case k == 2:
			if a := g.plain(0); g.fitsCell(a) {
				return &bT{k: "eitherref", a: a}
			}
		case k == 3:
			if len(g.s.decls) > 0 && g.r.Chance(30) {
				if d := g.s.decls[g.r.Intn(len(g.s.decls))]; !d.msg {
					return &bT{k: "ref", a: &bT{k: "named", name: d.name}}
				}
			}
			if a := g.plain(0); g.fitsCell(a) {
				return &bT{k: "ref", a: a}
			}
		case k == 4:
			n := 1 + g.r.Intn(4)
			var fs []bF
			used := map[string]bool{}
			for i := 0; i < n; i++ {
				fs = append(fs, nf(g.fieldName(used), g.fieldTy(i == n-1)))
			}
			if z := g.s.sizeFields(fs); z.bits <= 1023 && z.refs <= 4 {
				if g.r.Chance(20) && z.bits <= 200 && z.refs <= 1 {
					return &bT{k: "anon", fields: g.decorate(fs, used)} // name:[ ... ] inline
				}
				return &bT{k: "refanon", fields: g.decorate(fs, used)}
			}
		case k == 5:
			switch g.r.Intn(3) {
			case 0:
				return &bT{k: "refcell"}
			case 1:
				return &bT{k: "mayberef", a: &bT{k: "cell"}}
			default:
				if last {
					return &bT{k: "eitherref", a: &bT{k: "cell"}}
				}
			}
		case k == 6:
			if last {
				return &bT{k: "cell"}
			}
		default:
			return g.plain(0)
		}
	}
}

func (g *tlbGen) fieldName(used map[string]bool) string {
	for {
		w := c09TlbFields[g.r.Intn(len(c09TlbFields))]
		if g.r.Chance(12) {
			w += fmt.Sprint(g.r.Intn(50))
		}
		k := strings.ToLower(utils.ToCamelCase(w))
		if !used[k] && k != "sumtype" && k != "magic" {
			used[k] = true
			return w
		}
	}
}

// fields of a constructor within the capacity left after the tag
func (g *tlbGen) ctorFields(tagLen, max int) []bF {
	n := g.r.Intn(max + 1)
	var fs []bF
	used := map[string]bool{}
	z := bSize{tagLen, 0}
	for i := 0; i < n; i++ {
		last := i == n-1
		var t *bT
		ok := false
		for try := 0; try < 8 && !ok; try++ {
			t = g.fieldTy(last)
			x := g.s.sizeOf(t)
			ok = z.bits+x.bits <= 1023 && z.refs+x.refs <= 4
		}
		if !ok {
			break
		}
		x := g.s.sizeOf(t)
		z.bits += x.bits
		z.refs += x.refs
		name := g.fieldName(used)
		if g.r.Chance(5) {
			name = "_"
		}
		fs = append(fs, nf(name, t))
	}
	// a tail Cell must really be last
	for i := 0; i+1 < len(fs); i++ {
		if fs[i].t.k == "cell" || (fs[i].t.k == "eitherref" && fs[i].t.a.k == "cell") {
			fs[i].t = &bT{k: "bool"}
		}
	}
	return g.decorate(fs, used)
}

// decorate turns some entries of a field list into the unnamed forms the grammar
// accepts and inserts implicit fields.  Go names stay distinct: an unnamed
// reference becomes Field<i>, an unnamed paren form Value (at most one), an
// unnamed declared type is named like the type (at most one per type).
func (g *tlbGen) decorate(fs []bF, used map[string]bool) []bF {
	var out []bF
	for _, f := range fs {
		if g.r.Chance(8) {
			out = append(out, bF{implicit: []string{"{n:#}", "{X:Type}", "{m:#}"}[g.r.Intn(3)]})
		}
		if f.name != "_" && g.r.Chance(30) {
			switch f.t.k {
			case "ref", "refanon", "refcell":
				f.unnamed = true
			case "named":
				if k := strings.ToLower(f.t.name); !used[k] {
					used[k] = true
					f.unnamed = true
				}
			case "nn", "var", "either", "eitherref", "dict":
				if f.t.k == "eitherref" && f.t.a.k == "cell" {
					break
				}
				if !used["value"] {
					used["value"] = true
					f.unnamed = true
				}
			}
		}
		out = append(out, f)
		if f.t != nil && !f.unnamed && (f.t.k == "uint" || f.t.k == "nn") && f.t.n <= 32 && f.name != "_" && g.r.Chance(6) {
			out = append(out, bF{implicit: fmt.Sprintf("{ %s <= %d }", f.name, 1<<uint(f.t.n)-1)})
		}
	}
	return out
}

func (g *tlbGen) typeName() string {
	for {
		g.seq++
		n := c09TypeWords[g.r.Intn(len(c09TypeWords))]
		switch g.r.Intn(3) {
		case 0:
			n += c09TypeWords[g.r.Intn(len(c09TypeWords))]
		case 1:
			n += fmt.Sprint(g.seq)
		}
		if !g.names[n] {
			g.names[n] = true
			return n
		}
	}
}

func setTag(c *bC, hex bool, length int, val uint64) {
	c.tagLen, c.tagVal = length, val
	if hex {
		c.prefix = fmt.Sprintf("#%0*x", length/4, val)
	} else {
		c.prefix = fmt.Sprintf("$%0*b", length, val)
	}
}

func (g *tlbGen) addDecl() {
	d := &bD{name: g.typeName()}
	if g.r.Chance(60) {
		c := bC{name: c09CtorWords[g.r.Intn(len(c09CtorWords))]}
		switch g.r.Intn(6) {
		case 0:
			setTag(&c, true, 32, g.r.U64()&0xffffffff)
		case 1:
			l := 1 + g.r.Intn(6)
			setTag(&c, false, l, g.r.U64()&(1<<uint(l)-1))
		case 2:
			l := 4 * (1 + g.r.Intn(4))
			setTag(&c, true, l, g.r.U64()&(1<<uint(l)-1))
		}
		if c.prefix == "" && g.r.Chance(30) {
			c.prefix = []string{"#_", "$_"}[g.r.Intn(2)] // the explicit empty prefix
		}
		if g.r.Chance(15) {
			c.name = "_"
		}
		c.fields = g.ctorFields(c.tagLen, 7)
		d.ctors = []bC{c}
	} else {
		k := 2 + g.r.Intn(4)
		used := map[string]bool{}
		style := g.r.Intn(4)
		fixed := 1
		for 1<<uint(fixed) < k {
			fixed++
		}
		fixed += g.r.Intn(2)
		for i := 0; i < k; i++ {
			var c bC
			for {
				c.name = c09CtorWords[g.r.Intn(len(c09CtorWords))]
				if g.r.Chance(30) {
					c.name += fmt.Sprint(i)
				}
				kk := strings.ToLower(utils.ToCamelCase(c.name))
				if !used[kk] && kk != "sumtype" {
					used[kk] = true
					break
				}
			}
			switch style {
			case 0: // fixed-width binary
				setTag(&c, false, fixed, uint64(i))
			case 1: // prefix code 0, 10, 110, 111..
				if i < k-1 {
					setTag(&c, false, i+1, (1<<uint(i+1))-2)
				} else {
					setTag(&c, false, i, (1<<uint(i))-1)
				}
			case 2: // one hex digit / two hex digits
				setTag(&c, true, 8, uint64(0xa0+i))
			default: // 32-bit op codes
				for {
					v := g.r.U64() & 0xffffffff
					dup := false
					for _, o := range d.ctors {
						dup = dup || o.tagVal == v
					}
					if !dup {
						setTag(&c, true, 32, v)
						break
					}
				}
			}
			c.fields = g.ctorFields(c.tagLen, 5)
			d.ctors = append(d.ctors, c)
		}
	}
	for i := range d.ctors {
		for _, f := range d.ctors[i].fields {
			if t := f.t; t != nil && (t.k == "cell" || (t.k == "eitherref" && t.a.k == "cell")) {
				d.tail = true
			}
		}
	}
	g.s.decls = append(g.s.decls, d)
}

func (g *tlbGen) addMsg() {
	n := g.typeName()
	d := &bD{name: n, msg: true, goName: n + "MsgBody"}
	c := bC{name: strings.ToLower(n[:1]) + n[1:]}
	setTag(&c, true, 32, g.r.U64()&0xffffffff)
	c.fields = g.ctorFields(0, 7)
	d.ctors = []bC{c}
	g.s.decls = append(g.s.decls, d)
}

// genTlbSchema: `size` declared types inside the subset.
func genTlbSchema(r *prng.R, size int) *tlbSchema {
	g := &tlbGen{r: r, s: &tlbSchema{}, names: map[string]bool{}}
	nmsg := 0
	if size >= 3 {
		nmsg = g.r.Intn(size/3 + 1)
	}
	for i := 0; i < size-nmsg; i++ {
		g.addDecl()
	}
	for i := 0; i < nmsg; i++ {
		g.addMsg()
	}
	if g.r.Chance(60) {
		g.s.interleave(g.r)
	}
	return g.s
}

// interleave: a random merge of the constructor lines of all (non-message) declarations that
// keeps the constructors of one type in their order — the order of the alternatives of a union
// is the order of its constructors in the file.
func (s *tlbSchema) interleave(r *prng.R) {
	next := make([]int, len(s.decls))
	var live []int
	for i, d := range s.decls {
		if !d.msg {
			live = append(live, i)
		}
	}
	s.order = [][2]int{}
	for len(live) > 0 {
		k := r.Intn(len(live))
		i := live[k]
		s.order = append(s.order, [2]int{i, next[i]})
		next[i]++
		if next[i] == len(s.decls[i].ctors) {
			live = append(live[:k], live[k+1:]...)
		}
	}
}

// alias: another way of writing a type that tlb/parser maps to the same Go type
func (g *tlbGen) alias(t *bT) *bT {
	switch {
	case t.k == "uint" && t.n <= 64:
		return &bT{k: "nn", n: t.n}
	case t.k == "nn":
		return &bT{k: "uint", n: t.n}
	case t.k == "coins":
		return &bT{k: "coins", n: 1 - t.n}
	case t.k == "addr":
		return &bT{k: "addrint"}
	case t.k == "addrint":
		return &bT{k: "addr"}
	}
	return t
}

// either: the generator decides between tlb.Either[L,R] and tlb.EitherRef[T] by comparing the Go
// names of the two parameters and looking for a ^ on the second: all four sides that have a
// meaning are produced — different types; the same type twice without ^ (also written in two
// ways); the same type with ^ on the second (also written in two ways).
func (g *tlbGen) either(depth int) *bT {
	a := g.plain(depth + 1)
	switch g.r.Intn(5) {
	case 0:
		return &bT{k: "either", a: a, b: a}
	case 1:
		return &bT{k: "either", a: a, b: g.alias(a)}
	case 2:
		if g.fitsCell(a) {
			return &bT{k: "either", a: a, b: &bT{k: "ref", a: g.alias(a)}}
		}
	}
	return &bT{k: "either", a: a, b: g.plain(depth + 1)}
}

// genTlbExplore: a subset schema plus one declaration outside the subset; only observed.
func genTlbExplore(r *prng.R, size int) *tlbSchema {
	s := genTlbSchema(r, size)
	for _, d := range s.decls {
		d.msg = false
	}
	u := func(n int) *bT { return &bT{k: "uint", n: n} }
	one := func(fs ...bF) *bD {
		c := bC{name: "exp_a", fields: fs}
		setTag(&c, false, 1, 1)
		return &bD{name: "ExpType", ctors: []bC{c}}
	}
	type ecase struct {
		name, text string
		exp        *bD
	}
	cases := []ecase{
		{"either-with-unrelated-ref", "exp_a$1 v:(Either uint8 ^uint16) = ExpType;", one(nf("v", &bT{k: "either", a: u(8), b: &bT{k: "ref", a: u(16)}}))},
		{"maybe-inside-either", "exp_a$1 v:(Either (Maybe uint8) uint16) = ExpType;", one(nf("v", &bT{k: "either", a: &bT{k: "maybe", a: u(8)}, b: u(16)}))},
		{"maybe-inside-ref", "exp_a$1 v:^(Maybe uint8) = ExpType;", one(nf("v", &bT{k: "ref", a: &bT{k: "maybe", a: u(8)}}))},
		{"maybe-of-maybe", "exp_a$1 v:(Maybe (Maybe uint8)) = ExpType;", nil},
		{"lower-case-type-name", "exp_a$1 v:uint8 = exp_type;\nexp_b$0 w:exp_type = ExpType;", nil},
		{"underscore-in-type-name", "exp_a$1 v:uint8 = Exp_Inner;\nexp_b$0 w:Exp_Inner = ExpType;", nil},
		{"width-above-64", "exp_a$1 v:(## 65) = ExpType;", nil},
		{"bits-size-not-generated", "exp_a$1 v:bits100 = ExpType;", nil},
		{"implicit-field", "exp_a$1 {n:#} v:(## 8) = ExpType;", one(nf("v", &bT{k: "nn", n: 8}))},
		{"parametrised-combinator", "exp_a$1 v:uint8 = ExpType 5;\nexp_b$0 w:(ExpType 5) = ExpOuter;", nil},
		{"anonymous-constructors-in-sum", "_$0 v:uint8 = ExpType;\n_$1 w:uint16 = ExpType;", nil},
		{"empty-tag-in-sum", "exp_a#_ v:uint8 = ExpType;\nexp_b$1 w:uint16 = ExpType;", nil},
		{"recursive-type", "exp_a$0 = ExpType;\nexp_b$1 v:uint8 next:^ExpType = ExpType;", nil},
		{"late-declaration", "exp_a$1 v:ExpLater = ExpType;\nexp_l$0 w:uint8 = ExpLater;", nil},
		{"tail-cell-not-last", "exp_a$1 c:Cell v:uint8 = ExpType;", one(nf("c", &bT{k: "cell"}), nf("v", u(8)))},
		{"hashmap-non-e", "exp_a$1 d:(Hashmap 8 uint16) = ExpType;", nil},
		{"snake-data", "exp_a$1 d:SnakeData = ExpType;", nil},
		{"colliding-field-names", "exp_a$1 a_b:uint8 aB:uint8 = ExpType;", nil},
		{"maybe-ref-of-either", "exp_a$1 v:(Maybe ^(Either uint8 uint16)) = ExpType;", one(nf("v", &bT{k: "mayberef", a: &bT{k: "either", a: u(8), b: u(16)}}))},
		{"unnamed-paren-maybe", "exp_a$1 (Maybe uint8) = ExpType;", one(bF{t: &bT{k: "maybe", a: u(8)}, unnamed: true})},
		{"optional-field-expression", "exp_a$1 flags:# v:flags.0?uint8 = ExpType;", nil},
		{"limited-nat", "exp_a$1 v:(#<= 5) = ExpType;", nil},
		{"bare-builtin-type-name", "exp_a$1 uint8 = ExpType;", nil},
		{"either-ref-on-the-left", "exp_a$1 v:(Either ^uint8 uint8) = ExpType;", one(nf("v", &bT{k: "either", a: &bT{k: "ref", a: u(8)}, b: u(8)}))},
		{"either-ref-on-both-sides", "exp_a$1 v:(Either ^uint8 ^uint8) = ExpType;", one(nf("v", &bT{k: "either", a: &bT{k: "ref", a: u(8)}, b: &bT{k: "ref", a: u(8)}}))},
		{"hashmape-named-key-size", "exp_a$1 v:(HashmapE uint32 uint8) = ExpType;", nil},
		{"hashmape-of-maybe", "exp_a$1 v:(HashmapE 8 (Maybe uint8)) = ExpType;", nil},
	}
	c := cases[r.Intn(len(cases))]
	s.explore, s.raw, s.exp = c.name, c.text, c.exp
	return s
}

// genTlbPrims: every integer / bits / VarUInteger type tlb/parser's builtin
// generator writes into tlb/integers.go, as fields of declared types (chunks
// that fit a cell), so that every run drives each of them through a generated struct.
func genTlbPrims() *tlbSchema {
	s := &tlbSchema{}
	var all []*bT
	for n := 1; n <= 64; n++ {
		all = append(all, &bT{k: "uint", n: n}, &bT{k: "int", n: n}, &bT{k: "nn", n: n})
	}
	for _, n := range c09BigInts {
		all = append(all, &bT{k: "uint", n: n}, &bT{k: "int", n: n})
	}
	for _, n := range c09BitsSizes {
		all = append(all, &bT{k: "bits", n: n})
	}
	for n := 1; n <= 32; n++ {
		all = append(all, &bT{k: "var", n: n})
	}
	var cur []bF
	bits := 0
	flush := func() {
		if len(cur) > 0 {
			s.decls = append(s.decls, &bD{name: fmt.Sprintf("Prims%d", len(s.decls)), ctors: []bC{{name: "_", fields: cur}}})
			cur, bits = nil, 0
		}
	}
	for i, t := range all {
		z := s.sizeOf(t)
		if bits+z.bits > 1023 {
			flush()
		}
		cur = append(cur, nf(fmt.Sprintf("f%d", i), t))
		bits += z.bits
	}
	flush()
	return s
}

// genTlbForms: every form of field definition tlb/parser's grammar accepts
// (lexer.go: FieldDefinition = Implicit | NamedField | paren expression | CellRef
// | TypeRef; TypeExpression = paren | [ ... ] | ^ | builtin | number | name), once
// per run, inside the supported subset: named and "_" fields, unnamed ^T and
// ^[ ... ] (the dedust.xml form), nested anonymous references with unnamed
// entries inside, an unnamed paren expression, an unnamed declared type, an
// inline name:[ ... ], implicit {n:#} {X:Type} and a constraint, the builtin #,
// True, MsgAddressInt, CurrencyCollection, the explicit empty prefixes #_ and $_,
// unnamed entries inside the constructors of a union.
func genTlbForms() *tlbSchema {
	s := &tlbSchema{}
	u := func(n int) *bT { return &bT{k: "uint", n: n} }
	un := func(t *bT) bF { return bF{t: t, unnamed: true} }
	inner := &bT{k: "named", name: "FormInner"}
	s.decls = append(s.decls, &bD{name: "FormInner", ctors: []bC{{name: "_", fields: []bF{nf("a", u(8)), nf("b", u(16))}}}})
	deep := &bT{k: "refanon", fields: []bF{
		nf("x", u(8)),
		un(&bT{k: "refanon", fields: []bF{nf("y", u(24)), un(&bT{k: "ref", a: inner}), nf("z", &bT{k: "refanon", fields: []bF{nf("w", &bT{k: "int", n: 9})}})}}),
		un(&bT{k: "var", n: 7})}}
	a := bC{name: "forms_a", fields: []bF{
		{implicit: "{n:#}"}, {implicit: "{X:Type}"},
		nf("a", u(8)), {implicit: "{ a <= 255 }"},
		un(&bT{k: "ref", a: inner}),
		un(&bT{k: "refanon", fields: []bF{nf("b", u(16)), nf("c", u(32))}}),
		un(inner),
		un(&bT{k: "nn", n: 5}),
		nf("_", u(7)),
		nf("n2", &bT{k: "nat32"}),
		nf("inl", &bT{k: "anon", fields: []bF{nf("p", u(3)), nf("q", &bT{k: "bool"})}}),
		un(deep),
		nf("t", &bT{k: "true"}),
		nf("cc", &bT{k: "cc"}),
		nf("src", &bT{k: "addrint"})}}
	setTag(&a, true, 32, 0xc0ffee01)
	s.decls = append(s.decls, &bD{name: "FormsA", ctors: []bC{a}})
	b0 := bC{name: "fa", fields: []bF{un(&bT{k: "ref", a: inner})}}
	setTag(&b0, false, 1, 0)
	b1 := bC{name: "fb", fields: []bF{un(&bT{k: "eitherref", a: u(8)}), un(inner), un(&bT{k: "refcell"})}}
	setTag(&b1, false, 1, 1)
	s.decls = append(s.decls, &bD{name: "FormsB", ctors: []bC{b0, b1}})
	s.decls = append(s.decls, &bD{name: "FormsC", ctors: []bC{{name: "fc", prefix: "#_", fields: []bF{nf("v", u(8)), un(&bT{k: "dict", n: 16, a: &bT{k: "ref", a: inner}})}}}})
	s.decls = append(s.decls, &bD{name: "FormsD", ctors: []bC{{name: "fd", prefix: "$_", fields: []bF{un(&bT{k: "either", a: u(8), b: inner}), nf("w", &bT{k: "mayberef", a: inner})}}}})
	// Either on every side of the generator's name/tag comparison, under Maybe, nested, as a dictionary value
	e := func(x, y *bT) *bT { return &bT{k: "either", a: x, b: y} }
	rf := func(x *bT) *bT { return &bT{k: "ref", a: x} }
	nn8 := &bT{k: "nn", n: 8}
	s.decls = append(s.decls, &bD{name: "FormsE", ctors: []bC{{name: "_", fields: []bF{
		nf("e1", e(u(32), u(32))),
		nf("e2", e(inner, inner)),
		nf("e3", e(u(8), nn8)),
		nf("e4", e(nn8, rf(u(8)))),
		nf("e5", &bT{k: "maybe", a: e(u(16), u(16))}),
		nf("e6", e(e(u(8), u(8)), e(u(8), u(8)))),
		nf("e7", e(&bT{k: "coins"}, &bT{k: "coins", n: 1})),
		nf("e8", e(inner, rf(inner)))}}}})
	s.decls = append(s.decls, &bD{name: "FormsF", ctors: []bC{{name: "_", fields: []bF{
		nf("e9", &bT{k: "mayberef", a: e(u(8), u(8))}),
		nf("e10", &bT{k: "dict", n: 8, a: e(u(8), u(8))}),
		nf("e11", e(u(8), u(16))),
		nf("e12", e(e(u(8), rf(u(8))), e(u(8), rf(u(8))))),
		nf("e13", &bT{k: "refanon", fields: []bF{nf("l", e(inner, inner)), un(e(u(8), u(8)))}})}}}})
	// a numeric parameter in the result type: `= FormsP 5` is generated as FormsP5
	pc := bC{name: "fp", fields: []bF{nf("v", u(8))}}
	setTag(&pc, false, 1, 1)
	s.decls = append(s.decls, &bD{name: "FormsP5", resText: "FormsP 5", ctors: []bC{pc}})
	// the constructors of FormsB / FormsA stand apart in the file
	s.order = [][2]int{{0, 0}, {2, 0}, {1, 0}, {3, 0}, {2, 1}, {4, 0}, {5, 0}, {6, 0}, {7, 0}}
	// a message body (generated alone, skipMagic) with the dedust shape
	m := bC{name: "formsMsg", fields: []bF{nf("query_id", u(64)), un(&bT{k: "refanon", fields: []bF{nf("x", &bT{k: "coins"}), nf("y", &bT{k: "addr"})}}), nf("p", &bT{k: "refanon", fields: []bF{nf("k", u(1))}})}}
	setTag(&m, true, 32, 0x40e108d6)
	s.decls = append(s.decls, &bD{name: "FormsMsg", msg: true, goName: "FormsMsgBody", ctors: []bC{m}})
	return s
}

// ---------------------------------------------------------------- which alternatives does a value select

// walkT records, driven by the schema, the alternatives a value selects at every position
// (Maybe: absent / present, Either: left / right, union: constructor).  With v == nil it
// records every alternative the declaration offers: the set a value stream has to cover.
func (s *tlbSchema) walkT(t *bT, v *sx.V, path string, acc map[string]bool) {
	arg := func(i int) *sx.V {
		if v == nil || v.K != sx.KL || len(v.List) <= i {
			return nil
		}
		return &v.List[i]
	}
	switch t.k {
	case "maybe", "mayberef":
		if v == nil {
			acc[path+"?none"], acc[path+"?some"] = true, true
			s.walkT(t.a, nil, path+"?some/", acc)
			return
		}
		if len(v.List) < 2 {
			acc[path+"?none"] = true
			return
		}
		acc[path+"?some"] = true
		s.walkT(t.a, arg(1), path+"?some/", acc)
	case "either", "eitherref":
		b := t.b
		if t.k == "eitherref" {
			b = t.a
		}
		if v == nil {
			acc[path+"|L"], acc[path+"|R"] = true, true
			s.walkT(t.a, nil, path+"|L/", acc)
			s.walkT(b, nil, path+"|R/", acc)
			return
		}
		if len(v.List) != 3 {
			return
		}
		if v.List[1].Bool {
			acc[path+"|R"] = true
			s.walkT(b, arg(2), path+"|R/", acc)
		} else {
			acc[path+"|L"] = true
			s.walkT(t.a, arg(2), path+"|L/", acc)
		}
	case "ref":
		s.walkT(t.a, v, path, acc)
	case "refanon", "anon":
		s.walkFields(t.fields, v, 1, path, acc)
	case "named":
		if d := s.find(t.name); d != nil {
			s.walkDecl(d, v, path, acc)
		}
	}
}

// fields of a ('struct v ...) value starting at list position from
func (s *tlbSchema) walkFields(fs []bF, v *sx.V, from int, path string, acc map[string]bool) {
	j := 0
	for _, f := range fs {
		if f.t == nil {
			continue
		}
		var fv *sx.V
		if v != nil {
			if v.K != sx.KL || len(v.List) <= from+j {
				return
			}
			fv = &v.List[from+j]
		}
		s.walkT(f.t, fv, fmt.Sprintf("%s.%d", path, j), acc)
		j++
	}
}

func (s *tlbSchema) walkDecl(d *bD, v *sx.V, path string, acc map[string]bool) {
	if len(d.ctors) == 1 {
		c := &d.ctors[0]
		from := 1
		if c.prefix != "" && c.prefix != "#_" && c.prefix != "$_" && !d.msg {
			from = 2 // the Magic field
		}
		s.walkFields(c.fields, v, from, path, acc)
		return
	}
	if v == nil {
		for k := range d.ctors {
			acc[fmt.Sprintf("%s#%d", path, k)] = true
			s.walkFields(d.ctors[k].fields, nil, 1, fmt.Sprintf("%s#%d", path, k), acc)
		}
		return
	}
	if v.K != sx.KL || len(v.List) != 3 || v.List[1].K != sx.KN {
		return
	}
	k := v.List[1].I()
	if k < 0 || k >= len(d.ctors) {
		return
	}
	acc[fmt.Sprintf("%s#%d", path, k)] = true
	s.walkFields(d.ctors[k].fields, &v.List[2], 1, fmt.Sprintf("%s#%d", path, k), acc)
}
