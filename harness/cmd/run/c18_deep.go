package main

import (
	"fmt"
	"sort"
	"strings"

	"verifharness/prng"
	"verifharness/sx"
)

// combKeys: a dictionary whose deepest leaves hang below exactly `forks`
// forks: a spine of random directions P; entry i leaves the spine at fork i.
// Tails are random (short keys) or runs of one bit (long keys, so that every
// leaf fits a cell).
func combKeys(r *prng.R, width, forks int) (keys []string, vals []uint32, spine string) {
	spine = randBits(r, forks)
	if r.Chance(30) {
		spine = strings.Repeat("1", forks)
	}
	sameTail := width > 300 || r.Chance(30)
	tail := func(n int) string {
		if n <= 0 {
			return ""
		}
		if sameTail {
			return strings.Repeat(string("01"[r.Intn(2)]), n)
		}
		return randBits(r, n)
	}
	m := map[string]uint32{}
	for i := 0; i < forks; i++ {
		flip := "1"
		if spine[i] == '1' {
			flip = "0"
		}
		m[spine[:i]+flip+tail(width-i-1)] = uint32(r.U64())
	}
	m[spine+tail(width-forks)] = uint32(r.U64())
	for k := range m {
		keys = append(keys, k)
	}
	sort.Strings(keys)
	for _, k := range keys {
		vals = append(vals, m[k])
	}
	return
}

// keyAtFork returns the entry that leaves the spine at fork i (i == forks: the
// entry at the end of the spine).
func keyAtFork(keys []string, spine string, i int) string {
	for _, k := range keys {
		if i == len(spine) && strings.HasPrefix(k, spine) {
			return k
		}
		if i < len(spine) && strings.HasPrefix(k, spine[:i]) && k[i] != spine[i] {
			return k
		}
	}
	return keys[0]
}

// c18ChainDag: a tree with a spine of `depth` references; the spine child sits
// at a random reference index (0..3), the other references are small leaves.
// It returns the path of the deepest cell.
func c18ChainDag(r *prng.R, depth int) ([]Node, []int) {
	var dag []Node
	var path []int
	// spine cells first (indices 0..depth), then the side leaves

	spineSlots := make([]int, depth)
	nrefs := make([]int, depth)
	for d := 0; d < depth; d++ {
		n := 1 + r.Intn(3)
		if r.Chance(20) {
			n = 4
		}
		nrefs[d] = n
		spineSlots[d] = r.Intn(n)
		path = append(path, spineSlots[d])
	}
	for d := 0; d <= depth; d++ {
		dag = append(dag, Node{Bits: randBits(r, r.Intn(24))})
	}
	for d := 0; d < depth; d++ {
		refs := make([]int, nrefs[d])
		for s := range refs {
			if s == spineSlots[d] {
				refs[s] = d + 1
			} else {
				dag = append(dag, Node{Bits: randBits(r, 1+r.Intn(16))})
				refs[s] = len(dag) - 1
			}
		}
		dag[d].Refs = refs
	}
	return dag, path
}

// deepProgram: descend the spine keeping every cursor in a variable, then use
// cursors of several depths (older ones included): prune side children and
// spine positions around the given depths.
func deepProgram(r *prng.R, dag []Node, spine []int, marks []int) []sx.V {
	p := &progState{dag: dag, node: []int{0}, parent: []int{-1}, depth: []int{0}}
	vars := []int{0} // vars[d] = cursor at depth d of the spine
	for d := 0; d < len(spine); d++ {
		vars = append(vars, p.ref(vars[d], spine[d]))
	}
	for _, m := range marks {
		d := m
		if d > len(spine) {
			d = len(spine)
		}
		if d < 1 {
			d = 1
		}
		par := vars[d-1]
		n := p.nrefs(par)
		if n >= 2 && r.Chance(70) { // a side child of the cursor at depth d-1
			s := r.Intn(n)
			if s == spine[d-1] {
				s = (s + 1) % n
			}
			p.prune(p.ref(par, s))
		} else if d == len(spine) || r.Chance(50) {
			p.prune(vars[d])
			break // everything below is gone: deeper prunes would be invisible
		}
	}
	return p.instrs
}

func genC18Deep(c *Ctx) {
	r := c.R
	type spec struct {
		width, forks int
		model        bool
	}
	var combs []spec
	quickForks := []int{31, 32, 33, 64, 65}
	if c.Thorough() {
		quickForks = append(quickForks, 63)
	}
	for _, f := range quickForks {
		w := []int{64, 256, 264, 288}[r.Intn(4)]
		if f > 64 {
			w = []int{256, 264, 288}[r.Intn(3)]
		}
		if f == 64 && r.Bool() {
			w = 64
		}
		combs = append(combs, spec{w, f, true})
	}
	combs = append(combs, spec{[]int{256, 264, 288}[r.Intn(3)], 255 + r.Intn(2), c.Thorough()}, spec{[]int{264, 288}[r.Intn(2)], 257, c.Thorough()}, spec{1010, 990 + r.Intn(15), false})
	if c.Thorough() {
		for i := 0; i < 40; i++ {
			f := []int{30, 31, 32, 33, 34, 47, 62, 63, 64, 65, 66, 100, 127, 128, 129}[r.Intn(15)]
			w := []int{256, 264, 288}[r.Intn(3)]
			if f <= 64 && r.Bool() {
				w = 64
			}
			combs = append(combs, spec{w, f, true})
		}
		combs = append(combs, spec{256, 256, true}, spec{288, 255, true}, spec{1023 - 40, 900 + r.Intn(60), false})
	}
	// 9a. comb dictionaries: keys at forks around the marks, the deepest two,
	// a shallow one, an absent one; alone, and as one history with a
	// hand-written cursor program for a deep key
	for _, sp := range combs {
		keys, vals, spine := combKeys(r, sp.width, sp.forks)
		var dag []Node
		buildDict(&dag, keys, vals, 0, r, 0)
		src := newC18Src(dag)
		dsx := dagSx(dag)
		pick := map[string]bool{}
		for _, f := range []int{0, 30, 31, 32, 33, 63, 64, 65, sp.forks - 2, sp.forks - 1, sp.forks} {
			if f >= 0 && f <= sp.forks {
				pick[keyAtFork(keys, spine, f)] = true
			}
		}
		var probe []string
		for k := range pick {
			probe = append(probe, k)
		}
		sort.Strings(probe)
		if !c.Thorough() && sp.model {
			// the keys at forks 31..33 (or the last three forks) and the end of the spine
			probe = nil
			for _, f := range []int{minInt(32, sp.forks-1), sp.forks - 1, sp.forks} {
				probe = append(probe, keyAtFork(keys, spine, f))
			}
			if sp.forks > 40 {
				probe[0] = keyAtFork(keys, spine, 31+r.Intn(3))
			}
		}
		class := "deep-comb|forks" + c18DepthBucket(sp.forks)
		var ops []sx.V
		for _, k := range probe {
			ops = append(ops, opKey(k))
		}
		if b := []byte(probe[len(probe)-1]); true {
			b[len(b)-1] ^= 1
			if !hasKey(keys, string(b)) {
				ops = append(ops, opKey(string(b)))
			}
		}
		if instrs, ok := keyProgram(r, dag, keyAtFork(keys, spine, sp.forks)); ok {
			ops = append(ops, opProg(instrs))
		}
		in := sx.L(dsx, sx.Nat(0), sx.L(ops...))
		if sp.model {
			out := c.Emit("c18.multi", in, class+"|history")
			c18MultiOracleKind(c, "c18.multi", in, src, ops, out)
		} else {
			// too deep for the extracted model (cubic position comparisons):
			// the implementation is judged by the Go-side oracles only
			out := safeExec("c18.multi", in)
			c.Note("c18.multi", class+"|history", in)
			c18MultiOracleKind(c, "c18.multi", in, src, ops, out)
		}
	}
	// 9b. chains: cursor walks and programs at the depths
	depths := []int{31, 32, 33, 64, 65, 257, 1000}
	if c.Thorough() {
		depths = append(depths, 30, 34, 63, 66, 127, 128, 129, 255, 256, 258, 511, 512, 513, 1020)
	}
	for _, d := range depths {
		reps := c.Scale(1, 3)
		for j := 0; j < reps; j++ {
			dag, spine := c18ChainDag(r, d)
			var ops []sx.V
			// one walk per position: at the bottom, and just around 31/32/33
			ops = append(ops, opWalk([][]int{spine}))
			ops = append(ops, opWalk([][]int{spine[:minInt(len(spine), 31+r.Intn(3))]}))
			marks := []int{d, d - 1, 33, 32, 31}
			r2 := r.Intn(len(marks))
			marks[0], marks[r2] = marks[r2], marks[0]
			sort.Sort(sort.Reverse(sort.IntSlice(marks)))
			ops = append(ops, opProg(deepProgram(r, dag, spine, marks)))
			ops = append(ops, opProg(deepProgram(r, dag, spine, []int{d})))
			in := sx.L(dagSx(dag), sx.Nat(0), sx.L(ops...))
			kind := "c18.multi"
			if j == 1 {
				kind = "c18.viaboc"
			}
			class := fmt.Sprintf("deep-chain|%s|depth%s", kind, c18DepthBucket(d))
			var out sx.V
			if d > 300 && !c.Thorough() {
				out = safeExec(kind, in) // oracle-only in the quick tier (a minute of model time)
				c.Note(kind, class, in)
			} else {
				out = c.Emit(kind, in, class)
			}
			c18MultiOracleKind(c, kind, in, newC18Src(dag), ops, out)
		}
	}
}

func c18DepthBucket(d int) string {
	switch {
	case d <= 30:
		return "<=30"
	case d <= 34:
		return fmt.Sprint(d)
	case d <= 62:
		return "35-62"
	case d <= 66:
		return fmt.Sprint(d)
	case d <= 254:
		return "67-254"
	case d <= 258:
		return fmt.Sprint(d)
	case d < 900:
		return "259-899"
	}
	return "~1000"
}
