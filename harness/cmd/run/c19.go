package main

// C19: TON Connect proofs (tonconnect.Server.CheckProof and friends).
//
// Kinds
//   c19.msg        (wc addr ts domain payload)                      -> message hash (createMessage)
//   c19.conv       (address sigtext b64)                            -> (convertTonProofMessage ParseAccountID)
//   c19.payload    (secret lifetime now payload hmac)               -> CheckPayload verified?
//   c19.pubkey     exec                                             -> getWalletPubKey
//   c19.stateinit  (addr si boc lib ext)                            -> (compareStateInitWithAddress ParseStateInit)
//   c19.check      (secret ltproof ltpayload domain exec proof now hmac b64 boc lib ext verify)
//                                                                   -> CheckProof: (t key) | 'err | 'panic
//   c19.hist       (secret ltproof ltpayload domain now concurrent (call...)), call = (exec proof hmac b64 boc lib ext verify)
//                                                                   -> one c19.check result per call, all calls on ONE Server value
//                                                                      (concurrent: all calls at once from goroutines, twice);
//                                                                      the model evaluates every call alone
//   c19.genpayload (secret ltpayload other)                         -> real GeneratePayload: (wellformed, tag = HMAC under the FULL
//                                                                      secret computed here, accepted by a second server with the
//                                                                      same secret, accepted by a server with secret `other`)
//   c19.expire     (lifetime wait_ms)                               -> (CheckPayload CheckProof) of a payload from the real
//                                                                      GeneratePayload presented wait_ms after it was issued
//   c19.clock      (ltproof ltpayload dproof dpayload usegen)       -> CheckProof of an honest proof built at the
//                                                                      real clock with timestamps now+d
// The columns hmac, b64, boc, lib, ext, verify are oracle data for the model (computed here with
// crypto/hmac, encoding/base64, tongo/boc, tongo/tlb, crypto/ed25519); the implementation ignores them.
// c19.check uses only timestamps that are decades away from the real clock (the model gets the nominal
// clock c19Now); lifetime boundaries at +-1 s are exercised by c19.clock.

import (
	"context"
	"crypto/ed25519"
	"crypto/hmac"
	"crypto/sha256"
	"crypto/sha512"
	"encoding/base64"
	"encoding/binary"
	"encoding/hex"
	"fmt"
	"math/big"
	"strconv"
	"strings"
	"sync"
	"time"

	"github.com/tonkeeper/tongo/boc"
	"github.com/tonkeeper/tongo/tlb"
	"github.com/tonkeeper/tongo/ton"
	"github.com/tonkeeper/tongo/tonconnect"
	"github.com/tonkeeper/tongo/wallet"

	"verifharness/prng"
	"verifharness/sx"
)

func init() {
	execs["c19.msg"] = execC19Msg
	execs["c19.conv"] = execC19Conv
	execs["c19.payload"] = execC19Payload
	execs["c19.pubkey"] = execC19Pubkey
	execs["c19.stateinit"] = execC19StateInit
	execs["c19.check"] = execC19Check
	execs["c19.clock"] = execC19Clock
	execs["c19.hist"] = execC19Hist
	execs["c19.genpayload"] = execC19GenPayload
	execs["c19.expire"] = execC19Expire
	gens["C19"] = genC19
	gens["C19corpus"] = genC19Corpus
}

const c19Now = int64(1790000000) // nominal clock of c19.check / c19.payload (seconds)
const c19Far = int64(4102444800) // 2100-01-01: "not expired" for decades

// ---------------------------------------------------------------- fake executor

type c19Exec struct {
	code  uint32
	stack tlb.VmStack
	err   error
}

func (f c19Exec) RunSmcMethodByID(ctx context.Context, a ton.AccountID, m int, p tlb.VmStack) (uint32, tlb.VmStack, error) {
	return f.code, f.stack, f.err
}

func c19ExecFromSx(v sx.V) c19Exec {
	if v.K != sx.KL || len(v.List) != 2 {
		return c19Exec{err: fmt.Errorf("scripted executor error")}
	}
	e := c19Exec{code: uint32(v.List[0].U64())}
	for _, it := range v.List[1].List {
		switch {
		case it.K == sx.KL && len(it.List) == 2 && it.List[0].IsA("tiny"):
			e.stack = append(e.stack, tlb.VmStackValue{SumType: "VmStkTinyInt", VmStkTinyInt: it.List[1].Int.Int64()})
		case it.K == sx.KL && len(it.List) == 2 && it.List[0].IsA("int"):
			e.stack = append(e.stack, tlb.VmStackValue{SumType: "VmStkInt", VmStkInt: tlb.Int257(*it.List[1].Int)})
		case it.IsA("null"):
			e.stack = append(e.stack, tlb.VmStackValue{SumType: "VmStkNull"})
		default:
			e.stack = append(e.stack, tlb.VmStackValue{SumType: "VmStkCell", VmStkCell: tlb.Ref[boc.Cell]{Value: *boc.NewCell()}})
		}
	}
	return e
}

func c19ExecKey(code uint32, key []byte) sx.V {
	return sx.L(sx.N(uint64(code)), sx.L(sx.L(sx.A("int"), sx.BigZ(new(big.Int).SetBytes(key)))))
}

var c19ExecErr = sx.A("err")

// ---------------------------------------------------------------- small helpers

func c19Server(ex abiExecutor, secret string, ltp, ltpl int64) *tonconnect.Server {
	s, err := tonconnect.NewTonConnect(ex, secret, tonconnect.WithLifeTimeProof(ltp), tonconnect.WithLifeTimePayload(ltpl))
	if err != nil {
		panic(err)
	}
	return s
}

type abiExecutor interface {
	RunSmcMethodByID(ctx context.Context, a ton.AccountID, m int, p tlb.VmStack) (uint32, tlb.VmStack, error)
}

func c19Hmac(secret string, msg []byte) []byte {
	h := hmac.New(sha256.New, []byte(secret))
	h.Write(msg)
	return h.Sum(nil)
}

// c19Secret: the server secret is part of the quantifier: lengths around the HMAC block size
// (64 bytes for SHA-256: longer keys are hashed first, shorter ones zero-padded) and long ones
var c19SecretLens = []int{0, 1, 31, 32, 63, 64, 65, 100, 1000}

func c19Secret(r *prng.R) string {
	if r.Chance(30) {
		return string(r.Bytes(1 + r.Intn(20)))
	}
	return string(r.Bytes(c19SecretLens[r.Intn(len(c19SecretLens))]))
}

// c19Sibling returns a different secret that agrees with s on its first min(64, len-1) bytes
// (and has the same length when possible), and the truncation of s to 64 bytes
func c19Sibling(r *prng.R, s string) string {
	b := []byte(s)
	if len(b) == 0 {
		return "\x01"
	}
	i := len(b) - 1
	if len(b) > 64 && r.Bool() {
		i = 64 + r.Intn(len(b)-64)
	}
	b[i] ^= byte(1 + r.Intn(255))
	return string(b)
}

// c19MakePayload builds a payload the way GeneratePayload does, with a chosen time field.
func c19MakePayload(secret string, nonce []byte, ts int64) string {
	p := make([]byte, 16)
	copy(p, nonce)
	binary.BigEndian.PutUint64(p[8:], uint64(ts))
	return hex.EncodeToString(append(p, c19Hmac(secret, p)[:16]...))
}

func c19ProofSx(tp *tonconnect.Proof) sx.V {
	return sx.L(sx.Str(tp.Address), sx.Z(tp.Proof.Timestamp), sx.Str(tp.Proof.Domain), sx.Str(tp.Proof.Signature),
		sx.Str(tp.Proof.Payload), sx.Str(tp.Proof.StateInit))
}

func c19ProofFromSx(v sx.V) *tonconnect.Proof {
	l := v.List
	return &tonconnect.Proof{Address: string(l[0].Bytes), Proof: tonconnect.ProofData{Timestamp: l[1].Int.Int64(),
		Domain: string(l[2].Bytes), Signature: string(l[3].Bytes), Payload: string(l[4].Bytes), StateInit: string(l[5].Bytes)}}
}

// cell -> (ty bits (refs) hash), children below depth 2 are dropped (the model never looks there)
func c19CellSx(c *boc.Cell, depth int) sx.V {
	bs := c.RawBitString()
	var refs []sx.V
	if depth < 2 {
		for _, r := range c.Refs() {
			refs = append(refs, c19CellSx(r, depth+1))
		}
	} else {
		// keep the number of references: the model checks only that one exists
		for range c.Refs() {
			refs = append(refs, sx.L(sx.N(0), sx.Bits(""), sx.L(), sx.A("err")))
		}
	}
	var h sx.V = sx.A("err")
	if hb, err := c.Hash(); err == nil {
		h = sx.Bytes(hb)
	}
	return sx.L(sx.N(uint64(c.CellType())), sx.Bits(bs.BinaryString()), sx.L(refs...), h)
}

// oracle columns for a state-init text: boc, lib_ok, ext_ok
func c19BocOracle(si string) (bo, lib, ext sx.V) {
	bo, lib, ext = sx.A("err"), sx.B(false), sx.B(false)
	defer func() { recover() }()
	cells, err := boc.DeserializeBocBase64(si)
	if err != nil {
		return
	}
	var cs []sx.V
	for _, c := range cells {
		cs = append(cs, c19CellSx(c, 0))
	}
	bo = sx.L(cs...)
	if len(cells) != 1 {
		return
	}
	var st tlb.StateInit
	if tlb.Unmarshal(cells[0], &st) != nil {
		return
	}
	lib = sx.B(true)
	if !st.Code.Exists || !st.Data.Exists {
		return
	}
	hs, err := st.Code.Value.Value.HashString()
	if err != nil {
		return
	}
	ver, ok := tonconnect.VerifKnownHashes()[hs]
	if !ok {
		return
	}
	d := st.Data.Value.Value
	d.ResetCounters()
	switch ver {
	case wallet.V5Beta:
		var x wallet.DataV5Beta
		ext = sx.B(tlb.Unmarshal(&d, &x) == nil)
	case wallet.V5R1:
		var x wallet.DataV5R1
		ext = sx.B(tlb.Unmarshal(&d, &x) == nil)
	}
	return
}

func c19B64Oracle(s string) sx.V {
	b, err := base64.StdEncoding.DecodeString(s)
	if err != nil {
		return sx.A("err")
	}
	return sx.Bytes(b)
}

// c19SameKey: HMAC (RFC 2104) zero-pads keys up to the block size and hashes longer ones, so a key
// of at most 64 bytes and the same key followed by zero bytes (up to 64) are one and the same key
func c19SameKey(a, b string) bool {
	eff := func(s string) [64]byte {
		var k [64]byte
		if len(s) > 64 {
			h := sha256.Sum256([]byte(s))
			copy(k[:], h[:])
		} else {
			copy(k[:], s)
		}
		return k
	}
	return eff(a) == eff(b)
}

func c19SecretClass(s string) string {
	switch {
	case len(s) == 0:
		return "secret0"
	case len(s) < 64:
		return "secret<64"
	case len(s) == 64:
		return "secret64"
	default:
		return "secret>64"
	}
}

func c19HmacOracle(secret, payload string) sx.V {
	b, err := hex.DecodeString(payload)
	if err != nil || len(b) < 16 {
		return sx.L()
	}
	return sx.L(sx.L(sx.Bytes(b[:16]), sx.Bytes(c19Hmac(secret, b[:16]))))
}

// c19CheckCase assembles a c19.check input including all oracle columns.
func c19CheckCase(secret string, ltp, ltpl int64, domain string, ex sx.V, tp *tonconnect.Proof, extraKeys ...[]byte) sx.V {
	return c19CheckCasePolicy(secret, ltp, ltpl, sx.Str(domain), ex, tp, extraKeys...)
}

// c19DomainFunc: the checkDomain argument of CheckProof: a byte string d means StaticDomain(d);
// ('allow) ('deny) ('error) ('suffix x) are caller-written policies
func c19DomainFunc(v sx.V) func(string) (bool, error) {
	if v.K == sx.KBytes {
		return tonconnect.StaticDomain(string(v.Bytes))
	}
	switch v.List[0].Atom {
	case "allow":
		return func(string) (bool, error) { return true, nil }
	case "deny":
		return func(string) (bool, error) { return false, nil }
	case "error":
		return func(string) (bool, error) { return true, fmt.Errorf("domain registry unavailable") }
	default:
		suf := string(v.List[1].Bytes)
		return func(s string) (bool, error) { return strings.HasSuffix(s, suf), nil }
	}
}

func c19CheckCasePolicy(secret string, ltp, ltpl int64, domain sx.V, ex sx.V, tp *tonconnect.Proof, extraKeys ...[]byte) sx.V {
	bo, lib, ext := sx.V(sx.A("err")), sx.B(false), sx.B(false)
	if tp.Proof.StateInit != "" {
		bo, lib, ext = c19BocOracle(tp.Proof.StateInit)
	}
	var vt []sx.V
	if p, err := tonconnect.VerifConvert(tp); err == nil {
		msg, _ := tonconnect.VerifCreateMessage(p.WorkChain, p.Address, p.Ts, p.Domain, p.Payload)
		keys := append([][]byte{}, extraKeys...)
		srv := c19Server(c19ExecFromSx(ex), secret, ltp, ltpl)
		if k, err := srv.VerifGetWalletPubKey(context.Background(), ton.AccountID{}); err == nil {
			keys = append(keys, k)
		}
		func() {
			defer func() { recover() }()
			if k, err := tonconnect.ParseStateInit(tp.Proof.StateInit); err == nil {
				keys = append(keys, k)
			}
		}()
		seen := map[string]bool{}
		for _, k := range keys {
			if len(k) != 32 || seen[string(k)] {
				continue
			}
			seen[string(k)] = true
			vt = append(vt, sx.L(sx.Bytes(k), sx.Bytes(msg), sx.B(ed25519.Verify(k, msg, p.Signature))))
		}
	}
	return sx.L(sx.Str(secret), sx.Z(ltp), sx.Z(ltpl), domain, ex, c19ProofSx(tp), sx.Z(c19Now*1e9+500000000),
		c19HmacOracle(secret, tp.Proof.Payload), c19B64Oracle(tp.Proof.Signature), bo, lib, ext, sx.L(vt...))
}

// ---------------------------------------------------------------- execs

func execC19Msg(in sx.V) sx.V {
	l := in.List
	m, err := tonconnect.VerifCreateMessage(int32(l[0].Int.Int64()), l[1].Bytes, l[2].Int.Int64(), string(l[3].Bytes), string(l[4].Bytes))
	if err != nil {
		return sx.A("err")
	}
	return sx.Bytes(m)
}

func execC19Conv(in sx.V) sx.V {
	l := in.List
	tp := &tonconnect.Proof{Address: string(l[0].Bytes), Proof: tonconnect.ProofData{Signature: string(l[1].Bytes)}}
	var a, b sx.V = sx.A("err"), sx.A("err")
	if p, err := tonconnect.VerifConvert(tp); err == nil {
		a = sx.L(sx.Z(int64(p.WorkChain)), sx.Bytes(p.Address), sx.Bytes(p.Signature))
	}
	if !strings.Contains(tp.Address, ":") {
		// user-friendly (base64) form: outside this property (C17); CheckProof never gets here
		// because convertTonProofMessage has already failed
		b = sx.A("nocolon")
	} else if id, err := ton.ParseAccountID(tp.Address); err == nil {
		b = sx.L(sx.Z(int64(id.Workchain)), sx.Bytes(id.Address[:]))
	}
	return sx.L(a, b)
}

func execC19Payload(in sx.V) sx.V {
	l := in.List
	srv := c19Server(c19Exec{}, string(l[0].Bytes), 0, l[1].Int.Int64())
	ok, _ := srv.CheckPayload(string(l[3].Bytes))
	return sx.B(ok)
}

func execC19Pubkey(in sx.V) sx.V {
	srv := c19Server(c19ExecFromSx(in), "s", 0, 0)
	k, err := srv.VerifGetWalletPubKey(context.Background(), ton.AccountID{})
	if err != nil {
		return sx.A("err")
	}
	return sx.Bytes(k)
}

func execC19StateInit(in sx.V) sx.V {
	l := in.List
	var id ton.AccountID
	copy(id.Address[:], l[0].Bytes)
	si := string(l[1].Bytes)
	var a, b sx.V = sx.A("err"), sx.A("err")
	if ok, err := tonconnect.VerifCompareStateInit(id, si); err == nil {
		a = sx.B(ok)
	}
	if k, err := tonconnect.ParseStateInit(si); err == nil {
		b = sx.Bytes(k)
	}
	return sx.L(a, b)
}

func execC19Check(in sx.V) sx.V {
	l := in.List
	secret := string(l[0].Bytes)
	srv := c19Server(c19ExecFromSx(l[4]), secret, l[1].Int.Int64(), l[2].Int.Int64())
	tp := c19ProofFromSx(l[5])
	ok, key, err := srv.CheckProof(context.Background(), tp, srv.CheckPayload, c19DomainFunc(l[3]))
	if c19PayloadVerdictIgnored(srv, tp, c19DomainFunc(l[3]), err == nil && ok) {
		return sx.L(sx.A("payload-verdict-ignored"))
	}
	if err != nil || !ok {
		if ok || key != nil {
			return sx.L(sx.A("inconsistent-result"))
		}
		return sx.A("err")
	}
	return sx.L(sx.B(true), sx.Bytes(key))
}

// The payload check is a callback (like the domain check): an application may wrap
// Server.CheckPayload (one-time payloads, metrics) and report a refusal as (false, nil),
// the way the library's own StaticDomain does.  CheckProof must follow the boolean verdict:
// with a checker that gives CheckPayload's verdict without its error the result is the
// same as with CheckPayload itself, and a checker that refuses (with or without an error)
// never leads to an accepted proof.
func c19PayloadVerdictIgnored(srv *tonconnect.Server, tp *tonconnect.Proof, dom func(string) (bool, error), accepted bool) (bad bool) {
	defer func() {
		if r := recover(); r != nil {
			bad = true
		}
	}()
	verdictOnly := func(p string) (bool, error) { ok, _ := srv.CheckPayload(p); return ok, nil }
	ok1, _, err1 := srv.CheckProof(context.Background(), tp, verdictOnly, dom)
	if (err1 == nil && ok1) != accepted {
		return true
	}
	if accepted {
		refuse := func(string) (bool, error) { return false, nil }
		refuseErr := func(string) (bool, error) { return false, fmt.Errorf("payload already used") }
		if ok2, _, err2 := srv.CheckProof(context.Background(), tp, refuse, dom); err2 == nil && ok2 {
			return true
		}
		if ok3, _, err3 := srv.CheckProof(context.Background(), tp, refuseErr, dom); err3 == nil && ok3 {
			return true
		}
	}
	return false
}

// c19.genpayload (secret ltpayload other): the real GeneratePayload of a server with `secret`;
// -> (wellformed tag-is-HMAC-under-the-full-secret accepted-by-an-independent-server-with-the-same-secret
//     accepted-by-a-server-with-`other`)
func execC19GenPayload(in sx.V) sx.V {
	l := in.List
	secret, lt, other := string(l[0].Bytes), l[1].Int.Int64(), string(l[2].Bytes)
	a := c19Server(c19Exec{}, secret, 0, lt)
	eff := lt
	if eff == 0 {
		_, eff = a.VerifLifetimes()
	}
	t0 := time.Now()
	p, err := a.GeneratePayload()
	t1 := time.Now()
	if err != nil {
		return sx.A("err")
	}
	b, err := hex.DecodeString(p)
	wf := err == nil && len(b) == 32 && p == strings.ToLower(p) && a.GetSecret() == secret
	tag := wf && hmac.Equal(b[16:], c19Hmac(secret, b[:16])[:16])
	self, _ := c19Server(c19Exec{}, secret, 0, lt).CheckPayload(p)
	own, _ := a.CheckPayload(p)
	foreign, _ := c19Server(c19Exec{}, other, 0, lt).CheckPayload(p)
	// the time field: CheckPayload accepts until stored+lifetime seconds.  Issued at t in [t0,t1] with
	// lifetime L, a payload must stop being accepted no later than L s (+ L ns) after t1 and not
	// earlier than L-1 s after t0 (the field is truncated to whole seconds)
	notLong, notShort := false, false
	if wf {
		stored := new(big.Int).SetInt64(int64(binary.BigEndian.Uint64(b[8:16])))
		giga := big.NewInt(1000000000)
		L := big.NewInt(eff)
		until := new(big.Int).Mul(new(big.Int).Add(stored, L), giga) // ns
		life := new(big.Int).Mul(L, giga)
		hi := new(big.Int).Add(big.NewInt(t1.UnixNano()), new(big.Int).Add(life, L))
		lo := new(big.Int).Sub(new(big.Int).Add(big.NewInt(t0.UnixNano()), life), giga)
		notLong = until.Cmp(hi) <= 0
		notShort = until.Cmp(lo) > 0
	}
	return sx.L(sx.B(wf), sx.B(tag), sx.B(self && own), sx.B(foreign), sx.B(notLong), sx.B(notShort))
}

// c19.expire (lifetime wait_ms): a payload from the real GeneratePayload of a server with that payload
// lifetime, presented wait_ms later to CheckPayload and (inside a fresh honest proof) to CheckProof
// -> (payload-accepted proof-accepted).  The scenario sleeps; the generator starts all scenarios in
// background goroutines at the beginning and collects them at the end.
var c19Futures sync.Map // input text -> chan sx.V

func c19Prestart(in sx.V) {
	ch := make(chan sx.V, 1)
	c19Futures.Store(in.String(), ch)
	go func() {
		defer func() {
			if r := recover(); r != nil {
				ch <- sx.A("panic")
			}
		}()
		ch <- c19ExpireNow(in)
	}()
}

func execC19Expire(in sx.V) sx.V {
	if ch, ok := c19Futures.LoadAndDelete(in.String()); ok {
		select {
		case v := <-ch.(chan sx.V):
			return v
		case <-time.After(90 * time.Second):
			return sx.L(sx.A("harness-error"), sx.A("timeout"))
		}
	}
	return c19ExpireNow(in)
}

func c19ExpireNow(in sx.V) sx.V {
	lt, wait := in.List[0].Int.Int64(), time.Duration(in.List[1].Int.Int64())*time.Millisecond
	pub := c19ClockKey.Public().(ed25519.PublicKey)
	st, err := wallet.GenerateStateInit(pub, wallet.V4R2, nil, 0, nil)
	if err != nil {
		return sx.L(sx.A("harness-error"), sx.A("stateinit"))
	}
	id, _ := wallet.GenerateWalletAddress(pub, wallet.V4R2, nil, 0, nil)
	srv := c19Server(c19ExecFromSx(c19ExecKey(0, pub)), "expire secret", 0, lt)
	life := time.Duration(lt) * time.Second
	expectReject := wait > life
	for attempt := 0; attempt < 4; attempt++ {
		tg0 := time.Now()
		payload, err := srv.GeneratePayload()
		tg1 := time.Now()
		if err != nil {
			return sx.A("err")
		}
		time.Sleep(time.Until(tg1.Add(wait)))
		okP, _ := srv.CheckPayload(payload)
		tp, err := tonconnect.CreateSignedProof(payload, id, c19ClockKey, st, tonconnect.ProofOptions{Timestamp: time.Now(), Domain: "d"})
		if err != nil {
			return sx.A("err")
		}
		okC, _, _ := srv.CheckProof(context.Background(), tp, srv.CheckPayload, tonconnect.StaticDomain("d"))
		tc1 := time.Now()
		// the stored time is truncated to seconds: the measured age is at most 1 s above the real one
		if !expectReject && tc1.Sub(tg0)+time.Second > life {
			continue // too slow to be conclusive (machine under load): repeat
		}
		return sx.L(sx.B(okP), sx.B(okC))
	}
	return sx.L(sx.A("harness-error"), sx.A("inconclusive-timing"))
}

var c19ClockKey = ed25519.NewKeyFromSeed(sha256Sum("c19 clock key"))

func sha256Sum(s string) []byte { h := sha256.Sum256([]byte(s)); return h[:] }

func execC19Clock(in sx.V) sx.V {
	l := in.List
	ltp, ltpl, dproof, dpayload, usegen := l[0].Int.Int64(), l[1].Int.Int64(), l[2].Int.Int64(), l[3].Int.Int64(), l[4].Bool
	pub := c19ClockKey.Public().(ed25519.PublicKey)
	st, err := wallet.GenerateStateInit(pub, wallet.V4R2, nil, 0, nil)
	if err != nil {
		return sx.L(sx.A("harness-error"), sx.A("stateinit"))
	}
	id, err := wallet.GenerateWalletAddress(pub, wallet.V4R2, nil, 0, nil)
	if err != nil {
		return sx.L(sx.A("harness-error"), sx.A("address"))
	}
	ex := c19ExecFromSx(c19ExecKey(0, pub))
	srv := c19Server(ex, "clock secret", ltp, ltpl)
	for attempt := 0; attempt < 50; attempt++ {
		t0 := time.Now()
		if t0.Nanosecond() < 2000 || t0.Nanosecond() > 900000000 {
			time.Sleep(time.Duration(1000000000-t0.Nanosecond()+5000) * time.Nanosecond)
			continue
		}
		var payload string
		if usegen {
			payload, err = srv.GeneratePayload()
			if err != nil {
				return sx.A("err")
			}
		} else {
			payload = c19MakePayload("clock secret", []byte("nonce123"), t0.Unix()+dpayload)
		}
		tp, err := tonconnect.CreateSignedProof(payload, id, c19ClockKey, st, tonconnect.ProofOptions{Timestamp: time.Unix(t0.Unix()+dproof, 0), Domain: "d"})
		if err != nil {
			return sx.A("err")
		}
		ok, key, err := srv.CheckProof(context.Background(), tp, srv.CheckPayload, tonconnect.StaticDomain("d"))
		if time.Now().Unix() != t0.Unix() {
			continue // the second rolled over during the check: repeat
		}
		if err != nil || !ok {
			return sx.A("err")
		}
		if string(key) != string(pub) {
			return sx.L(sx.A("wrong-key"))
		}
		return sx.B(true)
	}
	return sx.L(sx.A("harness-error"), sx.A("clock"))
}

// ---------------------------------------------------------------- wallets and state-inits

var c19Versions = []wallet.Version{wallet.V1R1, wallet.V1R2, wallet.V1R3, wallet.V2R1, wallet.V2R2, wallet.V3R1, wallet.V3R2,
	wallet.V4R1, wallet.V4R2, wallet.V5Beta, wallet.V5R1}

type c19Wallet struct {
	ver  wallet.Version
	priv ed25519.PrivateKey
	pub  ed25519.PublicKey
	wc   int
	st   tlb.StateInit
	id   ton.AccountID
	si   string // base64 BOC of st
}

func c19NewWallet(r *prng.R, ver wallet.Version, wc int) c19Wallet {
	priv := ed25519.NewKeyFromSeed(r.Bytes(32))
	pub := priv.Public().(ed25519.PublicKey)
	var net *int32
	var sub *uint32
	if r.Bool() {
		n := int32(-239)
		if r.Bool() {
			n = -3
		}
		net = &n
	}
	if r.Bool() {
		s := uint32(r.U64())
		sub = &s
	}
	st, err := wallet.GenerateStateInit(pub, ver, net, wc, sub)
	if err != nil {
		panic(err)
	}
	id, err := wallet.GenerateWalletAddress(pub, ver, net, wc, sub)
	if err != nil {
		panic(err)
	}
	return c19Wallet{ver: ver, priv: priv, pub: pub, wc: wc, st: st, id: id, si: c19StateInitText(st)}
}

func c19StateInitText(st tlb.StateInit) string {
	c := boc.NewCell()
	if err := tlb.Marshal(c, st); err != nil {
		panic(err)
	}
	s, err := c.ToBocBase64()
	if err != nil {
		panic(err)
	}
	return s
}

func c19RefCell(c *boc.Cell) tlb.Maybe[tlb.Ref[boc.Cell]] {
	return tlb.Maybe[tlb.Ref[boc.Cell]]{Exists: true, Value: tlb.Ref[boc.Cell]{Value: *c}}
}

func c19CellOfBits(bits string, refs ...*boc.Cell) *boc.Cell {
	c := boc.NewCell()
	for _, ch := range bits {
		_ = c.WriteBit(ch == '1')
	}
	for _, r := range refs {
		_ = c.AddRef(r)
	}
	return c
}

func c19RandBits(r *prng.R, n int) string {
	var sb strings.Builder
	for i := 0; i < n; i++ {
		if r.Bool() {
			sb.WriteByte('1')
		} else {
			sb.WriteByte('0')
		}
	}
	return sb.String()
}

// address (hash) of a state-init text with exactly one root, else zero
func c19HashOfText(si string) (id ton.AccountID) {
	defer func() { recover() }()
	cells, err := boc.DeserializeBocBase64(si)
	if err == nil && len(cells) >= 1 {
		if h, err := cells[0].Hash(); err == nil {
			copy(id.Address[:], h)
		}
	}
	return
}

// BOC text of a DAG through the independent reference serialiser
func c19DagText(r *prng.R, dag []Node, roots []int) string {
	return base64.StdEncoding.EncodeToString(refSerialize(dag, roots, HeaderVariant{Crc: r.Bool(), Idx: r.Bool()}, r))
}

type c19SI struct {
	name string
	text string
}

// c19StateInitZoo: state-init texts, well-formed and not; pub is the key placed in wallet data.
func c19StateInitZoo(r *prng.R, pub []byte) []c19SI {
	var out []c19SI
	add := func(name, text string) { out = append(out, c19SI{name, text}) }
	key := c19BytesBits(pub)
	data32 := c19CellOfBits(strings.Repeat("0", 32) + key)
	data64 := c19CellOfBits(strings.Repeat("0", 32) + c19RandBits(r, 32) + key)
	codeV4 := wallet.GetCodeByVer(wallet.V4R2)
	codeV1 := wallet.GetCodeByVer(wallet.V1R3)
	codeV5 := wallet.GetCodeByVer(wallet.V5R1)
	codeV5b := wallet.GetCodeByVer(wallet.V5Beta)
	lock := wallet.GetCodeByVer(wallet.V3R2Lockup)
	hl := wallet.GetCodeByVer(wallet.HighLoadV2R2)
	// F16 family
	add("none", c19StateInitText(tlb.StateInit{}))
	add("nocode", c19StateInitText(tlb.StateInit{Data: c19RefCell(data64)}))
	add("nodata", c19StateInitText(tlb.StateInit{Code: c19RefCell(codeV4)}))
	// lockup: known hash without a data layout
	add("lockup", c19StateInitText(tlb.StateInit{Code: c19RefCell(lock), Data: c19RefCell(data64)}))
	add("highload", c19StateInitText(tlb.StateInit{Code: c19RefCell(hl), Data: c19RefCell(data64)}))
	add("unknowncode", c19StateInitText(tlb.StateInit{Code: c19RefCell(c19CellOfBits(c19RandBits(r, 80))), Data: c19RefCell(data64)}))
	add("emptycode", c19StateInitText(tlb.StateInit{Code: c19RefCell(boc.NewCell()), Data: c19RefCell(data64)}))
	// data length boundaries
	for _, n := range []int{0, 1, 287, 288, 289, 319, 320, 321} {
		d := c19CellOfBits(c19RandBits(r, n))
		add(fmt.Sprintf("v1data%d", n), c19StateInitText(tlb.StateInit{Code: c19RefCell(codeV1), Data: c19RefCell(d)}))
		add(fmt.Sprintf("v4data%d", n), c19StateInitText(tlb.StateInit{Code: c19RefCell(codeV4), Data: c19RefCell(d)}))
	}
	add("v1ok", c19StateInitText(tlb.StateInit{Code: c19RefCell(codeV1), Data: c19RefCell(data32)}))
	add("v4ok", c19StateInitText(tlb.StateInit{Code: c19RefCell(codeV4), Data: c19RefCell(data64)}))
	add("v4plugins", c19StateInitText(tlb.StateInit{Code: c19RefCell(codeV4), Data: c19RefCell(c19CellOfBits(strings.Repeat("0", 64)+key+"1", c19CellOfBits("101")))}))
	// V5: dictionary bit and dictionary
	for _, n := range []int{320, 321, 322, 368, 369, 370} {
		d := c19CellOfBits(c19RandBits(r, n))
		add(fmt.Sprintf("v5r1data%d", n), c19StateInitText(tlb.StateInit{Code: c19RefCell(codeV5), Data: c19RefCell(d)}))
		add(fmt.Sprintf("v5bdata%d", n), c19StateInitText(tlb.StateInit{Code: c19RefCell(codeV5b), Data: c19RefCell(d)}))
	}
	v5pre := "1" + strings.Repeat("0", 32) + c19RandBits(r, 32) + key
	add("v5r1nodict", c19StateInitText(tlb.StateInit{Code: c19RefCell(codeV5), Data: c19RefCell(c19CellOfBits(v5pre + "0"))}))
	add("v5r1dictnoref", c19StateInitText(tlb.StateInit{Code: c19RefCell(codeV5), Data: c19RefCell(c19CellOfBits(v5pre + "1"))}))
	add("v5r1dictbad", c19StateInitText(tlb.StateInit{Code: c19RefCell(codeV5), Data: c19RefCell(c19CellOfBits(v5pre+"1", c19CellOfBits("0")))}))
	// a valid one-entry dictionary: hml_long? use hml_same/long label of 256 bits: label "10" + len(9 bits)=256 + 256 bits, value 1 bit
	dictLeaf := c19CellOfBits("10" + "100000000" + c19RandBits(r, 256) + "1")
	add("v5r1dictok", c19StateInitText(tlb.StateInit{Code: c19RefCell(codeV5), Data: c19RefCell(c19CellOfBits(v5pre+"1", dictLeaf))}))
	v5bpre := strings.Repeat("0", 33) + c19RandBits(r, 80) + key
	add("v5bnodict", c19StateInitText(tlb.StateInit{Code: c19RefCell(codeV5b), Data: c19RefCell(c19CellOfBits(v5bpre + "0"))}))
	add("v5bdictbad", c19StateInitText(tlb.StateInit{Code: c19RefCell(codeV5b), Data: c19RefCell(c19CellOfBits(v5bpre+"1", c19CellOfBits("")))}))
	// split_depth / special present
	st := tlb.StateInit{Code: c19RefCell(codeV4), Data: c19RefCell(data64)}
	st.SplitDepth.Exists = true
	st.SplitDepth.Value = 7
	add("splitdepth", c19StateInitText(st))
	st.Special.Exists = true
	st.Special.Value = tlb.TickTock{Tick: true}
	add("special", c19StateInitText(st))
	// hand-built roots: bits of the header and references by DAG
	codeBits := strings.Repeat("1", 16)
	dataBits := strings.Repeat("0", 64) + key
	mk := func(rootBits string, nrefs int) []Node {
		dag := []Node{{Bits: rootBits}}
		for i := 0; i < nrefs; i++ {
			b := dataBits
			if i == 0 {
				b = codeBits
			}
			dag = append(dag, Node{Bits: b})
			dag[0].Refs = append(dag[0].Refs, i+1)
		}
		return dag
	}
	for _, hb := range []string{"", "0", "00", "001", "0011", "00110", "00111", "1", "100000", "1000000", "10000000110", "01", "011", "01100110", "0011" + "1"} {
		for _, nr := range []int{0, 1, 2, 3} {
			add(fmt.Sprintf("hdr%s/%d", hb, nr), c19DagText(r, mk(hb, nr), []int{0}))
		}
	}
	// library bit set with a reference that is / is not a dictionary
	add("libgarbage", c19DagText(r, mk("00111", 3), []int{0}))
	// multi-root, zero-root
	add("tworoots", c19DagText(r, mk("00110", 2), []int{0, 0}))
	add("tworoots2", c19DagText(r, mk("00110", 2), []int{0, 1}))
	add("noroots", c19DagText(r, mk("00110", 2), []int{}))
	// exotic cells: library root, pruned code/data, merkle root
	libRoot := []Node{{Special: true, Bits: byteBits(2) + c19RandBits(r, 256)}}
	add("libroot", c19DagText(r, libRoot, []int{0}))
	pruned := Node{Special: true, Mask: 1, Bits: byteBits(1, 1) + c19RandBits(r, 256) + byteBits(0, 0)}
	add("prunedcode", c19DagText(r, []Node{{Bits: "00110", Mask: 1, Refs: []int{1, 2}}, pruned, {Bits: dataBits}}, []int{0}))
	add("pruneddata", c19DagText(r, []Node{{Bits: "00110", Mask: 1, Refs: []int{1, 2}}, {Bits: codeBits}, pruned}, []int{0}))
	add("libcode", c19DagText(r, []Node{{Bits: "00110", Refs: []int{1, 2}}, libRoot[0], {Bits: dataBits}}, []int{0}))
	add("libdata", c19DagText(r, []Node{{Bits: "00110", Refs: []int{1, 2}}, {Bits: codeBits}, libRoot[0]}, []int{0}))
	// text-level garbage
	good := c19StateInitText(tlb.StateInit{Code: c19RefCell(codeV4), Data: c19RefCell(data64)})
	add("b64garbage", "!!!not base64!!!")
	add("b64random", base64.StdEncoding.EncodeToString(r.Bytes(40)))
	add("b64empty", base64.StdEncoding.EncodeToString(nil))
	add("truncated", good[:len(good)/2&^3])
	add("truncated1", good[:len(good)-4])
	add("urlsafe", strings.NewReplacer("+", "-", "/", "_").Replace(good))
	add("space", " "+good)
	add("newline", good[:8]+"\n"+good[8:])
	raw, _ := base64.StdEncoding.DecodeString(good)
	for i := 0; i < 6; i++ {
		m := append([]byte{}, raw...)
		m[r.Intn(len(m))] ^= byte(1 << r.Intn(8))
		add("bitflip", base64.StdEncoding.EncodeToString(m))
	}
	add("hexboc", hex.EncodeToString(raw))
	return out
}

func c19ZooClass(name string) string {
	if strings.HasPrefix(name, "hdr") {
		return "hdr"
	}
	return strings.TrimRight(name, "0123456789")
}

// zoo entries "<ver>data<n>" carry n random data bits instead of the key
func c19RandomData(name string) bool {
	if name == "bitflip" { // a flipped bit may land inside the key: the data then holds another key
		return true
	}
	i := strings.Index(name, "data")
	return i >= 0 && i+4 < len(name) && name[i+4] >= '0' && name[i+4] <= '9'
}

func c19BytesBits(b []byte) string {
	var sb strings.Builder
	for _, x := range b {
		fmt.Fprintf(&sb, "%08b", x)
	}
	return sb.String()
}

// ---------------------------------------------------------------- forging under the zero key

var c19L, _ = new(big.Int).SetString("7237005577332262213973186563042994240857116359379907606001950938285454250989", 10)

// c19ForgeZeroKey returns a signature on msg that ed25519.Verify accepts for the all-zero
// public key (the point (sqrt(-1), 0) of order 4): R = [a]B, S = a, valid when 4 | k.
func c19ForgeZeroKey(msg []byte) []byte {
	zero := make([]byte, 32)
	for i := 0; i < 4000; i++ {
		seed := sha256Sum(fmt.Sprintf("forge%d", i))
		priv := ed25519.NewKeyFromSeed(seed)
		h := sha512.Sum512(seed)
		a := h[:32]
		a[0] &= 248
		a[31] &= 127
		a[31] |= 64
		be := make([]byte, 32)
		for j := range a {
			be[31-j] = a[j]
		}
		s := new(big.Int).Mod(new(big.Int).SetBytes(be), c19L)
		sb := s.Bytes()
		S := make([]byte, 32)
		for j := range sb {
			S[j] = sb[len(sb)-1-j]
		}
		sig := append(append([]byte{}, priv[32:]...), S...)
		if ed25519.Verify(zero, msg, sig) {
			return sig
		}
	}
	return make([]byte, 64)
}

// ---------------------------------------------------------------- generator

func c19Domain(r *prng.R) string {
	switch r.Intn(8) {
	case 0:
		return ""
	case 1:
		return "ton-connect.github.io"
	case 2:
		return "пример.рф"
	case 3:
		return string(r.Bytes(1 + r.Intn(6)))
	case 4:
		return strings.Repeat("a", 200+r.Intn(100))
	default:
		const al = "abcdefghijklmnopqrstuvwxyz0123456789-."
		n := 3 + r.Intn(30)
		b := make([]byte, n)
		for i := range b {
			b[i] = al[r.Intn(len(al))]
		}
		return string(b)
	}
}

func c19OutClass(out sx.V) string {
	switch {
	case out.IsA("err"):
		return "rejected"
	case out.IsA("panic"):
		return "panic"
	default:
		return "accepted"
	}
}

type c19Honest struct {
	w       c19Wallet
	secret  string
	domain  string
	payload string
	tp      *tonconnect.Proof
	ex      sx.V // executor script
	viaSI   bool
}

func c19MakeHonest(r *prng.R, ver wallet.Version, viaSI bool) c19Honest {
	wcs := []int{0, 0, 0, -1, 1, 127, -128}
	w := c19NewWallet(r, ver, wcs[r.Intn(len(wcs))])
	secret := c19Secret(r)
	domain := c19Domain(r)
	payload := c19MakePayload(secret, r.Bytes(8), c19Far+int64(r.Intn(1000)))
	ts := c19Far + int64(r.Intn(100000))
	tp, err := tonconnect.CreateSignedProof(payload, w.id, w.priv, w.st, tonconnect.ProofOptions{Timestamp: time.Unix(ts, 0), Domain: domain})
	if err != nil {
		panic(err)
	}
	h := c19Honest{w: w, secret: secret, domain: domain, payload: payload, tp: tp, viaSI: viaSI}
	if viaSI {
		h.ex = c19ExecErr
	} else {
		h.ex = c19ExecKey(uint32(r.Intn(2)), w.pub)
	}
	return h
}

func (h c19Honest) clone() *tonconnect.Proof { c := *h.tp; return &c }

// expect: 0 = must be rejected, 1 = must be accepted with key `want`
func c19Emit(c *Ctx, class string, in sx.V, expectAccept bool, want []byte, key string) sx.V {
	out := c.Emit("c19.check", in, class)
	switch {
	case out.IsA("panic"):
		c.Fail("c19.check", in, key+"panic", "CheckProof panicked")
	case expectAccept && (out.IsA("err") || out.K != sx.KL || len(out.List) != 2 || string(out.List[1].Bytes) != string(want)):
		c.Fail("c19.check", in, key+"honest-rejected", "honest proof not accepted with the wallet key")
	case !expectAccept && !out.IsA("err"):
		c.Fail("c19.check", in, key+"accepted", "proof that must be rejected was accepted")
	}
	return out
}

// wall-clock scenarios: (payload lifetime s, wait ms, must the payload still be accepted)
var c19ExpireCases = []struct {
	lt, wait int64
	accept   bool
}{{1, 1300, false}, {2, 300, true}, {2, 2300, false}, {3, 1000, true}, {3, 3300, false}, {2, 3700, false}}

func genC19(c *Ctx) {
	r := c.R
	for _, e := range c19ExpireCases { // run in the background while the other cases are generated
		c19Prestart(sx.L(sx.Z(e.lt), sx.Z(e.wait)))
	}
	genC19Msg(c)
	genC19Conv(c)
	genC19Payload(c)
	genC19Pubkey(c)
	genC19StateInit(c)

	// ---- A. honest proofs for every wallet version, key from the get-method or from the state-init
	rounds := c.Scale(1, 6)
	for k := 0; k < rounds; k++ {
		for _, ver := range c19Versions {
			for _, viaSI := range []bool{false, true} {
				h := c19MakeHonest(r, ver, viaSI)
				src := "getmethod"
				if viaSI {
					src = "stateinit"
				}
				c19Emit(c, "honest|"+ver.ToString()+"|"+src, c19CheckCase(h.secret, 0, 0, h.domain, h.ex, h.tp), true, h.w.pub, "")
			}
		}
	}

	// ---- B. single-field substitutions and bit flips of a valid proof
	nB := c.Scale(6, 40)
	for k := 0; k < nB; k++ {
		ver := c19Versions[r.Intn(len(c19Versions))]
		viaSI := r.Bool()
		h := c19MakeHonest(r, ver, viaSI)
		other := c19MakeHonest(r, c19Versions[r.Intn(len(c19Versions))], viaSI)
		src := "g"
		if viaSI {
			src = "s"
		}
		em := func(name string, tp *tonconnect.Proof, domain string, ex sx.V) {
			c19Emit(c, "subst|"+name+"|"+src, c19CheckCase(h.secret, 0, 0, domain, ex, tp, h.w.pub, other.w.pub), false, nil, "")
		}
		// address: another wallet's address (executor still answers with the signer's key / other state-init)
		tp := h.clone()
		tp.Address = other.w.id.ToRaw()
		em("address-other", tp, h.domain, h.ex)
		// address: one hex digit changed
		tp = h.clone()
		pos := len(tp.Address) - 1 - r.Intn(64)
		tp.Address = tp.Address[:pos] + string("0123456789abcdef"[(strings.IndexByte("0123456789abcdef", tp.Address[pos])+1+r.Intn(15))%16]) + tp.Address[pos+1:]
		em("address-digit", tp, h.domain, h.ex)
		// address: workchain changed
		tp = h.clone()
		tp.Address = fmt.Sprintf("%d:%x", h.w.wc+1, h.w.id.Address)
		em("address-wc", tp, h.domain, h.ex)
		// address: same account written with upper-case hex is the same signed bytes -> accepted (not a substitution);
		// written without its leading zero byte (if any) it is another message
		// domain: changed in the proof, server still expects the original / expects the changed one
		tp = h.clone()
		tp.Proof.Domain = h.domain + "x"
		em("domain-proof", tp, h.domain, h.ex)
		em("domain-both", tp, h.domain+"x", h.ex)
		em("domain-server", h.clone(), h.domain+"x", h.ex)
		// timestamp
		for _, d := range []int64{1, -1, 256, 1 << 32} {
			tp = h.clone()
			tp.Proof.Timestamp += d
			em("timestamp", tp, h.domain, h.ex)
		}
		// payload: another payload issued by the same server; same payload in upper case
		tp = h.clone()
		tp.Proof.Payload = c19MakePayload(h.secret, r.Bytes(8), c19Far)
		em("payload-other", tp, h.domain, h.ex)
		tp = h.clone()
		tp.Proof.Payload = strings.ToUpper(tp.Proof.Payload)
		if tp.Proof.Payload != h.tp.Proof.Payload {
			em("payload-case", tp, h.domain, h.ex)
		}
		// payload not issued under the server's secret
		tp = h.clone()
		tp.Proof.Payload = c19MakePayload(h.secret+"x", r.Bytes(8), c19Far)
		em("payload-foreign", tp, h.domain, h.ex)
		tp = h.clone()
		tp.Proof.Payload = c19MakePayload(c19Sibling(r, h.secret), r.Bytes(8), c19Far)
		em("payload-sibling-secret", tp, h.domain, h.ex)
		if len(h.secret) > 64 {
			tp = h.clone()
			tp.Proof.Payload = c19MakePayload(h.secret[:64], r.Bytes(8), c19Far)
			em("payload-truncated-secret", tp, h.domain, h.ex)
		}
		// signature: bit flips, truncation, extension, another key's signature
		sig, _ := base64.StdEncoding.DecodeString(h.tp.Proof.Signature)
		for j := 0; j < c.Scale(4, 16); j++ {
			m := append([]byte{}, sig...)
			m[r.Intn(64)] ^= byte(1 << r.Intn(8))
			tp = h.clone()
			tp.Proof.Signature = base64.StdEncoding.EncodeToString(m)
			em("sig-bitflip", tp, h.domain, h.ex)
		}
		for _, n := range []int{0, 1, 32, 63} {
			tp = h.clone()
			tp.Proof.Signature = base64.StdEncoding.EncodeToString(sig[:n])
			em("sig-short", tp, h.domain, h.ex)
		}
		tp = h.clone()
		tp.Proof.Signature = base64.StdEncoding.EncodeToString(append(append([]byte{}, sig...), 0))
		em("sig-long", tp, h.domain, h.ex)
		// signed by another key over exactly the same fields
		p, _ := tonconnect.VerifConvert(h.tp)
		msg, _ := tonconnect.VerifCreateMessage(p.WorkChain, p.Address, p.Ts, p.Domain, p.Payload)
		tp = h.clone()
		tp.Proof.Signature = base64.StdEncoding.EncodeToString(ed25519.Sign(other.w.priv, msg))
		em("sig-otherkey", tp, h.domain, h.ex)
		// executor answers with another key
		if !viaSI {
			em("exec-otherkey", h.clone(), h.domain, c19ExecKey(0, other.w.pub))
		} else {
			// state-init of another wallet (does not hash to the address)
			tp = h.clone()
			tp.Proof.StateInit = other.w.si
			em("stateinit-other", tp, h.domain, h.ex)
			// same code, attacker's key in the data, attacker signs
			att := c19NewWallet(r, h.w.ver, h.w.wc)
			tp = h.clone()
			tp.Proof.StateInit = att.si
			tp.Proof.Signature = base64.StdEncoding.EncodeToString(ed25519.Sign(att.priv, msg))
			em("stateinit-attacker", tp, h.domain, h.ex)
			tp = h.clone()
			tp.Proof.StateInit = ""
			em("stateinit-missing", tp, h.domain, h.ex)
		}
	}

	// ---- C. scripted executor
	nC := c.Scale(2, 10)
	for k := 0; k < nC; k++ {
		h := c19MakeHonest(r, c19Versions[r.Intn(len(c19Versions))], false)
		other := c19NewWallet(r, wallet.V4R2, 0)
		keyInt := new(big.Int).SetBytes(h.w.pub)
		intEntry := func(z *big.Int) sx.V { return sx.L(sx.A("int"), sx.BigZ(z)) }
		scripts := []struct {
			name string
			ex   sx.V
			acc  int // 1 accept always, 0 reject, 2 accept iff state-init present
		}{
			{"key0", c19ExecKey(0, h.w.pub), 1},
			{"key1", c19ExecKey(1, h.w.pub), 1},
			{"negkey", sx.L(sx.N(0), sx.L(intEntry(new(big.Int).Neg(keyInt)))), 1},
			{"exit2", c19ExecKey(2, h.w.pub), 2},
			{"exit11", c19ExecKey(11, other.pub), 2},
			{"exitmax", c19ExecKey(0xffffffff, h.w.pub), 2},
			{"err", c19ExecErr, 2},
			{"empty", sx.L(sx.N(0), sx.L()), 2},
			{"two", sx.L(sx.N(0), sx.L(intEntry(keyInt), intEntry(keyInt))), 2},
			{"null", sx.L(sx.N(0), sx.L(sx.A("null"))), 2},
			{"cell", sx.L(sx.N(0), sx.L(sx.A("cell"))), 2},
			{"tiny", sx.L(sx.N(0), sx.L(sx.L(sx.A("tiny"), sx.Z(int64(r.U64()))))), 2},
			{"tiny0", sx.L(sx.N(0), sx.L(sx.L(sx.A("tiny"), sx.Z(0)))), 2},
			{"int0", sx.L(sx.N(0), sx.L(intEntry(big.NewInt(0)))), 2},
			{"int23", sx.L(sx.N(0), sx.L(intEntry(new(big.Int).SetBytes(append([]byte{0xff}, r.Bytes(22)...))))), 2},
			{"int33", sx.L(sx.N(0), sx.L(intEntry(new(big.Int).SetBytes(append([]byte{1}, h.w.pub...))))), 2},
			{"otherkey", c19ExecKey(0, other.pub), 0},
			{"int24", sx.L(sx.N(0), sx.L(intEntry(new(big.Int).SetBytes(append([]byte{0x80}, r.Bytes(23)...))))), 0},
		}
		for _, s := range scripts {
			for _, withSI := range []bool{true, false} {
				tp := h.clone()
				if !withSI {
					tp.Proof.StateInit = ""
				}
				acc := s.acc == 1 || (s.acc == 2 && withSI)
				c19Emit(c, fmt.Sprintf("exec|%s|si=%v", s.name, withSI), c19CheckCase(h.secret, 0, 0, h.domain, s.ex, tp, h.w.pub, other.pub), acc, h.w.pub, "")
			}
		}
	}

	// ---- D. malformed proofs
	nD := c.Scale(1, 4)
	for k := 0; k < nD; k++ {
		h := c19MakeHonest(r, c19Versions[r.Intn(len(c19Versions))], r.Bool())
		rej := func(name string, tp *tonconnect.Proof) {
			c19Emit(c, "malformed|"+name, c19CheckCase(h.secret, 0, 0, h.domain, h.ex, tp, h.w.pub), false, nil, "")
		}
		for _, a := range c19AddressZoo(r, h.w.id) {
			if a == h.tp.Address {
				continue
			}
			tp := h.clone()
			tp.Address = a
			// accepted only if it denotes the same signed bytes: it does not, except for hex case
			in := c19CheckCase(h.secret, 0, 0, h.domain, h.ex, tp, h.w.pub)
			same := strings.EqualFold(a, h.tp.Address) || (strings.HasPrefix(a, "+") && a[1:] == h.tp.Address) ||
				c19SameAddressBytes(a, h.tp.Address)
			if same {
				c.Emit("c19.check", in, "malformed|address-equivalent")
			} else {
				c19Emit(c, "malformed|address", in, false, nil, "")
			}
		}
		for _, s := range []string{"", "!", "AAAA", "====", h.tp.Proof.Signature[:len(h.tp.Proof.Signature)-1], h.tp.Proof.Signature + "=",
			" " + h.tp.Proof.Signature, strings.NewReplacer("+", "-", "/", "_").Replace(h.tp.Proof.Signature) + "-", h.tp.Proof.Signature + "\n"} {
			tp := h.clone()
			tp.Proof.Signature = s
			in := c19CheckCase(h.secret, 0, 0, h.domain, h.ex, tp, h.w.pub)
			if s == h.tp.Proof.Signature+"\n" {
				c.Emit("c19.check", in, "malformed|sig-newline") // base64 ignores newlines: same signature
			} else {
				c19Emit(c, "malformed|sig-text", in, false, nil, "")
			}
		}
		for _, p := range c19PayloadZoo(r, h.secret) {
			if p.ok {
				continue
			}
			tp := h.clone()
			tp.Proof.Payload = p.text
			rej("payload|"+p.name, tp)
		}
		// expired / far timestamps (the signature is made over them: only time rejects)
		for _, ts := range []int64{0, 1, -1, 1000000000, c19Now - 301, c19Now - 100000, -1 << 63, 1<<63 - 1, 1<<63 - 62135596800, -62135596801} {
			tp, err := tonconnect.CreateSignedProof(h.payload, h.w.id, h.w.priv, h.w.st, tonconnect.ProofOptions{Timestamp: time.Unix(ts, 0), Domain: h.domain})
			if err == nil {
				rej("expired", tp)
			}
		}
		for _, ts := range []int64{c19Far * 2, 1 << 40, 1 << 62, 1<<63 - 1 - 62135596800, 1<<63 - 2 - 62135596800} {
			tp, err := tonconnect.CreateSignedProof(h.payload, h.w.id, h.w.priv, h.w.st, tonconnect.ProofOptions{Timestamp: time.Unix(ts, 0), Domain: h.domain})
			if err == nil {
				c19Emit(c, "time|future", c19CheckCase(h.secret, 0, 0, h.domain, h.ex, tp, h.w.pub), true, h.w.pub, "")
			}
		}
		// configured lifetimes: negative, wrapping, huge
		for _, lt := range []int64{1, -1, -300, 9223372036, 9223372037, 18446744074, 1<<63 - 1, -1 << 63, 1 << 40} {
			c.Emit("c19.check", c19CheckCase(h.secret, lt, 0, h.domain, h.ex, h.tp, h.w.pub), "time|lifetime-proof")
			c.Emit("c19.check", c19CheckCase(h.secret, 0, lt, h.domain, h.ex, h.tp, h.w.pub), "time|lifetime-payload")
		}
		// expired payload (issued long ago) with an otherwise honest proof
		for _, pts := range []int64{0, c19Now - 301, 1 << 62, -1, 1<<63 - 1} {
			pl := c19MakePayload(h.secret, r.Bytes(8), pts)
			tp, err := tonconnect.CreateSignedProof(pl, h.w.id, h.w.priv, h.w.st, tonconnect.ProofOptions{Timestamp: time.Unix(c19Far, 0), Domain: h.domain})
			if err == nil {
				in := c19CheckCase(h.secret, 0, 0, h.domain, h.ex, tp, h.w.pub)
				if pts == 1<<62 {
					c19Emit(c, "time|payload-future", in, true, h.w.pub, "")
				} else {
					c19Emit(c, "time|payload-expired", in, false, nil, "")
				}
			}
		}
	}
	// state-init zoo: each text presented for the address it hashes to (so that the comparison passes), executor fails;
	// the signature is by `pub` whose key sits in the data where there is any
	nZ := c.Scale(1, 3)
	for k := 0; k < nZ; k++ {
		priv := ed25519.NewKeyFromSeed(r.Bytes(32))
		pub := priv.Public().(ed25519.PublicKey)
		secret := "zoo secret"
		payload := c19MakePayload(secret, r.Bytes(8), c19Far)
		for _, z := range c19StateInitZoo(r, pub) {
			id := c19HashOfText(z.text)
			tp := &tonconnect.Proof{Address: id.ToRaw(), Proof: tonconnect.ProofData{Timestamp: c19Far, Domain: "zoo", Payload: payload, StateInit: z.text}}
			p, _ := tonconnect.VerifConvert(&tonconnect.Proof{Address: tp.Address, Proof: tonconnect.ProofData{Timestamp: c19Far, Domain: "zoo", Payload: payload}})
			msg, _ := tonconnect.VerifCreateMessage(p.WorkChain, p.Address, p.Ts, p.Domain, p.Payload)
			tp.Proof.Signature = base64.StdEncoding.EncodeToString(ed25519.Sign(priv, msg))
			name := c19ZooClass(z.name)
			in := c19CheckCase(secret, 0, 0, "zoo", c19ExecErr, tp, pub)
			out := c.Emit("c19.check", in, "sizoo|"+name)
			// oracle: never a panic; accepted only with the key found in the data
			if out.IsA("panic") {
				c.Fail("c19.check", in, "stateinit-panic", "CheckProof panicked on state-init "+z.name)
			} else if !out.IsA("err") && (len(out.List) != 2 || string(out.List[1].Bytes) != string(pub)) {
				c.Fail("c19.check", in, "stateinit-wrong-key", "accepted with a key that is not the one in the data")
			}
			// the same state-init with a signature forged for the all-zero key (small-order point)
			if z.name == "lockup" || z.name == "none" || z.name == "nocode" || z.name == "nodata" || z.name == "v4ok" || z.name == "highload" {
				tp2 := *tp
				tp2.Proof.Signature = base64.StdEncoding.EncodeToString(c19ForgeZeroKey(msg))
				c19Emit(c, "sizoo-zerokey|"+z.name, c19CheckCase(secret, 0, 0, "zoo", c19ExecErr, &tp2, pub, make([]byte, 32)), false, nil, "zero-key-")
			}
		}
	}
	genC19Hist(c)
	genC19Config(c)
	genC19Derived(c)
	genC19Clock(c)
	for _, e := range c19ExpireCases {
		in := sx.L(sx.Z(e.lt), sx.Z(e.wait))
		cls := "expired"
		if e.accept {
			cls = "alive"
		}
		out := c.Emit("c19.expire", in, cls)
		if out.String() != sx.L(sx.B(e.accept), sx.B(e.accept)).String() {
			c.Fail("c19.expire", in, "payload-lifetime", fmt.Sprintf("payload with lifetime %d s presented %d ms after GeneratePayload: got %s", e.lt, e.wait, out.String()))
		}
	}
}

// server configuration as part of the quantifier: secrets of every length class with siblings that
// share the first 64 bytes / truncations / zero-paddings, through the real GeneratePayload;
// caller-written domain policies; both lifetimes set together
func genC19Config(c *Ctx) {
	r := c.R
	for rep := 0; rep < c.Scale(1, 4); rep++ {
		for _, n := range c19SecretLens {
			secret := string(r.Bytes(n))
			others := []struct{ name, s string }{{"same", secret}, {"sibling", c19Sibling(r, secret)}, {"appended", secret + "x"},
				{"zeropadded", secret + "\x00"}, {"random", string(r.Bytes(n + 1))}}
			if n > 64 {
				others = append(others, struct{ name, s string }{"trunc64", secret[:64]}, struct{ name, s string }{"prefix64+other", secret[:64] + string(r.Bytes(n-64))})
			}
			if n > 0 {
				others = append(others, struct{ name, s string }{"shorter", secret[:n-1]})
			}
			for _, o := range others {
				lt := []int64{0, 300, 3600, 9223372036}[r.Intn(4)] // larger values overflow time.Duration
				in := sx.L(sx.Str(secret), sx.Z(lt), sx.Str(o.s))
				out := c.Emit("c19.genpayload", in, "genpayload|"+o.name+"|long="+fmt.Sprint(len(secret) > 64))
				want := sx.L(sx.B(true), sx.B(true), sx.B(true), sx.B(c19SameKey(o.s, secret)), sx.B(true), sx.B(true)).String()
				if out.String() != want {
					c.Fail("c19.genpayload", in, "genpayload", "GeneratePayload/CheckPayload do not use the full secret: got "+out.String()+" want "+want+" ("+o.name+")")
				}
			}
		}
	}
	// domain policies and option combinations on honest proofs
	for rep := 0; rep < c.Scale(2, 8); rep++ {
		h := c19MakeHonest(r, c19Versions[r.Intn(len(c19Versions))], r.Bool())
		suf := h.domain
		if len(suf) > 3 {
			suf = suf[len(suf)-3:]
		}
		pols := []struct {
			name string
			p    sx.V
			acc  bool
		}{
			{"allow", sx.L(sx.A("allow")), true}, {"deny", sx.L(sx.A("deny")), false}, {"error", sx.L(sx.A("error")), false},
			{"suffix-ok", sx.L(sx.A("suffix"), sx.Str(suf)), true}, {"suffix-no", sx.L(sx.A("suffix"), sx.Str(suf+"~")), false},
		}
		for _, p := range pols {
			in := c19CheckCasePolicy(h.secret, 0, 0, p.p, h.ex, h.tp, h.w.pub)
			c19Emit(c, "policy|"+p.name, in, p.acc, h.w.pub, "")
		}
		for _, lt := range [][2]int64{{1, 1}, {300, 1 << 40}, {1 << 40, 300}, {-1, 300}, {300, -1}, {1<<63 - 1, 1<<63 - 1}} {
			c.Emit("c19.check", c19CheckCase(h.secret, lt[0], lt[1], h.domain, h.ex, h.tp, h.w.pub), "options|both-lifetimes")
		}
	}
}

func c19SameAddressBytes(a, b string) bool {
	pa, e1 := tonconnect.VerifConvert(&tonconnect.Proof{Address: a})
	pb, e2 := tonconnect.VerifConvert(&tonconnect.Proof{Address: b})
	return e1 == nil && e2 == nil && pa.WorkChain == pb.WorkChain && string(pa.Address) == string(pb.Address)
}

// ---- addresses

func c19AddressZoo(r *prng.R, id ton.AccountID) []string {
	raw := id.ToRaw()
	hx := hex.EncodeToString(id.Address[:])
	wc := fmt.Sprint(id.Workchain)
	z := []string{raw, strings.ToUpper(raw), "+" + raw, wc + ":" + hx[2:], wc + ":" + hx[1:], wc + ":" + hx + "00", wc + ":00" + hx,
		wc + ":" + hx[:62], wc + ":", ":" + hx, hx, wc + hx, wc + "::" + hx, wc + ":" + hx + ":", ":" + wc + ":" + hx, " " + raw, raw + " ",
		wc + " :" + hx, "0x0:" + hx, "0_0:" + hx, "00:" + hx, "-0:" + hx, "+-0:" + hx, "--1:" + hx, "+:" + hx, "-:" + hx,
		"2147483647:" + hx, "2147483648:" + hx, "-2147483648:" + hx, "-2147483649:" + hx, "4294967296:" + hx,
		"18446744073709551616:" + hx, "99999999999999999999999999:" + hx, "0000000000000000000000000000000001:" + hx,
		"1e1:" + hx, "٠:" + hx, wc + ":" + hx[:63] + "g", wc + ":" + hx[:62] + "0x", wc + ":" + strings.Repeat("0", 64),
		id.ToHuman(true, false), id.ToHuman(false, true), wc + ":" + id.ToHuman(true, false),
		wc + ":" + strings.Repeat("00", 31) + hx[:2], wc + ":" + hx[62:], "\x00:" + hx, wc + ":" + hx[:10] + "\x00" + hx[11:]}
	// address with leading zero bytes, written in full and shortened
	var lz ton.AccountID
	copy(lz.Address[4:], r.Bytes(28))
	z = append(z, lz.ToRaw(), "0:"+hex.EncodeToString(lz.Address[4:]), "0:"+hex.EncodeToString(lz.Address[1:]))
	return z
}

func genC19Conv(c *Ctx) {
	r := c.R
	n := c.Scale(3, 12)
	for k := 0; k < n; k++ {
		var id ton.AccountID
		copy(id.Address[:], r.Bytes(32))
		id.Workchain = []int32{0, -1, 1, 255, -2147483648, 2147483647}[r.Intn(6)]
		if r.Chance(20) {
			id.Address[0] = 0
		}
		sigs := []string{"", base64.StdEncoding.EncodeToString(r.Bytes(64)), "***", base64.StdEncoding.EncodeToString(r.Bytes(64))[:85], base64.RawStdEncoding.EncodeToString(r.Bytes(64))}
		for i, a := range c19AddressZoo(r, id) {
			s := sigs[(i+k)%len(sigs)]
			in := sx.L(sx.Str(a), sx.Str(s), c19B64Oracle(s))
			out := c.Emit("c19.conv", in, fmt.Sprintf("zoo%d", i/6))
			// oracle: if both succeed the account is the zero-padded message address and the workchains agree
			if out.K == sx.KL && len(out.List) == 2 && out.List[0].K == sx.KL && out.List[1].K == sx.KL {
				ma, aa := out.List[0].List[1].Bytes, out.List[1].List[1].Bytes
				if out.List[0].List[0].Int.Cmp(out.List[1].List[0].Int) != 0 || len(ma) > 32 || string(aa[32-len(ma):]) != string(ma) || strings.Trim(string(aa[:32-len(ma)]), "\x00") != "" {
					c.Fail("c19.conv", in, "address-mismatch", "message address and account id disagree")
				}
			}
		}
		// random strings over a small alphabet
		for j := 0; j < c.Scale(30, 300); j++ {
			const al = "0123456789abcdefABCDEFg:+-_ x"
			m := r.Intn(70)
			b := make([]byte, m)
			for i := range b {
				b[i] = al[r.Intn(len(al))]
			}
			if m > 2 && r.Bool() {
				b[r.Intn(3)] = ':'
			}
			c.Emit("c19.conv", sx.L(sx.Str(string(b)), sx.Str(""), c19B64Oracle("")), "random")
		}
	}
}

// ---- message layout

func genC19Msg(c *Ctx) {
	r := c.R
	n := c.Scale(40, 400)
	for k := 0; k < n; k++ {
		wc := []int64{0, -1, 1, 127, -128, 255, 256, -2147483648, 2147483647, int64(int32(r.U64()))}[r.Intn(10)]
		al := []int{32, 32, 32, 32, 0, 1, 31, 28}[r.Intn(8)]
		ts := []int64{0, 1, -1, c19Now, c19Far, 1<<63 - 1, -1 << 63, int64(r.U64()), 255, 256, 1 << 32}[r.Intn(11)]
		dom := c19Domain(r)
		pl := c19MakePayload("s", r.Bytes(8), c19Far)
		if r.Chance(20) {
			pl = string(r.Bytes(r.Intn(80)))
		}
		in := sx.L(sx.Z(wc), sx.Bytes(r.Bytes(al)), sx.Z(ts), sx.Str(dom), sx.Str(pl))
		out := c.Emit("c19.msg", in, fmt.Sprintf("addr%d|dom%d", al, minInt(len(dom), 100)/40))
		if out.K != sx.KBytes || len(out.Bytes) != 32 {
			c.Fail("c19.msg", in, "msg", "createMessage did not return 32 bytes")
		}
	}
	// the ambiguity of the layout for addresses of different length: (A32, d) vs (A28, d') with equal bytes
	a := make([]byte, 32)
	dom := "abc"
	dl := []byte{3, 0, 0, 0}
	full := append(append(append([]byte{}, a...), dl...), dom...)
	// same byte string read as 28-byte address, domain length = a[28:32] = 0, empty domain, then ts||payload shifted
	_ = full
	in1 := sx.L(sx.Z(0), sx.Bytes(a), sx.Z(0x0807060504030201), sx.Str(""), sx.Str("p"))
	// as 28-byte address: dl' = a[28:32]=0, domain' empty, ts' = next 8 bytes = dl(4 zero bytes: domain len 0)+first 4 of ts
	ts2 := int64(binary.LittleEndian.Uint64(append([]byte{0, 0, 0, 0}, 1, 2, 3, 4)))
	in2 := sx.L(sx.Z(0), sx.Bytes(a[:28]), sx.Z(ts2), sx.Str(""), sx.Str("\x05\x06\x07\x08p"))
	o1 := c.Emit("c19.msg", in1, "ambiguous")
	o2 := c.Emit("c19.msg", in2, "ambiguous")
	if o1.String() != o2.String() {
		c.Fail("c19.msg", in2, "ambiguity-example", "the documented layout ambiguity example does not collide (harness error)")
	}
}

// ---- payloads

type c19Payload struct {
	name string
	text string
	ok   bool
}

func c19PayloadZoo(r *prng.R, secret string) []c19Payload {
	good := c19MakePayload(secret, r.Bytes(8), c19Far)
	raw, _ := hex.DecodeString(good)
	flip := func(i int) string {
		m := append([]byte{}, raw...)
		m[i] ^= byte(1 << r.Intn(8))
		return hex.EncodeToString(m)
	}
	trunc := secret
	if len(trunc) > 64 {
		trunc = trunc[:64]
	}
	sib := c19Sibling(r, secret)
	z := []c19Payload{
		{"trunc64", c19MakePayload(trunc, r.Bytes(8), c19Far), len(secret) <= 64},
		{"good", good, true},
		{"upper", strings.ToUpper(good), true},
		{"future62", c19MakePayload(secret, r.Bytes(8), 1<<62), true},
		{"empty", "", false},
		{"odd", good[:63], false},
		{"short", good[:62], false},
		{"long", good + "00", false},
		{"long2", good + good, false},
		{"nonhex", good[:10] + "g" + good[11:], false},
		{"space", " " + good[1:], false},
		{"0x", "0x" + good[2:], false},
		{"foreign", c19MakePayload(secret+"x", r.Bytes(8), c19Far), false},
		{"sibling", c19MakePayload(sib, r.Bytes(8), c19Far), c19SameKey(sib, secret)},
		{"zeropadded", c19MakePayload(secret+"\x00", r.Bytes(8), c19Far), c19SameKey(secret+"\x00", secret)},
		{"emptysecretmac", c19MakePayload("", r.Bytes(8), c19Far), c19SameKey("", secret)},
		{"expired0", c19MakePayload(secret, r.Bytes(8), 0), false},
		{"expired-1", c19MakePayload(secret, r.Bytes(8), -1), false},
		{"expiredmin", c19MakePayload(secret, r.Bytes(8), -1<<63), false},
		{"expiredwrap", c19MakePayload(secret, r.Bytes(8), 1<<63-1), false},
		{"expired301", c19MakePayload(secret, r.Bytes(8), c19Now-301), false},
		{"flipnonce", flip(r.Intn(8)), false},
		{"fliptime", flip(8 + r.Intn(8)), false},
		{"flipmac", flip(16 + r.Intn(16)), false},
		{"random", hex.EncodeToString(r.Bytes(32)), false},
		{"zeros", strings.Repeat("0", 64), false},
	}
	return z
}

func genC19Payload(c *Ctx) {
	r := c.R
	n := c.Scale(len(c19SecretLens), 30)
	for k := 0; k < n; k++ {
		secret := string(r.Bytes(r.Intn(24)))
		if k < len(c19SecretLens) {
			secret = string(r.Bytes(c19SecretLens[k]))
		}
		for _, p := range c19PayloadZoo(r, secret) {
			for _, lt := range []int64{0, 300} {
				in := sx.L(sx.Str(secret), sx.Z(lt), sx.Z(c19Now*1e9+500000000), sx.Str(p.text), c19HmacOracle(secret, p.text))
				cls := "zoo|" + p.name
				switch p.name {
				case "good", "sibling", "zeropadded", "trunc64", "foreign":
					cls += "|" + c19SecretClass(secret)
				}
				out := c.Emit("c19.payload", in, cls)
				if out.K != sx.KB || out.Bool != p.ok {
					c.Fail("c19.payload", in, "payload", "CheckPayload verdict differs from the construction: "+p.name)
				}
			}
		}
		// lifetimes with far timestamps
		for _, lt := range []int64{1, -1, 9223372036, 9223372037, 1<<63 - 1, -1 << 63} {
			for _, ts := range []int64{0, c19Far, 1 << 62, -1 << 63} {
				pl := c19MakePayload(secret, r.Bytes(8), ts)
				c.Emit("c19.payload", sx.L(sx.Str(secret), sx.Z(lt), sx.Z(c19Now*1e9+500000000), sx.Str(pl), c19HmacOracle(secret, pl)), "lifetime")
			}
		}
	}
}

// ---- executor results

func genC19Pubkey(c *Ctx) {
	r := c.R
	n := c.Scale(40, 400)
	for k := 0; k < n; k++ {
		ln := []int{0, 1, 8, 9, 22, 23, 24, 25, 31, 32, 32, 32, 33, 34, 40}[r.Intn(15)]
		b := r.Bytes(ln)
		if ln > 0 && b[0] == 0 {
			b[0] = 1
		}
		z := new(big.Int).SetBytes(b)
		if r.Chance(25) {
			z.Neg(z)
		}
		code := []uint64{0, 0, 0, 1, 2, 11, 0xffffffff}[r.Intn(7)]
		var st []sx.V
		switch r.Intn(10) {
		case 0:
		case 1:
			st = []sx.V{sx.L(sx.A("int"), sx.BigZ(z)), sx.L(sx.A("int"), sx.BigZ(z))}
		case 2:
			st = []sx.V{sx.A("null")}
		case 3:
			st = []sx.V{sx.A("cell")}
		case 4:
			st = []sx.V{sx.L(sx.A("tiny"), sx.Z(int64(r.U64())))}
		default:
			st = []sx.V{sx.L(sx.A("int"), sx.BigZ(z))}
		}
		var in sx.V = sx.L(sx.N(code), sx.L(st...))
		if r.Chance(5) {
			in = c19ExecErr
		}
		lb := "short"
		if ln >= 24 && ln <= 32 {
			lb = "key"
		} else if ln > 32 {
			lb = "long"
		}
		out := c.Emit("c19.pubkey", in, fmt.Sprintf("%s|code%d|stack%d", lb, minInt(int(code), 2), len(st)))
		if out.K == sx.KBytes && len(out.Bytes) != 32 {
			c.Fail("c19.pubkey", in, "pubkey-length", "getWalletPubKey returned a key that is not 32 bytes")
		}
	}
}

// ---- state-init alone

func genC19StateInit(c *Ctx) {
	r := c.R
	n := c.Scale(1, 4)
	for k := 0; k < n; k++ {
		pub := r.Bytes(32)
		for _, z := range c19StateInitZoo(r, pub) {
			id := c19HashOfText(z.text)
			if r.Chance(15) {
				id.Address[r.Intn(32)] ^= 1
			}
			bo, lib, ext := c19BocOracle(z.text)
			in := sx.L(sx.Bytes(id.Address[:]), sx.Str(z.text), bo, lib, ext)
			out := c.Emit("c19.stateinit", in, c19ZooClass(z.name))
			if out.K == sx.KL && len(out.List) == 2 && out.List[1].K == sx.KBytes {
				if len(out.List[1].Bytes) != 32 {
					c.Fail("c19.stateinit", in, "stateinit-keylen", "ParseStateInit returned a key that is not 32 bytes without an error: "+z.name)
				} else if string(out.List[1].Bytes) != string(pub) && !c19RandomData(z.name) {
					c.Fail("c19.stateinit", in, "stateinit-key", "ParseStateInit returned a key that is not in the data: "+z.name)
				}
			}
		}
		for _, ver := range c19Versions {
			w := c19NewWallet(r, ver, 0)
			bo, lib, ext := c19BocOracle(w.si)
			in := sx.L(sx.Bytes(w.id.Address[:]), sx.Str(w.si), bo, lib, ext)
			out := c.Emit("c19.stateinit", in, "wallet|"+ver.ToString())
			if out.String() != sx.L(sx.B(true), sx.Bytes(w.pub)).String() {
				c.Fail("c19.stateinit", in, "stateinit-wallet", "state-init of a generated wallet not recognised: "+ver.ToString())
			}
		}
	}
}

// ---- lifetime boundaries at the real clock

func genC19Clock(c *Ctx) {
	type lt struct{ cfg, eff int64 }
	lts := []lt{{0, 300}, {1, 1}, {2, 2}, {300, 300}, {3600, 3600}}
	for _, l := range lts {
		for _, d := range []int64{-l.eff - 2, -l.eff - 1, -l.eff, -l.eff + 1, -1, 0, 1, 5, 1000000} {
			in := sx.L(sx.Z(l.cfg), sx.Z(0), sx.Z(d), sx.Z(0), sx.B(false))
			out := c.Emit("c19.clock", in, fmt.Sprintf("proof|default=%v|%s", l.cfg == 0, c19DeltaClass(d, l.eff)))
			if (d > -l.eff) != (out.String() == "t") {
				c.Fail("c19.clock", in, "clock-proof", "proof lifetime boundary")
			}
			in = sx.L(sx.Z(0), sx.Z(l.cfg), sx.Z(0), sx.Z(d), sx.B(false))
			out = c.Emit("c19.clock", in, fmt.Sprintf("payload|default=%v|%s", l.cfg == 0, c19DeltaClass(d, l.eff)))
			if (d > -l.eff) != (out.String() == "t") {
				c.Fail("c19.clock", in, "clock-payload", "payload lifetime boundary")
			}
		}
		in := sx.L(sx.Z(l.cfg), sx.Z(l.cfg), sx.Z(0), sx.Z(0), sx.B(true))
		out := c.Emit("c19.clock", in, fmt.Sprintf("generated|default=%v", l.cfg == 0))
		if out.String() != "t" {
			c.Fail("c19.clock", in, "clock-generated", "a proof over a freshly generated payload is rejected")
		}
	}
}

func c19DeltaClass(d, eff int64) string {
	switch {
	case d < -eff:
		return "older"
	case d == -eff:
		return "at"
	case d == -eff+1:
		return "at+1"
	case d <= 0:
		return "inside"
	default:
		return "future"
	}
}

// genC19Corpus emits the regression cases kept in corpus/C19 (F16: state-init without code or
// data; F22: V3R2Lockup code with a signature forged for the all-zero key; multi-root state-init).
func genC19Corpus(c *Ctx) {
	r := c.R
	priv := ed25519.NewKeyFromSeed(r.Bytes(32))
	pub := priv.Public().(ed25519.PublicKey)
	secret := "corpus secret"
	payload := c19MakePayload(secret, r.Bytes(8), c19Far)
	keep := map[string]bool{"none": true, "nocode": true, "nodata": true, "lockup": true, "tworoots": true, "noroots": true, "v4ok": true}
	for _, z := range c19StateInitZoo(r, pub) {
		if !keep[z.name] {
			continue
		}
		id := c19HashOfText(z.text)
		bo, lib, ext := c19BocOracle(z.text)
		c.Emit("c19.stateinit", sx.L(sx.Bytes(id.Address[:]), sx.Str(z.text), bo, lib, ext), "corpus|"+z.name)
		tp := &tonconnect.Proof{Address: id.ToRaw(), Proof: tonconnect.ProofData{Timestamp: c19Far, Domain: "zoo", Payload: payload, StateInit: z.text}}
		p, _ := tonconnect.VerifConvert(&tonconnect.Proof{Address: tp.Address, Proof: tonconnect.ProofData{Timestamp: c19Far, Domain: "zoo", Payload: payload}})
		msg, _ := tonconnect.VerifCreateMessage(p.WorkChain, p.Address, p.Ts, p.Domain, p.Payload)
		tp.Proof.Signature = base64.StdEncoding.EncodeToString(ed25519.Sign(priv, msg))
		c19Emit(c, "corpus|"+z.name, c19CheckCase(secret, 0, 0, "zoo", c19ExecErr, tp, pub), z.name == "v4ok", pub, "")
		tp2 := *tp
		tp2.Proof.Signature = base64.StdEncoding.EncodeToString(c19ForgeZeroKey(msg))
		c19Emit(c, "corpus-zerokey|"+z.name, c19CheckCase(secret, 0, 0, "zoo", c19ExecErr, &tp2, pub, make([]byte, 32)), false, nil, "zero-key-")
	}
	// a 2-call history on one Server: own login with state-init S, then S for a victim's address
	// (a cache of verified state-inits that is not keyed by the address accepts the second call)
	att, login := c19Login(r, wallet.V4R2, true, secret, "zoo", "")
	victim := c19NewWallet(r, wallet.V3R2, 0)
	forged := c19Forge(r, "foreign-stateinit", victim.id, att.si, att.priv, secret, "zoo", c19ExecErr)
	c19EmitHist(c, "corpus|own-login-then-victim", secret, "zoo", false, []c19Call{login, forged})
	c19EmitHist(c, "corpus|own-login-then-victim", secret, "zoo", true, []c19Call{login, forged})
	// secrets longer than the HMAC block: payloads made under a secret sharing the first 64 bytes /
	// under the 64-byte truncation must be rejected, the full secret's accepted
	long := string(r.Bytes(100))
	for _, o := range []string{long, long[:64], long[:64] + string(r.Bytes(36)), long[:99] + "\x00"} {
		pl := c19MakePayload(o, r.Bytes(8), c19Far)
		c.Emit("c19.payload", sx.L(sx.Str(long), sx.Z(0), sx.Z(c19Now*1e9+500000000), sx.Str(pl), c19HmacOracle(long, pl)), "corpus|long-secret")
		c.Emit("c19.genpayload", sx.L(sx.Str(long), sx.Z(0), sx.Str(o)), "corpus|long-secret")
	}
	// a genuine payload followed by one hex digit / a non-hex character / "0g" / a newline: not a payload
	good := c19MakePayload(secret, r.Bytes(8), c19Far)
	for _, t := range []string{"", "0", "!", "0g", "zz", "\n", "00"} {
		pl := good + t
		c.Emit("c19.payload", sx.L(sx.Str(secret), sx.Z(0), sx.Z(c19Now*1e9+500000000), sx.Str(pl), c19HmacOracle(secret, pl)), "corpus|payload-tail")
	}
	// a generated payload with lifetime 2 s presented 2.3 s later must be rejected (lifetime counted once)
	c.Emit("c19.expire", sx.L(sx.Z(2), sx.Z(2300)), "corpus|expired")
}

// ---------------------------------------------------------------- histories on one Server

// c19HistExec is the executor of a history: sequential histories set the script before each
// call, concurrent ones look the script up by account.
type c19HistExec struct {
	mu    sync.Mutex
	cur   c19Exec
	byAcc map[ton.AccountID]c19Exec
}

func (e *c19HistExec) RunSmcMethodByID(ctx context.Context, a ton.AccountID, m int, p tlb.VmStack) (uint32, tlb.VmStack, error) {
	e.mu.Lock()
	x := e.cur
	if e.byAcc != nil {
		var ok bool
		if x, ok = e.byAcc[a]; !ok {
			x = c19Exec{err: fmt.Errorf("no such account")}
		}
	}
	e.mu.Unlock()
	return x.code, x.stack, x.err
}

func execC19Hist(in sx.V) sx.V {
	l := in.List
	secret, domain, conc, calls := string(l[0].Bytes), string(l[3].Bytes), l[5].Bool, l[6].List
	ex := &c19HistExec{}
	srv := c19Server(ex, secret, l[1].Int.Int64(), l[2].Int.Int64())
	one := func(call sx.V) (out sx.V) {
		defer func() {
			if r := recover(); r != nil {
				out = sx.A("panic")
			}
		}()
		tp := c19ProofFromSx(call.List[1])
		ok, key, err := srv.CheckProof(context.Background(), tp, srv.CheckPayload, tonconnect.StaticDomain(domain))
		if err != nil || !ok {
			if ok || key != nil {
				return sx.L(sx.A("inconsistent-result"))
			}
			return sx.A("err")
		}
		return sx.L(sx.B(true), sx.Bytes(append([]byte{}, key...)))
	}
	if !conc {
		var outs []sx.V
		for _, call := range calls {
			ex.mu.Lock()
			ex.cur = c19ExecFromSx(call.List[0])
			ex.mu.Unlock()
			outs = append(outs, one(call))
		}
		return sx.L(outs...)
	}
	ex.byAcc = map[ton.AccountID]c19Exec{}
	for _, call := range calls {
		if id, err := ton.ParseAccountID(string(call.List[1].List[0].Bytes)); err == nil {
			ex.byAcc[id] = c19ExecFromSx(call.List[0])
		}
	}
	outs := make([]sx.V, 2*len(calls))
	for round := 0; round < 2; round++ {
		var wg sync.WaitGroup
		for i, call := range calls {
			wg.Add(1)
			go func(i int, call sx.V) {
				defer wg.Done()
				outs[round*len(calls)+i] = one(call)
			}(i, call)
		}
		wg.Wait()
	}
	return sx.L(outs...)
}

type c19Call struct {
	name   string
	ex     sx.V
	tp     *tonconnect.Proof
	accept bool
	want   []byte
	keys   [][]byte // keys for the verify column
}

func c19HistCase(secret string, ltp, ltpl int64, domain string, conc bool, calls []c19Call) sx.V {
	var cs []sx.V
	for _, cl := range calls {
		f := c19CheckCase(secret, ltp, ltpl, domain, cl.ex, cl.tp, cl.keys...).List
		cs = append(cs, sx.L(f[4], f[5], f[7], f[8], f[9], f[10], f[11], f[12]))
	}
	return sx.L(sx.Str(secret), sx.Z(ltp), sx.Z(ltpl), sx.Str(domain), sx.Z(c19Now*1e9+500000000), sx.B(conc), sx.L(cs...))
}

func c19EmitHist(c *Ctx, class string, secret, domain string, conc bool, calls []c19Call) {
	in := c19HistCase(secret, 0, 0, domain, conc, calls)
	mode := "seq"
	if conc {
		mode = "conc"
	}
	out := c.Emit("c19.hist", in, fmt.Sprintf("%s|%s|n%d", class, mode, len(calls)))
	if out.K != sx.KL {
		c.Fail("c19.hist", in, "hist-shape", "history did not return a list")
		return
	}
	for i, o := range out.List {
		cl := calls[i%len(calls)]
		switch {
		case o.IsA("panic"):
			c.Fail("c19.hist", in, "hist-panic", fmt.Sprintf("call %d (%s) panicked", i, cl.name))
		case cl.accept && (o.K != sx.KL || len(o.List) != 2 || string(o.List[1].Bytes) != string(cl.want)):
			c.Fail("c19.hist", in, "hist-honest-rejected", fmt.Sprintf("call %d (%s): honest proof not accepted with the wallet key", i, cl.name))
		case !cl.accept && !o.IsA("err"):
			c.Fail("c19.hist", in, "hist-accepted", fmt.Sprintf("call %d (%s): accepted although it must be rejected whatever came before", i, cl.name))
		}
	}
}

// an honest login under the history's secret and domain
func c19Login(r *prng.R, ver wallet.Version, viaSI bool, secret, domain string, payload string) (c19Wallet, c19Call) {
	w := c19NewWallet(r, ver, []int{0, 0, -1}[r.Intn(3)])
	if payload == "" {
		payload = c19MakePayload(secret, r.Bytes(8), c19Far+int64(r.Intn(1000)))
	}
	tp, err := tonconnect.CreateSignedProof(payload, w.id, w.priv, w.st, tonconnect.ProofOptions{Timestamp: time.Unix(c19Far+int64(r.Intn(1000)), 0), Domain: domain})
	if err != nil {
		panic(err)
	}
	ex := c19ExecErr
	if !viaSI {
		ex = c19ExecKey(0, w.pub)
	}
	return w, c19Call{name: "login", ex: ex, tp: tp, accept: true, want: w.pub, keys: [][]byte{w.pub}}
}

// proof for `address` carrying state-init si, signed by priv over the presented fields
func c19Forge(r *prng.R, name string, address ton.AccountID, si string, priv ed25519.PrivateKey, secret, domain string, ex sx.V) c19Call {
	payload := c19MakePayload(secret, r.Bytes(8), c19Far)
	tp := &tonconnect.Proof{Address: address.ToRaw(), Proof: tonconnect.ProofData{Timestamp: c19Far, Domain: domain, Payload: payload, StateInit: si}}
	p, _ := tonconnect.VerifConvert(tp)
	msg, _ := tonconnect.VerifCreateMessage(p.WorkChain, p.Address, p.Ts, p.Domain, p.Payload)
	tp.Proof.Signature = base64.StdEncoding.EncodeToString(ed25519.Sign(priv, msg))
	return c19Call{name: name, ex: ex, tp: tp, accept: false, keys: [][]byte{priv.Public().(ed25519.PublicKey)}}
}

func genC19Hist(c *Ctx) {
	r := c.R
	siVers := []wallet.Version{wallet.V1R3, wallet.V2R2, wallet.V3R1, wallet.V3R2, wallet.V4R1, wallet.V4R2, wallet.V5Beta, wallet.V5R1}
	n := c.Scale(6, 40)
	for k := 0; k < n; k++ {
		secret := c19Secret(r)
		domain := c19Domain(r)
		conc := k%3 == 2
		ver := siVers[r.Intn(len(siVers))]

		// H1: the attacker logs in with his own undeployed wallet (state-init S), then presents S for the
		// victim's address (victim's get-method fails), signed with his own key
		att, login := c19Login(r, ver, true, secret, domain, "")
		victim := c19NewWallet(r, siVers[r.Intn(len(siVers))], 0)
		forged := c19Forge(r, "foreign-stateinit", victim.id, att.si, att.priv, secret, domain, c19ExecErr)
		_, vlogin := c19Login(r, ver, true, secret, domain, "")
		c19EmitHist(c, "own-login-then-victim", secret, domain, conc, []c19Call{login, forged})
		c19EmitHist(c, "forged-login-forged-victimlogin", secret, domain, conc, []c19Call{forged, login, forged, vlogin, forged})

		// H2: same address, then another wallet's state-init for it (signed by the other), then again the honest one
		other, ologin := c19Login(r, siVers[r.Intn(len(siVers))], true, secret, domain, "")
		swapped := c19Forge(r, "other-stateinit-same-address", att.id, other.si, other.priv, secret, domain, c19ExecErr)
		c19EmitHist(c, "same-address-other-stateinit", secret, domain, conc, []c19Call{login, ologin, swapped, login})

		// H3: the key came from the get-method first; later the get-method fails and a foreign state-init is offered
		dep, dlogin := c19Login(r, ver, false, secret, domain, "")
		late := c19Forge(r, "getmethod-then-foreign-stateinit", dep.id, att.si, att.priv, secret, domain, c19ExecErr)
		if !conc { // the executor script of dep's account changes between the calls
			c19EmitHist(c, "getmethod-then-stateinit", secret, domain, false, []c19Call{dlogin, login, late, dlogin})
		}

		// H4: replays and payload reuse: the same proof again; the same payload in another wallet's proof;
		// expired / foreign payloads before and after a good one
		payload := c19MakePayload(secret, r.Bytes(8), c19Far)
		_, a1 := c19Login(r, ver, true, secret, domain, payload)
		_, a2 := c19Login(r, siVers[r.Intn(len(siVers))], r.Bool() && !conc, secret, domain, payload)
		expired := *a1.tp
		c19EmitHist(c, "replay-and-payload-reuse", secret, domain, conc, []c19Call{a1, a1, a2, a1})
		old, oldLogin := c19Login(r, ver, true, secret, domain, c19MakePayload(secret, r.Bytes(8), 1000000000))
		oldLogin.accept, oldLogin.name = false, "expired-payload"
		_ = old
		_, foreign := c19Login(r, ver, true, secret, domain, c19MakePayload(secret+"x", r.Bytes(8), c19Far))
		foreign.accept, foreign.name = false, "foreign-payload"
		expired.Proof.Timestamp = 1000000000
		stale := c19Call{name: "timestamp-changed", ex: a1.ex, tp: &expired, accept: false, keys: a1.keys}
		c19EmitHist(c, "good-then-expired-or-foreign", secret, domain, conc, []c19Call{a1, oldLogin, foreign, stale, a1, oldLogin})

		// H5: random histories of 2..6 calls over logins and the substitution families
		if !conc {
			pool := []c19Call{login, forged, ologin, swapped, dlogin, a1, a2, oldLogin, foreign, stale, vlogin}
			// substitutions of `login`: signature bit flip, other signer, domain, address digit, missing state-init
			sig, _ := base64.StdEncoding.DecodeString(login.tp.Proof.Signature)
			sig[r.Intn(64)] ^= byte(1 << r.Intn(8))
			t1 := *login.tp
			t1.Proof.Signature = base64.StdEncoding.EncodeToString(sig)
			t2 := *login.tp
			t2.Proof.Domain += "x"
			t3 := *login.tp
			t3.Proof.StateInit = ""
			t4 := *login.tp
			t4.Address = fmt.Sprintf("%d:%x", att.wc+1, att.id.Address)
			for i, t := range []*tonconnect.Proof{&t1, &t2, &t3, &t4} {
				pool = append(pool, c19Call{name: fmt.Sprintf("subst%d", i), ex: c19ExecErr, tp: t, accept: false, keys: [][]byte{att.pub}})
			}
			for j := 0; j < c.Scale(2, 6); j++ {
				m := 2 + r.Intn(5)
				var calls []c19Call
				for i := 0; i < m; i++ {
					calls = append(calls, pool[r.Intn(len(pool))])
				}
				c19EmitHist(c, "random", secret, domain, false, calls)
			}
		}
	}
}

// ---------------------------------------------------------------- malformed texts derived from genuine ones

type c19Mut struct{ name, text string }

// c19TextMutations: a genuine text with every kind of tail and prefix, case changes, whitespace and
// NUL inside, odd lengths around the genuine one, one character replaced.  `alien` is a character
// outside the alphabet of the text, `digit` one inside it.
func c19TextMutations(r *prng.R, good string, digit, alien string) []c19Mut {
	var out []c19Mut
	add := func(n, t string) {
		if t != good {
			out = append(out, c19Mut{n, t})
		}
	}
	for _, t := range []string{digit, digit + digit, digit + digit + digit, alien, alien + alien, digit + alien, alien + digit, "\n", "\r\n", " ", "\t", "\x00",
		"=", "==", "zz", "0g", "!", "\xff", "\u00a0", good} {
		add("tail", good+t)
		add("head", t+good)
	}
	for k := 1; k <= 4 && k < len(good); k++ {
		add("cut-tail", good[:len(good)-k])
		add("cut-head", good[k:])
	}
	add("upper", strings.ToUpper(good))
	add("lower", strings.ToLower(good))
	mixed := []byte(good)
	for i := range mixed {
		if r.Bool() {
			mixed[i] = strings.ToUpper(string(mixed[i]))[0]
		}
	}
	add("mixed-case", string(mixed))
	if len(good) > 0 {
		pos := []int{0, len(good) - 1, len(good) / 2, r.Intn(len(good)), r.Intn(len(good))}
		for _, i := range pos {
			for _, ins := range []string{" ", "\n", "\x00", alien} {
				add("insert", good[:i]+ins+good[i:])
				add("replace", good[:i]+ins+good[i+1:])
			}
		}
	}
	return out
}

// independent reading of a raw address text: one ':', decimal int32, at most 64 hex digits
func c19ReadAddress(a string) (wc int64, addr [32]byte, ok bool) {
	parts := strings.Split(a, ":")
	if len(parts) != 2 {
		return
	}
	w, err := strconv.ParseInt(parts[0], 10, 32)
	if err != nil {
		return
	}
	b, err := hex.DecodeString(parts[1])
	if err != nil || len(b) > 32 {
		return
	}
	copy(addr[32-len(b):], b)
	return w, addr, true
}

// sign the proof over the fields it presents (when they can be read at all)
func c19Resign(tp *tonconnect.Proof, priv ed25519.PrivateKey) {
	probe := *tp
	probe.Proof.Signature = ""
	if p, err := tonconnect.VerifConvert(&probe); err == nil {
		msg, _ := tonconnect.VerifCreateMessage(p.WorkChain, p.Address, p.Ts, p.Domain, p.Payload)
		tp.Proof.Signature = base64.StdEncoding.EncodeToString(ed25519.Sign(priv, msg))
	}
}

func genC19Derived(c *Ctx) {
	r := c.R
	for rep := 0; rep < c.Scale(1, 4); rep++ {
		viaSI := rep%2 == 0
		h := c19MakeHonest(r, c19Versions[r.Intn(len(c19Versions))], viaSI)
		sigRaw, _ := base64.StdEncoding.DecodeString(h.tp.Proof.Signature)
		payRaw, _ := hex.DecodeString(h.payload)
		emit := func(field, name string, tp *tonconnect.Proof, domain string, mustAccept, mustReject bool) {
			in := c19CheckCase(h.secret, 0, 0, domain, h.ex, tp, h.w.pub)
			out := c.Emit("c19.check", in, "derived|"+field+"|"+name)
			switch {
			case out.IsA("panic"):
				c.Fail("c19.check", in, "derived-panic", "CheckProof panicked on a "+field+" derived from a genuine one ("+name+")")
			case !out.IsA("err") && (out.K != sx.KL || len(out.List) != 2 || string(out.List[1].Bytes) != string(h.w.pub)):
				c.Fail("c19.check", in, "derived-key", "accepted with another key")
			case mustReject && !out.IsA("err"):
				c.Fail("c19.check", in, "derived-accepted", fmt.Sprintf("proof with a malformed %s (%s of a genuine one: %q) accepted", field, name, c19FieldOf(tp, field)))
			case mustAccept && out.IsA("err"):
				c.Fail("c19.check", in, "derived-rejected", fmt.Sprintf("proof with an equivalent %s (%s) rejected", field, name))
			}
		}
		// payload: the proof is signed over the presented payload text, so only CheckPayload can reject it
		for _, m := range c19TextMutations(r, h.payload, "0", "g") {
			tp := h.clone()
			tp.Proof.Payload = m.text
			c19Resign(tp, h.w.priv)
			b, err := hex.DecodeString(m.text)
			same := err == nil && string(b) == string(payRaw)
			emit("payload", m.name, tp, h.domain, same, !same)
			// CheckPayload alone
			in := sx.L(sx.Str(h.secret), sx.Z(0), sx.Z(c19Now*1e9+500000000), sx.Str(m.text), c19HmacOracle(h.secret, m.text))
			out := c.Emit("c19.payload", in, "derived|"+m.name)
			if out.K != sx.KB || out.Bool != same {
				c.Fail("c19.payload", in, "derived-payload", fmt.Sprintf("CheckPayload(%q) = %s for a text derived (%s) from a genuine payload", m.text, out.String(), m.name))
			}
		}
		// address: hex part and workchain part
		colon := strings.IndexByte(h.tp.Address, ':')
		wcT, hexT := h.tp.Address[:colon], h.tp.Address[colon+1:]
		var addrs []c19Mut
		for _, m := range c19TextMutations(r, hexT, "0", "g") {
			addrs = append(addrs, c19Mut{"hex-" + m.name, wcT + ":" + m.text})
		}
		for _, m := range c19TextMutations(r, wcT, "0", "x") {
			addrs = append(addrs, c19Mut{"wc-" + m.name, m.text + ":" + hexT})
		}
		for _, m := range addrs {
			tp := h.clone()
			tp.Address = m.text
			c19Resign(tp, h.w.priv)
			// any readable workchain: the same state-init (and in this harness the same get-method answer)
			// stands behind the hash in every workchain, and the holder's key signs the presented text
			_, a, ok := c19ReadAddress(m.text)
			same := ok && a == [32]byte(h.w.id.Address)
			if !viaSI {
				same = ok // the scripted get-method answers the signer's key for whatever account is asked
			}
			emit("address", m.name, tp, h.domain, same, !same)
			sg := h.tp.Proof.Signature
			cin := sx.L(sx.Str(m.text), sx.Str(sg), c19B64Oracle(sg))
			c.Emit("c19.conv", cin, "derived|"+strings.SplitN(m.name, "-", 2)[0])
		}
		// signature text
		for _, m := range c19TextMutations(r, h.tp.Proof.Signature, "A", "!") {
			tp := h.clone()
			tp.Proof.Signature = m.text
			b, err := base64.StdEncoding.DecodeString(m.text)
			same := err == nil && string(b) == string(sigRaw)
			emit("signature", m.name, tp, h.domain, same, !same)
		}
		// state-init text (the key can only come from it when the get-method fails)
		if viaSI {
			siRaw, _ := base64.StdEncoding.DecodeString(h.tp.Proof.StateInit)
			for _, m := range c19TextMutations(r, h.tp.Proof.StateInit, "A", "!") {
				tp := h.clone()
				tp.Proof.StateInit = m.text
				b, err := base64.StdEncoding.DecodeString(m.text)
				same := err == nil && string(b) == string(siRaw)
				emit("stateinit", m.name, tp, h.domain, same, err != nil)
			}
		}
		// domain: presented (and signed over) vs configured
		for _, m := range c19TextMutations(r, h.domain, "a", "\x01") {
			tp := h.clone()
			tp.Proof.Domain = m.text
			c19Resign(tp, h.w.priv)
			emit("domain", "proof-"+m.name, tp, h.domain, false, true)
			emit("domain", "server-"+m.name, h.clone(), m.text, false, true)
		}
	}
}

func c19FieldOf(tp *tonconnect.Proof, field string) string {
	switch field {
	case "payload":
		return tp.Proof.Payload
	case "address":
		return tp.Address
	case "signature":
		return tp.Proof.Signature
	case "stateinit":
		return trunc(tp.Proof.StateInit, 40)
	default:
		return tp.Proof.Domain
	}
}
