package main

// C07, fifth part: the parsing entry points that take TEXT (JSON tokens, hex
// and base64 strings) never panic and answer as DeserializeBoc does on the
// bytes the text stands for — oracle c07.text and family "text-tokens": JSON
// tokens of every kind and of length 0..3, hex / base64 strings of length 0..3
// and of odd length, with and without quotes, by direct method call and
// through encoding/json into struct fields, pointers, slices and maps.

import (
	"encoding/base64"
	"encoding/hex"
	"encoding/json"
	"fmt"
	"strings"
	"time"

	"github.com/tonkeeper/tongo/boc"

	"verifharness/prng"
	"verifharness/sx"
)

const c07TextTimeout = 10 * time.Second

// c07.text: token bytes -> 'ok | 'panic-<fn> | 'differs-<fn>
//
// Every function below is called with the token (as []byte or string); none
// may panic.  Where the token, after dropping surrounding double quotes, is
// the hex (resp. standard base64) text of bytes B, the answer of the hex
// (resp. base64) functions must be that of DeserializeBoc(B) (single-root
// entry points succeed iff it has one root), an error where it is not such a
// text; Cell.UnmarshalJSON and encoding/json into a Cell field must answer
// that way on a proper JSON string token "<hex>".
func execC07Text(in sx.V) sx.V {
	tok := string(in.Bytes)
	type result struct {
		ok     bool
		digest string
	}
	call := func(name string, f func() ([]*boc.Cell, error)) (res result, panicked bool) {
		defer func() {
			if r := recover(); r != nil {
				panicked = true
			}
		}()
		cells, err := f()
		if err != nil {
			return result{}, false
		}
		return result{true, c07Digest(cells)}, false
	}
	one := func(c *boc.Cell, err error) ([]*boc.Cell, error) {
		if err != nil {
			return nil, err
		}
		return []*boc.Cell{c}, nil
	}
	// what the token stands for
	expect := func(text string, decode func(string) ([]byte, error), single bool) result {
		b, err := decode(text)
		if err != nil {
			return result{}
		}
		cells, err := boc.DeserializeBoc(b)
		if err != nil || (single && len(cells) != 1) {
			return result{}
		}
		return result{true, c07Digest(cells)}
	}
	trimmed := strings.Trim(tok, "\"")
	type check struct {
		name string
		f    func() ([]*boc.Cell, error)
		want *result // nil: only "does not panic"
	}
	hexWant := expect(tok, hex.DecodeString, false)
	hexWant1 := expect(tok, hex.DecodeString, true)
	b64Want := expect(tok, base64.StdEncoding.DecodeString, false)
	b64Want1 := expect(tok, base64.StdEncoding.DecodeString, true)
	jsonWant := expect(trimmed, hex.DecodeString, true)
	// only a proper JSON string token has a prescribed answer; what the method
	// makes of anything else (unquoted hex, stray quotes) is its own business
	// as long as it does not panic
	properString := tok == "\""+trimmed+"\"" && !strings.ContainsAny(trimmed, "\"\\") && json.Valid([]byte(tok))
	jsonCheck := &jsonWant
	if !properString {
		jsonCheck = nil
	}
	viaJSON := func(doc string, get func() *boc.Cell, dst any) func() ([]*boc.Cell, error) {
		return func() ([]*boc.Cell, error) {
			if err := json.Unmarshal([]byte(doc), dst); err != nil {
				return nil, err
			}
			c := get()
			if c == nil {
				return nil, fmt.Errorf("absent")
			}
			return []*boc.Cell{c}, nil
		}
	}
	var sv struct {
		Address   string   `json:"address"`
		StateInit boc.Cell `json:"state_init"`
	}
	var sp struct {
		StateInit *boc.Cell `json:"state_init"`
	}
	var sl []boc.Cell
	var mp map[string]*boc.Cell
	checks := []check{
		{"Cell.UnmarshalJSON", func() ([]*boc.Cell, error) {
			var c boc.Cell
			if err := c.UnmarshalJSON([]byte(tok)); err != nil {
				return nil, err
			}
			return []*boc.Cell{&c}, nil
		}, jsonCheck},
		{"DeserializeBocHex", func() ([]*boc.Cell, error) { return boc.DeserializeBocHex(tok) }, &hexWant},
		{"DeserializeSinglRootHex", func() ([]*boc.Cell, error) { return one(boc.DeserializeSinglRootHex(tok)) }, &hexWant1},
		{"DeserializeBocBase64", func() ([]*boc.Cell, error) { return boc.DeserializeBocBase64(tok) }, &b64Want},
		{"DeserializeSinglRootBase64", func() ([]*boc.Cell, error) { return one(boc.DeserializeSinglRootBase64(tok)) }, &b64Want1},
		{"json.Unmarshal-struct-Cell", viaJSON(`{"address":"a","state_init":`+tok+`}`, func() *boc.Cell { return &sv.StateInit }, &sv), nil},
		{"json.Unmarshal-struct-ptrCell", viaJSON(`{"state_init":`+tok+`}`, func() *boc.Cell { return sp.StateInit }, &sp), nil},
		{"json.Unmarshal-slice-Cell", viaJSON(`[`+tok+`]`, func() *boc.Cell {
			if len(sl) == 0 {
				return nil
			}
			return &sl[0]
		}, &sl), nil},
		{"json.Unmarshal-map-ptrCell", viaJSON(`{"k":`+tok+`}`, func() *boc.Cell { return mp["k"] }, &mp), nil},
		{"BitString.UnmarshalJSON", func() ([]*boc.Cell, error) {
			var bs boc.BitString
			return nil, firstErr(bs.UnmarshalJSON([]byte(tok)))
		}, nil},
		{"BitStringFromFiftHex", func() ([]*boc.Cell, error) {
			if len(tok) > 600 {
				return nil, fmt.Errorf("skipped")
			}
			_, err := boc.BitStringFromFiftHex(tok)
			return nil, firstErr(err)
		}, nil},
	}
	for _, ck := range checks {
		got, panicked := call(ck.name, ck.f)
		if panicked {
			return sx.A("panic-" + ck.name)
		}
		if ck.want != nil && got != *ck.want {
			return sx.A("differs-" + ck.name)
		}
	}
	// a JSON string token that encoding/json accepts must give, through the
	// struct field, what the direct call gives
	if jsonWant.ok && properString {
		got, _ := call("json", viaJSON(`{"address":"a","state_init":`+tok+`}`, func() *boc.Cell { return &sv.StateInit }, &sv))
		if got != jsonWant {
			return sx.A("differs-json.Unmarshal-struct-Cell")
		}
	}
	return sx.A("ok")
}

func firstErr(err error) error {
	if err == nil {
		return fmt.Errorf("no cells")
	}
	return err
}

var c07TextHangs, c07TextCalls int

func c07TextOracle(c *Ctx, tok []byte, class string) {
	if c07TextHangs >= c07MaxHangs {
		return
	}
	in := sx.Bytes(tok)
	c.Note("c07.text", class, in)
	c07TextCalls++
	res := c07Timed("c07.text", in, c07TextTimeout)
	show := fmt.Sprintf("%q", trunc(string(tok), 60))
	switch {
	case isAtom(res, "ok"):
	case isAtom(res, "timeout"), isAtom(res, "crash"):
		c07TextHangs++
		c.Fail("c07.text", in, "text-entry-"+res.Atom, fmt.Sprintf("a text parsing entry point of package boc ended with '%s on the %d-byte token %s", res.Atom, len(tok), show))
	case res.K == sx.KA && strings.HasPrefix(res.Atom, "panic-"):
		c.Fail("c07.text", in, "text-entry-panic", fmt.Sprintf("%s panicked on the %d-byte token %s (it must return an error)", strings.TrimPrefix(res.Atom, "panic-"), len(tok), show))
	case res.K == sx.KA && strings.HasPrefix(res.Atom, "differs-"):
		c.Fail("c07.text", in, "text-entry-differs", fmt.Sprintf("%s on the %d-byte token %s does not answer as boc.DeserializeBoc on the bytes the text stands for", strings.TrimPrefix(res.Atom, "differs-"), len(tok), show))
	default:
		c.Fail("c07.text", in, "harness-error", "unexpected answer of the c07.text exec: "+trunc(res.String(), 100))
	}
}

// family "text-tokens"
func c07TextTokens(c *Ctx, r *prng.R, seeds [][]byte) {
	emit := func(class string, toks ...string) {
		for _, t := range toks {
			c07TextOracle(c, []byte(t), "text|"+class)
		}
	}
	// every JSON kind, lengths 0..3 and a little beyond
	emit("json-kinds", "", "null", "true", "false", "nul", "tru", "n", "t", "f",
		"0", "1", "2", "3", "4", "5", "6", "7", "8", "9", "-0", "-1", "12", "1.5", "1e3", "-1e-3", "123", "0.0", "00", "1.", ".5", "-",
		`""`, `"a"`, `"ab"`, `"abc"`, `"0"`, `"00"`, `"b5"`, `"b5e"`, `"zz"`, `"\""`, `"\\"`, `"\u0000"`, `"\n"`,
		"{}", "[]", `{"a":1}`, "[1]", `[""]`, `{"":""}`, "[[]]", "{", "}", "[", "]", ":", ",",
		" 7", "7 ", " 7 ", "\t\"\"\n", " null ", `"`, `"""`, `""""`, `"a`, `a"`, `\"`, `'a'`, "''")
	// every single byte, and all pairs / triples over a small alphabet
	for b := 0; b < 256; b++ {
		if c.Thorough() || b < 0x80 || b%16 == 0 || b == 0xff {
			c07TextOracle(c, []byte{byte(b)}, "text|one-byte")
		}
	}
	alpha := []byte{'"', '0', '7', 'a', 'f', 'g', 'F', '\\', '{', '[', 'n', ' ', '_', '=', '+', '/', '-', 0x00, 0xff}
	for _, a := range alpha {
		for _, b := range alpha {
			c07TextOracle(c, []byte{a, b}, "text|two-bytes")
		}
	}
	nTriples := c.Scale(300, len(alpha)*len(alpha)*len(alpha))
	for i := 0; i < nTriples; i++ {
		var t []byte
		if c.Thorough() {
			t = []byte{alpha[i/(len(alpha)*len(alpha))], alpha[i/len(alpha)%len(alpha)], alpha[i%len(alpha)]}
		} else {
			t = []byte{alpha[r.Intn(len(alpha))], alpha[r.Intn(len(alpha))], alpha[r.Intn(len(alpha))]}
		}
		c07TextOracle(c, t, "text|three-bytes")
	}
	// hex and base64 strings of length 0..5 (odd and even), quoted and not
	for _, s := range []string{"", "b", "b5", "b5e", "b5ee", "b5ee9", "B5EE9C72", "b5ee9c7", "0x", "0xb5", "te6", "te6c", "te6cc", "te6ccg", "dGU=", "dGU", "dA==", "d===", "=", "==", "====", "-_-_", "te6c\n"} {
		emit("short-strings", s, `"`+s+`"`, `"`+s, s+`"`)
	}
	// valid, truncated and damaged BOCs as text: hex / base64, quoted and not,
	// odd lengths, upper case, url alphabet, stray quotes, whitespace
	n := 0
	limit := c.Scale(12, 200)
	for _, s := range seeds {
		if len(s) > 300 || len(s) < 8 {
			continue
		}
		if n++; n > limit {
			break
		}
		hx := hex.EncodeToString(s)
		b64 := base64.StdEncoding.EncodeToString(s)
		cut := 1 + r.Intn(len(hx)-1)
		emit("boc-hex", hx, `"`+hx+`"`, strings.ToUpper(hx), `"`+hx, hx+`"`, `""`+hx+`""`, hx[:cut], `"`+hx[:cut]+`"`, hx[:len(hx)-1], `"`+hx[1:]+`"`,
			" "+hx, `" `+hx+`"`, hx+"\n", "0x"+hx, `"`+hx[:cut]+"g"+hx[cut:]+`"`, `[`+`"`+hx+`"`+`]`, `{"x":"`+hx+`"}`)
		emit("boc-base64", b64, `"`+b64+`"`, strings.TrimRight(b64, "="), base64.URLEncoding.EncodeToString(s), base64.RawStdEncoding.EncodeToString(s),
			`"`+b64, b64+`"`, b64[:1+r.Intn(len(b64)-1)], b64+"=", b64+"\n", " "+b64, `"`+strings.Replace(b64, "A", "*", 1)+`"`)
		// the hex text of a two-root BOC and of a damaged one
		m := append([]byte{}, s...)
		m[r.Intn(len(m))] ^= 1 << uint(r.Intn(8))
		emit("boc-hex", hex.EncodeToString(m), `"`+hex.EncodeToString(m)+`"`, `"`+base64.StdEncoding.EncodeToString(m)+`"`)
	}
}
