package main

import (
	"bytes"
	"fmt"

	"github.com/tonkeeper/tongo/boc"

	"verifharness/prng"
	"verifharness/sx"
)

// Cursor programs: operation ('prog ((src k) | (v) ...)) of c18.multi / c18.viaboc /
// c18.conc.  Cursor variables are numbered in creation order, 0 is
// prover.Cursor(); (src k) is v_new := v_src.Ref(k), (v) is v.Prune().  All
// cursors stay alive until CreateProof(v_0).

func c18RunProg(prover *boc.MerkleProver, instrs []sx.V) sx.V {
	vars := []*boc.Cursor{prover.Cursor()}
	for _, in := range instrs {
		switch len(in.List) {
		case 2:
			vars = append(vars, vars[in.List[0].I()].Ref(in.List[1].I()))
		case 1:
			vars[in.List[0].I()].Prune()
		}
	}
	proof, err := prover.CreateProof(vars[0])
	if err != nil {
		return sx.A("err")
	}
	return rawBytes(proof)
}

func opProg(instrs []sx.V) sx.V { return sx.L(sx.A("prog"), sx.L(instrs...)) }
func iRef(src, k int) sx.V      { return sx.L(sx.Nat(src), sx.Nat(k)) }
func iPrune(v int) sx.V         { return sx.L(sx.Nat(v)) }

// progPrunes is the position-set model of a program, stated in Go: a cursor
// is a value, its position is fixed at creation.
func progPrunes(instrs []sx.V) [][]int {
	vars := [][]int{{}}
	var prunes [][]int
	for _, in := range instrs {
		switch len(in.List) {
		case 2:
			p := append(append([]int{}, vars[in.List[0].I()]...), in.List[1].I())
			vars = append(vars, p)
		case 1:
			prunes = append(prunes, vars[in.List[0].I()])
		}
	}
	return prunes
}

type progState struct {
	dag    []Node
	node   []int // dag node of every variable
	parent []int // variable it was taken from (-1 for the root cursor)
	depth  []int
	instrs []sx.V
}

func (p *progState) ref(src, k int) int {
	p.instrs = append(p.instrs, iRef(src, k))
	p.node = append(p.node, p.dag[p.node[src]].Refs[k])
	p.parent = append(p.parent, src)
	p.depth = append(p.depth, p.depth[src]+1)
	return len(p.node) - 1
}
func (p *progState) prune(v int)     { p.instrs = append(p.instrs, iPrune(v)) }
func (p *progState) nrefs(v int) int { return len(p.dag[p.node[v]].Refs) }

// randProgram writes a cursor program in one of the orders an application may
// use; the returned name is the style.
func randProgram(r *prng.R, dag []Node, style int) ([]sx.V, string) {
	p := &progState{dag: dag, node: []int{0}, parent: []int{-1}, depth: []int{0}}
	withRefs := func() []int {
		var vs []int
		for v := range p.node {
			if p.nrefs(v) > 0 {
				vs = append(vs, v)
			}
		}
		return vs
	}
	switch style {
	case 0: // breadth-first: all children of a cursor first, descend later, prune at the end
		limit := 4 + r.Intn(10)
		for q := 0; q < len(p.node) && len(p.node) < limit; q++ {
			for k := 0; k < p.nrefs(q); k++ {
				p.ref(q, k)
			}
		}
		np := 1 + r.Intn(3)
		for j := 0; j < np && len(p.node) > 1; j++ {
			p.prune(1 + r.Intn(len(p.node)-1))
		}
		return p.instrs, "breadth-first"
	case 1: // siblings kept in variables, the OLDER one (or a descendant of it) used afterwards
		cur := 0
		for step := 0; step < 6 && p.nrefs(cur) > 0; step++ {
			n := p.nrefs(cur)
			if n >= 2 && (p.depth[cur] >= 1 || r.Chance(30)) {
				a := r.Intn(n)
				b := (a + 1 + r.Intn(n-1)) % n
				l := p.ref(cur, a)
				rr := p.ref(cur, b)
				switch r.Intn(3) {
				case 0:
					p.prune(l)
					cur = rr
				case 1:
					if p.nrefs(l) > 0 {
						p.prune(p.ref(l, r.Intn(p.nrefs(l))))
					} else {
						p.prune(l)
					}
					cur = rr
				default:
					p.prune(rr)
					cur = l // continue below the older cursor
				}
			} else {
				cur = p.ref(cur, r.Intn(n))
			}
		}
		if r.Chance(40) && len(p.node) > 1 {
			p.prune(1 + r.Intn(len(p.node)-1))
		}
		return p.instrs, "siblings-older-used"
	default: // interleaved: any cursor created so far may be used next
		steps := 4 + r.Intn(12)
		for s := 0; s < steps; s++ {
			cand := withRefs()
			if len(cand) > 0 && (r.Chance(65) || len(p.node) == 1) {
				src := cand[r.Intn(len(cand))]
				last := len(p.node) - 1
				if r.Chance(45) && p.parent[last] >= 0 { // a sibling of the newest cursor
					src = p.parent[last]
				}
				p.ref(src, r.Intn(p.nrefs(src)))
			} else if len(p.node) > 1 {
				v := 1 + r.Intn(len(p.node)-1)
				if r.Chance(50) && len(p.node) > 2 { // an older cursor
					v = 1 + r.Intn(len(p.node)-2)
				}
				p.prune(v)
			}
		}
		if len(p.node) > 1 {
			p.prune(1 + r.Intn(len(p.node)-1))
		}
		return p.instrs, "interleaved"
	}
}

// keyProgram is the proof of a dictionary key written by hand with the
// cursor API: at every fork of the path BOTH children are taken first (in
// either order), the off-path one is pruned at once or at the very end.
func keyProgram(r *prng.R, dag []Node, key string) ([]sx.V, bool) {
	p := &progState{dag: dag, node: []int{0}, parent: []int{-1}, depth: []int{0}}
	var deferred []int
	late := r.Chance(50)
	cur := 0
	rem := key
	for steps := 0; steps < 1100; steps++ {
		n := dag[p.node[cur]]
		lab, _, ok := readLabel(n.Bits, len(rem))
		if !ok || len(lab) > len(rem) {
			return nil, false
		}
		rem = rem[len(lab):]
		if rem == "" {
			break
		}
		if len(n.Refs) != 2 {
			return nil, false
		}
		b := int(rem[0] - '0')
		var on, off int
		if r.Bool() {
			on = p.ref(cur, b)
			off = p.ref(cur, 1-b)
		} else {
			off = p.ref(cur, 1-b)
			on = p.ref(cur, b)
		}
		if late {
			deferred = append(deferred, off)
		} else {
			p.prune(off)
		}
		cur = on
		rem = rem[1:]
	}
	for _, v := range deferred {
		p.prune(v)
	}
	return p.instrs, true
}

// genC18Prog: cursor-API walks in the orders an application may write them.
func genC18Prog(c *Ctx) {
	r := c.R
	// 8a. arbitrary trees (as built, with sharing, or through a BOC)
	nt := c.Scale(60, 2000)
	for i := 0; i < nt; i++ {
		size := 4 + r.Intn(7)
		dag := smallTree(200, func() []Node {
			d := randDag(r, size)
			if len(d) > 3 && r.Chance(60) { // make it branch near the top
				for _, q := range []int{0, 1} {
					for len(d[q].Refs) < 2 {
						d[q].Refs = append(d[q].Refs, q+1+r.Intn(len(d)-1-q))
					}
				}
			}
			return d
		})
		nops := 1 + r.Intn(3)
		var ops []sx.V
		styles := ""
		for j := 0; j < nops; j++ {
			instrs, name := randProgram(r, dag, (i+j)%3)
			ops = append(ops, opProg(instrs))
			if j == 0 {
				styles = name
			}
		}
		if r.Chance(30) {
			ops = append(ops, opWalk(randPaths(r, dag, 1, 3)))
		}
		kind := "c18.multi"
		if i%5 == 4 {
			kind = "c18.viaboc"
		}
		in := sx.L(dagSx(dag), sx.Nat(0), sx.L(ops...))
		out := c.Emit(kind, in, fmt.Sprintf("program-tree|%s|%s|ops%d", kind, styles, minInt(len(ops), 2)))
		c18MultiOracleKind(c, kind, in, newC18Src(dag), ops, out)
	}
	// 8b. dictionary proofs written by hand with the cursor API, next to
	// ProveKeyInHashmap for the same key on the same prover: same bytes
	nd := c.Scale(20, 700)
	for i := 0; i < nd; i++ {
		width := []int{8, 9, 16, 32, 64}[r.Intn(5)]
		var dag []Node
		var keys []string
		if i%3 == 0 {
			ks, vals := mirroredKeys(r, width)
			keys = ks
			buildDict(&dag, keys, vals, 0, r, 0)
		} else {
			dag, keys, _ = randDict(r, width, 3+r.Intn(12))
		}
		var ops []sx.V
		var pairs [][2]int
		for j := 0; j < 1+r.Intn(3); j++ {
			k := keys[r.Intn(len(keys))]
			instrs, ok := keyProgram(r, dag, k)
			if !ok {
				continue
			}
			pairs = append(pairs, [2]int{len(ops), len(ops) + 1})
			ops = append(ops, opProg(instrs), opKey(k))
		}
		if len(ops) == 0 {
			continue
		}
		in := sx.L(dagSx(dag), sx.Nat(0), sx.L(ops...))
		out := c.Emit("c18.multi", in, fmt.Sprintf("program-dict|w%d|keys%d", bucket(width), len(pairs)))
		before := len(c.fails)
		c18MultiOracleKind(c, "c18.multi", in, newC18Src(dag), ops, out)
		if len(c.fails) == before && out.K == sx.KL && len(out.List) == len(ops) {
			for _, pr := range pairs {
				a, b := out.List[pr[0]], out.List[pr[1]]
				if a.K != sx.KBytes || b.K != sx.KBytes || !bytes.Equal(a.Bytes, b.Bytes) {
					c.Fail("c18.multi", in, "program-key-differs", fmt.Sprintf("operation %d (the proof of a key written with the cursor API, both children taken at every fork) differs from ProveKeyInHashmap's proof for the same key (operation %d)", pr[0]+1, pr[1]+1))
					break
				}
			}
		}
	}
}
