package main

import (
	"bytes"
	"fmt"

	"github.com/tonkeeper/tongo/boc"

	"verifharness/prng"
	"verifharness/sx"
)

// C01, histories.  Cells of this library are mutable builders: a *Cell that
// has been serialised can be written to and serialised again, alone or inside
// other cells.  A history is a list of steps over K named cells (slot k is one
// *Cell for the whole history, created empty; references point to greater
// slots):
//   ('w k bits)                 WriteBit for every bit
//   ('r k j)                    cell k: AddRef(cell j)
//   ('t k special mask)         exotic flag (type = first data byte) and level mask (verif hook)
//   ('s api k idx crc cache h)  serialise cell k; api 0 Cell.ToBoc, 1 Cell.ToBocCustom,
//                               2 boc.SerializeBoc, 3 Cell.ToBocCustomWithHasher(hasher h)
// The answer lists, per serialisation, (bytes cert) | 'err; cert: the bytes parse back to
// one root structurally identical to the cell as it is NOW, with its current hash.
// The extracted model answers every request from the current structure alone.
//
// Caller-supplied hashers: boc.Hasher "must be used only with a read-only tree
// of cells" (hasher.go).  The history stays inside that promise: a hasher that
// has seen a cell is dropped (replaced by boc.NewHasher()) when that cell is
// modified; it is reused, as documented, across serialisations of unchanged
// cells, of their parents and of unrelated cells.

type c01Slot struct {
	cell    *boc.Cell
	bits    string
	refs    []int
	special bool
	mask    uint8
}

func execC01Hist(in sx.V) sx.V {
	if in.K != sx.KL || len(in.List) != 2 || in.List[0].K != sx.KN || in.List[1].K != sx.KL {
		return sx.A("err")
	}
	if in.List[0].Int.BitLen() > 7 || in.List[0].I() > 64 {
		return sx.A("err")
	}
	K := in.List[0].I()
	slots := make([]c01Slot, K)
	for i := range slots {
		slots[i].cell = boc.NewCell()
	}
	hashers := map[int]*boc.Hasher{}
	seen := map[int]map[int]bool{}
	touched := func(k int) {
		for h, s := range seen {
			if s[k] {
				delete(hashers, h)
				delete(seen, h)
			}
		}
	}
	var mark func(s map[int]bool, k int)
	mark = func(s map[int]bool, k int) {
		if s[k] {
			return
		}
		s[k] = true
		for _, j := range slots[k].refs {
			mark(s, j)
		}
	}
	small := func(v sx.V, lim int) (int, bool) {
		if v.K != sx.KN || v.Int.BitLen() > 16 || v.I() >= lim {
			return 0, false
		}
		return v.I(), true
	}
	steps := in.List[1].List
	// shape and range check of the whole history first (as the model does)
	for _, st := range steps {
		if st.K != sx.KL || len(st.List) < 3 || st.List[0].K != sx.KA {
			return sx.A("err")
		}
		a := st.List
		ok := false
		switch {
		case a[0].Atom == "w" && len(a) == 3 && a[2].K == sx.KBits:
			_, ok = small(a[1], K)
		case a[0].Atom == "r" && len(a) == 3:
			_, ok1 := small(a[1], K)
			_, ok2 := small(a[2], K)
			ok = ok1 && ok2
		case a[0].Atom == "t" && len(a) == 4 && a[2].K == sx.KB && a[3].K == sx.KN:
			_, ok = small(a[1], K)
		case a[0].Atom == "s" && len(a) == 7 && a[3].K == sx.KB && a[4].K == sx.KB && a[5].K == sx.KB:
			_, ok1 := small(a[1], 4)
			_, ok2 := small(a[2], K)
			_, ok3 := small(a[6], 16)
			ok = ok1 && ok2 && ok3
		}
		if !ok {
			return sx.A("err")
		}
	}
	var outs []sx.V
	for _, st := range steps {
		a := st.List
		switch a[0].Atom {
		case "w":
			k := a[1].I()
			s := &slots[k]
			if len(s.bits)+len(a[2].Bits) > 1023 {
				return sx.A("err")
			}
			touched(k)
			for _, ch := range a[2].Bits {
				if err := s.cell.WriteBit(ch == '1'); err != nil {
					return sx.A("err")
				}
			}
			s.bits += a[2].Bits
		case "r":
			k, j := a[1].I(), a[2].I()
			s := &slots[k]
			if !(k < j) || len(s.refs) >= 4 {
				return sx.A("err")
			}
			touched(k)
			if err := s.cell.AddRef(slots[j].cell); err != nil {
				return sx.A("err")
			}
			s.refs = append(s.refs, j)
		case "t":
			k := a[1].I()
			s := &slots[k]
			if a[3].Int.BitLen() > 3 {
				return sx.A("err")
			}
			mask := uint8(a[3].I())
			ty := 0
			if a[2].Bool {
				if len(s.bits) < 8 {
					return sx.A("err")
				}
				for j := 0; j < 8; j++ {
					ty = ty*2 + int(s.bits[j]-'0')
				}
				if ty == 0 {
					return sx.A("err")
				}
			}
			touched(k)
			boc.VerifSetTypeMask(s.cell, boc.CellType(ty), uint32(mask))
			s.special, s.mask = a[2].Bool, mask
		case "s":
			api, k, h := a[1].I(), a[2].I(), a[6].I()
			idx, crc, cache := a[3].Bool, a[4].Bool, a[5].Bool
			c := slots[k].cell
			var out []byte
			var err error
			switch api {
			case 0:
				out, err = c.ToBoc()
			case 1:
				out, err = c.ToBocCustom(idx, crc, cache, 0)
			case 2:
				out, err = boc.SerializeBoc(c, idx, crc, cache, 0)
			default:
				if hashers[h] == nil {
					hashers[h] = boc.NewHasher()
					seen[h] = map[int]bool{}
				}
				mark(seen[h], k)
				out, err = c.ToBocCustomWithHasher(hashers[h], idx, crc, cache, 0)
			}
			if err != nil {
				outs = append(outs, sx.A("err"))
				continue
			}
			cert := false
			back, err := boc.DeserializeBoc(out)
			if err == nil && len(back) == 1 {
				h0, e0 := c.Hash()
				h1, e1 := back[0].Hash()
				cert = e0 == nil && e1 == nil && bytes.Equal(h0, h1) && sameStructure(c, back[0], map[[2]*boc.Cell]bool{})
			}
			outs = append(outs, sx.L(sx.Bytes(out), sx.B(cert)))
		}
	}
	return sx.L(outs...)
}

// ---- generator ----

type c01HistSer struct {
	nodes []Node // the structure at the moment of the request
	k     int
	o     int // effective options (0 for ToBoc)
	api   int
}

type c01Hist struct {
	K     int
	nodes []Node
	used  []bool // slot was written to, referenced or serialised
	steps []sx.V
	sers  []c01HistSer
	// contents of cells at the moment they were serialised ("former contents")
	former []Node
}

func newC01Hist(K int) *c01Hist {
	return &c01Hist{K: K, nodes: make([]Node, K), used: make([]bool, K)}
}

func (h *c01Hist) snapshot() []Node {
	out := make([]Node, len(h.nodes))
	for i, n := range h.nodes {
		out[i] = n
		out[i].Refs = append([]int{}, n.Refs...)
	}
	return out
}

func (h *c01Hist) write(k int, bits string) bool {
	if len(h.nodes[k].Bits)+len(bits) > 1023 {
		return false
	}
	h.nodes[k].Bits += bits
	h.used[k] = true
	h.steps = append(h.steps, sx.L(sx.A("w"), sx.Nat(k), sx.Bits(bits)))
	return true
}

func (h *c01Hist) ref(k, j int) bool {
	if !(k < j) || j >= h.K || len(h.nodes[k].Refs) >= 4 {
		return false
	}
	h.nodes[k].Refs = append(h.nodes[k].Refs, j)
	h.used[k], h.used[j] = true, true
	h.steps = append(h.steps, sx.L(sx.A("r"), sx.Nat(k), sx.Nat(j)))
	return true
}

func (h *c01Hist) typ(k int, special bool, mask uint8) bool {
	if special {
		b := h.nodes[k].Bits
		if len(b) < 8 || b[:8] == "00000000" {
			return false
		}
	}
	h.nodes[k].Special, h.nodes[k].Mask = special, mask
	h.used[k] = true
	h.steps = append(h.steps, sx.L(sx.A("t"), sx.Nat(k), sx.B(special), sx.Nat(int(mask))))
	return true
}

func (h *c01Hist) reach(k int, seen map[int]bool) {
	if seen[k] {
		return
	}
	seen[k] = true
	for _, j := range h.nodes[k].Refs {
		h.reach(j, seen)
	}
}

func (h *c01Hist) ser(api, k, o, hasher int) {
	h.used[k] = true
	h.steps = append(h.steps, sx.L(sx.A("s"), sx.Nat(api), sx.Nat(k), sx.B(o&1 != 0), sx.B(o&2 != 0), sx.B(o&4 != 0), sx.Nat(hasher)))
	eff := o
	if api == 0 {
		eff = 0
	}
	h.sers = append(h.sers, c01HistSer{h.snapshot(), k, eff, api})
	seen := map[int]bool{}
	h.reach(k, seen)
	// in slot order (map iteration order must not reach the generated cases)
	for j := 0; j < h.K; j++ {
		if !seen[j] {
			continue
		}
		n := h.nodes[j]
		n.Refs = append([]int{}, n.Refs...)
		h.former = append(h.former, n)
	}
}

// a pristine slot smaller than lim (so that it may reference cells >= lim), or -1
func (h *c01Hist) pristine(r *prng.R, lim int) int {
	var cand []int
	for i := 0; i < lim && i < h.K; i++ {
		if !h.used[i] {
			cand = append(cand, i)
		}
	}
	if len(cand) == 0 {
		return -1
	}
	return cand[r.Intn(len(cand))]
}

// clone builds, in a pristine slot, a fresh cell equal to the given content
func (h *c01Hist) clone(r *prng.R, n Node) int {
	lim := h.K
	for _, j := range n.Refs {
		if j < lim {
			lim = j
		}
	}
	d := h.pristine(r, lim)
	if d < 0 {
		return -1
	}
	h.used[d] = true
	if n.Bits != "" {
		h.write(d, n.Bits)
	}
	for _, j := range n.Refs {
		h.ref(d, j)
	}
	if n.Special || n.Mask != 0 {
		h.typ(d, n.Special, n.Mask)
	}
	return d
}

func (h *c01Hist) input() sx.V { return sx.L(sx.Nat(h.K), sx.L(h.steps...)) }

var c01HistBits = []string{"", "0", "1", "00000000", "00000111", "0000011100001001",
	"11011110101011011011111011101111", "101", "1111111"}

func c01SomeBits(r *prng.R, nonEmpty bool) string {
	for {
		var b string
		switch r.Intn(10) {
		case 0:
			b = randBits(r, 1+r.Intn(40))
		case 1:
			b = randBits(r, 8*(1+r.Intn(12)))
		default:
			b = c01HistBits[r.Intn(len(c01HistBits))]
		}
		if b != "" || !nonEmpty {
			return b
		}
	}
}

func c01RandApi(r *prng.R) (api, o, hasher int) {
	return r.Intn(4), r.Intn(8), r.Intn(2)
}

// unrelated serialisations (cycle whatever the serialiser keeps between calls)
func (h *c01Hist) noise(r *prng.R) {
	if !r.Chance(50) {
		return
	}
	k := h.K - 1
	if r.Chance(50) {
		h.write(k, c01SomeBits(r, false))
	}
	api, o, hs := c01RandApi(r)
	h.ser(api, k, o, hs)
}

// template A: a cell is serialised, then filled, then put into a parent next
// to a fresh cell equal to its former content
func c01HistFilledLater(r *prng.R) (*c01Hist, string) {
	h := newC01Hist(8)
	body, root := 2, 0
	h.used[root] = true
	x0 := ""
	if r.Chance(50) {
		x0 = c01SomeBits(r, false)
		h.write(body, x0)
	}
	withRef := r.Chance(35)
	if withRef {
		h.write(5, c01SomeBits(r, false))
		h.ref(body, 5)
	}
	former := h.snapshot()[body]
	api, o, hs := c01RandApi(r)
	h.ser(api, body, o, hs)
	h.noise(r)
	// modify
	switch r.Intn(3) {
	case 0:
		h.write(body, c01SomeBits(r, true))
	case 1:
		h.write(4, c01SomeBits(r, false))
		h.ref(body, 4)
	default:
		h.write(body, c01SomeBits(r, true))
		h.ref(body, 5)
	}
	h.noise(r)
	cl := h.clone(r, former)
	h.write(root, c01SomeBits(r, false))
	if cl > root && r.Bool() {
		h.ref(root, cl)
		h.ref(root, body)
	} else {
		h.ref(root, body)
		if cl > root {
			h.ref(root, cl)
		}
	}
	n := 2 + r.Intn(2)
	for i := 0; i < n; i++ {
		api, o, hs = c01RandApi(r)
		h.ser(api, root, o, hs)
	}
	return h, "filled-later"
}

// template B: after a parent was serialised, one child is written to and
// becomes equal to its sibling
func c01HistBecomesEqual(r *prng.R) (*c01Hist, string) {
	h := newC01Hist(6)
	x := c01SomeBits(r, false)
	y := c01SomeBits(r, true)
	h.write(1, x)
	h.write(2, x+y)
	if r.Chance(30) {
		h.write(4, c01SomeBits(r, false))
		h.ref(1, 4)
		h.ref(2, 4)
	}
	h.write(0, c01SomeBits(r, false))
	h.ref(0, 1)
	h.ref(0, 2)
	if r.Chance(30) {
		h.ref(0, 1)
	}
	api, o, hs := c01RandApi(r)
	h.ser(api, 0, o, hs)
	h.noise(r)
	h.write(1, y)
	for i, n := 0, 1+r.Intn(2); i < n; i++ {
		api, o, hs = c01RandApi(r)
		h.ser(api, 0, o, hs)
	}
	return h, "becomes-equal"
}

// template C: a deep cell of a serialised chain is modified; the chain, its
// middle and a parent holding the former content are serialised
func c01HistDeep(r *prng.R) (*c01Hist, string) {
	h := newC01Hist(8)
	h.used[0] = true
	// chain 1 -> 2 -> 3 -> 4
	for k := 1; k <= 4; k++ {
		h.write(k, c01SomeBits(r, false))
		if k < 4 {
			h.ref(k, k+1)
		}
	}
	api, o, hs := c01RandApi(r)
	h.ser(api, 1, o, hs)
	victim := 2 + r.Intn(3)
	former := h.snapshot()[victim]
	h.noise(r)
	h.write(victim, c01SomeBits(r, true))
	api, o, hs = c01RandApi(r)
	h.ser(api, 1, o, hs)
	if cl := h.clone(r, former); cl > 0 {
		h.write(0, c01SomeBits(r, false))
		h.ref(0, 1)
		h.ref(0, cl)
	} else {
		h.ref(0, 1)
	}
	for i, n := 0, 1+r.Intn(2); i < n; i++ {
		api, o, hs = c01RandApi(r)
		h.ser(api, 0, o, hs)
	}
	api, o, hs = c01RandApi(r)
	h.ser(api, victim-1, o, hs)
	return h, "deep"
}

// template D: one caller-supplied hasher, reused as documented (unchanged
// cells, their parents, unrelated cells), dropped when a seen cell changes
func c01HistHasher(r *prng.R) (*c01Hist, string) {
	h := newC01Hist(8)
	h.used[0], h.used[1] = true, true
	for k := 3; k <= 6; k++ {
		h.write(k, c01SomeBits(r, false))
	}
	h.ref(3, 5)
	h.ref(3, 6)
	h.ref(4, 6)
	h.ser(3, 3, r.Intn(8), 0)
	h.ser(3, 3, r.Intn(8), 0)
	h.ser(3, 5, r.Intn(8), 0)
	// a parent of seen cells, built afterwards
	h.write(1, c01SomeBits(r, false))
	h.ref(1, 3)
	h.ref(1, 4)
	h.ser(3, 1, r.Intn(8), 0)
	// an unseen cell changes: the hasher stays
	h.write(7, c01SomeBits(r, true))
	h.ser(3, 7, r.Intn(8), 0)
	h.ser(3, 1, r.Intn(8), 0)
	// a seen cell changes: the hasher is dropped by the harness
	former := h.snapshot()[6]
	h.write(6, c01SomeBits(r, true))
	if cl := h.clone(r, former); cl > 1 {
		h.ref(1, cl)
	}
	h.ser(3, 1, r.Intn(8), 0)
	h.ser(r.Intn(3), 1, r.Intn(8), 0)
	h.ser(3, 1, r.Intn(8), 1)
	return h, "hasher-reuse"
}

// template E: exotic leaves (library cell, pruned branch) under a cell that is
// extended after it was serialised
func c01HistExotic(r *prng.R) (*c01Hist, string) {
	h := newC01Hist(8)
	h.used[0] = true
	mask := uint8(0)
	if r.Bool() {
		h.write(6, byteBits(append([]byte{2}, r.Bytes(32)...)...))
	} else {
		mask = uint8(1 + r.Intn(7))
		data := []byte{1, mask}
		data = append(data, r.Bytes(32*popcount8(mask))...)
		for j := 0; j < popcount8(mask); j++ {
			d := r.Intn(900)
			data = append(data, byte(d>>8), byte(d))
		}
		h.write(6, byteBits(data...))
	}
	h.typ(6, true, mask)
	h.write(3, c01SomeBits(r, false))
	h.ref(3, 6)
	if mask != 0 {
		h.typ(3, false, mask)
	}
	api, o, hs := c01RandApi(r)
	h.ser(api, 3, o, hs)
	former := h.snapshot()[3]
	h.write(3, c01SomeBits(r, true))
	h.noise(r)
	cl := h.clone(r, former)
	h.write(0, c01SomeBits(r, false))
	h.ref(0, 3)
	if cl > 0 {
		h.ref(0, cl)
	}
	if mask != 0 {
		h.typ(0, false, mask)
	}
	for i := 0; i < 2; i++ {
		api, o, hs = c01RandApi(r)
		h.ser(api, 0, o, hs)
	}
	return h, "exotic"
}

// random histories
func c01HistRandom(r *prng.R) (*c01Hist, string) {
	K := 5 + r.Intn(5)
	h := newC01Hist(K)
	n := 8 + r.Intn(18)
	for i := 0; i < n; i++ {
		switch p := r.Intn(100); {
		case p < 25:
			h.write(r.Intn(K), c01SomeBits(r, false))
		case p < 45:
			k := r.Intn(K - 1)
			h.ref(k, k+1+r.Intn(K-1-k))
		case p < 60:
			if len(h.former) > 0 {
				h.clone(r, h.former[r.Intn(len(h.former))])
			}
		default:
			api, o, hs := c01RandApi(r)
			k := r.Intn(K)
			if r.Chance(50) {
				k = r.Intn(2)
			}
			h.ser(api, k, o, hs)
			if r.Chance(25) {
				api, o, hs = c01RandApi(r)
				h.ser(api, k, o, hs)
			}
		}
	}
	api, o, hs := c01RandApi(r)
	h.ser(api, 0, o, hs)
	return h, "random"
}

// c01HistGen emits the histories one at a time, so that genC01 can interleave
// them with the (for the extracted model much more expensive) c01.ser cases:
// bin/check hands contiguous chunks of the case list to a pool of model
// processes.
type c01HistGen struct {
	c    *Ctx
	r    *prng.R
	i, n int
}

func newC01HistGen(c *Ctx, r *prng.R) *c01HistGen {
	return &c01HistGen{c: c, r: r, n: c.Scale(100, 3000)}
}

// next emits up to k histories
func (g *c01HistGen) next(k int) {
	c, r := g.c, g.r
	for ; k > 0 && g.i < g.n; k-- {
		i := g.i
		g.i++
		var h *c01Hist
		var name string
		switch i % 10 {
		case 0, 1, 2:
			h, name = c01HistFilledLater(r)
		case 3, 4:
			h, name = c01HistBecomesEqual(r)
		case 5:
			h, name = c01HistDeep(r)
		case 6:
			h, name = c01HistHasher(r)
		case 7:
			h, name = c01HistExotic(r)
		default:
			h, name = c01HistRandom(r)
		}
		in := h.input()
		out := c.Emit("c01.hist", in, fmt.Sprintf("hist|%s|sers%d", name, minInt(len(h.sers), 8)))
		c01HistOracle(c, in, h, out)
	}
}

// rest emits the histories not emitted yet
func (g *c01HistGen) rest() { g.next(g.n) }

// Go-side oracles of a history: every output parses back to the current
// structure with the current hash (cert), and equals the bytes of a freshly
// built copy of the current structure serialised with a new hasher ("equal
// structures give equal bytes regardless of history").
func c01HistOracle(c *Ctx, in sx.V, h *c01Hist, out sx.V) {
	defer func() { _ = recover() }()
	if out.K != sx.KL || len(out.List) != len(h.sers) {
		c.Fail("c01.hist", in, "hist-outcome", "the history was not executed: "+trunc(out.String(), 60))
		return
	}
	for i, s := range h.sers {
		cells, err := buildGo(s.nodes)
		if err != nil {
			return
		}
		fresh, ferr := cells[s.k].ToBocCustomWithHasher(boc.NewHasher(), s.o&1 != 0, s.o&2 != 0, s.o&4 != 0, 0)
		got := out.List[i]
		if got.K != sx.KL || len(got.List) != 2 {
			if ferr == nil {
				c.Fail("c01.hist", in, "hist-outcome", fmt.Sprintf("serialisation %d (api %d, cell %d) failed; a freshly built copy of the same structure serialises", i, s.api, s.k))
			}
			continue
		}
		if !got.List[1].Bool {
			c.Fail("c01.hist", in, "hist-roundtrip", fmt.Sprintf("serialisation %d (api %d, cell %d, options %d) does not parse back to the cell's current structure and hash", i, s.api, s.k, s.o))
		}
		if ferr != nil || !bytes.Equal(fresh, got.List[0].Bytes) {
			c.Fail("c01.hist", in, "hist-canonical", fmt.Sprintf("serialisation %d (api %d, cell %d, options %d) differs from the bytes of a freshly built copy of the same structure: %x vs %x", i, s.api, s.k, s.o, trunc(string(got.List[0].Bytes), 64), trunc(string(fresh), 64)))
		}
	}
}
