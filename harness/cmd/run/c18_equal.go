package main

import (
	"fmt"
	"sort"
	"strings"

	"github.com/tonkeeper/tongo/boc"
	"github.com/tonkeeper/tongo/tlb"

	"verifharness/prng"
	"verifharness/sx"
)

func init() {
	execs["c18.viaboc"] = execC18ViaBoc
}

// c18.viaboc: (dag root (op ...)) as c18.multi, but the source first goes
// through ToBoc / DeserializeSingleRootBoc: in a tree that came from a BOC
// equal subtrees are ONE *boc.Cell (the serialiser merges equal cells), while
// a tree built in memory has distinct cells with equal content.  Either way a
// cursor prunes the POSITION it stands on.
func execC18ViaBoc(in sx.V) sx.V {
	dag := dagFromSx(in.List[0])
	cells, err := buildGo(dag)
	if err != nil {
		return sx.A("err")
	}
	raw, err := cells[in.List[1].I()].ToBoc()
	if err != nil {
		return sx.A("err")
	}
	root, err := boc.DeserializeSingleRootBoc(raw)
	if err != nil {
		return sx.A("err")
	}
	prover, err := boc.NewMerkleProver(root)
	if err != nil {
		return sx.A("err")
	}
	var outs []sx.V
	for _, op := range in.List[2].List {
		outs = append(outs, c18RunOp(prover, root, op))
	}
	return sx.L(outs...)
}

// unfoldDag turns every occurrence of a shared cell into a cell of its own:
// distinct cells with equal content (what building a tree in memory gives).
func unfoldDag(dag []Node) []Node {
	var out []Node
	var emit func(i int) int
	emit = func(i int) int {
		idx := len(out)
		out = append(out, Node{Special: dag[i].Special, Mask: dag[i].Mask, Bits: dag[i].Bits})
		var refs []int
		for _, r := range dag[i].Refs {
			refs = append(refs, emit(r))
		}
		out[idx].Refs = refs
		return idx
	}
	emit(0)
	return out
}

// dedupDag merges cells with equal content into one cell (what a BOC round
// trip gives); the representative is the largest index, so references still
// point to later cells.
func dedupDag(dag []Node) []Node {
	rep := make([]int, len(dag))
	byKey := map[string]int{}
	out := make([]Node, len(dag))
	for i := len(dag) - 1; i >= 0; i-- {
		n := dag[i]
		cp := Node{Special: n.Special, Mask: n.Mask, Bits: n.Bits}
		key := fmt.Sprintf("%v|%d|%s", n.Special, n.Mask, n.Bits)
		for _, r := range n.Refs {
			cp.Refs = append(cp.Refs, rep[r])
			key += fmt.Sprintf("|%d", rep[r])
		}
		out[i] = cp
		if j, ok := byKey[key]; ok {
			rep[i] = j
		} else {
			byKey[key] = i
			rep[i] = i
		}
	}
	if rep[0] != 0 {
		return compactDag(out)
	}
	return compactDag(out)
}

// dagFromCell reads a cell tree built by the library into a DAG: one node per
// *boc.Cell (pointer identity), parents before children.
func dagFromCell(root *boc.Cell) []Node {
	var post []*boc.Cell
	seen := map[*boc.Cell]bool{}
	var visit func(c *boc.Cell)
	visit = func(c *boc.Cell) {
		if seen[c] {
			return
		}
		seen[c] = true
		for _, r := range c.Refs() {
			visit(r)
		}
		post = append(post, c)
	}
	visit(root)
	idx := map[*boc.Cell]int{}
	n := len(post)
	for k, c := range post {
		idx[c] = n - 1 - k
	}
	dag := make([]Node, n)
	for c, i := range idx {
		bs := c.RawBitString()
		nd := Node{Special: c.IsExotic(), Mask: uint8(boc.VerifMask(c)), Bits: bitsOf(&bs)}
		for _, r := range c.Refs() {
			nd.Refs = append(nd.Refs, idx[r])
		}
		dag[i] = nd
	}
	return dag
}

// mirroredDict: keys = head ++ (every j-bit string) ++ suffix for a few
// suffixes, values depending on the suffix only: below the head the
// dictionary is a full binary tree of depth j whose subtrees are pairwise
// equal in content — with an independent encoder or with tlb.Marshal.
func mirroredKeys(r *prng.R, width int) (keys []string, vals []uint32) {
	j := 1 + r.Intn(3)
	if j > width {
		j = width
	}
	ns := 1 + r.Intn(3)
	headLen := r.Intn(width - j + 1)
	sufLen := width - j - headLen
	head := randBits(r, headLen)
	sufSet := map[string]uint32{}
	for t := 0; t < 4*ns && len(sufSet) < ns; t++ {
		sufSet[randBits(r, sufLen)] = uint32(r.U64())
	}
	if r.Chance(40) { // a "set": one constant value
		for s := range sufSet {
			sufSet[s] = 1
		}
	}
	// some irregular extra keys elsewhere
	extra := map[string]uint32{}
	if headLen > 0 && r.Chance(50) {
		for t := 0; t < 1+r.Intn(3); t++ {
			k := randBits(r, width)
			if !strings.HasPrefix(k, head) {
				extra[k] = uint32(r.U64())
			}
		}
	}
	m := map[string]uint32{}
	for mid := 0; mid < 1<<uint(j); mid++ {
		for s, v := range sufSet {
			m[head+fmt.Sprintf("%0*b", j, mid)+s] = v
		}
	}
	for k, v := range extra {
		m[k] = v
	}
	for k := range m {
		keys = append(keys, k)
	}
	sort.Strings(keys)
	for _, k := range keys {
		vals = append(vals, m[k])
	}
	return
}

func bitsToU64(s string) uint64 {
	var v uint64
	for _, ch := range s {
		v = v<<1 | uint64(ch-'0')
	}
	return v
}

// marshalDict builds the dictionary with the library's own encoder
// (tlb.NewHashmap + tlb.Marshal): a tree built in memory.
func marshalDict(width int, keys []string, vals []uint32) (*boc.Cell, error) {
	vs := make([]tlb.Uint32, len(vals))
	for i, v := range vals {
		vs[i] = tlb.Uint32(v)
	}
	c := boc.NewCell()
	var err error
	switch width {
	case 8:
		ks := make([]tlb.Uint8, len(keys))
		for i, k := range keys {
			ks[i] = tlb.Uint8(bitsToU64(k))
		}
		err = tlb.Marshal(c, tlb.NewHashmap(ks, vs))
	case 16:
		ks := make([]tlb.Uint16, len(keys))
		for i, k := range keys {
			ks[i] = tlb.Uint16(bitsToU64(k))
		}
		err = tlb.Marshal(c, tlb.NewHashmap(ks, vs))
	case 32:
		ks := make([]tlb.Uint32, len(keys))
		for i, k := range keys {
			ks[i] = tlb.Uint32(bitsToU64(k))
		}
		err = tlb.Marshal(c, tlb.NewHashmap(ks, vs))
	default:
		ks := make([]tlb.Uint64, len(keys))
		for i, k := range keys {
			ks[i] = tlb.Uint64(bitsToU64(k))
		}
		err = tlb.Marshal(c, tlb.NewHashmap(ks, vs))
	}
	return c, err
}

// genC18Equal: equal content at several positions — as distinct cells (built
// in memory) and as one shared cell (after a BOC round trip / DAG sharing).
func genC18Equal(c *Ctx) {
	r := c.R
	// 7a. dictionaries with pairwise equal subtrees below forks of the key
	// paths; encoder = independent (minimal labels) or tlb.Marshal; source
	// = distinct cells, one shared cell per content, or through a BOC
	nd := c.Scale(24, 500)
	for i := 0; i < nd; i++ {
		width := []int{8, 16, 32, 64}[r.Intn(4)]
		keys, vals := mirroredKeys(r, width)
		var dag []Node
		enc := "independent"
		if i%2 == 1 {
			enc = "tlb.Marshal"
			root, err := marshalDict(width, keys, vals)
			if err != nil {
				c.Fail("c18.key", sx.L(), "marshal-error", "tlb.Marshal of a dictionary failed: "+err.Error())
				continue
			}
			dag = dagFromCell(root)
		} else {
			buildDict(&dag, keys, vals, 0, r, 0)
		}
		shared := dedupDag(dag)
		probe := keys
		if len(probe) > 5 {
			probe = []string{keys[0], keys[1], keys[len(keys)-1], keys[r.Intn(len(keys))], keys[r.Intn(len(keys))]}
			if c.Thorough() {
				probe = append(probe, keys[r.Intn(len(keys))], keys[r.Intn(len(keys))], keys[len(keys)/2])
			}
		}
		class := fmt.Sprintf("equal-dict|%s|w%d", enc, bucket(width))
		// distinct cells, one prover per key
		src := newC18Src(dag)
		dsx := dagSx(dag)
		for _, k := range probe[:minInt(len(probe), 3)] {
			in := sx.L(dsx, sx.Nat(0), sx.Bits(k), sx.Nat(32))
			out := c.Emit("c18.key", in, class+"|distinct-cells")
			c18KeyOracle(c, "c18.key", in, "", src, k, out)
		}
		// histories: distinct cells / shared cells / through a BOC
		var ops []sx.V
		for _, k := range probe {
			ops = append(ops, opKey(k))
		}
		if ak, ok := absentKey(r, keys, width, true); ok {
			ops = append(ops, opKey(ak))
		}
		ops = append(ops, opWalk(randPaths(r, dag, 1+r.Intn(2), 6)))
		switch i % 3 {
		case 0:
			in := sx.L(dsx, sx.Nat(0), sx.L(ops...))
			out := c.Emit("c18.multi", in, class+"|distinct-cells|history")
			c18MultiOracleKind(c, "c18.multi", in, src, ops, out)
		case 1:
			in := sx.L(dagSx(shared), sx.Nat(0), sx.L(ops...))
			out := c.Emit("c18.multi", in, class+"|shared-cells|history")
			c18MultiOracleKind(c, "c18.multi", in, newC18Src(shared), ops, out)
		default:
			in := sx.L(dsx, sx.Nat(0), sx.L(ops...))
			out := c.Emit("c18.viaboc", in, class+"|via-boc|history")
			c18MultiOracleKind(c, "c18.viaboc", in, src, ops, out)
		}
	}
	// 7b. arbitrary trees in which the same content occurs at several
	// positions: a DAG with sharing (one cell), its unfolding (distinct
	// cells), and either of them through a BOC; prune some occurrences only
	nt := c.Scale(30, 700)
	for i := 0; i < nt; i++ {
		size := 3 + r.Intn(7)
		base := smallTree(150, func() []Node {
			d := randDag(r, size)
			// make sure something is shared
			if len(d) > 2 {
				for t := 0; t < 2; t++ {
					p := r.Intn(len(d) - 1)
					if len(d[p].Refs) < 4 {
						d[p].Refs = append(d[p].Refs, p+1+r.Intn(len(d)-1-p))
					}
				}
			}
			return d
		})
		dag, form := base, "shared-cells"
		if i%2 == 1 {
			dag, form = unfoldDag(base), "distinct-cells"
		}
		nops := 1 + r.Intn(3)
		var ops []sx.V
		for j := 0; j < nops; j++ {
			ops = append(ops, opWalk(randPaths(r, dag, 1+r.Intn(3), 4)))
		}
		kind := "c18.multi"
		if i%4 >= 2 {
			kind, form = "c18.viaboc", form+"|via-boc"
		}
		in := sx.L(dagSx(dag), sx.Nat(0), sx.L(ops...))
		out := c.Emit(kind, in, fmt.Sprintf("equal-tree|%s|n%d|ops%d", form, bucket(unfoldedSize(dag)), nops))
		c18MultiOracleKind(c, kind, in, newC18Src(dag), ops, out)
	}
}
