package main

// C12: the real liteclient.Client (Request, registry, per-connection readers,
// Connection status machine and reconnect) against an in-process fake ADNL
// lite server on loopback TCP.  The server side of the handshake and of the
// packet framing is written here; query ids are learnt from the queries the
// server receives (every call sends a unique payload).

import (
	"bufio"
	"bytes"
	"context"
	"crypto/aes"
	"crypto/cipher"
	"crypto/ed25519"
	"crypto/rand"
	"crypto/sha256"
	"encoding/binary"
	"fmt"
	"io"
	"log/slog"
	"net"
	"os"
	"strings"
	"sync"
	"sync/atomic"
	"time"

	"github.com/tonkeeper/tongo/liteclient"

	"verifharness/sx"
)

const (
	c12MagicQuery     = 0xb48bf97a
	c12MagicAnswer    = 0x0fac8416
	c12MagicPing      = 0x4d082b9a
	c12MagicPong      = 0xdc69fb03
	c12MagicAuthNonce = 0xe35d4ab6
	c12MagicAuth      = 0x445bab12
	c12MagicPubKey    = 0x4813b4c6
)

var c12QuietOnce sync.Once

// the client reports dropped packets and reconnect attempts with fmt.Printf /
// slog; keep that out of the harness' own output
func c12Quiet() {
	c12QuietOnce.Do(func() {
		if f, err := os.OpenFile(os.DevNull, os.O_WRONLY, 0); err == nil {
			os.Stdout = f
		}
		slog.SetDefault(slog.New(slog.NewTextHandler(io.Discard, nil)))
	})
}

// ---- fake server ----

type c12Query struct {
	id [32]byte
	k  int
}

type c12Server struct {
	priv        ed25519.PrivateKey
	pub         ed25519.PublicKey
	lns         []*c12Ln
	mu          sync.Mutex
	q           map[string]c12Query // first 16 bytes of the request -> query id, connection
	autoPong    bool
	pings       atomic.Int64
	pongAt      []time.Time  // when a pong was written (under mu)
	pingAt      []time.Time  // when a ping arrived (under mu)
	undecodable atomic.Int64 // queries whose bytes field the server could not read
	// authentication (tcp.authentificate -> nonce -> complete) and the latest query
	needAuth bool         // clients authenticate: a connection abandoned before that counts as a failed attempt
	auths    atomic.Int64 // completions with a valid signature
	badAuth  atomic.Int64
	greet    func(k, gen int) [][]byte // packets written right behind the handshake answer of connection gen of listener k (under mu)
	nq       int      // queries received (under mu)
	last     c12Query // the latest one (under mu)
	lastRaw  []byte
}

type c12Ln struct {
	srv  *c12Server
	k    int
	ln   net.Listener
	mu   sync.Mutex
	cur  *c12Conn
	gen  int // number of completed handshakes on this listener
	upAt []time.Time
	// outage: connections are accepted and closed at once, before the handshake
	down      atomic.Bool
	refusedAt []time.Time
	// black hole, applied to connections accepted from now on: 1 = TCP accept only,
	// 2 = the first bytes of the handshake answer and nothing more, 3 = handshake
	// answered, then silence (nothing is ever written again).  A held connection
	// that the client gives up is recorded in refusedAt.
	hs atomic.Int32
	// authentication of connections accepted from now on: 1 = tcp.authentificate is
	// never answered, 3 = answered with two nonce packets back to back, the first malformed
	authHole atomic.Int32
	// the server stops reading: the client's writes fill the socket buffers and block
	stall atomic.Bool
	// the handshake answer is delayed by this many milliseconds
	hsDelay atomic.Int32
	authAt  []time.Time // verified tcp.authentificationComplete
	all     []*c12Conn
}

type c12Conn struct {
	c      net.Conn
	tx     cipher.Stream
	wmu    sync.Mutex
	mute   bool        // writes are dropped
	closed atomic.Bool // the read loop has ended: the client (or close()) ended the connection
	authed atomic.Bool
}

func newC12Server(nconn int) (*c12Server, error) {
	pub, priv, err := ed25519.GenerateKey(rand.Reader)
	if err != nil {
		return nil, err
	}
	s := &c12Server{priv: priv, pub: pub, q: map[string]c12Query{}}
	for k := 0; k < nconn; k++ {
		ln, err := net.Listen("tcp", "127.0.0.1:0")
		if err != nil {
			s.close()
			return nil, err
		}
		l := &c12Ln{srv: s, k: k, ln: ln}
		s.lns = append(s.lns, l)
		go l.acceptLoop()
	}
	return s, nil
}

func (s *c12Server) close() {
	for _, l := range s.lns {
		l.ln.Close()
		l.mu.Lock()
		for _, c := range l.all {
			c.c.Close()
		}
		l.mu.Unlock()
	}
}

func (l *c12Ln) acceptLoop() {
	for {
		c, err := l.ln.Accept()
		if err != nil {
			return
		}
		go l.serve(c)
	}
}

func c12CTR(key, iv []byte) cipher.Stream {
	b, err := aes.NewCipher(key)
	if err != nil {
		panic(err)
	}
	return cipher.NewCTR(b, iv)
}

// server side of encryptedConn.handshake
func (l *c12Ln) serve(c net.Conn) {
	s := l.srv
	if l.down.Load() {
		l.mu.Lock()
		l.refusedAt = append(l.refusedAt, time.Now())
		l.mu.Unlock()
		c.Close()
		return
	}
	mode := l.hs.Load()
	hold := func() {
		l.mu.Lock()
		l.all = append(l.all, &c12Conn{c: c, mute: true})
		l.mu.Unlock()
		io.Copy(io.Discard, c) // until the client (or close()) ends it
		l.mu.Lock()
		l.refusedAt = append(l.refusedAt, time.Now())
		l.mu.Unlock()
		c.Close()
	}
	if mode == 1 {
		hold()
		return
	}
	req := make([]byte, 256)
	c.SetReadDeadline(time.Now().Add(5 * time.Second))
	if _, err := io.ReadFull(c, req); err != nil {
		c.Close()
		return
	}
	c.SetReadDeadline(time.Time{})
	ah := sha256.New()
	ah.Write([]byte{0xc6, 0xb4, 0x13, 0x48})
	ah.Write(s.pub)
	if !bytes.Equal(req[:32], ah.Sum(nil)) {
		c.Close()
		return
	}
	shared, err := liteclient.VerifC12SharedKey(s.priv, ed25519.PublicKey(req[32:64]))
	if err != nil {
		c.Close()
		return
	}
	h := req[64:96]
	key := append(append([]byte{}, shared[:16]...), h[16:32]...)
	iv := append(append([]byte{}, h[0:4]...), shared[20:32]...)
	params := make([]byte, 160)
	c12CTR(key, iv).XORKeyStream(params, req[96:256])
	ph := sha256.Sum256(params)
	if !bytes.Equal(ph[:], h) {
		c.Close()
		return
	}
	rx := c12CTR(params[32:64], params[80:96]) // the client's tx
	fc := &c12Conn{c: c, tx: c12CTR(params[0:32], params[64:80])}
	if mode == 2 {
		if p, err := liteclient.NewPacket(nil); err == nil {
			b := liteclient.VerifMarshalPacket(p)
			fc.tx.XORKeyStream(b, b)
			c.Write(b[:10])
		}
		hold()
		return
	}
	l.mu.Lock()
	l.all = append(l.all, fc)
	l.mu.Unlock()
	if d := l.hsDelay.Load(); d > 0 {
		time.Sleep(time.Duration(d) * time.Millisecond)
	}
	// the empty packet that completes the handshake and, in the SAME Write, whatever the
	// scenario lets the server say first (c12_r8.go): the boundary between handshake and session
	if err := fc.sendBurst(append([][]byte{nil}, s.greeting(l)...)); err != nil {
		return
	}
	l.mu.Lock()
	fc.mute = mode == 3
	l.cur = fc
	l.gen++
	l.upAt = append(l.upAt, time.Now())
	l.mu.Unlock()
	rd := bufio.NewReader(c)
	var clientNonce, serverNonce []byte
	authHole := l.authHole.Load()
	defer func() {
		fc.closed.Store(true)
		if s.needAuth && !fc.authed.Load() {
			l.mu.Lock()
			l.refusedAt = append(l.refusedAt, time.Now())
			l.mu.Unlock()
		}
	}()
	for {
		for l.stall.Load() {
			time.Sleep(time.Millisecond)
		}
		p, err := liteclient.ParsePacket(rd, rx)
		if err != nil {
			return
		}
		switch p.MagicType() {
		case c12MagicQuery:
			if len(p.Payload) < 37 {
				continue
			}
			var q c12Query
			copy(q.id[:], p.Payload[4:36])
			q.k = l.k
			data, ok := c12ReadBytes(p.Payload[36:])
			if !ok {
				s.undecodable.Add(1) // not a well-formed adnl.message.query: a real server drops it
				continue
			}
			s.mu.Lock()
			if len(data) >= 16 {
				s.q[string(data[:16])] = q
			}
			s.nq++
			s.last, s.lastRaw = q, data
			s.mu.Unlock()
		case c12MagicAuth:
			if authHole == 1 {
				continue
			}
			if authHole == 3 {
				bad := make([]byte, 4, 40)
				binary.LittleEndian.PutUint32(bad, c12MagicAuthNonce)
				fc.send(c12Align(append(append(bad, 255), make([]byte, 32)...)))
			}
			clientNonce = append([]byte{}, c12DecodeBytes(p.Payload[4:])...)
			serverNonce = make([]byte, 32)
			rand.Read(serverNonce)
			b := make([]byte, 4, 40)
			binary.LittleEndian.PutUint32(b, c12MagicAuthNonce)
			b = append(b, c12EncLen(len(serverNonce))...)
			fc.send(c12Align(append(b, serverNonce...)))
		case c12MagicPubKey:
			// sendAuthComplete writes the pub.ed25519 magic over the tcp.authentificationComplete one
			if len(p.Payload) >= 37 && serverNonce != nil {
				key := ed25519.PublicKey(p.Payload[4:36])
				sig := c12DecodeBytes(p.Payload[36:])
				if len(sig) == ed25519.SignatureSize && ed25519.Verify(key, append(append([]byte{}, clientNonce...), serverNonce...), sig) {
					s.auths.Add(1)
					fc.authed.Store(true)
					l.mu.Lock()
					l.authAt = append(l.authAt, time.Now())
					l.mu.Unlock()
				} else {
					s.badAuth.Add(1)
				}
			}
		case c12MagicPing:
			s.pings.Add(1)
			s.mu.Lock()
			s.pingAt = append(s.pingAt, time.Now())
			s.mu.Unlock()
			if s.autoPong && len(p.Payload) == 12 {
				pong := make([]byte, 12)
				binary.LittleEndian.PutUint32(pong, c12MagicPong)
				copy(pong[4:], p.Payload[4:])
				if fc.send(pong) == nil {
					s.mu.Lock()
					s.pongAt = append(s.pongAt, time.Now())
					s.mu.Unlock()
				}
			}
		}
	}
}

// c12ReadBytes is the server's own reader of a TL `bytes` field that must fill b
// exactly: length prefix in its canonical form (one byte below 254, else 254 and
// three bytes), the data, zero padding to a multiple of four
func c12ReadBytes(b []byte) ([]byte, bool) {
	if len(b) == 0 {
		return nil, false
	}
	head, n := 1, int(b[0])
	if b[0] == 255 {
		return nil, false
	}
	if b[0] == 254 {
		if len(b) < 4 {
			return nil, false
		}
		head, n = 4, int(b[1])|int(b[2])<<8|int(b[3])<<16
		if n < 254 {
			return nil, false
		}
	}
	end := head + n
	padded := (end + 3) &^ 3
	if len(b) != padded {
		return nil, false
	}
	for _, z := range b[end:] {
		if z != 0 {
			return nil, false
		}
	}
	return b[head:end], true
}

func c12DecodeBytes(b []byte) []byte {
	if len(b) == 0 {
		return nil
	}
	if b[0] < 254 {
		n := int(b[0])
		if len(b) < 1+n {
			return nil
		}
		return b[1 : 1+n]
	}
	if len(b) < 4 {
		return nil
	}
	n := int(b[1]) | int(b[2])<<8 | int(b[3])<<16
	if len(b) < 4+n {
		return nil
	}
	return b[4 : 4+n]
}

func (fc *c12Conn) send(payload []byte) error {
	p, err := liteclient.NewPacket(payload)
	if err != nil {
		return err
	}
	b := liteclient.VerifMarshalPacket(p)
	fc.wmu.Lock()
	defer fc.wmu.Unlock()
	if fc.mute {
		return nil
	}
	fc.c.SetWriteDeadline(time.Now().Add(5 * time.Second)) // a client that stopped reading must not block the server
	fc.tx.XORKeyStream(b, b)
	_, err = fc.c.Write(b)
	return err
}

// open counts the connections with a completed handshake that nobody has ended yet
func (l *c12Ln) open() int {
	l.mu.Lock()
	defer l.mu.Unlock()
	n := 0
	for _, fc := range l.all {
		if fc.tx != nil && !fc.closed.Load() {
			n++
		}
	}
	return n
}

// sendBroken writes a frame that ParsePacket must reject: 0 = wrong checksum,
// 1 = length below the minimum of 64, 2 = length above the maximum of 8 MiB
func (fc *c12Conn) sendBroken(v int) error {
	p, err := liteclient.NewPacket(make([]byte, 24))
	if err != nil {
		return err
	}
	b := liteclient.VerifMarshalPacket(p)
	switch v % 3 {
	case 0:
		b[len(b)-1] ^= 0x55
	case 1:
		binary.LittleEndian.PutUint32(b, 10)
	default:
		binary.LittleEndian.PutUint32(b, 9<<20)
	}
	fc.wmu.Lock()
	defer fc.wmu.Unlock()
	fc.tx.XORKeyStream(b, b)
	_, err = fc.c.Write(b)
	return err
}

func (l *c12Ln) current() (*c12Conn, int) {
	l.mu.Lock()
	defer l.mu.Unlock()
	return l.cur, l.gen
}

func (s *c12Server) emit(k int, payload []byte) error {
	fc, _ := s.lns[k].current()
	if fc == nil {
		return fmt.Errorf("no connection")
	}
	return fc.send(payload)
}

// drop closes the established connection of listener k; rst: abortive close
func (s *c12Server) drop(k int, rst bool) {
	fc, _ := s.lns[k].current()
	if fc == nil {
		return
	}
	if tc, ok := fc.c.(*net.TCPConn); ok && rst {
		tc.SetLinger(0)
	}
	fc.c.Close()
}

func (s *c12Server) query(key []byte) (c12Query, bool) {
	s.mu.Lock()
	defer s.mu.Unlock()
	q, ok := s.q[string(key)]
	return q, ok
}

// ---- packets ----

func c12Align(b []byte) []byte {
	for len(b)%4 != 0 {
		b = append(b, 0)
	}
	return b
}

func c12EncLen(n int) []byte {
	if n >= 254 {
		return []byte{254, byte(n), byte(n >> 8), byte(n >> 16)}
	}
	return []byte{byte(n)}
}

func c12AnswerHead(id [32]byte) []byte {
	b := make([]byte, 4, 64)
	binary.LittleEndian.PutUint32(b, c12MagicAnswer)
	return append(b, id[:]...)
}

func c12Answer(id [32]byte, data []byte) []byte {
	b := c12AnswerHead(id)
	b = append(b, c12EncLen(len(data))...)
	b = append(b, data...)
	return c12Align(b)
}

// the answer payload for the model's abstract datum d: low 11 bits = length
func c12Data(d uint64) []byte {
	n := int(d & 2047)
	seq := uint32(d >> 11)
	h := seq * 2654435761
	b := make([]byte, n)
	for j := range b {
		b[j] = byte(h>>(8*(uint(j)%4))) + byte(j/4)
	}
	return b
}

// answers whose length prefix does not decode or promises more than there is
func c12Malformed(id [32]byte, v int) []byte {
	b := c12AnswerHead(id)
	switch v % 4 {
	case 0:
		return c12Align(append(b, 255, 1, 2, 3))
	case 1:
		return c12Align(append(b, 200, 1, 2, 3)) // 200 bytes announced, 3 present
	case 2:
		return append(b, 254, 0xff, 0xff, 0xff) // 16 MB announced
	default:
		return append(b, 254) // 37 bytes: long form without its 3 length bytes
	}
}

func c12WrongMagic(id [32]byte, data []byte) []byte {
	b := c12Answer(id, data)
	binary.LittleEndian.PutUint32(b, c12MagicQuery)
	return b
}

func c12Junk(v int) []byte {
	switch v % 8 {
	case 0:
		return nil // empty payload
	case 1:
		return []byte{1, 2} // shorter than a magic
	case 2: // pong of the wrong size: passed on to the client's reader
		b := make([]byte, 16)
		binary.LittleEndian.PutUint32(b, c12MagicPong)
		return b
	case 3: // a query sent to the client
		b := make([]byte, 44)
		binary.LittleEndian.PutUint32(b, c12MagicQuery)
		return b
	case 4: // answer magic only
		b := make([]byte, 4)
		binary.LittleEndian.PutUint32(b, c12MagicAnswer)
		return b
	case 5: // answer magic, 35 bytes
		b := make([]byte, 35)
		binary.LittleEndian.PutUint32(b, c12MagicAnswer)
		return b
	case 6:
		b := make([]byte, 300)
		binary.LittleEndian.PutUint32(b, 0xdeadbeef)
		return b
	default:
		b := make([]byte, 8)
		binary.LittleEndian.PutUint32(b, c12MagicPing)
		return b
	}
}

func c12Pong(v int) []byte {
	b := make([]byte, 12)
	binary.LittleEndian.PutUint32(b, c12MagicPong)
	binary.LittleEndian.PutUint64(b[4:], uint64(v)*0x9e3779b97f4a7c15)
	return b
}

func c12Nonce() []byte {
	b := make([]byte, 4, 40)
	binary.LittleEndian.PutUint32(b, c12MagicAuthNonce)
	b = append(b, 32)
	b = append(b, make([]byte, 32)...)
	return c12Align(b)
}

// ---- client under test ----

// c12Watch runs f under a watchdog: hooks and accessors that take one of the client's
// locks must not freeze the harness when the client has wedged itself
func c12Watch[T any](f func() T) (v T, ok bool) {
	ch := make(chan T, 1)
	go func() { ch <- f() }()
	select {
	case v = <-ch:
		return v, true
	case <-time.After(2 * time.Second):
		return v, false
	}
}

var c12StuckClients sync.Map // *liteclient.Client -> true: its registry lock never came back

// registry size, -1 when Client.queriesMutex is stuck
func c12RegSize(cl *liteclient.Client) int {
	if _, stuck := c12StuckClients.Load(cl); stuck {
		return -1
	}
	n, ok := c12Watch(func() int { return cl.VerifRegistrySize() })
	if !ok {
		c12StuckClients.Store(cl, true)
		return -1
	}
	return n
}

func c12Registered(cl *liteclient.Client, id [32]byte) bool {
	if _, stuck := c12StuckClients.Load(cl); stuck {
		return false
	}
	r, ok := c12Watch(func() bool { return cl.VerifC12Registered(id) })
	if !ok {
		c12StuckClients.Store(cl, true)
		return false
	}
	return r
}

func c12Stuck(cl *liteclient.Client) bool {
	_, stuck := c12StuckClients.Load(cl)
	return stuck
}

const c12StuckWhat = "Client.queriesMutex is never released: a hook that takes it did not return within 2 s; every call blocks in registerCallback / unregisterCallback"

type c12Env struct {
	srv   *c12Server
	conns []*liteclient.Connection
	cl    *liteclient.Client
	D     time.Duration
	tag   [8]byte
}

func newC12Env(nconn int, D time.Duration) (*c12Env, error) { return newC12EnvAuth(nconn, D, nil) }

// with an auth key the connections authenticate (tcp.authentificate -> nonce -> complete)
func newC12EnvAuth(nconn int, D time.Duration, authKey ed25519.PrivateKey) (*c12Env, error) {
	c12Quiet()
	srv, err := newC12Server(nconn)
	if err != nil {
		return nil, err
	}
	srv.needAuth = authKey != nil
	e := &c12Env{srv: srv, D: D}
	rand.Read(e.tag[:])
	for k := 0; k < nconn; k++ {
		ctx, cancel := context.WithTimeout(context.Background(), 5*time.Second)
		var conn *liteclient.Connection
		if authKey != nil {
			conn, err = liteclient.VerifC12DialAuth(ctx, srv.pub, srv.lns[k].ln.Addr().String(), authKey)
		} else {
			conn, err = liteclient.VerifC12Dial(ctx, srv.pub, srv.lns[k].ln.Addr().String())
		}
		cancel()
		if err != nil {
			srv.close()
			return nil, err
		}
		e.conns = append(e.conns, conn)
	}
	// the server registers the connection after the client has seen the handshake reply
	if !c12Wait(2*time.Second, func() bool {
		for _, l := range srv.lns {
			if _, g := l.current(); g < 1 {
				return false
			}
		}
		return true
	}) {
		srv.close()
		return nil, fmt.Errorf("handshake not completed")
	}
	e.cl = liteclient.VerifNewClient(e.conns, D)
	return e, nil
}

func (e *c12Env) close() { e.srv.close() }

func c12Wait(limit time.Duration, f func() bool) bool {
	deadline := time.Now().Add(limit)
	for i := 0; ; i++ {
		if f() {
			return true
		}
		if time.Now().After(deadline) {
			return false
		}
		if i < 50 {
			time.Sleep(20 * time.Microsecond)
		} else {
			time.Sleep(200 * time.Microsecond)
		}
	}
}

type c12Call struct {
	i     int
	key   []byte
	start time.Time
	done  chan struct{}
	res   []byte
	err   error
	dur   time.Duration
	// the caller's context: 0 Background, 1 deadline far later than the client
	// timeout, 2 deadline at a third of it, 3 cancel-only
	ctxMode   int
	cancel    context.CancelFunc
	cancelled time.Time
}

// deadline that applies to the call: the earlier of client timeout and caller deadline
func (c *c12Call) deff(D time.Duration) time.Duration {
	if c.ctxMode == 2 {
		return D / 3
	}
	return D
}

func (e *c12Env) callKey(i int) []byte {
	b := make([]byte, 16)
	copy(b, e.tag[:])
	binary.LittleEndian.PutUint64(b[8:], uint64(i))
	return b
}

// startCall issues Client.Request in its own goroutine; pad > 0 makes the
// request longer (length prefix forms 1 and 4 bytes)
func (e *c12Env) startCall(i, pad int) *c12Call { return e.startCallCtx(i, pad, 0) }

func (e *c12Env) startCallCtx(i, pad, mode int) *c12Call {
	c := &c12Call{i: i, key: e.callKey(i), done: make(chan struct{}), ctxMode: mode}
	q := append(append([]byte{}, c.key...), make([]byte, pad)...)
	ctx := context.Background()
	switch mode {
	case 1:
		ctx, c.cancel = context.WithTimeout(ctx, time.Hour)
	case 2:
		ctx, c.cancel = context.WithTimeout(ctx, e.D/3)
	case 3:
		ctx, c.cancel = context.WithCancel(ctx)
	}
	c.start = time.Now()
	go func() {
		if c.cancel != nil {
			defer c.cancel()
		}
		defer close(c.done)
		defer func() {
			if r := recover(); r != nil {
				c.err = fmt.Errorf("panic: %v", r)
			}
		}()
		c.res, c.err = e.cl.Request(ctx, q)
		c.dur = time.Since(c.start)
	}()
	return c
}

func (c *c12Call) returned() bool {
	select {
	case <-c.done:
		return true
	default:
		return false
	}
}

func (c *c12Call) wait(limit time.Duration) bool {
	select {
	case <-c.done:
		return true
	case <-time.After(limit):
		return false
	}
}

const (
	c12Ok = iota
	c12Timeout
	c12SendErr
	c12Other
)

func (c *c12Call) class() int {
	switch {
	case c.err == nil:
		return c12Ok
	case strings.HasPrefix(c.err.Error(), "request timeout"):
		return c12Timeout
	case liteclient.IsNotConnectedYet(c.err) || strings.HasPrefix(c.err.Error(), "net.Conn.send() failed"):
		return c12SendErr
	default:
		return c12Other
	}
}

// ---- c12.script: deterministic scripts, outcome predicted by the model ----

type c12Fail struct{ key, what string }

type c12ScriptRes struct {
	hang  bool // the client is wedged: repeating with a longer deadline is pointless
	out   sx.V
	slow  bool
	fails []c12Fail
}

const c12Hang = 3 * time.Second // a call that has not returned D + c12Hang after its start hangs

func c12Outcome(c *c12Call, datum map[string]uint64) sx.V {
	if c == nil {
		return sx.A("notstarted")
	}
	if !c.returned() {
		return sx.A("hang")
	}
	switch c.class() {
	case c12Ok:
		if d, ok := datum[string(c.res)]; ok {
			return sx.L(sx.A("ok"), sx.N(d))
		}
		return sx.L(sx.A("ok"), sx.A("unknown-bytes"))
	case c12Timeout:
		return sx.A("expired")
	case c12SendErr:
		return sx.A("err")
	}
	return sx.L(sx.A("other"), sx.Str(c.err.Error()))
}

// for calls under a caller context: which deadline ended the unanswered call
func c12OutcomeCtx(c *c12Call, datum map[string]uint64, D time.Duration) sx.V {
	o := c12Outcome(c, datum)
	if c == nil || c.ctxMode == 0 || !o.IsA("expired") {
		return o
	}
	switch {
	case !c.cancelled.IsZero():
		return sx.L(sx.A("expired"), sx.A("cancelled"))
	case c.dur < 2*D/3:
		return sx.L(sx.A("expired"), sx.A("caller"))
	}
	return sx.L(sx.A("expired"), sx.A("client"))
}

// runC12Script: (nconn ncalls (op ...)); consecutive 'start ops are issued concurrently.
func runC12Script(in sx.V, D time.Duration) (r c12ScriptRes) {
	bad := func(what string) c12ScriptRes {
		r.out = sx.L(sx.A("harness-error"), sx.Str(what))
		return r
	}
	nconn, ncalls, ops := in.List[0].I(), in.List[1].I(), in.List[2].List
	e, err := newC12Env(nconn, D)
	if err != nil {
		return bad("env: " + err.Error())
	}
	defer e.close()
	defer func() {
		if c12Stuck(e.cl) {
			r.hang = true
			for _, f := range r.fails {
				if f.key == "registry-lock-stuck" {
					return
				}
			}
			r.fails = append(r.fails, c12Fail{"registry-lock-stuck", c12StuckWhat})
		}
	}()
	calls := make([]*c12Call, ncalls)
	ids := make([][32]byte, ncalls)
	var stuckUntil time.Time
	finished := make([]bool, ncalls) // returned in an earlier 'finish
	own := make([]map[uint64]bool, ncalls)
	for i := range own {
		own[i] = map[uint64]bool{}
	}
	datum := map[string]uint64{}
	foreign := map[uint64]int{} // datum -> call it was addressed to
	dropped := make([]bool, nconn)
	var regs []sx.V
	fail := func(key, what string) { r.fails = append(r.fails, c12Fail{key, what}) }
	for p := 0; p < len(ops); p++ {
		o := ops[p]
		a := o.List[1:]
		switch o.Head() {
		case "start", "startctx":
			// the maximal run of start ops is one concurrent batch
			var batch []int
			mode := map[int]int{}
			pad := map[int]int{}
			for p < len(ops) && (ops[p].Head() == "start" || ops[p].Head() == "startctx") {
				i := ops[p].List[1].I()
				batch = append(batch, i)
				if ops[p].Head() == "startctx" {
					mode[i] = ops[p].List[2].I()
				}
				p++
			}
			p--
			for _, i := range batch {
				// query sizes around the two forms of the length prefix (16 bytes of key + pad)
				pad[i] = []int{0, 0, 237, 300, 238, 0, 239, 0, 240, 4080, 0, 65520, 0}[i%13]
				calls[i] = e.startCallCtx(i, pad[i], mode[i])
			}
			for _, i := range batch {
				c := calls[i]
				ok := c12Wait(5*time.Second, func() bool {
					q, ok := e.srv.query(c.key)
					if ok {
						ids[i] = q.id
					}
					return ok || c.returned() || c12Stuck(e.cl)
				})
				if c12Stuck(e.cl) {
					r.out = sx.A("registry-lock-stuck") // later calls block in registerCallback
					return r
				}
				if _, got := e.srv.query(c.key); !ok || !got {
					if c.returned() {
						r.slow = true // the deadline passed before the server goroutine ran
					}
					if n := e.srv.undecodable.Load(); n > 0 {
						fail("query-undecodable", fmt.Sprintf("the server could not read the query of call %d (%d bytes): the call cannot get the answer for its own query", i, len(c.key)+pad[i]))
						r.out = sx.A("query-undecodable")
						return r
					}
					return bad(fmt.Sprintf("query of call %d not received", i))
				}
			}
		case "ans", "mal":
			k, i := a[0].I(), a[1].I()
			if calls[i] == nil {
				return bad("emission for a call that was not started")
			}
			var pl []byte
			if o.Head() == "ans" {
				d := a[2].U64()
				data := c12Data(d)
				datum[string(data)] = d
				own[i][d] = true
				foreign[d] = i
				pl = c12Answer(ids[i], data)
			} else {
				pl = c12Malformed(ids[i], a[2].I())
			}
			wasReg := c12Registered(e.cl, ids[i])
			if err := e.srv.emit(k, pl); err != nil {
				return bad("emit: " + err.Error())
			}
			if wasReg {
				// wait until the reader has taken the entry out of the registry
				if !c12Wait(5*time.Second, func() bool { return !c12Registered(e.cl, ids[i]) }) {
					fail("reader-stalled", fmt.Sprintf("packet for the registered call %d on connection %d not processed within 5 s", i, k))
					r.out = sx.A("reader-stalled")
					return r
				}
			}
			if !finished[i] && time.Since(calls[i].start) > D/2 {
				r.slow = true // too close to the deadline to be sure which select branch wins
			}
		case "short":
			if err := e.srv.emit(a[0].I(), c12AnswerHead(ids[a[1].I()])); err != nil {
				return bad("emit: " + err.Error())
			}
		case "wrong": // a well-formed answer for a registered id under another magic
			if err := e.srv.emit(a[0].I(), c12WrongMagic(ids[a[1].I()], c12Data(a[2].U64()))); err != nil {
				return bad("emit: " + err.Error())
			}
		case "unk":
			var id [32]byte
			h := sha256.Sum256(append(e.tag[:], byte(a[1].I()), byte(a[1].I()>>8)))
			copy(id[:], h[:])
			if err := e.srv.emit(a[0].I(), c12Answer(id, c12Data(a[1].U64()))); err != nil {
				return bad("emit: " + err.Error())
			}
		case "pong":
			if err := e.srv.emit(a[0].I(), c12Pong(a[1].I())); err != nil {
				return bad("emit: " + err.Error())
			}
		case "junk":
			if err := e.srv.emit(a[0].I(), c12Junk(a[1].I())); err != nil {
				return bad("emit: " + err.Error())
			}
		case "nonce":
			if err := e.srv.emit(a[0].I(), c12Nonce()); err != nil {
				return bad("emit: " + err.Error())
			}
		case "drop":
			e.srv.drop(a[0].I(), a[1].I() == 1)
			dropped[a[0].I()] = true
		case "reg":
			regs = append(regs, sx.Nat(c12RegSize(e.cl)))
		case "cancel": // the caller cancels the context of a waiting, unanswered call
			c := calls[a[0].I()]
			if c == nil || c.cancel == nil {
				return bad("cancel of a call without a cancellable context")
			}
			if c.returned() {
				r.slow = true // its deadline came first: the machine is too slow for this script
				break
			}
			c.cancelled = time.Now()
			c.cancel()
			if c12Stuck(e.cl) {
				break
			}
			if !c.wait(2 * time.Second) {
				fail("cancel-ignored", fmt.Sprintf("call %d has not returned 2 s after its context was cancelled", a[0].I()))
			}
		case "finish":
			for i, c := range calls {
				if c != nil {
					finished[i] = true
				}
				if c == nil || c.returned() {
					continue
				}
				left := time.Until(c.start.Add(c.deff(D) + c12Hang))
				if c12Stuck(e.cl) { // the client is wedged: nothing will return any more; 300 ms for all of them
					if stuckUntil.IsZero() {
						stuckUntil = time.Now().Add(300 * time.Millisecond)
					}
					if l := time.Until(stuckUntil); l < left {
						left = l
					}
				}
				if !c.wait(left) {
					r.hang = true
					fail("call-hangs", fmt.Sprintf("call %d (caller context %d) has not returned %v after its deadline of %v", i, c.ctxMode, c12Hang, c.deff(D)))
				}
			}
		default:
			return bad("op " + o.Head())
		}
	}
	// property oracle, stated directly
	outs := make([]sx.V, ncalls)
	for i, c := range calls {
		outs[i] = c12OutcomeCtx(c, datum, D)
		if c == nil || !c.returned() {
			continue
		}
		if c.ctxMode == 2 && c.class() == c12Timeout && c.dur >= 2*D/3 {
			r.slow = true // the caller's short deadline was noticed too late to tell it from the client timeout
		}
		D := c.deff(D)
		switch c.class() {
		case c12Ok:
			d, known := datum[string(c.res)]
			if !known {
				fail("foreign-answer", fmt.Sprintf("call %d returned %d bytes that the server never sent", i, len(c.res)))
			} else if !own[i][d] {
				fail("foreign-answer", fmt.Sprintf("call %d returned the answer addressed to call %d", i, foreign[d]))
			}
		case c12Timeout:
			if c.dur < D-5*time.Millisecond && c.cancelled.IsZero() {
				fail("early-timeout", fmt.Sprintf("call %d returned a timeout after %v, deadline %v", i, c.dur, D))
			}
		case c12Other:
			fail("unexpected-error", fmt.Sprintf("call %d: %v", i, c.err))
		}
		if c.dur > D+c12Hang {
			fail("late-return", fmt.Sprintf("call %d returned after %v, deadline %v", i, c.dur, D))
		}
	}
	if n := c12RegSize(e.cl); n > 0 {
		fail("registry-leak", fmt.Sprintf("%d entries left in the registry after all calls returned", n))
	}
	if c12Stuck(e.cl) {
		fail("registry-lock-stuck", c12StuckWhat)
	}
	r.out = sx.L(sx.L(outs...), sx.L(regs...))
	return r
}

// runs a deterministic script, repeating it with a longer client timeout when
// the machine was too slow for the answers to be sure to precede the deadline
func c12ScriptRobust(in sx.V, D time.Duration) c12ScriptRes {
	var r c12ScriptRes
	for try := 0; try < 6; try++ {
		r = runC12Script(in, D)
		if !r.slow || r.hang {
			return r
		}
		D *= 2
	}
	return r
}

const c12ScriptD = 150 * time.Millisecond

var c12Cache sync.Map // input text -> sx.V computed by the generator's parallel pre-run

func execC12Script(in sx.V) sx.V {
	if v, ok := c12Cache.Load("c12.script " + in.String()); ok {
		return v.(sx.V)
	}
	return c12ScriptRobust(in, c12ScriptD).out
}
