package main

import (
	"bufio"
	"fmt"
	"io"
	"os"
	"os/exec"
	"strconv"
	"syscall"
	"time"

	"verifharness/sx"
)

// guarded child: a second copy of this binary in "exec" mode with an address
// space limit, so that an input that exhausts memory or the stack (fatal
// runtime errors that recover() cannot catch) or hangs is observed as an
// outcome instead of killing the run.
type child struct {
	cmd *exec.Cmd
	in  io.WriteCloser
	out *bufio.Reader
}

var guard *child

func applyRlimitFromEnv() {
	if v := os.Getenv("VERIF_RLIMIT_AS"); v != "" {
		if n, err := strconv.ParseUint(v, 10, 64); err == nil {
			_ = syscall.Setrlimit(syscall.RLIMIT_AS, &syscall.Rlimit{Cur: n, Max: n})
		}
	}
}

func startChild() *child {
	cmd := exec.Command(os.Args[0], "exec")
	cmd.Env = append(os.Environ(), "VERIF_RLIMIT_AS=6442450944", "GOMEMLIMIT=3GiB")
	in, _ := cmd.StdinPipe()
	out, _ := cmd.StdoutPipe()
	cmd.Stderr = nil
	if err := cmd.Start(); err != nil {
		panic(err)
	}
	return &child{cmd: cmd, in: in, out: bufio.NewReaderSize(out, 1<<20)}
}

func (c *child) kill() {
	_ = c.cmd.Process.Kill()
	_, _ = c.cmd.Process.Wait()
}

// guardedExec runs one case in the child; 'crash when the child died (fatal
// error / OOM), 'timeout when it did not answer within the limit.
func guardedExec(kind string, in sx.V, limit time.Duration) sx.V {
	if guard == nil {
		guard = startChild()
	}
	line := kind + " " + in.String() + "\n"
	type res struct {
		s   string
		err error
	}
	ch := make(chan res, 1)
	g := guard
	go func() {
		if _, err := io.WriteString(g.in, line); err != nil {
			ch <- res{"", err}
			return
		}
		s, err := g.out.ReadString('\n')
		ch <- res{s, err}
	}()
	select {
	case r := <-ch:
		if r.err != nil {
			guard.kill()
			guard = nil
			return sx.A("crash")
		}
		v, err := sx.Parse(r.s[:len(r.s)-1])
		if err != nil {
			return sx.L(sx.A("harness-error"), sx.A("child-output"))
		}
		return v
	case <-time.After(limit):
		guard.kill()
		guard = nil
		return sx.A("timeout")
	}
}

func stopGuard() {
	if guard != nil {
		guard.in.Close()
		guard.kill()
		guard = nil
	}
}

var _ = fmt.Sprintf
