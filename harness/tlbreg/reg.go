// Package tlbreg is the registry of TL-B types (regenerated from /repo's source
// by cmd/mkregistry before every build).
package tlbreg

import "reflect"

type Entry struct {
	Name string
	T    reflect.Type
}

var Types []Entry
