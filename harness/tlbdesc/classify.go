package tlbdesc

import (
	"reflect"
	"regexp"
	"strings"
)

// Classes of registered types.
const (
	ClassDescribed  = "described"   // has a descriptor: covered by the generic theorems
	ClassOpaque     = "opaque"      // hand-written codec without a model (listed, not covered)
	ClassDecodeOnly = "decode-only" // hand-written decoder, reflection encoder (asymmetric pair; listed)
	ClassNotCell    = "not-cell"    // not a TL-B cell codec (plain Go struct, get-method result, ...)
)

var reResult = regexp.MustCompile(`^abi\..*Result$`)

var notCellReasons = []string{"kind string", "kind int", "kind slice", "kind map", "kind interface", "kind func",
	"kind float", "kind uint", "unexported field", "boc.Cell without ^", "magic without", "array of non-bytes"}

// Classify describes a registered type and says how the property treats it.
func Classify(name string, t reflect.Type) (class, why string, d *Desc) {
	if reResult.MatchString(name) {
		return ClassNotCell, "get-method result struct (filled from a VM stack, not a cell)", nil
	}
	d = Describe(t, "")
	if d.K != KOpaque {
		return ClassDescribed, "", d
	}
	if strings.Contains(d.Why, "(decode-only)") {
		return ClassDecodeOnly, d.Why, d
	}
	for _, r := range notCellReasons {
		if strings.HasSuffix(d.Why, r) || strings.Contains(d.Why, r+" ") || strings.Contains(d.Why, r+":") {
			return ClassNotCell, d.Why, d
		}
	}
	return ClassOpaque, d.Why, d
}

// IsTail mirrors TlbCore.tail: the type ends in a rest-of-cell codec (tlb.Any
// copies the remaining cell without moving the read cursor).
func (d *Desc) IsTail() bool {
	switch d.K {
	case KAny:
		return true
	case KMaybe, KEitherRef:
		return d.Sub[0].IsTail()
	case KEither:
		return d.Sub[0].IsTail() || d.Sub[1].IsTail()
	case KStruct:
		return len(d.Sub) > 0 && d.Sub[len(d.Sub)-1].IsTail()
	case KSum:
		for _, a := range d.Alts {
			if a.D.IsTail() {
				return true
			}
		}
	}
	return false
}

// Voids lists the constructors without a model inside a descriptor.
func (d *Desc) Voids(acc *[]string) {
	if d.K == KVoid {
		*acc = append(*acc, d.Why)
		return
	}
	for _, s := range d.Sub {
		s.Voids(acc)
	}
	for _, a := range d.Alts {
		if a.D != nil {
			a.D.Voids(acc)
		}
	}
}
