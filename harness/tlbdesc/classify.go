package tlbdesc

import (
	"reflect"
	"regexp"
	"sort"
	"strings"
)

// Classes of registered types.
const (
	ClassDescribed  = "described"   // has a descriptor: covered by the generic theorems
	ClassOpaque     = "opaque"      // hand-written codec without a model (listed, not covered)
	ClassDecodeOnly = "decode-only" // hand-written decoder, reflection encoder (asymmetric pair; listed)
	ClassNotCell    = "not-cell"    // not a TL-B cell codec (plain Go struct, get-method result, ...)
)

var reResult = regexp.MustCompile(`^abi\..*Result$`)

var notCellReasons = []string{"kind string", "kind int", "kind slice", "kind map", "kind interface", "kind func",
	"kind float", "kind uint", "unexported field", "boc.Cell without ^", "magic without", "array of non-bytes"}

// Classify describes a registered type and says how the property treats it.
func Classify(name string, t reflect.Type) (class, why string, d *Desc) {
	if reResult.MatchString(name) {
		return ClassNotCell, "get-method result struct (filled from a VM stack, not a cell)", nil
	}
	d = Describe(t, "")
	if d.K != KOpaque {
		return ClassDescribed, "", d
	}
	if strings.Contains(d.Why, "(decode-only)") {
		return ClassDecodeOnly, d.Why, d
	}
	for _, r := range notCellReasons {
		if strings.HasSuffix(d.Why, r) || strings.Contains(d.Why, r+" ") || strings.Contains(d.Why, r+":") {
			return ClassNotCell, d.Why, d
		}
	}
	return ClassOpaque, d.Why, d
}

// IsTail mirrors TlbCore.tail: the type ends in a rest-of-cell codec (tlb.Any
// copies the remaining cell without moving the read cursor).
func (d *Desc) IsTail() bool {
	switch d.K {
	case KAny:
		return true
	case KMaybe, KEitherRef:
		return d.Sub[0].IsTail()
	case KEither:
		return d.Sub[0].IsTail() || d.Sub[1].IsTail()
	case KStruct:
		return len(d.Sub) > 0 && d.Sub[len(d.Sub)-1].IsTail()
	case KSum:
		for _, a := range d.Alts {
			if a.D.IsTail() {
				return true
			}
		}
	}
	return false
}

// Voids lists the constructors without a model inside a descriptor.
func (d *Desc) Voids(acc *[]string) {
	if d.K == KVoid {
		*acc = append(*acc, d.Why)
		return
	}
	for _, s := range d.Sub {
		s.Voids(acc)
	}
	for _, a := range d.Alts {
		if a.D != nil {
			a.D.Voids(acc)
		}
	}
}

// CollectTags returns every `tlbSumType` / Magic tag and every other `tlb` field tag
// reachable from the given types.
func CollectTags(types []reflect.Type) (sum, field []string) {
	sm, fm := map[string]bool{}, map[string]bool{}
	seen := map[reflect.Type]bool{}
	var walk func(t reflect.Type)
	walk = func(t reflect.Type) {
		if seen[t] {
			return
		}
		seen[t] = true
		switch t.Kind() {
		case reflect.Pointer, reflect.Slice, reflect.Array:
			walk(t.Elem())
		case reflect.Struct:
			for i := 0; i < t.NumField(); i++ {
				f := t.Field(i)
				if tg, ok := f.Tag.Lookup("tlbSumType"); ok {
					sm[tg] = true
				}
				if tg, ok := f.Tag.Lookup("tlb"); ok {
					if f.Type == magicT {
						sm[tg] = true
					} else {
						fm[tg] = true
					}
				}
				walk(f.Type)
			}
		}
	}
	for _, t := range types {
		walk(t)
	}
	for k := range sm {
		sum = append(sum, k)
	}
	for k := range fm {
		field = append(field, k)
	}
	sort.Strings(sum)
	sort.Strings(field)
	return
}

// NeverEncodes mirrors Proofs/TlbNoEncP.v: never_encodes.
func (d *Desc) NeverEncodes() bool {
	switch d.K {
	case KVoid:
		return true
	case KSum:
		for _, a := range d.Alts {
			if !a.D.NeverEncodes() {
				return false
			}
		}
		return true
	case KStruct:
		for _, s := range d.Sub {
			if s.NeverEncodes() {
				return true
			}
		}
	case KRef, KEitherRef:
		return d.Sub[0].NeverEncodes()
	case KEither:
		return d.Sub[0].NeverEncodes() && d.Sub[1].NeverEncodes()
	}
	return false
}
