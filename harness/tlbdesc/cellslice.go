package tlbdesc

// tlb.VmCellSlice (tlb/stack.go): a hand-written codec over unexported fields
//   _ cell:^Cell st_bits:(## 10) end_bits:(## 10) { st_bits <= end_bits }
//     st_ref:(#<= 4) end_ref:(#<= 4) { st_ref <= end_ref } = VmCellSlice;
// modelled as TStruct [TCellRef; TUint 10; TUint 10; TUint 3; TUint 3]; the
// domain (st <= end <= size of the cell) is enforced by the generator.  The
// harness reaches the unexported fields with reflect + unsafe.

import (
	"fmt"
	"reflect"
	"unsafe"

	"github.com/tonkeeper/tongo/boc"

	"verifharness/prng"
	"verifharness/sx"
)

var cellSliceFields = []string{"cell", "stBits", "endBits", "stRef", "endRef"}

func cellSliceFieldsOK() bool {
	if cellSliceT.NumField() != 5 {
		return false
	}
	for i, n := range cellSliceFields {
		f := cellSliceT.Field(i)
		if f.Name != n {
			return false
		}
		if i == 0 && f.Type != reflect.TypeOf((*boc.Cell)(nil)) {
			return false
		}
		if i > 0 && f.Type.Kind() != reflect.Int {
			return false
		}
	}
	return true
}

func hidden(v reflect.Value, i int) reflect.Value {
	f := v.Field(i)
	return reflect.NewAt(f.Type(), unsafe.Pointer(f.UnsafeAddr())).Elem()
}

func setCellSlice(dst reflect.Value, c *boc.Cell, sb, eb, sr, er int) {
	hidden(dst, 0).Set(reflect.ValueOf(c))
	hidden(dst, 1).SetInt(int64(sb))
	hidden(dst, 2).SetInt(int64(eb))
	hidden(dst, 3).SetInt(int64(sr))
	hidden(dst, 4).SetInt(int64(er))
}

func cellSliceSx(c *boc.Cell, sb, eb, sr, er int) sx.V {
	return tag("struct", tag("cell", CellSx(c)), tag("n", sx.Nat(sb)), tag("n", sx.Nat(eb)), tag("n", sx.Nat(sr)), tag("n", sx.Nat(er)))
}

// window picks 0 <= st <= end <= n, biased to the boundaries (empty window at
// either end, full window).
func window(r *prng.R, n int) (int, int) {
	switch r.Intn(6) {
	case 0:
		return 0, n
	case 1:
		return 0, 0
	case 2:
		return n, n
	case 3:
		if n > 0 {
			k := r.Intn(n + 1)
			return k, k
		}
		return 0, 0
	}
	a, b := r.Intn(n+1), r.Intn(n+1)
	if a > b {
		a, b = b, a
	}
	return a, b
}

func randCellSlice(r *prng.R, dst reflect.Value) sx.V {
	c := boc.NewCell()
	nbits := 0
	switch r.Intn(6) {
	case 0: // no data bits at all
	case 1:
		nbits = 1023
	case 2:
		nbits = 1 + r.Intn(8)
	default:
		nbits = r.Intn(300)
	}
	for i := 0; i < nbits; i++ {
		_ = c.WriteBit(r.Bool())
	}
	nrefs := r.Intn(5)
	if r.Chance(30) {
		nrefs = 0
	}
	for i := 0; i < nrefs; i++ {
		_ = c.AddRef(randCell(r, 2))
	}
	sb, eb := window(r, nbits)
	sr, er := window(r, nrefs)
	setCellSlice(dst, c, sb, eb, sr, er)
	return cellSliceSx(c, sb, eb, sr, er)
}

func renderCellSlice(v reflect.Value) sx.V {
	if !v.CanAddr() {
		cp := reflect.New(v.Type()).Elem()
		cp.Set(v)
		v = cp
	}
	c, _ := hidden(v, 0).Interface().(*boc.Cell)
	if c == nil {
		return sx.A("nil")
	}
	cc := *c
	cc.ResetCounters()
	return cellSliceSx(&cc, int(hidden(v, 1).Int()), int(hidden(v, 2).Int()), int(hidden(v, 3).Int()), int(hidden(v, 4).Int()))
}

func fillCellSlice(v sx.V, dst reflect.Value) error {
	a, err := argsOf(v, "struct", 5)
	if err != nil {
		return err
	}
	ca, err := argsOf(a[0], "cell", 1)
	if err != nil {
		return err
	}
	var n [4]int
	for i := 0; i < 4; i++ {
		x, err := argsOf(a[i+1], "n", 1)
		if err != nil {
			return err
		}
		n[i] = x[0].I()
	}
	if n[0] > n[1] || n[2] > n[3] {
		return fmt.Errorf("cell slice: window out of the domain")
	}
	setCellSlice(dst, CellFromSx(ca[0]), n[0], n[1], n[2], n[3])
	return nil
}
