package tlbdesc

// Leaf generators for the opcode-dispatched payload codecs of package abi
// (JettonPayload, NFTPayload: SumType / OpCode / Value any), used by GoRand for
// the exploration of types outside the model.  Dimensions: empty payload, every
// known typed payload, unknown opcode, KNOWN opcode with a FOREIGN body (what the
// decoder must hand back as the raw "Cell"), fewer than 32 bits.

import (
	"reflect"
	"sort"

	"github.com/tonkeeper/tongo/abi"
	"github.com/tonkeeper/tongo/boc"
	"github.com/tonkeeper/tongo/tlb"

	"verifharness/prng"
)

var leafGens = map[reflect.Type]func(r *prng.R, dst reflect.Value, depth int) bool{}

func init() {
	leafGens[reflect.TypeOf(abi.JettonPayload{})] = func(r *prng.R, dst reflect.Value, depth int) bool {
		sum, op, val, ok := genPayload(r, abi.KnownJettonTypes, abi.JettonOpCodes, depth, func(c *boc.Cell) (string, error) {
			var p abi.JettonPayload
			err := tlb.Unmarshal(c, &p)
			return p.SumType, err
		})
		if ok {
			dst.Set(reflect.ValueOf(abi.JettonPayload{SumType: sum, OpCode: op, Value: val}))
		}
		return ok
	}
	leafGens[reflect.TypeOf(abi.NFTPayload{})] = func(r *prng.R, dst reflect.Value, depth int) bool {
		sum, op, val, ok := genPayload(r, abi.KnownNFTTypes, abi.NFTOpCodes, depth, func(c *boc.Cell) (string, error) {
			var p abi.NFTPayload
			err := tlb.Unmarshal(c, &p)
			return p.SumType, err
		})
		if ok {
			dst.Set(reflect.ValueOf(abi.NFTPayload{SumType: sum, OpCode: op, Value: val}))
		}
		return ok
	}
}

func rawPayloadCell(r *prng.R, op uint32, kind int) *boc.Cell {
	c := boc.NewCell()
	_ = c.WriteUint(uint64(op), 32)
	switch kind {
	case 0: // a few stray bits
		n := 1 + r.Intn(7)
		for i := 0; i < n; i++ {
			_ = c.WriteBit(r.Bool())
		}
	case 1: // bytes that are not valid UTF-8 (a binary comment under the text opcode)
		_ = c.WriteBytes([]byte{0xff, 0xfe, 0x80, byte(r.Intn(256)), 0xc0})
	case 2: // nothing after the opcode
	default:
		n := r.Intn(200)
		for i := 0; i < n; i++ {
			_ = c.WriteBit(r.Bool())
		}
		if r.Bool() {
			_ = c.AddRef(randCell(r, 2))
		}
	}
	return c
}

func genPayload(r *prng.R, known map[string]any, opcodes map[string]uint32, depth int, decode func(*boc.Cell) (string, error)) (string, *uint32, any, bool) {
	var names []string
	for n := range known {
		names = append(names, n)
	}
	sort.Strings(names)
	switch mode := r.Intn(10); {
	case mode == 0:
		return "", nil, nil, true
	case mode <= 3 && len(names) > 0: // a typed payload
		n := names[r.Intn(len(names))]
		v := reflect.New(reflect.TypeOf(known[n])).Elem()
		if !GoRand(r, v, "", depth+1) {
			return "", nil, nil, true
		}
		op := opcodes[n]
		return n, &op, v.Interface(), true
	case mode == 4: // fewer than 32 bits: no opcode
		c := boc.NewCell()
		n := 1 + r.Intn(31)
		for i := 0; i < n; i++ {
			_ = c.WriteBit(r.Bool())
		}
		return "Cell", nil, c, true
	case mode <= 6: // unknown opcode
		for try := 0; try < 20; try++ {
			op := uint32(r.U64())
			hit := false
			for _, o := range opcodes {
				if o == op {
					hit = true
				}
			}
			if !hit {
				return "Cell", &op, rawPayloadCell(r, op, 3), true
			}
		}
		return "", nil, nil, true
	}
	// a known opcode followed by something that is not that opcode's body
	for try := 0; try < 8 && len(names) > 0; try++ {
		n := names[r.Intn(len(names))]
		op := opcodes[n]
		kind := r.Intn(4)
		if op == 0 && r.Chance(60) {
			kind = 1
		}
		c := rawPayloadCell(r, op, kind)
		// keep the candidate unless the library itself reads it as a typed payload
		cp := *c
		cp.ResetCounters()
		sum, err := decode(&cp)
		if err != nil || sum == "Cell" {
			return "Cell", &op, c, true
		}
	}
	return "", nil, nil, true
}

// abi.InMsgBody (message bodies dispatched on the opcode by InternalMessageDecoder):
// empty body, unknown opcode, a known opcode with a foreign body, and typed bodies
// obtained by decoding op + body of a few known message types.
func init() {
	leafGens[reflect.TypeOf(abi.InMsgBody{})] = genInMsgBody
}

func genInMsgBody(r *prng.R, dst reflect.Value, depth int) bool {
	known := []struct {
		op   uint32
		body any
	}{
		{abi.TextCommentMsgOpCode, abi.TextCommentMsgBody{}},
		{abi.JettonBurnNotificationMsgOpCode, abi.JettonBurnNotificationMsgBody{}},
		{abi.ExcessMsgOpCode, abi.ExcessMsgBody{}},
		{abi.JettonMintMsgOpCode, abi.JettonMintMsgBody{}},
	}
	decode := func(c *boc.Cell) (abi.InMsgBody, error) {
		var b abi.InMsgBody
		cp := *c
		cp.ResetCounters()
		err := tlb.Unmarshal(&cp, &b)
		return b, err
	}
	switch mode := r.Intn(8); {
	case mode == 0:
		dst.Set(reflect.ValueOf(abi.InMsgBody{}))
		return true
	case mode <= 2: // typed: op + an encoded body of that type, read back by the library
		k := known[r.Intn(len(known))]
		v := reflect.New(reflect.TypeOf(k.body)).Elem()
		if !GoRand(r, v, "", depth+1) {
			break
		}
		c := boc.NewCell()
		_ = c.WriteUint(uint64(k.op), 32)
		if tlb.Marshal(c, v.Interface()) != nil {
			break
		}
		if b, err := decode(c); err == nil && b.SumType != abi.UnknownMsgOp && b.SumType != abi.EmptyMsgOp {
			dst.Set(reflect.ValueOf(b))
			return true
		}
	case mode <= 4: // unknown opcode: the value is the raw cell, opcode included
		op := uint32(r.U64()) | 0x80000001
		c := rawPayloadCell(r, op, 3)
		if b, err := decode(c); err == nil && b.SumType == abi.UnknownMsgOp {
			dst.Set(reflect.ValueOf(abi.InMsgBody{SumType: abi.UnknownMsgOp, OpCode: &op, Value: c}))
			return true
		}
	default: // a known opcode followed by something else
		k := known[r.Intn(len(known))]
		kind := r.Intn(4)
		if k.op == 0 {
			kind = 1
		}
		c := rawPayloadCell(r, k.op, kind)
		if b, err := decode(c); err != nil || b.SumType == abi.UnknownMsgOp {
			op := k.op
			dst.Set(reflect.ValueOf(abi.InMsgBody{SumType: abi.UnknownMsgOp, OpCode: &op, Value: c}))
			return true
		}
	}
	dst.Set(reflect.ValueOf(abi.InMsgBody{}))
	return true
}
