// Package tlbdesc turns Go types of tonkeeper/tongo into TL-B descriptors (the
// `ty` language of coq/Model/TlbCore.v) by reflection, generates random
// in-domain values for a descriptor both as Go values and as model values, and
// renders decoded Go values back into model values.
//
// It attaches no semantics: it records which reflect.Kind / struct tags /
// well-known generic wrappers a type is made of.  Types with a hand-written
// codec that has no model are reported as Opaque (never silently passed).
package tlbdesc

import (
	"fmt"
	"math/big"
	"reflect"
	"regexp"
	"strconv"
	"strings"

	"github.com/tonkeeper/tongo/boc"
	"github.com/tonkeeper/tongo/tlb"

	"verifharness/prng"
	"verifharness/sx"
)

type Kind int

const (
	KUint Kind = iota
	KInt
	KBigUint
	KBigInt
	KBool
	KBits
	KVarUInt
	KUnary
	KMagic
	KMaybe
	KEither
	KEitherRef
	KRef
	KMaybeRef
	KStruct
	KSum
	KAny
	KCellRef
	KOpaque
	KAddr      // tlb.MsgAddress (hand-written codec, modelled as TAddr)
	KEnum      // string-valued Go type with a hand-written tag codec (modelled as a TSum of empty structs)
	KVoid      // constructor of a union whose payload has no model: never generated, never claimed (listed)
	KCellSlice // tlb.VmCellSlice: ^Cell st_bits:(## 10) end_bits:(## 10) st_ref:(#<= 4) end_ref:(#<= 4)
	KSnake     // tlb.SnakeData / Bytes / Text: rest of the cell continued in a chain of references (extension layer)
	KLenBytes  // tlb.FixedLengthText: W-bit byte count, then the bytes (extension layer)
	KDictE     // tlb.HashmapE[K,V]: Maybe ^(Hashmap n V); the dictionary body is property C05 (opaque cell here)
)

type Alt struct {
	Name string
	Len  int
	Val  uint64
	D    *Desc
	Idx  int // field index in the Go struct
}

type Desc struct {
	K      Kind
	W      int    // width / n
	Val    uint64 // magic value
	Sub    []*Desc
	Alts   []Alt
	Why    string       // opaque: reason
	T      reflect.Type // Go type this descriptor was made from (the field's static type)
	Ptr    bool         // the Go type is a pointer to the described type
	Fields []int        // struct: Go field indices of Sub
	Grams  bool         // KVarUInt backed by uint64 (tlb.Grams)
	DK, DV *Desc        // KDictE: descriptors of the key and value types (used to generate dictionaries)
	Snake  string       // KSnake: "bits" (SnakeData), "bytes" (Bytes), "text" (Text, TextComment)
	Signed bool         // KStruct [bool; varuint 16] standing for tlb.SignedCoins (an int64)
	InRef  bool         // KCellRef held in a tlb.Ref[boc.Cell] (field Value)
	GoW    int          // KInt: width of the Go integer holding the value when narrower than W (domain)
}

var (
	marshalerT   = reflect.TypeOf((*tlb.MarshalerTLB)(nil)).Elem()
	unmarshalerT = reflect.TypeOf((*tlb.UnmarshalerTLB)(nil)).Elem()
	bocCellT     = reflect.TypeOf(boc.Cell{})
	bigIntT      = reflect.TypeOf(big.Int{})
	magicT       = reflect.TypeOf(tlb.Magic(0))
	sumTypeT     = reflect.TypeOf(tlb.SumType(""))
	reUint       = regexp.MustCompile(`^Uint(\d+)$`)
	reInt        = regexp.MustCompile(`^Int(\d+)$`)
	reVar        = regexp.MustCompile(`^VarUInteger(\d+)$`)
)

const tlbPkg = "github.com/tonkeeper/tongo/tlb"

func hasCustomMarshal(t reflect.Type) bool {
	return t.Implements(marshalerT) || reflect.PointerTo(t).Implements(marshalerT)
}
func hasCustomUnmarshal(t reflect.Type) bool {
	return t.Implements(unmarshalerT) || reflect.PointerTo(t).Implements(unmarshalerT)
}

func opaque(t reflect.Type, why string) *Desc { return &Desc{K: KOpaque, Why: why, T: t} }

func genericBase(t reflect.Type) string {
	n := t.Name()
	if i := strings.IndexByte(n, '['); i >= 0 {
		return n[:i]
	}
	return n
}

// ParseSumTag mirrors the syntax "name#hex" / "name$bin" / "#_" ; ok=false when unparsable.
func ParseSumTag(tag string) (length int, val uint64, ok bool) {
	sep := strings.IndexAny(tag, "#$")
	if sep < 0 || sep == len(tag)-1 {
		return 0, 0, false
	}
	body := tag[sep+1:]
	if body == "_" {
		return 0, 0, true
	}
	if tag[sep] == '$' {
		v, err := strconv.ParseUint(body, 2, 64)
		return len(body), v, err == nil
	}
	v, err := strconv.ParseUint(body, 16, 64)
	return 4 * len(body), v, err == nil
}

type ctx struct {
	stack map[reflect.Type]bool
	// encView: describe what the reflection ENCODER does with the type (tlb.Marshal):
	// hand-written decoders are ignored, and constructs the encoder rejects for every
	// value become the empty union (KVoid) instead of making the type opaque
	encView bool
}

// DescribeEnc is the encoder view of a type (see ctx.encView).
func DescribeEnc(t reflect.Type, tag string) *Desc {
	c := &ctx{stack: map[reflect.Type]bool{}, encView: true}
	return c.desc(t, tag)
}

func void(t reflect.Type, why string) *Desc { return &Desc{K: KVoid, Why: why, T: t} }

// rejected: a construct tlb/encoder.go rejects for every value
func (c *ctx) rejected(t reflect.Type, why string) *Desc {
	if c.encView {
		return void(t, why)
	}
	return opaque(t, why)
}

// marshallers whose body is only `return fmt.Errorf("... not implemented")`
var alwaysErrMarshal = map[string]bool{"BinTree": true, "HashmapAug": true, "ChunkedData": true, "VmCont": true, "VmStkTuple": true}

// Describe describes the encoding of a value of static type t under struct tag `tag`.
func Describe(t reflect.Type, tag string) *Desc {
	c := &ctx{stack: map[reflect.Type]bool{}}
	return c.desc(t, tag)
}

func (c *ctx) desc(t reflect.Type, tag string) *Desc {
	if t == magicT {
		l, v, ok := ParseSumTag(tag)
		if !ok || l == 0 {
			return c.rejected(t, "magic without a #/$ tag")
		}
		return &Desc{K: KMagic, W: l, Val: v, T: t}
	}
	// tag wrappers (parseTag)
	switch {
	case strings.HasPrefix(tag, "maybe^"):
		if t.Kind() != reflect.Pointer {
			return opaque(t, "maybe^ on a non-pointer field")
		}
		in := c.desc(t.Elem(), "")
		if in.K == KOpaque {
			return in
		}
		return &Desc{K: KMaybeRef, Sub: []*Desc{in}, T: t, Ptr: true}
	case strings.HasPrefix(tag, "maybe"):
		if t.Kind() != reflect.Pointer {
			return opaque(t, "maybe on a non-pointer field")
		}
		rest := strings.TrimPrefix(tag, "maybe")
		in := c.desc(t.Elem(), rest)
		if in.K == KOpaque {
			return in
		}
		return &Desc{K: KMaybe, Sub: []*Desc{in}, T: t, Ptr: true}
	case strings.HasPrefix(tag, "^"):
		if t == bocCellT {
			return &Desc{K: KCellRef, T: t}
		}
		in := c.desc(t, "")
		if in.K == KOpaque {
			return in
		}
		return &Desc{K: KRef, Sub: []*Desc{in}, T: t}
	}
	if t.Kind() == reflect.Pointer {
		in := c.desc(t.Elem(), tag)
		if in.K == KOpaque {
			return in
		}
		cp := *in
		cp.T = t
		cp.Ptr = true
		return &cp
	}
	if c.stack[t] {
		return opaque(t, "recursive type")
	}
	c.stack[t] = true
	defer delete(c.stack, t)

	if t.PkgPath() == tlbPkg {
		base := genericBase(t)
		wrap := func(k Kind, subs ...*Desc) *Desc {
			for _, x := range subs {
				if x.K == KOpaque {
					return opaque(t, base+": "+x.Why)
				}
			}
			return &Desc{K: k, Sub: subs, T: t}
		}
		switch base {
		case "Maybe":
			f, _ := t.FieldByName("Value")
			return wrap(KMaybe, c.desc(f.Type, ""))
		case "Either":
			l, _ := t.FieldByName("Left")
			r, _ := t.FieldByName("Right")
			return wrap(KEither, c.desc(l.Type, ""), c.desc(r.Type, ""))
		case "EitherRef":
			f, _ := t.FieldByName("Value")
			return wrap(KEitherRef, c.desc(f.Type, ""))
		case "Ref":
			f, _ := t.FieldByName("Value")
			if f.Type == bocCellT {
				// Ref[boc.Cell]: the cell itself becomes the reference
				return &Desc{K: KCellRef, T: t, InRef: true}
			}
			return wrap(KRef, c.desc(f.Type, ""))
		case "Unary":
			return &Desc{K: KUnary, T: t}
		case "Any":
			return &Desc{K: KAny, T: t}
		case "Grams":
			return &Desc{K: KVarUInt, W: 16, T: t, Grams: true}
		}
		if m := reUint.FindStringSubmatch(base); m != nil {
			n, _ := strconv.Atoi(m[1])
			if t.ConvertibleTo(bigIntT) && t.Kind() == reflect.Struct {
				return &Desc{K: KBigUint, W: n, T: t}
			}
			return &Desc{K: KUint, W: n, T: t}
		}
		if m := reInt.FindStringSubmatch(base); m != nil {
			n, _ := strconv.Atoi(m[1])
			if t.ConvertibleTo(bigIntT) && t.Kind() == reflect.Struct {
				return &Desc{K: KBigInt, W: n, T: t}
			}
			return &Desc{K: KInt, W: n, T: t}
		}
		if m := reVar.FindStringSubmatch(base); m != nil {
			n, _ := strconv.Atoi(m[1])
			return &Desc{K: KVarUInt, W: n, T: t}
		}
	}
	if d := c.custom(t); d != nil {
		return d
	}
	cm, cu := hasCustomMarshal(t), hasCustomUnmarshal(t)
	if c.encView && cm && t.PkgPath() == tlbPkg && alwaysErrMarshal[genericBase(t)] {
		return void(t, "MarshalTLB returns 'not implemented': "+t.String())
	}
	if c.encView && !cm {
		cu = false // the encoder walks the type by reflection whatever its decoder is
	}
	if cm || cu {
		side := "both"
		if cm && !cu {
			side = "encode-only"
		} else if cu && !cm {
			side = "decode-only"
		}
		return opaque(t, "hand-written codec ("+side+"): "+t.String())
	}
	switch t.Kind() {
	case reflect.Uint8:
		return &Desc{K: KUint, W: 8, T: t}
	case reflect.Uint16:
		return &Desc{K: KUint, W: 16, T: t}
	case reflect.Uint32:
		return &Desc{K: KUint, W: 32, T: t}
	case reflect.Uint64:
		return &Desc{K: KUint, W: 64, T: t}
	case reflect.Int8:
		return &Desc{K: KInt, W: 8, T: t}
	case reflect.Int16:
		return &Desc{K: KInt, W: 16, T: t}
	case reflect.Int32:
		return &Desc{K: KInt, W: 32, T: t}
	case reflect.Int64:
		return &Desc{K: KInt, W: 64, T: t}
	case reflect.Bool:
		return &Desc{K: KBool, T: t}
	case reflect.Array:
		if t.Elem().Kind() != reflect.Uint8 {
			return opaque(t, "array of non-bytes")
		}
		return &Desc{K: KBits, W: 8 * t.Len(), T: t}
	case reflect.Struct:
		if t == bocCellT {
			return opaque(t, "boc.Cell without ^")
		}
		if _, ok := t.FieldByName("SumType"); ok {
			d := &Desc{K: KSum, T: t}
			live := 0
			for i := 0; i < t.NumField(); i++ {
				f := t.Field(i)
				if f.Type == sumTypeT || f.Type.Name() == "SumType" {
					continue
				}
				if !f.IsExported() {
					return opaque(t, "unexported field in a reflection-encoded sum type")
				}
				l, v, ok := ParseSumTag(f.Tag.Get("tlbSumType"))
				if !ok {
					return opaque(t, "unparsable tlbSumType tag on "+f.Name)
				}
				in := c.desc(f.Type, "")
				if in.K == KOpaque && c.encView {
					return opaque(t, "constructor "+f.Name+": "+in.Why)
				}
				if in.K == KOpaque {
					in = &Desc{K: KVoid, Why: "constructor " + f.Name + ": " + in.Why, T: f.Type}
				} else {
					live++
				}
				d.Alts = append(d.Alts, Alt{Name: f.Name, Len: l, Val: v, D: in, Idx: i})
			}
			if live == 0 && !c.encView {
				return opaque(t, "no constructor has a model")
			}
			return d
		}
		d := &Desc{K: KStruct, T: t}
		for i := 0; i < t.NumField(); i++ {
			f := t.Field(i)
			if !f.IsExported() {
				return opaque(t, "unexported field in a reflection-encoded struct")
			}
			in := c.desc(f.Type, f.Tag.Get("tlb"))
			if in.K == KOpaque {
				return opaque(t, "field "+f.Name+": "+in.Why)
			}
			d.Sub = append(d.Sub, in)
			d.Fields = append(d.Fields, i)
		}
		return d
	}
	if t.Kind() == reflect.Slice && t.Elem().Kind() == reflect.Uint8 {
		return opaque(t, "kind slice of bytes")
	}
	return c.rejected(t, "kind "+t.Kind().String())
}

// ---------------------------------------------------------------- printing

func (d *Desc) Sx() sx.V {
	a := func(name string, args ...sx.V) sx.V { return sx.L(append([]sx.V{sx.A(name)}, args...)...) }
	switch d.K {
	case KUint:
		return a("uint", sx.Nat(d.W))
	case KInt:
		return a("int", sx.Nat(d.W))
	case KBigUint:
		return a("biguint", sx.Nat(d.W))
	case KBigInt:
		return a("bigint", sx.Nat(d.W))
	case KBool:
		return a("bool")
	case KBits:
		return a("bits", sx.Nat(d.W))
	case KVarUInt:
		return a("varuint", sx.Nat(d.W))
	case KUnary:
		return a("unary")
	case KMagic:
		return a("magic", sx.Nat(d.W), sx.N(d.Val))
	case KMaybe:
		return a("maybe", d.Sub[0].Sx())
	case KEither:
		return a("either", d.Sub[0].Sx(), d.Sub[1].Sx())
	case KEitherRef:
		return a("eitherref", d.Sub[0].Sx())
	case KRef:
		return a("ref", d.Sub[0].Sx())
	case KMaybeRef:
		return a("mayberef", d.Sub[0].Sx())
	case KStruct:
		var fs []sx.V
		for _, s := range d.Sub {
			fs = append(fs, s.Sx())
		}
		return a("struct", fs...)
	case KSum:
		var as []sx.V
		for _, al := range d.Alts {
			as = append(as, sx.L(sx.Nat(al.Len), sx.N(al.Val), al.D.Sx()))
		}
		return a("sum", as...)
	case KAny:
		return a("any")
	case KCellRef:
		return a("cellref")
	case KAddr:
		return a("addr")
	case KVoid:
		return a("sum")
	case KCellSlice:
		return a("struct", a("cellref"), a("uint", sx.Nat(10)), a("uint", sx.Nat(10)), a("uint", sx.Nat(3)), a("uint", sx.Nat(3)))
	case KEnum:
		var as []sx.V
		for _, al := range d.Alts {
			as = append(as, sx.L(sx.Nat(al.Len), sx.N(al.Val), a("struct")))
		}
		return a("sum", as...)
	case KDictE:
		return a("mayberef", a("any"))
	}
	return a("opaque")
}

// RegNames maps registered Go types to Coq identifiers; Coq() prints a nested
// struct / sum descriptor of a registered type as that identifier.
var RegNames = map[reflect.Type]string{}

// Deps lists the registered types a descriptor refers to by identifier.
func (d *Desc) Deps(acc map[reflect.Type]bool) {
	for _, s := range d.Sub {
		if n := s.regName(); n != "" {
			acc[s.baseT()] = true
			continue
		}
		s.Deps(acc)
	}
	for _, a := range d.Alts {
		if a.D == nil {
			continue
		}
		if n := a.D.regName(); n != "" {
			acc[a.D.baseT()] = true
			continue
		}
		a.D.Deps(acc)
	}
}

func (d *Desc) baseT() reflect.Type {
	if d.Ptr && d.T.Kind() == reflect.Pointer {
		return d.T.Elem()
	}
	return d.T
}

func (d *Desc) regName() string {
	if d.K != KStruct && d.K != KSum {
		return ""
	}
	return RegNames[d.baseT()]
}

func (d *Desc) coqSub() string {
	if n := d.regName(); n != "" {
		return n
	}
	return d.Coq()
}

// Coq prints the descriptor as a Gallina term of type ty.
func (d *Desc) Coq() string {
	switch d.K {
	case KAddr:
		return "TAddr"
	case KVoid:
		return "TSum []"
	case KCellSlice:
		return "TStruct [TCellRef; TUint 10; TUint 10; TUint 3; TUint 3]"
	case KEnum:
		var as []string
		for _, al := range d.Alts {
			as = append(as, fmt.Sprintf("(%d%%nat, %d%%N, TStruct [])", al.Len, al.Val))
		}
		return "TSum [" + strings.Join(as, "; ") + "]"
	case KDictE:
		return "TMaybeRef TAny"

	case KUint:
		return fmt.Sprintf("TUint %d", d.W)
	case KInt:
		return fmt.Sprintf("TInt %d", d.W)
	case KBigUint:
		return fmt.Sprintf("TBigUint %d", d.W)
	case KBigInt:
		return fmt.Sprintf("TBigInt %d", d.W)
	case KBool:
		return "TBool"
	case KBits:
		return fmt.Sprintf("TBits %d", d.W)
	case KVarUInt:
		return fmt.Sprintf("TVarUInt %d", d.W)
	case KUnary:
		return "TUnary"
	case KMagic:
		return fmt.Sprintf("TMagic %d %d%%N", d.W, d.Val)
	case KMaybe:
		return "TMaybe (" + d.Sub[0].coqSub() + ")"
	case KEither:
		return "TEither (" + d.Sub[0].coqSub() + ") (" + d.Sub[1].coqSub() + ")"
	case KEitherRef:
		return "TEitherRef (" + d.Sub[0].coqSub() + ")"
	case KRef:
		return "TRef (" + d.Sub[0].coqSub() + ")"
	case KMaybeRef:
		return "TMaybeRef (" + d.Sub[0].coqSub() + ")"
	case KStruct:
		var fs []string
		for _, s := range d.Sub {
			fs = append(fs, s.coqSub())
		}
		return "TStruct [" + strings.Join(fs, "; ") + "]"
	case KSum:
		var as []string
		for _, al := range d.Alts {
			as = append(as, fmt.Sprintf("(%d%%nat, %d%%N, %s)", al.Len, al.Val, al.D.coqSub()))
		}
		return "TSum [" + strings.Join(as, "; ") + "]"
	case KAny:
		return "TAny"
	case KCellRef:
		return "TCellRef"
	}
	return "TOPAQUE_MUST_NOT_APPEAR"
}

// Size is the number of descriptor nodes (fuel must exceed the depth).
func (d *Desc) Depth() int {
	m := 0
	for _, s := range d.Sub {
		if x := s.Depth(); x > m {
			m = x
		}
	}
	for _, a := range d.Alts {
		if x := a.D.Depth(); x > m {
			m = x
		}
	}
	return m + 1
}

// ---------------------------------------------------------------- cells as sx

// CellSx renders an ordinary cell tree as (bits (child ...)).
func CellSx(c *boc.Cell) sx.V {
	bs := c.RawBitString()
	cp := bs.Copy()
	var sb strings.Builder
	for cp.BitsAvailableForRead() > 0 {
		b, _ := cp.ReadBit()
		if b {
			sb.WriteByte('1')
		} else {
			sb.WriteByte('0')
		}
	}
	var kids []sx.V
	for _, r := range c.Refs() {
		kids = append(kids, CellSx(r))
	}
	return sx.L(sx.Bits(sb.String()), sx.L(kids...))
}

func CellFromSx(v sx.V) *boc.Cell {
	c := boc.NewCell()
	for _, ch := range v.List[0].Bits {
		_ = c.WriteBit(ch == '1')
	}
	for _, k := range v.List[1].List {
		_ = c.AddRef(CellFromSx(k))
	}
	return c
}

func randCell(r *prng.R, depth int) *boc.Cell {
	c := boc.NewCell()
	n := r.Intn(40)
	for i := 0; i < n; i++ {
		_ = c.WriteBit(r.Bool())
	}
	if depth < 2 {
		k := r.Intn(3)
		for i := 0; i < k; i++ {
			_ = c.AddRef(randCell(r, depth+1))
		}
	}
	return c
}

// ---------------------------------------------------------------- values

func pow2(n int) *big.Int { return new(big.Int).Lsh(big.NewInt(1), uint(n)) }

func randUnsigned(r *prng.R, w int) *big.Int {
	if w == 0 {
		return big.NewInt(0)
	}
	max := new(big.Int).Sub(pow2(w), big.NewInt(1))
	switch r.Intn(6) {
	case 0:
		return big.NewInt(0)
	case 1:
		return max
	case 2:
		return big.NewInt(1)
	case 3:
		return pow2(w - 1)
	}
	v := new(big.Int).SetBytes(r.Bytes((w + 7) / 8))
	return v.And(v, max)
}

func randSigned(r *prng.R, w int) *big.Int {
	min := new(big.Int).Neg(pow2(w - 1))
	max := new(big.Int).Sub(pow2(w-1), big.NewInt(1))
	switch r.Intn(7) {
	case 0:
		return big.NewInt(0)
	case 1:
		return min
	case 2:
		return max
	case 3:
		return big.NewInt(-1)
	case 4:
		if w > 1 {
			return big.NewInt(1)
		}
		return big.NewInt(0)
	}
	v := new(big.Int).SetBytes(r.Bytes((w + 7) / 8))
	v.And(v, new(big.Int).Sub(pow2(w), big.NewInt(1)))
	if v.Cmp(max) > 0 {
		v.Sub(v, pow2(w))
	}
	return v
}

func tag(name string, args ...sx.V) sx.V { return sx.L(append([]sx.V{sx.A(name)}, args...)...) }

// Rand fills dst (a settable value of type d.T) with a random in-domain value
// and returns its model form.
func (d *Desc) Rand(r *prng.R, dst reflect.Value, depth int) sx.V {
	if d.Ptr && d.K != KMaybe && d.K != KMaybeRef {
		p := reflect.New(d.T.Elem())
		cp := *d
		cp.Ptr = false
		cp.T = d.T.Elem()
		v := cp.Rand(r, p.Elem(), depth)
		dst.Set(p)
		return v
	}
	if d.Signed {
		return randSignedCoins(r, dst)
	}
	if d.T == textCommentT {
		s := randText(r)
		dst.SetString(s)
		return tag("struct", sx.A("unit"), tag("bits", sx.Bits(bytesBits([]byte(s)))))
	}
	switch d.K {
	case KUint:
		v := randUnsigned(r, d.W)
		dst.SetUint(v.Uint64())
		return tag("n", sx.BigN(v))
	case KInt:
		w := d.W
		if d.GoW > 0 && d.GoW < w {
			w = d.GoW
		}
		v := randSigned(r, w)
		dst.SetInt(v.Int64())
		return tag("z", sx.BigZ(v))
	case KAddr:
		return randAddr(r, dst)
	case KSnake:
		return d.randSnake(r, dst)
	case KLenBytes:
		return d.randLenBytes(r, dst)
	case KCellSlice:
		return randCellSlice(r, dst)
	case KEnum:
		k := r.Intn(len(d.Alts))
		dst.SetString(d.Alts[k].Name)
		return tag("sum", sx.Nat(k), tag("struct"))
	case KDictE:
		return d.randDict(r, dst, depth)
	case KBigUint:
		v := randUnsigned(r, d.W)
		dst.Set(reflect.ValueOf(*v).Convert(d.T))
		return tag("n", sx.BigN(v))
	case KBigInt:
		v := randSigned(r, d.W)
		dst.Set(reflect.ValueOf(*v).Convert(d.T))
		return tag("z", sx.BigZ(v))
	case KBool:
		b := r.Bool()
		dst.SetBool(b)
		return tag("b", sx.B(b))
	case KBits:
		b := r.Bytes(d.W / 8)
		if r.Chance(20) {
			for i := range b {
				b[i] = 0
			}
		}
		reflect.Copy(dst, reflect.ValueOf(b))
		var sb strings.Builder
		for _, x := range b {
			fmt.Fprintf(&sb, "%08b", x)
		}
		return tag("bits", sx.Bits(sb.String()))
	case KVarUInt:
		maxBytes := d.W - 1
		if d.Grams && maxBytes > 8 {
			maxBytes = 8
		}
		nb := r.Intn(maxBytes + 1)
		if r.Chance(25) {
			nb = maxBytes
		}
		v := randUnsigned(r, 8*nb)
		if d.Grams {
			dst.SetUint(v.Uint64())
		} else {
			dst.Set(reflect.ValueOf(*v).Convert(d.T))
		}
		return tag("n", sx.BigN(v))
	case KUnary:
		n := r.Intn(6)
		if r.Chance(10) {
			n = 60 + r.Intn(8)
		}
		dst.SetUint(uint64(n))
		return tag("n", sx.Nat(n))
	case KMagic:
		dst.SetUint(d.Val)
		return sx.A("unit")
	case KMaybe, KMaybeRef:
		name := "maybe"
		if d.Ptr { // pointer field under a maybe / maybe^ tag
			if r.Chance(35) || depth > 6 {
				dst.Set(reflect.Zero(d.T))
				return tag(name)
			}
			p := reflect.New(d.T.Elem())
			v := d.Sub[0].Rand(r, p.Elem(), depth+1)
			dst.Set(p)
			return tag(name, v)
		}
		if r.Chance(35) || depth > 6 {
			dst.FieldByName("Exists").SetBool(false)
			return tag(name)
		}
		dst.FieldByName("Exists").SetBool(true)
		return tag(name, d.Sub[0].Rand(r, dst.FieldByName("Value"), depth+1))
	case KEither:
		right := r.Bool()
		dst.FieldByName("IsRight").SetBool(right)
		if right {
			return tag("either", sx.B(true), d.Sub[1].Rand(r, dst.FieldByName("Right"), depth+1))
		}
		return tag("either", sx.B(false), d.Sub[0].Rand(r, dst.FieldByName("Left"), depth+1))
	case KEitherRef:
		right := r.Bool()
		dst.FieldByName("IsRight").SetBool(right)
		return tag("either", sx.B(right), d.Sub[0].Rand(r, dst.FieldByName("Value"), depth+1))
	case KRef:
		if genericBase(d.T) == "Ref" && d.T.PkgPath() == tlbPkg {
			return d.Sub[0].Rand(r, dst.FieldByName("Value"), depth+1)
		}
		return d.Sub[0].Rand(r, dst, depth+1)
	case KStruct:
		var vs []sx.V
		for i, s := range d.Sub {
			vs = append(vs, s.Rand(r, dst.Field(d.Fields[i]), depth+1))
		}
		return tag("struct", vs...)
	case KSum:
		k := r.Intn(len(d.Alts))
		for d.Alts[k].D.K == KVoid {
			k = r.Intn(len(d.Alts))
		}
		al := d.Alts[k]
		dst.FieldByName("SumType").SetString(al.Name)
		return tag("sum", sx.Nat(k), al.D.Rand(r, dst.Field(al.Idx), depth+1))
	case KAny:
		c := randCell(r, 1)
		if depth > 0 && r.Chance(50) { // keep inline Any small so that parents do not overflow
			c = boc.NewCell()
			n := r.Intn(9)
			for i := 0; i < n; i++ {
				_ = c.WriteBit(r.Bool())
			}
		}
		dst.Set(reflect.ValueOf(tlb.Any(*c)))
		cs := CellSx(c)
		return tag("any", cs.List[0], cs.List[1])
	case KCellRef:
		c := randCell(r, 1)
		if d.InRef {
			dst.FieldByName("Value").Set(reflect.ValueOf(*c))
		} else {
			dst.Set(reflect.ValueOf(*c))
		}
		return tag("cell", CellSx(c))
	}
	return sx.A("opaque")
}

// Render prints a decoded Go value in model form.
func (d *Desc) Render(v reflect.Value) sx.V {
	if d.Ptr && d.K != KMaybe && d.K != KMaybeRef {
		if v.IsNil() {
			return sx.A("nil")
		}
		cp := *d
		cp.Ptr = false
		cp.T = d.T.Elem()
		return cp.Render(v.Elem())
	}
	if d.Signed {
		return renderSigned(v)
	}
	if d.T == textCommentT {
		return tag("struct", sx.A("unit"), tag("bits", sx.Bits(bytesBits([]byte(v.String())))))
	}
	switch d.K {
	case KSnake:
		return d.renderSnake(v)
	case KLenBytes:
		return tag("bits", sx.Bits(bytesBits([]byte(v.String()))))
	case KAddr:
		return renderAddr(v)
	case KCellSlice:
		return renderCellSlice(v)
	case KEnum:
		for k, al := range d.Alts {
			if al.Name == v.String() {
				return tag("sum", sx.Nat(k), tag("struct"))
			}
		}
		return sx.A("bad-enum")
	case KDictE:
		return dictSx(v)
	case KUint:
		return tag("n", sx.N(v.Uint()))
	case KInt:
		return tag("z", sx.Z(v.Int()))
	case KBigUint:
		b := v.Convert(bigIntT).Interface().(big.Int)
		return tag("n", sx.BigN(&b))
	case KBigInt:
		b := v.Convert(bigIntT).Interface().(big.Int)
		return tag("z", sx.BigZ(&b))
	case KBool:
		return tag("b", sx.B(v.Bool()))
	case KBits:
		var sb strings.Builder
		for i := 0; i < v.Len(); i++ {
			fmt.Fprintf(&sb, "%08b", uint8(v.Index(i).Uint()))
		}
		return tag("bits", sx.Bits(sb.String()))
	case KVarUInt:
		if d.Grams {
			return tag("n", sx.N(v.Uint()))
		}
		b := v.Convert(bigIntT).Interface().(big.Int)
		return tag("n", sx.BigN(&b))
	case KUnary:
		return tag("n", sx.N(v.Uint()))
	case KMagic:
		return sx.A("unit")
	case KMaybe, KMaybeRef:
		if d.Ptr {
			if v.IsNil() {
				return tag("maybe")
			}
			return tag("maybe", d.Sub[0].Render(v.Elem()))
		}
		if !v.FieldByName("Exists").Bool() {
			return tag("maybe")
		}
		return tag("maybe", d.Sub[0].Render(v.FieldByName("Value")))
	case KEither:
		if v.FieldByName("IsRight").Bool() {
			return tag("either", sx.B(true), d.Sub[1].Render(v.FieldByName("Right")))
		}
		return tag("either", sx.B(false), d.Sub[0].Render(v.FieldByName("Left")))
	case KEitherRef:
		return tag("either", sx.B(v.FieldByName("IsRight").Bool()), d.Sub[0].Render(v.FieldByName("Value")))
	case KRef:
		if genericBase(d.T) == "Ref" && d.T.PkgPath() == tlbPkg {
			return d.Sub[0].Render(v.FieldByName("Value"))
		}
		return d.Sub[0].Render(v)
	case KStruct:
		var vs []sx.V
		for i, s := range d.Sub {
			vs = append(vs, s.Render(v.Field(d.Fields[i])))
		}
		return tag("struct", vs...)
	case KSum:
		name := v.FieldByName("SumType").String()
		for k, al := range d.Alts {
			if al.Name == name {
				return tag("sum", sx.Nat(k), al.D.Render(v.Field(al.Idx)))
			}
		}
		return sx.A("bad-sumtype")
	case KAny:
		c := boc.Cell(v.Interface().(tlb.Any))
		c.ResetCounters()
		cs := CellSx(&c)
		return tag("any", cs.List[0], cs.List[1])
	case KCellRef:
		if d.InRef {
			v = v.FieldByName("Value")
		}
		c := v.Interface().(boc.Cell)
		c.ResetCounters()
		return tag("cell", CellSx(&c))
	}
	return sx.A("opaque")
}
