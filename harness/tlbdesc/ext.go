package tlbdesc

// Extension layer (coq/Model/TlbExt.v): descriptors that contain snake data or
// length-prefixed bytes are printed in the xty language; everything else stays
// a base descriptor wrapped in XBase.

import (
	"fmt"
	"math/big"
	"reflect"
	"strings"
	"unicode/utf8"

	"github.com/tonkeeper/tongo/boc"
	"github.com/tonkeeper/tongo/tlb"

	"verifharness/prng"
	"verifharness/sx"
)

func (d *Desc) HasExt() bool {
	if d.K == KSnake || d.K == KLenBytes {
		return true
	}
	for _, s := range d.Sub {
		if s.HasExt() {
			return true
		}
	}
	for _, a := range d.Alts {
		if a.D != nil && a.D.HasExt() {
			return true
		}
	}
	return false
}

// SxX / CoqX print a descriptor in the xty language.
func (d *Desc) SxX() sx.V {
	a := func(name string, args ...sx.V) sx.V { return sx.L(append([]sx.V{sx.A(name)}, args...)...) }
	if !d.HasExt() {
		return a("xbase", d.Sx())
	}
	switch d.K {
	case KSnake:
		return a("xsnake")
	case KLenBytes:
		return a("xlenbytes", sx.Nat(d.W))
	case KMaybe:
		return a("xmaybe", d.Sub[0].SxX())
	case KEither:
		return a("xeither", d.Sub[0].SxX(), d.Sub[1].SxX())
	case KEitherRef:
		return a("xeitherref", d.Sub[0].SxX())
	case KRef:
		return a("xref", d.Sub[0].SxX())
	case KMaybeRef:
		return a("xmayberef", d.Sub[0].SxX())
	case KStruct:
		var fs []sx.V
		for _, s := range d.Sub {
			fs = append(fs, s.SxX())
		}
		return a("xstruct", fs...)
	case KSum:
		var as []sx.V
		for _, al := range d.Alts {
			as = append(as, sx.L(sx.Nat(al.Len), sx.N(al.Val), al.D.SxX()))
		}
		return a("xsum", as...)
	}
	return a("opaque")
}

func (d *Desc) CoqX() string {
	if !d.HasExt() {
		return "XBase (" + d.coqSub() + ")"
	}
	switch d.K {
	case KSnake:
		return "XSnake"
	case KLenBytes:
		return fmt.Sprintf("XLenBytes %d", d.W)
	case KMaybe:
		return "XMaybe (" + d.Sub[0].CoqX() + ")"
	case KEither:
		return "XEither (" + d.Sub[0].CoqX() + ") (" + d.Sub[1].CoqX() + ")"
	case KEitherRef:
		return "XEitherRef (" + d.Sub[0].CoqX() + ")"
	case KRef:
		return "XRef (" + d.Sub[0].CoqX() + ")"
	case KMaybeRef:
		return "XMaybeRef (" + d.Sub[0].CoqX() + ")"
	case KStruct:
		var fs []string
		for _, s := range d.Sub {
			fs = append(fs, s.CoqX())
		}
		return "XStruct [" + strings.Join(fs, "; ") + "]"
	case KSum:
		var as []string
		for _, al := range d.Alts {
			as = append(as, fmt.Sprintf("(%d%%nat, %d%%N, %s)", al.Len, al.Val, al.D.CoqX()))
		}
		return "XSum [" + strings.Join(as, "; ") + "]"
	}
	return "XOPAQUE_MUST_NOT_APPEAR"
}

// DepsX: registered base types referred to by identifier from an extended descriptor.
func (d *Desc) DepsX(acc map[reflect.Type]bool) {
	if !d.HasExt() {
		if n := d.regName(); n != "" {
			acc[d.baseT()] = true
			return
		}
		d.Deps(acc)
		return
	}
	for _, s := range d.Sub {
		s.DepsX(acc)
	}
	for _, a := range d.Alts {
		if a.D != nil {
			a.D.DepsX(acc)
		}
	}
}

func bytesBits(b []byte) string {
	var sb strings.Builder
	for _, x := range b {
		fmt.Fprintf(&sb, "%08b", x)
	}
	return sb.String()
}

func bitsBytes(v sx.V) ([]byte, error) {
	a, err := argsOf(v, "bits", 1)
	if err != nil {
		return nil, err
	}
	s := a[0].Bits
	if len(s)%8 != 0 {
		return nil, fmt.Errorf("bits: %d is not a whole number of bytes", len(s))
	}
	out := make([]byte, len(s)/8)
	for i := range out {
		for j := 0; j < 8; j++ {
			out[i] = out[i]<<1 | (s[8*i+j] - '0')
		}
	}
	return out, nil
}

// snake lengths in bits, biased to the cell boundaries (what fits the current
// cell depends on the fields before it: 1023, 1023-32, ... are all interesting)
func snakeBits(r *prng.R) int {
	switch r.Intn(10) {
	case 0:
		return 0
	case 1:
		return 1023
	case 2:
		return 1024
	case 3:
		return 2046 + r.Intn(3)
	case 4:
		return 900 + r.Intn(140)
	case 5:
		return 1023 + 1023 + 1023 + r.Intn(40)
	}
	return r.Intn(400)
}

func randUTF8(r *prng.R, n int) []byte {
	var b []byte
	for len(b) < n {
		switch {
		case r.Chance(85) || n-len(b) < 4:
			b = append(b, byte(32+r.Intn(95)))
		case r.Chance(40):
			b = append(b, []byte("é")...) // 2 bytes
		case r.Chance(50):
			b = append(b, []byte("€")...) // 3 bytes
		default:
			b = append(b, []byte("😀")...) // 4 bytes
		}
	}
	for !utf8.Valid(b) {
		b = b[:len(b)-1]
	}
	return b
}

func (d *Desc) randSnake(r *prng.R, dst reflect.Value) sx.V {
	n := snakeBits(r)
	switch d.Snake {
	case "bits":
		b := randBitString(r, n)
		dst.Set(reflect.ValueOf(b).Convert(d.T))
		return tag("bits", sx.Bits(bitsStr(b)))
	case "bytes":
		b := r.Bytes(n / 8)
		dst.SetBytes(b)
		return tag("bits", sx.Bits(bytesBits(b)))
	}
	b := randUTF8(r, n/8)
	dst.SetString(string(b))
	return tag("bits", sx.Bits(bytesBits(b)))
}

func (d *Desc) renderSnake(v reflect.Value) sx.V {
	switch d.Snake {
	case "bits":
		return tag("bits", sx.Bits(bitsStr(v.Convert(bitStringT).Interface().(boc.BitString))))
	case "bytes":
		return tag("bits", sx.Bits(bytesBits(v.Bytes())))
	}
	return tag("bits", sx.Bits(bytesBits([]byte(v.String()))))
}

func (d *Desc) fillSnake(v sx.V, dst reflect.Value) error {
	if d.Snake == "bits" {
		a, err := argsOf(v, "bits", 1)
		if err != nil {
			return err
		}
		dst.Set(reflect.ValueOf(bitStringOf(a[0].Bits)).Convert(d.T))
		return nil
	}
	b, err := bitsBytes(v)
	if err != nil {
		return err
	}
	if d.Snake == "bytes" {
		dst.SetBytes(b)
	} else {
		dst.SetString(string(b))
	}
	return nil
}

func (d *Desc) randLenBytes(r *prng.R, dst reflect.Value) sx.V {
	n := r.Intn(40)
	switch r.Intn(8) {
	case 0:
		n = 0
	case 1:
		n = 126
	case 2:
		n = 127 // 8 + 8*127 = 1024 bits: does not fit a cell
	case 3:
		n = 255
	case 4:
		n = 1
	}
	b := r.Bytes(n)
	if r.Chance(60) {
		// text with multi-byte runes: the length prefix counts bytes, not characters
		b = randUTF8(r, n)
		if r.Chance(30) && n >= 4 {
			b = []byte(strings.Repeat("я", n/2))
		}
	}
	dst.SetString(string(b))
	return tag("bits", sx.Bits(bytesBits(b)))
}

// tlb.SignedCoins (int64) as (struct (b negative) (n |value|))
func signedSx(z *big.Int) sx.V {
	return tag("struct", tag("b", sx.B(z.Sign() < 0)), tag("n", sx.BigN(new(big.Int).Abs(z))))
}

func randSignedCoins(r *prng.R, dst reflect.Value) sx.V {
	z := randSigned(r, 64)
	dst.SetInt(z.Int64())
	return signedSx(z)
}

func renderSigned(v reflect.Value) sx.V { return signedSx(big.NewInt(v.Int())) }

func fillSigned(v sx.V, dst reflect.Value) error {
	a, err := argsOf(v, "struct", 2)
	if err != nil {
		return err
	}
	nb, err := argsOf(a[0], "b", 1)
	if err != nil {
		return err
	}
	ab, err := argsOf(a[1], "n", 1)
	if err != nil {
		return err
	}
	z := new(big.Int).Set(ab[0].Int)
	if nb[0].Bool {
		z.Neg(z)
	}
	if !z.IsInt64() {
		return fmt.Errorf("signed coins: out of int64")
	}
	dst.SetInt(z.Int64())
	return nil
}

var _ = tlb.Text("")
