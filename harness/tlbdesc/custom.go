package tlbdesc

// Hand-written codecs of package tlb that have a model in coq/Model/TlbCore.v.
// Each entry records *which* descriptor stands for the Go type; that the Go
// codec behaves like that descriptor is what the correspondence run checks.

import (
	"math/big"
	"reflect"
	"strings"

	"github.com/tonkeeper/tongo/boc"
	"github.com/tonkeeper/tongo/tlb"
	"github.com/tonkeeper/tongo/wallet"

	"verifharness/prng"
	"verifharness/sx"
)

var (
	msgAddressT  = reflect.TypeOf(tlb.MsgAddress{})
	messageT     = reflect.TypeOf(tlb.Message{})
	transactionT = reflect.TypeOf(tlb.Transaction{})
	addrWcT      = reflect.TypeOf(tlb.AddressWithWorkchain{})
	accStatusT   = reflect.TypeOf(tlb.AccountStatus(""))
	accChangeT   = reflect.TypeOf(tlb.AccStatusChange(""))
	skipReasonT  = reflect.TypeOf(tlb.ComputeSkipReason(""))
	cellSliceT   = reflect.TypeOf(tlb.VmCellSlice{})
	textCommentT = reflect.TypeOf(wallet.TextComment(""))
)

func enum(t reflect.Type, alts ...Alt) *Desc { return &Desc{K: KEnum, T: t, Alts: alts} }

// exportedStruct describes a struct with a hand-written codec pair that walks
// exactly the exported fields in order with their tags (tlb.Message,
// tlb.Transaction): the unexported cache fields are not part of the encoding.
func (c *ctx) exportedStruct(t reflect.Type) *Desc {
	d := &Desc{K: KStruct, T: t}
	for i := 0; i < t.NumField(); i++ {
		f := t.Field(i)
		if !f.IsExported() {
			continue
		}
		in := c.desc(f.Type, f.Tag.Get("tlb"))
		if in.K == KOpaque {
			return opaque(t, "field "+f.Name+": "+in.Why)
		}
		d.Sub = append(d.Sub, in)
		d.Fields = append(d.Fields, i)
	}
	return d
}

func (c *ctx) custom(t reflect.Type) *Desc {
	switch t {
	case snakeT:
		return &Desc{K: KSnake, T: t, Snake: "bits"}
	case bytesT:
		return &Desc{K: KSnake, T: t, Snake: "bytes"}
	case textT:
		return &Desc{K: KSnake, T: t, Snake: "text"}
	case fixedTextT:
		return &Desc{K: KLenBytes, W: 8, T: t}
	case signedCoinT:
		// sign bit, then the absolute value as VarUInteger 16
		return &Desc{K: KStruct, T: t, Signed: true, Sub: []*Desc{{K: KBool, T: reflect.TypeOf(false)}, {K: KVarUInt, W: 16, T: reflect.TypeOf(tlb.VarUInteger16{})}}}
	case textCommentT:
		// op 0 (32 bits), then the text as snake data
		return &Desc{K: KStruct, T: t, Sub: []*Desc{{K: KMagic, W: 32, Val: 0, T: magicT}, {K: KSnake, T: textT, Snake: "text"}}}
	case cellSliceT:
		if cellSliceFieldsOK() {
			return &Desc{K: KCellSlice, T: t}
		}
	case msgAddressT:
		return &Desc{K: KAddr, T: t}
	case accStatusT:
		return enum(t, Alt{Name: string(tlb.AccountUninit), Len: 2, Val: 0}, Alt{Name: string(tlb.AccountFrozen), Len: 2, Val: 1},
			Alt{Name: string(tlb.AccountActive), Len: 2, Val: 2}, Alt{Name: string(tlb.AccountNone), Len: 2, Val: 3})
	case accChangeT:
		return enum(t, Alt{Name: string(tlb.AccStatusChangeUnchanged), Len: 1, Val: 0},
			Alt{Name: string(tlb.AccStatusChangeFrozen), Len: 2, Val: 2}, Alt{Name: string(tlb.AccStatusChangeDeleted), Len: 2, Val: 3})
	case skipReasonT:
		return enum(t, Alt{Name: string(tlb.ComputeSkipReasonNoState), Len: 2, Val: 0}, Alt{Name: string(tlb.ComputeSkipReasonBadState), Len: 2, Val: 1},
			Alt{Name: string(tlb.ComputeSkipReasonNoGas), Len: 2, Val: 2}, Alt{Name: string(tlb.ComputeSkipSuspended), Len: 3, Val: 6})
	case messageT:
		if hasCustomMarshal(t) && hasCustomUnmarshal(t) {
			return c.exportedStruct(t)
		}
	case transactionT:
		// decode-only until it has a MarshalTLB (finding F9); with both sides
		// hand-written it walks its exported fields
		if hasCustomMarshal(t) && hasCustomUnmarshal(t) {
			return c.exportedStruct(t)
		}
	case addrWcT:
		// workchain_id:int32 address:bits256, the Go field is an int8
		if hasCustomMarshal(t) && hasCustomUnmarshal(t) {
			return &Desc{K: KStruct, T: t, Fields: []int{0, 1}, Sub: []*Desc{
				{K: KInt, W: 32, GoW: 8, T: t.Field(0).Type}, {K: KBits, W: 256, T: t.Field(1).Type}}}
		}
	}
	if t.PkgPath() == tlbPkg && genericBase(t) == "HashmapE" {
		km, ok1 := t.MethodByName("Keys")
		vm, ok2 := t.MethodByName("Values")
		if !ok1 || !ok2 {
			return nil
		}
		kt, vt := km.Type.Out(0).Elem(), vm.Type.Out(0).Elem()
		dk, dv := c.desc(kt, ""), c.desc(vt, "")
		if dk.K == KOpaque {
			return opaque(t, "dictionary key: "+dk.Why)
		}
		if dv.K == KOpaque {
			return opaque(t, "dictionary value: "+dv.Why)
		}
		return &Desc{K: KDictE, T: t, DK: dk, DV: dv}
	}
	return nil
}

// ------------------------------------------------------------ MsgAddress

func bitsStr(b boc.BitString) string {
	cp := b.Copy()
	cp.ResetCounter()
	var sb strings.Builder
	for cp.BitsAvailableForRead() > 0 {
		x, _ := cp.ReadBit()
		if x {
			sb.WriteByte('1')
		} else {
			sb.WriteByte('0')
		}
	}
	return sb.String()
}

func randBitString(r *prng.R, n int) boc.BitString {
	b := boc.NewBitString(n)
	for i := 0; i < n; i++ {
		_ = b.WriteBit(r.Bool())
	}
	return b
}

func randAnycast(r *prng.R) (tlb.Maybe[tlb.Anycast], sx.V) {
	var m tlb.Maybe[tlb.Anycast]
	if !r.Chance(40) {
		return m, tag("none")
	}
	depth := 1 + r.Intn(30)
	switch r.Intn(5) {
	case 0:
		depth = 1
	case 1:
		depth = 30
	}
	pfx := uint32(r.U64()) & (uint32(1)<<uint(depth) - 1)
	switch r.Intn(6) {
	case 0:
		pfx = 0
	case 1:
		pfx = uint32(1)<<uint(depth) - 1
	}
	m.Exists = true
	m.Value = tlb.Anycast{Depth: uint32(depth), RewritePfx: pfx}
	return m, tag("some", sx.Nat(depth), sx.N(uint64(pfx)))
}

func addrLen(r *prng.R) int {
	switch r.Intn(8) {
	case 0:
		return 0
	case 1:
		return 511
	case 2:
		return 1
	case 3:
		return 256
	case 4:
		return 8
	}
	return r.Intn(512)
}

func randAddr(r *prng.R, dst reflect.Value) sx.V {
	var a tlb.MsgAddress
	var v sx.V
	switch r.Intn(4) {
	case 0:
		a.SumType = "AddrNone"
		v = tag("addr", sx.A("none"))
	case 1:
		b := randBitString(r, addrLen(r))
		a.SumType = "AddrExtern"
		a.AddrExtern = &b
		v = tag("addr", sx.A("ext"), sx.Bits(bitsStr(b)))
	case 2:
		any, av := randAnycast(r)
		a.SumType = "AddrStd"
		a.AddrStd.Anycast = any
		wc := randSigned(r, 8)
		a.AddrStd.WorkchainId = int8(wc.Int64())
		copy(a.AddrStd.Address[:], r.Bytes(32))
		if r.Chance(15) {
			a.AddrStd.Address = tlb.Bits256{}
		}
		bs := boc.NewBitString(256)
		_ = bs.WriteBytes(a.AddrStd.Address[:])
		v = tag("addr", sx.A("std"), av, sx.BigZ(wc), sx.Bits(bitsStr(bs)))
	default:
		any, av := randAnycast(r)
		wc := randSigned(r, 32)
		b := randBitString(r, addrLen(r))
		a.SumType = "AddrVar"
		a.AddrVar = &struct {
			Anycast     tlb.Maybe[tlb.Anycast]
			AddrLen     tlb.Uint9
			WorkchainId int32
			Address     boc.BitString
		}{Anycast: any, AddrLen: tlb.Uint9(b.BitsAvailableForRead()), WorkchainId: int32(wc.Int64()), Address: b}
		v = tag("addr", sx.A("var"), av, sx.BigZ(wc), sx.Bits(bitsStr(b)))
	}
	dst.Set(reflect.ValueOf(a))
	return v
}

func anycastSx(m tlb.Maybe[tlb.Anycast]) sx.V {
	if !m.Exists {
		return tag("none")
	}
	return tag("some", sx.N(uint64(m.Value.Depth)), sx.N(uint64(m.Value.RewritePfx)))
}

func renderAddr(v reflect.Value) sx.V {
	a := v.Interface().(tlb.MsgAddress)
	switch a.SumType {
	case "AddrNone":
		return tag("addr", sx.A("none"))
	case "AddrExtern":
		if a.AddrExtern == nil {
			return sx.A("nil")
		}
		return tag("addr", sx.A("ext"), sx.Bits(bitsStr(*a.AddrExtern)))
	case "AddrStd":
		bs := boc.NewBitString(256)
		_ = bs.WriteBytes(a.AddrStd.Address[:])
		return tag("addr", sx.A("std"), anycastSx(a.AddrStd.Anycast), sx.Z(int64(a.AddrStd.WorkchainId)), sx.Bits(bitsStr(bs)))
	case "AddrVar":
		if a.AddrVar == nil {
			return sx.A("nil")
		}
		if int(a.AddrVar.AddrLen) != len(bitsStr(a.AddrVar.Address)) {
			return sx.A("addrlen-mismatch")
		}
		return tag("addr", sx.A("var"), anycastSx(a.AddrVar.Anycast), sx.Z(int64(a.AddrVar.WorkchainId)), sx.Bits(bitsStr(a.AddrVar.Address)))
	}
	return sx.A("bad-sumtype")
}

// ------------------------------------------------------------ HashmapE

// dictSx: the value of a HashmapE field in model form.  The dictionary body
// is an opaque cell for this property: (maybe) or (maybe (any bits refs)) of
// the root cell the Go encoder produces for the map.
func dictSx(v reflect.Value) sx.V {
	c := boc.NewCell()
	if err := tlb.Marshal(c, v.Interface()); err != nil {
		return sx.A("dict-marshal-error")
	}
	if c.BitSize() != 1 || c.RefsSize() > 1 {
		return sx.A("dict-shape")
	}
	if c.RefsSize() == 0 {
		return tag("maybe")
	}
	cs := CellSx(c.Refs()[0])
	return tag("maybe", tag("any", cs.List[0], cs.List[1]))
}

func (d *Desc) randDict(r *prng.R, dst reflect.Value, depth int) sx.V {
	n := 0
	if !r.Chance(40) && depth < 5 {
		n = 1 + r.Intn(3)
		if r.Chance(30) {
			n = 3 + r.Intn(4)
		}
	}
	for try := 0; try < 3; try++ {
		h := reflect.New(d.T)
		put := h.MethodByName("Put")
		var base *big.Int
		for i := 0; i < n; i++ {
			k := reflect.New(d.DK.T).Elem()
			d.DK.Rand(r, k, depth+6)
			// integer keys that agree on everything but their lowest bits (the last partial
			// byte of a 15-bit key, the bit that decides the order of two neighbours)
			if d.DK.K == KUint && d.DK.W > 1 && d.DK.W <= 64 {
				if base == nil {
					base = new(big.Int).SetUint64(k.Uint())
				} else if r.Chance(60) {
					low := uint(1 + r.Intn(minI(7, d.DK.W-1)))
					x := (base.Uint64() &^ (uint64(1)<<low - 1)) | (r.U64() & (uint64(1)<<low - 1))
					k.SetUint(x)
				}
			}
			val := reflect.New(d.DV.T).Elem()
			d.DV.Rand(r, val, depth+6)
			put.Call([]reflect.Value{k, val})
		}
		s := dictSx(h.Elem())
		if s.K == sx.KL {
			dst.Set(h.Elem())
			return s
		}
		n = 0 // the values did not fit a leaf: fall back to the empty dictionary
	}
	dst.Set(reflect.Zero(d.T))
	return tag("maybe")
}

func minI(a, b int) int {
	if a < b {
		return a
	}
	return b
}

// PermuteDict reorders the (unexported) key and value slices of a tlb.HashmapE / Hashmap
// value in place, with one permutation for both: the same mapping handed over in another
// slice order, as NewHashmapE(keys, values) accepts it.  Returns the number of entries.
func PermuteDict(r *prng.R, h reflect.Value) int {
	if h.Kind() != reflect.Struct || !h.CanAddr() {
		return 0
	}
	m := h
	if f := h.Field(0); h.NumField() == 1 && f.Kind() == reflect.Struct {
		m = hidden(h, 0) // HashmapE{m Hashmap}
	}
	if m.NumField() < 2 || m.Field(0).Kind() != reflect.Slice || m.Field(1).Kind() != reflect.Slice {
		return 0
	}
	keys, vals := hidden(m, 0), hidden(m, 1)
	n := keys.Len()
	if n != vals.Len() || n < 2 {
		return n
	}
	// copy, so that a slice shared with another value is not disturbed
	k2 := reflect.MakeSlice(keys.Type(), n, n)
	v2 := reflect.MakeSlice(vals.Type(), n, n)
	reflect.Copy(k2, keys)
	reflect.Copy(v2, vals)
	ks, vs := reflect.Swapper(k2.Interface()), reflect.Swapper(v2.Interface())
	switch r.Intn(3) {
	case 0: // descending
		for i, j := 0, n-1; i < j; i, j = i+1, j-1 {
			ks(i, j)
			vs(i, j)
		}
	default:
		for i := n - 1; i > 0; i-- {
			j := r.Intn(i + 1)
			ks(i, j)
			vs(i, j)
		}
	}
	keys.Set(k2)
	vals.Set(v2)
	return n
}
