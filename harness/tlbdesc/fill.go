package tlbdesc

import (
	"fmt"
	"math/big"
	"reflect"

	"github.com/tonkeeper/tongo/boc"
	"github.com/tonkeeper/tongo/tlb"

	"verifharness/sx"
)

func bitStringOf(s string) boc.BitString {
	b := boc.NewBitString(len(s))
	for _, ch := range s {
		_ = b.WriteBit(ch == '1')
	}
	return b
}

func argsOf(v sx.V, head string, n int) ([]sx.V, error) {
	if v.K != sx.KL || len(v.List) == 0 || !v.List[0].IsA(head) || (n >= 0 && len(v.List) != n+1) {
		return nil, fmt.Errorf("value %s: expected (%s ...%d)", trunc(v.String()), head, n)
	}
	return v.List[1:], nil
}

func trunc(s string) string {
	if len(s) > 80 {
		return s[:80] + "..."
	}
	return s
}

// Fill builds in dst (settable, of type d.T) the Go value whose model form is v
// (the inverse of Render).
func (d *Desc) Fill(v sx.V, dst reflect.Value) error {
	if d.Ptr && d.K != KMaybe && d.K != KMaybeRef {
		p := reflect.New(d.T.Elem())
		cp := *d
		cp.Ptr = false
		cp.T = d.T.Elem()
		if err := cp.Fill(v, p.Elem()); err != nil {
			return err
		}
		dst.Set(p)
		return nil
	}
	if d.Signed {
		return fillSigned(v, dst)
	}
	if d.T == textCommentT {
		a, err := argsOf(v, "struct", 2)
		if err != nil {
			return err
		}
		b, err := bitsBytes(a[1])
		if err != nil {
			return err
		}
		dst.SetString(string(b))
		return nil
	}
	switch d.K {
	case KSnake:
		return d.fillSnake(v, dst)
	case KLenBytes:
		b, err := bitsBytes(v)
		if err != nil {
			return err
		}
		dst.SetString(string(b))
		return nil
	case KUint, KUnary:
		a, err := argsOf(v, "n", 1)
		if err != nil {
			return err
		}
		dst.SetUint(a[0].Int.Uint64())
	case KInt:
		a, err := argsOf(v, "z", 1)
		if err != nil {
			return err
		}
		dst.SetInt(a[0].Int.Int64())
	case KBigUint:
		a, err := argsOf(v, "n", 1)
		if err != nil {
			return err
		}
		dst.Set(reflect.ValueOf(*new(big.Int).Set(a[0].Int)).Convert(d.T))
	case KBigInt:
		a, err := argsOf(v, "z", 1)
		if err != nil {
			return err
		}
		dst.Set(reflect.ValueOf(*new(big.Int).Set(a[0].Int)).Convert(d.T))
	case KVarUInt:
		a, err := argsOf(v, "n", 1)
		if err != nil {
			return err
		}
		if d.Grams {
			dst.SetUint(a[0].Int.Uint64())
		} else {
			dst.Set(reflect.ValueOf(*new(big.Int).Set(a[0].Int)).Convert(d.T))
		}
	case KBool:
		a, err := argsOf(v, "b", 1)
		if err != nil {
			return err
		}
		dst.SetBool(a[0].Bool)
	case KBits:
		a, err := argsOf(v, "bits", 1)
		if err != nil {
			return err
		}
		s := a[0].Bits
		if len(s) != d.W {
			return fmt.Errorf("bits: length %d, want %d", len(s), d.W)
		}
		for i := 0; i < d.W/8; i++ {
			var x uint64
			for j := 0; j < 8; j++ {
				x = x<<1 | uint64(s[8*i+j]-'0')
			}
			dst.Index(i).SetUint(x)
		}
	case KMagic:
		dst.SetUint(d.Val)
	case KMaybe, KMaybeRef:
		if v.K != sx.KL || len(v.List) < 1 || len(v.List) > 2 || !v.List[0].IsA("maybe") {
			return fmt.Errorf("maybe: %s", trunc(v.String()))
		}
		if d.Ptr {
			if len(v.List) == 1 {
				dst.Set(reflect.Zero(d.T))
				return nil
			}
			p := reflect.New(d.T.Elem())
			if err := d.Sub[0].Fill(v.List[1], p.Elem()); err != nil {
				return err
			}
			dst.Set(p)
			return nil
		}
		dst.FieldByName("Exists").SetBool(len(v.List) == 2)
		if len(v.List) == 2 {
			return d.Sub[0].Fill(v.List[1], dst.FieldByName("Value"))
		}
	case KEither:
		a, err := argsOf(v, "either", 2)
		if err != nil {
			return err
		}
		dst.FieldByName("IsRight").SetBool(a[0].Bool)
		if a[0].Bool {
			return d.Sub[1].Fill(a[1], dst.FieldByName("Right"))
		}
		return d.Sub[0].Fill(a[1], dst.FieldByName("Left"))
	case KEitherRef:
		a, err := argsOf(v, "either", 2)
		if err != nil {
			return err
		}
		dst.FieldByName("IsRight").SetBool(a[0].Bool)
		return d.Sub[0].Fill(a[1], dst.FieldByName("Value"))
	case KRef:
		if genericBase(d.T) == "Ref" && d.T.PkgPath() == tlbPkg {
			return d.Sub[0].Fill(v, dst.FieldByName("Value"))
		}
		return d.Sub[0].Fill(v, dst)
	case KStruct:
		a, err := argsOf(v, "struct", len(d.Sub))
		if err != nil {
			return err
		}
		for i, s := range d.Sub {
			if err := s.Fill(a[i], dst.Field(d.Fields[i])); err != nil {
				return err
			}
		}
	case KSum:
		a, err := argsOf(v, "sum", 2)
		if err != nil {
			return err
		}
		k := a[0].I()
		if k < 0 || k >= len(d.Alts) {
			return fmt.Errorf("sum: constructor %d", k)
		}
		dst.FieldByName("SumType").SetString(d.Alts[k].Name)
		return d.Alts[k].D.Fill(a[1], dst.Field(d.Alts[k].Idx))
	case KEnum:
		a, err := argsOf(v, "sum", 2)
		if err != nil {
			return err
		}
		k := a[0].I()
		if k < 0 || k >= len(d.Alts) {
			return fmt.Errorf("enum: constructor %d", k)
		}
		dst.SetString(d.Alts[k].Name)
	case KAny:
		a, err := argsOf(v, "any", 2)
		if err != nil {
			return err
		}
		c := CellFromSx(sx.L(a[0], a[1]))
		dst.Set(reflect.ValueOf(tlb.Any(*c)))
	case KCellRef:
		a, err := argsOf(v, "cell", 1)
		if err != nil {
			return err
		}
		if d.InRef {
			dst.FieldByName("Value").Set(reflect.ValueOf(*CellFromSx(a[0])))
		} else {
			dst.Set(reflect.ValueOf(*CellFromSx(a[0])))
		}
	case KAddr:
		return fillAddr(v, dst)
	case KCellSlice:
		return fillCellSlice(v, dst)
	case KDictE:
		if v.K != sx.KL || len(v.List) < 1 || len(v.List) > 2 || !v.List[0].IsA("maybe") {
			return fmt.Errorf("dict: %s", trunc(v.String()))
		}
		c := boc.NewCell()
		if len(v.List) == 1 {
			_ = c.WriteBit(false)
		} else {
			a, err := argsOf(v.List[1], "any", 2)
			if err != nil {
				return err
			}
			_ = c.WriteBit(true)
			_ = c.AddRef(CellFromSx(sx.L(a[0], a[1])))
		}
		// the dictionary value is obtained from its cell by the decoder
		// (round trip of the dictionary body itself is property C05)
		return tlb.Unmarshal(c, dst.Addr().Interface())
	default:
		return fmt.Errorf("fill: kind %d", d.K)
	}
	return nil
}

func fillAnycast(v sx.V) (tlb.Maybe[tlb.Anycast], error) {
	var m tlb.Maybe[tlb.Anycast]
	if v.K != sx.KL || len(v.List) == 0 {
		return m, fmt.Errorf("anycast: %s", trunc(v.String()))
	}
	if v.List[0].IsA("none") && len(v.List) == 1 {
		return m, nil
	}
	if v.List[0].IsA("some") && len(v.List) == 3 {
		m.Exists = true
		m.Value = tlb.Anycast{Depth: uint32(v.List[1].U64()), RewritePfx: uint32(v.List[2].U64())}
		return m, nil
	}
	return m, fmt.Errorf("anycast: %s", trunc(v.String()))
}

func fillAddr(v sx.V, dst reflect.Value) error {
	if v.K != sx.KL || len(v.List) < 2 || !v.List[0].IsA("addr") || v.List[1].K != sx.KA {
		return fmt.Errorf("addr: %s", trunc(v.String()))
	}
	var a tlb.MsgAddress
	args := v.List[2:]
	switch v.List[1].Atom {
	case "none":
		a.SumType = "AddrNone"
	case "ext":
		b := bitStringOf(args[0].Bits)
		a.SumType = "AddrExtern"
		a.AddrExtern = &b
	case "std":
		any, err := fillAnycast(args[0])
		if err != nil {
			return err
		}
		a.SumType = "AddrStd"
		a.AddrStd.Anycast = any
		a.AddrStd.WorkchainId = int8(args[1].Int.Int64())
		s := args[2].Bits
		if len(s) != 256 {
			return fmt.Errorf("addr std: %d bits", len(s))
		}
		for i := 0; i < 32; i++ {
			var x byte
			for j := 0; j < 8; j++ {
				x = x<<1 | (s[8*i+j] - '0')
			}
			a.AddrStd.Address[i] = x
		}
	case "var":
		any, err := fillAnycast(args[0])
		if err != nil {
			return err
		}
		b := bitStringOf(args[2].Bits)
		a.SumType = "AddrVar"
		a.AddrVar = &struct {
			Anycast     tlb.Maybe[tlb.Anycast]
			AddrLen     tlb.Uint9
			WorkchainId int32
			Address     boc.BitString
		}{Anycast: any, AddrLen: tlb.Uint9(len(args[2].Bits)), WorkchainId: int32(args[1].Int.Int64()), Address: b}
	default:
		return fmt.Errorf("addr: %s", trunc(v.String()))
	}
	dst.Set(reflect.ValueOf(a))
	return nil
}
