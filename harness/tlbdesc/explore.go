package tlbdesc

// Exploration support for types OUTSIDE the model (opaque / decode-only /
// partial): random Go values built by reflection, a canonical rendering for
// comparing a value with its decoded re-encoding, and cursor advancing for the
// "marshal must not depend on read cursors" family.

import (
	"encoding/hex"
	"fmt"
	"math/big"
	"reflect"
	"strings"

	"github.com/tonkeeper/tongo/boc"
	"github.com/tonkeeper/tongo/tlb"

	"verifharness/prng"
)

var (
	bitStringT  = reflect.TypeOf(boc.BitString{})
	anyT        = reflect.TypeOf(tlb.Any{})
	anycastT    = reflect.TypeOf(tlb.Anycast{})
	snakeT      = reflect.TypeOf(tlb.SnakeData{})
	chunkedT    = reflect.TypeOf(tlb.ChunkedData{})
	bytesT      = reflect.TypeOf(tlb.Bytes{})
	textT       = reflect.TypeOf(tlb.Text(""))
	fixedTextT  = reflect.TypeOf(tlb.FixedLengthText(""))
	signedCoinT = reflect.TypeOf(tlb.SignedCoins(0))
	mcOtherT    = reflect.TypeOf(tlb.McStateExtraOther{})
	mcBlockExT  = reflect.TypeOf(tlb.McBlockExtra{})
)

// conditional fields of block.tlb that the Go structs hold unconditionally: a
// value is in the TL-B domain only if the field is absent (zero) when its
// condition is false
//
//	McStateExtraOther: flags:(## 16) { flags <= 1 } ... block_create_stats:(flags . 0)?BlockCreateStats
//	McBlockExtra:      key_block:(## 1) ... config:key_block?ConfigParams
func normalizeConditional(dst reflect.Value, r *prng.R) {
	switch dst.Type() {
	case mcOtherT:
		f := dst.FieldByName("Flags")
		f.SetUint(f.Uint() & 1)
		if f.Uint() == 0 {
			b := dst.FieldByName("BlockCreateStats")
			b.Set(reflect.Zero(b.Type()))
		}
	case mcBlockExT:
		if !dst.FieldByName("KeyBlock").Bool() {
			b := dst.FieldByName("Config")
			b.Set(reflect.Zero(b.Type()))
		}
	}
}

func randBitsN(r *prng.R) int {
	switch r.Intn(8) {
	case 0:
		return 0
	case 1:
		return 8
	case 2:
		return 1023
	case 3:
		return 1024 + 8*r.Intn(40)
	}
	return 8 * r.Intn(60)
}

func randText(r *prng.R) string {
	n := r.Intn(40)
	switch r.Intn(8) {
	case 0:
		n = 0
	case 1:
		n = 127
	case 2:
		n = 128 + r.Intn(200)
	}
	var sb strings.Builder
	for i := 0; i < n; i++ {
		if r.Chance(5) {
			sb.WriteString("é")
			continue
		}
		sb.WriteByte(byte(32 + r.Intn(95)))
	}
	return sb.String()
}

// GoRand fills dst (settable) with a random value of its Go type, in the
// domain of its TL-B type as far as the harness knows it: subtrees that have a
// descriptor through Rand, hand-written leaf codecs through the table below,
// everything else structurally (one constructor of a union, absent side of
// Maybe/Either left zero).  ok=false: some part cannot be generated.
func GoRand(r *prng.R, dst reflect.Value, tg string, depth int) bool {
	t := dst.Type()
	if depth > 12 {
		return false
	}
	if g, ok := leafGens[t]; ok {
		return g(r, dst, depth)
	}
	if d := describeCached(t, tg); d.K != KOpaque {
		var vs []string
		d.Voids(&vs)
		if len(vs) == 0 {
			d.Rand(r, dst, depth)
			return true
		}
	}
	switch {
	case strings.HasPrefix(tg, "maybe^"), strings.HasPrefix(tg, "maybe"):
		if t.Kind() != reflect.Pointer {
			return false
		}
		if r.Chance(35) {
			dst.Set(reflect.Zero(t))
			return true
		}
		p := reflect.New(t.Elem())
		if !GoRand(r, p.Elem(), "", depth+1) {
			return false
		}
		dst.Set(p)
		return true
	case strings.HasPrefix(tg, "^"):
		tg = ""
	}
	switch t {
	case anycastT:
		depthBits := 1 + r.Intn(30)
		dst.Set(reflect.ValueOf(tlb.Anycast{Depth: uint32(depthBits), RewritePfx: uint32(r.U64()) & (uint32(1)<<uint(depthBits) - 1)}))
		return true
	case snakeT, chunkedT:
		dst.Set(reflect.ValueOf(randBitString(r, randBitsN(r))).Convert(t))
		return true
	case bitStringT:
		dst.Set(reflect.ValueOf(randBitString(r, r.Intn(100))))
		return true
	case bytesT:
		dst.Set(reflect.ValueOf(tlb.Bytes(r.Bytes(randBitsN(r) / 8))))
		return true
	case textT:
		dst.SetString(randText(r))
		return true
	case fixedTextT:
		s := randText(r)
		if len(s) > 120 {
			s = s[:120]
		}
		dst.SetString(strings.ToValidUTF8(s, ""))
		return true
	case signedCoinT:
		v := randSigned(r, 64)
		if v.Cmp(new(big.Int).Neg(pow2(63))) == 0 {
			v = big.NewInt(-1)
		}
		dst.SetInt(v.Int64())
		return true
	case bocCellT:
		dst.Set(reflect.ValueOf(*randCell(r, 1)))
		return true
	case anyT:
		dst.Set(reflect.ValueOf(tlb.Any(*randCell(r, 1))))
		return true
	}
	if t.PkgPath() == tlbPkg {
		switch genericBase(t) {
		case "Maybe":
			ex := !r.Chance(35)
			dst.FieldByName("Exists").SetBool(ex)
			if ex {
				return GoRand(r, dst.FieldByName("Value"), "", depth+1)
			}
			return true
		case "Either":
			right := r.Bool()
			dst.FieldByName("IsRight").SetBool(right)
			if right {
				return GoRand(r, dst.FieldByName("Right"), "", depth+1)
			}
			return GoRand(r, dst.FieldByName("Left"), "", depth+1)
		case "EitherRef":
			dst.FieldByName("IsRight").SetBool(r.Bool())
			return GoRand(r, dst.FieldByName("Value"), "", depth+1)
		case "Ref":
			return GoRand(r, dst.FieldByName("Value"), "", depth+1)
		case "Hashmap", "HashmapE":
			put := dst.Addr().MethodByName("Put")
			km, ok := t.MethodByName("Keys")
			vm, ok2 := t.MethodByName("Values")
			if !put.IsValid() || !ok || !ok2 {
				return false
			}
			n := r.Intn(4)
			if genericBase(t) == "Hashmap" && n == 0 {
				n = 1 // an inline Hashmap cannot be empty
			}
			for i := 0; i < n; i++ {
				k := reflect.New(km.Type.Out(0).Elem()).Elem()
				v := reflect.New(vm.Type.Out(0).Elem()).Elem()
				if !GoRand(r, k, "", depth+4) || !GoRand(r, v, "", depth+4) {
					return false
				}
				put.Call([]reflect.Value{k, v})
			}
			return true
		case "HashmapAug", "HashmapAugE", "BinTree":
			return true // no exported way to build a non-empty one: zero value
		}
	}
	switch t.Kind() {
	case reflect.Pointer:
		if depth > 8 {
			return false
		}
		p := reflect.New(t.Elem())
		if !GoRand(r, p.Elem(), tg, depth+1) {
			return false
		}
		dst.Set(p)
		return true
	case reflect.Struct:
		if _, ok := t.FieldByName("SumType"); ok {
			var idx []int
			for i := 0; i < t.NumField(); i++ {
				f := t.Field(i)
				if f.Type == sumTypeT || f.Type.Name() == "SumType" {
					continue
				}
				if !f.IsExported() {
					return false
				}
				if _, _, ok := ParseSumTag(f.Tag.Get("tlbSumType")); !ok {
					return false
				}
				idx = append(idx, i)
			}
			if len(idx) == 0 {
				return false
			}
			for try := 0; try < 6; try++ {
				i := idx[r.Intn(len(idx))]
				fv := reflect.New(t.Field(i).Type).Elem()
				if GoRand(r, fv, "", depth+1) {
					dst.Set(reflect.Zero(t))
					dst.FieldByName("SumType").SetString(t.Field(i).Name)
					dst.Field(i).Set(fv)
					return true
				}
			}
			return false
		}
		for i := 0; i < t.NumField(); i++ {
			f := t.Field(i)
			if !f.IsExported() {
				continue
			}
			if f.Type == magicT {
				if _, v, ok := ParseSumTag(f.Tag.Get("tlb")); ok {
					dst.Field(i).SetUint(v)
				}
				continue
			}
			if !GoRand(r, dst.Field(i), f.Tag.Get("tlb"), depth+1) {
				return false
			}
		}
		normalizeConditional(dst, r)
		return true
	case reflect.Slice:
		if t.Elem().Kind() == reflect.Uint8 {
			dst.SetBytes(r.Bytes(r.Intn(40)))
			return true
		}
		n := r.Intn(4)
		s := reflect.MakeSlice(t, n, n)
		for i := 0; i < n; i++ {
			if !GoRand(r, s.Index(i), "", depth+1) {
				return false
			}
		}
		if n > 0 {
			dst.Set(s)
		}
		return true
	case reflect.Array:
		if t.Elem().Kind() != reflect.Uint8 {
			return false
		}
		reflect.Copy(dst, reflect.ValueOf(r.Bytes(t.Len())))
		return true
	case reflect.String:
		dst.SetString(randText(r))
		return true
	case reflect.Bool:
		dst.SetBool(r.Bool())
		return true
	case reflect.Uint8, reflect.Uint16, reflect.Uint32, reflect.Uint64:
		dst.SetUint(randUnsigned(r, t.Bits()).Uint64())
		return true
	case reflect.Int8, reflect.Int16, reflect.Int32, reflect.Int64:
		dst.SetInt(randSigned(r, t.Bits()).Int64())
		return true
	}
	return false
}

type descKey struct {
	t  reflect.Type
	tg string
}

var descCache = map[descKey]*Desc{}

func describeCached(t reflect.Type, tg string) *Desc {
	k := descKey{t, tg}
	if d, ok := descCache[k]; ok {
		return d
	}
	d := Describe(t, tg)
	descCache[k] = d
	return d
}

func cellHashHex(c *boc.Cell) string {
	cp := *c
	cp.ResetCounters()
	h, err := cp.Hash()
	if err != nil {
		return "hash-error"
	}
	return hex.EncodeToString(h)
}

// Canon renders a Go value for comparison: exported fields only, cells by
// hash, bit strings from their first bit, values with a hand-written codec
// over unexported state by the hash of their own encoding.
func Canon(v reflect.Value) string {
	var sb strings.Builder
	canon(&sb, v, 0)
	return sb.String()
}

func canon(sb *strings.Builder, v reflect.Value, depth int) {
	if depth > 40 {
		sb.WriteString("<deep>")
		return
	}
	t := v.Type()
	switch t {
	case bocCellT:
		c := v.Interface().(boc.Cell)
		sb.WriteString("cell:" + cellHashHex(&c))
		return
	case anyT:
		c := boc.Cell(v.Interface().(tlb.Any))
		sb.WriteString("any:" + cellHashHex(&c))
		return
	case bitStringT, snakeT, chunkedT:
		b := v.Convert(bitStringT).Interface().(boc.BitString)
		sb.WriteString("bits:" + bitsStr(b))
		return
	case bigIntT:
		b := v.Interface().(big.Int)
		sb.WriteString(b.String())
		return
	}
	if t.Kind() == reflect.Struct && t.ConvertibleTo(bigIntT) && t != bigIntT {
		b := v.Convert(bigIntT).Interface().(big.Int)
		sb.WriteString(b.String())
		return
	}
	switch t.Kind() {
	case reflect.Pointer, reflect.Interface:
		if v.IsNil() {
			sb.WriteString("nil")
			return
		}
		canon(sb, v.Elem(), depth+1)
	case reflect.Struct:
		hiddenState := false
		for i := 0; i < t.NumField(); i++ {
			if !t.Field(i).IsExported() {
				hiddenState = true
			}
		}
		if hiddenState && hasCustomMarshal(t) && t != messageT && t != transactionT {
			c := boc.NewCell()
			var err error
			func() {
				defer func() {
					if r := recover(); r != nil {
						err = fmt.Errorf("panic")
					}
				}()
				err = tlb.Marshal(c, v.Interface())
			}()
			if err != nil {
				sb.WriteString("enc-err")
			} else {
				sb.WriteString("enc:" + cellHashHex(c))
			}
			return
		}
		sb.WriteString("{")
		for i := 0; i < t.NumField(); i++ {
			if !t.Field(i).IsExported() {
				continue
			}
			if t.Field(i).Type == magicT {
				continue // the decoder sets it, the encoder ignores it
			}
			sb.WriteString(t.Field(i).Name + "=")
			canon(sb, v.Field(i), depth+1)
			sb.WriteString(";")
		}
		sb.WriteString("}")
	case reflect.Slice, reflect.Array:
		if t.Elem().Kind() == reflect.Uint8 {
			b := make([]byte, v.Len())
			for i := range b {
				b[i] = byte(v.Index(i).Uint())
			}
			sb.WriteString("x" + hex.EncodeToString(b))
			return
		}
		sb.WriteString("[")
		for i := 0; i < v.Len(); i++ {
			canon(sb, v.Index(i), depth+1)
			sb.WriteString(",")
		}
		sb.WriteString("]")
	case reflect.String:
		fmt.Fprintf(sb, "%q", v.String())
	case reflect.Bool:
		fmt.Fprintf(sb, "%v", v.Bool())
	case reflect.Uint8, reflect.Uint16, reflect.Uint32, reflect.Uint64, reflect.Uint:
		fmt.Fprintf(sb, "%d", v.Uint())
	case reflect.Int8, reflect.Int16, reflect.Int32, reflect.Int64, reflect.Int:
		fmt.Fprintf(sb, "%d", v.Int())
	default:
		sb.WriteString("<" + t.Kind().String() + ">")
	}
}

// AdvanceCursors moves the read cursors of every bit string and cell held by
// the (addressable) value: k bits on *boc.BitString / boc.BitString / boc.Cell
// / tlb.Any, and one reference on boc.Cell (tlb.Any legitimately writes only
// the references not yet read, so its reference cursor is left alone).
// Returns the number of cursors moved.
func AdvanceCursors(v reflect.Value, k int) int {
	n := 0
	advance(v, k, 0, &n)
	return n
}

func advance(v reflect.Value, k, depth int, n *int) {
	if depth > 40 {
		return
	}
	t := v.Type()
	switch t {
	case bitStringT:
		if v.CanAddr() {
			b := v.Addr().Interface().(*boc.BitString)
			if m := b.BitsAvailableForRead(); m > 0 {
				if k > m {
					k = m
				}
				_ = b.Skip(k)
				*n++
			}
		}
		return
	case bocCellT, anyT:
		if v.CanAddr() {
			c := v.Addr().Convert(reflect.PointerTo(bocCellT)).Interface().(*boc.Cell)
			if m := c.BitsAvailableForRead(); m > 0 {
				if k > m {
					k = m
				}
				_ = c.Skip(k)
				*n++
			}
			if t == bocCellT && c.RefsAvailableForRead() > 0 {
				_, _ = c.NextRef()
				*n++
			}
		}
		return
	}
	switch t.Kind() {
	case reflect.Pointer:
		if !v.IsNil() {
			advance(v.Elem(), k, depth+1, n)
		}
	case reflect.Struct:
		for i := 0; i < t.NumField(); i++ {
			if t.Field(i).IsExported() {
				advance(v.Field(i), k, depth+1, n)
			}
		}
	case reflect.Slice:
		if t.Elem().Kind() != reflect.Uint8 {
			for i := 0; i < v.Len(); i++ {
				advance(v.Index(i), k, depth+1, n)
			}
		}
	}
}

// WalkLive visits the positions of a value that are actually encoded (the
// present side of Maybe / Either, the selected constructor of a union) and calls
// f on the leaves of kind KCellRef, KAny and KDictE with the settable Go value.
func (d *Desc) WalkLive(v reflect.Value, f func(d *Desc, v reflect.Value)) {
	if d.Ptr && d.K != KMaybe && d.K != KMaybeRef {
		if v.IsNil() {
			return
		}
		cp := *d
		cp.Ptr = false
		cp.T = d.T.Elem()
		cp.WalkLive(v.Elem(), f)
		return
	}
	switch d.K {
	case KCellRef:
		if d.InRef {
			v = v.FieldByName("Value")
		}
		f(d, v)
	case KAny, KDictE:
		f(d, v)
	case KMaybe, KMaybeRef:
		if d.Ptr {
			if !v.IsNil() {
				d.Sub[0].WalkLive(v.Elem(), f)
			}
			return
		}
		if v.FieldByName("Exists").Bool() {
			d.Sub[0].WalkLive(v.FieldByName("Value"), f)
		}
	case KEither:
		if v.FieldByName("IsRight").Bool() {
			d.Sub[1].WalkLive(v.FieldByName("Right"), f)
		} else {
			d.Sub[0].WalkLive(v.FieldByName("Left"), f)
		}
	case KEitherRef:
		d.Sub[0].WalkLive(v.FieldByName("Value"), f)
	case KRef:
		if genericBase(d.T) == "Ref" && d.T.PkgPath() == tlbPkg {
			d.Sub[0].WalkLive(v.FieldByName("Value"), f)
		} else {
			d.Sub[0].WalkLive(v, f)
		}
	case KStruct:
		if d.Signed || len(d.Fields) != len(d.Sub) {
			return
		}
		for i, s := range d.Sub {
			s.WalkLive(v.Field(d.Fields[i]), f)
		}
	case KSum:
		name := v.FieldByName("SumType").String()
		for _, al := range d.Alts {
			if al.Name == name && al.D.K != KVoid {
				al.D.WalkLive(v.Field(al.Idx), f)
			}
		}
	}
}
