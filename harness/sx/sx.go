// Package sx implements the S-expression syntax shared with the OCaml driver
// of the extracted Coq model:
//
//	n<hex>   natural     z[-]<hex> integer   t / f  bool
//	b<01..>  bit list    x<hex>    byte list 'atom  atom
//	( v v .. ) list
package sx

import (
	"encoding/hex"
	"fmt"
	"math/big"
	"strings"
)

type Kind int

const (
	KN Kind = iota
	KZ
	KB
	KBits
	KBytes
	KA
	KL
)

type V struct {
	K     Kind
	Int   *big.Int // KN, KZ
	Bool  bool
	Bits  string // over '0','1'
	Bytes []byte
	Atom  string
	List  []V
}

func N(n uint64) V      { return V{K: KN, Int: new(big.Int).SetUint64(n)} }
func Nat(n int) V       { return V{K: KN, Int: big.NewInt(int64(n))} }
func BigN(n *big.Int) V { return V{K: KN, Int: new(big.Int).Set(n)} }
func Z(z int64) V       { return V{K: KZ, Int: big.NewInt(z)} }
func BigZ(z *big.Int) V { return V{K: KZ, Int: new(big.Int).Set(z)} }
func B(b bool) V        { return V{K: KB, Bool: b} }
func Bits(s string) V   { return V{K: KBits, Bits: s} }
func Bytes(b []byte) V  { return V{K: KBytes, Bytes: append([]byte{}, b...)} }
func Str(s string) V    { return V{K: KBytes, Bytes: []byte(s)} }
func A(a string) V      { return V{K: KA, Atom: a} }
func L(vs ...V) V       { return V{K: KL, List: vs} }
func BoolBits(bs []bool) V {
	var sb strings.Builder
	for _, b := range bs {
		if b {
			sb.WriteByte('1')
		} else {
			sb.WriteByte('0')
		}
	}
	return Bits(sb.String())
}

func (v V) write(sb *strings.Builder) {
	switch v.K {
	case KN:
		sb.WriteByte('n')
		sb.WriteString(v.Int.Text(16))
	case KZ:
		sb.WriteByte('z')
		sb.WriteString(v.Int.Text(16))
	case KB:
		if v.Bool {
			sb.WriteByte('t')
		} else {
			sb.WriteByte('f')
		}
	case KBits:
		sb.WriteByte('b')
		sb.WriteString(v.Bits)
	case KBytes:
		sb.WriteByte('x')
		sb.WriteString(hex.EncodeToString(v.Bytes))
	case KA:
		sb.WriteByte('\'')
		sb.WriteString(v.Atom)
	case KL:
		sb.WriteByte('(')
		for i, x := range v.List {
			if i > 0 {
				sb.WriteByte(' ')
			}
			x.write(sb)
		}
		sb.WriteByte(')')
	}
}

func (v V) String() string {
	var sb strings.Builder
	v.write(&sb)
	return sb.String()
}

// IsA reports whether v is the atom a.
func (v V) IsA(a string) bool { return v.K == KA && v.Atom == a }

// Head returns the atom at the head of a list, or "".
func (v V) Head() string {
	if v.K == KL && len(v.List) > 0 && v.List[0].K == KA {
		return v.List[0].Atom
	}
	return ""
}

func (v V) U64() uint64 { return v.Int.Uint64() }
func (v V) I() int      { return int(v.Int.Int64()) }

type parser struct {
	s   string
	pos int
}

func Parse(s string) (V, error) {
	p := &parser{s: s}
	v, err := p.value()
	if err != nil {
		return V{}, err
	}
	p.ws()
	if p.pos != len(p.s) {
		return V{}, fmt.Errorf("trailing input at %d", p.pos)
	}
	return v, nil
}

func (p *parser) ws() {
	for p.pos < len(p.s) && p.s[p.pos] == ' ' {
		p.pos++
	}
}

func (p *parser) token() string {
	st := p.pos
	for p.pos < len(p.s) && p.s[p.pos] != ' ' && p.s[p.pos] != '(' && p.s[p.pos] != ')' {
		p.pos++
	}
	return p.s[st:p.pos]
}

func (p *parser) value() (V, error) {
	p.ws()
	if p.pos >= len(p.s) {
		return V{}, fmt.Errorf("eof")
	}
	c := p.s[p.pos]
	p.pos++
	switch c {
	case '(':
		var items []V
		for {
			p.ws()
			if p.pos >= len(p.s) {
				return V{}, fmt.Errorf("eof in list")
			}
			if p.s[p.pos] == ')' {
				p.pos++
				return V{K: KL, List: items}, nil
			}
			x, err := p.value()
			if err != nil {
				return V{}, err
			}
			items = append(items, x)
		}
	case 'n', 'z':
		t := p.token()
		i, ok := new(big.Int).SetString(t, 16)
		if !ok {
			return V{}, fmt.Errorf("bad number %q", t)
		}
		if c == 'n' {
			return V{K: KN, Int: i}, nil
		}
		return V{K: KZ, Int: i}, nil
	case 't':
		return B(true), nil
	case 'f':
		return B(false), nil
	case 'b':
		return Bits(p.token()), nil
	case 'x':
		b, err := hex.DecodeString(p.token())
		if err != nil {
			return V{}, err
		}
		return V{K: KBytes, Bytes: b}, nil
	case '\'':
		return A(p.token()), nil
	}
	return V{}, fmt.Errorf("unexpected %q at %d", c, p.pos-1)
}
