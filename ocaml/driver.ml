(* Driver for the extracted Coq model.  Protocol: each input line is
     <case-kind> <sexpr>
   and one line <sexpr> is printed per input line.  This file only converts
   between text and the extracted [sx] type; no semantics lives here.

   Syntax:  n<hex>  z[-]<hex>  t  f  b<01*>  x<hex bytes>  'atom  ( v v ... ) *)
open Model

(* ---- positive / N / Z <-> hex ---- *)
let hexval c =
  match c with
  | '0' .. '9' -> Char.code c - 48
  | 'a' .. 'f' -> Char.code c - 87
  | 'A' .. 'F' -> Char.code c - 55
  | _ -> failwith "bad hex digit"

(* most-significant-first list of bits from hex string *)
let bits_of_hex (s : Stdlib.String.t) : bool list =
  let r = ref [] in
  for i = String.length s - 1 downto 0 do
    let v = hexval s.[i] in
    (* prepend 4 bits, most significant first *)
    r := (v land 8 <> 0) :: (v land 4 <> 0) :: (v land 2 <> 0) :: (v land 1 <> 0) :: !r
  done;
  !r

let rec strip = function false :: t -> strip t | l -> l

let n_of_hex (s : Stdlib.String.t) : n =
  match strip (bits_of_hex s) with
  | [] -> N0
  | _ :: rest ->
      (* leading 1 consumed; build positive from msb to lsb *)
      let p = List.fold_left (fun acc b -> if b then XI acc else XO acc) XH rest in
      Npos p

let hex_of_pos (p : positive) : Stdlib.String.t =
  (* collect bits lsb first *)
  let rec go p acc = match p with
    | XH -> true :: acc
    | XO q -> go q (false :: acc)
    | XI q -> go q (true :: acc) in
  let bits = go p [] in   (* msb first *)
  let len = List.length bits in
  let pad = (4 - len mod 4) mod 4 in
  let bits = (List.init pad (fun _ -> false)) @ bits in
  let buf = Buffer.create (len / 4 + 1) in
  let rec emit = function
    | a :: b :: c :: d :: t ->
        let v = (if a then 8 else 0) + (if b then 4 else 0) + (if c then 2 else 0) + (if d then 1 else 0) in
        Buffer.add_char buf "0123456789abcdef".[v]; emit t
    | [] -> ()
    | _ -> failwith "impossible" in
  emit bits; Buffer.contents buf

let hex_of_n = function N0 -> "0" | Npos p -> hex_of_pos p

let small_of_n (x : n) : int =
  match x with
  | N0 -> 0
  | Npos p ->
      let rec go p = match p with XH -> 1 | XO q -> 2 * go q | XI q -> 2 * go q + 1 in
      go p

let n_of_small (i : int) : n = n_of_hex (Printf.sprintf "%x" i)

(* ---- Coq string <-> OCaml string ---- *)
let ascii_of_char (c : char) : ascii =
  let v = Char.code c in
  let b i = v land (1 lsl i) <> 0 in
  Ascii (b 0, b 1, b 2, b 3, b 4, b 5, b 6, b 7)

let char_of_ascii (Ascii (a, b, c, d, e, f, g, h)) : char =
  let v x i = if x then 1 lsl i else 0 in
  Char.chr (v a 0 + v b 1 + v c 2 + v d 3 + v e 4 + v f 5 + v g 6 + v h 7)

let coq_string (s : Stdlib.String.t) : Model.string =
  let r = ref EmptyString in
  for i = String.length s - 1 downto 0 do
    r := String (ascii_of_char s.[i], !r)
  done;
  !r

let ocaml_string (s : Model.string) : Stdlib.String.t =
  let buf = Buffer.create 16 in
  let rec go = function
    | EmptyString -> ()
    | String (a, t) -> Buffer.add_char buf (char_of_ascii a); go t in
  go s; Buffer.contents buf

(* ---- parser ---- *)
exception Parse of Stdlib.String.t

let parse_sx (s : Stdlib.String.t) (pos : int ref) : sx =
  let len = String.length s in
  let rec skip_ws () = if !pos < len && s.[!pos] = ' ' then (incr pos; skip_ws ()) in
  let token () =
    let st = !pos in
    while !pos < len && s.[!pos] <> ' ' && s.[!pos] <> ')' && s.[!pos] <> '(' do incr pos done;
    String.sub s st (!pos - st) in
  let rec value () : sx =
    skip_ws ();
    if !pos >= len then raise (Parse "eof");
    match s.[!pos] with
    | '(' ->
        incr pos;
        let items = ref [] in
        let rec loop () =
          skip_ws ();
          if !pos >= len then raise (Parse "eof in list");
          if s.[!pos] = ')' then incr pos
          else (items := value () :: !items; loop ()) in
        loop ();
        SL (List.rev !items)
    | 'n' -> incr pos; SN (n_of_hex (token ()))
    | 'z' ->
        incr pos;
        let t = token () in
        if String.length t > 0 && t.[0] = '-' then
          (match n_of_hex (String.sub t 1 (String.length t - 1)) with
           | N0 -> SZ Z0
           | Npos p -> SZ (Zneg p))
        else (match n_of_hex t with N0 -> SZ Z0 | Npos p -> SZ (Zpos p))
    | 't' -> incr pos; SB true
    | 'f' -> incr pos; SB false
    | 'b' ->
        incr pos;
        let t = token () in
        SBits (List.init (String.length t) (fun i -> t.[i] = '1'))
    | 'x' ->
        incr pos;
        let t = token () in
        if String.length t mod 2 <> 0 then raise (Parse "odd hex");
        SBytes (List.init (String.length t / 2)
                  (fun i -> n_of_small (hexval t.[2 * i] * 16 + hexval t.[2 * i + 1])))
    | '\'' -> incr pos; SA (coq_string (token ()))
    | c -> raise (Parse (Printf.sprintf "unexpected %c at %d" c !pos)) in
  value ()

(* ---- printer ---- *)
let rec print_sx (buf : Buffer.t) (v : sx) : unit =
  match v with
  | SN x -> Buffer.add_char buf 'n'; Buffer.add_string buf (hex_of_n x)
  | SZ Z0 -> Buffer.add_string buf "z0"
  | SZ (Zpos p) -> Buffer.add_char buf 'z'; Buffer.add_string buf (hex_of_pos p)
  | SZ (Zneg p) -> Buffer.add_string buf "z-"; Buffer.add_string buf (hex_of_pos p)
  | SB true -> Buffer.add_char buf 't'
  | SB false -> Buffer.add_char buf 'f'
  | SBits l ->
      Buffer.add_char buf 'b';
      List.iter (fun b -> Buffer.add_char buf (if b then '1' else '0')) l
  | SBytes l ->
      Buffer.add_char buf 'x';
      List.iter (fun b -> Buffer.add_string buf (Printf.sprintf "%02x" (small_of_n b land 255))) l
  | SA a -> Buffer.add_char buf '\''; Buffer.add_string buf (ocaml_string a)
  | SL l ->
      Buffer.add_char buf '(';
      List.iteri (fun i x -> if i > 0 then Buffer.add_char buf ' '; print_sx buf x) l;
      Buffer.add_char buf ')'

let () =
  let buf = Buffer.create 65536 in
  (try
     while true do
       let line = input_line stdin in
       Buffer.clear buf;
       (match String.index_opt line ' ' with
        | None -> Buffer.add_string buf "('driver-error 'noarg)"
        | Some i ->
            let name = String.sub line 0 i in
            (try
               let pos = ref (i + 1) in
               let arg = parse_sx line pos in
               print_sx buf (Model.run (coq_string name) arg)
             with
             | Parse m -> Buffer.add_string buf ("('driver-error 'parse-" ^ m ^ ")")
             | Stack_overflow -> Buffer.add_string buf "('driver-error 'stack-overflow)"
             | Failure m -> Buffer.add_string buf ("('driver-error 'failure-" ^ m ^ ")")));
       print_string (Buffer.contents buf);
       print_char '\n'
     done
   with End_of_file -> ());
  flush stdout
