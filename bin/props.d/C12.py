PROP = {
    'level': 'proof',
    'coq': ['Properties/C12.v'],
    'coq_gen': ['Properties/C12_gen_r8.v'],
    'rule': ("the real liteclient.Client (Request, registry, per-connection readers, Connection status machine, reconnect) "
             "against an in-process fake ADNL lite server on loopback TCP (server side of handshake and framing in the "
             "harness; query ids learnt from the received queries). c12.script: 1..64 concurrent callers x 1..4 connections, "
             "two waves, late starters; answers permuted, duplicated with other data, for unknown ids, malformed length "
             "prefixes (4 forms), 36-byte answers, well-formed answers under a wrong magic, pongs, auth nonces, junk, "
             "answer lengths 0/1/253/254/255/256/2047, answers after the call returned, connection dropped mid-request; "
             "every packet is synchronised on the registry, the model predicts each call's result and the registry sizes. "
             "c12.race: all packets written at once on several connections; the observed results must be produced by some "
             "order of reader steps of the model. c12.seq: sequential calls with idle / mid-request drops (FIN or RST), an "
             "auth-nonce flood followed by RST, until the client has reconnected by itself; the observed history (arrival "
             "connection = round robin, sent into the void, send error, reconnect, later calls ok) must be a trace of the "
             "model. Oracles on the implementation: own answer only, timeout not before and no hang after the deadline, "
             "registry empty afterwards, reconnect within 5 s of a failed send and later calls succeed, Connection.mu never "
             "stuck; soak with the unmodified constructors (NewConnection/NewClient/OptionWorkersPerConnection, pings "
             "answered): 3000 calls from 32 goroutines, goroutine count before/after, idle connections closed by the server "
             "are re-established via the ping path within 15 s; the silence rule on the wall clock (three 12 s scenarios "
             "overlapping the rest, compared as c12.seq histories with one 'tick per second): pong-keeps-alive (real ping "
             "goroutine, every ping answered, warm-up call, idle 9.2 s, call answered at 11.7 s with a 6 s client timeout: "
             "own answer, exactly one transport connection, pings seen, round trip measured), nonce-keeps-alive (only auth "
             "nonces every 2.5 s), silent-reconnects (no traffic: a second connection between 9.5 and 16 s; a reconnect "
             "nobody requested is accepted by the model only after 10 ticks without any packet); outages (server resets the "
             "connection and turns every new one away for 2 s / 11.5 s counted from the failed send that starts reconnect(), "
             "then is back: re-established and IsOK within 8 s, later calls succeed, every attempt the server turned away is "
             "a 'dialfail event of the compared history); pinger-survives-reconnect (unmodified connection, idle, reset by the "
             "server - FIN variant in the thorough tier - so that only the 3 s pinger can notice; after the client has "
             "re-established it: >= 2 pings in the next 11.5 s, a call issued 8.5 s and answered 11.5 s after the reconnect "
             "gets its answer, exactly one further transport connection; the history carries every ping the server received "
             "and the model lets at most 5 ticks pass on a healthy pinged connection without one); caller contexts (c12.script: each call under Background, a deadline "
             "of 1 h, a deadline at a third of the client timeout, or a cancel-only context that the caller cancels: the "
             "model says which deadline ends an unanswered call - client / caller / cancelled - and the harness measures it; a "
             "call that outlives min(client timeout, caller deadline) by 3 s is call-hangs); c12.auth in the guarded child "
             "(unmodified NewConnection with and without an auth key against a server that runs tcp.authentificate -> nonce "
             "-> complete and verifies the Ed25519 signature over both nonces; Request, LiteServerGetTime and "
             "WaitMasterchainSeqno under a 1 h caller deadline, unanswered calls, FIN/RST drops, recovery: results, number of "
             "transport connections and of verified authentications predicted by the model; a crash of the process is an "
             "outcome); black holes during a reconnect (wall-clock c12.seq histories on 1- and 2-connection clients: the server resets "
             "connection 0 and then accepts TCP but never answers the handshake / sends ten bytes of the answer / answers it and is "
             "silent for ever, the swallowed connection stays open; meanwhile every call returns by its deadline - send error, "
             "timeout, or an answer over the healthy connection - and once the server behaves again for new connections the client "
             "is re-established within 14 s of the failed send, later calls succeed; c12.auth: the same holes with the calls' "
             "results predicted by the model, goroutine count around each call, NewConnection under a 400 ms context against a "
             "hole returns an error by its deadline); overlapping reconnects (12 rounds of 8 goroutines released together into Connection.reconnect() with a 150 ms "
             "handshake, and 48 callers x 512 KiB blocked in their writes when the server resets the connection: exactly one new "
             "connection per round, never more than one live server-side connection of the client, none later during 12 s of "
             "observation on a fed connection); authenticated reconnects whose authentication is swallowed (handshake answered then "
             "silence, tcp.authentificate ignored, transport swallowed, two nonce packets back to back with the first malformed): "
             "calls return by their deadline, Connection.mu never stuck, re-established within 14 s, later calls succeed; a frame the "
             "client cannot parse (checksum, length below 64, above 8 MiB) makes it give the connection up and reconnect (c12.auth, "
             "predicted); raw Client.Request with query sizes 0..8, 250..260, 1000, 4095..4097, 65535..65537 (1 MiB and 8 MiB-256 in the "
             "thorough tier) through the server's own strict reader of adnl.message.query (canonical length prefix, exact padding), "
             "answered with as many bytes derived from a digest of the query (c12.auth 'sized acts, predicted), and the same "
             "boundary sizes (253..256, 4096, 65536) among the concurrent calls of every script: a query the server cannot read is "
             "query-undecodable; go/ast check of the statement order in Request / "
             "registerCallback / processQueryAnswer. A class is (kind, connections, callers bucket, waves/drop or race shape "
             "or history shape, outcome)."),
    'explanation': ("coq/Properties/C12.v: for every trace of the labelled transition system of client.go + the status machine of "
                    "connection.go (any number of callers and connections, any server behaviour, any drops): a call that returns "
                    "data returns an answer emitted for its own query id and it is the only delivery to it; the reader never blocks; "
                    "a waiting call always has its timeout enabled and no unreturned call is stuck; the registry holds in-flight "
                    "calls only and is empty when idle; at most one reconnect loop per connection; the silence rule "
                    "fires only after a full period without a packet of any kind (a connection fed at least once per period "
                    "is never dropped by it); after any number of failed attempts and any waiting time the reconnect loop can "
                    "still succeed (attempts are independent; a single deadline for the whole loop is refuted); the pinger of a connection "
                    "is alive and enabled in every reachable state, across failed pings and reconnects, and time cannot pass its "
                    "deadline without a ping (a pinger that returns after a failed ping is refuted); the length prefix of query and answer bytes round-trips for every size below 2^24 (keeping the short form for 254 is refuted); of overlapping reconnect() calls exactly one dials (checking the status before taking the lock is refuted); a connection attempt whose handshake has a deadline ends (without one it never does: the repaired defect); the deadline of a call is min(client timeout, caller deadline) (the "
                    "variant that lets a later caller deadline replace the client timeout is refuted); the authentication channel, "
                    "never closed, serves any number of re-authentications (closing it after the first one is refuted: panic); a new call over an established "
                    "connection completes. The extracted model predicts or accepts every generated history of the real client."),
    'assumptions': ["query ids of concurrently in-flight calls are distinct (256-bit math/rand ids); visible premise of C12_no_foreign_answer",
                    "data races, goroutine leaks and wall-clock bounds (deadline, reconnect latency) are runtime facts not exhibited by the "
                    "model; observed as support: -race run clean, goroutine count stable, reconnect < 5 s / < 15 s (ping path)",
                    "the ping period is modelled as an urgency bound of 5 one-second ticks (3 s sleep plus scheduling slack); connections "
                    "built by the harness' dial hook have no pinger and start from init_state_without_pinger",
                    "liveness of reconnection is an enabled path, not a fairness theorem (C12_reconnect_path_partial)",
                    "connections with an auth key: the LTS abstracts handshake + authentication into LReconnectDone; the channel protocol is "
                    "modelled separately (Proofs/ClientHistory.v); a second or late nonce wedging an authenticated client is not covered; "
                    "sendAuthComplete overwrites the tcp.authentificationComplete magic with the pub.ed25519 one (observation, wire format: C11); "
                    "mutex critical sections are atomic steps (source order checked by go/ast)"],
}

META = {
    'text': ("Machine-checked proof (Coq) over a labelled transition system of liteclient/client.go (Request program counter, "
             "query-id registry, capacity-1 reply channels, per-connection readers, round robin) and the Connecting/Connected "
             "machine of connection.go (drop, failed send, ping failure, silence, reconnect requests and loop), by induction over "
             "all traces: own answer only (and, for distinct ids, never another call's), the reader never blocks, timeout always "
             "enabled and no stuck call, registry = in-flight calls and empty when idle, at most one reconnect loop, silence rule only after a "
             "full period without any packet, a new call "
             "over an established connection completes. The real client is run against an in-process ADNL server; the extracted "
             "model predicts synchronised scripts exactly and accepts (as its own traces) the histories the scheduler decides. "
             "One deadlock found and repaired (auth nonce without auth key)."),
    'design_ref': 'DESIGN.md §6 C12',
    'note': ("Trusted: Coq kernel, extraction, drivers, Go harness incl. its fake server. Data races, goroutine counts and wall-clock "
             "bounds are runtime facts (support: -race clean, goroutine count stable, measured reconnect bounds); reconnection "
             "liveness is an enabled path; auth-key connections are not modelled; distinct ids assumed."),
    'technique': 'Coq invariants over all traces of an LTS + extracted-model prediction / trace acceptance on the real concurrent client + source-order check',
}

# ROUND-8-APPEND
PROP['rule'] += " Round 8: c12.greet: the boundary between handshake and session on the wire - the fake server writes packets in the SAME Write as its handshake answer (unknown magic, pong / answer for unknown ids, auth nonce, empty and short payloads, a 5 KiB burst longer than a bufio buffer, and on a re-established connection the answers of the calls that were in flight when the old one was reset), on every connection and generation, 1-2 hook connections and the unmodified NewConnection/NewClient: every call gets its own answer before and after the reconnect, in-flight calls get the answer written behind the new handshake answer, registry empty, Connection.mu not stuck. c12.locks (go/ast over package liteclient, lock state followed through the statements) and the coq_gen obligation C12_gen_no_reentrant_locking over Generated/ConnLocks.v + ConnSends.v: no method is called with the receiver's mu held that locks that mu itself, directly or through what it calls synchronously on the same receiver (sync.Mutex is not re-entrant); non-vacuity: the lockers of connection.go and the held call handleAuthResponse -> sendAuthComplete are found."

# ROUND-8-META
META['text'] += " Round 8: source obligation C12_gen_no_reentrant_locking (vm_compute over the lock sections and receiver calls the translator extracts from package liteclient on every run): no method is called with the receiver's mutex held that locks it again, directly or transitively; the fake server also writes packets in the same Write as its handshake answer."
