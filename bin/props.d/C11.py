PROP = {
    'level': 'proof',
    'coq': ['Properties/C11.v'],
    'coq_gen': ['Properties/C11_gen.v', 'Properties/C11_gen_r8.v'],
    'rule': ("four streams from one PRNG. (a) sessions: the real newEncryptedConnection (hook VerifDial; crypto/rand.Reader "
             "replaced by a deterministic reader delivering params|key seed|packet nonces) connects over loopback TCP to a "
             "reference server written from the protocol (std crypto only): the 256 handshake bytes, every byte the client "
             "writes, every byte the server writes, the payloads delivered on the client's channel and the packets the server "
             "decodes are compared with the extracted model (client) + specification (server), which get AES-CTR keystreams and "
             "X25519 results as oracle columns and compute SHA-256 in Gallina; 0..5 packets per direction, sizes 0..300 biased to "
             "0,1,3,4,55,56,63,64,119,120,255,256, up to 1.5 KB (20 KB thorough), one 64 KiB payload per run (both directions in "
             "thorough), server bytes cut at random / tiny / field-boundary write sizes, the pieces of the handshake confirmation sent as "
             "separate TCP segments (12 ms apart); a family with the 68-byte confirmation cut in two after k bytes, k in "
             "1,3,4,5,35,36,37,67 (every k in 1..67 in thorough); sequences of 2..5 such sessions made by one process (kind c11.multi) to "
             "servers drawn from a pool of three (A,B / A,A / A,B,A ...), with ONE caller-owned key buffer overwritten with the next "
             "server's key, or a fresh slice each time. (b) liteclient.ParsePacket on model-checked "
             "frames under 5 segmentations (single, bytewise, random with empty reads, field boundaries, 4095/4096/4097/1460 blocks): "
             "valid, every truncation, every position x single-bit and single-byte substitution (all 8 bits + 0xff + random in "
             "thorough), sampled corruptions of large frames, length-field attacks (0,1,63,64,65,8MiB-1,8MiB,8MiB+1,2^31,2^32-1 x "
             "available bytes), random bytes; compared: ok/eof/unexpected-eof/err, nonce, payload, bytes consumed. (c) "
             "handleIncomingPackets over an in-memory net.Conn: 1..5 frames, segmentations, one corrupted or truncated frame. "
             "(d) Packet.marshal with chosen nonce. (e) several goroutines on ONE Connection through the real Connection.Send: "
             "deterministic - a transport that holds the first Write until a second Write has gone through (or 100 ms) while a second "
             "goroutine sends 1..3 packets; wire bytes and the order of XORKeyStream / Write calls are compared with the model's "
             "lock / encrypt / write / unlock transition system run on a schedule that contains the blocked attempts; over TCP - 2..8 "
             "goroutines x 1..4 packets of mixed sizes through the real handshake to the reference server, which reads every byte and "
             "decodes; per-sender payload sequences compared with the model run on a random schedule of sender steps; load runs "
             "(8x40x2 KiB, 4x60x512 B, 6x8x200 KB whose marshal/checksum windows overlap; concurrent runs execute in a child process so "
             "that a fatal error in a library goroutine is the outcome 'crash; thorough also 8x150x16 KiB, 8x100x8 KiB, 3x300x64 B). (f) Connection layer over wall-clock time: "
             "the unmodified NewConnection (ping goroutine, reader, reconnect) against the reference server on its own listener, in "
             "child processes that overlap the other cases (75 s watchdog, a hang is a reported failure): steady traffic for "
             "12.6..13.5 s on ONE session (gaps 250..750 ms, thorough also up to 6 s; pings answered; unknown pongs interspersed; every "
             "session also carries payloads around the reader's own-packet filter: pong magic with 3,4,5,8,11,12,13,16,20,76 bytes, ping "
             "magic, a TL answer magic, auth-nonce magic, payloads of 0,1,3 bytes); Status() and AverageRoundTrip() > 0 at the end; and "
             "histories drop -> reconnect -> traffic ('close: server closes the socket and a later write of the application fails; "
             "'silence: server stops sending and answering pings until the client gives up after 10 s), 3..5 sessions, the application "
             "reading the channel it took ONCE from Responses() and sending marked packets on every session; a session dropped early "
             "('close; thorough also 'close-'close and 'silence) whose successor then carries steady numbered traffic for 12 s, i.e. "
             "outlives every timer of its predecessors; the server delivers every handshake confirmation in two segments (cut after "
             "4 / 36 / 67 / 1 bytes in turn); number of handshakes, "
             "payloads received on that channel and marked packets decoded per session are compared with the model of "
             "Connection.reader / reconnect. (g) Packet.MagicType on payloads of 0..6 bytes and known magics. Oracles on the implementation: valid frames delivered intact, altered frames "
             "never delivered, truncation ends in EOF, receive loop delivers exactly the intact prefix, both session directions "
             "in order and intact, reference server completes the handshake, concurrent senders: the server decodes exactly N*K intact frames, per "
             "sender in order, encrypt and write calls alternate strictly, the ephemeral public keys of all handshakes of a sequence / of a Connection's "
             "sessions are pairwise different, wall-clock histories: exactly the scheduled sessions, every packet of every "
             "session received in order on the one channel (only the 12-byte tcp.pong and auth nonces are consumed), every marked packet "
             "decoded, Send leaves the caller's payload buffer unchanged, 8 MiB-64 round-trips and 8 MiB-63 is rejected "
             "(thorough). A class is (stream, segmentation / position / length bucket, size bucket, outcome)."),
    'explanation': ("coq/Properties/C11.v, for every hash with 32-byte output, every deterministic keystream generator and every key "
                    "agreement with dh a (pub b) = dh b (pub a): the specification server accepts the client's handshake, recovers the "
                    "parameters and mirrors the keys/nonces; every list of packets sent as one running stream is delivered in order "
                    "and intact under every segmentation with cipher states aligned after each packet (both directions, whole "
                    "session); altering nonce|payload or the checksum (any single byte/bit) gives a checksum error or exhibits "
                    "x<>x' with H x = H x'; an altered length field can only deliver a payload of another size; lengths outside "
                    "64..8 MiB are rejected after 4 bytes; truncation delivers the intact prefix and ends in EOF; for every number of "
                    "senders and every schedule of their lock / encrypt / write / unlock steps admitted by the connection mutex the "
                    "wire is send_all of the packets in lock-acquisition order (per-sender order preserved), and the variant that "
                    "unlocks before encrypt/write is refuted by a two-sender witness; a session's reader keeps running and delivers every "
                    "data packet for as long as no gap between arrivals reaches reconnectTimeout and the transport reports no error "
                    "(nothing else ends a session), and whatever any session's reader delivers reaches the channel returned once by "
                    "Responses(); a payload that starts with the pong magic is consumed iff it has exactly 12 bytes; the single-timer reader, the "
                    "channel-per-handshake, the pong-prefix (len >= 12), the one-Read handshake confirmation, the key pair cached across servers and the reader that survives "
                    "its closed channel are refuted in Proofs/AdnlHistory.v; the confirmation is parsed under every segmentation "
                    "(C11_confirmation_any_segmentation, C11_session_agrees). "
                    "coq/Properties/C11_gen.v re-checks params offsets 0/32/64/80/96/160, the key-id tag, the ParsePacket bounds and "
                    "operators, marshal/parse/handshake slice bounds and the cipher wiring translated from today's source."),
    'assumptions': ["SHA-256, AES-CTR and X25519 are parameters of the theorems (Section variables); corruption detection is reduced to an exhibited SHA-256 coincidence, not excluded",
                    "AES/X25519/Ed25519 correctness is trusted to the Go libraries (oracle columns); the Gallina SHA-256 is checked against crypto/sha256 by every compared frame",
                    "a modification that rewrites payload AND checksum consistently is accepted by design of the protocol (checksum, not MAC); the theorems cover alterations confined to one of the two regions and the length field",
                    "TCP timing and bufio internals are runtime; the reader is modelled as the list of segments",
                    "Connection.reader / reconnect are modelled over a list of arrivals with gaps in ms (timer = comparison of a gap with 10 s); gaps within scheduling jitter of exactly 10 s are not generated; how a closed session leads to the next handshake (failed write -> reconnect) is exercised by the wall-clock scenarios, not modelled",
                    "goroutines calling Connection.Send are modelled as an interleaving transition system with an atomic mutex; XORKeyStream and Write are atomic steps (a data race inside XORKeyStream is not modelled, the load runs exercise it)"],
}

META = {
    'text': ("Machine-checked proof (Coq), parametric in the hash, the stream cipher (any deterministic keystream generator) and the key "
             "agreement: a model of liteclient's ADNL transport (Packet.marshal, ParsePacket with its 64..8 MiB bounds over io.ReadFull on a "
             "segmented reader, handshake construction, send, handleIncomingPackets) against a server specification written from the ADNL-TCP "
             "protocol. Proved for all inputs: the server accepts the handshake, recovers the 160 parameter bytes and its tx/rx ciphers are the "
             "client's rx/tx ones; any list of packets sent as one continuous CTR stream is delivered in order and intact under every split "
             "into TCP segments, the two cipher states staying equal after every packet (both directions and the whole session); any "
             "alteration of nonce|payload or of the checksum, in particular any single byte or bit, is rejected or exhibits a SHA-256 "
             "collision; an altered length is rejected, runs into EOF or can only yield a payload of a different size; truncation never "
             "yields a wrong payload; several senders on one connection, in every interleaving admitted by the connection mutex, "
             "put exactly send_all of their packets in lock order on the wire (unlock-before-write variant refuted); a session lives as "
             "long as packets flow (only a 10 s silence or a transport error ends it) and all sessions of a Connection deliver into "
             "the one channel of Responses() (single-timer and channel-per-handshake designs refuted). The extracted model is run against the real client (loopback TCP session with a reference server, "
             "deterministic crypto/rand; also 2..8 goroutines sending concurrently through the real Connection.Send, and a "
             "transport that holds one Write to let a second sender overtake, and the unmodified NewConnection over 13 s of steady "
             "traffic and over drop/reconnect histories in wall-clock time) and against ParsePacket / the receive loop on corrupted, truncated and re-segmented streams; "
             "constants and slice bounds are re-translated from the source and checked by vm_compute."),
    'design_ref': 'DESIGN.md §6 C11',
    'note': ("Trusted: Coq kernel, extraction, drivers, Go harness incl. its reference server, Go crypto libraries (AES-CTR keystreams and "
             "X25519 results enter the model as oracle columns). Corruption detection is reduced to a named SHA-256 coincidence. Of the "
             "Connection layer the reader's pong/auth filter, its silence timer, reconnect and the Responses() channel are covered; "
             "the auth handshake (authKey) is outside this property."),
    'technique': 'Coq proof over an abstract stream cipher/hash (induction over packet lists, segmentation independence) + extracted-model correspondence with deterministic randomness + translated-constant obligations',
}

# ROUND-8-APPEND
PROP['rule'] += " (h) slow consumer (oracle only, child processes overlapping the other cases): NewConnection against the reference server, the server sends 2..5 numbered packets at once (one of 4..34 KB; one Write or back to back), the application takes Responses() once and reads nothing / only the first packet for 11..12 s (> reconnectTimeout; pings answered meanwhile; thorough also 21 s, 10.2 s with two pending, 4..9 s), then must receive every packet in order and intact with exactly 1 handshake, after which a marked packet must be decoded by the server and its answer received; the same on handleIncomingPackets over net.Pipe (1..4 frames, 10.3..11.2 s; thorough 21 s and 31 s): the channel is not closed and a later frame is delivered. (i) source obligation Properties/C11_gen_r8.v over Generated/ConnSends.v (translator genC11r8: every XORKeyStream on the tx cipher, other mention of that field, conn.Write and call of a connection-layer function in package liteclient, with enclosing function, mu-held and go/defer/closure flags): C11_gen_tx_stream_single_writer - tx XOR only in encryptedConn.send, Write only in send/handshake, every call of send made under the receiver's mu (directly or because all callers hold it) or in a session set-up function, set-up functions called only from newEncryptedConnection / setupEncryptedConnection."

# ROUND-8-META
META['text'] += ' Round 8: a source obligation (C11_gen_tx_stream_single_writer, vm_compute over the call sites the translator extracts from package liteclient on every run) states that the tx cipher stream has a single serialised writer: the XOR only in encryptedConn.send, every call of send under the connection mutex or in session set-up - a syntactic over-approximation of the lock discipline, beside the run-time scenarios (slow consumer, concurrent senders).'
