PROP = {
    'level': 'proof',
    'coq': ['Properties/C06.v'],
    'coq_gen': ['Properties/C06_gen.v'],
    'rule': ("operation sequences on boc.BitString from one PRNG: planned write-then-read sequences "
             "(all writers/readers, widths 0..64 biased to 0,1,7,8,9,56,57,63,64, big widths 1..257, "
             "random 0..16 bit pad to vary alignment, direct round-trip oracle), random op soup with "
             "overflow/underflow/reset (prefix-preservation oracle), fast-path sweep offset x width "
             "(exhaustive 1024x65 in the thorough tier) checked against the ideal bit list, Fift hex of "
             "every length (thorough) + malformed strings, minBitsRequired on 2^k, 2^k-1, 2^k+1; "
             "kind c06.derived (1600 scripts quick / 120000 thorough over 6 registers, each a BitString or a "
             "Cell driven through the Cell methods): a source prefix|window|tail (prefix a multiple of 8 bits in "
             "75% so that the read cursor is byte-aligned, window width from 1,2,3,4,5,6,7,9,..,63,65,100,257 i.e. "
             "not a multiple of 8, tail all ones in 65%), then a DERIVED string = the result of ReadBits(window) / "
             "ReadRemainingBits / Copy / Cell.RawBitString, optionally derived a second time (Copy, Skip+"
             "ReadRemainingBits, ReadBits of a part), then 1..3 writes INTO the derived string (Append of another "
             "string, Grow + WriteBit/WriteUint/WriteBytes/WriteBitArray/WriteBitString, WriteBitString without "
             "room, all-zero payload in 55%), and after every stage the observables state(len, readable, writable, "
             "bits) / ToFiftHex / BinaryString / GetTopUppedArray, a full read-back with ReadUint widths 1..64 or "
             "ReadBits, and a read past the end (one of 15 readers incl. ReadInt(1), must fail and leave the state). "
             "Every observable is compared with the extracted model, which is byte-faithful about the buffer of the "
             "returned strings (stale source bits after the length of an aligned ReadBits result), AND, on the Go "
             "side, with the ideal bit list kept by the generator (keys derived-state, derived-fift, derived-bin, "
             "derived-topup, derived-ruint, derived-<op>): zero bits written must read back as zeros, the Fift text "
             "and the topped-up bytes must be those of the ideal list. "
             "A class is (case kind, generator family, alignment / width bucket or derivation tags "
             "cell|rbits|rrem|copy|raw|chain|aligned|odd|zeros, outcome ok|err|panic); "
             "distinct_nontrivial counts the distinct classes that occurred."),
    'explanation': ("Theorems in coq/Properties/C06.v hold for the Gallina model of boc/bitString.go for all "
                    "inputs. The invariant Inv under which every writer and reader refines the ideal bit list "
                    "constrains lengths only, never the buffer bits past len: C06_writers_ignore_stale_bits states the "
                    "writer theorem for a buffer given as ideal content ++ ARBITRARY junk; C06_read_bits_result / "
                    "C06_read_remaining_result / C06_copy / C06_grow show that the strings returned by ReadBits, "
                    "ReadRemainingBits, Copy and Grow satisfy Inv with the expected ideal content although their last "
                    "byte keeps the source's following bits (C06_read_bits_result_keeps_stale_bits, concrete); "
                    "C06_append, C06_to_fift_on_buffer, C06_top_upped: Append, ToFiftHex and GetTopUppedArray computed "
                    "on the real buffer equal the ideal-list result. This rests on WriteBit(false) clearing its bit: "
                    "for a WriteBit whose false branch only checks the range the same statements are refuted with "
                    "witnesses (C06_*_noclear_refuted: source 0xBFFF, aligned ReadBits(1), Append of 5 zeros reads "
                    "101111; ToFiftHex F_ instead of C_; topped-up byte FF instead of C0) and hold only for all-zero junk "
                    "(C06_noclear_unobservable_on_zero_junk) — which is why fresh buffers and unit tests do not see it. "
                    "coq/Properties/C06_gen.v re-checks the de Bruijn table, the integer literals of "
                    "minBitsRequired and the suffixToBits map translated from today's source; the extracted "
                    "model is run against the Go implementation on every generated case."),
    'assumptions': ["slice aliasing is not modelled: ReadBytes results alias the buffer; Cell.RawBitString shares the cell's "
                    "buffer (the generator retires the source cell after taking it)",
                    "negative widths and negative Grow arguments (Go panics / shrinks cap) are outside the property's quantifier"],
}

META = {
    'text': ("Machine-checked proof (Coq) that the model of boc/bitString.go refines an ideal bit list: every "
             "writer appends exactly its encoding or fails with Overflow keeping the prefix, every reader "
             "(incl. the three ReadUint paths and the 16-bit load of ReadByte, at every alignment) returns the "
             "decoding of the next bits or NotEnoughBits with the state unchanged, write-then-read over item "
             "lists of any length, two's complement, minBitsRequired = N.size via the de Bruijn table, Fift hex "
             "round trip. The model is tied to the code by running the extracted model against the Go "
             "implementation on generated operation sequences and by obligations over tables translated from "
             "the source. Strengthened: a byte-faithful model (Model/BitStringD.v) of the strings RETURNED by ReadBits / "
             "ReadRemainingBits / Copy and of Grow, Append, WriteBitString, ToFiftHex, GetTopUppedArray, with 15 new "
             "theorems: every writer and every observable refines the ideal list for ANY buffer bits past len (the last "
             "byte of an aligned ReadBits result keeps the source's following bits), and the same statements are refuted "
             "with witnesses for a WriteBit(false) that does not clear its bit (true only for all-zero junk). New generator "
             "kind c06.derived: derive a string from a source prefix|window|tail (also through the Cell methods), write "
             "into the derived string, observe state / ToFiftHex / BinaryString / GetTopUppedArray / read-back after every "
             "stage; compared with the extracted model and, on the Go side, with the ideal bit list kept by the generator."),
    'design_ref': 'DESIGN.md §6 C06',
    'note': ("Trusted: Coq kernel, extraction (ExtrOcamlBasic), OCaml driver, Go harness; the model is "
             "hand-written and validated by differential execution, not derived from the Go source. Aliasing of "
             "returned slices and negative widths are not modelled; likewise Cell.RawBitString sharing the cell's buffer "
             "(the generator retires the source cell after taking it) and negative Grow arguments. Side finding on the "
             "unchanged tree, not repaired and not part of C06 (belongs to C01/C02): boc.NewCellWithBits of a byte-aligned "
             "ReadBits(n) result, n%8 != 0, copies the raw buffer, so stale source bits enter the cell hash and the BOC."),
    'technique': ('Coq refinement proof + extracted-model correspondence + translated-table obligations '
                  '+ byte-faithful model of derived bit strings (stale bits past len)'),
}
