PROP = {
    'level': 'proof',
    'coq': ['Properties/C14.v'],
    'coq_gen': ['Properties/C14_gen.v'],
    'rule': ("wallet.New + RawSendV2 against a capturing blockchain interface for V3R1/V3R2/V4R1/V4R2/V5Beta/V5R1/HighLoadV2R2 x fixed and "
             "random Ed25519 seeds x workchain / sub-wallet / network-id options (incl. -1, 255, 256, 2^31, explicit default 698983191) x "
             "seqno and valid-until at the uint32 boundaries (0, 1, 2^31, 2^32-1, 2^32, negative) x 0..5 messages for every version, the "
             "limits max-1 / max / max+1 / max+2 of the big versions (254/255/254) and mid sizes, message cells = marshalled wallet.Message / "
             "SimpleTransfer (amounts up to 2^64-1, bounce, modes 0..255, bodies, code+data, comments 0..1000 bytes) or random cell trees, "
             "x no / own / foreign state-init: the hash and bits of the external message and the bits of the body are compared with the "
             "extracted model (signature and highload random given as oracle columns); CreateMessageBody with Sendables and every V5 message "
             "type, where the model computes the carried cells itself from the Sendable fields (amount 0..2^64-1, workchain, address, "
             "bounce, mode, body, code+data, text comment of 0..1000 bytes as snake data; wallet.ContractDeploy into workchains 0, -1, 1, 5, 127, "
             "-128 with code / data / body given as *boc.Cell, BOC bytes, hex or base64 string, and without data = refused) through the "
             "tlb.Message descriptor, the destination of a deployment being (workchain, hash of its StateInit); VerifySignature / MessageV5VerifySignature with own key, another key, a 31-byte key, other versions, sampled single-bit "
             "flips, truncated / reference-dropped / random bodies (the Ed25519 verdict over the independently cut signed part is an oracle "
             "table; the checked hash is part of the compared result); Decode*/ExtractRawMessages of own, cross-version and malformed bodies; "
             "v5r1 CreateSignedMsgBodyCell with 0..4 extended actions (add / remove extension with addr_std (anycast or not), addr_none, "
             "addr_extern, addr_var; set_signature_allowed both ways; every V5 message type): body bits and hash, then the message "
             "around it verified, bit-flipped and decoded (messages AND extended actions compared); the same signed body re-wrapped by "
             "tlb.Marshal under 7 other envelopes (destination anycast + external source + import fee; init inline; init by reference "
             "with a library dictionary; init inline with libraries; body inline and any destination form; internal message with "
             "extra currencies; external-out message): verification verdict and decoding vs the model, which starts from the full "
             "message cell; Wallet.CreateMessageBody on wallets created with / without WithMessageLifetime (none, 30 s, 1 s, 24 h, 7 d, "
             "0, 1.5 s, -5 s, 180 s) x the other options x zero / explicit ValidUntil x every version (kind c14.expiry): the expiry the "
             "body carries, relative to the clock for a default expiry, vs the model whose clock is a parameter; the same wallet through "
             "SendV2 must carry the same default expiry; the same Sendables through EVERY sending entry point (kind c14.entry: Send, SendV2, "
             "RawSend, RawSendV2, CreateMessageBody on a non-existent account) with every field explicitly zero (mode 0, amount 0, bounce "
             "false, workchain 0, sub-wallet 0, network id 0, seqno 0, valid_until 0) and random mixes: wallet id, seqno and the carried "
             "(cell, mode) list vs the model; oracles: each list equals the request and all entry points agree (zero is a value, not "
             "'unset'). "
             "Oracles on the implementation: returned hash = hash of the payload, signature valid over the hash of the signed part cut by "
             "position, accepted under the own key, rejected as ErrBadSignature under another key, EVERY single-bit flip of the signed bits "
             "+ 16 signature bits + every referenced cell rejected, ExtractRawMessages = the requested (cell, mode) list in order, decoded "
             "expiry/seqno = requested, destination = wallet address, more than the limit refused with nothing sent; every Sendable's carried "
             "internal message read back with the library's decoder has the requested destination (for ContractDeploy: workchain + "
             "independently computed StateInit hash), amount, bounce, mode and code/data (key c14-transfer-fields). "
             "A class is (kind, family, version, size bucket, init / message type / mutation, outcome)."),
    'explanation': ("coq/Properties/C14.v, for the Gallina model of createSignedMsgBodyCell of all seven versions, signBodyCell, the payload "
                    "codecs, CreateExternalMessage, VerifySignature, MessageV5VerifySignature, the decoders and ExtractRawMessages, for ANY "
                    "cell-hash function and ANY signature primitives: VerifySignature accepts iff the primitive accepts the signature at the "
                    "layout's position over the hash of the remaining bits and all references; every message RawSendV2 builds verifies under "
                    "its key; under an ideal signature no other key and (with no second preimage of the signed cell) no message with a changed "
                    "signed bit or reference verifies; decoding returns the wallet id, expiry, seqno and exactly the requested messages and "
                    "modes in order for every count up to the limit (highload through the dictionary theorems of C05); more than 4/4/254/255/254 "
                    "messages is an error; body layouts bit by bit; v5r1 extended actions: layout (first action inline, the rest chained by "
                    "references), the signature covers them, decoding returns them in order; the message decoder is modelled for every "
                    "CommonMsgInfo constructor, MsgAddress form (anycast), init absent / by reference / inline with any StateInit incl. "
                    "library dictionaries, body by reference / inline, with a round-trip theorem (C14_envelope_roundtrip) and "
                    "C14_any_envelope_roundtrip: a built body under ANY such envelope decodes to the requested fields and verifies; "
                    "C14_transfer_roundtrip / C14_transfers_carried: each carried cell is the tlb.Message encoding (C03 descriptor codec) of "
                    "the requested (amount, destination, bounce, body, init, mode) and decoding the cells extracted from the sent message "
                    "yields exactly the requested transfer list; C14_deploy_carried: a ContractDeploy into workchain W is carried as a message to "
                    "(W, hash of the StateInit of code and data) with that StateInit attached (the workchain-dropping design is refuted in "
                    "Proofs/WalletHistory.v); C14_create_message_body_expiry: CreateMessageBody signs the explicit expiry or "
                    "now + the lifetime the wallet was configured with (clock a parameter), the value SendV2 takes too "
                    "(C15_api_send_v2_expiry); the constant-lifetime design and the 'mode 0 means unset' design of Send are refuted in "
                    "Proofs/WalletHistory.v; the carried modes are the requested ones through RawSend/RawSendV2 (C14_transfers_carried), "
                    "Send/SendV2 (C15_api_send_v2_expiry: extract_raw = ms) and CreateMessageBody (C14_create_message_body_expiry: d_msgs = ms). "
                    "coq/Properties/C14_gen.v re-checks limits, opcodes and the action magic "
                    "translated from today's wallet/*.go."),
    'assumptions': ["Ed25519 and the cell hash are parameters; 'no other key' / 'changed bit' hold under the stated hypotheses ideal_signature and no_second_preimage (idealisations, not proved of Ed25519/SHA-256)",
                    "highload message cells must be ordinary cell trees (the dictionary model of C05 has no exotic cells); other versions allow any cell",
                    "dictionaries inside an envelope (libraries, extra currencies) and the highload payload go through C05's ordinary-cell dictionary model: a dictionary containing an exotic cell answers Unmodelled (never generated)",
                    "MsgAddress bits are those of C03's TlbCore.addr_bits / addr_parse (law C03_msgaddress_law)",
                    "the internal message of a transfer is modelled as the C03 codec-model encoding of the tlb.Message descriptor (C14_gen: equal to the translated one); transfers = wallet.Message / SimpleTransfer fields (amount, destination, bounce, body or text comment, code+data, mode); ExtraCurrency of SimpleTransfer is not generated",
                    "V5Beta is not supported by VerifySignature (observation); MessageV5VerifySignature is the entry point used for it",
                    "the highload query id's low half is math/rand: reseeded per case and given to the model as a column"],
}

META = {
    'text': ("Machine-checked proof (Coq) over a model of the wallet message builders and checkers, parametric in the cell hash and in "
             "Ed25519: for all seven sendable versions, all keys, seqnos, expiry times, option sets and message lists, the external message "
             "built by RawSendV2 parses back to its body, verifies under the signing key (given only that the primitive accepts its own "
             "signatures), is rejected under every other 32-byte key and after any change of a signed bit or reference (under an ideal "
             "signature and no second preimage of the signed cell, both explicit hypotheses), and decodes to the same wallet id, expiry, "
             "seqno and exactly the requested (message, mode) list in order; sends above 4/4/254/255/254 messages are refused; "
             "VerifySignature is characterised as 'iff the primitive accepts (signature at the layout position, hash of the rest)'. The "
             "extracted model (Gallina SHA-256 representation hash; signatures as oracle columns) reproduces hashes and bits of the "
             "implementation's messages, its verification verdicts incl. the hash that was checked, and its decoders on ~760 (quick) / "
             "~3900 (thorough) cases; the implementation is additionally checked on every single-bit flip of every kept message."),
    'design_ref': 'DESIGN.md §6 C14/C15, §7 F11',
    'note': ("One defect repaired in /repo (F11: a highload body with no messages was written as 'present dictionary -> empty cell' and "
             "could not be decoded by the library itself; now HashmapE). Trusted: Coq kernel, extraction, drivers, Go harness; Ed25519 is "
             "never computed by the model. The highload dictionary reuses C05's model and theorems."),
    'technique': 'Coq model + layout / round-trip / signature theorems under explicit idealisations; extracted-model correspondence with oracle columns; exhaustive bit-flip oracle on the implementation; translated-constant obligations',
}

# ROUND-8-APPEND-2
PROP['rule'] += ' Round 8: representation independence of the expiry (c14_r8.go; classes expiry-rep|..., entry-rep|..., body-rep|..., payload-rep|...): for every version and with / without WithMessageLifetime, an unset ValidUntil given in 17 representations of the zero instant (Time{}, UTC(), Local(), fixed zones, JSON/text/binary decoded with an offset, Unix(-62135596800,0), Date(1,1,1) in a zone, Add(0)/Round(0)) and set expiries given in 10 representations (Local/UTC/fixed zones, monotonic reading, JSON/binary round trip, +999999999 ns, Date in +14h) through CreateMessageBody (kind c14.expiry), RawSend, RawSendV2 and CreateMessageBody (kind c14.entry; the zero instant too for RawSend/RawSendV2) vs the model, whose expiry is an option Z with no representation; oracle c14-expiry-representation: result = result of the canonical representation, also for the whole signed body, the v5r1 CreateSignedMsgBodyCell with extended actions and the RawSendV2 payload; oracle c14-option-representation: Sendables by value / by pointer, empty / absent Sendable list, nil / empty raw message slice and an equal option list give the same body.'
